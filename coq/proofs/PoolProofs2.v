(* C09, part 2: the multi-pass post-processing, Program.run and the XMAP writer commute with / are blind to the erasure of
   AlignedPair.source; hence whole runs under any two schedules print the same data lines. *)
From Coq Require Import ZArith QArith List Bool Lia.
Import ListNotations.
Require Import Py Pairing Core Multi Coordinator Pool SrcErase PoolProofs1 RowEq FreshProofs.
Require ModesProofs4.
Open Scope Z_scope.

Lemma Ok_inj {A} (a b : A) : Ok a = Ok b -> a = b. Proof. intros H. injection H as H. exact H. Qed.

(* ---------- second-pass fragments read only header fields and site ids ---------- *)
Lemma unaligned_fragments_E w qpos : unaligned_fragments (erase_row w) qpos = unaligned_fragments w qpos.
Proof. unfold unaligned_fragments. cbn [erase_row rsegs qid qlen Multi.qs qe rrev]. cbv zeta.
  rewrite sorted_pairs_E, <- map_rev, !hd_pv_E. reflexivity. Qed.
Lemma all_fragments_E rows qs : all_fragments (map erase_row rows) qs = all_fragments rows qs.
Proof. induction rows as [|w t IH]; [reflexivity|]. cbn [map all_fragments]. rewrite IH.
  change (qlen (erase_row w)) with (qlen w). change (Multi.qs (erase_row w)) with (Multi.qs w).
  change (qe (erase_row w)) with (qe w). change (qid (erase_row w)) with (qid w).
  destruct (4 * qlen w <? 5 * Z.abs (Multi.qs w - qe w)); [reflexivity|].
  destruct (find_query qs (qid w)) as [q|]; cbn [bind]; [|reflexivity].
  rewrite unaligned_fragments_E. reflexivity. Qed.

(* ---------- AlignmentResults ---------- *)
Lemma heads_E (gs : list (list row)) :
  flat_map (fun g => match g with [] => [] | x :: _ => [x] end) (map (map erase_row) gs) =
  map erase_row (flat_map (fun g => match g with [] => [] | x :: _ => [x] end) gs).
Proof. induction gs as [|g t IH]; [reflexivity|]. cbn [map flat_map]. rewrite IH, map_app. destruct g; reflexivity. Qed.
Lemma filter_subsequent_E rows : filter_subsequent (map erase_row rows) = map erase_row (filter_subsequent rows).
Proof. unfold filter_subsequent.
  rewrite (sort_by_map_key erase_row _ (fun w => - conf w)) by reflexivity.
  rewrite (sort_by_map_key erase_row _ qid) by reflexivity.
  rewrite (groupby_map_key erase_row _ qid) by reflexivity.
  apply heads_E. Qed.

Lemma join_rows_E a b : join_rows (erase_row a) (erase_row b) = map_res erase_row (join_rows a b).
Proof. unfold join_rows, first_pair_rpos, seg0. cbn [erase_row rsegs qid rid qlen rlen rrev]. rewrite !row_pairs_E.
  destruct (row_pairs (rsegs a)) as [|pa ta]; [reflexivity|]. cbn [map bind]. rewrite pair_rpos_E.
  destruct (row_pairs (rsegs b)) as [|pb tb]; [reflexivity|]. cbn [map bind]. rewrite pair_rpos_E.
  destruct (rsegs a) as [|sa sta]; [reflexivity|]. cbn [map bind].
  destruct (rsegs b) as [|sb stb]; [reflexivity|]. cbn [map bind].
  rewrite !ES_er, !er_resolve_pair.
  destruct (pair_rpos pa <? pair_rpos pb).
  - destruct (resolve_pair sa sb) as [[x y]|]; cbn [rmap bind map_res]; [|reflexivity].
    unfold er_pair. cbn [fst snd]. rewrite <- ES_er. change [erase_segment x; erase_segment y] with (map erase_segment [x; y]).
    rewrite row_create_E. reflexivity.
  - destruct (resolve_pair sb sa) as [[x y]|]; cbn [rmap bind map_res]; [|reflexivity].
    unfold er_pair. cbn [fst snd]. rewrite <- ES_er. change [erase_segment x; erase_segment y] with (map erase_segment [x; y]).
    rewrite row_create_E. reflexivity. Qed.

Lemma joined_ok_E j : joined_ok (erase_row j) = joined_ok j.
Proof. exact (row_has_pairs_E j). Qed.
Definition erase_2 (js : list row * list row) : list row * list row := (map erase_row (fst js), map erase_row (snd js)).
Lemma resolve_groups_E m groups : resolve_groups m (map (map erase_row) groups) = map_res erase_2 (resolve_groups m groups).
Proof. induction groups as [|g t IH]; [reflexivity|]. cbn [map resolve_groups]. rewrite IH.
  destruct (resolve_groups m t) as [r|]; cbn [bind map_res]; [|reflexivity].
  destruct g as [|x [|y u]]; cbn [map]; [destruct r; reflexivity|reflexivity|].
  rewrite check_overlap_E. destruct (check_overlap x y m).
  - rewrite join_rows_E. destruct (join_rows x y) as [j|]; cbn [bind map_res]; [|reflexivity]. rewrite joined_ok_E.
    destruct (joined_ok j); [reflexivity|]. unfold erase_2. cbn [fst snd map_res]. rewrite map_app. reflexivity.
  - unfold erase_2. cbn [fst snd map_res]. rewrite map_app. reflexivity. Qed.
Lemma by_query_E (gs : list (list row)) :
  flat_map (fun byref => groupby qid (sort_by qid byref)) (map (map erase_row) gs) =
  map (map erase_row) (flat_map (fun byref => groupby qid (sort_by qid byref)) gs).
Proof. induction gs as [|g t IH]; [reflexivity|]. cbn [map flat_map]. rewrite IH, map_app. f_equal.
  rewrite (sort_by_map_key erase_row _ qid) by reflexivity. apply groupby_map_key. reflexivity. Qed.
Lemma results_resolve_E rows m : results_resolve (map erase_row rows) m = map_res erase_2 (results_resolve rows m).
Proof. unfold results_resolve.
  rewrite (sort_by_map_key erase_row _ rid) by reflexivity.
  rewrite (groupby_map_key erase_row _ rid) by reflexivity.
  rewrite by_query_E. apply resolve_groups_E. Qed.

Lemma map_set_rest_E rows : map set_rest (map erase_row rows) = map erase_row (map set_rest rows).
Proof. rewrite !map_map. reflexivity. Qed.

(* repair F12 (`row not in filteredFirstPassRows`): on first-pass rows (AlignedRest = False) and second-pass rows (set_rest: True) the
   membership test only depends on (query id, AlignedRest) (FreshProofs.fresh_rows_map), which erasure keeps *)
Lemma multi_post_E m maxdiff rows1 rows2 : Forall (fun w => rest w = false) rows1 ->
  multi_post m maxdiff (map erase_row rows1) (map erase_row rows2) = map_res erase_outputs (multi_post m maxdiff rows1 rows2).
Proof. intros HR.
  assert (HF : pass_flags rows1 (map set_rest rows2)).
  { split; [exact HR|]. apply Forall_forall. intros w Hw. apply in_map_iff in Hw. destruct Hw as (y & <- & _). reflexivity. }
  pose proof (fresh_rows_map erase_row (fun _ => eq_refl) (fun _ => eq_refl) filter_subsequent_E m rows1 (map set_rest rows2) HF) as X.
  unfold fresh_rows, first_rows in X. rewrite <- map_set_rest_E in X.
  unfold multi_post. cbv zeta. rewrite X. clear X. rewrite map_set_rest_E.
  assert (H1 : filter_subsequent (match m with Best => map erase_row rows1 ++ map erase_row (map set_rest rows2) | _ => map erase_row rows1 end)
               = map erase_row (filter_subsequent (match m with Best => rows1 ++ map set_rest rows2 | _ => rows1 end))).
  { destruct m; rewrite <- ?map_app; apply filter_subsequent_E. }
  rewrite H1, filter_subsequent_E, <- map_app, results_resolve_E. clear H1.
  set (f1 := filter_subsequent (match m with Best => rows1 ++ map set_rest rows2 | _ => rows1 end)).
  set (f2 := filter_subsequent (map set_rest rows2)).
  destruct m; try reflexivity; destruct (results_resolve (f1 ++ _) maxdiff) as [js|]; cbn [bind map_res]; try reflexivity.
  unfold erase_2. cbn [fst snd]. unfold erase_outputs. cbn [o_main o_1 o_2 option_map]. f_equal. f_equal.
  rewrite map_map. cbn [erase_row qid].
  rewrite (filter_map_key erase_row _ (fun w => negb (mem_z (qid w) (map qid (fst js))))) by reflexivity.
  rewrite <- map_app. apply sort_by_map_key. reflexivity. Qed.

(* the rows a pool pass returns are first-pass candidates: AlignedRest = False *)
Lemma pool_results_rest P seeds refs qs : forall its rs, pool_results P seeds refs qs its = Ok rs ->
  Forall (fun w => rest w = false) (keep_rows rs).
Proof. induction qs as [|q t IH]; intros its rs H; cbn [pool_results] in H.
  - injection H as <-. constructor.
  - destruct (align_query P seeds refs q (its 0%nat)) as [r|] eqn:Ea; [|discriminate]. cbn [bind] in H.
    destruct (pool_results P seeds refs t (fun k => its (S k))) as [rs'|] eqn:Et; [|discriminate]. cbn [bind] in H. injection H as <-.
    unfold keep_rows. cbn [flat_map]. apply Forall_app. split; [|apply (IH _ _ Et)].
    destruct (fst r) as [w|] eqn:Ew; [|constructor]. destruct (row_has_pairs w); constructor; [|constructor].
    apply (ModesProofs4.align_query_rest _ _ _ _ _ _ _ Ea Ew). Qed.
Lemma pool_execute_rest P seeds refs qs its a : pool_execute P seeds refs qs its = Ok a -> Forall (fun w => rest w = false) a.
Proof. unfold pool_execute. destruct (pool_results P seeds refs qs its) as [rs|] eqn:E; [|discriminate]. cbn [bind]. intros H. injection H as <-.
  apply (pool_results_rest _ _ _ _ _ _ E). Qed.

(* ---------- whole runs ---------- *)
Lemma pool_multi_execute_NI P seeds m maxdiff refs qs its1 its2 its1' its2' :
  map_res erase_outputs (pool_multi_execute P seeds m maxdiff refs qs its1 its2) =
  map_res erase_outputs (pool_multi_execute P seeds m maxdiff refs qs its1' its2').
Proof. unfold pool_multi_execute.
  pose proof (pool_execute_NI P seeds refs qs its1 its1') as H.
  destruct (pool_execute P seeds refs qs its1) as [a|] eqn:Ea, (pool_execute P seeds refs qs its1') as [a'|] eqn:Ea'; cbn in H; try discriminate; [|reflexivity].
  injection H as H. cbn [bind].
  assert (HF : all_fragments a qs = all_fragments a' qs) by (rewrite <- (all_fragments_E a), <- (all_fragments_E a'), H; reflexivity).
  rewrite HF. destruct (all_fragments a' qs) as [frags|]; cbn [bind]; [|reflexivity].
  pose proof (pool_execute_NI P seeds refs frags its2 its2') as H2.
  destruct (pool_execute P seeds refs frags its2) as [b|], (pool_execute P seeds refs frags its2') as [b'|]; cbn in H2; try discriminate; [|reflexivity].
  injection H2 as H2. cbn [bind].
  rewrite <- !multi_post_E by (eapply pool_execute_rest; eassumption). rewrite H, H2. reflexivity. Qed.

Definition final_filter (o : outputs) : outputs := mkOut (filter_subsequent (o_main o)) (o_1 o) (o_2 o).
Lemma final_filter_E o : final_filter (erase_outputs o) = erase_outputs (final_filter o).
Proof. unfold final_filter, erase_outputs. cbn [o_main o_1 o_2]. rewrite filter_subsequent_E. reflexivity. Qed.

Lemma pool_program_run_NI P seeds m maxdiff refs qs its1 its2 its1' its2' :
  map_res erase_outputs (pool_program_run P seeds m maxdiff refs qs its1 its2) =
  map_res erase_outputs (pool_program_run P seeds m maxdiff refs qs its1' its2').
Proof. unfold pool_program_run. pose proof (pool_multi_execute_NI P seeds m maxdiff refs qs its1 its2 its1' its2') as H.
  destruct (pool_multi_execute P seeds m maxdiff refs qs its1 its2) as [o|], (pool_multi_execute P seeds m maxdiff refs qs its1' its2') as [o'|];
    cbn [map_res] in H; try discriminate; [|reflexivity].
  apply Ok_inj in H. cbn [bind map_res]. fold (final_filter o) (final_filter o'). rewrite <- !final_filter_E, H. reflexivity. Qed.

(* ---------- the writer never looks at source ---------- *)
Lemma xrow_of_E w : xrow_of (erase_row w) = xrow_of w.
Proof. unfold xrow_of. cbn [erase_row rsegs qid rid qlen rlen Multi.qs qe rs re rrev conf rest]. rewrite site_pairs_E. reflexivity. Qed.
Lemma mapM_xrow_E rows : mapM_res xrow_of (map erase_row rows) = mapM_res xrow_of rows.
Proof. induction rows as [|w t IH]; [reflexivity|]. cbn [map mapM_res]. rewrite xrow_of_E, IH. reflexivity. Qed.
Lemma file_lines_E rows : file_lines (map erase_row rows) = file_lines rows.
Proof. unfold file_lines. rewrite mapM_xrow_E. reflexivity. Qed.
Lemma opt_lines_E o : opt_lines (option_map (map erase_row) o) = opt_lines o.
Proof. destruct o as [rows|]; [|reflexivity]. cbn [option_map opt_lines]. rewrite file_lines_E. reflexivity. Qed.
Lemma print_outputs_E o : print_outputs (erase_outputs o) = print_outputs o.
Proof. unfold print_outputs, erase_outputs. cbn [o_main o_1 o_2]. rewrite !opt_lines_E, file_lines_E. reflexivity. Qed.

Lemma printed_schedule_independent P seeds m maxdiff refs qs its1 its2 its1' its2' :
  bind (pool_program_run P seeds m maxdiff refs qs its1 its2) print_outputs =
  bind (pool_program_run P seeds m maxdiff refs qs its1' its2') print_outputs.
Proof. pose proof (pool_program_run_NI P seeds m maxdiff refs qs its1 its2 its1' its2') as H.
  destruct (pool_program_run P seeds m maxdiff refs qs its1 its2) as [o|], (pool_program_run P seeds m maxdiff refs qs its1' its2') as [o'|];
    cbn [map_res] in H; try discriminate; [|reflexivity].
  apply Ok_inj in H. cbn [bind]. rewrite <- (print_outputs_E o), <- (print_outputs_E o'), H. reflexivity. Qed.

(* ---------- Coordinator.program_run is one of the schedules ---------- *)
Lemma multi_execute_post P seeds m maxdiff refs qs :
  multi_execute P seeds m maxdiff refs qs =
  (do r1 <- execute P seeds refs qs 1; do frags <- all_fragments (fst r1) qs; do r2 <- execute P seeds refs frags (snd r1);
   multi_post m maxdiff (fst r1) (fst r2)).
Proof. reflexivity. Qed.

Lemma program_run_is_pool P seeds m maxdiff refs qs :
  exists its1 its2, program_run P seeds m maxdiff refs qs = pool_program_run P seeds m maxdiff refs qs its1 its2.
Proof.
  exists (seq_its seeds refs qs 1).
  exists (match execute P seeds refs qs 1 with
          | Ok r1 => match all_fragments (fst r1) qs with Ok frags => seq_its seeds refs frags (snd r1) | Err => fun _ => 0 end
          | Err => fun _ => 0 end).
  unfold program_run, pool_program_run, pool_multi_execute. rewrite multi_execute_post. f_equal.
  pose proof (execute_is_pool P seeds refs qs 1) as H1. rewrite <- H1.
  destruct (execute P seeds refs qs 1) as [r1|]; cbn [bind map_res]; [|reflexivity].
  destruct (all_fragments (fst r1) qs) as [frags|]; cbn [bind]; [|reflexivity].
  pose proof (execute_is_pool P seeds refs frags (snd r1)) as H2. rewrite <- H2.
  destruct (execute P seeds refs frags (snd r1)) as [r2|]; reflexivity. Qed.

(* ---------- row-level observables ---------- *)
Lemma crow_of_E w : crow_of (erase_row w) = crow_of w.
Proof. unfold crow_of. cbn [erase_row rsegs qid rid qlen rlen Multi.qs qe rs re rrev conf rest]. rewrite site_pairs_E. reflexivity. Qed.
Lemma map_crow_of_E rows : map crow_of (map erase_row rows) = map crow_of rows.
Proof. rewrite map_map. apply map_ext. exact crow_of_E. Qed.
Lemma candidate_rows_crow P q sds it1 it2 :
  map_res (fun r => map crow_of (fst r)) (candidate_rows P q sds it1) = map_res (fun r => map crow_of (fst r)) (candidate_rows P q sds it2).
Proof. pose proof (candidate_rows_NI P q sds it1 it2) as H.
  destruct (candidate_rows P q sds it1) as [r1|], (candidate_rows P q sds it2) as [r2|]; cbn [map_res] in H; try discriminate; [|reflexivity].
  apply Ok_inj in H. unfold rows_of in H. cbn [map_res]. rewrite <- (map_crow_of_E (fst r1)), <- (map_crow_of_E (fst r2)), H. reflexivity. Qed.
Lemma align_query_crow P seeds refs q it1 it2 :
  map_res (fun r => option_map crow_of (fst r)) (align_query P seeds refs q it1) =
  map_res (fun r => option_map crow_of (fst r)) (align_query P seeds refs q it2).
Proof. pose proof (align_query_NI P seeds refs q it1 it2) as H.
  destruct (align_query P seeds refs q it1) as [r1|], (align_query P seeds refs q it2) as [r2|]; cbn [map_res] in H; try discriminate; [|reflexivity].
  apply Ok_inj in H. unfold best_of in H. cbn [map_res]. f_equal.
  destruct (fst r1) as [w1|], (fst r2) as [w2|]; cbn [option_map] in *; try discriminate; [|reflexivity].
  assert (H' : erase_row w1 = erase_row w2) by congruence. rewrite <- (crow_of_E w1), <- (crow_of_E w2), H'. reflexivity. Qed.
Lemma row_noninterference P seeds refs q sds it1 it2 :
  map_res (fun r => map crow_of (fst r)) (candidate_rows P q sds it1) = map_res (fun r => map crow_of (fst r)) (candidate_rows P q sds it2) /\
  map_res (fun r => option_map crow_of (fst r)) (align_query P seeds refs q it1) =
  map_res (fun r => option_map crow_of (fst r)) (align_query P seeds refs q it2).
Proof. split; [apply candidate_rows_crow | apply align_query_crow]. Qed.

(* ---------- erasure forgets the source field and nothing else ---------- *)
Lemma erase_apos_inv a b : erase_apos a = erase_apos b ->
  a = b \/ exists r q s x y, a = Pair r q s x /\ b = Pair r q s y.
Proof. destruct a as [r q s x|r|q st], b as [r' q' s' y|r'|q' st']; cbn; intros H; try discriminate; try (left; exact H).
  injection H as -> -> ->. right. exists r', q', s', x, y. split; reflexivity. Qed.
Lemma erase_idem_row w : erase_row (erase_row w) = erase_row w.
Proof. unfold erase_row. cbn [rsegs qid rid qlen rlen Multi.qs qe rs re rrev conf rest]. f_equal.
  rewrite map_map. apply map_ext. intros s. unfold erase_segment. cbn [positions sscore speak]. f_equal.
  rewrite map_map. apply map_ext. intros [[] ?]; reflexivity. Qed.

(* the schedule-independence statements bundled *)
Lemma schedule_independent P seeds m maxdiff refs qs its1 its2 its1' its2' :
  map_res (map erase_row) (pool_execute P seeds refs qs its1) = map_res (map erase_row) (pool_execute P seeds refs qs its1') /\
  map_res erase_outputs (pool_program_run P seeds m maxdiff refs qs its1 its2) =
  map_res erase_outputs (pool_program_run P seeds m maxdiff refs qs its1' its2') /\
  bind (pool_program_run P seeds m maxdiff refs qs its1 its2) print_outputs =
  bind (pool_program_run P seeds m maxdiff refs qs its1' its2') print_outputs.
Proof. split; [apply pool_execute_NI|]. split; [apply pool_program_run_NI | apply printed_schedule_independent]. Qed.
Lemma program_run_any_schedule P seeds m maxdiff refs qs its1 its2 :
  bind (program_run P seeds m maxdiff refs qs) print_outputs = bind (pool_program_run P seeds m maxdiff refs qs its1 its2) print_outputs.
Proof. destruct (program_run_is_pool P seeds m maxdiff refs qs) as (a & b & ->). apply printed_schedule_independent. Qed.

(* The seeding stage does not raise (Seeding.seeds_res = Ok _) for command lines with 1 <= -r1, 1 <= -r2, 0 <= -b1, 0 <= -b2, -r1 <= -md and maps
   that have a label at a non-negative position: the query (or fragment) and every reference.  These are exactly the exception sites of the
   modelled chain: vectorisePositions (resolution < 1; `end or positions[-1]` on an empty list), blur (radius < 0), scipy's correlate on an empty
   vector (a map whose labels all lie before the start of the window gives an empty vector), find_peaks (distance < 1).
   So Seeding.seeds_model — which has to answer "no seed" where seeds_res raises, because Coordinator.seeding has no error value — never uses
   that escape on such inputs: the run model and a run that propagates seeding exceptions coincide there. *)
From Coq Require Import ZArith QArith List Bool Lia.
Import ListNotations.
Require Import Py Vec Peaks Correlate SeqFast Pairing Core Multi Coordinator FindPeaks Seeding BlurProofs SeqFastProofs SeedingProofs1.
Open Scope Z_scope.

(* ---- the vector of a map with a label at or after the window start is not empty ---- *)
Lemma zeros_len fuel res stop p : forall ws acc, (length acc <= length (fst (zeros fuel res stop p ws acc)))%nat.
Proof. induction fuel as [|f IH]; intros ws acc; cbn [zeros]; [cbn; lia|]. destruct (ws + res <=? p); [|cbn; lia].
  destruct (stop <? ws + res); [cbn; rewrite app_length; cbn; lia|]. specialize (IH (ws + res) (acc ++ [0])). rewrite app_length in IH. cbn in IH. lia. Qed.
Lemma zeros_none fuel res stop p : forall ws acc, snd (zeros fuel res stop p ws acc) = None -> fst (zeros fuel res stop p ws acc) <> [].
Proof. induction fuel as [|f IH]; intros ws acc; cbn [zeros]; [cbn; discriminate|]. destruct (ws + res <=? p); [|cbn; discriminate].
  destruct (stop <? ws + res); [cbn; intros _; destruct acc; discriminate|]. apply IH. Qed.
Lemma vec_loop_len res stop ps : forall ws acc, (length acc <= length (vec_loop res stop ps ws acc))%nat.
Proof. induction ps as [|p t IH]; intros ws acc; cbn [vec_loop]; [lia|]. destruct (p <? ws); [apply IH|].
  pose proof (zeros_len (Z.to_nat (p - ws)) res stop p ws acc) as Hz. destruct (zeros (Z.to_nat (p - ws)) res stop p ws acc) as [acc' [ws'|]]; cbn [fst] in Hz; [|exact Hz].
  specialize (IH (ws' + res) (acc' ++ [1])). rewrite app_length in IH. cbn in IH. lia. Qed.
Lemma vec_loop_nonempty res stop ps : forall ws acc, (exists p, In p ps /\ ws <= p) -> vec_loop res stop ps ws acc <> [].
Proof. induction ps as [|p t IH]; intros ws acc (p0 & Hin & Hle); [destruct Hin|]. cbn [vec_loop]. destruct (p <? ws) eqn:E.
  - apply Z.ltb_lt in E. apply IH. exists p0. split; [|exact Hle]. destruct Hin as [->|Hin]; [lia | exact Hin].
  - pose proof (zeros_none (Z.to_nat (p - ws)) res stop p ws acc) as Hn.
    destruct (zeros (Z.to_nat (p - ws)) res stop p ws acc) as [acc' [ws'|]]; cbn [fst snd] in Hn; [|apply Hn; reflexivity].
    pose proof (vec_loop_len res stop t (ws' + res) (acc' ++ [1])) as Hl. rewrite app_length in Hl. cbn in Hl.
    intros E0. rewrite E0 in Hl. cbn in Hl. lia. Qed.

Definition has_label_from (start : Z) (ps : list Z) : Prop := exists p, In p ps /\ start <= p.

Lemma get_sequence_ok ps res r rv start stop : 1 <= res -> 0 <= r -> ps <> [] ->
  exists s, get_sequence_py ps res r rv start stop = Ok s /\ (has_label_from start ps -> s <> []).
Proof. intros Hres Hr Hne. unfold get_sequence_py, vectorise_py, blur_py.
  destruct (res <? 1) eqn:E1; [apply Z.ltb_lt in E1; lia|]. destruct (r <? 0) eqn:E2; [apply Z.ltb_lt in E2; lia|].
  assert (X : match ps, (match stop with Some e => e =? 0 | None => true end) with [], true => Err | _, _ => Ok (vectorise ps res start stop) end = Ok (vectorise ps res start stop)).
  { destruct ps; [congruence|]. destruct (match stop with Some e => e =? 0 | None => true end); reflexivity. }
  rewrite X. cbn [bind]. eexists. split; [reflexivity|]. intros Hl.
  assert (N : blur (vectorise ps res start stop) (Z.to_nat r) <> []).
  { intros E0. apply (f_equal (@length Z)) in E0. rewrite blur_length in E0. cbn in E0. apply length_zero_iff_nil in E0. revert E0. apply vec_loop_nonempty. exact Hl. }
  destruct rv; [|exact N]. intros E0. apply N. apply (f_equal (@rev Z)) in E0. rewrite rev_involutive in E0. exact E0. Qed.

Lemma correlate_valid_ok a b : a <> [] -> b <> [] -> exists c, correlate_valid a b = Ok c.
Proof. destruct a; [congruence|]. destruct b; [congruence|]. intros _ _. eexists. reflexivity. Qed.

Section Total.
Variable sp : sparams.
Hypothesis Hr1 : 1 <= res1 sp.
Hypothesis Hb1 : 0 <= blur1 sp.
Hypothesis Hr2 : 1 <= res2 sp.
Hypothesis Hb2 : 0 <= blur2 sp.
Hypothesis Hmd : res1 sp <= min_dist sp.

Definition labelled (m : omap) : Prop := has_label_from 0 (mpositions m).
Lemma labelled_ne m : labelled m -> mpositions m <> [].
Proof. intros (p & Hin & _) E. rewrite E in Hin. destruct Hin. Qed.

Lemma primary_from_ok ref rv fl cq : exists l, primary_from sp ref rv fl cq = Ok l.
Proof. unfold primary_from, peak_distance. destruct (min_dist sp <? res1 sp) eqn:E; [apply Z.ltb_lt in E; lia|]. cbn [bind].
  destruct (cut_top qleb (pcount sp) _); eexists; reflexivity. Qed.

Lemma primary_peaks_ok ref q rv : labelled ref -> labelled q -> exists l, primary_peaks sp ref q rv = Ok l.
Proof. intros Lr Lq. unfold primary_peaks. rewrite initial_correlation_f_eq. unfold initial_correlation.
  destruct (mlen ref <? mlen q); [cbn [bind]; eexists; reflexivity|].
  assert (HK : 1 <= K * res1 sp) by (unfold K; lia).
  destruct (get_sequence_ok (mpositions q) (K * res1 sp) (blur1 sp) rv 0 None HK Hb1 (labelled_ne q Lq)) as (s & -> & Hs).
  destruct (get_sequence_ok (mpositions ref) (K * res1 sp) (blur1 sp) false 0 None HK Hb1 (labelled_ne ref Lr)) as (rs & -> & Hrs). cbn [bind].
  specialize (Hs Lq). specialize (Hrs Lr).
  destruct (correlate_valid_ok rs s Hrs Hs) as (c & ->). cbn [bind].
  assert (Hone : repeat 1 (length s) <> []) by (destruct s; [congruence | discriminate]).
  destruct (correlate_valid_ok rs _ Hrs Hone) as (w & ->). cbn [bind]. apply primary_from_ok. Qed.

Lemma all_primary_ok q : labelled q -> forall refs, (forall r, In r refs -> labelled r) -> exists l, all_primary sp refs q = Ok l.
Proof. intros Lq. induction refs as [|r t IH]; intros H; cbn [all_primary]; [eexists; reflexivity|].
  destruct (primary_peaks_ok r q false (H r (or_introl eq_refl)) Lq) as (f & ->). destruct (primary_peaks_ok r q true (H r (or_introl eq_refl)) Lq) as (v & ->).
  destruct (IH (fun r' Hr' => H r' (or_intror Hr'))) as (rest & ->). cbn [bind]. eexists. reflexivity. Qed.

Lemma refine_peaks_ok q p : labelled q -> mpositions (pp_ref p) <> [] -> exists l, refine_peaks sp q p = Ok l.
Proof. intros Lq Hne. unfold refine_peaks. rewrite refine_correlation_f_eq. unfold refine_correlation.
  assert (HK : 1 <= K * res2 sp) by (unfold K; lia).
  destruct (get_sequence_ok (mpositions q) (K * res2 sp) (blur2 sp) (pp_rev p) 0 None HK Hb2 (labelled_ne q Lq)) as (s & -> & Hs). cbn [bind].
  destruct (get_sequence_ok (mpositions (pp_ref p)) (K * res2 sp) (blur2 sp) false (K * pp_pos p - K * margin sp) (Some (K * pp_pos p + mlen q + K * margin sp)) HK Hb2 Hne) as (rs & -> & _).
  cbn [bind]. destruct rs as [|x rs']; [cbn [bind]; eexists; reflexivity|].
  destruct (correlate_valid_ok (x :: rs') s ltac:(discriminate) (Hs Lq)) as (c & ->). cbn [bind]. eexists. reflexivity. Qed.

Lemma refine_all_ok q : labelled q -> forall l, (forall p, In p l -> mpositions (pp_ref p) <> []) -> exists sds, refine_all sp q l = Ok sds.
Proof. intros Lq. induction l as [|p t IH]; intros H; cbn [refine_all]; [eexists; reflexivity|].
  destruct (refine_peaks_ok q p Lq (H p (or_introl eq_refl))) as (pk & ->). destruct (IH (fun p' Hp' => H p' (or_intror Hp'))) as (rest & ->). cbn [bind]. eexists. reflexivity. Qed.

(* the seeding stage of one query / fragment returns normally *)
Theorem seeds_res_total refs q : (forall r, In r refs -> labelled r) -> labelled q -> exists sds, seeds_res sp refs q = Ok sds.
Proof. intros Hr Lq. unfold seeds_res. destruct (all_primary_ok q Lq refs Hr) as (all & Ea). rewrite Ea. cbn [bind]. apply (refine_all_ok q Lq).
  intros p Hp. apply labelled_ne, Hr. apply (all_primary_refs sp q refs all Ea p). apply (select_primary_in sp all p Hp). Qed.
(* ... so seeds_model returns exactly what the seeding stage returns: its "exception = no seed" escape is not taken *)
Corollary seeds_model_exact refs q : (forall r, In r refs -> labelled r) -> labelled q -> seeds_res sp refs q = Ok (seeds_model sp refs q).
Proof. intros Hr Lq. destruct (seeds_res_total refs q Hr Lq) as (sds & E). unfold seeds_model. rewrite E. reflexivity. Qed.
End Total.

Print Assumptions seeds_res_total.

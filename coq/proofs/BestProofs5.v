(* C05, part 5: packaging lemmas for props/C05.v and the concrete self-join witness (finding F12: a regression statement about the
   model before the repair, and the same run in the repaired model) *)
From Coq Require Import ZArith QArith List Bool Lia Sorting.Permutation Sorting.Sorted.
Import ListNotations.
Require Import Py PyProofs Pairing Core Multi Coordinator Peaks BestProofs1 BestProofs2 BestProofs3 BestProofs4.
Open Scope Z_scope.

Lemma align_query_best P (seeds : seeding) refs q it ow it' : align_query P seeds refs q it = Ok (ow, it') ->
  match seeds refs q with
  | [] => ow = None /\ it' = it
  | sds => exists cands, candidate_rows P q sds it = Ok (cands, it') /\ cands_spec P q sds it cands /\
             length cands = length sds /\
             exists w, ow = Some w /\ In w cands /\ (forall y, In y cands -> conf y <= conf w) /\ first_max cands w
  end.
Proof. intros H. pose proof (align_query_spec P seeds refs q it ow it' H) as S. destruct (seeds refs q); [exact S|].
  destruct S as (cands & A & B & C & w & D & E). exists cands. repeat split; try assumption.
  exists w. repeat split; [exact D | exact (first_max_In _ _ E) | exact (first_max_max _ _ E) | exact E]. Qed.

Lemma at_most_count P (seeds : seeding) refs q it (ow : option row) it' cands count ls (mk : peak -> cseed) :
  seeds refs q = map mk (select_peaks count ls) -> candidate_rows P q (seeds refs q) it = Ok (cands, it') ->
  align_query P seeds refs q it = Ok (ow, it') -> (length cands <= count)%nat.
Proof. intros E Hc _. destruct (candidate_rows_spec P q _ _ _ _ Hc) as (_ & ->). rewrite E, map_length.
  unfold select_peaks. rewrite firstn_length. apply Nat.le_min_l. Qed.

(* ---------- the self-join witness ---------- *)
Definition sP := mkP 20000 2 (-5000) 20000 24000 5000 (inject_Z 20) 0.
Definition sr1 := mkMap 1 3000000 [10000; 20000; 35000; 55000; 66000; 86000; 116000] 0.
Definition sq9 := mkMap 9 130010 [0; 10000; 25000; 45000; 50000; 70000; 100000; 130000] 0.
Definition sseeds (refs : list omap) (q : omap) : list cseed :=
  match refs with a :: _ => if (length (mpositions q) =? 8)%nat then [mkSeed a false [16000]] else [mkSeed a false [10000; 16000]] | _ => [] end.

Lemma best_record_is_best_refuted_before_F12 : exists P (seeds : seeding) refs qs maxdiff o rows1 it1 frags rows2 it2 w x,
  program_run_before_F12 P seeds Best maxdiff refs qs = Ok o /\ execute P seeds refs qs 1 = Ok (rows1, it1) /\
  all_fragments rows1 qs = Ok frags /\ execute P seeds refs frags it1 = Ok (rows2, it2) /\
  o_main o = [w] /\ In x (map set_rest rows2) /\ qid x = qid w /\ conf w < conf x /\
  join_rows x x = Ok w.
Proof.
  destruct (execute sP sseeds [sr1] [sq9] 1) as [[rows1 it1]|] eqn:E1; [|vm_compute in E1; discriminate].
  destruct (all_fragments rows1 [sq9]) as [frags|] eqn:Ef; [|vm_compute in E1; injection E1 as <- <-; vm_compute in Ef; discriminate].
  destruct (execute sP sseeds [sr1] frags it1) as [[rows2 it2]|] eqn:E2;
    [|vm_compute in E1; injection E1 as <- <-; vm_compute in Ef; injection Ef as <-; vm_compute in E2; discriminate].
  destruct (program_run_before_F12 sP sseeds Best 1000000 [sr1] [sq9]) as [o|] eqn:Eo; [|vm_compute in Eo; discriminate].
  destruct (o_main o) as [|w [|w' t]] eqn:Em; [vm_compute in Eo; injection Eo as <-; discriminate| |vm_compute in Eo; injection Eo as <-; discriminate].
  destruct (map set_rest rows2) as [|x [|x' t]] eqn:Ex;
    [vm_compute in E1; injection E1 as <- <-; vm_compute in Ef; injection Ef as <-; vm_compute in E2; injection E2 as <- <-; discriminate | |
     vm_compute in E1; injection E1 as <- <-; vm_compute in Ef; injection Ef as <-; vm_compute in E2; injection E2 as <- <-; discriminate].
  exists sP, sseeds, [sr1], [sq9], 1000000, o, rows1, it1, frags, rows2, it2, w, x.
  split; [exact Eo|]. split; [exact E1|]. split; [exact Ef|]. split; [exact E2|]. split; [exact Em|]. rewrite Ex. split; [left; reflexivity|].
  vm_compute in E1; injection E1 as <- <-; vm_compute in Ef; injection Ef as <-; vm_compute in E2; injection E2 as <- <-.
  vm_compute in Ex. injection Ex as <-. vm_compute in Eo. injection Eo as <-. cbn [o_main] in Em. injection Em as <-.
  vm_compute. repeat split; reflexivity.
Qed.


(* the same run after repair F12: the record of the query is its second-pass row x itself (the best row over both passes) *)
Lemma best_record_is_best_witness : exists rows1 it1 frags rows2 it2 o x,
  execute sP sseeds [sr1] [sq9] 1 = Ok (rows1, it1) /\ all_fragments rows1 [sq9] = Ok frags /\
  execute sP sseeds [sr1] frags it1 = Ok (rows2, it2) /\
  program_run sP sseeds Best 1000000 [sr1] [sq9] = Ok o /\
  map set_rest rows2 = [x] /\ o_main o = [x] /\ (forall y, In y rows1 -> conf y < conf x).
Proof. do 7 eexists. split; [vm_compute; reflexivity|]. split; [vm_compute; reflexivity|]. split; [vm_compute; reflexivity|].
  split; [vm_compute; reflexivity|]. split; [vm_compute; reflexivity|]. split; [vm_compute; reflexivity|].
  intros y [<-|[]]. vm_compute. reflexivity. Qed.

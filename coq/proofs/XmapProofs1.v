(* C18, part 1: characters, split/join, number codecs *)
From Coq Require Import ZArith NArith List Bool Lia String Ascii Decimal DecimalString DecimalN.
From Coq Require DecimalFacts.
Import ListNotations.
Require Import Py Cigar Xmap.
Open Scope Z_scope.
Local Open Scope string_scope.

(* ---- character classes ---- *)
Fixpoint all_chars (P : ascii -> bool) (s : string) : bool :=
  match s with EmptyString => true | String a t => P a && all_chars P t end.
Fixpoint inb (cls : string) (a : ascii) : bool :=
  match cls with EmptyString => false | String c t => Ascii.eqb a c || inb t a end.
Definition DIG := "0123456789".
Definition NUM := "0123456789-.".
Definition INTC := "0123456789-".
Definition CIG := "0123456789MDI".
Definition PAIRC := "0123456789-,()".
Definition INNER := "0123456789-,".
Definition no_char (c : ascii) (s : string) : bool := all_chars (fun a => negb (Ascii.eqb a c)) s.

Lemma all_chars_app P a b : all_chars P (a ++ b) = all_chars P a && all_chars P b.
Proof. induction a as [|x a IH]; [reflexivity|]. cbn. rewrite IH, andb_assoc. reflexivity. Qed.
Lemma all_chars_impl (P Q : ascii -> bool) s : (forall a, P a = true -> Q a = true) -> all_chars P s = true -> all_chars Q s = true.
Proof.
  intros H. induction s as [|x s IH]; [reflexivity|]. cbn. intros E. apply andb_true_iff in E. destruct E as [E1 E2].
  rewrite (H _ E1), (IH E2). reflexivity.
Qed.
Lemma inb_app c1 c2 a : inb (c1 ++ c2) a = inb c1 a || inb c2 a.
Proof. induction c1 as [|x c1 IH]; [reflexivity|]. cbn. rewrite IH, orb_assoc. reflexivity. Qed.
(* a class that does not contain c excludes c *)
Lemma inb_no_char cls c s : inb cls c = false -> all_chars (inb cls) s = true -> no_char c s = true.
Proof.
  intros Hc. apply all_chars_impl. intros a Ha. destruct (Ascii.eqb a c) eqn:E; [|reflexivity].
  apply Ascii.eqb_eq in E. subst a. congruence.
Qed.
Lemma inb_sub cls1 cls2 s : all_chars (inb cls2) cls1 = true -> all_chars (inb cls1) s = true -> all_chars (inb cls2) s = true.
Proof.
  intros Hsub. apply all_chars_impl. intros a. induction cls1 as [|x c IH]; [discriminate|].
  cbn in Hsub |- *. apply andb_true_iff in Hsub. destruct Hsub as [H1 H2]. intros E. apply orb_true_iff in E. destruct E as [E|E].
  - apply Ascii.eqb_eq in E. subst a. exact H1.
  - exact (IH H2 E).
Qed.

(* ---- str.split / join / replace / [:-1] ---- *)
Lemma split_nochar c s : no_char c s = true -> split_on c s = [s].
Proof.
  induction s as [|a t IH]; [reflexivity|]. unfold no_char. cbn. intros E. apply andb_true_iff in E. destruct E as [E1 E2].
  apply negb_true_iff in E1. rewrite E1. fold (no_char c t) in E2. rewrite (IH E2). reflexivity.
Qed.
Lemma split_app c a b : no_char c a = true -> split_on c (a ++ String c b) = a :: split_on c b.
Proof.
  induction a as [|x a IH].
  - intros _. cbn. rewrite Ascii.eqb_refl. reflexivity.
  - unfold no_char. cbn. intros E. apply andb_true_iff in E. destruct E as [E1 E2]. apply negb_true_iff in E1. rewrite E1.
    fold (no_char c a) in E2. rewrite (IH E2). reflexivity.
Qed.
Theorem split_join c l : l <> [] -> Forall (fun s => no_char c s = true) l -> split_on c (join c l) = l.
Proof.
  induction l as [|x t IH]; [congruence|]. intros _ H. inversion H as [|? ? Hx Ht]; subst.
  destruct t as [|y r].
  - cbn. apply split_nochar. exact Hx.
  - unfold join. change (String.concat (String c "") (x :: y :: r)) with (x ++ String c (String.concat (String c "") (y :: r))).
    rewrite split_app by exact Hx. f_equal. apply IH; [discriminate | exact Ht].
Qed.
Lemma drop_last_snoc s c : drop_last (s ++ String c "") = s.
Proof.
  induction s as [|a t IH]; [reflexivity|]. cbn [append drop_last]. rewrite IH.
  destruct t; reflexivity.
Qed.
Lemma remove_char_app c a b : remove_char c (a ++ b) = remove_char c a ++ remove_char c b.
Proof. induction a as [|x a IH]; [reflexivity|]. cbn. destruct (Ascii.eqb x c); [exact IH | cbn; rewrite IH; reflexivity]. Qed.
Lemma remove_char_nochar c s : no_char c s = true -> remove_char c s = s.
Proof.
  induction s as [|a t IH]; [reflexivity|]. unfold no_char. cbn. intros E. apply andb_true_iff in E. destruct E as [E1 E2].
  apply negb_true_iff in E1. rewrite E1. fold (no_char c t) in E2. rewrite (IH E2). reflexivity.
Qed.
Lemma append_assoc' (a b c : string) : (a ++ b) ++ c = a ++ (b ++ c).
Proof. induction a as [|x a IH]; [reflexivity|]. cbn. rewrite IH. reflexivity. Qed.
Lemma append_nil_r (a : string) : a ++ "" = a.
Proof. induction a as [|x a IH]; [reflexivity|]. cbn. rewrite IH. reflexivity. Qed.
Lemma length_append (a b : string) : String.length (a ++ b) = (String.length a + String.length b)%nat.
Proof. induction a as [|x a IH]; [reflexivity|]. cbn. rewrite IH. reflexivity. Qed.

(* ---- natural numbers ---- *)
Lemma uint_digits d : all_chars (inb DIG) (NilEmpty.string_of_uint d) = true.
Proof. induction d; cbn [NilEmpty.string_of_uint all_chars]; [reflexivity|rewrite IHd; reflexivity..]. Qed.
Lemma N_to_uint_nonnil n : N.to_uint n <> Nil.
Proof.
  intros E. pose proof (DecimalN.Unsigned.to_of (N.to_uint n)) as H. rewrite DecimalN.Unsigned.of_to in H.
  rewrite E in H at 1. symmetry in H. revert H. apply DecimalFacts.unorm_nonnil.
Qed.
Lemma print_N_digits n : all_chars (inb DIG) (print_N n) = true.
Proof. apply uint_digits. Qed.
Lemma print_N_cons n : exists c t, print_N n = String c t /\ inb DIG c = true.
Proof.
  pose proof (print_N_digits n) as H. unfold print_N in *. pose proof (N_to_uint_nonnil n) as Hn.
  destruct (N.to_uint n); [congruence|..]; cbn in H |- *; eauto.
Qed.
Theorem parse_print_N n : parse_N (print_N n) = Some n.
Proof.
  destruct (print_N_cons n) as (c & t & E & _). unfold parse_N. rewrite E. rewrite <- E. unfold print_N.
  rewrite NilEmpty.usu. cbn [option_map]. rewrite DecimalN.Unsigned.of_to. reflexivity.
Qed.

(* ---- sign ---- *)
Lemma digit_not_minus c : inb DIG c = true -> Ascii.eqb c "-"%char = false.
Proof. intros H. destruct (Ascii.eqb c "-"%char) eqn:E; [|reflexivity]. apply Ascii.eqb_eq in E. subst c. discriminate. Qed.
Lemma strip_sign_digit c t : inb DIG c = true -> strip_sign (String c t) = (false, String c t).
Proof. intros H. cbn. rewrite (digit_not_minus c H). reflexivity. Qed.
Lemma strip_sign_sign z c t : inb DIG c = true -> strip_sign (sign_str z ++ String c t) = ((z <? 0)%Z, String c t).
Proof.
  intros H. unfold sign_str. destruct (z <? 0)%Z.
  - reflexivity.
  - cbn [append]. apply strip_sign_digit. exact H.
Qed.
Lemma signed_abs z : signed (z <? 0)%Z (Z.abs_N z) = z.
Proof. unfold signed. rewrite N2Z.inj_abs_N. destruct (z <? 0)%Z eqn:E; lia. Qed.
Lemma signed_quot z k : (0 < k)%Z -> signed (z <? 0)%Z (Z.abs_N z / Z.to_N k)%N = Z.quot z k.
Proof.
  intros Hk. unfold signed. rewrite N2Z.inj_div, N2Z.inj_abs_N, Z2N.id by lia.
  destruct (z <? 0)%Z eqn:E.
  - replace z with (- Z.abs z) at 2 by lia. rewrite Z.quot_opp_l by lia. rewrite Z.quot_div_nonneg by lia. reflexivity.
  - replace (Z.abs z) with z by lia. rewrite Z.quot_div_nonneg by lia. reflexivity.
Qed.

Theorem parse_print_int z : parse_int (print_int z) = Some z.
Proof.
  unfold parse_int, print_int. destruct (print_N_cons (Z.abs_N z)) as (c & t & E & Hc).
  rewrite E, (strip_sign_sign z c t Hc), <- E, parse_print_N. cbn [option_map]. rewrite signed_abs. reflexivity.
Qed.
Lemma sign_intc z : all_chars (inb INTC) (sign_str z) = true.
Proof. unfold sign_str. destruct (z <? 0)%Z; reflexivity. Qed.
Lemma print_int_chars z : all_chars (inb INTC) (print_int z) = true.
Proof.
  unfold print_int. rewrite all_chars_app, sign_intc. cbn [andb].
  apply (inb_sub DIG INTC); [reflexivity | apply print_N_digits].
Qed.

(* ---- bounded case analysis on N by computation ---- *)
Lemma small_N (P : N -> bool) (b : nat) : forallb P (map N.of_nat (seq 0 b)) = true -> forall n, (n < N.of_nat b)%N -> P n = true.
Proof.
  intros H n Hn. rewrite forallb_forall in H. apply H. rewrite <- (N2Nat.id n). apply in_map. apply in_seq. lia.
Qed.
Lemma digit1 n : (n < 10)%N -> String.length (print_N n) = 1%nat.
Proof.
  intros H. apply (small_N (fun n => Nat.eqb (String.length (print_N n)) 1) 10) in H; [|vm_compute; reflexivity].
  apply Nat.eqb_eq in H. exact H.
Qed.
Lemma pad2_ok n : (n < 100)%N ->
  parse_N (pad2 n) = Some n /\ String.length (pad2 n) = 2%nat /\ all_chars (inb DIG) (pad2 n) = true /\ exists c t, pad2 n = String c t.
Proof.
  intros H.
  apply (small_N (fun n => match parse_N (pad2 n) with Some m => N.eqb m n | None => false end
                           && Nat.eqb (String.length (pad2 n)) 2 && all_chars (inb DIG) (pad2 n)
                           && match pad2 n with String _ _ => true | _ => false end) 100) in H; [|vm_compute; reflexivity].
  apply andb_true_iff in H. destruct H as [H H4]. apply andb_true_iff in H. destruct H as [H H3].
  apply andb_true_iff in H. destruct H as [H1 H2].
  split; [|split; [|split]].
  - destruct (parse_N (pad2 n)); [|discriminate]. apply N.eqb_eq in H1. subst. reflexivity.
  - apply Nat.eqb_eq in H2. exact H2.
  - exact H3.
  - destruct (pad2 n); [discriminate|]. eauto.
Qed.

(* ---- decimal literals ---- *)
Lemma parse_dec_gen z i (F : string) f :
  all_chars (inb DIG) F = true -> parse_N F = Some f ->
  parse_dec (sign_str z ++ print_N i ++ "." ++ F) = Some ((z <? 0)%Z, i, f, String.length F).
Proof.
  intros HF Hf. unfold parse_dec. destruct (print_N_cons i) as (c & t & E & Hc).
  rewrite E. cbn [append]. rewrite (strip_sign_sign z c _ Hc).
  change (String c (t ++ String "." F)) with (String c t ++ String "." F). rewrite <- E.
  rewrite split_app by (apply (inb_no_char DIG); [reflexivity | apply print_N_digits]).
  rewrite split_nochar by (apply (inb_no_char DIG); [reflexivity | exact HF]).
  rewrite parse_print_N, Hf. reflexivity.
Qed.
Lemma parse_dec_tenths z :
  parse_dec (print_tenths z) = Some ((z <? 0)%Z, (Z.abs_N z / 10)%N, (Z.abs_N z mod 10)%N, 1%nat).
Proof.
  unfold print_tenths. rewrite (parse_dec_gen z _ _ (Z.abs_N z mod 10)%N); [| apply print_N_digits | apply parse_print_N].
  rewrite digit1; [reflexivity|]. apply N.mod_lt. discriminate.
Qed.
Lemma parse_dec_hundredths z :
  parse_dec (print_hundredths z) = Some ((z <? 0)%Z, (Z.abs_N z / 100)%N, (Z.abs_N z mod 100)%N, 2%nat).
Proof.
  assert (H : (Z.abs_N z mod 100 < 100)%N) by (apply N.mod_lt; discriminate).
  destruct (pad2_ok _ H) as (H1 & H2 & H3 & _).
  unfold print_hundredths. rewrite (parse_dec_gen z _ _ (Z.abs_N z mod 100)%N H3 H1). rewrite H2. reflexivity.
Qed.
Lemma divmod_N a b : (b <> 0)%N -> (a / b * b + a mod b = a)%N.
Proof. intros H. rewrite N.mul_comm. symmetry. apply N.div_mod. exact H. Qed.

Theorem parse_print_tenths z : parse_decimal1 (print_tenths z) = Some z.
Proof.
  unfold parse_decimal1. rewrite parse_dec_tenths. cbn [dec_fixed Nat.eqb]. change (10 ^ N.of_nat 1)%N with 10%N.
  rewrite divmod_N by discriminate. rewrite signed_abs. reflexivity.
Qed.
Theorem parse_print_hundredths z : parse_decimal2 (print_hundredths z) = Some z.
Proof.
  unfold parse_decimal2. rewrite parse_dec_hundredths. cbn [dec_fixed Nat.eqb]. change (10 ^ N.of_nat 2)%N with 100%N.
  rewrite divmod_N by discriminate. rewrite signed_abs. reflexivity.
Qed.
(* what int(float(text)) returns: the written value truncated toward zero to whole base pairs *)
Theorem parse_trunc_tenths z : parse_trunc (print_tenths z) = Some (Z.quot z 10).
Proof.
  unfold parse_trunc. rewrite parse_dec_tenths. cbn [option_map dec_trunc]. f_equal. apply (signed_quot z 10). lia.
Qed.

Lemma print_tenths_chars z : all_chars (inb NUM) (print_tenths z) = true.
Proof.
  unfold print_tenths. rewrite !all_chars_app.
  rewrite (inb_sub INTC NUM _ eq_refl (sign_intc z)).
  rewrite (inb_sub DIG NUM _ eq_refl (print_N_digits _)), (inb_sub DIG NUM _ eq_refl (print_N_digits _)). reflexivity.
Qed.
Lemma print_hundredths_chars z : all_chars (inb NUM) (print_hundredths z) = true.
Proof.
  assert (H : (Z.abs_N z mod 100 < 100)%N) by (apply N.mod_lt; discriminate).
  destruct (pad2_ok _ H) as (_ & _ & H3 & _).
  unfold print_hundredths. rewrite !all_chars_app.
  rewrite (inb_sub INTC NUM _ eq_refl (sign_intc z)).
  rewrite (inb_sub DIG NUM _ eq_refl (print_N_digits _)), (inb_sub DIG NUM _ eq_refl H3). reflexivity.
Qed.

(* C15, part 2: positions outside the overlap are kept — for one resolution step and for the whole loop. *)
From Coq Require Import ZArith QArith List Bool Lia Sorting.Sorted Sorting.Permutation.
Import ListNotations.
Require Import Py Pairing Core PyProofs ConflictProofs DPProofs ResolverProofs1.
Open Scope Z_scope.

(* p (an aligned pair) lies strictly after o on both sequences *)
Definition after_both (p : spos) (o : pv) : bool :=
  match ap p with Pair r q _ _ => (lpos (pq o) <? lpos q) && (lpos (pr o) <? lpos r) | _ => false end.

Lemma after_both_not_le p o : after_both p o = true -> le_any p o = false.
Proof. unfold after_both, le_any. destruct (ap p) as [r q s0 s1| |]; try discriminate. intros H. apply andb_true_iff in H. destruct H as (H1 & H2).
  apply Z.ltb_lt in H1, H2. unfold pv_le_any, label_eqb. cbn [isnull pq pr].
  replace (lpos q <? lpos (pq o)) with false by (symmetry; apply Z.ltb_ge; lia).
  replace (lpos r <? lpos (pr o)) with false by (symmetry; apply Z.ltb_ge; lia).
  replace (lpos q =? lpos (pq o)) with false by (symmetry; apply Z.eqb_neq; lia).
  replace (lpos r =? lpos (pr o)) with false by (symmetry; apply Z.eqb_neq; lia). rewrite !andb_false_r. reflexivity. Qed.

(* in an ordered list, whatever stands before a pair that is "less on both sequences" than cs is so too *)
Lemma less_both_before dir z p cs : before dir z p -> is_pair p = true -> less_both p cs = true -> less_both z cs = true.
Proof. intros (Hr & Hq) Hp H. unfold less_both, is_pair, rlab, qlab in *. destruct (ap p) as [r q s0 s1| |]; try discriminate.
  unfold pv_less_both in H. cbn [isnull pq pr] in H. apply andb_true_iff in H. destruct H as (H1 & H2). apply Z.ltb_lt in H1, H2.
  destruct (ap z) as [r' q' s0' s1'|r'|q' s0'].
  - unfold pv_less_both. cbn [isnull pq pr]. destruct (Hr r' r eq_refl eq_refl). destruct (Hq q' q eq_refl eq_refl).
    apply andb_true_iff. split; apply Z.ltb_lt; lia.
  - destruct (Hr r' r eq_refl eq_refl). apply Z.ltb_lt. lia.
  - destruct (Hq q' q eq_refl eq_refl). apply Z.ltb_lt. lia. Qed.

Lemma SS_cons_inv {A} (R : A -> A -> Prop) x l : StronglySorted R (x :: l) -> forall y, In y l -> R x y.
Proof. intros H y Hy. apply StronglySorted_inv in H. destruct H as (_ & H). rewrite Forall_forall in H. apply H. exact Hy. Qed.

Lemma cutL_keeps dir cs a a' : seg_ord dir (positions a) -> cutL cs a a' ->
  forall p, In p (positions a) -> is_pair p = true -> less_both p cs = true -> In p (positions a').
Proof.
  intros Hord (_ & _ & n & x & y & Hxy & E & _ & _ & Hstop) p Hp Hpp Hless. rewrite E. apply in_or_app. left.
  rewrite <- (firstn_skipn n (positions a)) in Hp, Hord. apply in_app_or in Hp. destruct Hp as [Hp|Hp].
  - rewrite <- (firstn_skipn n (firstn x (positions a))). apply in_or_app. left. rewrite firstn_firstn. replace (Nat.min n x) with n by lia. exact Hp.
  - exfalso. destruct (skipn n (positions a)) as [|z t] eqn:Esk; [destruct Hp|]. specialize (Hstop z t eq_refl).
    destruct Hp as [<-|Hp]; [congruence|]. destruct (SS_app_inv _ _ _ Hord) as (_ & Hs & _).
    pose proof (SS_cons_inv _ _ _ Hs p Hp) as Hb. rewrite (less_both_before dir z p cs Hb Hpp Hless) in Hstop. discriminate. Qed.

Lemma cutR_keeps cs ce b b' : cutR cs ce b b' ->
  forall p, In p (positions b) -> is_pair p = true -> le_any p ce = false -> In p (positions b').
Proof.
  intros (_ & _ & x & y & Hxy & E & _ & _ & Hkeep) p Hp Hpp Hle. rewrite E.
  rewrite <- (firstn_skipn x (positions b)) in Hp. apply in_app_or in Hp. apply in_or_app. destruct Hp as [Hp|Hp]; [left; exact Hp|]. right.
  rewrite <- (firstn_skipn (y - x) (skipn x (positions b))) in Hp. apply in_app_or in Hp. destruct Hp as [Hp|Hp].
  - specialize (Hkeep p Hp). unfold sl_keep in Hkeep. rewrite Hpp, Hle in Hkeep. discriminate.
  - rewrite skipn_skipn' in Hp. replace (y - x + x)%nat with y in Hp by lia. exact Hp. Qed.

(* C15_keeps_outside, one step *)
Theorem resolve_pair_keeps_outside dir a b a' b' :
  seg_ord dir (positions a) -> seg_ord dir (positions b) ->
  sscore a = sum_scores (positions a) -> sscore b = sum_scores (positions b) ->
  resolve_pair a b = Ok (a', b') ->
  (forall cs p, start_position b = Ok cs -> In p (positions a) -> is_pair p = true -> less_both p cs = true -> In p (positions a')) /\
  (forall ce p, end_position a = Ok ce -> In p (positions b) -> is_pair p = true -> after_both p ce = true -> In p (positions b')).
Proof.
  intros Hoa Hob Hsa Hsb H. destruct (resolve_pair_inv a b a' b' H) as [(-> & -> & _)|(cs & ce & lsub & rsub & Hc & Ho)]; [split; intros; assumption|].
  destruct (resolve_pair_cut dir a b a' b' cs ce lsub rsub Hoa Hob Hsa Hsb Hc Ho) as (HL & HR). destruct Hc as [_ _ Hcs Hce _ _]. split.
  - intros cs' p Hcs' Hp Hpp Hl. rewrite Hcs in Hcs'. injection Hcs' as <-. apply (cutL_keeps dir cs a a' Hoa HL p Hp Hpp Hl).
  - intros ce' p Hce' Hp Hpp Ha. rewrite Hce in Hce'. injection Hce' as <-. apply (cutR_keeps cs ce b b' HR p Hp Hpp (after_both_not_le p ce Ha)). Qed.

(* ------------------------------------------------------------------------------------------------ *)
(* lifting to the loop                                                                                *)
(* ------------------------------------------------------------------------------------------------ *)
Definition pv_le (o o' : pv) : Prop := lpos (pr o) <= lpos (pr o') /\ lpos (pq o) <= lpos (pq o').

Lemma start_split s cs : start_position s = Ok cs -> seg_empty s = false ->
  exists p0 l1 l2, positions s = l1 ++ p0 :: l2 /\ junk l1 /\ is_pair p0 = true /\ cs = pv_of p0.
Proof. unfold start_position. intros H He. rewrite He in H. unfold aligned in H. destruct (filter is_pair (positions s)) as [|p0 t] eqn:Ef; [discriminate|]. injection H as <-.
  destruct (filter_first_split _ _ _ _ Ef) as (l1 & l2 & E & H1 & H2 & _). exists p0, l1, l2. apply junk_filter in H1. auto. Qed.
Lemma end_split s ce : end_position s = Ok ce -> seg_empty s = false ->
  exists p0 l1 l2, positions s = l1 ++ p0 :: l2 /\ junk l2 /\ is_pair p0 = true /\ ce = pv_of p0.
Proof. unfold end_position. intros H He. rewrite He in H. unfold aligned in H. destruct (rev (filter is_pair (positions s))) as [|p0 t] eqn:Ef; [discriminate|]. injection H as <-.
  destruct (filter_last_split _ _ _ _ Ef) as (l1 & l2 & E & H1 & H2 & _). exists p0, l1, l2. apply junk_filter in H1. auto. Qed.

Lemma has_pairs_nonempty s : has_pairs s = true -> seg_empty s = false.
Proof. unfold has_pairs, seg_empty, aligned. destruct (positions s); [discriminate | reflexivity]. Qed.
Lemma has_pairs_in s : has_pairs s = true <-> exists p, In p (positions s) /\ is_pair p = true.
Proof. unfold has_pairs, aligned. split.
  - destruct (filter is_pair (positions s)) as [|p t] eqn:E; [discriminate|]. intros _. exists p. apply filter_In. rewrite E. left. reflexivity.
  - intros (p & Hp). apply filter_In in Hp. destruct (filter is_pair (positions s)); [destruct Hp | reflexivity]. Qed.
Lemma has_pairs_start s : has_pairs s = true -> exists cs, start_position s = Ok cs.
Proof. intros H. unfold start_position. rewrite (has_pairs_nonempty s H). unfold has_pairs in H. destruct (aligned s); [discriminate | eexists; reflexivity]. Qed.
Lemma has_pairs_end s : has_pairs s = true -> exists ce, end_position s = Ok ce.
Proof. intros H. unfold end_position. rewrite (has_pairs_nonempty s H). unfold has_pairs in H. destruct (aligned s) as [|p t] eqn:E; [discriminate|].
  destruct (rev (p :: t)) eqn:Er; [apply (f_equal (@length _)) in Er; rewrite rev_length in Er; discriminate | eexists; reflexivity]. Qed.

Lemma before_pairs_le dir x y : before dir x y -> is_pair x = true -> is_pair y = true -> pv_le (pv_of x) (pv_of y).
Proof. intros (Hr & Hq). unfold is_pair, pv_of, pv_le, rlab, qlab in *. destruct (ap x); try discriminate. destruct (ap y); try discriminate. intros _ _.
  cbn. destruct (Hr _ _ eq_refl eq_refl). destruct (Hq _ _ eq_refl eq_refl). lia. Qed.
Lemma pv_le_refl o : pv_le o o. Proof. unfold pv_le. lia. Qed.

(* trimming can only move the start later and the end earlier *)
Lemma start_mono dir s0 s cs0 cs : seg_ord dir (positions s0) -> Sub (positions s) (positions s0) ->
  start_position s0 = Ok cs0 -> start_position s = Ok cs -> has_pairs s = true -> pv_le cs0 cs.
Proof.
  intros Hord Hsub H0 H Hp. pose proof (has_pairs_nonempty s Hp) as Hne.
  destruct (start_split s cs H Hne) as (p & l1 & l2 & E & _ & Hpp & ->).
  assert (Hin : In p (positions s0)) by (apply (Sub_in _ _ _ Hsub); rewrite E; apply in_or_app; right; left; reflexivity).
  assert (Hne0 : seg_empty s0 = false) by (unfold seg_empty; destruct (positions s0); [destruct Hin | reflexivity]).
  destruct (start_split s0 cs0 H0 Hne0) as (p0 & k1 & k2 & E0 & Hj & Hpp0 & ->). rewrite E0 in Hin, Hord.
  apply in_app_or in Hin. destruct Hin as [Hin|[<-|Hin]].
  - specialize (Hj p Hin). congruence.
  - apply pv_le_refl.
  - destruct (SS_app_inv _ _ _ Hord) as (_ & Hs & _). apply (before_pairs_le dir); [apply (SS_cons_inv _ _ _ Hs p Hin) | assumption | assumption]. Qed.
Lemma end_mono dir s0 s ce0 ce : seg_ord dir (positions s0) -> Sub (positions s) (positions s0) ->
  end_position s0 = Ok ce0 -> end_position s = Ok ce -> has_pairs s = true -> pv_le ce ce0.
Proof.
  intros Hord Hsub H0 H Hp. pose proof (has_pairs_nonempty s Hp) as Hne.
  destruct (end_split s ce H Hne) as (p & l1 & l2 & E & _ & Hpp & ->).
  assert (Hin : In p (positions s0)) by (apply (Sub_in _ _ _ Hsub); rewrite E; apply in_or_app; right; left; reflexivity).
  assert (Hne0 : seg_empty s0 = false) by (unfold seg_empty; destruct (positions s0); [destruct Hin | reflexivity]).
  destruct (end_split s0 ce0 H0 Hne0) as (p0 & k1 & k2 & E0 & Hj & Hpp0 & ->). rewrite E0 in Hin, Hord.
  apply in_app_or in Hin. destruct Hin as [Hin|[<-|Hin]].
  - destruct (SS_app_inv _ _ _ Hord) as (_ & _ & Hs). apply (before_pairs_le dir); [apply (Hs p p0 Hin (or_introl eq_refl)) | assumption | assumption].
  - apply pv_le_refl.
  - specialize (Hj p Hin). congruence. Qed.

Lemma less_both_mono p o o' : is_pair p = true -> pv_le o o' -> less_both p o = true -> less_both p o' = true.
Proof. unfold is_pair, less_both, pv_le, pv_less_both. destruct (ap p); try discriminate. cbn [isnull pq pr]. intros _ (H1 & H2) H.
  apply andb_true_iff in H. destruct H as (Ha & Hb). apply Z.ltb_lt in Ha, Hb. apply andb_true_iff. split; apply Z.ltb_lt; lia. Qed.
Lemma after_both_mono p o o' : pv_le o' o -> after_both p o = true -> after_both p o' = true.
Proof. unfold after_both, pv_le. destruct (ap p); try discriminate. intros (H1 & H2) H.
  apply andb_true_iff in H. destruct H as (Ha & Hb). apply Z.ltb_lt in Ha, Hb. apply andb_true_iff. split; apply Z.ltb_lt; lia. Qed.

(* a pair of chain member i is outside every overlap: before the first pair of every later member that has pairs and
   after the last pair of every earlier member that has pairs *)
Definition outside (ch : list segment) (i : nat) (p : spos) : Prop :=
  (forall j s cs, (i < j)%nat -> nth_error ch j = Some s -> start_position s = Ok cs -> has_pairs s = true -> less_both p cs = true) /\
  (forall j s ce, (j < i)%nat -> nth_error ch j = Some s -> end_position s = Ok ce -> has_pairs s = true -> after_both p ce = true).

Lemma derived_has_pairs s0 s : derived s0 s -> has_pairs s = true -> has_pairs s0 = true.
Proof. intros D H. apply has_pairs_in in H. destruct H as (p & Hp & Hpp). apply has_pairs_in. exists p. split; [apply (Sub_in _ _ _ (dv_sub _ _ D) Hp) | exact Hpp]. Qed.

(* C15_keeps_outside for the whole loop: such pairs are still in member i of the result *)
Theorem resolve_loop_keeps_outside dir ch out :
  Forall (seg_wf0 dir) ch -> resolve_loop (length ch) 0 ch [] = Ok out ->
  forall i s0 s p, nth_error ch i = Some s0 -> nth_error out i = Some s ->
    In p (positions s0) -> is_pair p = true -> outside ch i p -> In p (positions s).
Proof.
  intros Hwf H. rewrite Forall_forall in Hwf.
  set (PW := fun i s => exists s0, nth_error ch i = Some s0 /\ derived s0 s /\
                                   forall p, In p (positions s0) -> is_pair p = true -> outside ch i p -> In p (positions s)).
  assert (Hstep : forall i0 i1 a b a' b', (i0 < i1)%nat -> has_pairs b = true -> PW i0 a -> PW i1 b -> resolve_pair a b = Ok (a', b') -> PW i0 a' /\ PW i1 b').
  { intros i0 i1 a b a' b' Hlt Hb (a0 & Ha0 & Da & Ka) (b0 & Hb0 & Db & Kb) Er.
    destruct (Hwf _ (nth_error_In _ _ Ha0)) as (Hoa0 & _). destruct (Hwf _ (nth_error_In _ _ Hb0)) as (Hob0 & _).
    destruct (resolve_pair_derived dir a0 b0 a b a' b' Hoa0 Hob0 Da Db Er) as (Da' & Db').
    assert (Hoa : seg_ord dir (positions a)) by (apply (SS_Sub _ _ _ (dv_sub _ _ Da) Hoa0)).
    assert (Hob : seg_ord dir (positions b)) by (apply (SS_Sub _ _ _ (dv_sub _ _ Db) Hob0)).
    destruct (resolve_pair_keeps_outside dir a b a' b' Hoa Hob (dv_score _ _ Da) (dv_score _ _ Db) Er) as (KL & KR).
    split; [exists a0 | exists b0]; (split; [assumption|]); (split; [assumption|]).
    - intros p Hp Hpp Hout. destruct (has_pairs_start b Hb) as (cs & Hcs). apply (KL cs p Hcs (Ka p Hp Hpp Hout) Hpp).
      pose proof (derived_has_pairs b0 b Db Hb) as Hb0p. destruct (has_pairs_start b0 Hb0p) as (cs0 & Hcs0).
      apply (less_both_mono p cs0 cs Hpp (start_mono dir b0 b cs0 cs Hob0 (dv_sub _ _ Db) Hcs0 Hcs Hb)).
      apply (proj1 Hout i1 b0 cs0 Hlt Hb0 Hcs0 Hb0p).
    - intros p Hp Hpp Hout. destruct (has_pairs a) eqn:Hap.
      + destruct (has_pairs_end a Hap) as (ce & Hce). apply (KR ce p Hce (Kb p Hp Hpp Hout) Hpp).
        pose proof (derived_has_pairs a0 a Da Hap) as Ha0p. destruct (has_pairs_end a0 Ha0p) as (ce0 & Hce0).
        apply (after_both_mono p ce0 ce (end_mono dir a0 a ce0 ce Hoa0 (dv_sub _ _ Da) Hce0 Hce Hap)).
        apply (proj2 Hout i0 a0 ce0 Hlt Ha0 Hce0 Ha0p).
      + (* a without pairs: the step changes nothing on b unless it fails *)
        destruct (resolve_pair_inv a b a' b' Er) as [(_ & -> & _)|(cs & ce & lsub & rsub & Hc & _)]; [apply (Kb p Hp Hpp Hout)|].
        exfalso. destruct Hc as [Hne _ _ Hce _ _]. unfold end_position in Hce. rewrite Hne in Hce. unfold has_pairs in Hap.
        destruct (aligned a); [discriminate Hce | discriminate Hap]. }
  assert (H0 : allPW PW ch).
  { intros i s Hi. exists s. split; [exact Hi|]. split; [apply derived_refl; apply (Hwf _ (nth_error_In _ _ Hi)) | auto]. }
  assert (Hst : Forall (fun i => (i < 0)%nat) []) by constructor.
  destruct (loop_pointwise PW Hstep _ _ _ _ _ Hst H0 H) as (Hout & _).
  intros i s0 s p Hi Ho Hp Hpp Hos. destruct (Hout i s Ho) as (s0' & Hi' & _ & K). rewrite Hi in Hi'. injection Hi' as <-. apply (K p Hp Hpp Hos). Qed.
Print Assumptions resolve_pair_keeps_outside.
Print Assumptions resolve_loop_keeps_outside.

(* C07, part 2: the conflict-resolution loop of Aligner.align, generic in the slice function, so that the statements hold for the
   code as it is (Core.slice, after repair F8: the trimming loop `while positions and ...` stops on the emptied list, an emptied slice
   is the empty segment; slice never raises, hence Aligner.align never raises) and for the code before the repair
   (TotalProofs1.slice_gen false: IndexError when the trimming loop pops the last position), kept for the regression witnesses. *)
From Coq Require Import ZArith QArith List Bool Lia Sorting.Sorted.
Import ListNotations.
Require Import Py PyProofs Pairing Core Psum FacProofs FacSegs ChainCore ConflictProofs PairingProofs4 TotalProofs1.
Open Scope Z_scope.

(* ------------------------------------------------------------------------------------------------ pairs of a fresh segment *)
Lemma SS_snoc_all {A} (R : A -> A -> Prop) l z : StronglySorted R (l ++ [z]) -> Forall (fun x => R x z) l.
Proof. induction l as [|x t IH]; intros H; [constructor|]. cbn in H. apply StronglySorted_inv in H. destruct H as (Ht & Hx).
  constructor; [|apply IH; exact Ht]. rewrite Forall_forall in Hx. apply Hx. apply in_or_app. right. left. reflexivity. Qed.

Lemma filter_score_pos P L : filter is_pair (map (score_pos P) L) = map (score_pos P) (filter is_pair_apos L).
Proof. induction L as [|x t IH]; [reflexivity|]. cbn [map filter]. rewrite IH. destruct x; reflexivity. Qed.

Lemma pair_order_le_any P dir x z : pair_order dir x z -> le_any (score_pos P x) (pv_of (score_pos P z)) = true.
Proof. destruct x as [r q s src| |]; destruct z as [r' q' s' src'| |]; cbn; try contradiction.
  intros (_ & _ & _ & H). unfold pv_le_any. cbn. apply Z.ltb_lt in H. rewrite H. reflexivity. Qed.
Lemma self_le_any P z : is_pair_apos z = true -> le_any (score_pos P z) (pv_of (score_pos P z)) = true.
Proof. destruct z as [r q s src| |]; try discriminate. intros _. cbn. unfold pv_le_any. cbn. rewrite (label_eqb_refl q).
  rewrite orb_true_r. reflexivity. Qed.

(* the scored positions of a contiguous sub-run of the engine output *)
Lemma subrun_pairs_le_end P L peak dir : StronglySorted (pair_order dir) (filter is_pair_apos L) ->
  pairs_le_end (seg_create (map (score_pos P) L) peak).
Proof.
  intros Hs ce Hce p Hp Hpair. cbn [positions seg_create] in Hp.
  unfold end_position, seg_empty, aligned in Hce. cbn [positions seg_create] in Hce.
  destruct (map (score_pos P) L) as [|y0 yt] eqn:EL; [destruct Hp|]. rewrite <- EL in *. clear EL y0 yt.
  rewrite filter_score_pos in Hce.
  assert (Hin : In p (map (score_pos P) (filter is_pair_apos L))).
  { rewrite <- filter_score_pos. apply filter_In. split; assumption. }
  rewrite <- map_rev in Hce. destruct (rev (filter is_pair_apos L)) as [|z r0] eqn:Er; [discriminate|]. cbn [map] in Hce. injection Hce as <-.
  assert (EF : filter is_pair_apos L = rev r0 ++ [z]).
  { rewrite <- (rev_involutive (filter _ _)), Er. reflexivity. }
  rewrite EF in Hs, Hin. rewrite map_app in Hin. apply in_app_or in Hin. destruct Hin as [Hin|[<-|[]]].
  - apply in_map_iff in Hin. destruct Hin as (x & <- & Hx). apply SS_snoc_all in Hs. rewrite Forall_forall in Hs.
    apply (pair_order_le_any P dir). apply Hs. exact Hx.
  - apply self_le_any. assert (Hz : In z (filter is_pair_apos L)) by (rewrite EF; apply in_or_app; right; left; reflexivity).
    apply filter_In in Hz. apply Hz.
Qed.

Theorem fresh_pairs_le_end P it reference query peak rev_ s :
  StronglySorted Z.le (mpositions reference) -> StronglySorted Z.le (mpositions query) ->
  In s (get_segments_for_peak P it reference query peak rev_) -> pairs_le_end s.
Proof.
  intros Hr Hq Hin. unfold get_segments_for_peak in Hin. rewrite get_segments_ranges in Hin.
  set (eout := align_engine (DMAX P) it reference query peak (peak + mlen query) rev_) in *.
  destruct (factory_ranges (MS P) (BS P) (map sc (map (score_pos P) eout))) as [|r0 rs].
  - destruct Hin as [<-|[]]. intros ce _ p [].
  - apply in_map_iff in Hin. destruct Hin as (r & <- & _). unfold seg_of_range.
    rewrite skipn_map, firstn_map.
    apply (subrun_pairs_le_end P _ peak (dirz rev_)).
    apply (engine_pairs_in_order_subrun (DMAX P) it reference query peak (peak + mlen query) rev_ Hr Hq).
Qed.

(* ------------------------------------------------------------------------------------------------ the loop, generic in slice *)
Section Gen.
Variable sl : segment -> pv -> pv -> res segment.

Definition resolve_pair_g (a b : segment) : res (segment * segment) :=
  if seg_empty a then Ok (a, b) else
  do ov <- end_overlaps a b;
  if negb ov then Ok (a, b) else
  do cs <- start_position b; do ce <- end_position a;
  do lsub <- sl a cs ce; do rsub <- sl b cs ce;
  let isref := speak rsub <? speak lsub in
  let ll := seg_labels isref lsub in let rl := seg_labels isref rsub in
  if Nat.eqb (length ll) (length rl) then
    let k := optimal_merge_index (map fst ll) (map fst rl) in
    if Nat.eqb k 0 then Ok (seg_sub a (positions lsub), b)
    else if Nat.eqb k (length ll) then Ok (a, seg_sub b (positions rsub))
    else
      let li := nth k (map snd ll) O in let ri := nth k (map snd rl) O in
      Ok (seg_sub a (skipn li (positions lsub)), seg_sub b (firstn ri (positions rsub)))
  else
    if sscore rsub <? sscore lsub then Ok (a, seg_sub b (positions rsub)) else Ok (seg_sub a (positions lsub), b).

Fixpoint retry_g (fuel : nat) (l : list segment) (stack : list nat) (i1 : nat) : res (list segment * list nat) :=
  match fuel with O => Ok (l, stack) | S f =>
    match stack, nth_error l i1 with
    | i0 :: rest, Some b =>
      if has_pairs b then
        match nth_error l i0 with
        | Some a => do ab <- resolve_pair_g a b;
                    let l' := set_nth (set_nth l i0 (fst ab)) i1 (snd ab) in
                    if has_pairs (fst ab) then Ok (l', stack) else retry_g f l' rest i1
        | None => Err
        end
      else Ok (l, stack)
    | _, _ => Ok (l, stack)
    end end.
Fixpoint resolve_loop_g (n : nat) (i1 : nat) (l : list segment) (stack : list nat) : res (list segment) :=
  match n with O => Ok l | S m =>
    do r <- retry_g (S (length stack)) l stack i1;
    let l' := fst r in
    let stack' := match nth_error l' i1 with Some b => if has_pairs b then i1 :: snd r else snd r | None => snd r end in
    resolve_loop_g m (S i1) l' stack'
  end.
Definition resolve_conflicts_g (P : params) (segs : list segment) : res (list segment) :=
  if (length segs <? 2)%nat then Ok segs else
  do ch <- chain P segs; resolve_loop_g (length ch) 0 ch [].
Definition aligner_align_g (P : params) (it : Z) (reference query : omap) (peaks : list Z) (reverse : bool) : res (list segment) :=
  resolve_conflicts_g P (segs_for_peaks P it reference query peaks reverse).
End Gen.

(* instantiated with the slice of the code, this is the model *)
Lemma resolve_pair_g_slice a b : resolve_pair_g slice a b = resolve_pair a b.
Proof. reflexivity. Qed.
Lemma retry_g_slice fuel : forall l stack i1, retry_g slice fuel l stack i1 = retry fuel l stack i1.
Proof. induction fuel as [|f IH]; intros l stack i1; [reflexivity|]. cbn [retry_g retry].
  destruct stack as [|i0 rest]; [reflexivity|]. destruct (nth_error l i1) as [b|]; [|reflexivity].
  destruct (has_pairs b); [|reflexivity]. destruct (nth_error l i0) as [a|]; [|reflexivity].
  rewrite resolve_pair_g_slice. destruct (resolve_pair a b) as [ab|]; [|reflexivity]. cbn [bind].
  destruct (has_pairs (fst ab)); [reflexivity | apply IH]. Qed.
Lemma resolve_loop_g_slice n : forall i1 l stack, resolve_loop_g slice n i1 l stack = resolve_loop n i1 l stack.
Proof. induction n as [|m IH]; intros i1 l stack; [reflexivity|]. cbn [resolve_loop_g resolve_loop]. rewrite retry_g_slice.
  destruct (retry (S (length stack)) l stack i1) as [r|]; [|reflexivity]. cbn [bind]. apply IH. Qed.
Theorem aligner_align_g_slice P it reference query peaks reverse :
  aligner_align_g slice P it reference query peaks reverse = aligner_align P it reference query peaks reverse.
Proof. unfold aligner_align_g, aligner_align, resolve_conflicts_g, resolve_conflicts.
  destruct (length _ <? 2)%nat; [reflexivity|]. destruct (chain P _) as [ch|]; [|reflexivity]. cbn [bind]. apply resolve_loop_g_slice. Qed.

(* ------------------------------------------------------------------------------------------------ one step *)
Lemma has_pairs_defined s : has_pairs s = true -> seg_defined s.
Proof. unfold has_pairs, seg_defined. destruct (aligned s); [discriminate|]. intros _ _. discriminate. Qed.

Lemma end_overlaps_defined a b : seg_defined a -> seg_defined b -> exists ov, end_overlaps a b = Ok ov.
Proof. intros Ha Hb. unfold end_overlaps. destruct (seg_empty a); [eexists; reflexivity|].
  destruct (seg_defined_positions a Ha) as (as_ & ae & -> & ->). destruct (seg_defined_positions b Hb) as (bs & be & -> & ->).
  cbn [bind]. eexists; reflexivity. Qed.

(* a step raises only inside slice *)
Theorem resolve_pair_g_total sl a b : seg_defined a -> seg_defined b ->
  (forall cs ce, start_position b = Ok cs -> end_position a = Ok ce -> (exists r, sl a cs ce = Ok r) /\ (exists r, sl b cs ce = Ok r)) ->
  exists r, resolve_pair_g sl a b = Ok r.
Proof.
  intros Ha Hb Hsl. unfold resolve_pair_g. destruct (seg_empty a); [eexists; reflexivity|].
  destruct (end_overlaps_defined a b Ha Hb) as (ov & ->). cbn [bind]. destruct (negb ov); [eexists; reflexivity|].
  destruct (seg_defined_positions a Ha) as (as_ & ae & _ & Eae). destruct (seg_defined_positions b Hb) as (bs & be & Ebs & _).
  rewrite Ebs, Eae. cbn [bind]. destruct (Hsl bs ae Ebs Eae) as ((l & ->) & (r & ->)). cbn [bind].
  destruct (Nat.eqb _ _).
  - destruct (Nat.eqb _ 0); [eexists; reflexivity|]. destruct (Nat.eqb _ _); eexists; reflexivity.
  - destruct (_ <? _); eexists; reflexivity.
Qed.

Theorem resolve_pair_g_err sl a b : seg_defined a -> seg_defined b -> resolve_pair_g sl a b = Err ->
  seg_empty a = false /\ end_overlaps a b = Ok true /\
  exists cs ce, start_position b = Ok cs /\ end_position a = Ok ce /\ (sl a cs ce = Err \/ sl b cs ce = Err).
Proof.
  intros Ha Hb H. unfold resolve_pair_g in H. destruct (seg_empty a); [discriminate|]. split; [reflexivity|].
  destruct (end_overlaps_defined a b Ha Hb) as (ov & Eov). rewrite Eov in *. cbn [bind] in H. destruct ov; [|discriminate]. split; [reflexivity|].
  cbn [negb] in H.
  destruct (seg_defined_positions a Ha) as (as_ & ae & _ & Eae). destruct (seg_defined_positions b Hb) as (bs & be & Ebs & _).
  rewrite Ebs, Eae in H. cbn [bind] in H. exists bs, ae. split; [exact Ebs|]. split; [exact Eae|].
  destruct (sl a bs ae) as [l|]; [|left; reflexivity]. destruct (sl b bs ae) as [r|]; [|right; reflexivity]. exfalso. cbn [bind] in H.
  destruct (Nat.eqb _ _).
  - destruct (Nat.eqb _ 0); [discriminate|]. destruct (Nat.eqb _ _); discriminate.
  - destruct (_ <? _); discriminate.
Qed.

(* the first resolution between two segments as the factory built them never raises; the slices have the shapes of slice_left_ok /
   slice_right_ok (after repair F8 this is an instance of resolve_pair_total below) *)
Theorem resolve_pair_fresh_total a b :
  first_is_pair (positions a) -> last_is_pair (positions a) -> pairs_le_end a -> first_is_pair (positions b) ->
  exists r, resolve_pair a b = Ok r.
Proof.
  intros Hfa Hla Hle Hfb. rewrite <- resolve_pair_g_slice.
  apply resolve_pair_g_total; [apply first_pair_defined; exact Hfa | apply first_pair_defined; exact Hfb|].
  intros cs ce Hcs Hce. split.
  - destruct (slice_left_ok a cs ce Hla Hle Hce) as (n & ->). eexists; reflexivity.
  - apply slice_right_ok; assumption.
Qed.

(* one resolution step on two segments with defined ends never raises (slice is total after repair F8) *)
Theorem resolve_pair_total a b : seg_defined a -> seg_defined b -> exists r, resolve_pair a b = Ok r.
Proof. intros Ha Hb. rewrite <- resolve_pair_g_slice. apply resolve_pair_g_total; [exact Ha | exact Hb|].
  intros cs ce _ _. split; apply slice_total. Qed.

(* ------------------------------------------------------------------------------------------------ the loop never raises outside slice *)
Lemma set_nth_length {A} (l : list A) : forall i x, length (set_nth l i x) = length l.
Proof. induction l as [|y t IH]; intros i x; [destruct i; reflexivity|]. destruct i; cbn; [reflexivity | rewrite IH; reflexivity]. Qed.
Lemma nth_error_set_nth_same {A} (l : list A) : forall i x, (i < length l)%nat -> nth_error (set_nth l i x) i = Some x.
Proof. induction l as [|y t IH]; intros i x H; [cbn in H; lia|]. destruct i; [reflexivity|]. cbn. apply IH. cbn in H. lia. Qed.
Lemma nth_error_set_nth_other {A} (l : list A) : forall i j x, i <> j -> nth_error (set_nth l j x) i = nth_error l i.
Proof. induction l as [|y t IH]; intros i j x H; [destruct j; reflexivity|]. destruct j, i; try reflexivity; [congruence|]. cbn. apply IH. congruence. Qed.

(* members on the stack: earlier indexes, present, still with pairs *)
Definition stack_ok (l : list segment) (stack : list nat) (i1 : nat) : Prop :=
  NoDup stack /\ forall i, In i stack -> (i < i1)%nat /\ exists a, nth_error l i = Some a /\ has_pairs a = true.

Section Total.
Variable sl : segment -> pv -> pv -> res segment.
Hypothesis sl_total : forall s st en, exists r, sl s st en = Ok r.

Lemma retry_g_total fuel : forall l stack i1, stack_ok l stack i1 ->
  exists l' stack', retry_g sl fuel l stack i1 = Ok (l', stack') /\ stack_ok l' stack' i1 /\ length l' = length l.
Proof.
  induction fuel as [|f IH]; intros l stack i1 Hok; [exists l, stack; split; [reflexivity|]; split; [exact Hok | reflexivity]|].
  cbn [retry_g]. destruct stack as [|i0 rest]; [exists l, []; split; [reflexivity|]; split; [exact Hok | reflexivity]|].
  destruct (nth_error l i1) as [b|] eqn:Eb; [|exists l, (i0 :: rest); split; [reflexivity|]; split; [exact Hok | reflexivity]].
  destruct (has_pairs b) eqn:Hb; [|exists l, (i0 :: rest); split; [reflexivity|]; split; [exact Hok | reflexivity]].
  destruct Hok as (Hnd & Hst). destruct (Hst i0 (or_introl eq_refl)) as (Hlt & a & Ea & Hpa). rewrite Ea.
  destruct (resolve_pair_g_total sl a b (has_pairs_defined a Hpa) (has_pairs_defined b Hb)) as (ab & Eab).
  { intros cs ce _ _. split; apply sl_total. }
  rewrite Eab. cbn [bind].
  assert (Hi0 : (i0 < length l)%nat) by (apply nth_error_Some; congruence).
  assert (Hrest : forall i, In i rest -> i <> i0 /\ i <> i1).
  { intros i Hi. split; [intros ->; inversion Hnd; contradiction|]. destruct (Hst i (or_intror Hi)) as (Hl & _). lia. }
  set (l' := set_nth (set_nth l i0 (fst ab)) i1 (snd ab)).
  assert (Hlen : length l' = length l) by (unfold l'; rewrite !set_nth_length; reflexivity).
  assert (Hkeep : forall i, In i rest -> nth_error l' i = nth_error l i).
  { intros i Hi. destruct (Hrest i Hi) as (H0 & H1). unfold l'. rewrite nth_error_set_nth_other by exact H1. apply nth_error_set_nth_other. exact H0. }
  destruct (has_pairs (fst ab)) eqn:Hpa'.
  - exists l', (i0 :: rest). split; [reflexivity|]. split; [|exact Hlen]. split; [exact Hnd|]. intros i [<-|Hi].
    + split; [exact Hlt|]. exists (fst ab). split; [|exact Hpa']. unfold l'. rewrite nth_error_set_nth_other by lia.
      apply nth_error_set_nth_same. exact Hi0.
    + destruct (Hst i (or_intror Hi)) as (Hl & a' & Ea' & Hp'). split; [exact Hl|]. exists a'. rewrite (Hkeep i Hi). split; assumption.
  - destruct (IH l' rest i1) as (l2 & st2 & E2 & Hok2 & Hlen2).
    + split; [inversion Hnd; assumption|]. intros i Hi. destruct (Hst i (or_intror Hi)) as (Hl & a' & Ea' & Hp'). split; [exact Hl|].
      exists a'. rewrite (Hkeep i Hi). split; assumption.
    + exists l2, st2. split; [exact E2|]. split; [exact Hok2 | lia].
Qed.

Lemma resolve_loop_g_total n : forall i1 l stack, stack_ok l stack i1 -> exists r, resolve_loop_g sl n i1 l stack = Ok r.
Proof.
  induction n as [|m IH]; intros i1 l stack Hok; [eexists; reflexivity|]. cbn [resolve_loop_g].
  destruct (retry_g_total (S (length stack)) l stack i1 Hok) as (l' & st' & -> & (Hnd & Hst) & _). cbn [bind fst snd].
  apply IH. destruct (nth_error l' i1) as [b|] eqn:Eb.
  - destruct (has_pairs b) eqn:Hb.
    + split; [constructor; [intros Hin; destruct (Hst i1 Hin); lia | exact Hnd]|]. intros i [<-|Hi].
      * split; [lia|]. exists b. split; assumption.
      * destruct (Hst i Hi) as (Hl & Hx). split; [lia | exact Hx].
    + split; [exact Hnd|]. intros i Hi. destruct (Hst i Hi) as (Hl & Hx). split; [lia | exact Hx].
  - split; [exact Hnd|]. intros i Hi. destruct (Hst i Hi) as (Hl & Hx). split; [lia | exact Hx].
Qed.

Theorem aligner_align_g_total P it reference query peaks reverse : SU P <= 0 -> 0 < MS P ->
  exists segs, aligner_align_g sl P it reference query peaks reverse = Ok segs.
Proof.
  intros Hsu Hms. unfold aligner_align_g, resolve_conflicts_g. destruct (length _ <? 2)%nat; [eexists; reflexivity|].
  destruct (aligner_chain_total P it reference query peaks reverse Hsu Hms) as (ch & ->). cbn [bind].
  apply resolve_loop_g_total. split; [constructor | intros i []]. Qed.
End Total.

(* ------------------------------------------------------------------------------------------------ monotone in slice *)
Section Mono.
Variables sl1 sl2 : segment -> pv -> pv -> res segment.
Hypothesis sl_le : forall s st en r, sl1 s st en = Ok r -> sl2 s st en = Ok r.

Lemma resolve_pair_g_mono a b r : resolve_pair_g sl1 a b = Ok r -> resolve_pair_g sl2 a b = Ok r.
Proof. unfold resolve_pair_g. destruct (seg_empty a); [exact (fun H => H)|]. destruct (end_overlaps a b) as [ov|]; [|discriminate]. cbn [bind].
  destruct (negb ov); [exact (fun H => H)|]. destruct (start_position b) as [cs|]; [|discriminate]. destruct (end_position a) as [ce|]; [|discriminate].
  cbn [bind]. destruct (sl1 a cs ce) as [l|] eqn:El; [|discriminate]. rewrite (sl_le _ _ _ _ El). cbn [bind].
  destruct (sl1 b cs ce) as [rr|] eqn:Er; [|discriminate]. rewrite (sl_le _ _ _ _ Er). cbn [bind]. exact (fun H => H). Qed.
Lemma retry_g_mono fuel : forall l stack i1 r, retry_g sl1 fuel l stack i1 = Ok r -> retry_g sl2 fuel l stack i1 = Ok r.
Proof. induction fuel as [|f IH]; intros l stack i1 r; [exact (fun H => H)|]. cbn [retry_g].
  destruct stack as [|i0 rest]; [exact (fun H => H)|]. destruct (nth_error l i1) as [b|]; [|exact (fun H => H)].
  destruct (has_pairs b); [|exact (fun H => H)]. destruct (nth_error l i0) as [a|]; [|exact (fun H => H)].
  destruct (resolve_pair_g sl1 a b) as [ab|] eqn:E; [|discriminate]. rewrite (resolve_pair_g_mono _ _ _ E). cbn [bind].
  destruct (has_pairs (fst ab)); [exact (fun H => H) | apply IH]. Qed.
Lemma resolve_loop_g_mono n : forall i1 l stack r, resolve_loop_g sl1 n i1 l stack = Ok r -> resolve_loop_g sl2 n i1 l stack = Ok r.
Proof. induction n as [|m IH]; intros i1 l stack r; [exact (fun H => H)|]. cbn [resolve_loop_g].
  destruct (retry_g sl1 _ l stack i1) as [x|] eqn:E; [|discriminate]. rewrite (retry_g_mono _ _ _ _ _ E). cbn [bind]. apply IH. Qed.
Theorem aligner_align_g_mono P it reference query peaks reverse r :
  aligner_align_g sl1 P it reference query peaks reverse = Ok r -> aligner_align_g sl2 P it reference query peaks reverse = Ok r.
Proof. unfold aligner_align_g, resolve_conflicts_g. destruct (length _ <? 2)%nat; [exact (fun H => H)|].
  destruct (chain P _) as [ch|]; [|discriminate]. cbn [bind]. apply resolve_loop_g_mono. Qed.
End Mono.

(* ------------------------------------------------------------------------------------------------ summary statements *)
(* Aligner.align never raises, for every pair of maps (sorted or not), every list of peaks, both strands, every iteration counter
   and every parameter set with unmatchedPenalty <= 0 < minScore *)
Theorem aligner_total P it reference query peaks reverse : SU P <= 0 -> 0 < MS P ->
  exists segs, aligner_align P it reference query peaks reverse = Ok segs.
Proof. rewrite <- aligner_align_g_slice. apply aligner_align_g_total. apply slice_total. Qed.
(* and it returns what the code before repair F8 returned whenever that did not raise *)
Theorem aligner_old_agree P it reference query peaks reverse segs :
  aligner_align_g (slice_gen false) P it reference query peaks reverse = Ok segs -> aligner_align P it reference query peaks reverse = Ok segs.
Proof. rewrite <- aligner_align_g_slice. apply aligner_align_g_mono. apply slice_old_agree. Qed.
(* the code before repair F8: the segments were built, ordered and chained without raising; if Aligner.align raised, it was the
   IndexError of slice inside the resolution loop over a chain of at least two members, where the code as it is does not raise *)
Theorem aligner_old_err_only_in_loop P it reference query peaks reverse : SU P <= 0 -> 0 < MS P ->
  aligner_align_g (slice_gen false) P it reference query peaks reverse = Err ->
  exists ch, chain P (segs_for_peaks P it reference query peaks reverse) = Ok ch /\
             (2 <= length (segs_for_peaks P it reference query peaks reverse))%nat /\
             resolve_loop_g (slice_gen false) (length ch) 0 ch [] = Err /\ exists r, resolve_loop (length ch) 0 ch [] = Ok r.
Proof.
  intros Hsu Hms H. unfold aligner_align_g, resolve_conflicts_g in H.
  destruct (length _ <? 2)%nat eqn:El; [discriminate|].
  destruct (aligner_chain_total P it reference query peaks reverse Hsu Hms) as (ch & Ech). rewrite Ech in H. cbn [bind] in H.
  exists ch. split; [exact Ech|]. split; [apply Nat.ltb_ge in El; exact El|]. split; [exact H|].
  rewrite <- resolve_loop_g_slice. apply resolve_loop_g_total; [apply slice_total|]. split; [constructor | intros i []]. Qed.

(* the first resolution step between any two segments Aligner.align builds (sorted maps) does not raise *)
Theorem first_resolution_total P it reference query peaks reverse a b :
  StronglySorted Z.le (mpositions reference) -> StronglySorted Z.le (mpositions query) -> SU P <= 0 -> 0 < MS P ->
  In a (segs_for_peaks P it reference query peaks reverse) -> In b (segs_for_peaks P it reference query peaks reverse) ->
  exists r, resolve_pair a b = Ok r.
Proof.
  intros Hr Hq Hsu Hms Ha Hb.
  destruct (aligner_segments_ends P it reference query peaks reverse a Hsu Hms Ha) as (Hfa & Hla).
  destruct (aligner_segments_ends P it reference query peaks reverse b Hsu Hms Hb) as (Hfb & _).
  destruct (segs_for_peaks_in _ _ _ _ _ _ _ Ha) as (it' & peak & Ha').
  apply resolve_pair_fresh_total; try assumption. apply (fresh_pairs_le_end P it' reference query peak reverse a Hr Hq Ha').
Qed.

From Coq Require Import ZArith List Bool Lia.
Import ListNotations.
Require Import Py Cigar Checkers.
Open Scope Z_scope.

Lemma mono_fromb_spec dir p ps : mono_fromb dir p ps = true <-> valid_from dir p ps.
Proof.
  revert p; induction ps as [|p' r IH]; intros p; cbn [mono_fromb valid_from]; [tauto|].
  rewrite !andb_true_iff, IH, Z.ltb_lt, Z.ltb_lt. tauto.
Qed.

Definition in_range (nref qlo qhi : Z) (p : pair) : Prop := 1 <= fst p <= nref /\ qlo <= snd p <= qhi.
Lemma in_rangeb_spec nref qlo qhi p : in_rangeb nref qlo qhi p = true <-> in_range nref qlo qhi p.
Proof. unfold in_rangeb, in_range. rewrite !andb_true_iff, !Z.leb_le. tauto. Qed.

(* the property statement of C01 for one record *)
Definition valid_row (nref qlo qhi : Z) (rev : bool) (ps : list pair) : Prop :=
  ps <> [] /\ Forall (in_range nref qlo qhi) ps /\ valid (if rev then -1 else 1) ps.

Theorem valid_rowb_spec nref qlo qhi rev ps : valid_rowb nref qlo qhi rev ps = true <-> valid_row nref qlo qhi rev ps.
Proof.
  unfold valid_rowb, valid_row. destruct ps as [|p r].
  - split; [discriminate | intros [H _]; congruence].
  - rewrite andb_true_iff, forallb_forall, Forall_forall, mono_fromb_spec. cbn [valid].
    split.
    + intros [H1 H2]. split; [discriminate|]. split; [|exact H2]. intros x Hx. apply in_rangeb_spec, H1, Hx.
    + intros (_ & H1 & H2). split; [|exact H2]. intros x Hx. apply in_rangeb_spec, H1, Hx.
Qed.

(* a valid matching uses every reference label and every query label at most once *)
Lemma valid_from_bounds dir p ps : dir = 1 \/ dir = -1 -> valid_from dir p ps ->
  Forall (fun x => fst p < fst x /\ 0 < dir * (snd x - snd p)) ps.
Proof.
  intros Hd. revert p; induction ps as [|p' r IH]; intros p H; [constructor|].
  destruct H as (H1 & H2 & H3). constructor; [split; assumption|].
  specialize (IH p' H3). eapply Forall_impl; [|exact IH]. cbn beta. intros x [Hx1 Hx2]. destruct Hd; subst dir; lia.
Qed.
Theorem valid_one_to_one dir ps : dir = 1 \/ dir = -1 -> valid dir ps -> NoDup (map fst ps) /\ NoDup (map snd ps).
Proof.
  intros Hd. destruct ps as [|p r]; [intros _; split; constructor|]. cbn [valid]. revert p.
  induction r as [|p' r IH]; intros p H.
  - split; repeat constructor; intros [].
  - pose proof (valid_from_bounds dir p (p' :: r) Hd H) as HB. destruct H as (H1 & H2 & H3).
    destruct (IH p' H3) as [N1 N2]. split; (change (map ?f (p :: p' :: r)) with (f p :: map f (p' :: r)) || idtac); constructor; try assumption.
    + intros Hin. apply in_map_iff in Hin. destruct Hin as (x & Hx & Hin). rewrite Forall_forall in HB.
      destruct (HB x Hin) as [Hb _]. lia.
    + intros Hin. apply in_map_iff in Hin. destruct Hin as (x & Hx & Hin). rewrite Forall_forall in HB.
      destruct (HB x Hin) as [_ Hb]. rewrite Hx in Hb. destruct Hd; subst dir; lia.
Qed.

(* The capstone, part 2: the run-level theorems restated about Program.program_files, with hypotheses on the rows of the two CMAP files and
   on the command line only.  seeds_ok is discharged by SeedingProofs1.seeds_model_ok, "references sorted / queries trimmed / distinct ids"
   by ProgramProofs1.read_maps_ok (from the reader theorems of C17). *)
From Coq Require Import ZArith QArith List Bool Lia String Ascii Sorting.Sorted Sorting.Permutation.
Import ListNotations.
Require Import Py PyProofs Pairing Core Cigar Multi Coordinator Checkers CheckersProofs Cmap Xmap Record Wiring Seeding Program
  CmapProofs CmapProofs2 RecordProofs1 RecordProofs3 XmapProofs1 XmapProofs2 BestProofs4
  RunProofs2 RunProofs3 RunProofs4 RunRecordProofs1 RunRecordProofs2 RunRecordProofs3 SeedingProofs1 ProgramProofs1.
Open Scope Z_scope.
Local Open Scope string_scope.

(* (reference siteId, query siteId) of the pairs of an alignment the XMAP reader returned *)
Definition sites_of (a : xalign) : list (Z * Z) := map (fun x => match x with (rsite, _, qsite, _, _) => (rsite, qsite) end) (a_pairs a).
(* QryContigID of a data line, as an independent reader takes it: second tab-separated field, an integer *)
Definition line_qid (line : string) : option Z := match split_on TAB line with _ :: f :: _ => Xmap.parse_int f | _ => None end.
(* the query ids of the data lines of a file are integers in strictly ascending order (so: at most one record per query) *)
Definition qids_ascending (lines : list string) : Prop := exists ids, map line_qid lines = map Some ids /\ StronglySorted Z.lt ids.

Lemma line_qid_row i (w : Multi.row) runs : line_qid (write_row i (xrow_of_row w runs)) = Some (qid w).
Proof. unfold line_qid. rewrite record_fields. apply parse_print_int. Qed.

Lemma nth_error_ext_len {A} (l l' : list A) : List.length l = List.length l' -> (forall k, nth_error l k = nth_error l' k) -> l = l'.
Proof. revert l'. induction l as [|a t IH]; intros [|b u] Hl H; try discriminate; [reflexivity|].
  pose proof (H O) as H0. cbn in H0. inversion H0. subst b. f_equal. apply IH; [cbn in Hl; lia|]. intros k. apply (H (S k)). Qed.
Lemma nth_error_map_o {A B} (f : A -> B) l k : nth_error (map f l) k = option_map f (nth_error l k).
Proof. revert k. induction l as [|a t IH]; intros [|k]; cbn; try reflexivity. apply IH. Qed.

(* the query-id column of a printed file is the qid column of its rows *)
Lemma file_qids rows lines : file_data_lines rows = Ok lines -> map line_qid lines = map Some (map qid rows).
Proof. intros H. destruct (file_lines_rows rows lines H) as (Hl & Hn). apply nth_error_ext_len; [rewrite !map_length; exact Hl|].
  intros k. rewrite !nth_error_map_o. destruct (nth_error rows k) as [w|] eqn:Ew.
  - destruct (Hn k w Ew) as (runs & _ & ->). cbn [option_map]. rewrite line_qid_row. reflexivity.
  - apply nth_error_None in Ew. rewrite <- Hl in Ew. apply nth_error_None in Ew. rewrite Ew. reflexivity. Qed.

(* ------------------------------------------------------------------------------------------------ lifting a row predicate to the files *)
(* rows_shape m o Q (RunRecordProofs3): Q holds for all rows of the additional files; every row of the main file has Q or (modes other than
   `separate`) is the AlignmentResultRow.resolve of two rows that have Q.  Then every data line of every file of program_files is the printing,
   with XmapEntryID = its 1-based number in the file, of such a row. *)
Theorem files_shape (m : mode) o files (Q : Multi.row -> Prop) : write_outputs o = Ok files -> rows_shape m o Q ->
  forall sfx lines k line, In (sfx, lines) files -> nth_error lines k = Some line ->
    exists rows w runs, rows_of_file o sfx = Some rows /\ nth_error rows k = Some w /\ cigar_runs (site_pairs (rsegs w)) = Ok runs /\
      line = write_row (Z.of_nat k + 1) (xrow_of_row w runs) /\
      (Q w \/ (sfx = "" /\ m <> Separate /\ exists a b, Q a /\ Q b /\ join_rows a b = Ok w)).
Proof. intros Hw (Hadd & Hmain & Hsep) sfx lines k line Hin Hk. destruct (write_outputs_spec o files Hw) as (Hf & _).
  apply Hf in Hin. destruct Hin as (rows & Er & El). destruct (file_line_row rows lines k line El Hk) as (w & runs & Hkw & Ec & ->).
  exists rows, w, runs. repeat (split; [assumption || reflexivity|]). pose proof (nth_error_In _ _ Hkw) as Hinw. unfold rows_of_file in Er.
  destruct (String.eqb sfx "") eqn:B0.
  { apply String.eqb_eq in B0. subst sfx. inversion Er. subst rows. destruct (Hmain w Hinw) as [H|(Hm & H)]; [left; exact H | right; repeat split; assumption]. }
  left. apply Hadd. apply in_or_app. destruct (String.eqb sfx "_1"); [left | destruct (String.eqb sfx "_2"); [right | discriminate]]; rewrite Er; exact Hinw. Qed.

Section Program.
Variables (cl : cmdline) (rr qr : list cmap_row).
Hypothesis Hcl : cmdline_ok cl.
Hypothesis Hrr : cmap_ok (cl_rids cl) rr.
Hypothesis Hqr : cmap_ok (cl_qids cl) qr.
Let P := make_params (cl_args cl).
Let seeds : seeding := seeds_model (cl_seed cl).
Let m := cl_mode cl.
Let maxdiff := K * cl_diff cl.

(* what the two reads give: the hypotheses of every run-level theorem *)
Record prog_setup (refs q0s : list Pairing.omap) : Prop := {
  su_rread : cmap_read rr (cl_rids cl) = Ok refs;
  su_qread : cmap_read qr (cl_qids cl) = Ok q0s;
  su_refs : forall r, In r refs -> reference_ok r;
  su_rid : NoDup (map mid refs);
  su_q0s : forall q0, In q0 q0s -> query_read q0;
  su_qid : NoDup (map mid q0s);
  su_rlab : forall r, In r refs -> sel (cl_rids cl) (mid r) /\ nlabels r = Z.of_nat (List.length (labels_of rr (mid r)));
  su_qlab : forall q0, In q0 q0s -> sel (cl_qids cl) (mid q0) /\ nlabels q0 = Z.of_nat (List.length (labels_of qr (mid q0))) }.

Lemma program_setup : exists refs q0s, prog_setup refs q0s.
Proof. destruct (read_maps_ok _ _ Hrr) as (refs & E1 & _ & N1 & Q1 & L1). destruct (read_maps_ok _ _ Hqr) as (q0s & E2 & _ & N2 & Q2 & L2).
  exists refs, q0s. constructor; try assumption. intros r Hr. destruct (Q1 r Hr) as (A & B & _). split; assumption. Qed.

Lemma cl_Hsu : SU P <= 0. Proof. apply (cmdline_params cl Hcl). Qed.
Lemma cl_Hms : 0 < MS P. Proof. apply (cmdline_params cl Hcl). Qed.

Lemma setup_run refs q0s : prog_setup refs q0s -> program_outputs cl rr qr = program_run P seeds m maxdiff refs (map trim q0s).
Proof. intros S. apply program_outputs_of_read; [apply (su_rread _ _ S) | apply (su_qread _ _ S)]. Qed.
Lemma setup_unique refs q0s refs' q0s' : prog_setup refs q0s -> prog_setup refs' q0s' -> refs' = refs /\ q0s' = q0s.
Proof. intros S S'. pose proof (su_rread _ _ S) as A. pose proof (su_rread _ _ S') as A'. pose proof (su_qread _ _ S) as B. pose proof (su_qread _ _ S') as B'.
  rewrite A in A'. rewrite B in B'. inversion A'. inversion B'. split; reflexivity. Qed.

(* ------------------------------------------------------------------------------------------------ C07: the program never raises *)
Theorem program_total : exists refs q0s o,
  cmap_read rr (cl_rids cl) = Ok refs /\ cmap_read qr (cl_qids cl) = Ok q0s /\ program_outputs cl rr qr = Ok o /\
  (exists l1 l2, file_data_lines (opt_rows (o_1 o)) = Ok l1 /\ file_data_lines (opt_rows (o_2 o)) = Ok l2) /\
  (cl_mode cl = Separate \/ (forall w, In w (o_main o) -> joined_row refs q0s w -> row_matching refs q0s w) ->
   exists files, program_files cl rr qr = Ok files).
Proof. destruct program_setup as (refs & q0s & S). exists refs, q0s.
  assert (Hqq : forall q, In q (map trim q0s) -> trimmed q).
  { intros q H. apply in_map_iff in H. destruct H as (q0 & <- & H0). apply trim_trimmed, (su_q0s _ _ S), H0. }
  assert (Hn : NoDup (map mid (map trim q0s))) by (rewrite map_mid_trim; apply (su_qid _ _ S)).
  destruct (run_full_total P (cl_seed cl) m maxdiff refs (map trim q0s) cl_Hsu cl_Hms (fun r H => proj2 (su_refs _ _ S r H)) Hqq Hn) as (o & Ho).
  exists o. split; [apply (su_rread _ _ S)|]. split; [apply (su_qread _ _ S)|]. split; [rewrite (setup_run _ _ S); exact Ho|].
  destruct (run_files_readable P seeds refs q0s cl_Hsu cl_Hms (seeds_model_ok (cl_seed cl) refs) (su_refs _ _ S) (su_q0s _ _ S) (su_rid _ _ S) (su_qid _ _ S)
              m maxdiff o Ho) as (R1 & R2 & Rs & Rj & _).
  destruct (readable_lines _ _ _ R1) as (l1 & E1). destruct (readable_lines _ _ _ R2) as (l2 & E2).
  split; [exists l1, l2; split; assumption|]. intros Hc.
  assert (R0 : file_readable refs q0s (o_main o)) by (destruct Hc as [Hc|Hc]; [apply Rs, Hc | apply Rj, Hc]).
  assert (Ho' : program_run P seeds m maxdiff refs (map trim q0s) = Ok o) by exact Ho.
  unfold program_files. rewrite (setup_run _ _ S), Ho'. cbn [bind].
  apply write_outputs_ok; [apply (readable_lines _ _ _ R0) | exists l1; exact E1 | exists l2; exact E2]. Qed.

Corollary program_total_separate : cl_mode cl = Separate -> exists files, program_files cl rr qr = Ok files.
Proof. intros Hm. destruct program_total as (refs & q0s & o & _ & _ & _ & _ & H). apply H. left. exact Hm. Qed.

(* ------------------------------------------------------------------------------------------------ the run behind the files *)
Variable files : list (string * list string).
Hypothesis Hfiles : program_files cl rr qr = Ok files.

Lemma files_run : exists refs q0s o, prog_setup refs q0s /\ program_run P seeds m maxdiff refs (map trim q0s) = Ok o /\
  program_outputs cl rr qr = Ok o /\ write_outputs o = Ok files.
Proof. destruct program_setup as (refs & q0s & S). destruct (program_files_spec cl rr qr files Hfiles) as (o & Ho & Hw).
  exists refs, q0s, o. split; [exact S|]. split; [rewrite <- (setup_run _ _ S); exact Ho|]. split; assumption. Qed.

(* which files are written *)
Theorem program_file_names :
  map fst files = match cl_mode cl with Best => [""] | Separate => [""; "_1"] | Joined => [""; "_1"] | All_ => [""; "_1"; "_2"] end.
Proof. destruct files_run as (refs & q0s & o & S & Ho & _ & Hw). destruct (write_outputs_spec o files Hw) as (_ & Hn). rewrite Hn.
  pose proof (unique_query P seeds refs m maxdiff (map trim q0s) o Ho) as (_ & H). fold m. destruct m.
  - destruct H as (-> & ->). reflexivity.
  - destruct H as (f2 & -> & -> & _). reflexivity.
  - destruct H as (sep & -> & -> & _). reflexivity.
  - destruct H as (f1 & f2 & -> & -> & _). reflexivity. Qed.

(* ------------------------------------------------------------------------------------------------ C01: every record is a valid matching *)
(* a data line, read back by the project's XMAP reader constructed with the two CMAP files as read: the reader returns normally, the record
   names a selected molecule of each file, and its pairs are a non-empty one-to-one collinear matching (ascending on the reference, ascending /
   descending on the query according to the orientation) of labels 1..n of these two molecules, n = the number of label rows the molecule has
   in its CMAP file *)
Definition record_valid (refs q0s : list Pairing.omap) (line : string) : Prop :=
  exists a, read_line (map xmap_of refs) (map xmap_of q0s) line = XOk a /\
    sel (cl_rids cl) (a_rid a) /\ sel (cl_qids cl) (a_qid a) /\
    valid_row (Z.of_nat (List.length (labels_of rr (a_rid a)))) 1 (Z.of_nat (List.length (labels_of qr (a_qid a)))) (a_rev a) (sites_of a).

Lemma matching_record_valid refs q0s w runs i : prog_setup refs q0s -> row_matching refs q0s w -> cigar_runs (site_pairs (rsegs w)) = Ok runs ->
  record_valid refs q0s (write_row i (xrow_of_row w runs)).
Proof. intros S Hm Ec. destruct (matching_row_ok refs q0s (su_rid _ _ S) (su_qid _ _ S) w Hm) as (runs' & Ec' & _ & _ & Hok).
  rewrite Ec in Ec'. inversion Ec'. subst runs'. clear Ec'.
  exists (expected (map xmap_of refs) (map xmap_of q0s) (i, xrow_of_row w runs)). split; [apply read_write_row, Hok|].
  destruct (expected_of_row (map xmap_of refs) (map xmap_of q0s) i w runs) as (_ & Eq & Er & _ & _ & _ & _ & Ev & _ & _ & _ & _ & Ep).
  unfold sites_of. rewrite Ep, Eq, Er, Ev. destruct Hm as (r & q0 & Hr & Hq0 & Erid & Eqid & Hv). rewrite Erid, Eqid.
  destruct (su_rlab _ _ S r Hr) as (Sr & Lr). destruct (su_qlab _ _ S q0 Hq0) as (Sq & Lq). rewrite <- Lr, <- Lq. split; [exact Sr|]. split; [exact Sq | exact Hv]. Qed.

Theorem program_records_valid : exists refs q0s o,
  cmap_read rr (cl_rids cl) = Ok refs /\ cmap_read qr (cl_qids cl) = Ok q0s /\ program_outputs cl rr qr = Ok o /\
  (forall sfx lines, In (sfx, lines) files -> sfx <> "" \/ cl_mode cl = Separate -> Forall (record_valid refs q0s) lines) /\
  (forall lines k line, In ("", lines) files -> nth_error lines k = Some line ->
     exists w, nth_error (o_main o) k = Some w /\
       ((row_matching refs q0s w /\ record_valid refs q0s line) \/ (cl_mode cl <> Separate /\ joined_row refs q0s w))).
Proof. destruct files_run as (refs & q0s & o & S & Ho & Hpo & Hw). exists refs, q0s, o.
  split; [apply (su_rread _ _ S)|]. split; [apply (su_qread _ _ S)|]. split; [exact Hpo|].
  assert (Hqq : forall q, In q (map trim q0s) -> trimmed q).
  { intros q H. apply in_map_iff in H. destruct H as (q0 & <- & H0). apply trim_trimmed, (su_q0s _ _ S), H0. }
  assert (Hn : NoDup (map mid (map trim q0s))) by (rewrite map_mid_trim; apply (su_qid _ _ S)).
  pose proof (run_rows_valid P seeds refs (map trim q0s) cl_Hsu cl_Hms (seeds_model_ok (cl_seed cl) refs) (su_refs _ _ S) Hqq m maxdiff o Hn Ho) as Hv.
  assert (Hsh : rows_shape m o (row_matching refs q0s)).
  { apply (rows_shape_impl m o (valid_run_row refs (map trim q0s))); [intros w; apply matching_of_valid_run_row | exact Hv]. }
  pose proof (files_shape m o files _ Hw Hsh) as F. split.
  - intros sfx lines Hin Hc. apply Forall_forall. intros line Hl. apply In_nth_error in Hl. destruct Hl as (k & Hk).
    destruct (F sfx lines k line Hin Hk) as (rows & w & runs & _ & _ & Ec & -> & [Hq|(E0 & Hm & _)]).
    + apply (matching_record_valid refs q0s w runs _ S Hq Ec).
    + exfalso. destruct Hc as [Hc|Hc]; [apply Hc, E0 | apply Hm, Hc].
  - intros lines k line Hin Hk. destruct (F "" lines k line Hin Hk) as (rows & w & runs & Er & Hkw & Ec & -> & Hq).
    cbn in Er. inversion Er. subst rows. exists w. split; [exact Hkw|]. destruct Hq as [Hq|(_ & Hm & a & b & Ha & Hb & Ej)].
    + left. split; [exact Hq | apply (matching_record_valid refs q0s w runs _ S Hq Ec)].
    + right. split; [exact Hm|]. exists a, b. repeat split; assumption. Qed.

(* ------------------------------------------------------------------------------------------------ C05: query ids ascending *)
Lemma sorted_qids rows lines : file_data_lines rows = Ok lines -> StronglySorted Z.lt (map qid rows) -> qids_ascending lines.
Proof. intros El Hs. exists (map qid rows). split; [apply file_qids, El | exact Hs]. Qed.

End Program.

(* no hypothesis on the files or the command line is needed for the order of the records *)
Theorem program_ids_ascending cl rr qr files : program_files cl rr qr = Ok files ->
  (forall lines, In ("", lines) files -> qids_ascending lines) /\
  (cl_mode cl = Separate \/ cl_mode cl = All_ -> forall sfx lines, In (sfx, lines) files -> qids_ascending lines) /\
  (cl_mode cl = Joined -> forall lines, In ("_1", lines) files ->
     exists ids, map line_qid lines = map Some ids /\ forall c, (count_occ Z.eq_dec ids c <= 2)%nat).
Proof. intros Hfiles. destruct (program_files_spec cl rr qr files Hfiles) as (o & Ho & Hw).
  destruct (program_outputs_reads cl rr qr o Ho) as (refs & q0s & _ & _ & Hrun). destruct (write_outputs_spec o files Hw) as (Hf & _).
  pose proof (unique_query _ _ refs _ _ _ o Hrun) as (H0 & H). split; [|split].
  - intros lines Hin. apply Hf in Hin. destruct Hin as (rows & Er & El). cbn in Er. inversion Er. subst rows. eapply sorted_qids; [exact El | exact H0].
  - intros Hm sfx lines Hin. apply Hf in Hin. destruct Hin as (rows & Er & El). unfold rows_of_file in Er.
    destruct (String.eqb sfx ""); [inversion Er; subst rows; eapply sorted_qids; [exact El | exact H0]|].
    destruct Hm as [Hm|Hm]; rewrite Hm in H.
    + destruct H as (f2 & E1 & E2 & K2). rewrite E1, E2 in Er. destruct (String.eqb sfx "_1"); [inversion Er; subst rows; eapply sorted_qids; [exact El | assumption]|].
      destruct (String.eqb sfx "_2"); discriminate.
    + destruct H as (f1 & f2 & E1 & E2 & K1 & K2). rewrite E1, E2 in Er.
      destruct (String.eqb sfx "_1"); [inversion Er; subst rows; eapply sorted_qids; [exact El | assumption]|].
      destruct (String.eqb sfx "_2"); [inversion Er; subst rows; eapply sorted_qids; [exact El | assumption] | discriminate].
  - intros Hm lines Hin. apply Hf in Hin. destruct Hin as (rows & Er & El). cbn in Er. rewrite Hm in H. destruct H as (sep & E1 & _ & _ & _ & Hc).
    rewrite E1 in Er. inversion Er. subst rows. exists (map qid sep). split; [apply file_qids, El | exact Hc]. Qed.

(* ------------------------------------------------------------------------------------------------ C10: row order of the CMAP files *)
Theorem program_row_order cl rr rr' qr qr' : Permutation rr rr' -> Permutation qr qr' ->
  (forall i, (List.length (markers_of rr i) <= 1)%nat) -> (forall i, (List.length (markers_of qr i) <= 1)%nat) ->
  program_files cl rr' qr' = program_files cl rr qr.
Proof. intros Pr Pq Hr Hq. unfold program_files, program_outputs, program_read.
  rewrite (read_perm rr rr' (cl_rids cl) Pr Hr), (read_perm qr qr' (cl_qids cl) Pq Hq). reflexivity. Qed.

(* -rId / -qId = the files physically restricted to the listed molecules *)
Definition keep_rows (p : Z -> bool) (rows : list cmap_row) : list cmap_row := filter (fun r => p (Cmap.rid r)) rows.
Definition with_ids (cl : cmdline) (rids qids : list Z) : cmdline := mkCmd (cl_args cl) (cl_seed cl) (cl_mode cl) (cl_diff cl) rids qids.
Theorem program_id_filters cl rr qr :
  program_files cl rr qr =
  program_files (with_ids cl [] []) (match cl_rids cl with [] => rr | ids => keep_rows (fun i => mem_id i ids) rr end)
                                    (match cl_qids cl with [] => qr | ids => keep_rows (fun i => mem_id i ids) qr end).
Proof. unfold program_files, program_outputs, program_read, with_ids. cbn [cl_rids cl_qids cl_args cl_seed cl_mode cl_diff].
  destruct (cl_rids cl) as [|a t]; destruct (cl_qids cl) as [|b u]; reflexivity. Qed.

Print Assumptions program_total.
Print Assumptions program_records_valid.
Print Assumptions program_ids_ascending.
Print Assumptions program_row_order.

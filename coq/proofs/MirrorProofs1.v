(* C11, part 1: site renumbering, the mirror image of a molecule, and the pairing stage (AlignerEngine.align). *)
From Coq Require Import ZArith List Bool Lia Sorting.Permutation Sorting.Sorted.
Import ListNotations.
Require Import Py PyProofs Pairing PairingProofs1 PairingProofs2 PairingProofs3 PairingProofs4.
Open Scope Z_scope.

(* ---------- renumbering of query site ids (coordinates are kept) ---------- *)
Definition ren_label (f : Z -> Z) (l : label) : label := mkLabel (f (site l)) (lpos l).
Definition ren_apos (f : Z -> Z) (a : apos) : apos :=
  match a with Pair r q s src => Pair r (ren_label f q) s src | URef r => URef r | UQry q st => UQry (ren_label f q) st end.
Definition ren_cand (f : Z -> Z) (c : cand) : cand := mkCand (cr c) (ren_label f (cq c)) (cshift c).

(* the mirror image of a molecule: same labels read from the other end (model units: length - K is the last coordinate
   of the frame, K = one base pair) *)
Definition mirror_map (q : omap) : omap :=
  mkMap (mid q) (mlen q) (map (fun p => mlen q - K - p) (rev (mpositions q))) (mshift q).
(* label k of an N-label molecule (numbers 1+s .. N+s) is label msum q - k of its mirror image; msum = N + 1 when s = 0 *)
Definition msum (q : omap) : Z := Z.of_nat (length (mpositions q)) + 1 + 2 * mshift q.
Definition flip (M : Z) (k : Z) : Z := M - k.
(* the same involution made to fix 0 (the site id of the model's null pair) and M: neither is a label number when shift >= 0 *)
Definition renum (M : Z) (k : Z) : Z := if k =? 0 then 0 else if k =? M then M else M - k.

Lemma renum_flip M k : k <> 0 -> k <> M -> renum M k = flip M k.
Proof. intros H0 HM. unfold renum, flip. destruct (k =? 0) eqn:E0; [lia|]. destruct (k =? M) eqn:EM; [lia|]. reflexivity. Qed.
Lemma renum_0 M : renum M 0 = 0. Proof. reflexivity. Qed.
Lemma renum_inj M a b : renum M a = renum M b -> a = b.
Proof. unfold renum. destruct (a =? 0) eqn:A0, (b =? 0) eqn:B0, (a =? M) eqn:AM, (b =? M) eqn:BM; lia. Qed.
Lemma flip_inj M a b : flip M a = flip M b -> a = b. Proof. unfold flip. lia. Qed.
Lemma flip_flip M k : flip M (flip M k) = k. Proof. unfold flip. lia. Qed.

Lemma mirror_mirror q : mirror_map (mirror_map q) = q.
Proof. destruct q as [i L ps s]. unfold mirror_map. cbn [mid mlen mpositions mshift]. f_equal.
  rewrite <- map_rev, rev_involutive, map_map. rewrite <- (map_id ps) at 2. apply map_ext. intros p. lia. Qed.
Lemma mirror_length q : length (mpositions (mirror_map q)) = length (mpositions q).
Proof. unfold mirror_map. cbn. rewrite map_length, rev_length. reflexivity. Qed.
Lemma mirror_msum q : msum (mirror_map q) = msum q.
Proof. unfold msum. rewrite mirror_length. reflexivity. Qed.

(* ---------- getPositionsWithSiteIds of the mirror image ---------- *)
Lemma number_down_mirror M e l : forall i,
  number_down i e (map (fun p => e - p) l) = map (ren_label (flip M)) (number_up (M - i) l).
Proof. induction l as [|p t IH]; intros i; [reflexivity|]. cbn [map number_down number_up]. f_equal.
  - unfold ren_label, flip. cbn [site lpos]. f_equal; lia.
  - rewrite IH. replace (M - (i - 1)) with (M - i + 1) by lia. reflexivity. Qed.
Lemma number_up_mirror M e l : forall i,
  number_up i (map (fun p => e - p) l) = map (ren_label (flip M)) (number_down (M - i) e l).
Proof. induction l as [|p t IH]; intros i; [reflexivity|]. cbn [map number_down number_up]. f_equal.
  - unfold ren_label, flip. cbn [site lpos]. f_equal; lia.
  - rewrite IH. replace (M - (i + 1)) with (M - i - 1) by lia. reflexivity. Qed.

Theorem positions_mirror_rev q :
  positions_with_ids (mirror_map q) true = map (ren_label (flip (msum q))) (positions_with_ids q false).
Proof. unfold positions_with_ids, mirror_map, msum. cbn [mpositions mlen mshift].
  rewrite <- map_rev, rev_involutive, map_length, rev_length.
  rewrite (number_down_mirror (Z.of_nat (length (mpositions q)) + 1 + 2 * mshift q)). f_equal. f_equal. lia. Qed.
Theorem positions_mirror_fwd q :
  positions_with_ids (mirror_map q) false = map (ren_label (flip (msum q))) (positions_with_ids q true).
Proof. unfold positions_with_ids, mirror_map, msum. cbn [mpositions mlen mshift].
  rewrite (number_up_mirror (Z.of_nat (length (mpositions q)) + 1 + 2 * mshift q)). f_equal. f_equal. lia. Qed.

Theorem positions_mirror q b :
  positions_with_ids (mirror_map q) (negb b) = map (ren_label (flip (msum q))) (positions_with_ids q b).
Proof. destruct b; [apply positions_mirror_fwd | apply positions_mirror_rev]. Qed.

(* label numbers lie in 1+s .. N+s *)
Lemma number_up_sites i l x : In x (number_up i l) -> i <= site x < i + Z.of_nat (length l) /\ In (lpos x) l.
Proof. revert i; induction l as [|p t IH]; intros i H; [destruct H|]. cbn [number_up length] in *. rewrite Nat2Z.inj_succ.
  destruct H as [<-|H]; [cbn; split; [lia | left; reflexivity]|]. destruct (IH _ H) as (H1 & H2). split; [lia | right; exact H2]. Qed.
Lemma number_down_sites i e l x : In x (number_down i e l) -> i - Z.of_nat (length l) < site x <= i.
Proof. revert i; induction l as [|p t IH]; intros i H; [destruct H|]. cbn [number_down length] in *. rewrite Nat2Z.inj_succ.
  destruct H as [<-|H]; [cbn; lia|]. specialize (IH _ H). lia. Qed.
Definition in_range (q : omap) (k : Z) : Prop := 1 + mshift q <= k <= Z.of_nat (length (mpositions q)) + mshift q.
Lemma positions_sites q reverse x : In x (positions_with_ids q reverse) -> in_range q (site x).
Proof. unfold positions_with_ids, in_range. destruct reverse; intros H.
  - apply number_down_sites in H. rewrite rev_length in H. lia.
  - apply number_up_sites in H. lia. Qed.
Lemma renum_in_range q k : 0 <= mshift q -> in_range q k -> renum (msum q) k = flip (msum q) k.
Proof. unfold in_range, msum. intros Hs H. apply renum_flip; lia. Qed.
Lemma flip_in_range q k : in_range q k -> in_range q (flip (msum q) k).
Proof. unfold in_range, msum, flip. lia. Qed.

Lemma ren_label_ext_in (f g : Z -> Z) (l : list label) : (forall x, In x l -> f (site x) = g (site x)) ->
  map (ren_label f) l = map (ren_label g) l.
Proof. intros H. apply map_ext_in. intros x Hx. unfold ren_label. rewrite (H x Hx). reflexivity. Qed.

(* ---------- maps that commute with the Python list primitives ---------- *)
Section MapLemmas.
Context {A B : Type}.
Variable g : A -> B.
Lemma takewhile_map (p : B -> bool) l : takewhile p (map g l) = map g (takewhile (fun x => p (g x)) l).
Proof. induction l as [|x t IH]; [reflexivity|]. cbn. destruct (p (g x)); [cbn; rewrite IH|]; reflexivity. Qed.
Lemma dropwhile_map (p : B -> bool) l : dropwhile p (map g l) = map g (dropwhile (fun x => p (g x)) l).
Proof. induction l as [|x t IH]; [reflexivity|]. cbn. destruct (p (g x)); [exact IH | reflexivity]. Qed.
Lemma filter_map' (p : B -> bool) l : filter p (map g l) = map g (filter (fun x => p (g x)) l).
Proof. induction l as [|x t IH]; [reflexivity|]. cbn. destruct (p (g x)); [cbn; rewrite IH|]; auto. Qed.
Variables (k : A -> Z) (k' : B -> Z).
Hypothesis Hk : forall x, k' (g x) = k x.
Lemma insert_by_mapk x l : insert_by k' (g x) (map g l) = map g (insert_by k x l).
Proof. induction l as [|y t IH]; [reflexivity|]. cbn. rewrite !Hk. destruct (k x <=? k y); [reflexivity|]. cbn. rewrite IH. reflexivity. Qed.
Lemma sort_by_mapk l : sort_by k' (map g l) = map g (sort_by k l).
Proof. induction l as [|x t IH]; [reflexivity|]. unfold sort_by in *. cbn [map fold_right]. rewrite IH. apply insert_by_mapk. Qed.
Lemma groupby_mapk l : groupby k' (map g l) = map (map g) (groupby k l).
Proof. induction l as [|x t IH]; [reflexivity|]. cbn [map groupby]. rewrite IH.
  destruct (groupby k t) as [|[|y h] gs]; cbn [map]; try reflexivity. rewrite !Hk. destruct (k x =? k y); reflexivity. Qed.
Lemma min_by_aux_mapk b l : min_by_aux k' (g b) (map g l) = g (min_by_aux k b l).
Proof. revert b; induction l as [|x t IH]; intros b; [reflexivity|]. cbn. rewrite !Hk. destruct (k x <? k b); apply IH. Qed.
End MapLemmas.

(* ---------- deduplicate ---------- *)
Section DedupMap.
Variable g : cand -> cand.
Variables (key key' : cand -> Z).
Hypothesis Hkey : forall x, key' (g x) = key x.
Hypothesis Hshift : forall x, ashift (g x) = ashift x.
Lemma pick_map h : h <> [] -> pick (map g h) = g (pick h).
Proof. destruct h as [|x t]; [congruence|]. intros _. unfold pick, min_by. cbn [map]. apply (min_by_aux_mapk g ashift ashift Hshift). Qed.
Lemma dedup_by_mapk l : dedup_by key' (map g l) = map g (dedup_by key l).
Proof. rewrite !dedup_by_unfold. rewrite (sort_by_mapk g key key' Hkey), (groupby_mapk g key key' Hkey), !map_map.
  apply map_ext_in. intros h Hh. apply pick_map.
  pose proof (groupby_groups key (sort_by key l)) as Hok. rewrite Forall_forall in Hok. apply (Hok h Hh). Qed.
End DedupMap.

(* no two candidates of one dedupe group are equidistant *)
Definition notie (key : cand -> Z) (l : list cand) : Prop :=
  forall x y, In x l -> In y l -> key x = key y -> ashift x = ashift y -> x = y.
Definition best (key : cand -> Z) (l : list cand) (x : cand) : Prop :=
  In x l /\ forall y, In y l -> key y = key x -> ashift x <= ashift y.

Lemma dedup_mem key l : notie key l -> forall x, In x (dedup_by key l) <-> best key l x.
Proof. intros Hn x. split.
  - intros H. exact (dedup_in key l x H).
  - intros (Hx & Hmin). destruct (dedup_cover key l x Hx) as (x' & Hx' & Hk).
    destruct (dedup_in key l x' Hx') as (Hx'l & Hmin').
    assert (x' = x). { apply Hn; try assumption. pose proof (Hmin x' Hx'l Hk). pose proof (Hmin' x Hx (eq_sym Hk)). lia. }
    subst x'. exact Hx'. Qed.

Lemma sorted_unique {A} (key : A -> Z) (a : list A) : forall b,
  StronglySorted Z.lt (map key a) -> StronglySorted Z.lt (map key b) -> (forall x, In x a <-> In x b) -> a = b.
Proof. induction a as [|x a' IH]; intros [|y b'] Ha Hb Hm.
  - reflexivity.
  - exfalso. apply (proj2 (Hm y)). left; reflexivity.
  - exfalso. apply (proj1 (Hm x)). left; reflexivity.
  - cbn [map] in Ha, Hb. inversion Ha as [|? ? Ha' Hax]; subst. inversion Hb as [|? ? Hb' Hby]; subst.
    rewrite Forall_forall in Hax, Hby.
    assert (Exy : x = y).
    { destruct (proj1 (Hm x) (or_introl eq_refl)) as [E|Hxb]; [congruence|].
      destruct (proj2 (Hm y) (or_introl eq_refl)) as [E|Hya]; [congruence|].
      pose proof (Hby _ (in_map key _ _ Hxb)). pose proof (Hax _ (in_map key _ _ Hya)). lia. }
    subst y. f_equal. apply IH; try assumption. intros z. split; intros Hz.
    + destruct (proj1 (Hm z) (or_intror Hz)) as [E|H]; [|exact H]. subst z. pose proof (Hax _ (in_map key _ _ Hz)). lia.
    + destruct (proj2 (Hm z) (or_intror Hz)) as [E|H]; [|exact H]. subst z. pose proof (Hby _ (in_map key _ _ Hz)). lia. Qed.

(* the result of one dedupe pass depends only on the SET of candidates when no group has an equidistant tie *)
Lemma dedup_by_set key a b : notie key a -> (forall x, In x a <-> In x b) -> dedup_by key a = dedup_by key b.
Proof. intros Hn Hm.
  assert (Hnb : notie key b). { intros x y Hx Hy. apply Hn; apply Hm; assumption. }
  apply (sorted_unique key); try apply dedup_keys_sorted.
  intros x. rewrite (dedup_mem key a Hn), (dedup_mem key b Hnb). unfold best. split; intros (H1 & H2); (split; [apply Hm; exact H1|]);
    intros y Hy; apply H2; apply Hm; exact Hy. Qed.

Section DedupRen.
Variable f : Z -> Z.
Hypothesis Hinj : forall a b, f a = f b -> a = b.

Lemma ren_label_inj a b : ren_label f a = ren_label f b -> a = b.
Proof. destruct a, b. unfold ren_label. cbn. intros H. injection H as H1 H2. apply Hinj in H1. congruence. Qed.
Lemma ren_cand_inj a b : ren_cand f a = ren_cand f b -> a = b.
Proof. destruct a as [ra [sa pa] ha], b as [rb [sb pb] hb]. unfold ren_cand, ren_label. cbn. intros H. injection H as H1 H2 H3 H4. apply Hinj in H2. congruence. Qed.
Lemma in_map_ren x l : In (ren_cand f x) (map (ren_cand f) l) <-> In x l.
Proof. split; [|apply in_map]. intros H. apply in_map_iff in H. destruct H as (y & E & Hy). apply ren_cand_inj in E. congruence. Qed.

Lemma notie_q_ren l : notie qsite l -> notie qsite (map (ren_cand f) l).
Proof. intros Hn x y Hx Hy. apply in_map_iff in Hx, Hy. destruct Hx as (x0 & <- & Hx0), Hy as (y0 & <- & Hy0).
  unfold qsite, ashift. cbn. intros Hk Hs. apply Hinj in Hk. f_equal. apply Hn; assumption. Qed.
Lemma notie_r_ren l : notie rsite l -> notie rsite (map (ren_cand f) l).
Proof. intros Hn x y Hx Hy. apply in_map_iff in Hx, Hy. destruct Hx as (x0 & <- & Hx0), Hy as (y0 & <- & Hy0).
  unfold rsite, ashift. cbn. intros Hk Hs. f_equal. apply Hn; assumption. Qed.

Lemma best_q_ren l x0 : best qsite (map (ren_cand f) l) (ren_cand f x0) <-> best qsite l x0.
Proof. unfold best. rewrite in_map_ren. split; intros (H1 & H2); (split; [exact H1|]).
  - intros y Hy Hk. apply (H2 (ren_cand f y) (in_map _ _ _ Hy)). unfold qsite in *. cbn. rewrite Hk. reflexivity.
  - intros y Hy Hk. apply in_map_iff in Hy. destruct Hy as (y0 & <- & Hy0). unfold qsite in Hk. cbn in Hk. apply Hinj in Hk.
    apply (H2 y0 Hy0 Hk). Qed.

(* AlignedPair.deduplicate commutes with the renumbering when there are no equidistant ties: the first pass sorts and
   groups by QUERY site id, whose order the renumbering changes; without ties each group still yields the same candidate,
   and the second pass (by reference site id) restores one common order *)
Theorem deduplicate_ren l : notie qsite l -> notie rsite l ->
  deduplicate (map (ren_cand f) l) = map (ren_cand f) (deduplicate l).
Proof. intros Hq Hr. unfold deduplicate. fold qsite rsite.
  rewrite <- (dedup_by_mapk (ren_cand f) rsite rsite (fun x => eq_refl) (fun x => eq_refl)).
  apply dedup_by_set.
  - intros x y Hx Hy. apply (notie_r_ren l Hr); [exact (proj1 (dedup_in _ _ _ Hx)) | exact (proj1 (dedup_in _ _ _ Hy))].
  - intros x. rewrite (dedup_mem qsite _ (notie_q_ren l Hq)). split.
    + intros Hb. assert (Hx := proj1 Hb). apply in_map_iff in Hx. destruct Hx as (x0 & <- & _).
      apply in_map. apply (dedup_mem qsite l Hq). apply best_q_ren. exact Hb.
    + intros Hx. apply in_map_iff in Hx. destruct Hx as (x0 & <- & Hx0). apply best_q_ren. apply (dedup_mem qsite l Hq). exact Hx0. Qed.

(* ---------- the whole engine on explicit label lists ---------- *)
Definition engine_core (d it : Z) (refs qrys : list label) (start : Z) : list apos :=
  let pairs := deduplicate (aligned_pairs d refs qrys start) in
  let rs := map (fun c => site (cr c)) pairs in
  let qs := map (fun c => site (cq c)) pairs in
  let una := map URef (filter (fun r => negb (mem_site (site r) rs)) refs)
          ++ map (fun q => UQry q start) (filter (fun q => negb (mem_site (site q) qs)) qrys) in
  sort_by abs_pos (map (fun c => Pair (cr c) (cq c) (cshift c) it) pairs ++ una).

Lemma aligned_pairs_ren d refs qrys start :
  aligned_pairs d refs (map (ren_label f) qrys) start = map (ren_cand f) (aligned_pairs d refs qrys start).
Proof. unfold aligned_pairs. induction refs as [|r t IH]; [reflexivity|]. cbn [flat_map]. rewrite map_app, IH. f_equal.
  rewrite dropwhile_map, takewhile_map, !map_map. reflexivity. Qed.

Lemma mem_site_ren s l : mem_site (f s) (map f l) = mem_site s l.
Proof. unfold mem_site. induction l as [|x t IH]; [reflexivity|]. cbn. rewrite IH. f_equal.
  destruct (Z.eqb_spec (f s) (f x)) as [E|E], (Z.eqb_spec s x) as [E'|E']; try reflexivity; [apply Hinj in E; contradiction | subst; contradiction]. Qed.

Theorem engine_core_ren d it refs qrys start :
  notie qsite (aligned_pairs d refs qrys start) -> notie rsite (aligned_pairs d refs qrys start) ->
  engine_core d it refs (map (ren_label f) qrys) start = map (ren_apos f) (engine_core d it refs qrys start).
Proof. intros Hq Hr. unfold engine_core. cbn zeta. rewrite aligned_pairs_ren, (deduplicate_ren _ Hq Hr).
  set (pairs := deduplicate (aligned_pairs d refs qrys start)).
  assert (Habs : forall a, abs_pos (ren_apos f a) = abs_pos a) by (intros [r q s src|r|q st]; reflexivity).
  rewrite <- (sort_by_mapk (ren_apos f) abs_pos abs_pos Habs). f_equal.
  rewrite !map_app, !map_map. apply f_equal2; [reflexivity|]. apply f_equal2.
  - reflexivity.
  - rewrite filter_map', map_map. change (fun x : label => ren_apos f (UQry x start)) with (fun x => UQry (ren_label f x) start).
    apply f_equal. apply filter_ext. intros q. cbn [ren_cand cq ren_label site].
    rewrite <- (map_map (fun c => site (cq c)) f), mem_site_ren. reflexivity. Qed.
End DedupRen.

Lemma align_engine_core d it reference query start stop reverse :
  align_engine d it reference query start stop reverse =
  engine_core d it (takewhile (fun x => lpos x <=? stop + d) (dropwhile (fun x => lpos x <? start - d) (positions_with_ids reference false)))
              (positions_with_ids query reverse) start.
Proof. reflexivity. Qed.

(* the candidate list of the forward run of q inside the window of one peak *)
Definition engine_cands (d : Z) (reference query : omap) (start stop : Z) (reverse : bool) : list cand :=
  aligned_pairs d (takewhile (fun x => lpos x <=? stop + d) (dropwhile (fun x => lpos x <? start - d) (positions_with_ids reference false)))
                (positions_with_ids query reverse) start.
(* the hypothesis of C11: inside every dedupe group (same query label, same reference label) all distances differ *)
Definition no_ties (d : Z) (reference query : omap) (start stop : Z) (reverse : bool) : Prop :=
  notie qsite (engine_cands d reference query start stop reverse) /\ notie rsite (engine_cands d reference query start stop reverse).

Section Engine.
Variables (d it : Z) (reference q : omap) (start stop : Z).
Hypothesis Hs : 0 <= mshift q.

Lemma ren_apos_ext_in (f g : Z -> Z) (l : list apos) :
  (forall a, In a l -> match a with Pair _ x _ _ => f (site x) = g (site x) | UQry x _ => f (site x) = g (site x) | URef _ => True end) ->
  map (ren_apos f) l = map (ren_apos g) l.
Proof. intros H. apply map_ext_in. intros a Ha. specialize (H a Ha). destruct a; cbn; unfold ren_label; try rewrite H; reflexivity. Qed.

(* query labels of the engine output are labels of the query *)
Lemma engine_core_qlabels refs qrys a : In a (engine_core d it refs qrys start) ->
  match a with Pair _ x _ _ => In x qrys | UQry x _ => In x qrys | URef _ => True end.
Proof. unfold engine_core. cbn zeta. rewrite sort_by_in, in_app_iff, in_app_iff, !in_map_iff.
  intros [(c & <- & Hc)|[(r & <- & _)|(x & <- & Hx)]]; [| exact I | apply filter_In in Hx; tauto].
  unfold deduplicate in Hc. apply dedup_in in Hc. destruct Hc as (Hc & _). apply dedup_in in Hc. destruct Hc as (Hc & _).
  unfold aligned_pairs in Hc. apply in_flat_map in Hc. destruct Hc as (r & _ & Hc). apply in_map_iff in Hc. destruct Hc as (x & <- & Hx). cbn.
  assert (forall (p : label -> bool) l y, In y (takewhile p l) -> In y l) as Htw.
  { intros p l. induction l as [|z t IH]; intros y Hy; [destruct Hy|]. cbn in Hy. destruct (p z); [|destruct Hy]. destruct Hy as [<-|Hy]; [left; reflexivity | right; apply IH; exact Hy]. }
  assert (forall (p : label -> bool) l y, In y (dropwhile p l) -> In y l) as Hdw.
  { intros p l. induction l as [|z t IH]; intros y Hy; [destruct Hy|]. cbn in Hy. destruct (p z); [right; apply IH; exact Hy | exact Hy]. }
  apply Htw in Hx. apply Hdw in Hx. exact Hx. Qed.

Theorem engine_mirror_renum b :
  no_ties d reference q start stop b ->
  align_engine d it reference (mirror_map q) start stop (negb b)
  = map (ren_apos (renum (msum q))) (align_engine d it reference q start stop b).
Proof. intros (Hq & Hr). rewrite !align_engine_core, positions_mirror.
  rewrite (ren_label_ext_in (flip (msum q)) (renum (msum q))).
  - apply (engine_core_ren (renum (msum q)) (renum_inj (msum q))); assumption.
  - intros x Hx. symmetry. apply renum_in_range; [exact Hs|]. apply (positions_sites q b x Hx). Qed.

Theorem engine_mirror_gen b :
  no_ties d reference q start stop b ->
  align_engine d it reference (mirror_map q) start stop (negb b)
  = map (ren_apos (flip (msum q))) (align_engine d it reference q start stop b).
Proof. intros H. rewrite (engine_mirror_renum b H). apply ren_apos_ext_in. intros a Ha.
  rewrite align_engine_core in Ha. apply engine_core_qlabels in Ha.
  destruct a as [r x s src|r|x st]; [| exact I |]; apply renum_in_range; try exact Hs; apply (positions_sites q b x Ha). Qed.

(* q on '+' against mirror(q) on '-' *)
Theorem engine_mirror :
  no_ties d reference q start stop false ->
  align_engine d it reference (mirror_map q) start stop true
  = map (ren_apos (flip (msum q))) (align_engine d it reference q start stop false).
Proof. exact (engine_mirror_gen false). Qed.
(* the strands exchanged: mirror(q) on '+' against q on '-' *)
Theorem engine_mirror_fwd :
  no_ties d reference q start stop true ->
  align_engine d it reference (mirror_map q) start stop false
  = map (ren_apos (flip (msum q))) (align_engine d it reference q start stop true).
Proof. exact (engine_mirror_gen true). Qed.
End Engine.

(* ---------- the lattice gives the hypothesis ---------- *)
Definition on_lattice (step : Z) (l : list Z) : Prop := Forall (fun p => (step | p)) l.

Lemma number_up_pos_inj i l x y : StronglySorted Z.lt l -> In x (number_up i l) -> In y (number_up i l) -> lpos x = lpos y -> x = y.
Proof. intros Hl. revert i. induction Hl as [|p t Ht IH Hp]; intros i Hx Hy E; [destruct Hx|]. rewrite Forall_forall in Hp. cbn [number_up] in *.
  destruct Hx as [<-|Hx], Hy as [<-|Hy]; [reflexivity | | |apply (IH (i + 1)); assumption]; exfalso.
  - apply number_up_sites in Hy. destruct Hy as (_ & Hy). specialize (Hp _ Hy). cbn in E. lia.
  - apply number_up_sites in Hx. destruct Hx as (_ & Hx). specialize (Hp _ Hx). cbn in E. lia. Qed.

Lemma SS_lt_le l : StronglySorted Z.lt l -> StronglySorted Z.le l.
Proof. apply SS_weaken. intros; lia. Qed.

Lemma divide_small step a : 0 < step -> (step | a) -> Z.abs a < step -> a = 0.
Proof. intros Hs (k & ->) H. assert (k = 0) by nia. subst. reflexivity. Qed.

Section Lattice.
Variables (step d : Z) (reference q : omap) (start stop : Z) (reverse : bool).
Hypothesis Hd : 0 <= d.
Hypothesis Hstep : 2 * d < step.
Hypothesis Href : StronglySorted Z.lt (mpositions reference).
Hypothesis Hqry : StronglySorted Z.lt (mpositions q).
Hypothesis Lref : on_lattice step (mpositions reference).
Hypothesis Lqry : on_lattice step (mpositions q).
(* only needed for the '-' strand: the mirrored frame is on the lattice too (true of every trimmed lattice molecule,
   whose length - 1 is its last label) *)
Hypothesis Llen : reverse = true -> (step | mlen q - K).

Let R := takewhile (fun x => lpos x <=? stop + d) (dropwhile (fun x => lpos x <? start - d) (positions_with_ids reference false)).
Let Qf := positions_with_ids q reverse.

Lemma R_window : R = window d start stop reference.
Proof. apply window_is_takewhile. apply SS_lt_le. exact Href. Qed.
Lemma R_sorted : StronglySorted (fun a b => site a < site b /\ lpos a <= lpos b) R.
Proof. rewrite R_window. apply window_sorted. apply SS_lt_le. exact Href. Qed.
Lemma Qf_sorted : StronglySorted (fun a b => 0 < dirz reverse * (site b - site a) /\ lpos a <= lpos b) Qf.
Proof. apply (labels_sorted q reverse). apply SS_lt_le. exact Hqry. Qed.

Lemma R_lattice r : In r R -> In r (positions_with_ids reference false) /\ (step | lpos r).
Proof. rewrite R_window, window_in. intros (H & _). split; [exact H|]. unfold positions_with_ids in H. apply number_up_sites in H.
  unfold on_lattice in Lref. rewrite Forall_forall in Lref. apply Lref. tauto. Qed.
Lemma Qf_lattice x : In x Qf -> (step | lpos x).
Proof. unfold Qf. unfold on_lattice in Lqry. rewrite Forall_forall in Lqry. destruct reverse.
  - rewrite labels_reverse, <- in_rev, in_map_iff. intros (x0 & <- & H). unfold positions_with_ids in H. apply number_up_sites in H.
    unfold mirror. cbn [lpos]. apply Z.divide_sub_r; [apply Llen; reflexivity | apply Lqry; tauto].
  - unfold positions_with_ids. intros H. apply number_up_sites in H. apply Lqry. tauto. Qed.
Lemma Qf_pos_inj x y : In x Qf -> In y Qf -> lpos x = lpos y -> x = y.
Proof. unfold Qf. destruct reverse.
  - rewrite labels_reverse, <- !in_rev, !in_map_iff. intros (x0 & <- & Hx) (y0 & <- & Hy). unfold mirror. cbn [lpos]. intros E.
    assert (E0 : x0 = y0) by (apply (number_up_pos_inj (1 + mshift q) (mpositions q)); try assumption; lia). subst y0. reflexivity.
  - apply (number_up_pos_inj (1 + mshift q) (mpositions q)). exact Hqry. Qed.

(* on the lattice, with maxPairDistance below half the step, every label has at most one partner: no ties at all *)
Theorem lattice_one_partner x y : In x (engine_cands d reference q start stop reverse) -> In y (engine_cands d reference q start stop reverse) ->
  (cq x = cq y -> x = y) /\ (cr x = cr y -> x = y).
Proof. unfold engine_cands. fold R Qf. intros Hx Hy.
  pose proof (proj1 (cands_in d start (dirz reverse) R Qf Qf_sorted x) Hx) as (Hxr & Hxq & Hxw & Hxs).
  pose proof (proj1 (cands_in d start (dirz reverse) R Qf Qf_sorted y) Hy) as (Hyr & Hyq & Hyw & Hys).
  unfold within, adj in *.
  destruct (R_lattice _ Hxr) as (Hxr' & Dx), (R_lattice _ Hyr) as (Hyr' & Dy).
  pose proof (Qf_lattice _ Hxq) as Ex. pose proof (Qf_lattice _ Hyq) as Ey.
  split; intros E.
  - apply (cand_eq d start (dirz reverse) R Qf Qf_sorted); try assumption.
    apply (number_up_pos_inj (1 + mshift reference) (mpositions reference)); try assumption.
    assert (lpos (cr x) - lpos (cr y) = 0); [|lia].
    apply (divide_small step); [lia | apply Z.divide_sub_r; assumption |]. rewrite E in Hxw. lia.
  - apply (cand_eq d start (dirz reverse) R Qf Qf_sorted); try assumption.
    apply Qf_pos_inj; try assumption.
    assert (lpos (cq x) - lpos (cq y) = 0); [|lia].
    apply (divide_small step); [lia | apply Z.divide_sub_r; assumption |]. rewrite E in Hxw. lia. Qed.

Theorem lattice_no_ties : no_ties d reference q start stop reverse.
Proof. unfold no_ties. split; intros x y Hx Hy Hk _.
  - apply (proj1 (lattice_one_partner x y Hx Hy)). unfold engine_cands in Hx, Hy. fold R Qf in Hx, Hy.
    pose proof (proj1 (cands_in d start (dirz reverse) R Qf Qf_sorted x) Hx) as (_ & Hxq & _).
    pose proof (proj1 (cands_in d start (dirz reverse) R Qf Qf_sorted y) Hy) as (_ & Hyq & _).
    apply (Q_site_inj (dirz reverse) Qf Qf_sorted); assumption.
  - apply (proj2 (lattice_one_partner x y Hx Hy)). unfold engine_cands in Hx, Hy. fold R Qf in Hx, Hy.
    pose proof (proj1 (cands_in d start (dirz reverse) R Qf Qf_sorted x) Hx) as (Hxr & _).
    pose proof (proj1 (cands_in d start (dirz reverse) R Qf Qf_sorted y) Hy) as (Hyr & _).
    apply (R_site_inj R R_sorted); assumption. Qed.
End Lattice.

Lemma renumber_spec q k : 0 <= mshift q -> in_range q k ->
  in_range q (flip (msum q) k) /\ renum (msum q) k = flip (msum q) k /\ flip (msum q) (flip (msum q) k) = k /\
  (mshift q = 0 -> flip (msum q) k = Z.of_nat (length (mpositions q)) + 1 - k).
Proof. intros Hs H. split; [apply flip_in_range; exact H|]. split; [apply renum_in_range; assumption|]. split; [apply flip_flip|].
  intros E. unfold flip, msum. rewrite E. ring. Qed.

(* C01: the checker evaluated on implementation outputs (Checkers.valid_rowb) coincides with the one of ResolverProofs3 *)
From Coq Require Import ZArith QArith List Bool Lia.
Import ListNotations.
Require Import Py Cigar Pairing Core Multi Checkers CheckersProofs ResolverProofs3 RowProofs RowProofs2 ResolverProofs10 ResolverProofs14.
Open Scope Z_scope.

Lemma mono_fromb_valid_fromb dir p ps : Checkers.mono_fromb dir p ps = ResolverProofs3.valid_fromb dir p ps.
Proof. revert p; induction ps as [|p' r IH]; intros p; cbn; [reflexivity|]. rewrite IH. reflexivity. Qed.

Lemma checkers_agree nref nqry rev ps : Checkers.valid_rowb nref 1 nqry rev ps = ResolverProofs3.valid_rowb nref nqry rev ps.
Proof.
  unfold Checkers.valid_rowb, ResolverProofs3.valid_rowb. destruct ps as [|p r]; [reflexivity|].
  unfold ResolverProofs3.validb, strand_dir. rewrite mono_fromb_valid_fromb.
  replace (forallb (Checkers.in_rangeb nref 1 nqry) (p :: r)) with (forallb (ResolverProofs3.in_rangeb nref nqry) (p :: r)); [reflexivity|].
  generalize (p :: r). intros l. induction l as [|x t IH]; [reflexivity|]. cbn [forallb]. rewrite IH. reflexivity.
Qed.

(* the full statement of C01 for candidate rows, in terms of the Prop-level statement *)
Theorem aligner_rows_valid P it reference query peaks reverse out : engine_ok P reference query -> qry_in_range query ->
  mshift reference = 0 -> mshift query = 0 ->
  aligner_align P it reference query peaks reverse = Ok out -> row_pairs out <> [] ->
  valid_row (Z.of_nat (length (mpositions reference))) 1 (Z.of_nat (length (mpositions query))) reverse (row_sites (row_pairs out)).
Proof.
  intros H1 H2 H3 H4 H5 H6. apply CheckersProofs.valid_rowb_spec. rewrite checkers_agree.
  apply (aligner_row_valid P it reference query peaks reverse out H1 H2 H3 H4 H5 H6).
Qed.

(* C10, part 2: erasure of `source` at the level of result rows; the post-processing of a run (`post`: everything
   _MultiPassWorkflowCoordinator.execute and Program.run do after the two alignment passes) commutes with it. *)
From Coq Require Import ZArith QArith List Bool Lia.
Import ListNotations.
Require Import Py Pairing Core Multi Coordinator PyProofs SrcErase LocalProofs1 RowEq FreshProofs.
Open Scope Z_scope.

Definition er_row (w : row) : row :=
  mkRow (map er_seg (rsegs w)) (qid w) (rid w) (qlen w) (rlen w) (Multi.qs w) (qe w) (rs w) (re w) (rrev w) (conf w) (rest w).

(* what an XMAP record shows of a row (everything but XmapEntryID, which is the running number in the file):
   ids, orientation, the four coordinates, confidence, the aligned-rest flag and the site pairs (HitEnum and Alignment are
   printed from the site pairs).  `source` is not part of it. *)
Notation precord := (Z * Z * bool * (Z * Z * Z * Z) * Z * bool * list (Z * Z))%type.
Definition site_pairs (segs : list segment) : list (Z * Z) :=
  map (fun p => let v := pv_of p in (site (pr v), site (pq v))) (row_pairs segs).
Definition printed (w : row) : precord :=
  (qid w, rid w, rrev w, (Multi.qs w, qe w, rs w, re w), conf w, rest w, site_pairs (rsegs w)).

Lemma er_row_pairs segs : row_pairs (map er_seg segs) = map er_sp (row_pairs segs).
Proof. unfold row_pairs. rewrite flat_map_map, map_flat_map. apply flat_map_ext. intros; apply er_aligned. Qed.
Lemma er_pair_rpos p : pair_rpos (er_sp p) = pair_rpos p.
Proof. unfold pair_rpos. rewrite er_pv_of. reflexivity. Qed.
Lemma printed_er w : printed (er_row w) = printed w.
Proof. unfold printed, er_row, site_pairs. cbn [qid rid rrev Multi.qs qe rs re conf rest rsegs]. rewrite er_row_pairs, map_map.
  f_equal. apply map_ext. intros p. rewrite er_pv_of. reflexivity. Qed.
Lemma er_row_idem w : er_row (er_row w) = er_row w.
Proof. unfold er_row. cbn. f_equal. rewrite map_map. apply map_ext. intros s. unfold er_seg. cbn. f_equal.
  rewrite map_map. apply map_ext. intros [[] ?]; reflexivity. Qed.

Lemma hd_pv_er l : match map er_sp l with [] => null_pv | p :: _ => pv_of p end = match l with [] => null_pv | p :: _ => pv_of p end.
Proof. destruct l; cbn; [reflexivity | apply er_pv_of]. Qed.
Lemma er_sorted_pairs segs : sort_by pair_rpos (row_pairs (map er_seg segs)) = map er_sp (sort_by pair_rpos (row_pairs segs)).
Proof. rewrite er_row_pairs, sort_by_map. f_equal. apply sort_by_ext, er_pair_rpos. Qed.
Lemma er_conf segs : forall a, fold_left (fun a s => a + sscore s) (map er_seg segs) a = fold_left (fun a s => a + sscore s) segs a.
Proof. induction segs as [|s t IH]; intros a; [reflexivity|]. cbn. apply IH. Qed.

Lemma er_row_create segs q r ql rl rv : row_create (map er_seg segs) q r ql rl rv = er_row (row_create segs q r ql rl rv).
Proof. unfold row_create, er_row. cbn [rsegs qid rid qlen rlen Multi.qs qe rs re rrev conf rest].
  rewrite er_sorted_pairs, <- map_rev, !hd_pv_er, er_conf. reflexivity. Qed.

Lemma er_set_rest w : set_rest (er_row w) = er_row (set_rest w). Proof. reflexivity. Qed.
Lemma er_row_has_pairs w : row_has_pairs (er_row w) = row_has_pairs w.
Proof. unfold row_has_pairs, er_row. cbn [rsegs]. rewrite er_row_pairs. destruct (row_pairs (rsegs w)); reflexivity. Qed.
Lemma er_best_alignment rows : best_alignment (map er_row rows) = option_map er_row (best_alignment rows).
Proof. unfold best_alignment. rewrite sort_by_map. rewrite (sort_by_ext (fun y => - conf (er_row y)) (fun w => - conf w)) by reflexivity.
  destruct (sort_by _ rows); reflexivity. Qed.

Lemma er_unaligned_fragments w qpos : unaligned_fragments (er_row w) qpos = unaligned_fragments w qpos.
Proof. unfold unaligned_fragments, er_row. cbn [rsegs qid rid qlen rlen Multi.qs qe rs re rrev conf rest].
  rewrite er_sorted_pairs, <- map_rev, !hd_pv_er. reflexivity. Qed.

Lemma er_first_pair_rpos w : first_pair_rpos (er_row w) = first_pair_rpos w.
Proof. unfold first_pair_rpos, er_row. cbn [rsegs]. rewrite er_row_pairs. destruct (row_pairs (rsegs w)); cbn; [reflexivity|].
  rewrite er_pair_rpos. reflexivity. Qed.
Lemma er_seg0 w : seg0 (er_row w) = rmap er_seg (seg0 w).
Proof. unfold seg0, er_row. cbn [rsegs]. destruct (rsegs w); reflexivity. Qed.
Lemma er_check_overlap a b md : check_overlap (er_row a) (er_row b) md = check_overlap a b md. Proof. reflexivity. Qed.
Lemma er_join_rows a b : join_rows (er_row a) (er_row b) = rmap er_row (join_rows a b).
Proof. unfold join_rows. rewrite !er_first_pair_rpos, !er_seg0.
  destruct (first_pair_rpos a) as [pa|]; cbn [bind rmap]; [|reflexivity].
  destruct (first_pair_rpos b) as [pb|]; cbn [bind rmap]; [|reflexivity].
  destruct (seg0 a) as [sa|]; cbn [bind rmap]; [|reflexivity].
  destruct (seg0 b) as [sb|]; cbn [bind rmap]; [|reflexivity].
  destruct (pa <? pb); rewrite er_resolve_pair; (destruct (resolve_pair _ _) as [r|]; cbn [bind rmap]; [|reflexivity]);
    rewrite <- er_row_create; reflexivity. Qed.

Lemma er_filter_subsequent rows : filter_subsequent (map er_row rows) = map er_row (filter_subsequent rows).
Proof. unfold filter_subsequent. rewrite !sort_by_map, groupby_map, flat_map_map, map_flat_map.
  rewrite (sort_by_ext (fun y => - conf (er_row y)) (fun w => - conf w)) by reflexivity.
  rewrite (sort_by_ext (fun y => qid (er_row y)) qid) by reflexivity.
  rewrite (groupby_ext (fun x => qid (er_row x)) qid) by reflexivity.
  apply flat_map_ext. intros [|x g]; reflexivity. Qed.

Lemma er_joined_ok j : joined_ok (er_row j) = joined_ok j.
Proof. exact (er_row_has_pairs j). Qed.
Definition er_rr (r : list row * list row) : list row * list row := (map er_row (fst r), map er_row (snd r)).
Lemma er_resolve_groups md gs : resolve_groups md (map (map er_row) gs) = rmap er_rr (resolve_groups md gs).
Proof. induction gs as [|g t IH]; [reflexivity|]. cbn [map resolve_groups]. rewrite IH.
  destruct (resolve_groups md t) as [r|]; cbn [bind rmap]; [|reflexivity].
  destruct g as [|x [|y u]]; cbn [map]; try reflexivity.
  rewrite er_check_overlap. destruct (check_overlap x y md).
  - rewrite er_join_rows. destruct (join_rows x y) as [j|]; cbn [bind rmap]; [|reflexivity]. rewrite er_joined_ok.
    destruct (joined_ok j); [reflexivity|]. unfold er_rr. cbn [fst snd bind rmap]. rewrite map_app. reflexivity.
  - unfold er_rr. cbn [fst snd bind rmap]. rewrite map_app. reflexivity. Qed.
Lemma er_groups rows :
  flat_map (fun byref => groupby qid (sort_by qid byref)) (groupby rid (sort_by rid (map er_row rows)))
  = map (map er_row) (flat_map (fun byref => groupby qid (sort_by qid byref)) (groupby rid (sort_by rid rows))).
Proof. rewrite sort_by_map, groupby_map, flat_map_map, map_flat_map.
  rewrite (sort_by_ext (fun y => rid (er_row y)) rid) by reflexivity.
  rewrite (groupby_ext (fun x => rid (er_row x)) rid) by reflexivity.
  apply flat_map_ext. intros g. rewrite sort_by_map, groupby_map.
  rewrite (sort_by_ext (fun y => qid (er_row y)) qid) by reflexivity.
  rewrite (groupby_ext (fun x => qid (er_row x)) qid) by reflexivity. reflexivity. Qed.
Lemma er_results_resolve rows md : results_resolve (map er_row rows) md = rmap er_rr (results_resolve rows md).
Proof. unfold results_resolve. rewrite er_groups. apply er_resolve_groups. Qed.

(* ---------- the post-processing of a run ---------- *)
Definition post (m : mode) (maxdiff : Z) (rows1 rows2 : list row) : res outputs :=
  let rows1' := match m with Best => rows1 ++ rows2 | _ => rows1 end in
  let f1 := filter_subsequent rows1' in
  let f2 := filter_subsequent rows2 in
  match m with
  | Separate => Ok (mkOut (filter_subsequent f1) (Some f2) None)
  | _ =>
    do js <- results_resolve (f1 ++ filter (fun w => negb (row_in w f1)) f2) maxdiff;     (* repair F12 *)
    let joined := fst js in let sep := snd js in
    match m with
    | Best => let jids := map qid joined in
              Ok (mkOut (filter_subsequent (sort_by qid (joined ++ filter (fun w => negb (mem_z (qid w) jids)) f1))) None None)
    | Joined => Ok (mkOut (filter_subsequent joined) (Some sep) None)
    | _ => Ok (mkOut (filter_subsequent joined) (Some f1) (Some f2))
    end
  end.

Lemma program_run_post P seeds m md refs ql :
  program_run P seeds m md refs ql =
  do r1 <- execute P seeds refs ql 1;
  do frags <- all_fragments (fst r1) ql;
  do r2 <- execute P seeds refs frags (snd r1);
  post m md (fst r1) (map set_rest (fst r2)).
Proof. unfold program_run, multi_execute, post.
  destruct (execute P seeds refs ql 1) as [r1|]; cbn [bind]; [|reflexivity].
  destruct (all_fragments (fst r1) ql) as [frags|]; cbn [bind]; [|reflexivity].
  destruct (execute P seeds refs frags (snd r1)) as [r2|]; cbn [bind]; [|reflexivity].
  destruct m; cbn [bind o_main o_1 o_2]; try reflexivity;
  destruct (results_resolve _ md) as [js|]; reflexivity. Qed.

Definition er_out (o : outputs) : outputs :=
  mkOut (map er_row (o_main o)) (option_map (map er_row) (o_1 o)) (option_map (map er_row) (o_2 o)).
(* the rows of the two passes: AlignedRest = False on first-pass rows, True on second-pass rows (FreshProofs.pass_flags: holds in every
   run, ModesProofs4.execute_rest).  Without it `row not in rows` (repair F12) could tell apart two rows that differ in `source` only. *)
Lemma er_fresh m r1 r2 : pass_flags r1 r2 ->
  filter (fun w => negb (row_in w (filter_subsequent (first_rows m (map er_row r1) (map er_row r2))))) (filter_subsequent (map er_row r2))
  = map er_row (filter (fun w => negb (row_in w (filter_subsequent (first_rows m r1 r2)))) (filter_subsequent r2)).
Proof. intros H. apply (fresh_rows_map er_row (fun _ => eq_refl) (fun _ => eq_refl) er_filter_subsequent m r1 r2 H). Qed.

Lemma er_post m md r1 r2 : pass_flags r1 r2 -> post m md (map er_row r1) (map er_row r2) = rmap er_out (post m md r1 r2).
Proof. intros HF. pose proof (er_fresh m r1 r2 HF) as X. unfold post. destruct m; cbn [first_rows] in X.
  - rewrite X. rewrite <- map_app, !er_filter_subsequent, <- map_app, er_results_resolve.
    destruct (results_resolve _ md) as [[j s]|]; cbn [bind rmap fst snd er_rr]; [|reflexivity].
    unfold er_out; cbn [o_main o_1 o_2 option_map]. do 2 f_equal.
    rewrite map_map, (map_ext (fun x => qid (er_row x)) qid) by reflexivity.
    rewrite filter_map_comm, <- map_app, sort_by_map, er_filter_subsequent. reflexivity.
  - rewrite !er_filter_subsequent. reflexivity.
  - rewrite X. rewrite !er_filter_subsequent, <- map_app, er_results_resolve.
    destruct (results_resolve _ md) as [[j s]|]; cbn [bind rmap fst snd er_rr]; [|reflexivity].
    rewrite er_filter_subsequent. reflexivity.
  - rewrite X. rewrite !er_filter_subsequent, <- map_app, er_results_resolve.
    destruct (results_resolve _ md) as [[j s]|]; cbn [bind rmap fst snd er_rr]; [|reflexivity].
    rewrite er_filter_subsequent. reflexivity.
Qed.

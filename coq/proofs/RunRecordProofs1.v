(* Whole-run lift, part 5: the record theorems of C02 for every non-joined row of every output file of a run.
   The queries of the run are the trimmed input queries (Program.__readMaps: Record.program_maps); every row the two passes deliver is
   (up to the AlignedRest flag) the row Aligner.align built on one reference of `refs` and on labels sh+1 .. sh+n of one trimmed query,
   its pairs are made of the labels getPositionsWithSiteIds enumerates on those two maps (RunProofs1.aligner_pair_labels) and are a valid
   non-empty matching (RunProofs3.aligner_row_valid_shift): the hypotheses of the C02 record theorems, hence their conclusions. *)
From Coq Require Import ZArith QArith List Bool Lia String Ascii Sorting.Sorted Sorting.Permutation.
Import ListNotations.
Require Import Py PyProofs Pairing Core Cigar Multi Coordinator Checkers CheckersProofs Cmap Xmap Record
  ResolverProofs3 ResolverProofs9 ResolverProofs10 ResolverProofs14 RecordProofs1 RecordProofs2 RecordProofs3 RecordProofs4
  CigarProofs CigarProofs2 CigarProofs3 BestProofs2 ModesProofs1 RunProofs1 RunProofs2 RunProofs3.
Open Scope Z_scope.

(* ------------------------------------------------------------------------------------------------ queries as read, and trimmed *)
(* a query map as cmap_read returns it, with at least one label and strictly ascending label positions *)
Definition query_read (q0 : Pairing.omap) : Prop := mshift q0 = 0 /\ ascending q0 /\ mpositions q0 <> [].

Lemma SS_lt_le l : StronglySorted Z.lt l -> StronglySorted Z.le l.
Proof. induction 1 as [|x t Ht IH Hx]; constructor; [exact IH|]. eapply Forall_impl; [|exact Hx]. cbn beta. intros; lia. Qed.
Lemma SS_lt_map_sub l c : StronglySorted Z.lt l -> StronglySorted Z.lt (map (fun p => p - c) l).
Proof. induction 1 as [|x t Ht IH Hx]; cbn [map]; constructor; [exact IH|]. rewrite Forall_forall in *. intros y Hy.
  apply in_map_iff in Hy. destruct Hy as (z & <- & Hz). specialize (Hx z Hz). lia. Qed.

Lemma trim_trimmed q0 : query_read q0 -> trimmed (trim q0).
Proof. intros (Hs & Ha & Hne). unfold trimmed, ascending, trim in *. destruct (mpositions q0) as [|first rest_] eqn:E; [congruence|].
  cbn [mshift mpositions mlen]. split; [reflexivity|]. split; [apply SS_lt_map_sub; exact Ha|]. split; [discriminate|].
  split; [cbn [map hd]; lia|]. rewrite (last_map (fun p => p - first) (first :: rest_) 0 0) by discriminate. reflexivity. Qed.

Lemma map_sub_0 l : map (fun p => p - 0) l = l.
Proof. induction l as [|x t IH]; [reflexivity|]. cbn [map]. rewrite IH, Z.sub_0_r. reflexivity. Qed.
(* OpticalMap.trim leaves a trimmed map as it is: a run on trimmed queries is the run on "queries as read" that happen to be trimmed *)
Lemma trimmed_trim q : trimmed q -> trim q = q.
Proof. intros (Hs & _ & Hne & Hh & Hl). unfold trim. destruct q as [i l ps s]. cbn [mshift mpositions mlen mid hd] in *.
  destruct ps as [|first rest_]; [congruence|]. cbn [hd] in Hh. subst first s. rewrite map_sub_0, Hl. f_equal. lia. Qed.
Lemma trimmed_query_read q : trimmed q -> query_read q.
Proof. intros (Hs & Ha & Hne & _). repeat split; assumption. Qed.
Lemma map_trim_trimmed qq : (forall q, In q qq -> trimmed q) -> map trim qq = qq.
Proof. induction qq as [|q t IH]; intros H; [reflexivity|]. cbn [map]. rewrite (trimmed_trim q (H q (or_introl eq_refl))), IH; [reflexivity|].
  intros q' Hq'. apply H. right. exact Hq'. Qed.
Lemma map_mid_trim q0s : map mid (map trim q0s) = map mid q0s.
Proof. rewrite map_map. apply map_ext. intros q. apply trim_mid. Qed.

(* the maps Aligner.align is called on are labels sh+1 .. sh+n of a trimmed input query *)
Lemma src_map_fragment q0s q' : (forall q0, In q0 q0s -> mshift q0 = 0) -> src_map (map trim q0s) q' ->
  exists q0 sh n, In q0 q0s /\ (sh <= List.length (mpositions (trim q0)))%nat /\ q' = fragment_at (trim q0) sh n.
Proof. intros Hs [Hq|(q & Hq & Hf)]; apply in_map_iff in Hq; destruct Hq as (q0 & <- & Hq0).
  - exists q0, O, (List.length (mpositions (trim q0))). split; [exact Hq0|]. split; [lia|]. symmetry. apply fragment_whole. apply trim_shift, Hs, Hq0.
  - destruct Hf as [(n & ->)|(sh & Hsh & ->)]; [exists q0, O, n | exists q0, sh, (List.length (mpositions (trim q0)) - sh)%nat]; (split; [exact Hq0|]; split; [lia | reflexivity]). Qed.

(* ------------------------------------------------------------------------------------------------ HitEnum of a valid matching *)
Lemma cigar_runs_ok dir ps : valid dir ps -> ps <> [] -> exists rs, cigar_runs ps = Ok rs /\ rs <> [] /\ runs_ok rs.
Proof. intros Hv Hn. destruct (aggregate_total (ops ps)) as (rs & Ha & Hrs).
  { destruct (ops_shape ps Hn) as (H1 & _). intros E. rewrite E in H1. discriminate. }
  exists rs. split; [|split; [exact Hrs | apply (aggregate_runs_ok _ _ Ha)]].
  unfold cigar_runs. destruct ps as [|p r]; [congruence|]. rewrite (hit_enums_dedup dir (p :: r) Hv Hn). cbn [bind]. exact Ha. Qed.

(* ------------------------------------------------------------------------------------------------ the record of a run row *)
(* w is the record of a candidate of either pass: reference map `reference` of the reference file, labels sh+1 .. sh+n of the trimmed
   input query q0; it satisfies the hypotheses of C02_ref_span / C02_qry_span / C02_lengths / C02_ids / C02_record_text
   (pairs_from ..., valid ..., site_pairs <> []), with segs := rsegs w, reverse := rrev w and AlignedRest flag rest w *)
Definition run_record (refs q0s : list Pairing.omap) (w : Multi.row) : Prop :=
  exists reference q0 sh n,
    In reference refs /\ In q0 q0s /\
    w = set_aligned_rest (align_row (rsegs w) reference (fragment_at (trim q0) sh n) (rrev w)) (rest w) /\
    pairs_from (positions_with_ids reference false) (positions_with_ids (fragment_at (trim q0) sh n) (rrev w)) (rsegs w) /\
    valid_row (nlabels reference) 1 (nlabels q0) (rrev w) (site_pairs (rsegs w)) /\
    valid (dir_of (rrev w)) (site_pairs (rsegs w)) /\ site_pairs (rsegs w) <> [].

Lemma nlabels_trim q0 : nlabels (trim q0) = nlabels q0.
Proof. unfold nlabels, trim. destruct (mpositions q0) eqn:E; [rewrite E; reflexivity|]. cbn [mpositions]. rewrite map_length. reflexivity. Qed.

Section RunRecord.
Variables (P : params) (seeds : seeding) (refs q0s : list Pairing.omap).
Hypothesis Hsu : SU P <= 0.
Hypothesis Hms : 0 < MS P.
Hypothesis Hseeds : seeds_ok refs seeds.
Hypothesis Hrefs : forall r, In r refs -> reference_ok r.
Hypothesis Hq0s : forall q0, In q0 q0s -> query_read q0.
(* Program.__readMaps *)
Let qq := map trim q0s.

Lemma qq_trimmed q : In q qq -> trimmed q.
Proof. intros H. apply in_map_iff in H. destruct H as (q0 & <- & H0). apply trim_trimmed, Hq0s, H0. Qed.

Theorem run_row_record w : run_row P seeds refs qq w -> run_record refs q0s w.
Proof.
  intros (Hp & q' & Hsrc & sd & it & w0 & Hsd & Hc & Hw).
  assert (Hasc : ascending q') by (apply (src_map_ascending qq q'); [intros q Hq; apply (qq_trimmed q Hq) | exact Hsrc]).
  assert (Hp0 : row_has_pairs w0 = true) by (destruct Hw as [->| ->]; exact Hp).
  pose proof (cand_engine_ok P seeds refs Hsu Hms Hseeds (refs_ascending refs Hrefs) q' sd it w0 Hasc Hsd Hc Hp0) as Hok.
  assert (Hrange : qry_in_range q').
  { destruct Hsrc as [Hq|(q & Hq & Hf)]; [apply trimmed_in_range, (qq_trimmed _ Hq) | apply (fragment_in_range q q' (trimmed_in_range q (qq_trimmed q Hq)) Hf)]. }
  pose proof (Hseeds q' sd Hsd) as Hr. destruct Hc as (segs & Ha & E0).
  destruct (src_map_fragment q0s q' (fun q0 H => proj1 (Hq0s q0 H)) Hsrc) as (q0 & sh & n & Hq0 & Hsh & Eq').
  assert (Ew : rsegs w = segs /\ rrev w = sd_rev sd) by (destruct Hw as [->| ->]; rewrite E0; split; reflexivity). destruct Ew as (Es & Er).
  assert (Hne : row_pairs segs <> []) by (apply row_has_pairs_spec in Hp0; rewrite E0 in Hp0; exact Hp0).
  pose proof (aligner_row_valid_shift P it (sd_ref sd) q' (sd_peaks sd) (sd_rev sd) segs Hok Hrange (proj1 (Hrefs _ Hr)) Ha Hne) as Hv.
  assert (Hv' : valid_row (nlabels (sd_ref sd)) 1 (nlabels q0) (sd_rev sd) (site_pairs segs)).
  { apply (valid_row_widen _ (1 + mshift q') (mshift q' + nlabels q')); [| |exact Hv].
    - rewrite Eq'. cbn [mshift fragment_at]. lia.
    - rewrite Eq', <- (nlabels_trim q0). unfold nlabels, fragment_at. cbn [mshift mpositions]. rewrite firstn_length, skipn_length. lia. }
  exists (sd_ref sd), q0, sh, n. rewrite Es, Er, <- Eq'. split; [exact Hr|]. split; [exact Hq0|]. split; [|split; [|split; [exact Hv'|]]].
  - destruct Hw as [->| ->]; rewrite E0; reflexivity.
  - unfold pairs_from. apply Forall_forall. intros p Hin.
    destruct (aligner_pair_labels P it (sd_ref sd) q' (sd_peaks sd) (sd_rev sd) segs p Hok Ha Hin) as (r & ql & s & src & Ep & Hrl & Hql).
    unfold pv_of. rewrite Ep. cbn [pr pq]. split; [exact Hrl | exact Hql].
  - destruct Hv' as (N & _ & V). split; [exact V | exact N].
Qed.

(* every non-joined row of every output file of a run is such a record; every main-file row is one, or is the
   AlignmentResultRow.resolve of two of them *)
Theorem run_rows_records m maxdiff o : NoDup (map mid q0s) -> program_run P seeds m maxdiff refs qq = Ok o ->
  (forall w, In w (opt_rows (o_1 o) ++ opt_rows (o_2 o)) -> run_record refs q0s w) /\
  (forall w, In w (o_main o) -> run_record refs q0s w \/
     (m <> Separate /\ exists a b, run_record refs q0s a /\ run_record refs q0s b /\ join_rows a b = Ok w)) /\
  (m = Separate -> forall w, In w (out_rows o) -> run_record refs q0s w).
Proof.
  intros Hids Hrun. apply (program_run_lift P seeds refs qq m maxdiff o Hrun). intros f1 f2 Ep w Hw. apply run_row_record.
  assert (Hn : NoDup (map mid qq)) by (unfold qq; rewrite map_mid_trim; exact Hids).
  apply (run_passes_rows P seeds refs Hsu Hms Hseeds (refs_ascending refs Hrefs) qq (fun q Hq => proj1 (proj2 (qq_trimmed q Hq))) Hn m f1 f2 Ep w Hw).
Qed.
End RunRecord.

(* ------------------------------------------------------------------------------------------------ what is written for such a record *)
(* the conclusions of C02_ref_span, C02_qry_span, C02_lengths, C02_ids and C02_record_text for a run record, stated about the row itself;
   HitEnum is computed (cigarString never raises on it and has at least one run) *)
Definition record_written (refs q0s : list Pairing.omap) (w : Multi.row) : Prop :=
  exists reference q0 runs,
    In reference refs /\ In q0 q0s /\
    let Pl := site_pairs (rsegs w) in
    let a := hd (0, 0) Pl in let b := last Pl (0, 0) in
    let first0 := hd 0 (mpositions q0) in let last0 := last (mpositions q0) 0 in
    Pl <> [] /\ valid_row (nlabels reference) 1 (nlabels q0) (rrev w) Pl /\
    (* ids, lengths *)
    qid w = mid q0 /\ Multi.rid w = mid reference /\ qlen w = last0 - first0 + K /\ rlen w = mlen reference /\
    (* reference span *)
    rs w = label_at reference (fst a) /\ re w = label_at reference (fst b) /\ rs w <= re w /\
    (* query span *)
    (rrev w = false -> qs w = label_at q0 (snd a) - first0 /\ qe w = label_at q0 (snd b) - first0 /\ qs w <= qe w) /\
    (rrev w = true -> qs w = last0 - label_at q0 (snd b) /\ qe w = last0 - label_at q0 (snd a) /\ qs w >= qe w) /\
    (* HitEnum and the text *)
    cigar_runs Pl = Ok runs /\ runs <> [] /\ xrow_of w = Ok (xrow_of_row w runs) /\
    forall i, split_on TAB (write_row i (xrow_of_row w runs)) = spec_fields i reference q0 (rrev w) Pl (conf w) runs (rest w).

Theorem run_record_written refs q0s w : (forall r, In r refs -> reference_ok r) -> (forall q0, In q0 q0s -> query_read q0) ->
  run_record refs q0s w -> record_written refs q0s w.
Proof.
  intros Hrefs Hq0s (reference & q0 & sh & n & Hr & Hq0 & Ew & Hfrom & Hv & Hvalid & Hne).
  destruct (Hq0s q0 Hq0) as (Hs0 & Hasc0 & Hne0). pose proof (SS_lt_le _ Hasc0) as Hle0. pose proof (SS_lt_le _ (proj2 (Hrefs _ Hr))) as Hler.
  destruct (cigar_runs_ok _ _ Hvalid Hne) as (runs & Ec & Hruns & _).
  exists reference, q0, runs. split; [exact Hr|]. split; [exact Hq0|]. cbv zeta.
  pose proof (record_ref_span reference q0 sh n (rrev w) (rsegs w) Hler Hle0 Hs0 Hfrom Hvalid Hne) as HR.
  pose proof (record_qry_span reference q0 sh n (rrev w) (rsegs w) Hler Hle0 Hs0 Hfrom Hvalid Hne) as HQ.
  pose proof (record_lengths reference q0 sh n (rrev w) (rsegs w) Hne0) as HL.
  pose proof (record_ids reference q0 sh n (rrev w) (rsegs w)) as HI.
  pose proof (fun i => record_text reference q0 sh n (rrev w) (rsegs w) i runs (rest w) Hler Hle0 Hs0 Hfrom Hvalid Hne) as HT.
  cbv zeta in HR, HQ, HL, HI, HT.
  set (w1 := align_row (rsegs w) reference (fragment_at (trim q0) sh n) (rrev w)) in *.
  assert (F : qid w = qid w1 /\ Multi.rid w = Multi.rid w1 /\ qlen w = qlen w1 /\ rlen w = rlen w1 /\ qs w = qs w1 /\ qe w = qe w1 /\ rs w = rs w1 /\ re w = re w1).
  { rewrite Ew. repeat split; reflexivity. }
  destruct F as (F1 & F2 & F3 & F4 & F5 & F6 & F7 & F8). rewrite F1, F2, F3, F4, F5, F6, F7, F8.
  destruct HR as (R1 & R2 & R3). destruct HQ as (Q1 & Q2). destruct HL as (L1 & L2). destruct HI as (I1 & I2 & _).
  split; [exact Hne|]. split; [exact Hv|]. repeat (split; [assumption|]).
  split; [unfold xrow_of; rewrite Ec; reflexivity|].
  intros i. specialize (HT i). rewrite <- Ew in HT. exact HT.
Qed.
Print Assumptions run_rows_records.
Print Assumptions run_record_written.

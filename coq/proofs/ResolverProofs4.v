(* C15, part 4: one resolution step between a left member that ends with a pair and a right member that starts with a pair;
   a step between two members that are already strictly apart changes nothing; separation of the results. *)
From Coq Require Import ZArith QArith List Bool Lia Sorting.Sorted Sorting.Permutation.
Import ListNotations.
Require Import Py Pairing Core PyProofs ConflictProofs DPProofs ResolverProofs1 ResolverProofs2 ResolverProofs3.
Open Scope Z_scope.

(* ---------- label indexes of getReferenceLabels / getQueryLabels ---------- *)
Definition mine (isref : bool) (p : spos) : bool := match ap p with Pair _ _ _ _ => true | URef _ => isref | UQry _ _ => negb isref end.
Lemma labels_aux_cons isref p t idx sum : labels_aux isref (p :: t) idx sum =
  if mine isref p then (sc p + sum, idx) :: labels_aux isref t (S idx) 0 else labels_aux isref t (S idx) (sum + sc p).
Proof. unfold mine. cbn [labels_aux]. destruct (ap p); reflexivity. Qed.

Lemma labels_aux_idx isref l : forall idx sum,
  StronglySorted lt (map snd (labels_aux isref l idx sum)) /\
  forall i, In i (map snd (labels_aux isref l idx sum)) -> (idx <= i < idx + length l)%nat.
Proof. induction l as [|p t IH]; intros idx sum; [split; [constructor | intros i []]|]. rewrite labels_aux_cons. destruct (mine isref p).
  - destruct (IH (S idx) 0) as (H1 & H2). cbn [map snd length]. split.
    + constructor; [exact H1|]. rewrite Forall_forall. intros i Hi. specialize (H2 i Hi). lia.
    + intros i [<-|Hi]; [lia | specialize (H2 i Hi); lia].
  - destruct (IH (S idx) (sum + sc p)) as (H1 & H2). split; [exact H1|]. intros i Hi. specialize (H2 i Hi). cbn [length]. lia. Qed.

Lemma label_index_lt isref s k : (k < length (seg_labels isref s))%nat ->
  (nth k (map snd (seg_labels isref s)) O < length (positions s))%nat.
Proof. intros Hk. destruct (labels_aux_idx isref (positions s) 0 0) as (_ & H). unfold seg_labels in *.
  assert (Hin : In (nth k (map snd (labels_aux isref (positions s) 0 0)) O) (map snd (labels_aux isref (positions s) 0 0))) by (apply nth_In; rewrite map_length; exact Hk).
  specialize (H _ Hin). lia. Qed.

Lemma label_index_pos isref s p t k : positions s = p :: t -> is_pair p = true -> (0 < k < length (seg_labels isref s))%nat ->
  (0 < nth k (map snd (seg_labels isref s)) O)%nat.
Proof. intros E Hp Hk. unfold seg_labels in *. rewrite E in *. rewrite labels_aux_cons in *.
  assert (Hm : mine isref p = true) by (unfold mine; unfold is_pair in Hp; destruct (ap p); try discriminate; reflexivity). rewrite Hm in *.
  cbn [map snd length] in *. destruct k as [|k]; [lia|]. cbn [nth].
  destruct (labels_aux_idx isref t 1 0) as (_ & H).
  assert (Hin : In (nth k (map snd (labels_aux isref t 1 0)) O) (map snd (labels_aux isref t 1 0))) by (apply nth_In; rewrite map_length; lia).
  specialize (H _ Hin). lia. Qed.

(* ---------- small facts ---------- *)
Lemma junk_skipn_last l k : junk (skipn k l) -> last_is_pair l -> skipn k l = [].
Proof. intros Hj Hl. destruct (skipn k l) as [|x t] eqn:E; [reflexivity|]. exfalso. unfold last_is_pair in Hl.
  rewrite <- (firstn_skipn k l), E, rev_app_distr in Hl. destruct (rev (x :: t)) as [|y r] eqn:Er; [apply (f_equal (@length _)) in Er; rewrite rev_length in Er; discriminate|].
  cbn in Hl. assert (Hy : In y (x :: t)) by (apply in_rev; rewrite Er; left; reflexivity). rewrite (Hj y Hy) in Hl. discriminate. Qed.

Lemma seg_sub_nil s : sscore s = sum_scores (positions s) -> seg_sub s [] = s.
Proof. intros H. unfold seg_sub, seg_create. cbn [existsb negb]. rewrite (filter_id_all _ (positions s)) by reflexivity. rewrite <- H. destruct s; reflexivity. Qed.

Lemma optimal_merge_index_nil : optimal_merge_index [] [] = 0%nat. Proof. reflexivity. Qed.

(* ---------- left member ends with a pair, right member starts with a pair ---------- *)
Theorem rp_fresh dir a b a' b' cs ce lsub rsub :
  seg_ord dir (positions a) -> seg_ord dir (positions b) ->
  last_is_pair (positions a) -> first_is_pair (positions b) ->
  conflict a b cs ce lsub rsub -> outcome a b a' b' lsub rsub ->
  exists n m', (n <= length (positions a))%nat /\
    (forall x, In x (firstn n (positions a)) -> less_both x cs = true) /\
    (forall x, In x (firstn m' (positions b)) -> sl_keep ce x = true) /\
    (exists J rest, skipn m' (positions b) = J ++ rest /\ junk J /\ forall x t, rest = x :: t -> sl_keep ce x = false) /\
    ((positions a' = firstn n (positions a) /\ b' = b) \/
     (a' = a /\ positions b' = skipn m' (positions b)) \/
     (exists x y, (n <= x < length (positions a))%nat /\ (0 < y <= m')%nat /\ positions a' = firstn x (positions a) /\ positions b' = skipn y (positions b))).
Proof.
  intros Hoa Hob Hla Hfb [Hne Hov Hcs Hce Hl Hr] Hout.
  pose proof (seg_ord_nodupkey _ _ Hoa) as Hna. pose proof (seg_ord_nodupkey _ _ Hob) as Hnb.
  destruct (slice_spec a cs ce lsub Hl) as (n & m & El & _ & _ & Hn & Hdrop & _ & _ & Hjunk & _).
  specialize (Hjunk (pairs_le_end dir a ce Hoa Hce)). pose proof (junk_skipn_last _ _ Hjunk Hla) as Hnil.
  assert (El' : positions lsub = skipn n (positions a)).
  { rewrite El. apply firstn_all2. rewrite skipn_length. apply (f_equal (@length _)) in Hnil. rewrite skipn_length in Hnil. cbn in Hnil. lia. }
  destruct (slice_spec b cs ce rsub Hr) as (n' & m' & Er & _ & _ & Hn' & Hdrop' & _ & Hkeep' & _ & _ & Hafter).
  assert (En' : n' = 0%nat).
  { pose proof (start_first_not_less b cs Hcs n' Hdrop') as Hj. destruct n' as [|n']; [reflexivity|]. exfalso.
    unfold first_is_pair in Hfb. destruct (positions b) as [|p0 t]; [cbn in Hn'; lia|]. specialize (Hj p0 (or_introl eq_refl)). congruence. }
  subst n'. cbn [skipn] in Er. rewrite Nat.add_0_r in Hafter.
  exists n, m'. split; [exact Hn|]. split; [exact Hdrop|]. split; [rewrite <- Er; exact Hkeep'|]. split; [destruct Hafter as (J & rest & EJ & HJ & Hhd & _); exists J, rest; auto|].
  destruct Hout as [-> -> _ | -> -> _ | Hlen Hk -> ->].
  - left. split; [|reflexivity]. rewrite El'. apply seg_sub_suffix. exact Hna.
  - right. left. split; [reflexivity|]. rewrite Er. apply seg_sub_prefix. exact Hnb.
  - right. right. set (k := res_k lsub rsub) in *. unfold res_ll, res_rl in *. set (ir := res_isref lsub rsub) in *.
    assert (Hli : (nth k (map snd (seg_labels ir lsub)) O < length (positions lsub))%nat) by (apply label_index_lt; lia).
    assert (Hri : (nth k (map snd (seg_labels ir rsub)) O < length (positions rsub))%nat) by (apply label_index_lt; lia).
    assert (Hri0 : (0 < nth k (map snd (seg_labels ir rsub)) O)%nat).
    { unfold first_is_pair in Hfb. destruct (positions b) as [|p0 t] eqn:Eb; [rewrite Er, firstn_nil in Hri; cbn in Hri; lia|].
      destruct m' as [|m']; [rewrite Er in Hri; cbn in Hri; lia|]. cbn [firstn] in Er. apply (label_index_pos _ rsub p0 (firstn m' t) k Er Hfb). lia. }
    set (li := nth k (map snd (seg_labels ir lsub)) O) in *. set (ri := nth k (map snd (seg_labels ir rsub)) O) in *.
    rewrite El', skipn_length in Hli. rewrite Er, firstn_length in Hri.
    exists (li + n)%nat, ri. split; [lia|]. split; [lia|]. split.
    + rewrite El', skipn_skipn'. apply seg_sub_suffix. exact Hna.
    + rewrite Er, firstn_firstn. replace (Nat.min ri m') with ri by lia. apply seg_sub_prefix. exact Hnb.
Qed.

(* ---------- a step between members that are already strictly apart changes nothing ---------- *)
Lemma before_less_both dir z p : before dir z p -> is_pair p = true -> less_both z (pv_of p) = true.
Proof. intros (Hr & Hq) Hp. unfold less_both, pv_of, is_pair, rlab, qlab in *. destruct (ap p) as [r q s0 s1| |]; try discriminate.
  destruct (ap z) as [r' q' s0' s1'|r'|q' s0']; cbn [pr pq].
  - unfold pv_less_both. cbn [isnull pq pr]. destruct (Hr _ _ eq_refl eq_refl). destruct (Hq _ _ eq_refl eq_refl). apply andb_true_iff. split; apply Z.ltb_lt; lia.
  - destruct (Hr _ _ eq_refl eq_refl). apply Z.ltb_lt. lia.
  - destruct (Hq _ _ eq_refl eq_refl). apply Z.ltb_lt. lia. Qed.

Theorem rp_apart dir a b a' b' :
  seg_ord dir (positions a) -> seg_ord dir (positions b) ->
  sscore a = sum_scores (positions a) -> has_pairs b = true ->
  (forall cs, start_position b = Ok cs -> forall x, In x (positions a) -> less_both x cs = true) ->
  (forall ce, end_position a = Ok ce -> forall p', In p' (positions b) -> is_pair p' = true -> le_any p' ce = false) ->
  resolve_pair a b = Ok (a', b') -> a' = a /\ b' = b.
Proof.
  intros Hoa Hob Hsa Hpb H1 H2 H. destruct (resolve_pair_inv a b a' b' H) as [(-> & -> & _)|(cs & ce & lsub & rsub & Hc & Ho)]; [split; reflexivity|].
  destruct Hc as [Hne Hov Hcs Hce Hl Hr].
  assert (El : positions lsub = []).
  { destruct (slice_spec a cs ce lsub Hl) as (n & m & El & _ & _ & _ & _ & Hstop & _). rewrite El.
    destruct (skipn n (positions a)) as [|x t] eqn:E; [apply firstn_nil|]. specialize (Hstop x t eq_refl).
    rewrite (H1 cs Hcs x) in Hstop; [discriminate|]. rewrite <- (firstn_skipn n (positions a)), E. apply in_or_app. right. left. reflexivity. }
  assert (Er : positions rsub = []).
  { destruct (slice_spec b cs ce rsub Hr) as (n' & m' & Er & _ & _ & _ & Hdrop' & Hstop' & Hkeep' & _). rewrite Er in *.
    destruct (skipn n' (positions b)) as [|y t] eqn:E; [apply firstn_nil|]. destruct m' as [|m']; [reflexivity|]. exfalso.
    specialize (Hstop' y t eq_refl). specialize (Hkeep' y (or_introl eq_refl)).
    assert (Hyin : In y (positions b)) by (rewrite <- (firstn_skipn n' (positions b)), E; apply in_or_app; right; left; reflexivity).
    destruct (is_pair y) eqn:Hy.
    - unfold sl_keep in Hkeep'. rewrite Hy, (H2 ce Hce y Hyin Hy) in Hkeep'. discriminate.
    - destruct (start_split b cs Hcs (has_pairs_nonempty b Hpb)) as (p0 & l1 & l2 & Eb & Hj1 & Hp0 & ->).
      pose proof (start_first_not_less b (pv_of p0) Hcs n' Hdrop') as Hjn.
      assert (Hp0in : In p0 (positions b)) by (rewrite Eb; apply in_or_app; right; left; reflexivity).
      rewrite <- (firstn_skipn n' (positions b)), E in Hp0in, Hob. apply in_app_or in Hp0in. destruct Hp0in as [Hin|[Heq|Hin]].
      + rewrite (Hjn p0 Hin) in Hp0. discriminate.
      + subst y. congruence.
      + destruct (SS_app_inv _ _ _ Hob) as (_ & Hs & _). pose proof (SS_cons_inv _ _ _ Hs p0 Hin) as Hb.
        rewrite (before_less_both dir y p0 Hb Hp0) in Hstop'. discriminate. }
  assert (Ell : res_ll lsub rsub = []) by (unfold res_ll, seg_labels; rewrite El; reflexivity).
  assert (Erl : res_rl lsub rsub = []) by (unfold res_rl, seg_labels; rewrite Er; reflexivity).
  assert (Ek : res_k lsub rsub = 0%nat) by (unfold res_k; rewrite Ell, Erl; reflexivity).
  destruct Ho as [-> -> _ | _ _ Hx | _ Hk _ _].
  - rewrite El. split; [apply seg_sub_nil; exact Hsa | reflexivity].
  - exfalso. rewrite Ell, Erl, Ek in Hx. cbn in Hx. destruct Hx as [(_ & _ & Hx)|(Hx & _)]; congruence.
  - exfalso. rewrite Ek in Hk. lia.
Qed.

(* ---------- coherence of labels (they come from one reference map and one query map) and separation ---------- *)
Definition coh (dir : Z) (x y : spos) : Prop :=
  (forall r r', rlab x = Some r -> rlab y = Some r' -> (lpos r < lpos r' -> site r < site r') /\ (lpos r = lpos r' -> site r = site r')) /\
  (forall q q', qlab x = Some q -> qlab y = Some q' -> (lpos q < lpos q' -> 0 < dir * (site q' - site q)) /\ (lpos q = lpos q' -> site q = site q')).
Definition coherent (dir : Z) (l1 l2 : list spos) : Prop := forall x y, In x l1 -> In y l2 -> coh dir x y /\ coh dir y x.

(* every pair of l1 is strictly before every pair of l2 on both sequences (positions) *)
Definition psep (l1 l2 : list spos) : Prop :=
  forall p p', In p l1 -> In p' l2 -> is_pair p = true -> is_pair p' = true -> rpos_of p < rpos_of p' /\ qpos_of p < qpos_of p'.

Lemma psep_Sub l1 l2 k1 k2 : Sub k1 l1 -> Sub k2 l2 -> psep l1 l2 -> psep k1 k2.
Proof. intros H1 H2 H p p' Hp Hp'. apply H; [apply (Sub_in _ _ _ H1 Hp) | apply (Sub_in _ _ _ H2 Hp')]. Qed.

Lemma coh_pair_lt dir p p' : is_pair p = true -> is_pair p' = true -> coh dir p p' ->
  rpos_of p < rpos_of p' /\ qpos_of p < qpos_of p' -> pair_lt dir p p'.
Proof. unfold is_pair, coh, pair_lt, rpos_of, qpos_of, rsite_of, qsite_of, pv_of, rlab, qlab.
  destruct (ap p); try discriminate. destruct (ap p'); try discriminate. cbn [pr pq]. intros _ _ (Hr & Hq) (H1 & H2).
  destruct (Hr _ _ eq_refl eq_refl) as (Ha & _). destruct (Hq _ _ eq_refl eq_refl) as (Hb & _). auto. Qed.

Lemma start_le dir b cs : seg_ord dir (positions b) -> start_position b = Ok cs -> has_pairs b = true ->
  forall p', In p' (positions b) -> is_pair p' = true -> pv_le cs (pv_of p').
Proof. intros Hob Hcs Hb p' Hp' Hpp. destruct (start_split b cs Hcs (has_pairs_nonempty b Hb)) as (p0 & l1 & l2 & E & Hj & Hp0 & ->).
  rewrite E in Hp', Hob. apply in_app_or in Hp'. destruct Hp' as [Hin|[<-|Hin]].
  - rewrite (Hj p' Hin) in Hpp. discriminate.
  - apply pv_le_refl.
  - destruct (SS_app_inv _ _ _ Hob) as (_ & Hs & _). apply (before_pairs_le dir); [apply (SS_cons_inv _ _ _ Hs p' Hin) | assumption | assumption]. Qed.
Lemma end_ge dir a ce : seg_ord dir (positions a) -> end_position a = Ok ce -> has_pairs a = true ->
  forall p, In p (positions a) -> is_pair p = true -> pv_le (pv_of p) ce.
Proof. intros Hoa Hce Ha p Hp Hpp. destruct (end_split a ce Hce (has_pairs_nonempty a Ha)) as (p0 & l1 & l2 & E & Hj & Hp0 & ->).
  rewrite E in Hp, Hoa. apply in_app_or in Hp. destruct Hp as [Hin|[<-|Hin]].
  - destruct (SS_app_inv _ _ _ Hoa) as (_ & _ & Hs). apply (before_pairs_le dir); [apply (Hs p p0 Hin (or_introl eq_refl)) | assumption | assumption].
  - apply pv_le_refl.
  - rewrite (Hj p Hin) in Hpp. discriminate. Qed.

Lemma psep_less_both l1 l2 cs : (forall x, In x l1 -> less_both x cs = true) ->
  (forall p', In p' l2 -> is_pair p' = true -> pv_le cs (pv_of p')) -> psep l1 l2.
Proof. intros H1 H2 p p' Hp Hp' Hpp Hpp'. specialize (H1 p Hp). destruct (H2 p' Hp' Hpp') as (Ha & Hb).
  unfold less_both, is_pair, rpos_of, qpos_of, pv_of in *. destruct (ap p); try discriminate. cbn [pr pq].
  unfold pv_less_both in H1. cbn [isnull pq pr] in H1. apply andb_true_iff in H1. destruct H1 as (Hq & Hr). apply Z.ltb_lt in Hq, Hr. lia. Qed.

(* "not less-or-equal on any sequence" means strictly after on both, for labels of one pair of maps *)
Lemma not_le_after dir p pe : is_pair p = true -> is_pair pe = true -> coh dir p pe -> le_any p (pv_of pe) = false ->
  rpos_of pe < rpos_of p /\ qpos_of pe < qpos_of p.
Proof. unfold is_pair, coh, le_any, rpos_of, qpos_of, pv_of, rlab, qlab. destruct (ap p) as [r q s0 s1| |]; try discriminate.
  destruct (ap pe) as [re qe s0' s1'| |]; try discriminate. cbn [pr pq]. intros _ _ (Hr & Hq) H.
  unfold pv_le_any, label_eqb in H. cbn [isnull pq pr] in H. apply orb_false_iff in H. destruct H as (H & H4). apply orb_false_iff in H. destruct H as (H & H3).
  apply orb_false_iff in H. destruct H as (H1 & H2). apply Z.ltb_ge in H1, H2.
  destruct (Hr _ _ eq_refl eq_refl) as (_ & Hre). destruct (Hq _ _ eq_refl eq_refl) as (_ & Hqe).
  split.
  - destruct (Z.eq_dec (lpos r) (lpos re)) as [E|N]; [|lia]. exfalso. rewrite (Hre E), E, !Z.eqb_refl in H4. discriminate.
  - destruct (Z.eq_dec (lpos q) (lpos qe)) as [E|N]; [|lia]. exfalso. rewrite (Hqe E), E, !Z.eqb_refl in H3. discriminate. Qed.

Lemma psep_after dir a ce l2 J rest : seg_ord dir (positions a) -> end_position a = Ok ce -> has_pairs a = true ->
  seg_ord dir l2 -> coherent dir (positions a) l2 -> l2 = J ++ rest -> junk J -> (forall x t, rest = x :: t -> sl_keep ce x = false) ->
  psep (positions a) l2.
Proof. intros Hoa Hce Ha Ho2 Hcoh -> Hj Hhd p p' Hp Hp' Hpp Hpp'.
  destruct (end_split a ce Hce (has_pairs_nonempty a Ha)) as (pe & k1 & k2 & Ea & _ & Hpe & Ece).
  assert (Hpein : In pe (positions a)) by (rewrite Ea; apply in_or_app; right; left; reflexivity).
  destruct (end_ge dir a ce Hoa Hce Ha p Hp Hpp) as (Hle1 & Hle2). rewrite Ece in Hle1, Hle2.
  apply in_app_or in Hp'. destruct Hp' as [Hin|Hin]; [rewrite (Hj p' Hin) in Hpp'; discriminate|].
  destruct rest as [|x t]; [destruct Hin|]. specialize (Hhd x t eq_refl). unfold sl_keep in Hhd. apply orb_false_iff in Hhd. destruct Hhd as (Hx & Hle).
  apply negb_false_iff in Hx. rewrite Ece in Hle.
  assert (Hxin : In x (J ++ x :: t)) by (apply in_or_app; right; left; reflexivity).
  destruct (not_le_after dir x pe Hx Hpe (proj2 (Hcoh pe x Hpein Hxin)) Hle) as (G1 & G2).
  assert (Hxp : pv_le (pv_of x) (pv_of p')).
  { destruct Hin as [<-|Hin]; [apply pv_le_refl|]. destruct (SS_app_inv _ _ _ Ho2) as (_ & Hs & _). apply (before_pairs_le dir); [apply (SS_cons_inv _ _ _ Hs p' Hin) | assumption | assumption]. }
  destruct Hxp as (X1 & X2). unfold rpos_of, qpos_of in *. lia. Qed.

(* ---------- the step between a left member ending with a pair and a right member starting with a pair ---------- *)
Lemma last_split l : last_is_pair l -> l <> [] -> exists K pe, l = K ++ [pe] /\ is_pair pe = true.
Proof. intros H Hne. destruct (exists_last Hne) as (K & pe & ->). exists K, pe. split; [reflexivity|].
  unfold last_is_pair in H. rewrite rev_app_distr in H. exact H. Qed.
Lemma end_position_snoc s K pe : positions s = K ++ [pe] -> is_pair pe = true -> end_position s = Ok (pv_of pe).
Proof. intros E Hp. unfold end_position, seg_empty, aligned. rewrite E. destruct (K ++ [pe]) eqn:E'; [destruct K; discriminate|]. rewrite <- E'.
  rewrite filter_app, rev_app_distr. cbn [filter]. rewrite Hp. reflexivity. Qed.
Lemma start_position_cons s pc R : positions s = pc :: R -> is_pair pc = true -> start_position s = Ok (pv_of pc).
Proof. intros E Hp. unfold start_position, seg_empty, aligned. rewrite E. cbn [filter]. rewrite Hp. reflexivity. Qed.
Lemma le_any_pv_of p o : is_pair p = true -> le_any p o = pv_le_any (pv_of p) o.
Proof. unfold is_pair, le_any, pv_of. destruct (ap p); try discriminate. reflexivity. Qed.

Theorem rp_fresh_main dir a b a' b' :
  seg_ord dir (positions a) -> seg_ord dir (positions b) ->
  sscore a = sum_scores (positions a) -> sscore b = sum_scores (positions b) ->
  last_is_pair (positions a) -> first_is_pair (positions b) -> has_pairs a = true -> has_pairs b = true ->
  coherent dir (positions a) (positions b) ->
  resolve_pair a b = Ok (a', b') ->
  exists x y, positions a' = firstn x (positions a) /\ positions b' = skipn y (positions b) /\
    speak a' = speak a /\ speak b' = speak b /\ sscore a' = sum_scores (positions a') /\ sscore b' = sum_scores (positions b') /\
    (psep (positions a') (positions b') \/ ((x < length (positions a))%nat /\ (0 < y)%nat)).
Proof.
  intros Hoa Hob Hsa Hsb Hla Hfb Hpa Hpb Hcoh H.
  destruct (has_pairs_end a Hpa) as (ce & Hce). destruct (has_pairs_start b Hpb) as (cs & Hcs).
  destruct (resolve_pair_inv a b a' b' H) as [(-> & -> & Hun)|(cs' & ce' & lsub & rsub & Hc & Ho)].
  - exists (length (positions a)), 0%nat. rewrite firstn_all. cbn [skipn]. repeat (split; [first [reflexivity | assumption]|]). left.
    destruct Hun as [He|Hov]; [rewrite (has_pairs_nonempty a Hpa) in He; discriminate|].
    unfold end_overlaps in Hov. rewrite (has_pairs_nonempty a Hpa), Hcs in Hov. cbn [bind] in Hov.
    destruct (start_position a) as [as_|]; [|discriminate]. cbn [bind] in Hov. rewrite Hce in Hov. cbn [bind] in Hov.
    destruct (end_position b) as [be|]; [|discriminate]. cbn [bind] in Hov. injection Hov as Hov.
    apply orb_false_iff in Hov. destruct Hov as (Hov & _). apply orb_false_iff in Hov. destruct Hov as (_ & Hov).
    unfold first_is_pair in Hfb. destruct (positions b) as [|pc R] eqn:Eb; [unfold has_pairs, aligned in Hpb; rewrite Eb in Hpb; discriminate|].
    rewrite (start_position_cons b pc R Eb Hfb) in Hcs. injection Hcs as <-. rewrite <- (le_any_pv_of pc ce Hfb) in Hov.
    apply (psep_after dir a ce (pc :: R) [] (pc :: R) Hoa Hce Hpa); [exact Hob | exact Hcoh | reflexivity | apply junk_nil|].
    intros x t Ex. injection Ex as <- <-. unfold sl_keep. rewrite Hfb, Hov. reflexivity.
  - destruct (resolve_pair_cut dir a b a' b' cs' ce' lsub rsub Hoa Hob Hsa Hsb Hc Ho) as ((Hpa' & Hsa' & _) & (Hpb' & Hsb' & _)).
    destruct (rp_fresh dir a b a' b' cs' ce' lsub rsub Hoa Hob Hla Hfb Hc Ho) as (n & m' & Hn & Hdrop & Hkeep & (J & rest & EJ & HJ & Hhd) & Hcases).
    destruct Hc as [_ _ Hcs' Hce' _ _]. rewrite Hcs in Hcs'. injection Hcs' as <-. rewrite Hce in Hce'. injection Hce' as <-.
    destruct Hcases as [(Ea & ->)|[(-> & Eb)|(x & y & Hx & Hy & Ea & Eb)]].
    + exists n, 0%nat. cbn [skipn]. repeat (split; [first [reflexivity | assumption]|]). left. rewrite Ea.
      apply (psep_less_both _ _ cs Hdrop). apply (start_le dir b cs Hob Hcs Hpb).
    + exists (length (positions a)), m'. rewrite firstn_all. repeat (split; [first [reflexivity | assumption]|]). left. rewrite Eb.
      apply (psep_after dir a ce _ J rest Hoa Hce Hpa); [apply (SS_Sub _ _ _ (Sub_skipn_self m' _) Hob) | | exact EJ | exact HJ | exact Hhd].
      intros u v Hu Hv. apply Hcoh; [exact Hu | apply (Sub_in _ _ _ (Sub_skipn_self m' _) Hv)].
    + exists x, y. repeat (split; [first [reflexivity | assumption]|]). right. lia.
Qed.

(* if moreover the end of the left member is not after the start of the right one, the results are strictly apart *)
Theorem rp_fresh_weak dir a b a' b' ce cs :
  seg_ord dir (positions a) -> seg_ord dir (positions b) ->
  sscore a = sum_scores (positions a) -> sscore b = sum_scores (positions b) ->
  last_is_pair (positions a) -> first_is_pair (positions b) -> has_pairs a = true -> has_pairs b = true ->
  coherent dir (positions a) (positions b) ->
  end_position a = Ok ce -> start_position b = Ok cs -> pv_le ce cs ->
  resolve_pair a b = Ok (a', b') ->
  exists x y, positions a' = firstn x (positions a) /\ positions b' = skipn y (positions b) /\
    speak a' = speak a /\ speak b' = speak b /\ sscore a' = sum_scores (positions a') /\ sscore b' = sum_scores (positions b') /\
    psep (positions a') (positions b').
Proof.
  intros Hoa Hob Hsa Hsb Hla Hfb Hpa Hpb Hcoh Hce Hcs Hle H.
  destruct (rp_fresh_main dir a b a' b' Hoa Hob Hsa Hsb Hla Hfb Hpa Hpb Hcoh H) as (x & y & Ea & Eb & G1 & G2 & G3 & G4 & Hd).
  exists x, y. repeat (split; [assumption|]). destruct Hd as [Hd|(Hx & Hy)]; [exact Hd|].
  assert (Hane : positions a <> []) by (intros E; unfold has_pairs, aligned in Hpa; rewrite E in Hpa; discriminate).
  destruct (last_split _ Hla Hane) as (K & pe & EA & Hpe). rewrite (end_position_snoc a K pe EA Hpe) in Hce. injection Hce as <-.
  unfold first_is_pair in Hfb. destruct (positions b) as [|pc R] eqn:EB; [unfold has_pairs, aligned in Hpb; rewrite EB in Hpb; discriminate|].
  rewrite (start_position_cons b pc R EB Hfb) in Hcs. injection Hcs as <-.
  intros p p' Hp Hp' Hpp Hpp'. rewrite Ea, EA in Hp. rewrite Eb in Hp'. rewrite EA in Hoa, Hx. rewrite app_length in Hx. cbn in Hx.
  rewrite firstn_app in Hp. replace (x - length K)%nat with 0%nat in Hp by lia. cbn [firstn] in Hp. rewrite app_nil_r in Hp.
  apply (Sub_in _ _ _ (Sub_firstn_self x K)) in Hp. destruct y as [|y]; [lia|]. cbn [skipn] in Hp'. apply (Sub_in _ _ _ (Sub_skipn_self y R)) in Hp'.
  destruct (SS_app_inv _ _ _ Hoa) as (_ & _ & HsA). pose proof (HsA p pe Hp (or_introl eq_refl)) as B1.
  pose proof (SS_cons_inv _ _ _ Hob p' Hp') as B2.
  destruct B1 as (B1r & B1q). destruct B2 as (B2r & B2q). destruct Hle as (L1 & L2).
  unfold is_pair in Hpp, Hpp', Hpe, Hfb. unfold rpos_of, qpos_of, pv_of, rlab, qlab in *.
  destruct (ap p); try discriminate. destruct (ap p'); try discriminate. destruct (ap pe); try discriminate. destruct (ap pc); try discriminate.
  cbn [pr pq] in *. destruct (B1r _ _ eq_refl eq_refl). destruct (B1q _ _ eq_refl eq_refl). destruct (B2r _ _ eq_refl eq_refl). destruct (B2q _ _ eq_refl eq_refl). lia.
Qed.
Print Assumptions rp_fresh_weak.
Print Assumptions rp_apart.

(* getUnalignedFragments never hands the second pass a fragment WITHOUT a label: the '+' branch at an end slices from two labels before a label
   that is in the list, the '-' branch up to three labels after a label number >= 1, the middle branches keep only fragments of >= 7 labels.
   For the first-pass rows of a run (candidate rows with a pair, aligned on a whole query) the label numbers are >= 1 (aligner_pair_labels). *)
From Coq Require Import ZArith QArith List Bool Lia Sorting.Sorted Sorting.Permutation.
Import ListNotations.
Require Import Py PyProofs Pairing Core Multi Coordinator ResolverProofs3 ResolverProofs9 ResolverProofs10 MirrorProofs1 RecordProofs1
  BestProofs2 RunProofs1 RunProofs2.
Open Scope Z_scope.

Lemma index_of_bound x l : forall s i, index_of x l s = Ok i -> s <= i < s + len l.
Proof. unfold len. induction l as [|y t IH]; intros s i H; [discriminate|]. cbn [index_of] in H. cbn [length]. rewrite Nat2Z.inj_succ.
  destruct (y =? x); [injection H as <-; lia|]. specialize (IH _ _ H). lia. Qed.
Lemma skipn_ne {A} (l : list A) n : (n < length l)%nat -> skipn n l <> [].
Proof. intros H E. apply (f_equal (@length A)) in E. rewrite skipn_length in E. cbn in E. lia. Qed.
Lemma firstn_ne {A} (l : list A) n : l <> [] -> (1 <= n)%nat -> firstn n l <> [].
Proof. destruct l; [congruence|]. destruct n; [lia|]. discriminate. Qed.
Lemma slice_from_idx_ne (l : list Z) i : 0 <= i < len l -> slice_from l (i - 2) <> [].
Proof. unfold len, slice_from. intros H. destruct (i - 2 <? 0) eqn:E; apply skipn_ne; [apply Z.ltb_lt in E | apply Z.ltb_ge in E]; lia. Qed.
Lemma slice_to_ne (l : list Z) k : l <> [] -> 1 <= k -> slice_to l k <> [].
Proof. unfold slice_to. intros H Hk. destruct (k <? 0) eqn:E; [apply Z.ltb_lt in E; lia|]. apply firstn_ne; [exact H | lia]. Qed.
Lemma len_ge7_ne (l : list Z) : (7 <=? len l) = true -> l <> [].
Proof. unfold len. intros H E. rewrite E in H. discriminate. Qed.

Theorem unaligned_fragments_nonempty w qpos frs : qpos <> [] -> row_pairs (rsegs w) <> [] ->
  (rrev w = true -> forall p, In p (row_pairs (rsegs w)) -> 1 <= site (pq (pv_of p))) ->
  unaligned_fragments w qpos = Ok frs -> Forall (fun f => mpositions f <> []) frs.
Proof.
  intros Hq Hp Hsite. unfold unaligned_fragments.
  destruct (4 * qlen w <? 5 * Z.abs (Multi.qs w - qe w)); [intros H; injection H as <-; constructor|].
  (* the last pair in reference order *)
  assert (Hlast : rrev w = true -> 1 <= site (pq (match rev (sort_by pair_rpos (row_pairs (rsegs w))) with [] => null_pv | p :: _ => pv_of p end)) + 3).
  { intros Hr. destruct (rev (sort_by pair_rpos (row_pairs (rsegs w)))) as [|pl tl] eqn:El.
    - exfalso. apply Hp. apply (f_equal (@rev _)) in El. rewrite rev_involutive in El. cbn in El.
      pose proof (sort_by_perm pair_rpos (row_pairs (rsegs w))) as Hperm. rewrite El in Hperm. apply Permutation_nil in Hperm. exact Hperm.
    - specialize (Hsite Hr pl (sorted_last_in (rsegs w) pl tl El)). lia. }
  destruct ((Multi.qs w =? 0) || (qe w =? 0)).
  - destruct (rrev w) eqn:Er; cbn [negb].
    + intros H; injection H as <-. constructor; [|constructor]. cbn [mpositions]. apply slice_to_ne; [exact Hq | apply Hlast; reflexivity].
    + destruct (index_of (qe w) qpos 0) as [i|] eqn:Ei; cbn [bind]; [|discriminate].
      destruct (qe w =? 0); intros H; injection H as <-; constructor; [|constructor]. cbn [mpositions].
      apply slice_from_idx_ne. apply (index_of_bound _ _ _ _ Ei).
  - set (p12 := if negb (rrev w) then _ else _). destruct p12 as [[p1 p2]|]; cbn [bind]; [|discriminate]. cbn [fst snd].
    destruct (7 <=? len p1) eqn:E1; destruct (7 <=? len p2) eqn:E2; cbn [andb]; intros H; injection H as <-; repeat constructor; cbn [mpositions];
      apply len_ge7_ne; assumption.
Qed.

Lemma all_fragments_nonempty rows qq : (forall q, In q qq -> mpositions q <> []) ->
  (forall w, In w rows -> row_pairs (rsegs w) <> [] /\ (rrev w = true -> forall p, In p (row_pairs (rsegs w)) -> 1 <= site (pq (pv_of p)))) ->
  forall frags, all_fragments rows qq = Ok frags -> Forall (fun f => mpositions f <> []) frags.
Proof. intros Hqq. induction rows as [|w t IH]; intros H frags E; cbn [all_fragments] in E; [injection E as <-; constructor|].
  destruct (H w (or_introl eq_refl)) as (Hp & Hs).
  destruct (4 * qlen w <? 5 * Z.abs (Multi.qs w - qe w)) eqn:E4; cbn [bind] in E.
  - destruct (all_fragments t qq) as [rest_|] eqn:Et; [|discriminate]. cbn [bind app] in E. injection E as <-. apply IH; [intros w' Hw'; apply H; right; exact Hw' | reflexivity].
  - destruct (find_query qq (qid w)) as [q|] eqn:Ef; [|discriminate]. cbn [bind] in E.
    destruct (unaligned_fragments w (mpositions q)) as [fr|] eqn:Eu; [|discriminate]. cbn [bind] in E.
    destruct (all_fragments t qq) as [rest_|] eqn:Et; [|discriminate]. cbn [bind] in E. injection E as <-. apply Forall_app. split.
    + apply (unaligned_fragments_nonempty w (mpositions q) fr); [apply Hqq, (proj1 (find_query_in qq _ q Ef)) | exact Hp | exact Hs | exact Eu].
    + apply IH; [intros w' Hw'; apply H; right; exact Hw' | reflexivity].
Qed.

Section Run.
Variables (P : params) (seeds : seeding) (refs : list omap).
Hypothesis Hsu : SU P <= 0.
Hypothesis Hms : 0 < MS P.
Hypothesis Hseeds : seeds_ok refs seeds.
Hypothesis Hrefs : forall r, In r refs -> ascending r.
Variable qq : list omap.
Hypothesis Hqq : forall q, In q qq -> ascending q /\ mpositions q <> [] /\ 0 <= mshift q.

(* the fragments the first pass leaves for the second pass all have a label *)
Theorem first_pass_fragments_nonempty rows1 it1 frags : execute P seeds refs qq 1 = Ok (rows1, it1) -> all_fragments rows1 qq = Ok frags ->
  Forall (fun f => mpositions f <> []) frags.
Proof.
  intros E1 Ef. apply (all_fragments_nonempty rows1 qq (fun q H => proj1 (proj2 (Hqq q H)))); [|exact Ef]. intros w Hw.
  destruct (execute_prov P seeds refs qq 1 rows1 it1 E1 w Hw) as (Hp & q & Hq & sd & it & w0 & Hsd & Hc & Hw0).
  assert (Er : rsegs w = rsegs w0 /\ rrev w = rrev w0) by (destruct Hw0 as [->| ->]; split; reflexivity). destruct Er as (Er & Ev).
  assert (Hp0 : row_has_pairs w0 = true) by (unfold row_has_pairs in *; rewrite <- Er; exact Hp).
  destruct (Hqq q Hq) as (Ha & _ & Hsh).
  pose proof (cand_engine_ok P seeds refs Hsu Hms Hseeds Hrefs q sd it w0 Ha Hsd Hc Hp0) as Hok. destruct Hc as (segs & Hal & E0).
  split; [apply row_has_pairs_spec; exact Hp|]. intros _ p Hin. rewrite Er, E0 in Hin. cbn [rsegs row_create] in Hin.
  destruct (aligner_pair_labels P it (sd_ref sd) q (sd_peaks sd) (sd_rev sd) segs p Hok Hal Hin) as (r & ql & sh & src & Ep & _ & Hql).
  unfold pv_of. rewrite Ep. cbn [pq]. apply positions_sites in Hql. unfold in_range in Hql. lia.
Qed.
End Run.

Print Assumptions first_pass_fragments_nonempty.

(* C07, part 1: where the candidate pipeline (Aligner.align) can raise.
   - every segment the factory builds from scored engine output begins and ends with an aligned pair (SU <= 0 < MS), hence
     startPosition / endPosition / the chain ordering key / the join score never raise on factory output and chain = Ok;
   - AlignmentSegment.slice never raises (after repair F8: `while positions and ...` in __trimNotAlignedPositionsFromEnd);
     exact characterisation of when it raised before the repair (slice_gen false: IndexError on the emptied list), kept for the
     regression witnesses, and how the two relate;
   - the shape of the slices of a left member that ends with a pair / a right member that begins with a pair. *)
From Coq Require Import ZArith QArith List Bool Lia Sorting.Sorted.
Import ListNotations.
Require Import Py PyProofs Pairing Core Psum FacProofs FacSegs ChainCore ConflictProofs PairingProofs4.
Open Scope Z_scope.

(* ------------------------------------------------------------------------------------------------ list helpers *)
Lemma nth_firstn' {A} (l : list A) d : forall n i, (i < n)%nat -> nth i (firstn n l) d = nth i l d.
Proof. induction l as [|x t IH]; intros n i H; [rewrite firstn_nil; reflexivity|].
  destruct n as [|n]; [lia|]. destruct i as [|i]; [reflexivity|]. cbn. apply IH. lia. Qed.
Lemma nth_skipn' {A} (l : list A) d : forall a i, nth i (skipn a l) d = nth (a + i) l d.
Proof. induction l as [|x t IH]; intros a i; [rewrite skipn_nil; destruct i, a; reflexivity|].
  destruct a as [|a]; [reflexivity|]. cbn [skipn Nat.add nth]. apply IH. Qed.
Lemma rev_head {A} (L : list A) d : L <> [] -> exists t, rev L = nth (length L - 1) L d :: t.
Proof. intros H. destruct (rev L) as [|p r] eqn:E.
  - exfalso. apply H. rewrite <- (rev_involutive L), E. reflexivity.
  - exists r. f_equal. rewrite <- (rev_involutive L), E. cbn [rev]. rewrite app_length, rev_length. cbn [length].
    replace (length r + 1 - 1)%nat with (length (rev r)) by (rewrite rev_length; lia).
    rewrite app_nth2 by lia. rewrite Nat.sub_diag. reflexivity. Qed.
Lemma subrun_length {A} (l : list A) a b : (a <= b <= length l)%nat -> length (firstn (b - a) (skipn a l)) = (b - a)%nat.
Proof. intros H. rewrite firstn_length, skipn_length. lia. Qed.
Lemma subrun_first {A} (l : list A) a b d : (a < b <= length l)%nat -> exists t, firstn (b - a) (skipn a l) = nth a l d :: t.
Proof. intros H. destruct (firstn (b - a) (skipn a l)) as [|x t] eqn:E.
  - apply (f_equal (@length _)) in E. rewrite subrun_length in E by lia. cbn in E. lia.
  - exists t. f_equal. assert (Hx : nth 0 (firstn (b - a) (skipn a l)) d = x) by (rewrite E; reflexivity).
    rewrite nth_firstn' in Hx by lia. rewrite nth_skipn', Nat.add_0_r in Hx. symmetry. exact Hx. Qed.
Lemma subrun_last {A} (l : list A) a b d : (a < b <= length l)%nat -> exists t, rev (firstn (b - a) (skipn a l)) = nth (b - 1) l d :: t.
Proof. intros H. destruct (rev_head (firstn (b - a) (skipn a l)) d) as (t & E).
  - intros E. apply (f_equal (@length _)) in E. rewrite subrun_length in E by lia. cbn in E. lia.
  - exists t. rewrite E. f_equal. rewrite subrun_length by lia. rewrite nth_firstn' by lia. rewrite nth_skipn'. f_equal. lia. Qed.
Lemma forallb_rev {A} (f : A -> bool) l : forallb f (rev l) = forallb f l.
Proof. destruct (forallb f l) eqn:E.
  - rewrite forallb_forall in *. intros x Hx. apply E. apply in_rev. exact Hx.
  - destruct (forallb f (rev l)) eqn:E'; [|reflexivity]. rewrite <- E. symmetry. rewrite forallb_forall in *.
    intros x Hx. apply E'. apply -> in_rev. exact Hx. Qed.

(* ------------------------------------------------------------------------------------------------ A. factory output *)
(* an unpaired position scores SU <= 0, so a positively scored position is a pair *)
Lemma positive_is_pair P p : SU P <= 0 -> 0 < sc (score_pos P p) -> is_pair (score_pos P p) = true.
Proof. intros H. destruct p; cbn; intros; try reflexivity; lia. Qed.

Definition dflt_apos : apos := URef (mkLabel 0 0).

Lemma range_segment_ends P ps peak r : SU P <= 0 -> 0 < MS P -> In r (factory_ranges (MS P) (BS P) (map sc (map (score_pos P) ps))) ->
  first_is_pair (positions (seg_of_range (map (score_pos P) ps) peak r)) /\
  last_is_pair (positions (seg_of_range (map (score_pos P) ps) peak r)).
Proof.
  intros Hsu Hms Hin. set (sps := map (score_pos P) ps) in *.
  destruct (factory_spec (MS P) (BS P) Hms (map sc sps)) as (Hok & _ & _). rewrite Forall_forall in Hok.
  pose proof (Hok r Hin) as Hr. destruct (seg_ends_positive (MS P) (BS P) (map sc sps) r Hr) as (H1 & H2).
  destruct Hr as (Hab & _). rewrite map_length in Hab.
  assert (Hn : forall i, (i < length sps)%nat -> 0 < nth i (map sc sps) 0 -> is_pair (nth i sps (score_pos P dflt_apos)) = true).
  { intros i Hi Hp. rewrite (nth_indep _ 0 (sc (score_pos P dflt_apos))) in Hp by (rewrite map_length; exact Hi).
    rewrite map_nth in Hp. unfold sps in *. rewrite map_nth in *. apply positive_is_pair; assumption. }
  unfold seg_of_range, seg_create. cbn [positions]. split.
  - destruct (subrun_first sps (rA r) (rB r) (score_pos P dflt_apos) Hab) as (t & ->). cbn. apply Hn; [lia | exact H1].
  - unfold last_is_pair. destruct (subrun_last sps (rA r) (rB r) (score_pos P dflt_apos) Hab) as (t & ->). apply Hn; [lia | exact H2].
Qed.

Theorem factory_segment_ends P ps peak s : SU P <= 0 -> 0 < MS P -> In s (get_segments P (map (score_pos P) ps) peak) ->
  first_is_pair (positions s) /\ last_is_pair (positions s).
Proof.
  intros Hsu Hms Hin. rewrite get_segments_ranges in Hin.
  destruct (factory_ranges (MS P) (BS P) (map sc (map (score_pos P) ps))) as [|r0 rs] eqn:E.
  - destruct Hin as [<-|[]]. split; exact I.
  - apply in_map_iff in Hin. destruct Hin as (r & <- & Hr). apply range_segment_ends; [assumption..|]. rewrite E. exact Hr.
Qed.

Lemma first_pair_defined s : first_is_pair (positions s) -> seg_defined s.
Proof. unfold first_is_pair, seg_defined, seg_empty, aligned. destruct (positions s) as [|p t]; [discriminate|].
  intros Hp _. cbn [filter]. rewrite Hp. discriminate. Qed.

Lemma first_pair_has_pairs s : first_is_pair (positions s) -> positions s <> [] -> has_pairs s = true.
Proof. unfold first_is_pair, has_pairs, aligned. destruct (positions s) as [|p t]; [congruence|]. intros Hp _. cbn [filter]. rewrite Hp. reflexivity. Qed.

Lemma segs_for_peaks_in P reference query rev_ peaks : forall it s, In s (segs_for_peaks P it reference query peaks rev_) ->
  exists it' peak, In s (get_segments_for_peak P it' reference query peak rev_).
Proof. induction peaks as [|p t IH]; intros it s H; [destruct H|]. cbn [segs_for_peaks] in H. apply in_app_or in H. destruct H as [H|H].
  - exists it, p. exact H.
  - apply (IH _ _ H). Qed.

(* every segment handed to the chainer / resolver by Aligner.align begins and ends with a pair (or is empty) *)
Theorem aligner_segments_ends P it reference query peaks rev_ s : SU P <= 0 -> 0 < MS P ->
  In s (segs_for_peaks P it reference query peaks rev_) -> first_is_pair (positions s) /\ last_is_pair (positions s).
Proof. intros Hsu Hms H. destruct (segs_for_peaks_in _ _ _ _ _ _ _ H) as (it' & peak & H'). unfold get_segments_for_peak in H'.
  apply (factory_segment_ends P _ peak s Hsu Hms H'). Qed.

(* startPosition, endPosition, the chain's ordering key and the join score never raise on them *)
Theorem aligner_segments_defined P it reference query peaks rev_ s : SU P <= 0 -> 0 < MS P ->
  In s (segs_for_peaks P it reference query peaks rev_) ->
  seg_defined s /\ (exists a e, start_position s = Ok a /\ end_position s = Ok e) /\ order_key s = Ok (okey s).
Proof. intros Hsu Hms H. destruct (aligner_segments_ends P it reference query peaks rev_ s Hsu Hms H) as (Hf & _).
  pose proof (first_pair_defined s Hf) as Hd. split; [exact Hd|]. split; [apply seg_defined_positions; exact Hd | apply order_key_defined; exact Hd]. Qed.

(* SegmentChainer.chain never raises on the segments Aligner.align builds *)
Theorem aligner_chain_total P it reference query peaks rev_ : SU P <= 0 -> 0 < MS P ->
  exists c, chain P (segs_for_peaks P it reference query peaks rev_) = Ok c.
Proof. intros Hsu Hms.
  destruct (chain_sublist P (segs_for_peaks P it reference query peaks rev_)) as (c & Hc & _).
  - intros s Hs. apply (aligner_segments_defined P it reference query peaks rev_ s Hsu Hms Hs).
  - eexists. exact Hc. Qed.

(* ------------------------------------------------------------------------------------------------ B. slice: now total; when it raised *)
(* a position the trimming loop pops: not a pair and not lessOrEqualOnAnySequence(end) *)
Definition loose (e : pv) (p : spos) : bool := negb (is_pair p) && negb (le_any p e).
(* the positions slice keeps before trimming *)
Definition window (s : segment) (st en : pv) : list spos :=
  takewhile (fun p => negb (is_pair p) || le_any p en) (dropwhile (fun p => less_both p st) (positions s)).

(* AlignmentSegment.slice over Core.trim_rev_gen: fixed = true is the code as it is (= Core.slice), fixed = false the code before
   repair F8 (positions[-1] on the emptied list raised IndexError) *)
Definition slice_gen (fixed : bool) (s : segment) (st en : pv) : res segment :=
  let ps := takewhile (fun p => negb (is_pair p) || le_any p en) (dropwhile (fun p => less_both p st) (positions s)) in
  match ps with
  | [] => Ok (seg_create [] (speak s))
  | _ => do rl <- trim_rev_gen fixed (rev ps) en; Ok (seg_create (rev rl) (speak s))
  end.
Lemma trim_rev_gen_true rl e : trim_rev_gen true rl e = trim_rev rl e.
Proof. induction rl as [|p t IH]; [reflexivity|]. cbn [trim_rev_gen trim_rev]. rewrite IH. reflexivity. Qed.
Theorem slice_gen_true s st en : slice_gen true s st en = slice s st en.
Proof. unfold slice_gen, slice. destruct (takewhile _ _) as [|x t]; [reflexivity|]. rewrite trim_rev_gen_true. reflexivity. Qed.

(* the code as it is: the trimming loop stops on the empty list, slice never raises *)
Lemma trim_rev_total rl e : exists r, trim_rev rl e = Ok r.
Proof. induction rl as [|p t IH]; [eexists; reflexivity|]. cbn [trim_rev]. destruct (_ && _); [exact IH | eexists; reflexivity]. Qed.
Theorem slice_total s st en : exists r, slice s st en = Ok r.
Proof. unfold slice. destruct (takewhile _ _) as [|x t]; [eexists; reflexivity|].
  destruct (trim_rev_total (rev (x :: t)) en) as (r & ->). eexists; reflexivity. Qed.

(* before repair F8 *)
Lemma trim_rev_old_err rl e : trim_rev_gen false rl e = Err <-> forallb (loose e) rl = true.
Proof. induction rl as [|p t IH]; [split; reflexivity|]. cbn [trim_rev_gen forallb]. fold (loose e p).
  destruct (loose e p); cbn [andb]; [exact IH | split; discriminate]. Qed.

(* it raised exactly when the kept window is non-empty and consists only of poppable positions *)
Theorem slice_old_err_iff s st en : slice_gen false s st en = Err <-> window s st en <> [] /\ forallb (loose en) (window s st en) = true.
Proof. unfold slice_gen. fold (window s st en). destruct (window s st en) as [|x t] eqn:E.
  - split; [discriminate | intros [H _]; contradiction].
  - destruct (trim_rev_gen false (rev (x :: t)) en) as [rl|] eqn:Et; cbn [bind].
    + split; [discriminate|]. intros [_ H]. rewrite <- forallb_rev in H. apply trim_rev_old_err in H. congruence.
    + split; [|reflexivity]. intros _. split; [discriminate|]. rewrite <- forallb_rev. apply trim_rev_old_err. exact Et. Qed.

(* the repair changes nothing where the old code did not raise; where it raised, the code now returns the empty segment *)
Lemma trim_rev_old_agree rl e r : trim_rev_gen false rl e = Ok r -> trim_rev rl e = Ok r.
Proof. induction rl as [|p t IH]; [discriminate|]. cbn [trim_rev_gen trim_rev]. destruct (_ && _); [exact IH | exact (fun H => H)]. Qed.
Lemma trim_rev_old_err_now rl e : trim_rev_gen false rl e = Err -> trim_rev rl e = Ok [].
Proof. induction rl as [|p t IH]; [reflexivity|]. cbn [trim_rev_gen trim_rev]. destruct (_ && _); [exact IH | discriminate]. Qed.
Theorem slice_old_agree s st en r : slice_gen false s st en = Ok r -> slice s st en = Ok r.
Proof. unfold slice, slice_gen. destruct (takewhile _ _) as [|x t]; [exact (fun H => H)|].
  destruct (trim_rev_gen false (rev (x :: t)) en) as [rl|] eqn:E; [|discriminate]. rewrite (trim_rev_old_agree _ _ _ E). exact (fun H => H). Qed.
Theorem slice_old_err_now s st en : slice_gen false s st en = Err -> slice s st en = Ok (seg_create [] (speak s)).
Proof. unfold slice, slice_gen. destruct (takewhile _ _) as [|x t]; [discriminate|].
  destruct (trim_rev_gen false (rev (x :: t)) en) as [rl|] eqn:E; [discriminate|]. rewrite (trim_rev_old_err_now _ _ E). reflexivity. Qed.

Corollary slice_ok_if_kept s st en p : In p (window s st en) -> loose en p = false -> exists r, slice s st en = Ok r.
Proof. intros _ _. apply slice_total. Qed.

(* left member: it ends with a pair and every pair is lessOrEqualOnAnySequence(its own last pair) *)
Definition pairs_le_end (a : segment) : Prop :=
  forall ce, end_position a = Ok ce -> forall p, In p (positions a) -> is_pair p = true -> le_any p ce = true.

Lemma slice_left_ok a cs ce : last_is_pair (positions a) -> pairs_le_end a -> end_position a = Ok ce ->
  exists n, slice a cs ce = Ok (seg_create (skipn n (positions a)) (speak a)).
Proof.
  intros Hlast Hle Hce. unfold slice.
  destruct (dropwhile_skipn (fun p => less_both p cs) (positions a)) as (n & -> & Hn). exists n.
  rewrite takewhile_all.
  - destruct (skipn n (positions a)) as [|x t] eqn:E; [reflexivity|].
    pose proof (last_is_pair_skipn (positions a) n Hlast) as Hl. rewrite E in Hl. unfold last_is_pair in Hl.
    destruct (rev (x :: t)) as [|p r] eqn:Er; [apply (f_equal (@length _)) in Er; rewrite rev_length in Er; discriminate|].
    rewrite (trim_rev_pair p r ce Hl). cbn [bind]. rewrite <- Er, rev_involutive. reflexivity.
  - intros x Hx. destruct (is_pair x) eqn:Ep; [|reflexivity]. cbn. apply (Hle ce Hce x); [|exact Ep].
    rewrite <- (firstn_skipn n (positions a)). apply in_or_app. right. exact Hx.
Qed.

(* right member: it begins with a pair (its own startPosition), which the trimming loop can never pop *)
Lemma slice_right_ok b cs ce : first_is_pair (positions b) -> start_position b = Ok cs -> exists r, slice b cs ce = Ok r.
Proof.
  intros Hfirst Hcs. destruct (positions b) as [|p0 t] eqn:E.
  - exists (seg_create [] (speak b)). unfold slice. rewrite E. reflexivity.
  - assert (Hdw : dropwhile (fun p => less_both p cs) (positions b) = positions b).
    { rewrite E. cbn [dropwhile]. unfold start_position, seg_empty, aligned in Hcs. rewrite E in Hcs. cbn [filter] in Hcs.
      unfold first_is_pair in Hfirst. rewrite Hfirst in Hcs. injection Hcs as <-.
      unfold less_both, pv_of. unfold is_pair in Hfirst. destruct (ap p0) as [r q sft src| |]; try discriminate.
      rewrite pv_less_both_irrefl. reflexivity. }
    destruct (negb (is_pair p0) || le_any p0 ce) eqn:Ek.
    + apply (slice_ok_if_kept b cs ce p0).
      * unfold window. rewrite Hdw, E. cbn [takewhile]. rewrite Ek. left. reflexivity.
      * unfold loose. unfold first_is_pair in Hfirst. rewrite Hfirst. reflexivity.
    + exists (seg_create [] (speak b)). unfold slice. rewrite Hdw, E. cbn [takewhile]. rewrite Ek. reflexivity.
Qed.

(* C08, part 4: whole runs (Coordinator.multi_execute / program_run) in the output modes separate, joined and all,
   for EVERY seeding function, parameter set and maxDifference. *)
From Coq Require Import ZArith List Bool Lia Sorting.Permutation.
Import ListNotations.
Require Import Py PyProofs Pairing Core Multi Coordinator ModesProofs1 ModesProofs2 ModesProofs3 RowEq.
Open Scope Z_scope.

(* ---------- rows produced by a pass carry AlignedRest False ---------- *)
Lemma candidate_rows_rest P q sds : forall it r, candidate_rows P q sds it = Ok r -> Forall (fun w => rest w = false) (fst r).
Proof. induction sds as [|sd t IH]; intros it r H; cbn [candidate_rows] in H.
  - injection H as <-. constructor.
  - destruct (aligner_align P it (sd_ref sd) q (sd_peaks sd) (sd_rev sd)) as [segs|]; [|discriminate]. cbn [bind] in H.
    destruct (candidate_rows P q t (it + Z.of_nat (length (sd_peaks sd)))) as [r'|] eqn:E; [|discriminate]. cbn [bind] in H.
    injection H as <-. cbn [fst]. constructor; [reflexivity | apply (IH _ _ E)]. Qed.

Lemma best_alignment_in rows w : best_alignment rows = Some w -> In w rows.
Proof. unfold best_alignment. destruct (sort_by (fun w0 => - conf w0) rows) as [|x t] eqn:E; [discriminate|]. intros H. injection H as <-.
  apply (sort_by_in (fun w0 => - conf w0)). rewrite E. left. reflexivity. Qed.

Lemma align_query_rest P seeds refs q it r w : align_query P seeds refs q it = Ok r -> fst r = Some w -> rest w = false.
Proof. unfold align_query. destruct (seeds refs q) as [|sd sds]; intros H Hw.
  - injection H as <-. discriminate.
  - destruct (candidate_rows P q (sd :: sds) it) as [r'|] eqn:E; [|discriminate]. cbn [bind] in H. injection H as <-. cbn [fst] in Hw.
    apply best_alignment_in in Hw. pose proof (candidate_rows_rest _ _ _ _ _ E) as HF. rewrite Forall_forall in HF. apply HF. exact Hw. Qed.

Lemma execute_rest P seeds refs qs : forall it r, execute P seeds refs qs it = Ok r -> Forall (fun w => rest w = false) (fst r).
Proof. induction qs as [|q t IH]; intros it r H; cbn [execute] in H.
  - injection H as <-. constructor.
  - destruct (align_query P seeds refs q it) as [ra|] eqn:Ea; [|discriminate]. cbn [bind] in H.
    destruct (execute P seeds refs t (snd ra)) as [rt|] eqn:Et; [|discriminate]. cbn [bind] in H. injection H as <-. cbn [fst].
    specialize (IH _ _ Et). destruct (fst ra) as [w|] eqn:Ew; [|exact IH].
    destruct (row_has_pairs w); [|exact IH]. constructor; [apply (align_query_rest _ _ _ _ _ _ _ Ea Ew) | exact IH]. Qed.

(* ---------- the two passes, common to the three modes ---------- *)
Section Run.
Variables (P : params) (seeds : seeding) (refs qs : list omap).

Definition passes : res (list row * list row) :=
  do r1 <- execute P seeds refs qs 1;
  do frags <- all_fragments (fst r1) qs;
  do r2 <- execute P seeds refs frags (snd r1);
  Ok (filter_subsequent (fst r1), filter_subsequent (map set_rest (fst r2))).

Lemma multi_separate maxdiff : multi_execute P seeds Separate maxdiff refs qs = do p <- passes; Ok (mkOut (fst p) (Some (snd p)) None).
Proof. unfold multi_execute, passes. destruct (execute P seeds refs qs 1) as [r1|]; [|reflexivity]. cbn [bind].
  destruct (all_fragments (fst r1) qs) as [fr|]; [|reflexivity]. cbn [bind].
  destruct (execute P seeds refs fr (snd r1)) as [r2|]; reflexivity. Qed.
(* repair F12: `row not in filteredFirstPassRows` keeps every second-pass row in these modes (AlignedRest differs) *)
Lemma pass_rows_fresh r1 (r2 : list row * Z) : execute P seeds refs qs 1 = Ok r1 ->
  filter (fun w => negb (row_in w (filter_subsequent (fst r1)))) (filter_subsequent (map set_rest (fst r2))) =
  filter_subsequent (map set_rest (fst r2)).
Proof. intros E1. apply fresh_rows_rest; apply Forall_forall; intros w Hw; apply fs_in in Hw.
  - pose proof (execute_rest _ _ _ _ _ _ E1) as HF. rewrite Forall_forall in HF. apply HF. exact Hw.
  - apply in_map_iff in Hw. destruct Hw as (y & <- & _). reflexivity. Qed.
Lemma multi_joined maxdiff : multi_execute P seeds Joined maxdiff refs qs =
  do p <- passes; do js <- results_resolve (fst p ++ snd p) maxdiff; Ok (mkOut (fst js) (Some (snd js)) None).
Proof. unfold multi_execute, passes. destruct (execute P seeds refs qs 1) as [r1|] eqn:E1; [|reflexivity]. cbn [bind].
  destruct (all_fragments (fst r1) qs) as [fr|]; [|reflexivity]. cbn [bind].
  destruct (execute P seeds refs fr (snd r1)) as [r2|]; [|reflexivity]. cbn [bind fst snd].
  rewrite (pass_rows_fresh r1 r2 E1). reflexivity. Qed.
Lemma multi_all maxdiff : multi_execute P seeds All_ maxdiff refs qs =
  do p <- passes; do js <- results_resolve (fst p ++ snd p) maxdiff; Ok (mkOut (fst js) (Some (fst p)) (Some (snd p))).
Proof. unfold multi_execute, passes. destruct (execute P seeds refs qs 1) as [r1|] eqn:E1; [|reflexivity]. cbn [bind].
  destruct (all_fragments (fst r1) qs) as [fr|]; [|reflexivity]. cbn [bind].
  destruct (execute P seeds refs fr (snd r1)) as [r2|]; [|reflexivity]. cbn [bind fst snd].
  rewrite (pass_rows_fresh r1 r2 E1). reflexivity. Qed.

Lemma passes_spec f1 f2 : passes = Ok (f1, f2) ->
  ssorted qid f1 /\ ssorted qid f2 /\ Forall (fun w => rest w = false) f1 /\ Forall (fun w => rest w = true) f2.
Proof. unfold passes. destruct (execute P seeds refs qs 1) as [r1|] eqn:E1; [|discriminate]. cbn [bind].
  destruct (all_fragments (fst r1) qs) as [fr|]; [|discriminate]. cbn [bind].
  destruct (execute P seeds refs fr (snd r1)) as [r2|] eqn:E2; [|discriminate]. cbn [bind]. intros H. injection H as <- <-.
  split; [apply fs_sorted|]. split; [apply fs_sorted|]. split; apply Forall_forall; intros w Hw; apply fs_in in Hw.
  - pose proof (execute_rest _ _ _ _ _ _ E1) as HF. rewrite Forall_forall in HF. apply HF. exact Hw.
  - apply in_map_iff in Hw. destruct Hw as (y & <- & _). reflexivity. Qed.

(* ---------- C08_modes: the three modes report the same alignments ---------- *)
Theorem modes_agree maxdiff :
  match program_run P seeds Separate maxdiff refs qs with
  | Err => program_run P seeds Joined maxdiff refs qs = Err /\ program_run P seeds All_ maxdiff refs qs = Err
  | Ok s => exists f1 f2, s = mkOut f1 (Some f2) None /\
      match results_resolve (f1 ++ f2) maxdiff with
      | Err => program_run P seeds Joined maxdiff refs qs = Err /\ program_run P seeds All_ maxdiff refs qs = Err
      | Ok js =>
          program_run P seeds Joined maxdiff refs qs = Ok (mkOut (filter_subsequent (fst js)) (Some (snd js)) None) /\
          program_run P seeds All_ maxdiff refs qs = Ok (mkOut (filter_subsequent (fst js)) (Some f1) (Some f2))
      end
  end.
Proof. unfold program_run. rewrite multi_separate, multi_joined, multi_all.
  destruct passes as [[f1 f2]|] eqn:Ep; cbn [bind fst snd o_main o_1 o_2]; [|split; reflexivity].
  destruct (passes_spec f1 f2 Ep) as (S1 & _). rewrite (fs_fixed f1 S1). exists f1, f2. split; [reflexivity|].
  destruct (results_resolve (f1 ++ f2) maxdiff) as [js|]; cbn [bind o_main o_1 o_2]; split; reflexivity. Qed.

(* the first- and second-pass files do not depend on maxDifference *)
Theorem separate_ignores_maxdiff d d' : program_run P seeds Separate d refs qs = program_run P seeds Separate d' refs qs.
Proof. unfold program_run. rewrite !multi_separate. reflexivity. Qed.

(* ---------- everything about a successful run in mode `all` ---------- *)
Lemma Forall2_with_left {A B} (R : A -> B -> Prop) (Q : A -> Prop) l1 l2 :
  Forall2 R l1 l2 -> Forall Q l1 -> Forall2 (fun x y => Q x /\ R x y) l1 l2.
Proof. induction 1 as [|x y l1 l2 Hxy _ IH]; intros HQ; [constructor|]. inversion HQ; subst. constructor; [split; assumption | apply IH; assumption]. Qed.
Lemma F2_weaken {A B} (R R' : A -> B -> Prop) l1 l2 : (forall x y, R x y -> R' x y) -> Forall2 R l1 l2 -> Forall2 R' l1 l2.
Proof. intros H. induction 1; constructor; auto. Qed.
Lemma Forall2_map_eq {A B C} (f : A -> C) (g : B -> C) l1 l2 : Forall2 (fun x y => g y = f x) l1 l2 -> map g l2 = map f l1.
Proof. induction 1 as [|x y l1 l2 E _ IH]; [reflexivity|]. cbn. rewrite E, IH. reflexivity. Qed.

(* what justifies one joined row j made from the first-pass row a and the second-pass row b *)
Definition justified (maxdiff : Z) (f1 f2 : list row) (p : row * row) (j : row) : Prop :=
  let a := fst p in let b := snd p in
  In a f1 /\ In b f2 /\ rest a = false /\ rest b = true /\
  qid a = qid b /\ rid a = rid b /\ rrev a = rrev b /\ Z.abs (Z.max (rs a) (rs b) - Z.min (re a) (re b)) <= maxdiff /\
  join_rows a b = Ok j /\ joined_ok j = true /\
  qid j = qid a /\ rid j = rid a /\ rrev j = rrev a /\ rest j = false /\
  (forall x, In x (row_pairs (rsegs j)) -> In x (row_pairs (rsegs a)) \/ In x (row_pairs (rsegs b))).

Theorem all_mode_run maxdiff o : program_run P seeds All_ maxdiff refs qs = Ok o ->
  exists f1 f2 joined sep parts,
    o = mkOut (filter_subsequent joined) (Some f1) (Some f2) /\
    program_run P seeds Joined maxdiff refs qs = Ok (mkOut (filter_subsequent joined) (Some sep) None) /\
    program_run P seeds Separate maxdiff refs qs = Ok (mkOut f1 (Some f2) None) /\
    ssorted qid f1 /\ ssorted qid f2 /\
    Forall (fun w => rest w = false) f1 /\ Forall (fun w => rest w = true) f2 /\
    NoDup (map qid joined) /\ Permutation (filter_subsequent joined) joined /\
    Forall2 (justified maxdiff f1 f2) parts joined /\
    Permutation (f1 ++ f2) (sep ++ flat_parts parts).
Proof.
  intros H. pose proof (modes_agree maxdiff) as M.
  destruct (program_run P seeds Separate maxdiff refs qs) as [s|] eqn:Es; [|destruct M as (_ & M); congruence].
  destruct M as (f1 & f2 & -> & M).
  assert (Ep : passes = Ok (f1, f2)).
  { unfold program_run in Es. rewrite multi_separate in Es. destruct passes as [[g1 g2]|] eqn:Ep; [|discriminate].
    cbn [bind fst snd o_main o_1 o_2] in Es. destruct (passes_spec g1 g2 Ep) as (S1 & _). rewrite (fs_fixed g1 S1) in Es. congruence. }
  destruct (passes_spec f1 f2 Ep) as (S1 & S2 & R1 & R2).
  destruct (results_resolve (f1 ++ f2) maxdiff) as [[joined sep]|] eqn:Er; [|destruct M as (_ & M); congruence].
  cbn [fst snd] in M. destruct M as (MJ & MA). rewrite MA in H. injection H as <-.
  pose proof (ssorted_nodup qid f1 S1) as N1. pose proof (ssorted_nodup qid f2 S2) as N2.
  destruct (results_resolve_partition f1 f2 maxdiff joined sep N1 N2 Er) as (parts & HF2 & HF & HP).
  assert (HJ : Forall2 (justified maxdiff f1 f2) parts joined).
  { eapply F2_weaken; [|exact (Forall2_with_left _ _ _ _ HF2 HF)]. cbv beta. intros p j X.
    destruct X as ((Ia & Ib & Eq & Erid) & Ho & Ej & Ek). destruct (check_overlap_spec _ _ _ Ho) as (Ev & _ & Hgap).
    destruct (join_rows_header _ _ _ Ej) as (J1 & J2 & _ & _ & J5 & J6). rewrite Forall_forall in R1, R2.
    unfold justified. cbn zeta. repeat split; try assumption; [apply R1; exact Ia | apply R2; exact Ib | apply (join_rows_subset _ _ _ Ej)]. }
  assert (NJ : NoDup (map qid joined)).
  { rewrite (Forall2_map_eq (fun p : row * row => qid (fst p)) qid parts joined).
    - apply (parts_distinct_queries f1 f2 sep parts N1 N2); [|exact HP]. apply Forall_forall. intros p Hp. rewrite Forall_forall in HF. apply (HF p Hp).
    - eapply F2_weaken; [|exact HJ]. cbv beta. intros p j X. unfold justified in X. cbn zeta in X. tauto. }
  exists f1, f2, joined, sep, parts. repeat split; try assumption. apply fs_distinct_perm. exact NJ.
Qed.
End Run.

(* ---------- corollaries in the shape of the property clauses ---------- *)
Theorem rest_flags P seeds maxdiff refs qs o : program_run P seeds All_ maxdiff refs qs = Ok o ->
  exists f1 f2, o_1 o = Some f1 /\ o_2 o = Some f2 /\
    Forall (fun w => rest w = false) f1 /\ Forall (fun w => rest w = true) f2 /\ Forall (fun w => rest w = false) (o_main o).
Proof. intros H. destruct (all_mode_run P seeds refs qs maxdiff o H) as (f1 & f2 & joined & sep & parts & -> & _ & _ & _ & _ & R1 & R2 & _ & _ & HJ & _).
  exists f1, f2. repeat split; try assumption. cbn [o_main]. apply Forall_forall. intros w Hw. apply fs_in in Hw.
  clear - HJ Hw. induction HJ as [|p j parts joined X _ IH]; [destruct Hw|]. destruct Hw as [<-|Hw]; [|apply IH; exact Hw].
  unfold justified in X. cbn zeta in X. tauto. Qed.

(* a joined row of AlignmentResults.resolve on ANY row list comes from the first two members of a group that pass the guard *)
Lemma resolve_groups_joined maxdiff gs : forall joined sep, resolve_groups maxdiff gs = Ok (joined, sep) ->
  forall j, In j joined -> exists x y t, In (x :: y :: t) gs /\ check_overlap x y maxdiff = true /\ join_rows x y = Ok j /\ joined_ok j = true.
Proof. induction gs as [|g gs IH]; intros joined sep H j Hj; cbn [resolve_groups] in H.
  - injection H as <- <-. destruct Hj.
  - destruct (resolve_groups maxdiff gs) as [[jt st]|] eqn:Et; [|discriminate]. cbn [bind] in H.
    assert (Hrec : In j jt -> exists x y t, In (x :: y :: t) (g :: gs) /\ check_overlap x y maxdiff = true /\ join_rows x y = Ok j /\ joined_ok j = true).
    { intros Hin. destruct (IH jt st eq_refl j Hin) as (x & y & t & Hg & Ho & Ej & Ek). exists x, y, t. split; [right; exact Hg | repeat split; assumption]. }
    destruct g as [|x [|y t]]; cbn [fst snd] in H.
    + injection H as <- <-. apply Hrec. exact Hj.
    + injection H as <- <-. apply Hrec. exact Hj.
    + destruct (check_overlap x y maxdiff) eqn:Eo.
      * destruct (join_rows x y) as [j'|] eqn:Ej; [|discriminate]. cbn [bind fst snd] in H.
        destruct (joined_ok j') eqn:Ek; injection H as <- <-; [|apply Hrec; exact Hj].
        destruct Hj as [<-|Hj]; [|apply Hrec; exact Hj]. exists x, y, t. split; [left; reflexivity | repeat split; assumption].
      * cbn [fst snd] in H. injection H as <- <-. apply Hrec. exact Hj. Qed.

(* the groups that are NOT joined keep all their members in `separate`: single-member groups, groups whose first two members fail the
   guard, and (repair F9) groups whose first two members pass the guard but whose join has no pair *)
Definition not_joined (maxdiff : Z) (g : list row) : Prop :=
  match g with
  | x :: y :: _ => check_overlap x y maxdiff = false \/ exists j, join_rows x y = Ok j /\ joined_ok j = false
  | _ => True
  end.
Lemma resolve_groups_separate maxdiff gs : forall joined sep, resolve_groups maxdiff gs = Ok (joined, sep) ->
  forall g, In g gs -> not_joined maxdiff g -> incl g sep.
Proof. induction gs as [|g0 gs IH]; intros joined sep H g Hg Hn; [destruct Hg|]. cbn [resolve_groups] in H.
  destruct (resolve_groups maxdiff gs) as [[jt st]|] eqn:Et; [|discriminate]. cbn [bind] in H.
  assert (Hrec : In g gs -> incl g st) by (intros Hin; apply (IH jt st eq_refl g Hin Hn)).
  assert (Hmono : incl st sep).
  { destruct g0 as [|x [|y t]]; cbn [fst snd] in H.
    - injection H as <- <-. apply incl_refl.
    - injection H as <- <-. apply incl_tl, incl_refl.
    - destruct (check_overlap x y maxdiff); [destruct (join_rows x y) as [j'|]; [|discriminate]; cbn [bind fst snd] in H; destruct (joined_ok j')|];
        injection H as <- <-; try apply incl_refl; change (x :: y :: t ++ st) with ((x :: y :: t) ++ st); apply (incl_appr (x :: y :: t)), incl_refl. }
  destruct Hg as [->|Hg]; [|intros w Hw; apply Hmono, (Hrec Hg w Hw)].
  destruct g as [|x [|y t]]; cbn [fst snd] in H.
  - intros w [].
  - injection H as <- <-. intros w [<-|[]]. left. reflexivity.
  - cbn [not_joined] in Hn. destruct (check_overlap x y maxdiff) eqn:Eo.
    + destruct Hn as [Hn|(j & Ej & Ek)]; [discriminate|]. rewrite Ej in H. cbn [bind fst snd] in H. rewrite Ek in H.
      injection H as <- <-. change (x :: y :: t ++ st) with ((x :: y :: t) ++ st). apply (incl_appl st), incl_refl.
    + injection H as <- <-. change (x :: y :: t ++ st) with ((x :: y :: t) ++ st). apply (incl_appl st), incl_refl. Qed.
Theorem unjoined_group_separate rows maxdiff joined sep g : results_resolve rows maxdiff = Ok (joined, sep) ->
  In g (groups_of rows) -> not_joined maxdiff g -> incl g sep.
Proof. rewrite results_resolve_unfold. intros H. apply (resolve_groups_separate _ _ _ _ H). Qed.

Theorem join_guard rows maxdiff joined sep j : results_resolve rows maxdiff = Ok (joined, sep) -> In j joined ->
  exists a b, In a rows /\ In b rows /\ qid a = qid b /\ rid a = rid b /\ rrev a = rrev b /\
    Z.abs (Z.max (rs a) (rs b) - Z.min (re a) (re b)) <= maxdiff /\ join_rows a b = Ok j /\ joined_ok j = true.
Proof. rewrite results_resolve_unfold. intros H Hj. destruct (resolve_groups_joined _ _ _ _ H j Hj) as (x & y & t & Hg & Ho & Ej & Ek).
  destruct (groups_are_filters rows _ Hg) as (_ & r & c & E).
  assert (Hin : forall w, In w (x :: y :: t) -> In w rows /\ qid w = c /\ rid w = r).
  { intros w Hw. rewrite E in Hw. apply filter_In in Hw. destruct Hw as (Hw & Ec). apply filter_In in Hw. destruct Hw as (Hw & Er).
    apply Z.eqb_eq in Ec, Er. repeat split; assumption. }
  destruct (Hin x (or_introl eq_refl)) as (Ix & Qx & Rx). destruct (Hin y (or_intror (or_introl eq_refl))) as (Iy & Qy & Ry).
  destruct (check_overlap_spec _ _ _ Ho) as (Ev & _ & Hgap). exists x, y. repeat split; try assumption; congruence. Qed.

(* The executable seeding stage (model/Seeding.v): provenance of the seeds.  seeds_model proposes only reference maps it was given
   (RunProofs2.seeds_ok), so every run-level theorem proved for an arbitrary seeding function instantiates for program_run_full. *)
From Coq Require Import ZArith QArith List Bool Lia.
Import ListNotations.
Require Import Py Vec Peaks Correlate SeqFast Pairing Core Multi Coordinator FindPeaks Seeding RunProofs2.
Open Scope Z_scope.

Lemma primary_from_ref sp ref rev fl cq l : primary_from sp ref rev fl cq = Ok l -> forall p, In p l -> pp_ref p = ref /\ pp_rev p = rev.
Proof. unfold primary_from. destruct (peak_distance (min_dist sp) (res1 sp)) as [d|]; [|discriminate]. cbn [bind].
  destruct (cut_top qleb (pcount sp) _) as [|k t]; intros H; injection H as <-; [intros p []|].
  intros p [<-|Hp]; [split; reflexivity|]. apply in_map_iff in Hp. destruct Hp as (kh & <- & _). split; reflexivity. Qed.

Lemma primary_peaks_ref sp ref q rev l : primary_peaks sp ref q rev = Ok l -> forall p, In p l -> pp_ref p = ref /\ pp_rev p = rev.
Proof. unfold primary_peaks. destruct (initial_correlation_f _ _ _ _ _ _ _) as [[[c n2]|]|]; cbn [bind]; [|intros H; injection H as <-; intros p []|discriminate].
  apply primary_from_ref. Qed.

Lemma all_primary_refs sp q : forall refs l, all_primary sp refs q = Ok l -> forall p, In p l -> In (pp_ref p) refs.
Proof. induction refs as [|r t IH]; intros l H p Hp; cbn [all_primary] in H; [injection H as <-; destruct Hp|].
  destruct (primary_peaks sp r q false) as [f|] eqn:Ef; [|discriminate]. cbn [bind] in H.
  destruct (primary_peaks sp r q true) as [v|] eqn:Ev; [|discriminate]. cbn [bind] in H.
  destruct (all_primary sp t q) as [rest|] eqn:Er; [|discriminate]. cbn [bind] in H. injection H as <-.
  apply in_app_or in Hp. destruct Hp as [Hp|Hp]; [left; symmetry; apply (primary_peaks_ref _ _ _ _ _ Ef p Hp)|].
  apply in_app_or in Hp. destruct Hp as [Hp|Hp]; [left; symmetry; apply (primary_peaks_ref _ _ _ _ _ Ev p Hp)|]. right. apply (IH rest eq_refl p Hp). Qed.

Lemma ins_sdesc_in x l p : In p (ins_sdesc x l) <-> p = x \/ In p l.
Proof. induction l as [|y t IH]; cbn [ins_sdesc]; [cbn; intuition|]. destruct (score_leb y x); cbn [In]; [intuition|]. rewrite IH. intuition. Qed.
Lemma by_score_in l p : In p (by_score l) <-> In p l.
Proof. unfold by_score. induction l as [|x t IH]; cbn [fold_right]; [reflexivity|]. rewrite ins_sdesc_in, IH. cbn [In]. intuition. Qed.
Lemma by_score_length l : length (by_score l) = length l.
Proof. unfold by_score. induction l as [|x t IH]; cbn [fold_right]; [reflexivity|]. cbn [length]. rewrite <- IH. generalize (fold_right ins_sdesc [] t). intros m.
  induction m as [|y u IHm]; cbn [ins_sdesc]; [reflexivity|]. destruct (score_leb y x); cbn [length]; [reflexivity|]. rewrite IHm. reflexivity. Qed.

(* PeaksSelector: at most peaksCount peaks, all of them primary peaks that were found, and min(peaksCount, found) of them *)
Lemma select_primary_in sp l p : In p (select_primary sp l) -> In p l.
Proof. unfold select_primary. intros H. apply by_score_in. revert H. generalize (by_score l) (pcount sp). intros m n. revert m.
  induction n as [|n IH]; intros m H; [destruct H|]. destruct m as [|y u]; [destruct H|]. destruct H as [->|H]; [left; reflexivity | right; apply IH, H]. Qed.
Lemma select_primary_length sp l : length (select_primary sp l) = Nat.min (pcount sp) (length l).
Proof. unfold select_primary. rewrite firstn_length, by_score_length. reflexivity. Qed.

Lemma refine_all_refs sp q : forall l sds, refine_all sp q l = Ok sds ->
  length sds = length l /\ forall sd, In sd sds -> exists p, In p l /\ sd_ref sd = pp_ref p /\ sd_rev sd = pp_rev p /\ refine_peaks sp q p = Ok (sd_peaks sd).
Proof. induction l as [|p t IH]; intros sds H; cbn [refine_all] in H; [injection H as <-; split; [reflexivity | intros sd []]|].
  destruct (refine_peaks sp q p) as [pk|] eqn:Ep; [|discriminate]. cbn [bind] in H. destruct (refine_all sp q t) as [rest|]; [|discriminate].
  cbn [bind] in H. injection H as <-. destruct (IH rest eq_refl) as (Hl & Hi). split; [cbn [length]; rewrite Hl; reflexivity|].
  intros sd [<-|Hsd]; [exists p; cbn; repeat split; [left; reflexivity | exact Ep]|].
  destruct (Hi sd Hsd) as (p' & Hp' & H1 & H2 & H3). exists p'. repeat split; [right; exact Hp' | exact H1 | exact H2 | exact H3]. Qed.

(* every seed of the executable seeding stage is on a reference that was given; at most peaksCount seeds *)
Theorem seeds_res_spec sp refs q sds : seeds_res sp refs q = Ok sds ->
  (length sds <= pcount sp)%nat /\ forall sd, In sd sds -> In (sd_ref sd) refs.
Proof. unfold seeds_res. destruct (all_primary sp refs q) as [all|] eqn:Ea; [|discriminate]. cbn [bind]. intros H.
  destruct (refine_all_refs sp q _ _ H) as (Hl & Hi). split; [rewrite Hl, select_primary_length; apply Nat.le_min_l|].
  intros sd Hsd. destruct (Hi sd Hsd) as (p & Hp & -> & _). apply (all_primary_refs sp q refs all Ea p). apply (select_primary_in sp all p Hp). Qed.

Theorem seeds_model_ok sp refs : seeds_ok refs (seeds_model sp).
Proof. intros q sd. unfold seeds_model. destruct (seeds_res sp refs q) as [l|] eqn:E; [|intros []]. intros H. apply (proj2 (seeds_res_spec sp refs q l E) sd H). Qed.

(* the run with the executable seeding stage never raises (instance of RunProofs2.run_total) *)
Theorem run_full_total P sp m maxdiff refs qq : SU P <= 0 -> 0 < MS P ->
  (forall r, In r refs -> ascending r) -> (forall q, In q qq -> trimmed q) -> NoDup (map mid qq) ->
  exists o, program_run_full P sp m maxdiff refs qq = Ok o.
Proof. intros Hsu Hms Hr Hq Hn. apply (run_total P (seeds_model sp) m maxdiff refs qq Hsu Hms (seeds_model_ok sp refs) Hr Hq Hn). Qed.


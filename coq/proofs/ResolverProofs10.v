(* C15/C01, part 10: Aligner.align — the segments of several peaks, chained and resolved. *)
From Coq Require Import ZArith QArith List Bool Lia Sorting.Sorted Sorting.Permutation.
Import ListNotations.
Require Import Py Pairing Core PyProofs ConflictProofs DPProofs
  ResolverProofs1 ResolverProofs2 ResolverProofs3 ResolverProofs4 ResolverProofs5 ResolverProofs6 ResolverProofs7 ResolverProofs8 ResolverProofs9.
Open Scope Z_scope.

Definition engine_ok (P : params) (reference query : omap) : Prop :=
  0 <= DMAX P /\ 0 < MS P /\ SU P <= 0 /\ StronglySorted Z.lt (mpositions reference) /\ StronglySorted Z.lt (mpositions query).

Theorem aligner_align_subrun P it reference query peaks reverse out : engine_ok P reference query ->
  aligner_align P it reference query peaks reverse = Ok out ->
  let segs := segs_for_peaks P it reference query peaks reverse in
  ((length segs < 2)%nat /\ out = segs) \/
  exists pre sel, Permutation pre (filter (fun s => negb (seg_empty s)) segs) /\ Sub sel pre /\ adjacent (admissible P) sel /\
    (pre <> [] -> sel <> []) /\ chain P segs = Ok (sel ++ filter seg_empty segs) /\
    Forall2 subrun_of (sel ++ filter seg_empty segs) out.
Proof.
  intros (Hd & Hms & Hsu & HR & HQ) H segs. unfold aligner_align in H.
  apply (resolve_conflicts_subrun (strand reverse) P segs out); [| |exact H].
  - intros s Hs. apply (segs_for_peaks_wf P reference query reverse Hd Hms Hsu HR HQ peaks it s Hs).
  - intros s s' Hs Hs'. apply (segs_for_peaks_coherent P reference query reverse Hd Hms Hsu HR HQ peaks it s s' Hs Hs').
Qed.

Theorem aligner_align_disjoint_if_adjacent P it reference query peaks reverse out : engine_ok P reference query ->
  aligner_align P it reference query peaks reverse = Ok out ->
  let segs := segs_for_peaks P it reference query peaks reverse in
  (forall sel, adjacent (admissible P) sel -> chain P segs = Ok (sel ++ filter seg_empty segs) -> adjacent_resolutions_separate sel) ->
  segments_disjoint (strand reverse) out.
Proof.
  intros (Hd & Hms & Hsu & HR & HQ) H segs Hadj. unfold aligner_align in H.
  apply (resolve_conflicts_disjoint_if_adjacent (strand reverse) P segs out); [| |exact H|exact Hadj].
  - intros s Hs. apply (segs_for_peaks_wf P reference query reverse Hd Hms Hsu HR HQ peaks it s Hs).
  - intros s s' Hs Hs'. apply (segs_for_peaks_coherent P reference query reverse Hd Hms Hsu HR HQ peaks it s s' Hs Hs').
Qed.
Print Assumptions aligner_align_subrun.
Print Assumptions aligner_align_disjoint_if_adjacent.

From Coq Require Import ZArith List Bool Lia Sorting.Permutation Sorting.Sorted.
Import ListNotations.
Require Import Py PyProofs Pairing PairingProofs1.
Open Scope Z_scope.

(* ---------- generic list facts ---------- *)
Lemma SS_in_cases {A} (R : A -> A -> Prop) l a b : StronglySorted R l -> In a l -> In b l -> a = b \/ R a b \/ R b a.
Proof. induction 1 as [|x t Ht IH Hx]; intros Ha Hb; [destruct Ha|]. rewrite Forall_forall in Hx.
  destruct Ha as [<-|Ha], Hb as [<-|Hb]; auto. Qed.

Lemma SS_weaken {A} (R R' : A -> A -> Prop) l : (forall a b, R a b -> R' a b) -> StronglySorted R l -> StronglySorted R' l.
Proof. intros HRR. induction 1 as [|x t Ht IH Hx]; constructor; [exact IH|]. rewrite Forall_forall in *. intros y Hy. apply HRR, Hx, Hy. Qed.

Lemma SS_filter {A} (R : A -> A -> Prop) (p : A -> bool) l : StronglySorted R l -> StronglySorted R (filter p l).
Proof. induction 1 as [|x t Ht IH Hx]; cbn; [constructor|]. destruct (p x); [|exact IH].
  constructor; [exact IH|]. rewrite Forall_forall in *. intros y Hy. apply filter_In in Hy. apply Hx. tauto. Qed.

Lemma SS_map {A B} (f : A -> B) (R : B -> B -> Prop) l : StronglySorted (fun a b => R (f a) (f b)) l -> StronglySorted R (map f l).
Proof. induction 1 as [|x t Ht IH Hx]; cbn; constructor; [exact IH|]. rewrite Forall_forall in *. intros y Hy.
  apply in_map_iff in Hy. destruct Hy as (z & <- & Hz). apply Hx. exact Hz. Qed.

(* takewhile/dropwhile on a position-sorted list is a range filter *)
Section Range.
Variable lo hi : Z.
Definition inrange (q : label) : bool := (lo <=? lpos q) && (lpos q <=? hi).
Lemma takewhile_filter (l : list label) : StronglySorted (fun a b => lpos a <= lpos b) l ->
  (forall x, In x l -> lo <= lpos x) -> takewhile (fun q => lpos q <=? hi) l = filter inrange l.
Proof. induction 1 as [|x t Ht IH Hx]; intros Hlo; [reflexivity|]. cbn [takewhile filter]. unfold inrange at 1.
  pose proof (Hlo x (or_introl eq_refl)) as Hx0. rewrite Forall_forall in Hx.
  destruct (lpos x <=? hi) eqn:E.
  - replace (lo <=? lpos x) with true by (symmetry; apply Z.leb_le; lia). cbn. f_equal. apply IH. intros; apply Hlo; right; assumption.
  - rewrite andb_false_r. apply Z.leb_gt in E. symmetry. apply filter_none. intros y Hy. unfold inrange.
    specialize (Hx y Hy). replace (lpos y <=? hi) with false by (symmetry; apply Z.leb_gt; lia). apply andb_false_r. Qed.
Lemma range_filter (l : list label) : StronglySorted (fun a b => lpos a <= lpos b) l ->
  takewhile (fun q => lpos q <=? hi) (dropwhile (fun q => lpos q <? lo) l) = filter inrange l.
Proof. induction 1 as [|x t Ht IH Hx]; [reflexivity|]. cbn [dropwhile filter]. rewrite Forall_forall in Hx.
  destruct (lpos x <? lo) eqn:E.
  - apply Z.ltb_lt in E. unfold inrange at 1. replace (lo <=? lpos x) with false by (symmetry; apply Z.leb_gt; lia). cbn. exact IH.
  - apply Z.ltb_ge in E. change (if inrange x then x :: filter inrange t else filter inrange t) with (filter inrange (x :: t)).
    apply takewhile_filter; [constructor; [exact Ht | rewrite Forall_forall; exact Hx]|].
    intros y [<-|Hy]; [lia | specialize (Hx y Hy); lia]. Qed.
End Range.

Lemma label_eq_dec (a b : label) : {a = b} + {a <> b}.
Proof. decide equality; apply Z.eq_dec. Qed.

(* ---------- the candidate list ---------- *)
Section Pairing.
Variables (d start dir : Z) (R Q : list label).
Hypothesis Hd : 0 <= d.
Hypothesis HR : StronglySorted (fun a b => site a < site b /\ lpos a <= lpos b) R.
Hypothesis HQ : StronglySorted (fun a b => 0 < dir * (site b - site a) /\ lpos a <= lpos b) Q.

Lemma HQpos : StronglySorted (fun a b => lpos a <= lpos b) Q.
Proof. apply (SS_weaken _ _ Q (fun a b H => proj2 H) HQ). Qed.

Definition adj (r : label) : Z := lpos r - start.
Definition cands := aligned_pairs d R Q start.
Definition within (r q : label) : Prop := Z.abs (lpos q - adj r) <= d.

Lemma cands_unfold : cands = flat_map (fun r => map (fun q => mkCand r q (lpos q - adj r)) (filter (inrange (adj r - d) (adj r + d)) Q)) R.
Proof. unfold cands, aligned_pairs. apply flat_map_ext. intros r. cbn zeta. fold (adj r).
  rewrite (range_filter (adj r - d) (adj r + d) Q HQpos). reflexivity. Qed.

Lemma cands_in c : In c cands <-> In (cr c) R /\ In (cq c) Q /\ within (cr c) (cq c) /\ cshift c = lpos (cq c) - adj (cr c).
Proof. rewrite cands_unfold, in_flat_map. unfold within. split.
  - intros (r & Hr & Hc). apply in_map_iff in Hc. destruct Hc as (q & <- & Hq). apply filter_In in Hq. destruct Hq as (Hq & Hin).
    unfold inrange in Hin. apply andb_true_iff in Hin. destruct Hin as (H1 & H2). apply Z.leb_le in H1, H2. cbn. repeat split; try assumption. lia.
  - intros (Hr & Hq & Hw & Hs). exists (cr c). split; [exact Hr|]. apply in_map_iff. exists (cq c). split.
    + destruct c as [r q s]; cbn in *. subst s. reflexivity.
    + apply filter_In. split; [exact Hq|]. unfold inrange. apply andb_true_iff. split; apply Z.leb_le; lia. Qed.

Definition rsite (c : cand) := site (cr c).
Definition qsite (c : cand) := site (cq c).
Definition P1 := dedup_by qsite cands.
Definition P := dedup_by rsite P1.
Lemma deduplicate_unfold : deduplicate cands = P. Proof. reflexivity. Qed.

Lemma P1_in c : In c P1 -> In c cands. Proof. intros H. apply (dedup_in qsite cands c H). Qed.
Lemma P_in_P1 c : In c P -> In c P1. Proof. intros H. apply (dedup_in rsite P1 c H). Qed.

(* sites identify labels *)
Lemma R_site_inj a b : In a R -> In b R -> site a = site b -> a = b.
Proof. intros Ha Hb E. destruct (SS_in_cases _ R a b HR Ha Hb) as [H|[H|H]]; [exact H | lia | lia]. Qed.
Lemma Q_site_inj a b : In a Q -> In b Q -> site a = site b -> a = b.
Proof. intros Ha Hb E. destruct (SS_in_cases _ Q a b HQ Ha Hb) as [H|[H|H]]; [exact H | |]; destruct H as (H & _); rewrite E in H; lia. Qed.

(* a candidate is determined by its two labels *)
Lemma cand_eq c c' : In c cands -> In c' cands -> cr c = cr c' -> cq c = cq c' -> c = c'.
Proof. intros H H' Er Eq. apply cands_in in H, H'. destruct c, c'; cbn in *. subst. f_equal. lia. Qed.

(* ---------- group order used by the first-minimum tie break ---------- *)
Lemma filter_flat_map {A B} (p : B -> bool) (f : A -> list B) l : filter p (flat_map f l) = flat_map (fun x => filter p (f x)) l.
Proof. induction l as [|x t IH]; [reflexivity|]. cbn. rewrite filter_app, IH. reflexivity. Qed.

Lemma Q_filter_site (c : Z) (l : list label) : StronglySorted (fun a b => 0 < dir * (site b - site a) /\ lpos a <= lpos b) l ->
  (length (filter (fun q => (site q =? c)%Z) l) <= 1)%nat.
Proof. induction 1 as [|x t Ht IH Hx]; cbn; [lia|]. destruct (site x =? c) eqn:E; [|exact IH]. apply Z.eqb_eq in E.
  rewrite filter_none; [cbn; lia|]. rewrite Forall_forall in Hx. intros y Hy. apply Z.eqb_neq. specialize (Hx y Hy). destruct Hx as (Hx & _). intros E2. rewrite E, E2 in Hx. lia. Qed.

Lemma group1_sorted c : StronglySorted (fun a b => rsite a < rsite b) (filter (fun y => qsite y =? c) cands).
Proof.
  rewrite cands_unfold, filter_flat_map.
  assert (Hpiece : forall r, exists l, filter (fun y => qsite y =? c) (map (fun q => mkCand r q (lpos q - adj r)) (filter (inrange (adj r - d) (adj r + d)) Q)) = l
                               /\ (length l <= 1)%nat /\ forall y, In y l -> rsite y = site r).
  { intros r. eexists. split; [reflexivity|]. split.
    - induction (filter (inrange (adj r - d) (adj r + d)) Q) as [|q t IH] eqn:E in |- *; [cbn; lia|].
      clear IH. rewrite <- E. clear E q t.
      assert (E : forall l', filter (fun y => qsite y =? c) (map (fun q => mkCand r q (lpos q - adj r)) l') = map (fun q => mkCand r q (lpos q - adj r)) (filter (fun q => site q =? c) l')).
      { induction l' as [|q t IH]; [reflexivity|]. cbn. unfold qsite at 1. cbn. destruct (site q =? c); cbn; rewrite IH; reflexivity. }
      rewrite E, map_length. apply Q_filter_site. apply SS_filter. exact HQ.
    - intros y Hy. apply filter_In in Hy. destruct Hy as (Hy & _). apply in_map_iff in Hy. destruct Hy as (q & <- & _). reflexivity. }
  assert (G : forall Rl, StronglySorted (fun a b => site a < site b /\ lpos a <= lpos b) Rl ->
             StronglySorted (fun a b => rsite a < rsite b)
               (flat_map (fun x => filter (fun y => qsite y =? c) (map (fun q => mkCand x q (lpos q - adj x)) (filter (inrange (adj x - d) (adj x + d)) Q))) Rl)).
  { clear - Hpiece. induction 1 as [|r t Ht IH Hr]; cbn [flat_map]; [constructor|].
    destruct (Hpiece r) as (l & -> & Hlen & Hkey). rewrite Forall_forall in Hr.
    assert (Hlater : forall y, In y (flat_map (fun x => filter (fun y => qsite y =? c) (map (fun q => mkCand x q (lpos q - adj x)) (filter (inrange (adj x - d) (adj x + d)) Q))) t) -> site r < rsite y).
    { intros y Hy. apply in_flat_map in Hy. destruct Hy as (r' & Hr' & Hy). destruct (Hpiece r') as (l' & E' & _ & Hkey'). rewrite E' in Hy. rewrite (Hkey' y Hy). apply (Hr r' Hr'). }
    destruct l as [|x [|x' l']]; cbn [app]; [exact IH | | cbn in Hlen; lia].
    constructor; [exact IH|]. rewrite Forall_forall. intros y Hy. rewrite (Hkey x (or_introl eq_refl)). apply Hlater. exact Hy. }
  apply G. exact HR.
Qed.

Lemma SS_map_inv {A} (f : A -> Z) l : StronglySorted Z.lt (map f l) -> StronglySorted (fun a b => f a < f b) l.
Proof. induction l as [|x t IH]; intros H; [constructor|]. cbn in H. inversion H as [|? ? Ht Hx]; subst. constructor; [apply IH; exact Ht|].
  rewrite Forall_forall in *. intros y Hy. apply Hx. apply in_map. exact Hy. Qed.

Lemma P1_qsorted : StronglySorted (fun a b => qsite a < qsite b) P1.
Proof. apply SS_map_inv. apply dedup_keys_sorted. Qed.
Lemma P_rsorted : StronglySorted (fun a b => rsite a < rsite b) P.
Proof. apply SS_map_inv. apply dedup_keys_sorted. Qed.
Lemma group2_sorted c : StronglySorted (fun a b => qsite a < qsite b) (filter (fun y => rsite y =? c) P1).
Proof. apply SS_filter, P1_qsorted. Qed.

(* ---------- order preservation (the midpoint argument) ---------- *)
Lemma R_order r1 r2 : In r1 R -> In r2 R -> site r1 < site r2 -> lpos r1 <= lpos r2.
Proof. intros H1 H2 Hs. destruct (SS_in_cases _ R r1 r2 HR H1 H2) as [->|[H|H]]; lia. Qed.

Theorem P1_monotone c1 c2 : In c1 P1 -> In c2 P1 -> rsite c1 < rsite c2 -> lpos (cq c1) < lpos (cq c2).
Proof.
  intros H1 H2 Hs. unfold rsite in Hs.
  pose proof (P1_in _ H1) as Hc1. pose proof (P1_in _ H2) as Hc2.
  apply cands_in in Hc1, Hc2. destruct Hc1 as (Hr1 & Hq1 & Hw1 & Hs1), Hc2 as (Hr2 & Hq2 & Hw2 & Hs2).
  pose proof (R_order _ _ Hr1 Hr2 Hs) as Ha. unfold within, adj in *.
  destruct (Z_lt_le_dec (lpos (cq c1)) (lpos (cq c2))) as [Hlt|Hge]; [exact Hlt|exfalso].
  (* crossing candidates exist *)
  set (c21 := mkCand (cr c2) (cq c1) (lpos (cq c1) - (lpos (cr c2) - start))).
  set (c12 := mkCand (cr c1) (cq c2) (lpos (cq c2) - (lpos (cr c1) - start))).
  assert (Hc21 : In c21 cands) by (apply cands_in; cbn; unfold within, adj; repeat split; try assumption; lia).
  assert (Hc12 : In c12 cands) by (apply cands_in; cbn; unfold within, adj; repeat split; try assumption; lia).
  destruct (dedup_in qsite cands c1 H1) as (_ & Hmin1). destruct (dedup_in qsite cands c2 H2) as (_ & Hmin2).
  pose proof (Hmin1 c21 Hc21 eq_refl) as M1. pose proof (Hmin2 c12 Hc12 eq_refl) as M2.
  unfold ashift in M1, M2. cbn in M1, M2. rewrite Hs1 in M1. rewrite Hs2 in M2. unfold adj in *.
  assert (M2' : Z.abs (lpos (cq c2) - (lpos (cr c2) - start)) <> Z.abs (lpos (cq c2) - (lpos (cr c1) - start))).
  { intros E. pose proof (dedup_first qsite cands rsite group1_sorted c2 c12 H2 Hc12 eq_refl) as F.
    unfold ashift in F. cbn in F. rewrite Hs2 in F. unfold adj in F. specialize (F (eq_sym E)). unfold rsite in F. cbn in F. lia. }
  lia.
Qed.

Theorem P_monotone_pos c1 c2 : In c1 P -> In c2 P -> rsite c1 < rsite c2 -> lpos (cq c1) < lpos (cq c2).
Proof. intros H1 H2. apply P1_monotone; apply P_in_P1; assumption. Qed.

Theorem P_monotone_site c1 c2 : In c1 P -> In c2 P -> rsite c1 < rsite c2 -> 0 < dir * (qsite c2 - qsite c1).
Proof.
  intros H1 H2 Hs. pose proof (P_monotone_pos c1 c2 H1 H2 Hs) as Hp.
  pose proof (P1_in _ (P_in_P1 _ H1)) as Hc1. pose proof (P1_in _ (P_in_P1 _ H2)) as Hc2. apply cands_in in Hc1, Hc2.
  destruct Hc1 as (_ & Hq1 & _), Hc2 as (_ & Hq2 & _).
  destruct (SS_in_cases _ Q (cq c1) (cq c2) HQ Hq1 Hq2) as [E|[H|H]].
  - rewrite E in Hp. lia.
  - unfold qsite. apply H.
  - destruct H as (_ & H). lia.
Qed.

Theorem P_within c : In c P -> In (cr c) R /\ In (cq c) Q /\ cshift c = lpos (cq c) - (lpos (cr c) - start) /\ Z.abs (cshift c) <= d.
Proof. intros H. pose proof (P1_in _ (P_in_P1 _ H)) as Hc. apply cands_in in Hc. unfold within, adj in Hc.
  destruct Hc as (H1 & H2 & H3 & H4). repeat split; try assumption. rewrite H4. exact H3. Qed.

(* ---------- mutual strict nearest neighbours are paired ---------- *)
Theorem P_mutual_nearest r q : In r R -> In q Q -> within r q ->
  (forall q', In q' Q -> q' <> q -> Z.abs (lpos q - adj r) < Z.abs (lpos q' - adj r)) ->
  (forall r', In r' R -> r' <> r -> Z.abs (lpos q - adj r) < Z.abs (lpos q - adj r')) ->
  In (mkCand r q (lpos q - adj r)) P.
Proof.
  intros Hr Hq Hw Hnq Hnr. set (c := mkCand r q (lpos q - adj r)).
  assert (Hc : In c cands) by (apply cands_in; cbn; auto).
  assert (Hc1 : In c P1).
  { destruct (dedup_cover qsite cands c Hc) as (x & Hx & Hk). pose proof (P1_in _ Hx) as Hxc. pose proof Hxc as Hxc'. apply cands_in in Hxc'.
    destruct Hxc' as (Hxr & Hxq & _ & Hxs). unfold qsite in Hk. cbn in Hk. pose proof (Q_site_inj _ _ Hxq Hq Hk) as Eq.
    destruct (dedup_in qsite cands x Hx) as (_ & Hmin). specialize (Hmin c Hc (eq_sym Hk)). unfold ashift in Hmin. cbn in Hmin. rewrite Hxs, Eq in Hmin.
    assert (Er : cr x = r). { destruct (label_eq_dec (cr x) r) as [E|N]; [exact E|]. specialize (Hnr _ Hxr N). lia. }
    rewrite <- (cand_eq x c Hxc Hc Er Eq). exact Hx. }
  destruct (dedup_cover rsite P1 c Hc1) as (y & Hy & Hk). pose proof (P1_in _ (P_in_P1 _ Hy)) as Hyc. pose proof Hyc as Hyc'. apply cands_in in Hyc'.
  destruct Hyc' as (Hyr & Hyq & _ & Hys). unfold rsite in Hk. cbn in Hk. pose proof (R_site_inj _ _ Hyr Hr Hk) as Er.
  destruct (dedup_in rsite P1 y Hy) as (_ & Hmin). specialize (Hmin c Hc1 (eq_sym Hk)). unfold ashift in Hmin. cbn in Hmin. rewrite Hys, Er in Hmin.
  assert (Eq : cq y = q). { destruct (label_eq_dec (cq y) q) as [E|N]; [exact E|]. specialize (Hnq _ Hyq N). lia. }
  rewrite <- (cand_eq y c Hyc Hc Er Eq). exact Hy.
Qed.
End Pairing.

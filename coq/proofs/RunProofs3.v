(* Whole-run lift, part 3: which rows reach which output file, the generic lift of a per-candidate property to every non-joined
   output row, and C01 (valid matching of existing labels of the reference and of the WHOLE query) for them. *)
From Coq Require Import ZArith QArith List Bool Lia Sorting.Sorted Sorting.Permutation.
Import ListNotations.
Require Import Py PyProofs Pairing Core Cigar Multi Coordinator DPProofs Checkers CheckersProofs
  ResolverProofs1 ResolverProofs3 ResolverProofs9 ResolverProofs10 ResolverProofs14 RecordProofs1 RowProofs RowProofs2
  BestProofs2 ModesProofs1 ModesProofs2 ModesProofs4 RunProofs1 RunProofs2.
Open Scope Z_scope.

(* ------------------------------------------------------------------------------------------------ outputs *)
Definition opt_rows (o : option (list row)) : list row := match o with Some l => l | None => [] end.
Definition out_rows (o : outputs) : list row := o_main o ++ opt_rows (o_1 o) ++ opt_rows (o_2 o).

Lemma resolve_groups_sep_in maxdiff gs : forall joined sep, resolve_groups maxdiff gs = Ok (joined, sep) ->
  forall w, In w sep -> exists g, In g gs /\ In w g.
Proof. induction gs as [|g gs IH]; intros joined sep H w Hw; cbn [resolve_groups] in H.
  - injection H as <- <-. destruct Hw.
  - destruct (resolve_groups maxdiff gs) as [[jt st]|] eqn:Et; [|discriminate]. cbn [bind] in H.
    assert (Hrec : In w st -> exists g', In g' (g :: gs) /\ In w g').
    { intros Hin. destruct (IH jt st eq_refl w Hin) as (g' & Hg' & Hwg). exists g'. split; [right; exact Hg' | exact Hwg]. }
    assert (Hhere : In w g -> exists g', In g' (g :: gs) /\ In w g') by (intros Hin; exists g; split; [left; reflexivity | exact Hin]).
    destruct g as [|x [|y t]]; cbn [fst snd] in H.
    + injection H as <- <-. apply Hrec. exact Hw.
    + injection H as <- <-. destruct Hw as [<-|Hw]; [apply Hhere; left; reflexivity | apply Hrec; exact Hw].
    + destruct (check_overlap x y maxdiff).
      * destruct (join_rows x y) as [j'|]; [|discriminate]. cbn [bind fst snd] in H. destruct (joined_ok j'); injection H as <- <-; [apply Hrec; exact Hw|].
        change (x :: y :: t ++ st) with ((x :: y :: t) ++ st) in Hw. apply in_app_or in Hw. destruct Hw as [Hw|Hw]; [apply Hhere; exact Hw | apply Hrec; exact Hw].
      * cbn [fst snd] in H. injection H as <- <-. change (x :: y :: t ++ st) with ((x :: y :: t) ++ st) in Hw. apply in_app_or in Hw. destruct Hw as [Hw|Hw]; [apply Hhere; exact Hw | apply Hrec; exact Hw].
Qed.
Lemma results_resolve_sep_in rows maxdiff joined sep : results_resolve rows maxdiff = Ok (joined, sep) -> forall w, In w sep -> In w rows.
Proof. rewrite results_resolve_unfold. intros H w Hw. destruct (resolve_groups_sep_in _ _ _ _ H w Hw) as (g & Hg & Hwg). apply (groups_members rows g w Hg Hwg). Qed.

(* a row AlignmentResults.resolve built with AlignmentResultRow.resolve from two of the rows it was given *)
Definition joined_from (rows : list row) (j : row) : Prop := exists a b, In a rows /\ In b rows /\ join_rows a b = Ok j.

Section Lift.
Variables (P : params) (seeds : seeding) (refs qq : list omap) (m : mode) (maxdiff : Z) (o : outputs).
Hypothesis Hrun : program_run P seeds m maxdiff refs qq = Ok o.

(* every row of every output file is a row of the two passes or a joined row; joined rows occur in the main file only; which file
   holds what, per mode *)
Theorem program_run_rows : exists f1 f2, run_passes P seeds refs m qq = Ok (f1, f2) /\
  (forall w, In w (o_main o) -> In w (f1 ++ f2) \/ (m <> Separate /\ joined_from (f1 ++ f2) w)) /\
  (forall w, In w (opt_rows (o_1 o) ++ opt_rows (o_2 o)) -> In w (f1 ++ f2)) /\
  match m with
  | Separate => o = mkOut f1 (Some f2) None
  | All_ => o_1 o = Some f1 /\ o_2 o = Some f2 /\ forall w, In w (o_main o) -> joined_from (f1 ++ f2) w
  | Joined => o_2 o = None /\ (exists sep, o_1 o = Some sep) /\ forall w, In w (o_main o) -> joined_from (f1 ++ f2) w
  | Best => o_1 o = None /\ o_2 o = None
  end.
Proof.
  unfold program_run in Hrun. rewrite multi_execute_passes in Hrun.
  destruct (run_passes P seeds refs m qq) as [[f1 f2]|] eqn:Ep; [|discriminate]. cbn [bind] in Hrun. exists f1, f2. split; [reflexivity|].
  unfold finish in Hrun. cbn [fst snd] in Hrun.
  (* repair F12: resolve receives f1 ++ [row for row in f2 if row not in f1], a sub-list of f1 ++ f2 *)
  set (rows' := f1 ++ filter (fun w => negb (row_in w f1)) f2) in *.
  assert (Hincl : forall w, In w rows' -> In w (f1 ++ f2)).
  { intros w Hw. unfold rows' in Hw. apply in_app_or in Hw. apply in_or_app. destruct Hw as [Hw|Hw]; [left; exact Hw | right; apply filter_In in Hw; apply Hw]. }
  assert (Hj : forall joined sep, results_resolve rows' maxdiff = Ok (joined, sep) -> forall w, In w joined -> joined_from (f1 ++ f2) w).
  { intros joined sep E w Hw. destruct (join_guard _ _ _ _ w E Hw) as (a & b & Ha & Hb & _ & _ & _ & _ & Ej & _). exists a, b.
    repeat split; [apply Hincl; exact Ha | apply Hincl; exact Hb | exact Ej]. }
  destruct m.
  - (* best *)
    destruct (results_resolve rows' maxdiff) as [[joined sep]|] eqn:Er; [|discriminate]. cbn [bind fst snd o_main o_1 o_2] in Hrun. injection Hrun as <-.
    cbn [o_main o_1 o_2 opt_rows app]. split; [|split; [intros w []|split; reflexivity]].
    intros w Hw. apply ModesProofs1.fs_in in Hw. apply sort_by_in in Hw. apply in_app_or in Hw. destruct Hw as [Hw|Hw].
    + right. split; [discriminate | apply (Hj joined sep eq_refl w Hw)].
    + left. apply filter_In in Hw. apply in_or_app. left. apply Hw.
  - (* separate *)
    cbn [bind o_main o_1 o_2] in Hrun. injection Hrun as <-. cbn [o_main o_1 o_2 opt_rows].
    assert (Ef : filter_subsequent f1 = f1).
    { unfold run_passes in Ep. destruct (execute P seeds refs qq 1) as [r1|]; [|discriminate]. cbn [bind] in Ep.
      destruct (all_fragments (fst r1) qq) as [fr|]; [|discriminate]. cbn [bind] in Ep.
      destruct (execute P seeds refs fr (snd r1)) as [r2|]; [|discriminate]. cbn [bind] in Ep. injection Ep as <- <-. apply ModesProofs1.fs_idem. }
    rewrite Ef. split; [intros w Hw; left; apply in_or_app; left; exact Hw|]. split; [|reflexivity].
    intros w Hw. rewrite app_nil_r in Hw. apply in_or_app. right. exact Hw.
  - (* joined *)
    destruct (results_resolve rows' maxdiff) as [[joined sep]|] eqn:Er; [|discriminate]. cbn [bind fst snd o_main o_1 o_2] in Hrun. injection Hrun as <-.
    cbn [o_main o_1 o_2 opt_rows].
    assert (Hm : forall w, In w (filter_subsequent joined) -> joined_from (f1 ++ f2) w) by (intros w Hw; apply ModesProofs1.fs_in in Hw; apply (Hj joined sep eq_refl w Hw)).
    split; [intros w Hw; right; split; [discriminate | apply Hm; exact Hw]|]. split; [|split; [reflexivity | split; [eexists; reflexivity | exact Hm]]].
    intros w Hw. rewrite app_nil_r in Hw. apply Hincl. apply (results_resolve_sep_in _ _ _ _ Er w Hw).
  - (* all *)
    destruct (results_resolve rows' maxdiff) as [[joined sep]|] eqn:Er; [|discriminate]. cbn [bind fst snd o_main o_1 o_2] in Hrun. injection Hrun as <-.
    cbn [o_main o_1 o_2 opt_rows].
    assert (Hm : forall w, In w (filter_subsequent joined) -> joined_from (f1 ++ f2) w) by (intros w Hw; apply ModesProofs1.fs_in in Hw; apply (Hj joined sep eq_refl w Hw)).
    split; [intros w Hw; right; split; [discriminate | apply Hm; exact Hw]|]. split; [intros w Hw; exact Hw|]. split; [reflexivity | split; [reflexivity | exact Hm]].
Qed.

(* the generic lift: a property Q of every row the two passes deliver holds for every output row that is not a joined row —
   all rows of `separate`, the _1/_2 files of `all`, the _1 file of `joined`; every main-file row of any mode has Q or is the
   AlignmentResultRow.resolve of two rows that have Q *)
Theorem program_run_lift (Q : row -> Prop) :
  (forall f1 f2, run_passes P seeds refs m qq = Ok (f1, f2) -> forall w, In w (f1 ++ f2) -> Q w) ->
  (forall w, In w (opt_rows (o_1 o) ++ opt_rows (o_2 o)) -> Q w) /\
  (forall w, In w (o_main o) -> Q w \/ (m <> Separate /\ exists a b, Q a /\ Q b /\ join_rows a b = Ok w)) /\
  (m = Separate -> forall w, In w (out_rows o) -> Q w).
Proof.
  intros HQ. destruct program_run_rows as (f1 & f2 & Ep & Hmain & Hadd & Hmode). specialize (HQ f1 f2 Ep).
  split; [intros w Hw; apply HQ, Hadd, Hw|]. split.
  - intros w Hw. destruct (Hmain w Hw) as [H|(Hne & a & b & Ha & Hb & Ej)]; [left; apply HQ, H|]. right. split; [exact Hne|]. exists a, b. split; [apply HQ, Ha|]. split; [apply HQ, Hb | exact Ej].
  - intros -> w Hw. unfold out_rows in Hw. apply in_app_or in Hw. destruct Hw as [Hw|Hw]; [|apply HQ, Hadd, Hw].
    destruct (Hmain w Hw) as [H|(Hne & _)]; [apply HQ, H | congruence].
Qed.
End Lift.

(* ------------------------------------------------------------------------------------------------ C01 for one candidate, any label-number offset *)
Lemma valid_row_from_disjoint nref qlo qhi rev_ segs :
  segments_disjoint (strand_dir rev_) segs ->
  (forall p, In p (row_pairs segs) -> 1 <= rsite_of p <= nref /\ qlo <= qsite_of p <= qhi) -> row_pairs segs <> [] ->
  valid_row nref qlo qhi rev_ (row_sites (row_pairs segs)).
Proof.
  intros H Hr Hne. split; [|split].
  - unfold row_sites. intros E. apply map_eq_nil in E. contradiction.
  - apply Forall_forall. intros x Hx. unfold row_sites in Hx. apply in_map_iff in Hx. destruct Hx as (p & <- & Hp). unfold in_range. cbn [fst snd]. apply Hr. exact Hp.
  - change (if rev_ then -1 else 1) with (strand_dir rev_). apply SS_pair_lt_valid. apply disjoint_dirb_spec in H. unfold disjoint_dirb in H.
    apply (adjb_SS (pair_ltb (strand_dir rev_)) (pair_lt (strand_dir rev_)) _ (pair_ltb_spec _) (pair_lt_trans _)) in H. exact H.
Qed.

(* generalisation of RowProofs2.aligner_row_valid from mshift query = 0 to any offset: the query label numbers of the row lie in
   1 + mshift query .. mshift query + (number of labels of query) *)
Theorem aligner_row_valid_shift P it reference query peaks reverse out : engine_ok P reference query -> qry_in_range query ->
  mshift reference = 0 -> aligner_align P it reference query peaks reverse = Ok out -> row_pairs out <> [] ->
  valid_row (nlabels reference) (1 + mshift query) (mshift query + nlabels query) reverse (row_sites (row_pairs out)).
Proof.
  intros Hok Hrange Hsr H Hne.
  apply (valid_row_from_disjoint _ _ _ reverse out); [apply (aligner_align_disjoint P it reference query peaks reverse out Hok Hrange H) | | exact Hne].
  intros p Hp. destruct (aligner_pair_labels P it reference query peaks reverse out p Hok H Hp) as (r & q & sh & src & Ep & Hr & Hq).
  unfold rsite_of, qsite_of, pv_of. rewrite Ep. cbn [pr pq].
  pose proof (ref_label_site reference r Hr). pose proof (qry_label_site query reverse q Hq). unfold nlabels. lia.
Qed.

Lemma valid_row_widen nref qlo qhi qlo' qhi' rev_ ps : qlo' <= qlo -> qhi <= qhi' -> valid_row nref qlo qhi rev_ ps -> valid_row nref qlo' qhi' rev_ ps.
Proof. intros H1 H2 (A & B & C). split; [exact A|]. split; [|exact C]. eapply Forall_impl; [|exact B]. unfold in_range. intros x. lia. Qed.

(* ------------------------------------------------------------------------------------------------ trimmed queries and their fragments *)
Lemma SS_lt_bounds l d : StronglySorted Z.lt l -> forall p, In p l -> hd d l <= p <= last l d.
Proof. induction 1 as [|x t Ht IH Hx]; intros p Hp; [destruct Hp|]. rewrite Forall_forall in Hx. cbn [hd].
  destruct t as [|y t']; [destruct Hp as [<-|[]]; cbn; lia|]. change (last (x :: y :: t') d) with (last (y :: t') d).
  assert (Hy : y <= last (y :: t') d) by (apply (IH y); left; reflexivity). specialize (Hx y (or_introl eq_refl)).
  destruct Hp as [<-|Hp]; [lia|]. specialize (IH p Hp). cbn [hd] in IH. lia. Qed.

Lemma trimmed_in_range q : trimmed q -> qry_in_range q.
Proof. intros (_ & Ha & _ & Hh & Hl) p Hp. pose proof (SS_lt_bounds _ 0 Ha p Hp). lia. Qed.

Lemma fragment_in_range q f : qry_in_range q -> fragment_of q f -> qry_in_range f.
Proof. intros Hq Hf. destruct (fragment_positions q f Hf) as (sh & n & ->). intros p Hp. unfold fragment_at in *. cbn [mpositions mlen] in *.
  apply Hq. apply (in_firstn_skipn p n sh). exact Hp. Qed.

(* the label numbers of a fragment are label numbers of the whole query *)
Lemma fragment_numbers q f : mshift q = 0 -> fragment_of q f -> 0 <= mshift f /\ mshift f + nlabels f <= nlabels q.
Proof. intros E Hf. unfold nlabels. destruct Hf as [(n & ->)|(sh & Hsh & ->)]; unfold fragment_at; cbn [mshift mpositions]; rewrite firstn_length, skipn_length; lia. Qed.

Lemma fragment_header q f : fragment_of q f -> mid f = mid q /\ mlen f = mlen q.
Proof. intros Hf. destruct (fragment_positions q f Hf) as (sh & n & ->). split; reflexivity. Qed.

(* ------------------------------------------------------------------------------------------------ C01 for the rows of a run *)
Definition reference_ok (r : omap) : Prop := mshift r = 0 /\ ascending r.

(* the record's pairs are a one-to-one collinear matching of labels 1..n of reference r (RefContigID) and labels 1..n of the WHOLE
   query q (QryContigID) *)
Definition valid_run_row (refs qq : list omap) (w : row) : Prop :=
  exists r q, In r refs /\ In q qq /\ rid w = mid r /\ qid w = mid q /\
    valid_row (nlabels r) 1 (nlabels q) (rrev w) (row_sites (row_pairs (rsegs w))).

Section RunValid.
Variables (P : params) (seeds : seeding) (refs qq : list omap).
Hypothesis Hsu : SU P <= 0.
Hypothesis Hms : 0 < MS P.
Hypothesis Hseeds : seeds_ok refs seeds.
Hypothesis Hrefs : forall r, In r refs -> reference_ok r.
Hypothesis Hqq : forall q, In q qq -> trimmed q.

Lemma refs_ascending r : In r refs -> ascending r. Proof. intros H. apply (Hrefs r H). Qed.

(* sharper: the query label numbers lie in the range of the map the row was aligned on (the query, or its fragment) *)
Theorem run_row_valid_sharp w : run_row P seeds refs qq w ->
  exists r q', In r refs /\ src_map qq q' /\ rid w = mid r /\ qid w = mid q' /\
    valid_row (nlabels r) (1 + mshift q') (mshift q' + nlabels q') (rrev w) (row_sites (row_pairs (rsegs w))).
Proof.
  intros (Hp & q' & Hsrc & sd & it & w0 & Hsd & Hc & Hw).
  assert (Hasc : ascending q') by (apply (src_map_ascending qq q'); [intros q Hq; apply (Hqq q Hq) | exact Hsrc]).
  assert (Hp0 : row_has_pairs w0 = true) by (destruct Hw as [->| ->]; exact Hp).
  pose proof (cand_engine_ok P seeds refs Hsu Hms Hseeds refs_ascending q' sd it w0 Hasc Hsd Hc Hp0) as Hok.
  assert (Hrange : qry_in_range q').
  { destruct Hsrc as [Hq|(q & Hq & Hf)]; [apply trimmed_in_range, (Hqq _ Hq) | apply (fragment_in_range q q' (trimmed_in_range q (Hqq q Hq)) Hf)]. }
  pose proof (Hseeds q' sd Hsd) as Hr. destruct Hc as (segs & Ha & E0).
  exists (sd_ref sd), q'. split; [exact Hr|]. split; [exact Hsrc|].
  assert (Ew : rsegs w = segs /\ rid w = mid (sd_ref sd) /\ qid w = mid q' /\ rrev w = sd_rev sd) by (destruct Hw as [->| ->]; rewrite E0; repeat split).
  destruct Ew as (-> & -> & -> & ->). split; [reflexivity|]. split; [reflexivity|].
  apply (aligner_row_valid_shift P it (sd_ref sd) q' (sd_peaks sd) (sd_rev sd) segs Hok Hrange (proj1 (Hrefs _ Hr)) Ha).
  apply row_has_pairs_spec in Hp0. rewrite E0 in Hp0. exact Hp0.
Qed.

Theorem run_row_valid w : run_row P seeds refs qq w -> valid_run_row refs qq w.
Proof.
  intros H. destruct (run_row_valid_sharp w H) as (r & q' & Hr & Hsrc & Er & Eq & Hv). destruct Hsrc as [Hq|(q & Hq & Hf)].
  - exists r, q'. repeat (split; [assumption|]). destruct (Hqq q' Hq) as (E & _). rewrite E in Hv. exact Hv.
  - exists r, q. split; [exact Hr|]. split; [exact Hq|]. split; [exact Er|]. destruct (fragment_header q q' Hf) as (Em & _). split; [congruence|].
    destruct (Hqq q Hq) as (E & _). destruct (fragment_numbers q q' E Hf) as (N1 & N2). apply (valid_row_widen _ (1 + mshift q') (mshift q' + nlabels q')); [lia | lia | exact Hv].
Qed.

Theorem run_rows_valid m maxdiff o : NoDup (map mid qq) -> program_run P seeds m maxdiff refs qq = Ok o ->
  (forall w, In w (opt_rows (o_1 o) ++ opt_rows (o_2 o)) -> valid_run_row refs qq w) /\
  (forall w, In w (o_main o) -> valid_run_row refs qq w \/
     (m <> Separate /\ exists a b, valid_run_row refs qq a /\ valid_run_row refs qq b /\ join_rows a b = Ok w)) /\
  (m = Separate -> forall w, In w (out_rows o) -> valid_run_row refs qq w).
Proof.
  intros Hids Hrun. apply (program_run_lift P seeds refs qq m maxdiff o Hrun). intros f1 f2 Ep w Hw. apply run_row_valid.
  apply (run_passes_rows P seeds refs Hsu Hms Hseeds refs_ascending qq (fun q Hq => proj1 (proj2 (Hqq q Hq))) Hids m f1 f2 Ep w Hw).
Qed.
End RunValid.
Print Assumptions run_rows_valid.

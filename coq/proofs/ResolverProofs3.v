(* C15, part 3: the verified checker "no two segments share a reference or query label or cross",
   and the verified row checker used by C01. *)
From Coq Require Import ZArith QArith List Bool Lia Sorting.Sorted Sorting.Permutation.
Import ListNotations.
Require Import Py Pairing Core Cigar PyProofs ConflictProofs DPProofs ResolverProofs1.
Open Scope Z_scope.

(* ---------- adjacent check = all-pairs check for a transitive relation ---------- *)
Fixpoint adjb {A} (R : A -> A -> bool) (l : list A) : bool :=
  match l with x :: (y :: _) as t => R x y && adjb R t | _ => true end.

Lemma adjb_SS {A} (Rb : A -> A -> bool) (R : A -> A -> Prop) l :
  (forall x y, Rb x y = true <-> R x y) -> (forall x y z, R x y -> R y z -> R x z) ->
  (adjb Rb l = true <-> StronglySorted R l).
Proof.
  intros Hb Htr. induction l as [|x t IH]; [split; [constructor | reflexivity]|].
  destruct t as [|y t']; [split; [repeat constructor | reflexivity]|].
  change (adjb Rb (x :: y :: t')) with (Rb x y && adjb Rb (y :: t')). rewrite andb_true_iff, IH, Hb. split.
  - intros (Hxy & Hs). constructor; [exact Hs|]. constructor; [exact Hxy|]. apply StronglySorted_inv in Hs. destruct Hs as (_ & Hy).
    rewrite Forall_forall in *. intros z Hz. apply (Htr x y z Hxy (Hy z Hz)).
  - intros Hs. apply StronglySorted_inv in Hs. destruct Hs as (Hs & Hx). split; [|exact Hs]. rewrite Forall_forall in Hx. apply Hx. left. reflexivity. Qed.

Lemma SS_app_intro {A} (R : A -> A -> Prop) l1 l2 : StronglySorted R l1 -> StronglySorted R l2 ->
  (forall x y, In x l1 -> In y l2 -> R x y) -> StronglySorted R (l1 ++ l2).
Proof. induction 1 as [|a l1 Hs IH Ha]; intros H2 Hc; [exact H2|]. cbn. constructor.
  - apply IH; [exact H2|]. intros x y Hx Hy. apply Hc; [right; exact Hx | exact Hy].
  - rewrite Forall_forall in *. intros y Hy. apply in_app_or in Hy. destruct Hy as [Hy|Hy]; [apply Ha; exact Hy | apply Hc; [left; reflexivity | exact Hy]]. Qed.

Lemma SS_flat_map {A B} (R : B -> B -> Prop) (f : A -> list B) l :
  StronglySorted R (flat_map f l) <->
  (forall x, In x l -> StronglySorted R (f x)) /\
  (forall i j xi xj p p', (i < j)%nat -> nth_error l i = Some xi -> nth_error l j = Some xj -> In p (f xi) -> In p' (f xj) -> R p p').
Proof.
  induction l as [|a l IH]; cbn [flat_map].
  - split; [intros _; split; [intros x [] | intros [|i] j ? ? ? ? _ H; discriminate] | intros _; constructor].
  - split.
    + intros H. destruct (SS_app_inv _ _ _ H) as (H1 & H2 & H3). apply IH in H2. destruct H2 as (H2a & H2b). split.
      * intros x [<-|Hx]; [exact H1 | apply H2a; exact Hx].
      * intros [|i] [|j] xi xj p p' Hij Hi Hj Hp Hp'; try lia; cbn in Hi, Hj.
        -- injection Hi as <-. apply H3; [exact Hp|]. apply in_flat_map. exists xj. split; [apply (nth_error_In _ _ Hj) | exact Hp'].
        -- apply (H2b i j xi xj p p'); try assumption; lia.
    + intros (Ha & Hb). apply SS_app_intro.
      * apply Ha. left. reflexivity.
      * apply IH. split; [intros x Hx; apply Ha; right; exact Hx|]. intros i j xi xj p p' Hij Hi Hj. apply (Hb (S i) (S j) xi xj p p'); [lia | exact Hi | exact Hj].
      * intros x y Hx Hy. apply in_flat_map in Hy. destruct Hy as (xj & Hxj & Hy). apply In_nth_error in Hxj. destruct Hxj as (j & Hj).
        apply (Hb 0%nat (S j) a xj x y); [lia | reflexivity | exact Hj | exact Hx | exact Hy]. Qed.

(* ---------- the order between two aligned pairs ---------- *)
Definition rsite_of (p : spos) : Z := site (pr (pv_of p)).
Definition rpos_of (p : spos) : Z := lpos (pr (pv_of p)).
Definition qsite_of (p : spos) : Z := site (pq (pv_of p)).
Definition qpos_of (p : spos) : Z := lpos (pq (pv_of p)).
(* x strictly before y: reference site and position ascending, query position ascending, query site moving in direction dir *)
Definition pair_lt (dir : Z) (x y : spos) : Prop :=
  rsite_of x < rsite_of y /\ rpos_of x < rpos_of y /\ 0 < dir * (qsite_of y - qsite_of x) /\ qpos_of x < qpos_of y.
Definition pair_ltb (dir : Z) (x y : spos) : bool :=
  (rsite_of x <? rsite_of y) && (rpos_of x <? rpos_of y) && (0 <? dir * (qsite_of y - qsite_of x)) && (qpos_of x <? qpos_of y).
Lemma pair_ltb_spec dir x y : pair_ltb dir x y = true <-> pair_lt dir x y.
Proof. unfold pair_ltb, pair_lt. rewrite !andb_true_iff, !Z.ltb_lt. tauto. Qed.
Lemma pair_lt_trans dir x y z : pair_lt dir x y -> pair_lt dir y z -> pair_lt dir x z.
Proof. unfold pair_lt. intros (A1 & A2 & A3 & A4) (B1 & B2 & B3 & B4). repeat split; nia. Qed.

(* two pairs share a label / cross each other *)
Definition shares (p p' : spos) : Prop := rsite_of p = rsite_of p' \/ qsite_of p = qsite_of p'.
Definition crosses (dir : Z) (p p' : spos) : Prop :=
  (rsite_of p < rsite_of p' /\ dir * (qsite_of p' - qsite_of p) < 0) \/ (rsite_of p' < rsite_of p /\ dir * (qsite_of p - qsite_of p') < 0).
Lemma pair_lt_no_conflict dir p p' : pair_lt dir p p' -> ~ shares p p' /\ ~ crosses dir p p'.
Proof. unfold pair_lt, shares, crosses. intros (H1 & H2 & H3 & H4). split; intros H; nia. Qed.

(* ---------- the checker ---------- *)
Definition all_pairs (segs : list segment) : list spos := flat_map aligned segs.
Definition disjoint_dirb (dir : Z) (segs : list segment) : bool := adjb (pair_ltb dir) (all_pairs segs).
Definition segments_disjointb (segs : list segment) : bool := disjoint_dirb 1 segs || disjoint_dirb (-1) segs.

(* no two segments share a reference or query label or cross: inside every segment the pairs are strictly ordered,
   and every pair of an earlier segment stands strictly before every pair of a later one *)
Definition segments_disjoint (dir : Z) (segs : list segment) : Prop :=
  (forall s, In s segs -> StronglySorted (pair_lt dir) (aligned s)) /\
  (forall i j si sj p p', (i < j)%nat -> nth_error segs i = Some si -> nth_error segs j = Some sj ->
     In p (aligned si) -> In p' (aligned sj) -> pair_lt dir p p').

Theorem disjoint_dirb_spec dir segs : disjoint_dirb dir segs = true <-> segments_disjoint dir segs.
Proof. unfold disjoint_dirb, segments_disjoint, all_pairs.
  rewrite (adjb_SS (pair_ltb dir) (pair_lt dir) _ (pair_ltb_spec dir) (pair_lt_trans dir)). apply SS_flat_map. Qed.
Theorem segments_disjointb_spec segs : segments_disjointb segs = true <-> segments_disjoint 1 segs \/ segments_disjoint (-1) segs.
Proof. unfold segments_disjointb. rewrite orb_true_iff, !disjoint_dirb_spec. tauto. Qed.

(* what it means in the words of the property *)
Theorem segments_disjoint_no_conflict dir segs : segments_disjoint dir segs ->
  forall i j si sj p p', i <> j -> nth_error segs i = Some si -> nth_error segs j = Some sj ->
    In p (aligned si) -> In p' (aligned sj) -> ~ shares p p' /\ ~ crosses dir p p'.
Proof. intros (_ & H) i j si sj p p' Hij Hi Hj Hp Hp'. destruct (Nat.lt_gt_cases i j) as (Hc & _). destruct (Hc Hij) as [Hlt|Hgt].
  - apply pair_lt_no_conflict. apply (H i j si sj p p'); assumption.
  - destruct (pair_lt_no_conflict dir p' p (H j i sj si p' p Hgt Hj Hi Hp' Hp)) as (H1 & H2). unfold shares, crosses in *. split; intros X; [apply H1 | apply H2]; intuition lia. Qed.

(* inside a segment whose positions are ordered, the aligned pairs are strictly ordered *)
Lemma seg_ord_aligned dir l : seg_ord dir l -> StronglySorted (pair_lt dir) (filter is_pair l).
Proof. intros H. assert (H1 : StronglySorted (before dir) (filter is_pair l)) by (apply (SS_Sub _ _ _ (Sub_filter is_pair l) H)).
  assert (Hall : forall p, In p (filter is_pair l) -> is_pair p = true) by (intros p Hp; apply filter_In in Hp; apply Hp).
  induction H1 as [|x t Ht IH Hx]; constructor.
  - apply IH. intros p Hp. apply Hall. right. exact Hp.
  - rewrite Forall_forall in *. intros y Hy. destruct (Hx y Hy) as (Hr & Hq). pose proof (Hall x (or_introl eq_refl)) as Px. pose proof (Hall y (or_intror Hy)) as Py.
    unfold is_pair in Px, Py. unfold pair_lt, rsite_of, rpos_of, qsite_of, qpos_of, pv_of, rlab, qlab in *.
    destruct (ap x); try discriminate. destruct (ap y); try discriminate. cbn [pr pq].
    destruct (Hr _ _ eq_refl eq_refl). destruct (Hq _ _ eq_refl eq_refl). lia. Qed.

(* ---------- the row checker (C01) ---------- *)
Fixpoint valid_fromb (dir : Z) (p : pair) (ps : list pair) : bool :=
  match ps with [] => true | p' :: r => (fst p <? fst p') && (0 <? dir * (snd p' - snd p)) && valid_fromb dir p' r end.
Definition validb (dir : Z) (ps : list pair) : bool := match ps with [] => true | p :: r => valid_fromb dir p r end.
Lemma valid_fromb_spec dir ps : forall p, valid_fromb dir p ps = true <-> valid_from dir p ps.
Proof. induction ps as [|p' r IH]; intros p; cbn [valid_fromb valid_from]; [tauto|]. rewrite !andb_true_iff, !Z.ltb_lt, IH. tauto. Qed.
Lemma validb_spec dir ps : validb dir ps = true <-> valid dir ps.
Proof. destruct ps; [cbn; tauto | apply valid_fromb_spec]. Qed.

Definition in_rangeb (nref nqry : Z) (p : pair) : bool := (1 <=? fst p) && (fst p <=? nref) && (1 <=? snd p) && (snd p <=? nqry).
Definition strand_dir (rev_ : bool) : Z := if rev_ then -1 else 1.
Definition valid_rowb (nref nqry : Z) (rev_ : bool) (ps : list pair) : bool :=
  match ps with [] => false | _ => forallb (in_rangeb nref nqry) ps && validb (strand_dir rev_) ps end.

(* labels in 1..nref / 1..nqry, strictly ascending reference sites, strictly monotone query sites per strand, at least one pair *)
Theorem valid_rowb_spec nref nqry rev_ ps : valid_rowb nref nqry rev_ ps = true <->
  (forall p, In p ps -> 1 <= fst p <= nref /\ 1 <= snd p <= nqry) /\ valid (strand_dir rev_) ps /\ ps <> [].
Proof.
  unfold valid_rowb. destruct ps as [|p0 r]; [split; [discriminate | intros (_ & _ & H); congruence]|].
  rewrite andb_true_iff, forallb_forall, validb_spec. split.
  - intros (H1 & H2). split; [|split; [exact H2 | discriminate]]. intros p Hp. specialize (H1 p Hp). unfold in_rangeb in H1.
    rewrite !andb_true_iff, !Z.leb_le in H1. lia.
  - intros (H1 & H2 & _). split; [|exact H2]. intros p Hp. specialize (H1 p Hp). unfold in_rangeb. rewrite !andb_true_iff, !Z.leb_le. lia. Qed.

Definition row_sites (l : list spos) : list pair := map (fun p => (rsite_of p, qsite_of p)) l.

Lemma SS_pair_lt_valid dir l : StronglySorted (pair_lt dir) l -> valid dir (row_sites l).
Proof. intros H. destruct l as [|x t]; [exact Logic.I|]. cbn [row_sites map valid]. revert x H. induction t as [|y t IH]; intros x H; cbn [map valid_from]; [exact Logic.I|].
  apply StronglySorted_inv in H. destruct H as (Hs & Hx). rewrite Forall_forall in Hx. destruct (Hx y (or_introl eq_refl)) as (H1 & _ & H3 & _).
  cbn [fst snd]. split; [exact H1|]. split; [exact H3|]. apply IH. exact Hs. Qed.
Print Assumptions segments_disjointb_spec.
Print Assumptions valid_rowb_spec.

(* C02, part 4: the whole record as text, from the label numbers it lists and the two input maps. *)
From Coq Require Import ZArith List Bool Lia String Ascii Sorting.Sorted.
Import ListNotations.
Require Import Py Pairing Core Multi Cigar Cmap Xmap Record RecordProofs1 RecordProofs2 RecordProofs3.
Open Scope Z_scope.
Local Open Scope string_scope.

(* what the fifteen fields of a record must be, given its number in the file, the two maps as read from the CMAP files (the query
   untrimmed), the strand, the listed pairs, and the three values C02 does not speak about (confidence in 1/20, HitEnum runs, AlignedRest) *)
Definition spec_fields (i : Z) (reference q0 : Pairing.omap) (reverse : bool) (P : list (Z * Z)) (conf20 : Z) (runs : list (nat * op)) (rest_ : bool) : list string :=
  let a := hd (0, 0) P in let b := last P (0, 0) in
  [ print_int i; print_int (mid q0); print_int (mid reference);
    print_tenths (query_offset q0 reverse (snd (if reverse then b else a)));
    print_tenths (query_offset q0 reverse (snd (if reverse then a else b)));
    print_tenths (label_at reference (fst a)); print_tenths (label_at reference (fst b));
    (if reverse then "-" else "+"); print_hundredths (5 * conf20); render runs;
    print_tenths (last (mpositions q0) 0 - hd 0 (mpositions q0) + K); print_tenths (mlen reference);
    (if rest_ then "True" else "False"); "1"; print_pairs P ].

Theorem record_text (reference q0 : Pairing.omap) (sh n : nat) (reverse : bool) (segs : list segment) (i : Z) runs rest_ :
  StronglySorted Z.le (mpositions reference) -> StronglySorted Z.le (mpositions q0) -> mshift q0 = 0 ->
  let f := fragment_at (trim q0) sh n in
  pairs_from (positions_with_ids reference false) (positions_with_ids f reverse) segs ->
  valid (dir_of reverse) (site_pairs segs) -> site_pairs segs <> [] ->
  let w := set_aligned_rest (align_row segs reference f reverse) rest_ in
  split_on TAB (write_row i (xrow_of_row w runs)) = spec_fields i reference q0 reverse (site_pairs segs) (conf w) runs rest_.
Proof.
  intros Href Hq0 Hs0 f Hfrom Hvalid Hne w. rewrite record_fields. unfold spec_fields.
  destruct (record_ref_span reference q0 sh n reverse segs Href Hq0 Hs0 Hfrom Hvalid Hne) as (R1 & R2 & _).
  destruct (record_qry_span reference q0 sh n reverse segs Href Hq0 Hs0 Hfrom Hvalid Hne) as (QF & QR).
  assert (N : mpositions q0 <> []).
  { pose proof (listed_sites reference q0 sh n reverse segs Hs0 Hfrom _ (hd_in (site_pairs segs) (0, 0) Hne)) as (_ & H & _).
    unfold has_site, nlabels in H. intros E. rewrite E in H. cbn [List.length] in H. lia. }
  destruct (record_lengths reference q0 sh n reverse segs N) as (L1 & L2).
  destruct (record_ids reference q0 sh n reverse segs) as (I1 & I2 & I3 & _ & I5).
  fold f in R1, R2, QF, QR, L1, L2, I1, I2, I3, I5.
  change (qid w) with (qid (align_row segs reference f reverse)). change (Multi.rid w) with (Multi.rid (align_row segs reference f reverse)).
  change (qs w) with (qs (align_row segs reference f reverse)). change (qe w) with (qe (align_row segs reference f reverse)).
  change (rs w) with (rs (align_row segs reference f reverse)). change (re w) with (re (align_row segs reference f reverse)).
  change (rrev w) with (rrev (align_row segs reference f reverse)). change (qlen w) with (qlen (align_row segs reference f reverse)).
  change (rlen w) with (rlen (align_row segs reference f reverse)). change (rest w) with rest_.
  change (rsegs w) with (rsegs (align_row segs reference f reverse)).
  rewrite I1, I2, I3, I5, R1, R2, L1, L2. unfold query_offset.
  destruct reverse.
  - destruct (QR eq_refl) as (E1 & E2 & _). rewrite E1, E2. reflexivity.
  - destruct (QF eq_refl) as (E1 & E2 & _). rewrite E1, E2. reflexivity.
Qed.

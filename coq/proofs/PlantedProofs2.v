(* C06 (deterministic half), part 2: the pairing of a noise-free window copy along a seed within delta of the true diagonal. *)
From Coq Require Import ZArith List Bool Lia Sorting.Permutation Sorting.Sorted.
Import ListNotations.
Require Import Py PyProofs Pairing PairingProofs1 PairingProofs2 PairingProofs3 PairingProofs4 Psum PlantedProofs1.
Open Scope Z_scope.

(* ---------- label numbering ---------- *)
Lemma number_up_lpos i l : map lpos (number_up i l) = l.
Proof. revert i; induction l as [|p t IH]; intros i; cbn [number_up map lpos]; [reflexivity|]. rewrite IH. reflexivity. Qed.
Lemma number_up_length i l : length (number_up i l) = length l.
Proof. rewrite <- (map_length lpos), number_up_lpos. reflexivity. Qed.
Lemma number_up_app i l1 l2 : number_up i (l1 ++ l2) = number_up i l1 ++ number_up (i + Z.of_nat (length l1)) l2.
Proof. revert i; induction l1 as [|p t IH]; intros i; cbn [app number_up length]; [rewrite Z.add_0_r; reflexivity|].
  rewrite IH. do 3 f_equal. lia. Qed.
Lemma number_up_firstn i n l : firstn n (number_up i l) = number_up i (firstn n l).
Proof. revert i l; induction n as [|n IH]; intros i [|p t]; cbn [firstn number_up]; try reflexivity. rewrite IH. reflexivity. Qed.
Lemma number_up_skipn i n l : skipn n (number_up i l) = number_up (i + Z.of_nat n) (skipn n l).
Proof. revert i l; induction n as [|n IH]; intros i l; [cbn [skipn]; rewrite Z.add_0_r; reflexivity|].
  destruct l as [|p t]; [reflexivity|]. cbn [skipn number_up]. rewrite IH. f_equal. lia. Qed.
Lemma number_up_map i j (f : Z -> Z) l :
  number_up i (map f l) = map (fun x => mkLabel (site x - j + i) (f (lpos x))) (number_up j l).
Proof. revert i j; induction l as [|p t IH]; intros i j; cbn [map number_up]; [reflexivity|]. cbn [site lpos]. f_equal.
  - f_equal. lia.
  - rewrite (IH (i + 1) (j + 1)). apply map_ext. intros x. f_equal. lia. Qed.
Lemma number_down_map i j e (f : Z -> Z) l :
  number_down i e (map f l) = map (fun x => mkLabel (i + j - site x) (e - f (lpos x))) (number_up j l).
Proof. revert i j; induction l as [|p t IH]; intros i j; cbn [map number_up number_down]; [reflexivity|]. cbn [site lpos]. f_equal.
  - f_equal. lia.
  - rewrite (IH (i - 1) (j + 1)). apply map_ext. intros x. f_equal. lia. Qed.
Lemma number_up_site_ge i l x : In x (number_up i l) -> i <= site x.
Proof. revert i; induction l as [|p t IH]; intros i H; [destruct H|]. cbn [number_up] in H. destruct H as [<-|H]; [cbn; lia|].
  specialize (IH _ H). lia. Qed.
Lemma number_up_site_lt i l x : In x (number_up i l) -> site x < i + Z.of_nat (length l).
Proof. revert i; induction l as [|p t IH]; intros i H; [destruct H|]. cbn [number_up] in H. cbn [length]. destruct H as [<-|H]; [cbn; lia|].
  specialize (IH _ H). lia. Qed.

(* ---------- the planted query ---------- *)
(* R : reference label positions; the window is R[a .. a+n-1]; forward: q_k = R[a+k] - R[a];
   reverse: the mirror image, q'_j = R[a+n-1] - R[a+n-1-j]; in both cases the query is trimmed: length = last - first + 1 bp *)
Definition win (R : list Z) (a n : nat) : list Z := firstn n (skipn a R).
Definition planted (R : list Z) (a n : nat) (rev_ : bool) (q : omap) : Prop :=
  let ra := nth a R 0 in let rl := nth (a + n - 1) R 0 in
  mshift q = 0 /\ mlen q = rl - ra + K /\
  mpositions q = if rev_ then map (fun p => rl - p) (rev (win R a n)) else map (fun p => p - ra) (win R a n).

(* query label number paired with reference label number s *)
Definition qnum (a n : nat) (rev_ : bool) (s : Z) : Z :=
  if rev_ then Z.of_nat a + Z.of_nat n + 1 - s else s - Z.of_nat a.

Section Planted.
Variables (d delta it : Z) (ref q : omap) (a n : nat) (start stop : Z) (rev_ : bool).
Let R := mpositions ref.
Let ra := nth a R 0.
Let rl := nth (a + n - 1) R 0.
Let L := positions_with_ids ref false.
Let Lb := firstn a L.
Let Lm := firstn n (skipn a L).
Let La := skipn (a + n) L.
Let s := start - ra.
Let inr := inrange (start - d) (stop + d).
Let qlab (x : label) : label := mkLabel (qnum a n rev_ (site x)) (lpos x - ra).
Let tp (x : label) : apos := Pair x (qlab x) s it.

Hypothesis Hdelta : 0 <= delta <= d.
Hypothesis Hsp : consec_gt (2 * delta) R.
Hypothesis Hshift : mshift ref = 0.
Hypothesis Hn : (1 <= n)%nat.
Hypothesis Han : (a + n <= length R)%nat.
Hypothesis Hq : planted R a n rev_ q.
Hypothesis Hstart : Z.abs (start - ra) <= delta.
Hypothesis Hstop : start + (rl - ra) <= stop.

Let W := win R a n.

Lemma pl_L : L = number_up 1 R.
Proof. unfold L, positions_with_ids. rewrite Hshift. reflexivity. Qed.
Lemma pl_Rss : StronglySorted (fun x y => x + 2 * delta < y) R.
Proof. apply consec_gt_SS; [lia | exact Hsp]. Qed.
Lemma pl_Href : StronglySorted Z.le (mpositions ref).
Proof. apply (SS_weaken (fun x y => x + 2 * delta < y)); [intros; lia | exact pl_Rss]. Qed.
Lemma pl_Wlen : length W = n.
Proof. unfold W, win. rewrite firstn_length, skipn_length. clear - Han. lia. Qed.
Lemma pl_Lm : Lm = number_up (1 + Z.of_nat a) W.
Proof. unfold Lm. rewrite pl_L, number_up_skipn, number_up_firstn. reflexivity. Qed.
Lemma pl_Lm_len : length Lm = n.
Proof. rewrite pl_Lm, number_up_length. exact pl_Wlen. Qed.
Lemma pl_Lparts : L = Lb ++ Lm ++ La.
Proof. apply three_parts. Qed.
Lemma pl_Lspaced : StronglySorted (fun x y => lpos x + 2 * delta < lpos y) L.
Proof. apply (SS_map_inv' lpos (fun x y => x + 2 * delta < y)). rewrite pl_L, number_up_lpos. exact pl_Rss. Qed.
Lemma pl_Lsorted : StronglySorted (fun x y => site x < site y /\ lpos x <= lpos y) L.
Proof. apply ref_labels_sorted. exact pl_Href. Qed.

Lemma pl_W_bounds p : In p W -> ra <= p <= rl.
Proof. intros Hp. apply (In_nth _ _ 0) in Hp. destruct Hp as (k & Hk & <-). rewrite pl_Wlen in Hk.
  unfold W, win. rewrite nth_firstn' by exact Hk. rewrite nth_skipn'. unfold ra, rl. split; apply (SS_nth_le R pl_Href); lia. Qed.
Lemma pl_Lm_lpos x : In x Lm -> In (lpos x) W.
Proof. intros Hx. rewrite <- (number_up_lpos (1 + Z.of_nat a) W), <- pl_Lm. apply in_map. exact Hx. Qed.
Lemma pl_Lm_in_L x : In x Lm -> In x L.
Proof. intros Hx. rewrite pl_Lparts. apply in_app_iff. right. apply in_app_iff. left. exact Hx. Qed.
Lemma pl_Lm_inr x : In x Lm -> inr x = true.
Proof. intros Hx. destruct (pl_W_bounds _ (pl_Lm_lpos x Hx)) as (H1 & H2). unfold inr, inrange, s in *.
  apply andb_true_iff. rewrite !Z.leb_le. lia. Qed.

(* the query label list as the pairing enumerates it: the copy of reference label x carries number qnum (site x) and
   sits at lpos x - ra (on the reverse strand after the mirroring the code applies) *)
Lemma pl_Q : positions_with_ids q rev_ = map qlab Lm.
Proof. destruct Hq as (Hs & Hl & Hp). fold ra rl W in Hl, Hp. unfold positions_with_ids. rewrite Hs, Hl, Hp, pl_Lm. destruct rev_.
  - rewrite map_length, rev_length, pl_Wlen, <- map_rev, rev_involutive.
    rewrite (number_down_map (Z.of_nat n + 0) (1 + Z.of_nat a)). apply map_ext. intros x. unfold qlab, qnum. f_equal; lia.
  - rewrite (number_up_map (1 + 0) (1 + Z.of_nat a)). apply map_ext. intros x. unfold qlab, qnum. f_equal. lia. Qed.

Lemma pl_Hqry : StronglySorted Z.le (mpositions q).
Proof. destruct Hq as (_ & _ & Hp). fold ra rl W in Hp. rewrite Hp.
  assert (HW : StronglySorted Z.le W) by (apply SS_firstn, SS_skipn, pl_Href). destruct rev_.
  - apply SS_map. apply (SS_weaken Z.ge); [intros; lia|]. apply SS_rev_le. exact HW.
  - apply SS_map. apply (SS_weaken Z.le); [intros; lia | exact HW]. Qed.

Let eR' := eR d ref start stop.
Let eQ' := eQ q rev_.
Let eP' := eP d ref q start stop rev_.
Lemma HR' : StronglySorted (fun a b => site a < site b /\ lpos a <= lpos b) eR'.
Proof. exact (HR d ref start stop pl_Href). Qed.
Lemma HQ' : StronglySorted (fun a b => 0 < dirz rev_ * (site b - site a) /\ lpos a <= lpos b) eQ'.
Proof. exact (HQ q rev_ pl_Hqry). Qed.

Lemma pl_eR : eR' = filter inr Lb ++ Lm ++ filter inr La.
Proof. unfold eR', eR, window. fold L inr. rewrite pl_Lparts at 1. rewrite !filter_app. f_equal. f_equal. apply filter_all. exact pl_Lm_inr. Qed.
Lemma pl_eR_in_L x : In x eR' -> In x L.
Proof. unfold eR', eR. intros H. apply window_in in H. apply H. Qed.
Lemma pl_Lm_in_eR x : In x Lm -> In x eR'.
Proof. intros H. rewrite pl_eR. apply in_app_iff. right. apply in_app_iff. left. exact H. Qed.

Lemma pl_far x y : In x L -> In y L -> x <> y -> 2 * delta < Z.abs (lpos x - lpos y).
Proof. intros Hx Hy N. destruct (SS_in_cases _ L x y pl_Lspaced Hx Hy) as [E|[E|E]]; [congruence | lia | lia]. Qed.

Definition tcand (x : label) : cand := mkCand x (qlab x) s.

Lemma pl_true_in x : In x Lm -> In (tcand x) eP'.
Proof. intros Hx.
  assert (Es : lpos (qlab x) - (lpos x - start) = s) by (unfold qlab, s; cbn [lpos]; lia).
  unfold tcand. rewrite <- Es.
  apply (P_mutual_nearest d start (dirz rev_) eR' eQ' HR' HQ' x (qlab x)).
  - apply pl_Lm_in_eR. exact Hx.
  - unfold eQ', eQ. rewrite pl_Q. apply in_map. exact Hx.
  - unfold within, adj. rewrite Es. unfold s. lia.
  - intros q' Hq' Nq. unfold eQ', eQ in Hq'. rewrite pl_Q in Hq'. apply in_map_iff in Hq'. destruct Hq' as (y & <- & Hy).
    assert (N : y <> x) by (intros ->; apply Nq; reflexivity).
    pose proof (pl_far y x (pl_Lm_in_L y Hy) (pl_Lm_in_L x Hx) N). unfold adj. rewrite Es. unfold qlab, s in *. cbn [lpos]. lia.
  - intros r' Hr' N. pose proof (pl_far r' x (pl_eR_in_L r' Hr') (pl_Lm_in_L x Hx) N). unfold adj. rewrite Es. unfold qlab, s in *. cbn [lpos]. lia.
Qed.

Lemma pl_eP : eP' = map tcand Lm.
Proof. apply (sorted_unique rsite).
  - apply P_rsorted.
  - apply SS_map. unfold rsite, tcand. cbn [cr]. apply SS_firstn, SS_skipn. apply (SS_weaken _ _ _ (fun a b H => proj1 H) pl_Lsorted).
  - intros c. split.
    + intros Hc. destruct (P_within d start (dirz rev_) eR' eQ' HQ' c Hc) as (_ & Hcq & _).
      unfold eQ', eQ in Hcq. rewrite pl_Q in Hcq. apply in_map_iff in Hcq. destruct Hcq as (y & Ey & Hy).
      pose proof (pl_true_in y Hy) as Ht.
      assert (E : c = tcand y).
      { apply (eP_q_inj d ref q start stop rev_ c (tcand y) Hc Ht). unfold qsite, tcand. cbn [cq]. rewrite Ey. reflexivity. }
      rewrite E. apply in_map. exact Hy.
    + intros Hc. apply in_map_iff in Hc. destruct Hc as (y & <- & Hy). apply pl_true_in. exact Hy.
Qed.

Lemma pl_sites_nodup : NoDup (map site L).
Proof. apply SS_lt_NoDup. apply (SS_weaken _ _ _ (fun a b H => proj1 H) pl_Lsorted). Qed.

(* ---------- who is left unpaired ---------- *)
Lemma pl_Lb_site x : In x Lb -> site x < 1 + Z.of_nat a.
Proof. unfold Lb. rewrite pl_L, number_up_firstn. intros H. apply number_up_site_lt in H. rewrite firstn_length in H. lia. Qed.
Lemma pl_La_site x : In x La -> 1 + Z.of_nat a + Z.of_nat n <= site x.
Proof. unfold La. rewrite pl_L, number_up_skipn. intros H. apply number_up_site_ge in H. lia. Qed.
Lemma pl_Lm_site x : In x Lm -> 1 + Z.of_nat a <= site x < 1 + Z.of_nat a + Z.of_nat n.
Proof. rewrite pl_Lm. intros H. split; [apply (number_up_site_ge _ _ _ H)|]. apply number_up_site_lt in H. rewrite pl_Wlen in H. exact H. Qed.

Lemma pl_rsites : map rsite eP' = map site Lm.
Proof. rewrite pl_eP, map_map. reflexivity. Qed.
Lemma pl_qsites : map qsite eP' = map site (map qlab Lm).
Proof. rewrite pl_eP, !map_map. reflexivity. Qed.

Lemma pl_unpaired_refs :
  filter (fun r => negb (mem_site (site r) (map rsite eP'))) eR' = filter inr Lb ++ filter inr La.
Proof. rewrite pl_rsites, pl_eR, !filter_app. f_equal.
  - apply filter_all. intros x Hx. apply filter_In in Hx. destruct Hx as (Hx & _). apply mem_site_not_in. intros Hin.
    apply in_map_iff in Hin. destruct Hin as (y & E & Hy). pose proof (pl_Lb_site x Hx). pose proof (pl_Lm_site y Hy). lia.
  - rewrite (filter_none _ Lm); [cbn [app]|].
    + apply filter_all. intros x Hx. apply filter_In in Hx. destruct Hx as (Hx & _). apply mem_site_not_in. intros Hin.
      apply in_map_iff in Hin. destruct Hin as (y & E & Hy). pose proof (pl_La_site x Hx). pose proof (pl_Lm_site y Hy). lia.
    + intros x Hx. apply negb_false_iff, mem_site_in, in_map. exact Hx. Qed.
Lemma pl_unpaired_qrys : filter (fun x => negb (mem_site (site x) (map qsite eP'))) eQ' = [].
Proof. rewrite pl_qsites. unfold eQ', eQ. rewrite pl_Q. apply filter_none. intros x Hx. apply negb_false_iff, mem_site_in, in_map. exact Hx. Qed.

Definition planted_out : list apos := map URef (filter inr Lb) ++ map tp Lm ++ map URef (filter inr La).

Lemma pl_epre : epre d it ref q start stop rev_ = map tp Lm ++ map URef (filter inr Lb ++ filter inr La) ++ [].
Proof. unfold epre. fold eP' eR' eQ'. rewrite pl_unpaired_refs, pl_unpaired_qrys. cbn [map]. f_equal. rewrite pl_eP, map_map. reflexivity. Qed.

Lemma pl_out_keys : map abs_pos planted_out = map lpos eR'.
Proof. rewrite pl_eR. unfold planted_out. rewrite !map_app, !map_map. reflexivity. Qed.

Theorem planted_engine_exact : align_engine d it ref q start stop rev_ = planted_out.
Proof. change (eout d it ref q start stop rev_ = planted_out). rewrite (engine_unfold d it ref q start stop rev_ pl_Href).
  apply (sorted_perm_unique abs_pos).
  - apply sort_by_sorted.
  - apply (SS_map_inv' abs_pos Z.lt). rewrite pl_out_keys. apply SS_map. unfold eR', eR, window. apply SS_filter.
    apply (SS_weaken (fun x y => lpos x + 2 * delta < lpos y)); [intros; lia | exact pl_Lspaced].
  - rewrite sort_by_perm, pl_epre, app_nil_r, map_app. unfold planted_out.
    rewrite Permutation_app_comm, <- app_assoc. apply Permutation_app_head. apply Permutation_app_comm. Qed.
End Planted.

Print Assumptions planted_engine_exact.

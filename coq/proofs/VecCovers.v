(* every label inside [start, end] falls inside the emitted vector (nothing is cut off before `end`) *)
From Coq Require Import ZArith List Bool Lia Sorting.Sorted.
Import ListNotations.
Require Import Vec VecProofs.
Open Scope Z_scope.

Section C.
Variables res stop start : Z.
Hypothesis Hres : 1 <= res.
Notation pos acc := (start + Z.of_nat (length acc) * res).

Lemma zeros_len fuel p : forall ws acc, ws = pos acc -> ws <= p -> p - ws <= Z.of_nat fuel ->
  let r := zeros fuel res stop p ws acc in
  (length acc <= length (fst r))%nat /\
  match snd r with Some ws' => ws' = pos (fst r) /\ p < ws' + res | None => stop < pos (fst r) end.
Proof.
  induction fuel as [|f IH]; intros ws acc Hws Hle Hf; cbn [zeros].
  - cbn [fst snd]. split; [lia|]. split; [exact Hws | lia].
  - destruct (ws + res <=? p) eqn:E.
    + apply Z.leb_le in E.
      assert (Hlen : ws + res = pos (acc ++ [0])) by (rewrite app_length; cbn [length]; lia).
      destruct (stop <? ws + res) eqn:Es.
      * apply Z.ltb_lt in Es. cbn [fst snd]. split; [rewrite app_length; cbn; lia | lia].
      * destruct (IH (ws + res) (acc ++ [0]) Hlen ltac:(lia) ltac:(lia)) as (G1 & G2).
        split; [rewrite app_length in G1; cbn in G1; lia | exact G2].
    + apply Z.leb_gt in E. cbn [fst snd]. split; [lia|]. split; [exact Hws | lia].
Qed.

Lemma vec_loop_covers ps : forall ws acc, ws = pos acc ->
  let v := vec_loop res stop ps ws acc in
  (length acc <= length v)%nat /\ forall q, In q ps -> q <= stop -> q < pos v.
Proof.
  induction ps as [|p t IH]; intros ws acc Hws; cbn [vec_loop].
  - split; [lia | intros q []].
  - destruct (p <? ws) eqn:Ep.
    + apply Z.ltb_lt in Ep. destruct (IH ws acc Hws) as (G1 & G2). split; [exact G1|].
      intros q [<-|Hq] Hs; [nia | apply G2; assumption].
    + apply Z.ltb_ge in Ep.
      pose proof (zeros_len (Z.to_nat (p - ws)) p ws acc Hws Ep ltac:(lia)) as Hz. cbn zeta in Hz.
      destruct (zeros (Z.to_nat (p - ws)) res stop p ws acc) as [acc' [ws'|]]; cbn [fst snd] in Hz; destruct Hz as (Hl & Hz).
      * destruct Hz as (Hws' & Hp).
        assert (Hlen : ws' + res = pos (acc' ++ [1])) by (rewrite app_length; cbn [length]; lia).
        destruct (IH (ws' + res) (acc' ++ [1]) Hlen) as (G1 & G2). rewrite app_length in G1. cbn [length] in G1.
        split; [lia|]. intros q [<-|Hq] Hs; [nia | apply G2; assumption].
      * split; [exact Hl|]. intros q _ Hs. lia.
Qed.
End C.

(* end = end or positions[-1] *)
Definition eff_stop (ps : list Z) (stop : option Z) : Z :=
  match stop with Some e => if e =? 0 then last ps 0 else e | None => last ps 0 end.

Theorem vectorise_bits ps res start stop : 1 <= res -> StronglySorted Z.le ps ->
  let v := vectorise ps res start stop in
  forall i, (i < length v)%nat ->
    (nth i v 0 = 1 /\ exists p, In p ps /\ inbin res start i p) \/ (nth i v 0 = 0 /\ forall p, In p ps -> ~ inbin res start i p).
Proof. intros Hres Hs. exact (vector_bits res (eff_stop ps stop) start Hres ps Hs). Qed.

Theorem vectorise_covers ps res start stop : 1 <= res -> StronglySorted Z.le ps ->
  let v := vectorise ps res start stop in
  forall p, In p ps -> start <= p <= eff_stop ps stop ->
  exists i, (i < length v)%nat /\ inbin res start i p /\ nth i v 0 = 1.
Proof.
  intros Hres Hs v p Hp (H1 & H2).
  destruct (vec_loop_covers res (eff_stop ps stop) start Hres ps start [] ltac:(cbn; lia)) as (_ & Hc).
  specialize (Hc p Hp H2). change (p < start + Z.of_nat (length v) * res) in Hc.
  set (i := Z.to_nat ((p - start) / res)).
  assert (Hi : Z.of_nat i = (p - start) / res) by (unfold i; rewrite Z2Nat.id; [reflexivity | apply Z.div_pos; lia]).
  pose proof (Z.div_mod (p - start) res ltac:(lia)) as Hdm. pose proof (Z.mod_pos_bound (p - start) res ltac:(lia)) as Hmb.
  assert (Hin : inbin res start i p) by (unfold inbin; rewrite Hi; nia).
  assert (Hlt : (i < length v)%nat) by (destruct Hin as (A1 & A2); assert (Z.of_nat i < Z.of_nat (length v)) by nia; lia).
  exists i. split; [exact Hlt|]. split; [exact Hin|].
  destruct (vectorise_bits ps res start stop Hres Hs i Hlt) as [(G & _)|(_ & G)]; [exact G | exfalso; apply (G p Hp Hin)].
Qed.

(* C06 (deterministic half), part 3: from the exact pairing to the single segment, the candidate row and its HitEnum. *)
From Coq Require Import ZArith QArith List Bool Lia String.
From Coq Require Import Sorting.Sorted.
Import ListNotations.
Require Import Py PyProofs Pairing PairingProofs2 PairingProofs4 Core Multi Cigar CigarProofs CigarProofs2 CigarProofs3 Psum FacProofs FacSegs
               PlantedProofs1 PlantedProofs2.
Open Scope Z_scope.

Lemma map_const_repeat {A B} (c : B) (l : list A) : List.map (fun _ => c) l = repeat c (List.length l).
Proof. induction l as [|x t IH]; cbn [List.map List.length repeat]; [reflexivity|]. rewrite IH. reflexivity. Qed.
Lemma lsum_repeat x n : lsum (repeat x n) = Z.of_nat n * x.
Proof. induction n as [|n IH]; [reflexivity|]. cbn [repeat]. unfold lsum in *. cbn [fold_right]. rewrite IH. lia. Qed.

(* ---------- the expected matching: consecutive labels ---------- *)
Fixpoint diag (dir r q0 : Z) (n : nat) : list (Z * Z) :=
  match n with O => [] | S m => (r, q0) :: diag dir (r + 1) (q0 + dir) m end.
(* window R[a .. a+n-1] (0-based), labels numbered from 1: reference label a+1+k is matched with query label k+1 on '+'
   and with query label n-k on '-' *)
Definition true_pairs (a n : nat) (rev_ : bool) : list (Z * Z) :=
  diag (if rev_ then -1 else 1) (Z.of_nat a + 1) (if rev_ then Z.of_nat n else 1) n.

Lemma diag_length dir n : forall r q0, List.length (diag dir r q0 n) = n.
Proof. induction n as [|n IH]; intros r q0; cbn [diag List.length]; [reflexivity|]. rewrite IH. reflexivity. Qed.
Lemma diag_nth dir n : forall r q0 k, (k < n)%nat -> nth k (diag dir r q0 n) (0, 0) = (r + Z.of_nat k, q0 + dir * Z.of_nat k).
Proof. induction n as [|n IH]; intros r q0 k Hk; [lia|]. destruct k as [|k]; cbn [diag nth].
  - f_equal; lia.
  - rewrite IH by lia. f_equal; lia. Qed.
Lemma planted_vocabulary R a n (rev_ : bool) q :
  (planted R a n rev_ q <->
     mshift q = 0 /\ mlen q = nth (a + n - 1) R 0 - nth a R 0 + K /\
     mpositions q = if rev_ then List.map (fun p => nth (a + n - 1) R 0 - p) (List.rev (firstn n (skipn a R)))
                    else List.map (fun p => p - nth a R 0) (firstn n (skipn a R))) /\
  List.length (true_pairs a n rev_) = n /\
  forall k, (k < n)%nat -> nth k (true_pairs a n rev_) (0, 0) = (Z.of_nat a + 1 + Z.of_nat k, if rev_ then Z.of_nat n - Z.of_nat k else 1 + Z.of_nat k).
Proof. split; [split; intros H; exact H|]. unfold true_pairs. split; [apply diag_length|]. intros k Hk. rewrite diag_nth by exact Hk.
  destruct rev_; f_equal; lia. Qed.

Lemma number_up_diag a n (rev_ : bool) l : forall i,
  List.map (fun x => (site x, qnum a n rev_ (site x))) (number_up i l) = diag (if rev_ then -1 else 1) i (qnum a n rev_ i) (List.length l).
Proof. induction l as [|p t IH]; intros i; cbn [number_up List.map List.length diag]; [reflexivity|]. cbn [site]. f_equal.
  rewrite IH. f_equal. unfold qnum. destruct rev_; lia. Qed.

Section Diag.
Variable dir : Z.
Hypothesis Hdir : dir = 1 \/ dir = -1.
Lemma diag_valid_from n : forall r q0, valid_from dir (r, q0) (diag dir (r + 1) (q0 + dir) n).
Proof. induction n as [|n IH]; intros r q0; cbn [diag valid_from]; [exact Logic.I|]. cbn [fst snd]. repeat split; [lia | destruct Hdir; subst; lia | apply IH]. Qed.
Lemma diag_ops_from n : forall r q0, ops_from (r, q0) (diag dir (r + 1) (q0 + dir) n) = rep n M.
Proof. induction n as [|n IH]; intros r q0; cbn [diag ops_from rep]; [reflexivity|]. rewrite IH. unfold gap. cbn [fst snd].
  replace (Z.abs (q0 + dir - q0) - 1) with 0 by (destruct Hdir; subst; lia). replace (r + 1 - r - 1) with 0 by lia. reflexivity. Qed.
End Diag.

Lemma agg_loop_rep m : forall c acc, agg_loop M c (rep m M) acc = (acc, (c + m)%nat, M).
Proof. induction m as [|m IH]; intros c acc; cbn [rep agg_loop]; [rewrite Nat.add_0_r; reflexivity|]. cbn [op_eqb]. rewrite IH. do 2 f_equal. lia. Qed.

Local Open Scope string_scope.
Theorem diag_cigar dir r q0 n : dir = 1 \/ dir = -1 -> (1 <= n)%nat ->
  cigar_string (diag dir r q0 n) = Ok (print_nat n ++ "M").
Proof. intros Hdir Hn. destruct n as [|m]; [lia|]. cbn [diag].
  assert (Hv : valid dir ((r, q0) :: diag dir (r + 1) (q0 + dir) m)) by (apply diag_valid_from; exact Hdir).
  unfold cigar_string, cigar_runs. rewrite (hit_enums_dedup dir _ Hv) by discriminate. cbn [bind ops]. rewrite (diag_ops_from dir Hdir).
  unfold aggregate, aggregate_gen. rewrite agg_loop_rep. cbn [Datatypes.app Nat.add].
  assert (E : match rep m M with [] => Ok [(S m, M)] | _ :: _ => Ok [(S m, M)] end = Ok [(S m, M)]) by (destruct (rep m M); reflexivity).
  rewrite E. cbn [bind]. unfold render. cbn [List.map String.concat]. unfold render_run. cbn [fst snd op_char]. reflexivity. Qed.
Local Close Scope string_scope.

(* ---------- what a row reports ---------- *)
Definition pair_sites (segs : list segment) : list (Z * Z) :=
  List.map (fun p => let v := pv_of p in (site (pr v), site (pq v))) (row_pairs segs).
Definition pair_shifts (segs : list segment) : list Z :=
  flat_map (fun p => match ap p with Pair _ _ sh _ => [sh] | _ => [] end) (row_pairs segs).

Section Row.
Variables (P : params) (delta it : Z) (ref q : omap) (a n : nat) (peak : Z) (rev_ : bool).
Let R := mpositions ref.
Let ra := nth a R 0.
Let rl := nth (a + n - 1) R 0.
Let L := positions_with_ids ref false.
Let Lm := firstn n (skipn a L).
Let sh := peak - ra.
Let xs := SP P - DPU P * Z.abs sh.
Let qlab (x : label) : label := mkLabel (qnum a n rev_ (site x)) (lpos x - ra).
Let tp (x : label) : apos := Pair x (qlab x) sh it.
Let stop := peak + mlen q.
Let out := planted_out (DMAX P) it ref a n peak stop rev_.

Hypothesis Hdelta : 0 <= delta <= DMAX P.
Hypothesis Hsp : consec_gt (2 * delta) R.
Hypothesis Hshift : mshift ref = 0.
Hypothesis Hn : (1 <= n)%nat.
Hypothesis Han : (a + n <= List.length R)%nat.
Hypothesis Hq : planted R a n rev_ q.
Hypothesis Hstart : Z.abs (peak - ra) <= delta.
(* scoring side conditions *)
Hypothesis Hdpu : 0 <= DPU P.
Hypothesis Hsu : SU P <= 0.
Hypothesis Hms : 0 < MS P.
Hypothesis Hbs : 0 <= BS P.
Hypothesis Hpos : 0 < SP P - DPU P * delta.
Hypothesis Hmin : MS P <= Z.of_nat n * (SP P - DPU P * delta).

Definition planted_segment : segment := seg_create (List.map (fun x => mkS (tp x) xs) Lm) peak.

Lemma row_xs : SP P - DPU P * delta <= xs.
Proof. unfold xs, sh. nia. Qed.
Lemma row_Lm_len : List.length Lm = n.
Proof. unfold Lm, L. apply (pl_Lm_len ref a n Hshift Han). Qed.
Lemma row_engine : align_engine (DMAX P) it ref q peak stop rev_ = out.
Proof. apply (planted_engine_exact (DMAX P) delta it ref q a n peak stop rev_ Hdelta Hsp Hshift Hn Han Hq Hstart).
  destruct Hq as (_ & Hl & _). change (mlen q = rl - ra + K) in Hl. change (peak + (rl - ra) <= peak + mlen q). rewrite Hl. unfold K. lia. Qed.

Lemma row_scored : List.map (score_pos P) out =
  List.map (fun r => mkS (URef r) (SU P)) (filter (inrange (peak - DMAX P) (stop + DMAX P)) (firstn a L)) ++
  List.map (fun x => mkS (tp x) xs) Lm ++
  List.map (fun r => mkS (URef r) (SU P)) (filter (inrange (peak - DMAX P) (stop + DMAX P)) (skipn (a + n) L)).
Proof. unfold out, planted_out. rewrite !map_app, !map_map. reflexivity. Qed.

Theorem planted_single_segment : get_segments P (List.map (score_pos P) out) peak = [planted_segment].
Proof. rewrite row_scored.
  set (A := List.map (fun r => mkS (URef r) (SU P)) (filter (inrange (peak - DMAX P) (stop + DMAX P)) (firstn a L))).
  set (B := List.map (fun x => mkS (tp x) xs) Lm).
  set (C := List.map (fun r => mkS (URef r) (SU P)) (filter (inrange (peak - DMAX P) (stop + DMAX P)) (skipn (a + n) L))).
  assert (Esc : List.map sc (A ++ B ++ C) = repeat (SU P) (List.length A) ++ repeat xs (List.length B) ++ repeat (SU P) (List.length C)).
  { rewrite !map_app. unfold A, B, C. rewrite !map_map. cbn [sc]. rewrite !map_const_repeat, !map_length. reflexivity. }
  assert (EB : List.length B = n) by (unfold B; rewrite map_length; exact row_Lm_len).
  pose proof row_xs as Hxs.
  unfold get_segments. rewrite Esc, factory_three_blocks; [| exact Hms | exact Hsu | lia | lia | rewrite EB; nia].
  cbn [List.map]. replace (List.length A + List.length B - List.length A)%nat with (List.length B) by lia.
  rewrite firstn_skipn_middle. reflexivity. Qed.

Theorem planted_segments_for_peak : get_segments_for_peak P it ref q peak rev_ = [planted_segment].
Proof. unfold get_segments_for_peak. fold stop. rewrite row_engine. apply planted_single_segment. Qed.

Theorem planted_aligner : aligner_align P it ref q [peak] rev_ = Ok [planted_segment].
Proof. unfold aligner_align, segs_for_peaks, get_segments_for_peak. rewrite app_nil_r. fold stop. rewrite row_engine, planted_single_segment. reflexivity. Qed.

Lemma row_pairs_planted : row_pairs [planted_segment] = List.map (fun x => mkS (tp x) xs) Lm.
Proof. unfold row_pairs. cbn [flat_map]. rewrite app_nil_r. unfold aligned, planted_segment, seg_create. cbn [positions].
  apply filter_all. intros p Hp. apply in_map_iff in Hp. destruct Hp as (x & <- & _). reflexivity. Qed.

Theorem planted_pair_sites : pair_sites [planted_segment] = true_pairs a n rev_.
Proof. unfold pair_sites. rewrite row_pairs_planted, map_map. unfold pv_of, tp. cbn [ap pr pq qlab site].
  unfold Lm, L. rewrite (pl_Lm ref a n Hshift). rewrite (number_up_diag a n rev_). rewrite (pl_Wlen ref a n Han).
  unfold true_pairs. f_equal; [lia | unfold qnum; destruct rev_; lia]. Qed.

Theorem planted_pair_shifts : pair_shifts [planted_segment] = repeat (peak - ra) n /\ Z.abs (peak - ra) <= delta.
Proof. split; [|exact Hstart]. unfold pair_shifts. rewrite row_pairs_planted. rewrite <- row_Lm_len. fold sh.
  induction Lm as [|x t IH]; [reflexivity|]. cbn [List.map flat_map ap tp List.length repeat Datatypes.app]. rewrite IH. reflexivity. Qed.

Theorem planted_score : sscore planted_segment = Z.of_nat n * xs.
Proof. unfold planted_segment, seg_create. cbn [sscore]. rewrite sum_scores_lsum, map_map. cbn [sc]. rewrite map_const_repeat, lsum_repeat, row_Lm_len. reflexivity. Qed.

Theorem planted_row :
  let w := row_create [planted_segment] (mid q) (mid ref) (mlen q) (mlen ref) rev_ in
  rsegs w = [planted_segment] /\ qid w = mid q /\ rid w = mid ref /\ rrev w = rev_ /\ conf w = Z.of_nat n * xs.
Proof. cbn zeta. unfold row_create. cbn [rsegs qid rid rrev conf fold_left]. rewrite planted_score. repeat split. Qed.

Theorem planted_cigar : cigar_string (pair_sites [planted_segment]) = Ok (print_nat n ++ "M")%string.
Proof. rewrite planted_pair_sites. unfold true_pairs. apply diag_cigar; [destruct rev_; auto | exact Hn]. Qed.

Theorem planted_row_full : exists seg,
  aligner_align P it ref q [peak] rev_ = Ok [seg] /\
  let w := row_create [seg] (mid q) (mid ref) (mlen q) (mlen ref) rev_ in
  rsegs w = [seg] /\ qid w = mid q /\ rid w = mid ref /\ rrev w = rev_ /\
  pair_sites (rsegs w) = true_pairs a n rev_ /\
  pair_shifts (rsegs w) = repeat (peak - ra) n /\
  conf w = Z.of_nat n * (SP P - DPU P * Z.abs (peak - ra)) /\
  cigar_string (pair_sites (rsegs w)) = Ok (print_nat n ++ "M")%string.
Proof. exists planted_segment. split; [exact planted_aligner|]. cbn zeta.
  destruct planted_row as (H1 & H2 & H3 & H4 & H5). cbn zeta in H1, H2, H3, H4, H5.
  change (rsegs (row_create [planted_segment] (mid q) (mid ref) (mlen q) (mlen ref) rev_)) with [planted_segment].
  repeat split; try assumption.
  - exact planted_pair_sites.
  - exact (proj1 planted_pair_shifts).
  - exact planted_cigar.
Qed.
End Row.

(* ---------- the default parameters (model units: positions x10, scores x20, DPU = 2*dp):
   d = 1500, sp = 1000, dp = 1, su = -250, ms = 1000, bs = 1200, sj = 1, ss = 0 ---------- *)
Definition default_params : params := mkP 20000 2 (-5000) 20000 24000 15000 (inject_Z 20) 0.
(* with delta = 200 bp every window of at least two labels meets the scoring side conditions *)
Lemma default_side_conditions n : (2 <= n)%nat ->
  let P := default_params in let delta := 2000 in
  0 <= delta <= DMAX P /\ 0 <= DPU P /\ SU P <= 0 /\ 0 < MS P /\ 0 <= BS P /\ 0 < SP P - DPU P * delta /\
  MS P <= Z.of_nat n * (SP P - DPU P * delta).
Proof. intros Hn. cbn. lia. Qed.

Theorem planted_default it ref q a n peak rev_ :
  consec_gt 19999 (mpositions ref) ->                      (* neighbouring reference labels at least 2 kb apart *)
  mshift ref = 0 -> (2 <= n)%nat -> (a + n <= List.length (mpositions ref))%nat ->
  planted (mpositions ref) a n rev_ q ->
  Z.abs (peak - nth a (mpositions ref) 0) <= 2000 ->       (* seed within 200 bp of the true diagonal *)
  let seg := planted_segment default_params it ref a n peak rev_ in
  aligner_align default_params it ref q [peak] rev_ = Ok [seg] /\
  pair_sites [seg] = true_pairs a n rev_ /\
  pair_shifts [seg] = repeat (peak - nth a (mpositions ref) 0) n /\
  cigar_string (pair_sites [seg]) = Ok (print_nat n ++ "M")%string.
Proof. intros Hsp Hs Hn Han Hq Hst. destruct (default_side_conditions n Hn) as (H1 & H2 & H3 & H4 & H5 & H6 & H7).
  assert (Hsp' : consec_gt (2 * 2000) (mpositions ref)) by (apply (consec_gt_mono 19999); [lia | exact Hsp]).
  assert (Hn1 : (1 <= n)%nat) by lia.
  cbn zeta. split; [|split; [|split]].
  - apply (planted_aligner default_params 2000 it ref q a n peak rev_ H1 Hsp' Hs Hn1 Han Hq Hst H2 H3 H4 H5 H6 H7).
  - apply (planted_pair_sites default_params it ref q a n peak rev_ Hs Hn1 Han Hq).
  - apply (planted_pair_shifts default_params 2000 it ref a n peak rev_ Hs Han Hst).
  - apply (planted_cigar default_params it ref q a n peak rev_ Hs Hn1 Han Hq).
Qed.

Print Assumptions planted_default.
Print Assumptions planted_single_segment.
Print Assumptions planted_aligner.
Print Assumptions planted_pair_sites.
Print Assumptions planted_cigar.

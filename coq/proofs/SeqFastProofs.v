(* model/SeqFast.v computes exactly what model/Vec.v / model/Correlate.v compute. *)
From Coq Require Import ZArith QArith List Bool Lia.
Import ListNotations.
Require Import Py Vec Peaks Correlate SeqFast BlurProofs.
Open Scope Z_scope.

(* ------------------------------------------------------------------------------------------------ vectorise *)
Lemma zeros_more res stop p : 1 <= res -> forall f ws acc, (p - ws) / res <= Z.of_nat f ->
  zeros f res stop p ws acc = zeros (S f) res stop p ws acc.
Proof. intros Hres. induction f as [|f IH]; intros ws acc H.
  - cbn [zeros]. destruct (ws + res <=? p) eqn:E; [|reflexivity]. apply Z.leb_le in E. exfalso.
    assert (1 <= (p - ws) / res); [|cbn in H; lia]. apply Z.div_le_lower_bound; lia.
  - cbn [zeros]. destruct (ws + res <=? p) eqn:E; [|reflexivity]. destruct (stop <? ws + res); [reflexivity|].
    change (zeros f res stop p (ws + res) (acc ++ [0]) = zeros (S f) res stop p (ws + res) (acc ++ [0])). apply IH.
    replace (p - (ws + res)) with (p - ws + (-1) * res) by lia. rewrite Z.div_add by lia. lia. Qed.
Lemma zeros_enough res stop p : 1 <= res -> forall k f ws acc, (p - ws) / res <= Z.of_nat f ->
  zeros f res stop p ws acc = zeros (f + k) res stop p ws acc.
Proof. intros Hres. induction k as [|k IH]; intros f ws acc H; [rewrite Nat.add_0_r; reflexivity|].
  rewrite (IH f ws acc H). replace (f + S k)%nat with (S (f + k)) by lia. apply zeros_more; [exact Hres | lia]. Qed.
Lemma zeros_fuel res stop p f1 f2 ws acc : 1 <= res -> (p - ws) / res <= Z.of_nat f1 -> (p - ws) / res <= Z.of_nat f2 ->
  zeros f1 res stop p ws acc = zeros f2 res stop p ws acc.
Proof. intros Hres H1 H2. destruct (Nat.le_ge_cases f1 f2) as [L|L].
  - replace f2 with (f1 + (f2 - f1))%nat by lia. apply zeros_enough; assumption.
  - replace f1 with (f2 + (f1 - f2))%nat by lia. symmetry. apply zeros_enough; assumption. Qed.

Lemma vec_loop_f_eq res stop : 1 <= res -> forall ps ws acc, vec_loop_f res stop ps ws acc = vec_loop res stop ps ws acc.
Proof. intros Hres. induction ps as [|p t IH]; intros ws acc; [reflexivity|]. cbn [vec_loop_f vec_loop].
  destruct (p <? ws) eqn:E; [apply IH|]. apply Z.ltb_ge in E.
  assert (Hq : 0 <= (p - ws) / res <= p - ws).
  { split; [apply Z.div_pos; lia|]. apply Z.div_le_upper_bound; [lia|]. nia. }
  rewrite (zeros_fuel res stop p (Z.to_nat ((p - ws) / res + 1)) (Z.to_nat (p - ws)) ws acc Hres) by lia.
  destruct (zeros (Z.to_nat (p - ws)) res stop p ws acc) as [acc' [ws'|]]; [apply IH | reflexivity]. Qed.
Theorem vectorise_f_eq ps res start stop : 1 <= res -> vectorise_f ps res start stop = vectorise ps res start stop.
Proof. intros H. unfold vectorise_f, vectorise. apply vec_loop_f_eq, H. Qed.
Theorem vectorise_py_f_eq ps res start stop : vectorise_py_f ps res start stop = vectorise_py ps res start stop.
Proof. unfold vectorise_py_f, vectorise_py. destruct (res <? 1) eqn:E; [reflexivity|]. apply Z.ltb_ge in E.
  rewrite (vectorise_f_eq ps res start stop E). reflexivity. Qed.

(* ------------------------------------------------------------------------------------------------ blur *)
Lemma slide_length w : forall n l, length (slide w n l) = n.
Proof. induction n as [|n IH]; intros l; cbn [slide length]; [reflexivity|]. rewrite IH. reflexivity. Qed.
Lemma tl_skipn {A} (l : list A) : tl l = skipn 1 l. Proof. destruct l; reflexivity. Qed.
Lemma skipn_skipn1 {A} i : forall l : list A, skipn i (skipn 1 l) = skipn (S i) l.
Proof. intros [|x l]; [destruct i; reflexivity | reflexivity]. Qed.
Lemma slide_nth w : forall n l i, (i < n)%nat -> nth i (slide w n l) 0 = if any_set (firstn w (skipn i l)) then 1 else 0.
Proof. induction n as [|n IH]; intros l i Hi; [lia|]. cbn [slide]. destruct i as [|i]; [reflexivity|]. cbn [nth].
  rewrite IH by lia. rewrite tl_skipn, skipn_skipn1. reflexivity. Qed.

Lemma any_firstn w (m : list Z) : any_set (firstn w m) = true <-> exists k, (k < w)%nat /\ nth k m 0 <> 0.
Proof. rewrite any_set_iff. split.
  - intros (b & Hb & Hn). destruct (In_nth _ _ 0 Hb) as (k & Hk & E). rewrite firstn_length in Hk. exists k. split; [lia|].
    rewrite nth_firstn_lt in E by lia. congruence.
  - intros (k & Hk & Hn). exists (nth k m 0). split; [|exact Hn]. pose proof (nth_nonzero_lt m k Hn) as Hl.
    rewrite <- (nth_firstn_lt w m k 0 Hk). apply nth_In. rewrite firstn_length. lia. Qed.

Lemma blur_f_bit v r i : (i < length v)%nat ->
  nth i (blur_f v r) 0 = 1 /\ (exists j, (j < length v)%nat /\ (i <= j + r)%nat /\ (j <= i + r)%nat /\ nth j v 0 <> 0) \/
  nth i (blur_f v r) 0 = 0 /\ ~ (exists j, (j < length v)%nat /\ (i <= j + r)%nat /\ (j <= i + r)%nat /\ nth j v 0 <> 0).
Proof. intros Hi. unfold blur_f. rewrite slide_nth by exact Hi.
  assert (Hiff : any_set (firstn (r + r + 1) (skipn i (repeat 0 r ++ v))) = true <->
                 exists j, (j < length v)%nat /\ (i <= j + r)%nat /\ (j <= i + r)%nat /\ nth j v 0 <> 0).
  { rewrite any_firstn. split.
    - intros (k & Hk & Hn). rewrite nth_skipn', nth_pad in Hn. destruct (i + k <? r)%nat eqn:E; [congruence|]. apply Nat.ltb_ge in E.
      exists (i + k - r)%nat. repeat split; [apply nth_nonzero_lt, Hn | lia | lia | exact Hn].
    - intros (j & Hj & H1 & H2 & Hn). exists (j + r - i)%nat. split; [lia|]. rewrite nth_skipn', nth_pad.
      destruct (i + (j + r - i) <? r)%nat eqn:E; [apply Nat.ltb_lt in E; lia|]. replace (i + (j + r - i) - r)%nat with j by lia. exact Hn. }
  destruct (any_set _) eqn:Ea; [left; split; [reflexivity | apply Hiff; reflexivity]|].
  right. split; [reflexivity|]. intros H. apply Hiff in H. congruence. Qed.

Theorem blur_f_eq v r : blur_f v r = blur v r.
Proof. apply (nth_ext _ _ 0 0).
  - unfold blur_f. rewrite slide_length, blur_length. reflexivity.
  - intros i Hi. unfold blur_f in Hi. rewrite slide_length in Hi.
    destruct (blur_f_bit v r i Hi) as [(E & Hex)|(E & Hn)]; rewrite E; destruct (blur_bits v r i Hi) as [(E' & Hex')|(E' & Hall)]; rewrite E'; try reflexivity.
    + exfalso. destruct Hex as (j & Hj & H1 & H2 & Hz). apply Hz. apply Hall; assumption.
    + exfalso. apply Hn. exact Hex'. Qed.
Theorem blur_py_f_eq v r : blur_py_f v r = blur_py v r.
Proof. unfold blur_py_f, blur_py. rewrite blur_f_eq. reflexivity. Qed.

(* ------------------------------------------------------------------------------------------------ sequences and correlations *)
Theorem get_sequence_py_f_eq ps res r rv start stop : get_sequence_py_f ps res r rv start stop = get_sequence_py ps res r rv start stop.
Proof. unfold get_sequence_py_f, get_sequence_py. rewrite vectorise_py_f_eq. destruct (vectorise_py ps res start stop) as [v|]; [|reflexivity].
  cbn [bind]. rewrite blur_py_f_eq. reflexivity. Qed.
Theorem initial_correlation_f_eq qlen qps rlen rps res r rv :
  initial_correlation_f qlen qps rlen rps res r rv = initial_correlation qlen qps rlen rps res r rv.
Proof. unfold initial_correlation_f, initial_correlation. rewrite !get_sequence_py_f_eq. reflexivity. Qed.
Theorem refine_correlation_f_eq qlen qps rps rv peak res r margin :
  refine_correlation_f qlen qps rps rv peak res r margin = refine_correlation qlen qps rps rv peak res r margin.
Proof. unfold refine_correlation_f, refine_correlation. rewrite !get_sequence_py_f_eq. reflexivity. Qed.

(* C04, part 3 (builds on proofs/ResolverProofs*.v, the lift of the one-step sub-run theorem to the whole resolver loop):
   every segment Aligner.align reports is an index sub-run of the engine output of its own peak, hence has no gap. *)
From Coq Require Import ZArith QArith List Bool Lia Sorting.Sorted Sorting.Permutation.
Import ListNotations.
Require Import Py Pairing Core PyProofs PairingProofs2 PairingProofs4 DPProofs ChainCore ResolverProofs5 ResolverProofs10 ScoreProofs1 ScoreProofs2.
Open Scope Z_scope.

Lemma subrun_subrun {A} (E : list A) m n m' x :
  firstn x (skipn m' (firstn n (skipn m E))) = firstn (Nat.min x (n - m')) (skipn (m' + m) E).
Proof. rewrite skipn_firstn_comm, firstn_firstn, Psum.skipn_skipn'. reflexivity. Qed.

Lemma Forall2_in_r {A B} (R : A -> B -> Prop) l l' y : Forall2 R l l' -> In y l' -> exists x, In x l /\ R x y.
Proof. induction 1 as [|a b l l' Hab Hl IH]; intros Hy; [destruct Hy|]. destruct Hy as [<-|Hy].
  - exists a. split; [left; reflexivity | exact Hab].
  - destruct (IH Hy) as (x & Hx & Hr). exists x. split; [right; exact Hx | exact Hr]. Qed.

Theorem align_engine_subrun P it reference query peaks reverse out s : engine_ok P reference query ->
  aligner_align P it reference query peaks reverse = Ok out -> In s out ->
  exists k, nth_error peaks k = Some (speak s) /\ engine_subrun P (it + Z.of_nat k) reference query reverse s.
Proof.
  intros Hok H Hs.
  assert (Hfac : forall c, In c (segs_for_peaks P it reference query peaks reverse) -> subrun_of c s ->
            exists k, nth_error peaks k = Some (speak s) /\ engine_subrun P (it + Z.of_nat k) reference query reverse s).
  { intros c Hc (Hpk & _ & m' & x & Hpos).
    destruct (factory_segments_run P it reference query peaks reverse c Hc) as (_ & k & m & n & Hk & Hc').
    exists k. rewrite Hpk. split; [exact Hk|]. exists (m' + m)%nat, (Nat.min x (n - m')). rewrite Hpos, Hc', Hpk. apply subrun_subrun. }
  destruct (aligner_align_subrun P it reference query peaks reverse out Hok H) as [(_ & ->)|(pre & sel & Hperm & Hsub & _ & _ & _ & Hall)].
  - apply (factory_run_subrun P it reference query peaks reverse s). apply factory_segments_run. exact Hs.
  - destruct (Forall2_in_r _ _ _ s Hall Hs) as (c & Hc & Hcs). apply (Hfac c); [|exact Hcs].
    apply in_app_or in Hc. destruct Hc as [Hc|Hc].
    + apply (Sub_in _ _ _ Hsub) in Hc. apply (Permutation_in _ Hperm) in Hc. apply filter_In in Hc. apply Hc.
    + apply filter_In in Hc. apply Hc.
Qed.

Theorem align_no_gap P it reference query peaks reverse out s : engine_ok P reference query ->
  aligner_align P it reference query peaks reverse = Ok out -> In s out ->
  exists k, nth_error peaks k = Some (speak s) /\
  forall x y, In x (positions s) -> In y (positions s) ->
    (forall a, In a (engine_out P (it + Z.of_nat k) reference query (speak s) reverse) ->
       abs_pos (ap x) < abs_pos a < abs_pos (ap y) -> In (score_pos P a) (positions s)) /\
    (forall r, In r (window (DMAX P) (speak s) (speak s + mlen query) reference) ->
       abs_pos (ap x) < lpos r < abs_pos (ap y) -> In r (ref_labels (map ap (positions s)))) /\
    (forall q, In q (positions_with_ids query reverse) ->
       In q (qry_labels (map ap (positions s))) \/
       exists a, In a (engine_out P (it + Z.of_nat k) reference query (speak s) reverse) /\ In q (qry_labels [a]) /\
                 ~ (abs_pos (ap x) < abs_pos a < abs_pos (ap y))).
Proof.
  intros Hok H Hs. destruct (align_engine_subrun P it reference query peaks reverse out s Hok H Hs) as (k & Hk & Hrun).
  exists k. split; [exact Hk|]. destruct Hok as (_ & _ & _ & HR & HQ).
  apply (subrun_no_gap P (it + Z.of_nat k) reference query reverse s); [| |exact Hrun].
  - apply (SS_weaken Z.lt Z.le); [intros; lia | exact HR].
  - apply (SS_weaken Z.lt Z.le); [intros; lia | exact HQ].
Qed.
Print Assumptions align_no_gap.

(* C15, part 1: what one conflict-resolution step and the whole resolver loop do to the position lists.
   Everything here is about Core.resolve_pair / Core.retry / Core.resolve_loop / Core.chain as they are. *)
From Coq Require Import ZArith QArith List Bool Lia Sorting.Sorted Sorting.Permutation.
Import ListNotations.
Require Import Py Pairing Core PyProofs ConflictProofs DPProofs.
Open Scope Z_scope.

(* ------------------------------------------------------------------------------------------------ *)
(* generic list facts                                                                                 *)
(* ------------------------------------------------------------------------------------------------ *)
Lemma Sub_trans {A} (a b c : list A) : Sub a b -> Sub b c -> Sub a c.
Proof. intros H1 H2. revert a H1. induction H2 as [l | x c' l Hs IH | x c' l Hs IH]; intros a H1.
  - inversion H1; subst. constructor.
  - inversion H1; subst; [constructor | constructor; apply IH; assumption | apply Sub_skip; apply IH; assumption].
  - apply Sub_skip. apply IH. exact H1. Qed.
Lemma Sub_filter {A} (f : A -> bool) l : Sub (filter f l) l.
Proof. induction l as [|x t IH]; cbn; [constructor|]. destruct (f x); [constructor | apply Sub_skip]; exact IH. Qed.
Lemma Sub_in {A} (c l : list A) x : Sub c l -> In x c -> In x l.
Proof. induction 1 as [l | y c' l Hs IH | y c' l Hs IH]; intros Hx; [destruct Hx | | right; apply IH; exact Hx].
  destruct Hx as [<-|Hx]; [left; reflexivity | right; apply IH; exact Hx]. Qed.
Lemma Sub_nil_inv {A} (c : list A) : Sub c [] -> c = [].
Proof. inversion 1; reflexivity. Qed.
Lemma Sub_app {A} (a b c d : list A) : Sub a b -> Sub c d -> Sub (a ++ c) (b ++ d).
Proof. induction 1 as [l | x c' l Hs IH | x c' l Hs IH]; intros H; cbn.
  - induction l as [|y l IHl]; cbn; [exact H | apply Sub_skip; exact IHl].
  - constructor. apply IH. exact H.
  - apply Sub_skip. apply IH. exact H. Qed.
Lemma Sub_firstn_self {A} n (l : list A) : Sub (firstn n l) l.
Proof. rewrite <- (firstn_skipn n l) at 2. rewrite <- (app_nil_r (firstn n l)) at 1. apply Sub_app; [apply Sub_refl | constructor]. Qed.
Lemma Sub_skipn_self {A} n (l : list A) : Sub (skipn n l) l.
Proof. rewrite <- (firstn_skipn n l) at 2. change (skipn n l) with ([] ++ skipn n l) at 1. apply Sub_app; [constructor | apply Sub_refl]. Qed.
Lemma Sub_length {A} (c l : list A) : Sub c l -> (length c <= length l)%nat.
Proof. induction 1; cbn; lia. Qed.

Lemma SS_Sub {A} (R : A -> A -> Prop) c l : Sub c l -> StronglySorted R l -> StronglySorted R c.
Proof. induction 1 as [l | x c' l Hs IH | x c' l Hs IH]; intros H; [constructor | |].
  - apply StronglySorted_inv in H. destruct H as (Ht & Hx). constructor; [apply IH; exact Ht|].
    rewrite Forall_forall in *. intros y Hy. apply Hx. apply (Sub_in _ _ _ Hs Hy).
  - apply StronglySorted_inv in H. apply IH. apply H. Qed.
Lemma SS_app_inv {A} (R : A -> A -> Prop) l1 l2 : StronglySorted R (l1 ++ l2) ->
  StronglySorted R l1 /\ StronglySorted R l2 /\ forall x y, In x l1 -> In y l2 -> R x y.
Proof. induction l1 as [|a l1 IH]; cbn; intros H.
  - split; [constructor|]. split; [exact H|]. intros x y [].
  - apply StronglySorted_inv in H. destruct H as (Ht & Ha). destruct (IH Ht) as (H1 & H2 & H3). rewrite Forall_forall in Ha.
    split; [constructor; [exact H1 | rewrite Forall_forall; intros y Hy; apply Ha; apply in_or_app; left; exact Hy]|].
    split; [exact H2|]. intros x y [<-|Hx] Hy; [apply Ha; apply in_or_app; right; exact Hy | apply H3; assumption]. Qed.

Lemma filter_first_split {A} (f : A -> bool) l p t : filter f l = p :: t ->
  exists l1 l2, l = l1 ++ p :: l2 /\ filter f l1 = [] /\ f p = true /\ filter f l2 = t.
Proof. induction l as [|x l IH]; cbn; [discriminate|]. destruct (f x) eqn:E; intros H.
  - injection H as -> <-. exists [], l. repeat split; assumption.
  - destruct (IH H) as (l1 & l2 & -> & H1 & H2 & H3). exists (x :: l1), l2. cbn. rewrite E. repeat split; assumption. Qed.
Lemma filter_last_split {A} (f : A -> bool) l p t : rev (filter f l) = p :: t ->
  exists l1 l2, l = l1 ++ p :: l2 /\ filter f l2 = [] /\ f p = true /\ rev (filter f l1) = t.
Proof. intros H. assert (H' : filter f (rev l) = p :: t).
  { rewrite <- H. clear. induction l as [|x l IH]; [reflexivity|]. cbn [rev]. rewrite filter_app, IH. cbn. destruct (f x); cbn; [reflexivity | rewrite app_nil_r; reflexivity]. }
  destruct (filter_first_split f (rev l) p t H') as (l1 & l2 & E & H1 & H2 & H3).
  exists (rev l2), (rev l1). split; [|split; [|split]].
  - rewrite <- (rev_involutive l), E, rev_app_distr. cbn. rewrite <- app_assoc. reflexivity.
  - clear - H1. assert (G : forall m, filter f m = [] -> filter f (rev m) = []).
    { induction m as [|x m IH]; [reflexivity|]. cbn. destruct (f x) eqn:E; [discriminate|]. intros Hm. rewrite filter_app, (IH Hm). cbn. rewrite E. reflexivity. }
    apply G. exact H1.
  - exact H2.
  - rewrite <- H3. clear. induction l2 as [|x m IH]; [reflexivity|]. cbn [rev]. rewrite filter_app, rev_app_distr, IH. cbn. destruct (f x); reflexivity. Qed.

(* ------------------------------------------------------------------------------------------------ *)
(* removing a block by the code's equality                                                            *)
(* ------------------------------------------------------------------------------------------------ *)
Definition notin (other : list spos) (p : spos) : bool := negb (existsb (pos_eqb p) other).

Lemma nodupkey_split X Y x y : nodupkey (X ++ Y) -> In x X -> In y Y -> pos_eqb x y = false.
Proof. intros H Hx Hy. apply (nodupkey_cross (X ++ Y) (length X) x y H).
  - rewrite firstn_app, firstn_all, Nat.sub_diag. cbn. rewrite app_nil_r. exact Hx.
  - rewrite skipn_app, skipn_all, Nat.sub_diag. cbn. exact Hy. Qed.

Lemma filter_remove_mid X M Y : nodupkey (X ++ M ++ Y) -> filter (notin M) (X ++ M ++ Y) = X ++ Y.
Proof. intros H. rewrite !filter_app.
  assert (EM : filter (notin M) M = []).
  { apply filter_nil_all. intros x Hx. unfold notin. rewrite existsb_self by exact Hx. reflexivity. }
  rewrite EM. cbn [app]. f_equal.
  - apply filter_id_all. intros x Hx. unfold notin. rewrite existsb_false_in; [reflexivity|]. intros y Hy.
    apply (nodupkey_split X (M ++ Y) x y H Hx). apply in_or_app. left. exact Hy.
  - apply filter_id_all. intros x Hx. unfold notin. rewrite existsb_false_in; [reflexivity|]. intros y Hy. rewrite pos_eqb_sym.
    rewrite app_assoc in H. apply (nodupkey_split (X ++ M) Y y x H); [apply in_or_app; right; exact Hy | exact Hx]. Qed.

Lemma seg_sub_mid s n m : nodupkey (positions s) ->
  positions (seg_sub s (firstn m (skipn n (positions s)))) = firstn n (positions s) ++ skipn (m + n) (positions s).
Proof. intros H. unfold seg_sub, seg_create. cbn [positions]. set (l := positions s) in *.
  assert (E : l = firstn n l ++ firstn m (skipn n l) ++ skipn (m + n) l).
  { rewrite <- skipn_skipn', firstn_skipn, firstn_skipn. reflexivity. }
  assert (H' : nodupkey (firstn n l ++ firstn m (skipn n l) ++ skipn (m + n) l)) by (rewrite <- E; exact H).
  pose proof (filter_remove_mid _ _ _ H') as F. rewrite <- E in F. exact F. Qed.

(* ------------------------------------------------------------------------------------------------ *)
(* order inside a segment                                                                             *)
(* ------------------------------------------------------------------------------------------------ *)
Definition rlab (p : spos) : option label := match ap p with Pair r _ _ _ => Some r | URef r => Some r | UQry _ _ => None end.
Definition qlab (p : spos) : option label := match ap p with Pair _ q _ _ => Some q | URef _ => None | UQry q _ => Some q end.
(* x stands before y: strictly ascending reference labels (site and position) and strictly ascending query positions with
   query sites moving in direction dir (1 forward, -1 reverse), wherever both positions carry such a label *)
Definition before (dir : Z) (x y : spos) : Prop :=
  (forall r r', rlab x = Some r -> rlab y = Some r' -> lpos r < lpos r' /\ site r < site r') /\
  (forall q q', qlab x = Some q -> qlab y = Some q' -> lpos q < lpos q' /\ 0 < dir * (site q' - site q)).
Definition seg_ord (dir : Z) (l : list spos) : Prop := StronglySorted (before dir) l.

Definition junk (l : list spos) : Prop := forall p, In p l -> is_pair p = false.
Lemma junk_nil : junk []. Proof. intros p []. Qed.
Lemma junk_app l1 l2 : junk l1 -> junk l2 -> junk (l1 ++ l2).
Proof. intros H1 H2 p Hp. apply in_app_or in Hp. destruct Hp; [apply H1 | apply H2]; assumption. Qed.
Lemma junk_Sub c l : Sub c l -> junk l -> junk c.
Proof. intros Hs H p Hp. apply H. apply (Sub_in _ _ _ Hs Hp). Qed.
Lemma junk_filter l : junk l <-> filter is_pair l = [].
Proof. split.
  - intros H. apply filter_nil_all. exact H.
  - intros H p Hp. destruct (is_pair p) eqn:E; [|reflexivity]. assert (Hin : In p (filter is_pair l)) by (apply filter_In; split; assumption).
    rewrite H in Hin. destruct Hin. Qed.

Lemma seg_ord_nodupkey dir l : seg_ord dir l -> nodupkey l.
Proof. unfold seg_ord. induction 1 as [|x t Ht IH Hx]; intros i j a b Ha Hb E.
  - destruct i; discriminate.
  - rewrite Forall_forall in Hx.
    assert (Hirr : forall y, In y t -> pos_eqb x y = false /\ pos_eqb y x = false).
    { intros y Hy. destruct (Hx y Hy) as (Hr & Hq). unfold pos_eqb, rlab, qlab, label_eqb in *.
      destruct (ap x) as [r q s0 s1|r|q s0], (ap y) as [r' q' s0' s1'|r'|q' s0']; try (split; reflexivity).
      - destruct (Hr r r' eq_refl eq_refl). split; apply andb_false_iff; left; apply andb_false_iff; left; apply Z.eqb_neq; lia.
      - destruct (Hr r r' eq_refl eq_refl). split; apply Z.eqb_neq; lia.
      - destruct (Hq q q' eq_refl eq_refl). split; apply Z.eqb_neq; nia. }
    destruct i as [|i], j as [|j]; cbn in Ha, Hb.
    + reflexivity.
    + injection Ha as <-. apply nth_error_In in Hb. destruct (Hirr b Hb). congruence.
    + injection Hb as <-. apply nth_error_In in Ha. destruct (Hirr a Ha). congruence.
    + f_equal. apply (IH i j a b Ha Hb E). Qed.

(* every pair of a segment is "less or equal on some sequence" than its last pair *)
Lemma pairs_le_end dir s ce : seg_ord dir (positions s) -> end_position s = Ok ce ->
  forall p, In p (positions s) -> is_pair p = true -> le_any p ce = true.
Proof.
  intros Hord Hce p Hp Hpp. unfold end_position in Hce. destruct (seg_empty s) eqn:Ee.
  - revert Hp Ee. unfold seg_empty. destruct (positions s); [intros [] | discriminate].
  - unfold aligned in Hce. destruct (rev (filter is_pair (positions s))) as [|pe t] eqn:Er; [discriminate|]. injection Hce as <-.
    destruct (filter_last_split is_pair (positions s) pe t Er) as (l1 & l2 & E & H2 & Hpe & _).
    rewrite E in Hp, Hord. apply in_app_or in Hp. unfold le_any, pv_of. unfold is_pair in Hpp, Hpe.
    destruct (ap p) as [r q s0 s1| |] eqn:Eap; try discriminate. destruct (ap pe) as [re qe s0' s1'| |] eqn:Eape; try discriminate.
    unfold pv_le_any. cbn [isnull pq pr].
    destruct Hp as [Hp|[<-|Hp]].
    + destruct (SS_app_inv _ _ _ Hord) as (_ & _ & H). destruct (H p pe Hp (or_introl eq_refl)) as (Hr & _).
      unfold rlab in Hr. rewrite Eap, Eape in Hr. destruct (Hr r re eq_refl eq_refl).
      replace (lpos r <? lpos re) with true by (symmetry; apply Z.ltb_lt; lia). rewrite orb_true_r. reflexivity.
    + rewrite Eap in Eape. injection Eape as <- <- <- <-. rewrite (label_eqb_refl q). rewrite !orb_true_r. reflexivity.
    + exfalso. apply junk_filter in H2. specialize (H2 p Hp). unfold is_pair in H2. rewrite Eap in H2. discriminate. Qed.

(* ------------------------------------------------------------------------------------------------ *)
(* slice, in general: a contiguous sub-run                                                            *)
(* ------------------------------------------------------------------------------------------------ *)
Lemma dropwhile_spec {A} (f : A -> bool) l : exists n, dropwhile f l = skipn n l /\ (n <= length l)%nat /\
  (forall x, In x (firstn n l) -> f x = true) /\ (forall x t, skipn n l = x :: t -> f x = false).
Proof. induction l as [|x t (n & E & Hn & Hall & Hstop)].
  - exists 0%nat. cbn. split; [reflexivity|]. split; [lia|]. split; [intros x [] | intros; discriminate].
  - cbn [dropwhile]. destruct (f x) eqn:Ef.
    + exists (S n). cbn. split; [exact E|]. split; [lia|]. split; [|exact Hstop]. intros y [<-|Hy]; [exact Ef | apply Hall; exact Hy].
    + exists 0%nat. cbn. split; [reflexivity|]. split; [lia|]. split; [intros y [] | intros y t' Ey; injection Ey as <- <-; exact Ef]. Qed.
Lemma takewhile_spec {A} (f : A -> bool) l : exists n, takewhile f l = firstn n l /\ (n <= length l)%nat /\
  (forall x, In x (firstn n l) -> f x = true) /\ (forall x t, skipn n l = x :: t -> f x = false).
Proof. induction l as [|x t (n & E & Hn & Hall & Hstop)].
  - exists 0%nat. cbn. split; [reflexivity|]. split; [lia|]. split; [intros x [] | intros; discriminate].
  - cbn [takewhile]. destruct (f x) eqn:Ef.
    + exists (S n). cbn. split; [rewrite E; reflexivity|]. split; [lia|]. split; [|exact Hstop]. intros y [<-|Hy]; [exact Ef | apply Hall; exact Hy].
    + exists 0%nat. cbn. split; [reflexivity|]. split; [lia|]. split; [intros y [] | intros y t' Ey; injection Ey as <- <-; exact Ef]. Qed.

Lemma trim_rev_spec rl e out : trim_rev rl e = Ok out ->
  exists k, out = skipn k rl /\ (k <= length rl)%nat /\ junk (firstn k rl) /\
            (forall x, In x (firstn k rl) -> le_any x e = false) /\
            (forall p t, out = p :: t -> is_pair p = true \/ le_any p e = true).
Proof. revert out; induction rl as [|p t IH]; intros out H.
  { injection H as <-. exists 0%nat. cbn. repeat split; [lia | intros x [] | intros x [] | intros; discriminate]. }
  cbn in H.
  destruct (negb (is_pair p) && negb (le_any p e)) eqn:E.
  - destruct (IH out H) as (k & -> & Hk & Hj & Hle & Hst). exists (S k). cbn [skipn firstn length]. repeat split; [lia | | | exact Hst].
    + intros x [<-|Hx]; [apply andb_true_iff in E; destruct E as (E & _); apply negb_true_iff in E; exact E | apply Hj; exact Hx].
    + intros x [<-|Hx]; [apply andb_true_iff in E; destruct E as (_ & E); apply negb_true_iff in E; exact E | apply Hle; exact Hx].
  - injection H as <-. exists 0%nat. cbn. repeat split; [lia | intros x [] | intros x [] |].
    intros p0 t0 Ept. injection Ept as <- <-. apply andb_false_iff in E. destruct E as [E|E]; apply negb_false_iff in E; [left | right]; exact E. Qed.

Definition sl_keep (en : pv) (p : spos) : bool := negb (is_pair p) || le_any p en.

(* slice returns l[n .. n+m): the n dropped positions are all "less on both sequences" than st, the kept ones are all
   non-pairs or "less or equal on some sequence" than en; if every pair of l passes that test, only non-pairs follow *)
Lemma slice_spec s st en r : slice s st en = Ok r ->
  exists n m, positions r = firstn m (skipn n (positions s)) /\ speak r = speak s /\ sscore r = sum_scores (positions r) /\
    (n <= length (positions s))%nat /\
    (forall x, In x (firstn n (positions s)) -> less_both x st = true) /\
    (forall x t, skipn n (positions s) = x :: t -> less_both x st = false) /\
    (forall x, In x (positions r) -> sl_keep en x = true) /\
    ((forall x, In x (positions s) -> is_pair x = true -> le_any x en = true) -> junk (skipn (m + n) (positions s))) /\
    (forall x t, skipn (m + n) (positions s) = x :: t -> is_pair x = true -> le_any x en = false) /\
    (exists J rest, skipn (m + n) (positions s) = J ++ rest /\ junk J /\ (forall x t, rest = x :: t -> sl_keep en x = false) /\ forall x, In x J -> le_any x en = false).
Proof.
  unfold slice. intros H. set (l := positions s) in *.
  destruct (dropwhile_spec (fun p => less_both p st) l) as (n & En & Hn & Hdrop & Hstop). rewrite En in H.
  destruct (takewhile_spec (sl_keep en) (skipn n l)) as (t & Et & Ht & Htake & Htstop). fold (sl_keep en) in H. rewrite Et in H.
  exists n. destruct (firstn t (skipn n l)) as [|x0 t0] eqn:Eps.
  - injection H as <-. exists 0%nat. cbn [positions speak sscore seg_create firstn].
    refine (conj eq_refl (conj eq_refl (conj eq_refl (conj Hn (conj Hdrop (conj Hstop (conj _ (conj _ (conj _ _))))))))).
    + intros x [].
    + intros Hall. cbn [Nat.add]. destruct (skipn n l) as [|y yt] eqn:Esk; [apply junk_nil|]. destruct t; [|discriminate].
      specialize (Htstop y yt eq_refl). unfold sl_keep in Htstop. apply orb_false_iff in Htstop. destruct Htstop as (Hp & Hle).
      apply negb_false_iff in Hp. rewrite Hall in Hle; [discriminate | | exact Hp]. rewrite <- (firstn_skipn n l), Esk. apply in_or_app. right. left. reflexivity.
    + cbn [Nat.add]. intros x tx Ex Hxp. destruct t; [|rewrite Ex in Eps; discriminate]. specialize (Htstop x tx Ex). unfold sl_keep in Htstop.
      apply orb_false_iff in Htstop. apply Htstop.
    + cbn [Nat.add]. exists [], (skipn n l). split; [reflexivity|]. split; [apply junk_nil|]. split; [|intros x []]. intros x tx Ex. destruct t; [|rewrite Ex in Eps; discriminate]. apply (Htstop x tx Ex).
  - rewrite <- Eps in *. cbn [bind] in H. destruct (trim_rev (rev (firstn t (skipn n l))) en) as [rl|] eqn:Etr; [|cbn in H; discriminate]. cbn in H. injection H as <-.
    destruct (trim_rev_spec _ _ _ Etr) as (k & -> & Hk & Hj & Hnle & Hst). rewrite rev_length, firstn_length in Hk.
    exists (t - k)%nat. cbn [positions speak sscore seg_create].
    assert (Epos : rev (skipn k (rev (firstn t (skipn n l)))) = firstn (t - k) (skipn n l)).
    { rewrite skipn_rev, rev_involutive, firstn_length, firstn_firstn. f_equal. lia. }
    rewrite Epos.
    assert (Etail : skipn (t - k) (firstn t (skipn n l)) = rev (firstn k (rev (firstn t (skipn n l))))).
    { rewrite firstn_rev, rev_involutive, firstn_length. f_equal. lia. }
    assert (Hsplit : skipn (t - k + n) l = skipn (t - k) (firstn t (skipn n l)) ++ skipn (t + n) l).
    { rewrite <- !skipn_skipn'. rewrite <- (firstn_skipn t (skipn n l)) at 1. rewrite skipn_app.
      rewrite firstn_length. replace (t - k - Nat.min t (length (skipn n l)))%nat with 0%nat by lia. reflexivity. }
    refine (conj eq_refl (conj eq_refl (conj eq_refl (conj Hn (conj Hdrop (conj Hstop (conj _ (conj _ (conj _ _))))))))).
    + intros x Hx. apply Htake. rewrite <- (firstn_skipn (t - k) (firstn t (skipn n l))). apply in_or_app. left.
      rewrite firstn_firstn. replace (Nat.min (t - k) t) with (t - k)%nat by lia. exact Hx.
    + intros Hall. rewrite Hsplit. apply junk_app.
      * rewrite Etail. intros p Hp. apply in_rev in Hp. apply Hj. exact Hp.
      * rewrite <- skipn_skipn'. destruct (skipn t (skipn n l)) as [|y yt] eqn:Esk; [apply junk_nil|].
        specialize (Htstop y yt eq_refl). unfold sl_keep in Htstop. apply orb_false_iff in Htstop. destruct Htstop as (Hp & Hle).
        apply negb_false_iff in Hp. rewrite Hall in Hle; [discriminate | | exact Hp].
        rewrite <- (firstn_skipn n l). apply in_or_app. right. rewrite <- (firstn_skipn t (skipn n l)). apply in_or_app. right. rewrite Esk. left. reflexivity.
    + intros x tx Ex Hxp. rewrite Hsplit in Ex. destruct (skipn (t - k) (firstn t (skipn n l))) as [|y yt] eqn:Ey.
      * cbn in Ex. rewrite <- skipn_skipn' in Ex. specialize (Htstop x tx Ex). unfold sl_keep in Htstop. apply orb_false_iff in Htstop. apply Htstop.
      * cbn in Ex. injection Ex as -> _. apply Hnle. apply in_rev. rewrite <- Etail. left. reflexivity.
    + exists (skipn (t - k) (firstn t (skipn n l))), (skipn (t + n) l). split; [exact Hsplit|]. split.
      * rewrite Etail. intros p Hp. apply in_rev in Hp. apply Hj. exact Hp.
      * split; [intros x tx Ex; rewrite <- skipn_skipn' in Ex; apply (Htstop x tx Ex)|]. rewrite Etail. intros p Hp. apply in_rev in Hp. apply Hnle. exact Hp.
Qed.

(* ------------------------------------------------------------------------------------------------ *)
(* one resolution step, by cases                                                                      *)
(* ------------------------------------------------------------------------------------------------ *)
(* the data of a conflict: start of the right member, end of the left one, the two conflicting sub-runs *)
Record conflict (a b : segment) (cs ce : pv) (lsub rsub : segment) : Prop := {
  cf_ne : seg_empty a = false;
  cf_ov : end_overlaps a b = Ok true;
  cf_cs : start_position b = Ok cs;
  cf_ce : end_position a = Ok ce;
  cf_l : slice a cs ce = Ok lsub;
  cf_r : slice b cs ce = Ok rsub }.

Definition res_isref (lsub rsub : segment) : bool := speak rsub <? speak lsub.
Definition res_ll (lsub rsub : segment) := seg_labels (res_isref lsub rsub) lsub.
Definition res_rl (lsub rsub : segment) := seg_labels (res_isref lsub rsub) rsub.
Definition res_k (lsub rsub : segment) : nat := optimal_merge_index (map fst (res_ll lsub rsub)) (map fst (res_rl lsub rsub)).

Inductive outcome (a b a' b' : segment) (lsub rsub : segment) : Prop :=
| out_left : a' = seg_sub a (positions lsub) -> b' = b ->
    (length (res_ll lsub rsub) = length (res_rl lsub rsub) /\ res_k lsub rsub = 0%nat \/
     length (res_ll lsub rsub) <> length (res_rl lsub rsub) /\ sscore lsub <= sscore rsub) -> outcome a b a' b' lsub rsub
| out_right : a' = a -> b' = seg_sub b (positions rsub) ->
    (length (res_ll lsub rsub) = length (res_rl lsub rsub) /\ res_k lsub rsub = length (res_ll lsub rsub) /\ res_k lsub rsub <> 0%nat \/
     length (res_ll lsub rsub) <> length (res_rl lsub rsub) /\ sscore rsub < sscore lsub) -> outcome a b a' b' lsub rsub
| out_mid : length (res_ll lsub rsub) = length (res_rl lsub rsub) -> (0 < res_k lsub rsub < length (res_ll lsub rsub))%nat ->
    a' = seg_sub a (skipn (nth (res_k lsub rsub) (map snd (res_ll lsub rsub)) O) (positions lsub)) ->
    b' = seg_sub b (firstn (nth (res_k lsub rsub) (map snd (res_rl lsub rsub)) O) (positions rsub)) -> outcome a b a' b' lsub rsub.

Lemma argmax_aux_le l : forall i best bi, (bi < i)%nat -> (argmax_aux l i best bi < i + length l)%nat.
Proof. induction l as [|x t IH]; intros i best bi H; cbn [argmax_aux length]; [lia|].
  destruct (best <? x); [specialize (IH (S i) x i) | specialize (IH (S i) best bi)]; lia. Qed.
Lemma argmax_lt l : l <> [] -> (argmax l < length l)%nat.
Proof. destruct l as [|x t]; [congruence|]. intros _. cbn [argmax length]. pose proof (argmax_aux_le t 1 x 0). lia. Qed.
Lemma cumsum_length acc l : length (cumsum acc l) = length l.
Proof. revert acc; induction l as [|x t IH]; intros acc; cbn; [reflexivity | rewrite IH; reflexivity]. Qed.
Lemma optimal_merge_index_le ls rs : length ls = length rs -> (optimal_merge_index ls rs <= length ls)%nat.
Proof. intros H. unfold optimal_merge_index.
  set (l := map _ _). assert (Hl : length l = S (length ls)).
  { unfold l. rewrite map_length, combine_length, rev_length, !cumsum_length. cbn [length]. rewrite rev_length. lia. }
  assert (Hne : l <> []) by (intros E; rewrite E in Hl; discriminate). pose proof (argmax_lt l Hne). lia. Qed.

Theorem resolve_pair_inv a b a' b' : resolve_pair a b = Ok (a', b') ->
  (a' = a /\ b' = b /\ (seg_empty a = true \/ end_overlaps a b = Ok false)) \/
  exists cs ce lsub rsub, conflict a b cs ce lsub rsub /\ outcome a b a' b' lsub rsub.
Proof.
  unfold resolve_pair. intros H.
  destruct (seg_empty a) eqn:Ea; [injection H as <- <-; left; auto|].
  destruct (end_overlaps a b) as [ov|] eqn:Eov; [|discriminate]. cbn [bind] in H.
  destruct ov; cbn [negb] in H; [|injection H as <- <-; left; auto].
  destruct (start_position b) as [cs|] eqn:Ecs; [|discriminate]. cbn [bind] in H.
  destruct (end_position a) as [ce|] eqn:Ece; [|discriminate]. cbn [bind] in H.
  destruct (slice a cs ce) as [lsub|] eqn:Esl; [|discriminate]. cbn [bind] in H.
  destruct (slice b cs ce) as [rsub|] eqn:Esr; [|discriminate]. cbn [bind] in H.
  right. exists cs, ce, lsub, rsub. split; [constructor; assumption|].
  fold (res_isref lsub rsub) in H. fold (res_ll lsub rsub) in H. fold (res_rl lsub rsub) in H. fold (res_k lsub rsub) in H.
  destruct (Nat.eqb (length (res_ll lsub rsub)) (length (res_rl lsub rsub))) eqn:Elen.
  - apply Nat.eqb_eq in Elen. destruct (Nat.eqb (res_k lsub rsub) 0) eqn:Ek0.
    + apply Nat.eqb_eq in Ek0. injection H as <- <-. apply out_left; auto.
    + apply Nat.eqb_neq in Ek0. destruct (Nat.eqb (res_k lsub rsub) (length (res_ll lsub rsub))) eqn:Ekn.
      * apply Nat.eqb_eq in Ekn. injection H as <- <-. apply out_right; auto.
      * apply Nat.eqb_neq in Ekn. injection H as <- <-. apply out_mid; auto.
        assert (res_k lsub rsub <= length (res_ll lsub rsub))%nat.
        { unfold res_k. rewrite <- (map_length fst (res_ll lsub rsub)). apply optimal_merge_index_le. rewrite !map_length. exact Elen. }
        lia.
  - apply Nat.eqb_neq in Elen. destruct (sscore rsub <? sscore lsub) eqn:Esc.
    + apply Z.ltb_lt in Esc. injection H as <- <-. apply out_right; auto.
    + apply Z.ltb_ge in Esc. injection H as <- <-. apply out_left; auto.
Qed.

(* ------------------------------------------------------------------------------------------------ *)
(* one resolution step cuts one block out of each member                                              *)
(* ------------------------------------------------------------------------------------------------ *)
(* left member: a' = a[0..x) ++ a[y..), the dropped a[x..y) starts at or after the first position that is not
   "less on both sequences" than cs (index n), and only non-pairs follow it *)
Definition cutL (cs : pv) (a a' : segment) : Prop :=
  speak a' = speak a /\ sscore a' = sum_scores (positions a') /\
  exists n x y, (n <= x <= y)%nat /\ positions a' = firstn x (positions a) ++ skipn y (positions a) /\
    junk (skipn y (positions a)) /\
    (forall z, In z (firstn n (positions a)) -> less_both z cs = true) /\
    (forall z t, skipn n (positions a) = z :: t -> less_both z cs = false).
(* right member: b' = b[0..x) ++ b[y..), b[0..x) holds no pair, every dropped position is a non-pair or
   "less or equal on some sequence" than ce *)
Definition cutR (cs ce : pv) (b b' : segment) : Prop :=
  speak b' = speak b /\ sscore b' = sum_scores (positions b') /\
  exists x y, (x <= y)%nat /\ positions b' = firstn x (positions b) ++ skipn y (positions b) /\
    junk (firstn x (positions b)) /\
    (forall z, In z (firstn x (positions b)) -> less_both z cs = true) /\
    (forall z, In z (firstn (y - x) (skipn x (positions b))) -> sl_keep ce z = true).

Lemma junk_skipn_more l y y' : (y <= y')%nat -> junk (skipn y l) -> junk (skipn y' l).
Proof. intros Hy H. replace y' with ((y' - y) + y)%nat by lia. rewrite <- skipn_skipn'. apply (junk_Sub _ (skipn y l)); [apply Sub_skipn_self | exact H]. Qed.

Lemma cutL_refl cs a : sscore a = sum_scores (positions a) -> cutL cs a a.
Proof. intros H. split; [reflexivity|]. split; [exact H|].
  destruct (dropwhile_spec (fun p => less_both p cs) (positions a)) as (n & _ & Hn & Hd & Hs).
  exists n, (length (positions a)), (length (positions a)). split; [lia|]. rewrite firstn_all, skipn_all, app_nil_r.
  split; [reflexivity|]. split; [apply junk_nil|]. split; assumption. Qed.
Lemma cutR_refl cs ce b : sscore b = sum_scores (positions b) -> cutR cs ce b b.
Proof. intros H. split; [reflexivity|]. split; [exact H|]. exists 0%nat, 0%nat. split; [lia|]. cbn [firstn skipn app Nat.sub].
  split; [reflexivity|]. split; [apply junk_nil|]. split; intros z []. Qed.

Lemma start_first_not_less b cs : start_position b = Ok cs ->
  forall n, (forall z, In z (firstn n (positions b)) -> less_both z cs = true) -> junk (firstn n (positions b)).
Proof.
  intros Hcs n Hall. unfold start_position in Hcs. destruct (seg_empty b) eqn:Ee.
  - unfold seg_empty in Ee. destruct (positions b); [|discriminate]. rewrite firstn_nil. apply junk_nil.
  - unfold aligned in Hcs. destruct (filter is_pair (positions b)) as [|p0 t] eqn:Ef; [discriminate|]. injection Hcs as <-.
    destruct (filter_first_split is_pair (positions b) p0 t Ef) as (l1 & l2 & E & H1 & Hp0 & _). apply junk_filter in H1.
    destruct (Nat.le_gt_cases n (length l1)) as [Hle|Hgt].
    + rewrite E, firstn_app. replace (n - length l1)%nat with 0%nat by lia. cbn [firstn]. rewrite app_nil_r.
      apply (junk_Sub _ l1); [apply Sub_firstn_self | exact H1].
    + exfalso. assert (Hin : In p0 (firstn n (positions b))).
      { rewrite E, firstn_app. apply in_or_app. right. destruct (n - length l1)%nat as [|k] eqn:Ek; [lia|]. left. reflexivity. }
      specialize (Hall p0 Hin). unfold less_both, pv_of in Hall. unfold is_pair in Hp0. destruct (ap p0); try discriminate.
      rewrite pv_less_both_irrefl in Hall. discriminate. Qed.

Theorem resolve_pair_cut dir a b a' b' cs ce lsub rsub :
  seg_ord dir (positions a) -> seg_ord dir (positions b) ->
  sscore a = sum_scores (positions a) -> sscore b = sum_scores (positions b) ->
  conflict a b cs ce lsub rsub -> outcome a b a' b' lsub rsub -> cutL cs a a' /\ cutR cs ce b b'.
Proof.
  intros Hoa Hob Hsa Hsb [Hne Hov Hcs Hce Hl Hr] Hout.
  pose proof (seg_ord_nodupkey _ _ Hoa) as Hna. pose proof (seg_ord_nodupkey _ _ Hob) as Hnb.
  destruct (slice_spec a cs ce lsub Hl) as (n & m & El & _ & _ & Hn & Hdrop & Hstop & _ & Hjunk & _).
  specialize (Hjunk (pairs_le_end dir a ce Hoa Hce)).
  destruct (slice_spec b cs ce rsub Hr) as (n' & m' & Er & _ & _ & Hn' & Hdrop' & _ & Hkeep' & _ & _).
  pose proof (start_first_not_less b cs Hcs n' Hdrop') as Hjn'.
  assert (HL : forall li, cutL cs a (seg_sub a (skipn li (positions lsub)))).
  { intros li. rewrite El, skipn_firstn_comm, skipn_skipn'. split; [reflexivity|]. split; [reflexivity|].
    exists n, (li + n)%nat, ((m - li) + (li + n))%nat. split; [lia|]. split; [apply seg_sub_mid; exact Hna|].
    split; [apply (junk_skipn_more _ (m + n)); [lia | exact Hjunk]|]. split; assumption. }
  assert (HR : forall ri, cutR cs ce b (seg_sub b (firstn ri (positions rsub)))).
  { intros ri. rewrite Er, firstn_firstn. split; [reflexivity|]. split; [reflexivity|].
    exists n', (Nat.min ri m' + n')%nat. split; [lia|]. split; [apply seg_sub_mid; exact Hnb|].
    split; [exact Hjn'|]. split; [exact Hdrop'|]. intros z Hz. apply Hkeep'. rewrite Er.
    replace (Nat.min ri m' + n' - n')%nat with (Nat.min ri m') in Hz by lia.
    rewrite <- (firstn_skipn (Nat.min ri m') (firstn m' (skipn n' (positions b)))). apply in_or_app. left.
    rewrite firstn_firstn. replace (Nat.min (Nat.min ri m') m') with (Nat.min ri m') by lia. exact Hz. }
  destruct Hout as [-> -> _ | -> -> _ | _ _ -> ->].
  - split; [apply (HL 0%nat) | apply cutR_refl; exact Hsb].
  - split; [apply cutL_refl; exact Hsa|]. rewrite <- (firstn_all (positions rsub)). apply HR.
  - split; [apply HL | apply HR].
Qed.

(* ------------------------------------------------------------------------------------------------ *)
(* the shape that survives any number of steps: junk ++ contiguous sub-run of the input ++ junk       *)
(* ------------------------------------------------------------------------------------------------ *)
Definition shape (S0 l : list spos) : Prop :=
  exists n m L T, l = L ++ firstn m (skipn n S0) ++ T /\ junk L /\ junk T.

Lemma shape_refl S0 : shape S0 S0.
Proof. exists 0%nat, (length S0), [], []. cbn [skipn app]. rewrite firstn_all, app_nil_r. split; [reflexivity|]. split; apply junk_nil. Qed.
Lemma shape_junk S0 l : junk l -> shape S0 l.
Proof. intros H. exists 0%nat, 0%nat, l, []. cbn. rewrite app_nil_r. split; [reflexivity|]. split; [exact H | apply junk_nil]. Qed.

Lemma shape_cutL S0 l x y : shape S0 l -> junk (skipn y l) -> shape S0 (firstn x l ++ skipn y l).
Proof.
  intros (n & m & L & T & -> & HL & HT) Hy. set (M := firstn m (skipn n S0)) in *.
  destruct (Nat.le_gt_cases x (length L)) as [Hx|Hx].
  - apply shape_junk. apply junk_app; [|exact Hy]. rewrite firstn_app. replace (x - length L)%nat with 0%nat by lia. cbn [firstn]. rewrite app_nil_r.
    apply (junk_Sub _ L); [apply Sub_firstn_self | exact HL].
  - rewrite firstn_app, (firstn_all2 L) by lia. rewrite firstn_app.
    exists n, (Nat.min (x - length L) m), L, (firstn (x - length L - length M) T ++ skipn y (L ++ M ++ T)).
    rewrite <- !app_assoc. split; [unfold M; rewrite firstn_firstn; reflexivity|]. split; [exact HL|].
    apply junk_app; [apply (junk_Sub _ T); [apply Sub_firstn_self | exact HT] | exact Hy]. Qed.

Lemma shape_cutR S0 l x y : shape S0 l -> junk (firstn x l) -> shape S0 (firstn x l ++ skipn y l).
Proof.
  intros (n & m & L & T & -> & HL & HT) Hx. set (M := firstn m (skipn n S0)) in *.
  destruct (Nat.le_gt_cases (length L + length M) y) as [Hy|Hy].
  - apply shape_junk. apply junk_app; [exact Hx|]. rewrite app_assoc, skipn_app, (skipn_all2 (L ++ M)) by (rewrite app_length; lia). cbn [app].
    apply (junk_Sub _ T); [apply Sub_skipn_self | exact HT].
  - rewrite (skipn_app y L). rewrite (skipn_app (y - length L) M). replace (y - length L - length M)%nat with 0%nat by lia. cbn [skipn].
    exists ((y - length L) + n)%nat, (m - (y - length L))%nat, (firstn x (L ++ M ++ T) ++ skipn y L), T.
    rewrite <- !app_assoc. split; [unfold M; rewrite skipn_firstn_comm, skipn_skipn'; reflexivity|]. split; [|exact HT].
    apply junk_app; [exact Hx | apply (junk_Sub _ L); [apply Sub_skipn_self | exact HL]]. Qed.

Lemma Sub_cut {A} (l : list A) x y : (x <= y)%nat -> Sub (firstn x l ++ skipn y l) l.
Proof. intros H. rewrite <- (firstn_skipn x l) at 3. apply Sub_app; [apply Sub_refl|].
  replace y with ((y - x) + x)%nat by lia. rewrite <- skipn_skipn'. apply Sub_skipn_self. Qed.

(* what a chain member looks like after any number of resolution steps, relative to the input segment s0 *)
Record derived (s0 s : segment) : Prop := {
  dv_peak : speak s = speak s0;
  dv_score : sscore s = sum_scores (positions s);
  dv_sub : Sub (positions s) (positions s0);
  dv_shape : shape (positions s0) (positions s) }.

Lemma derived_refl s0 : sscore s0 = sum_scores (positions s0) -> derived s0 s0.
Proof. intros H. constructor; [reflexivity | exact H | apply Sub_refl | apply shape_refl]. Qed.
Lemma derived_cutL s0 a a' cs : derived s0 a -> cutL cs a a' -> derived s0 a'.
Proof. intros [Hp Hs Hsub Hsh] (Hp' & Hs' & n & x & y & Hxy & E & Hj & _). constructor.
  - congruence.
  - exact Hs'.
  - rewrite E. apply (Sub_trans _ (positions a)); [apply Sub_cut; lia | exact Hsub].
  - rewrite E. apply shape_cutL; assumption. Qed.
Lemma derived_cutR s0 b b' cs ce : derived s0 b -> cutR cs ce b b' -> derived s0 b'.
Proof. intros [Hp Hs Hsub Hsh] (Hp' & Hs' & x & y & Hxy & E & Hj & _). constructor.
  - congruence.
  - exact Hs'.
  - rewrite E. apply (Sub_trans _ (positions b)); [apply Sub_cut; lia | exact Hsub].
  - rewrite E. apply shape_cutR; assumption. Qed.

Theorem resolve_pair_derived dir a0 b0 a b a' b' :
  seg_ord dir (positions a0) -> seg_ord dir (positions b0) -> derived a0 a -> derived b0 b ->
  resolve_pair a b = Ok (a', b') -> derived a0 a' /\ derived b0 b'.
Proof.
  intros Ha0 Hb0 Da Db H. destruct (resolve_pair_inv a b a' b' H) as [(-> & -> & _)|(cs & ce & lsub & rsub & Hc & Ho)]; [split; assumption|].
  assert (Hoa : seg_ord dir (positions a)) by (apply (SS_Sub _ _ _ (dv_sub _ _ Da) Ha0)).
  assert (Hob : seg_ord dir (positions b)) by (apply (SS_Sub _ _ _ (dv_sub _ _ Db) Hb0)).
  destruct (resolve_pair_cut dir a b a' b' cs ce lsub rsub Hoa Hob (dv_score _ _ Da) (dv_score _ _ Db) Hc Ho) as (HL & HR).
  split; [apply (derived_cutL a0 a a' cs Da HL) | apply (derived_cutR b0 b b' cs ce Db HR)]. Qed.

(* ------------------------------------------------------------------------------------------------ *)
(* the resolver loop: any index-wise property preserved by resolve_pair is preserved by the loop      *)
(* ------------------------------------------------------------------------------------------------ *)
Lemma set_nth_length {A} (l : list A) i x : length (set_nth l i x) = length l.
Proof. revert i; induction l as [|y t IH]; intros [|i]; cbn; try reflexivity. rewrite IH. reflexivity. Qed.
Lemma nth_error_set_nth {A} (l : list A) i x j :
  nth_error (set_nth l i x) j = if Nat.eqb j i then (if Nat.ltb i (length l) then Some x else None) else nth_error l j.
Proof. revert i j; induction l as [|y t IH]; intros [|i] [|j]; cbn [set_nth nth_error length Nat.eqb]; try reflexivity.
  - destruct (Nat.eqb j i); reflexivity.
  - rewrite IH. destruct (Nat.eqb j i); [|reflexivity]. change (S i <? S (length t))%nat with (i <? length t)%nat. reflexivity. Qed.

Section Pointwise.
Variable PW : nat -> segment -> Prop.
(* the loop only ever resolves (member i0, member i1) with i0 < i1 and member i1 still holding a pair *)
Hypothesis Hstep : forall i0 i1 a b a' b', (i0 < i1)%nat -> has_pairs b = true ->
  PW i0 a -> PW i1 b -> resolve_pair a b = Ok (a', b') -> PW i0 a' /\ PW i1 b'.
Definition allPW (l : list segment) : Prop := forall i s, nth_error l i = Some s -> PW i s.

Lemma allPW_set l i x : allPW l -> PW i x -> allPW (set_nth l i x).
Proof. intros H Hx j s Hj. rewrite nth_error_set_nth in Hj. destruct (Nat.eqb j i) eqn:E.
  - apply Nat.eqb_eq in E. subst j. destruct (i <? length l)%nat; [injection Hj as <-; exact Hx | discriminate].
  - apply H. exact Hj. Qed.

Lemma retry_pointwise fuel : forall l stack i1 l' st', Forall (fun i => (i < i1)%nat) stack -> allPW l ->
  retry fuel l stack i1 = Ok (l', st') -> allPW l' /\ length l' = length l /\ exists k, st' = skipn k stack.
Proof. induction fuel as [|f IH]; intros l stack i1 l' st' Hst Hl H; cbn [retry] in H; [injection H as <- <-; split; [|split]; auto; exists 0%nat; reflexivity|].
  destruct stack as [|i0 rest]; [injection H as <- <-; split; [|split]; auto; exists 0%nat; reflexivity|].
  destruct (nth_error l i1) as [b|] eqn:Eb; [|injection H as <- <-; split; [|split]; auto; exists 0%nat; reflexivity].
  destruct (has_pairs b) eqn:Ehb; [|injection H as <- <-; split; [|split]; auto; exists 0%nat; reflexivity].
  destruct (nth_error l i0) as [a|] eqn:Ea; [|discriminate].
  destruct (resolve_pair a b) as [[a' b']|] eqn:Er; [|discriminate]. cbn [bind fst snd] in H.
  apply Forall_cons_iff in Hst. destruct Hst as (Hi0 & Hrest).
  destruct (Hstep i0 i1 a b a' b' Hi0 Ehb (Hl _ _ Ea) (Hl _ _ Eb) Er) as (Ha' & Hb').
  assert (Hl2 : allPW (set_nth (set_nth l i0 a') i1 b')) by (apply allPW_set; [apply allPW_set|]; assumption).
  destruct (has_pairs a').
  - injection H as <- <-. split; [exact Hl2|]. split; [rewrite !set_nth_length; reflexivity | exists 0%nat; reflexivity].
  - destruct (IH _ _ _ _ _ Hrest Hl2 H) as (H1 & H2 & k & H3). split; [exact H1|]. split; [rewrite H2, !set_nth_length; reflexivity|]. exists (S k). exact H3. Qed.

Lemma loop_pointwise n : forall i1 l stack out, Forall (fun i => (i < i1)%nat) stack -> allPW l ->
  resolve_loop n i1 l stack = Ok out -> allPW out /\ length out = length l.
Proof. induction n as [|n IH]; intros i1 l stack out Hst Hl H; cbn [resolve_loop] in H; [injection H as <-; auto|].
  destruct (retry (S (length stack)) l stack i1) as [[l' st']|] eqn:Er; [|discriminate]. cbn [bind fst snd] in H.
  destruct (retry_pointwise _ _ _ _ _ _ Hst Hl Er) as (Hl' & Hlen & k & Hk).
  assert (Hst' : Forall (fun i => (i < S i1)%nat) st').
  { rewrite Hk. rewrite Forall_forall in *. intros i Hi. assert (In i stack) by (apply (Sub_in _ _ _ (Sub_skipn_self k stack) Hi)). specialize (Hst i H0). lia. }
  refine ((fun X => conj (proj1 X) (eq_trans (proj2 X) Hlen)) (IH _ _ _ _ _ Hl' H)).
  destruct (nth_error l' i1) as [b|]; [|exact Hst']. destruct (has_pairs b); [|exact Hst']. constructor; [lia | exact Hst']. Qed.
End Pointwise.

Theorem resolve_loop_derived dir ch out :
  Forall (fun s => seg_ord dir (positions s) /\ sscore s = sum_scores (positions s)) ch ->
  resolve_loop (length ch) 0 ch [] = Ok out -> Forall2 derived ch out.
Proof.
  intros Hwf H. assert (Hst : Forall (fun i => (i < 0)%nat) []) by constructor. set (PW := fun i s => exists s0, nth_error ch i = Some s0 /\ derived s0 s).
  assert (Hstep : forall i0 i1 a b a' b', (i0 < i1)%nat -> has_pairs b = true -> PW i0 a -> PW i1 b -> resolve_pair a b = Ok (a', b') -> PW i0 a' /\ PW i1 b').
  { intros i0 i1 a b a' b' _ _ (a0 & Ha0 & Da) (b0 & Hb0 & Db) Er. rewrite Forall_forall in Hwf.
    destruct (resolve_pair_derived dir a0 b0 a b a' b' (proj1 (Hwf _ (nth_error_In _ _ Ha0))) (proj1 (Hwf _ (nth_error_In _ _ Hb0))) Da Db Er) as (H1 & H2).
    split; [exists a0 | exists b0]; split; assumption. }
  assert (H0 : allPW PW ch).
  { intros i s Hi. exists s. split; [exact Hi|]. apply derived_refl. rewrite Forall_forall in Hwf. apply (Hwf _ (nth_error_In _ _ Hi)). }
  destruct (loop_pointwise PW Hstep _ _ _ _ _ Hst H0 H) as (Hout & Hlen).
  clear - Hout Hlen. unfold allPW, PW in Hout. revert out Hout Hlen. induction ch as [|c ch IH]; intros [|o out] Hout Hlen; try discriminate; constructor.
  - destruct (Hout 0%nat o eq_refl) as (s0 & E & D). injection E as <-. exact D.
  - apply IH; [|cbn in Hlen; lia]. intros i s Hi. apply (Hout (S i) s Hi). Qed.

(* ------------------------------------------------------------------------------------------------ *)
(* the chainer: what Core.chain returns                                                               *)
(* ------------------------------------------------------------------------------------------------ *)
Fixpoint adjacent {A} (R : A -> A -> Prop) (l : list A) : Prop :=
  match l with x :: (y :: _) as t => R x y /\ adjacent R t | _ => True end.
Lemma adjacent_snoc {A} (R : A -> A -> Prop) c y s : adjacent R (c ++ [y]) -> R y s -> adjacent R ((c ++ [y]) ++ [s]).
Proof. induction c as [|x c IH]; cbn [app]; intros H Hr; [cbn; auto|].
  destruct c as [|x' c]; cbn [app] in *; [cbn in *; tauto|]. destruct H as (H1 & H2). split; [exact H1 | apply IH; assumption]. Qed.
Lemma adjacent_tl {A} (R : A -> A -> Prop) x l : adjacent R (x :: l) -> adjacent R l.
Proof. destruct l; cbn; tauto. Qed.

Definition admissible (P : params) (u v : segment) : Prop := exists x, join_score P u v = Ok (Some x).

Notation entry := (segment * Q * option nat)%type.
Definition TI (P : params) (pre : list segment) (tbl : list entry) : Prop :=
  length tbl = length pre /\
  forall k s c p, nth_error tbl k = Some (s, c, p) -> nth_error pre k = Some s /\
    forall j, p = Some j -> (j < k)%nat /\ exists sj cj pj, nth_error tbl j = Some (sj, cj, pj) /\ admissible P sj s.

Lemma best_prev_prev P cur done : forall j0 best bp r, best_prev P cur done j0 best bp = Ok r ->
  snd r = bp \/ exists i sj cj pj, snd r = Some (j0 + i)%nat /\ nth_error done i = Some (sj, cj, pj) /\ admissible P sj cur.
Proof. induction done as [|[[sj cj] pj] t IH]; intros j0 best bp r H; cbn [best_prev] in H; [injection H as <-; left; reflexivity|].
  destruct (join_score P sj cur) as [[x|]|] eqn:Ej; cbn [bind] in H; [| |discriminate].
  - destruct (Qltb best (Qred (cj + x))).
    + destruct (IH _ _ _ _ H) as [E|(i & sj' & cj' & pj' & E & Hn & Ha)].
      * right. exists 0%nat, sj, cj, pj. rewrite Nat.add_0_r. split; [exact E|]. split; [reflexivity | exists x; exact Ej].
      * right. exists (S i), sj', cj', pj'. split; [rewrite E; f_equal; lia|]. split; assumption.
    + destruct (IH _ _ _ _ H) as [E|(i & sj' & cj' & pj' & E & Hn & Ha)]; [left; exact E|].
      right. exists (S i), sj', cj', pj'. split; [rewrite E; f_equal; lia|]. split; assumption.
  - destruct (IH _ _ _ _ H) as [E|(i & sj' & cj' & pj' & E & Hn & Ha)]; [left; exact E|].
    right. exists (S i), sj', cj', pj'. split; [rewrite E; f_equal; lia|]. split; assumption. Qed.

Lemma dp_TI P : forall todo done pre0 tbl, TI P pre0 done -> dp P todo done = Ok tbl -> TI P (pre0 ++ todo) tbl.
Proof. induction todo as [|s t IH]; intros done pre0 tbl HT H; cbn [dp] in H; [injection H as <-; rewrite app_nil_r; exact HT|].
  destruct (best_prev P s done 0 0%Q None) as [bp|] eqn:Eb; [|discriminate]. cbn [bind] in H.
  replace (pre0 ++ s :: t) with ((pre0 ++ [s]) ++ t) by (rewrite <- app_assoc; reflexivity).
  refine (IH _ _ _ _ H). destruct HT as (Hlen & Hent). split; [rewrite !app_length; cbn; lia|].
  intros k s' c p Hk. destruct (Nat.lt_ge_cases k (length done)) as [Hlt|Hge].
  - rewrite nth_error_app1 in Hk by exact Hlt. destruct (Hent k s' c p Hk) as (H1 & H2). split; [rewrite nth_error_app1 by lia; exact H1|].
    intros j Hj. destruct (H2 j Hj) as (Hjk & sj & cj & pj & Hn & Ha). split; [exact Hjk|]. exists sj, cj, pj. split; [rewrite nth_error_app1 by lia; exact Hn | exact Ha].
  - assert (k = length done).
    { assert (Hk' : (k < length (done ++ [(s, Qred (fst bp + inject_Z (sscore s)), snd bp)]))%nat) by (apply nth_error_Some; congruence).
      rewrite app_length in Hk'. cbn in Hk'. lia. }
    subst k. rewrite nth_error_app2, Nat.sub_diag in Hk by lia. cbn in Hk. injection Hk as <- <- <-.
    split; [rewrite nth_error_app2, Hlen, Nat.sub_diag by lia; reflexivity|].
    intros j Hj. destruct (best_prev_prev P s done 0 0%Q None bp Eb) as [E|(i & sj & cj & pj & E & Hn & Ha)]; [congruence|].
    rewrite E in Hj. injection Hj as <-. cbn [Nat.add]. split; [apply nth_error_Some; congruence|].
    exists sj, cj, pj. split; [rewrite nth_error_app1 by (apply nth_error_Some; congruence); exact Hn | exact Ha]. Qed.

Lemma backtrack_spec P pre tbl : TI P pre tbl -> forall k s c p, nth_error tbl k = Some (s, c, p) ->
  exists ch, (forall fuel acc, (k < fuel)%nat -> backtrack fuel tbl k acc = ch ++ acc) /\
             Sub ch (firstn (S k) pre) /\ adjacent (admissible P) ch /\ exists c0, ch = c0 ++ [s].
Proof.
  intros (Hlen & Hent) k. induction k as [k IH] using lt_wf_ind. intros s c p Hk.
  destruct (Hent k s c p Hk) as (Hp & Hprev). rewrite (firstn_S_nth pre k _ Hp).
  destruct p as [j|].
  - destruct (Hprev j eq_refl) as (Hj & sj & cj & pj & Hn & Ha).
    destruct (IH j Hj sj cj pj Hn) as (cj' & Hbt & Hsub & Hadj & c0 & Ec0).
    exists (cj' ++ [s]). split; [|split; [|split]].
    + intros [|f] acc Hf; [lia|]. cbn [backtrack]. rewrite Hk. rewrite Hbt by lia. rewrite <- app_assoc. reflexivity.
    + apply Sub_snoc. apply (Sub_firstn_le _ _ (S j) k); [lia | exact Hsub].
    + rewrite Ec0 in *. apply adjacent_snoc; assumption.
    + exists cj'. reflexivity.
  - exists [s]. split; [|split; [|split]].
    + intros [|f] acc Hf; [lia|]. cbn [backtrack]. rewrite Hk. reflexivity.
    + apply (Sub_snoc []). constructor.
    + exact I.
    + exists []. reflexivity. Qed.

Lemma best_index_lt l : forall i best bi, (bi < i + length l)%nat -> (best_index l i best bi < i + length l)%nat.
Proof. induction l as [|[[s c] p] t IH]; intros i best bi H; cbn [best_index length] in *; [lia|].
  destruct (Qltb best c); [specialize (IH (S i) c i) | specialize (IH (S i) best bi)]; lia. Qed.

Lemma keys_snd l ks : keys l = Ok ks -> map snd ks = l.
Proof. revert ks; induction l as [|s t IH]; intros ks H; cbn [keys] in H; [injection H as <-; reflexivity|].
  destruct (order_key s) as [k|]; [|discriminate]. cbn [bind] in H. destruct (keys t) as [r|]; [|discriminate]. cbn [bind] in H.
  injection H as <-. cbn. f_equal. apply IH. reflexivity. Qed.

(* chain = (an admissible subsequence of the pre-ordered non-empty segments) ++ (the empty ones); segments the chain does not select are dropped *)
Theorem chain_spec P segs ch : chain P segs = Ok ch ->
  exists pre sel, Permutation pre (filter (fun s => negb (seg_empty s)) segs) /\ Sub sel pre /\
    adjacent (admissible P) sel /\ ch = sel ++ filter seg_empty segs /\ (pre <> [] -> sel <> []).
Proof.
  unfold chain. intros H. destruct (keys (filter (fun s => negb (seg_empty s)) segs)) as [ks|] eqn:Ek; [|discriminate]. cbn [bind] in H.
  set (pre := map snd (sort_by fst ks)) in *.
  assert (Hperm : Permutation pre (filter (fun s => negb (seg_empty s)) segs)).
  { unfold pre. rewrite <- (keys_snd _ _ Ek). apply Permutation_map. apply sort_by_perm. }
  exists pre. destruct pre as [|s0 pre'] eqn:Epre.
  - injection H as <-. exists []. split; [exact Hperm|]. split; [constructor|]. split; [exact I|]. split; [reflexivity | congruence].
  - rewrite <- Epre in *. destruct (dp P pre []) as [tbl|] eqn:Edp; [|discriminate]. cbn [bind] in H. injection H as <-.
    assert (HT : TI P pre tbl).
    { apply (dp_TI P pre [] [] tbl); [|exact Edp]. split; [reflexivity|]. intros [|k] ? ? ? Hk; discriminate. }
    destruct tbl as [|[[s c] p] tbl'] eqn:Etbl; [destruct HT as (Hl & _); rewrite Epre in Hl; discriminate|]. rewrite <- Etbl in *.
    set (b := best_index tbl 0 c 0).
    assert (Hb : (b < length tbl)%nat). { pose proof (best_index_lt tbl 0 c 0). rewrite Etbl in *. cbn [length] in *. unfold b. rewrite Etbl. cbn [length]. lia. }
    destruct (nth_error tbl b) as [[[sb cb] pb]|] eqn:Eb; [|apply nth_error_None in Eb; lia].
    destruct (backtrack_spec P pre tbl HT b sb cb pb Eb) as (sel & Hbt & Hsub & Hadj & c0 & Ec0).
    exists sel. split; [exact Hperm|]. split; [apply (Sub_firstn _ _ _ Hsub)|]. split; [exact Hadj|].
    split; [rewrite (Hbt (length tbl) [] Hb), app_nil_r; reflexivity|]. intros _. rewrite Ec0. destruct c0; discriminate.
Qed.

Lemma chain_in P segs ch : chain P segs = Ok ch -> forall s, In s ch -> In s segs.
Proof. intros H s Hs. destruct (chain_spec P segs ch H) as (pre & sel & Hperm & Hsub & _ & -> & _).
  apply in_app_or in Hs. destruct Hs as [Hs|Hs]; [|apply filter_In in Hs; apply Hs].
  apply (Sub_in _ _ _ Hsub) in Hs. apply (Permutation_in _ Hperm) in Hs. apply filter_In in Hs. apply Hs. Qed.

(* ------------------------------------------------------------------------------------------------ *)
(* C15, first part, unconditional form                                                                *)
(* ------------------------------------------------------------------------------------------------ *)
(* input well-formedness used here: positions in segment order carry strictly ascending labels, score is the sum *)
Definition seg_wf0 (dir : Z) (s : segment) : Prop := seg_ord dir (positions s) /\ sscore s = sum_scores (positions s).

Theorem resolve_conflicts_derived dir P segs out :
  Forall (seg_wf0 dir) segs -> resolve_conflicts P segs = Ok out ->
  ((length segs < 2)%nat /\ out = segs) \/
  exists pre sel, Permutation pre (filter (fun s => negb (seg_empty s)) segs) /\ Sub sel pre /\ adjacent (admissible P) sel /\
    (pre <> [] -> sel <> []) /\ chain P segs = Ok (sel ++ filter seg_empty segs) /\
    Forall2 derived (sel ++ filter seg_empty segs) out.
Proof.
  intros Hwf H. unfold resolve_conflicts in H. destruct (length segs <? 2)%nat eqn:El.
  - injection H as <-. left. split; [apply Nat.ltb_lt; exact El | reflexivity].
  - right. destruct (chain P segs) as [ch|] eqn:Ech; [|discriminate]. cbn [bind] in H.
    destruct (chain_spec P segs ch Ech) as (pre & sel & Hperm & Hsub & Hadj & E & Hne). exists pre, sel.
    split; [exact Hperm|]. split; [exact Hsub|]. split; [exact Hadj|]. split; [exact Hne|]. split; [rewrite <- E; reflexivity|]. rewrite <- E.
    apply (resolve_loop_derived dir ch out); [|exact H]. rewrite Forall_forall in *. intros s Hs. apply Hwf. apply (chain_in P segs ch Ech s Hs). Qed.
Print Assumptions resolve_conflicts_derived.

(* C15, part 7: from the loop to resolve_conflicts (chain + loop). *)
From Coq Require Import ZArith QArith List Bool Lia Sorting.Sorted Sorting.Permutation.
Import ListNotations.
Require Import Py Pairing Core PyProofs ConflictProofs DPProofs ResolverProofs1 ResolverProofs2 ResolverProofs3 ResolverProofs4 ResolverProofs5 ResolverProofs6.
Open Scope Z_scope.

Lemma keys_ok l ks : keys l = Ok ks -> forall s, In s l -> exists k, order_key s = Ok k.
Proof. revert ks; induction l as [|x t IH]; intros ks H s Hs; [destruct Hs|]. cbn [keys] in H.
  destruct (order_key x) as [k|] eqn:Ek; [|discriminate]. cbn [bind] in H. destruct (keys t) as [r|] eqn:Er; [|discriminate].
  destruct Hs as [<-|Hs]; [exists k; exact Ek | apply (IH r eq_refl s Hs)]. Qed.

Lemma order_key_has_pairs s k : order_key s = Ok k -> seg_empty s = false -> has_pairs s = true.
Proof. unfold order_key, start_position, has_pairs. intros H He. rewrite He in H. destruct (aligned s); [discriminate | reflexivity]. Qed.

Lemma empty_no_pairs s : seg_empty s = true -> has_pairs s = false.
Proof. unfold seg_empty, has_pairs, aligned. destruct (positions s); [reflexivity | discriminate]. Qed.

(* every non-empty segment handed to a successful chain has a pair *)
Lemma chain_nonempty_have_pairs P segs ch : chain P segs = Ok ch -> forall s, In s segs -> seg_empty s = false -> has_pairs s = true.
Proof. unfold chain. intros H s Hs He. destruct (keys (filter (fun s => negb (seg_empty s)) segs)) as [ks|] eqn:Ek; [|discriminate].
  destruct (keys_ok _ _ Ek s) as (k & Hk); [apply filter_In; split; [exact Hs | rewrite He; reflexivity]|]. apply (order_key_has_pairs s k Hk He). Qed.

Lemma small_disjoint dir (l : list segment) : (length l < 2)%nat -> (forall s, In s l -> seg_ord dir (positions s)) -> segments_disjoint dir l.
Proof. intros Hlen H. destruct l as [|s [|s' rest]]; [| |cbn in Hlen; lia].
  - split; [intros s [] | intros [|i] j ? ? ? ? _ Hi; discriminate].
  - split; [intros s' [<-|[]]; apply seg_ord_aligned; apply H; left; reflexivity|].
    intros [|i] [|j] si sj p p' Hij Hi Hj; try lia; destruct j; discriminate. Qed.

Section Assemble.
Variables (dir : Z) (P : params) (segs out : list segment).
Hypothesis Hcwf : forall s, In s segs -> cwf dir s.
Hypothesis Hcoh : forall s s', In s segs -> In s' segs -> coherent dir (positions s) (positions s').
Hypothesis Hres : resolve_conflicts P segs = Ok out.

Lemma sel_facts pre sel : Permutation pre (filter (fun s => negb (seg_empty s)) segs) -> Sub sel pre -> chain P segs = Ok (sel ++ filter seg_empty segs) ->
  (forall s, In s (sel ++ filter seg_empty segs) -> In s segs) /\
  (forall s, In s sel -> seg_ord dir (positions s) /\ has_pairs s = true) /\
  (forall i s, nth_error (sel ++ filter seg_empty segs) i = Some s -> has_pairs s = true -> nth_error sel i = Some s).
Proof. intros Hperm Hsub Hch. split; [intros s Hs; apply (chain_in P segs _ Hch s Hs)|].
  assert (Hsel : forall s, In s sel -> In s segs /\ seg_empty s = false).
  { intros s Hs. apply (Sub_in _ _ _ Hsub) in Hs. apply (Permutation_in _ Hperm) in Hs. apply filter_In in Hs. destruct Hs as (Hs & He). split; [exact Hs|]. apply negb_true_iff in He. exact He. }
  split.
  - intros s Hs. destruct (Hsel s Hs) as (Hin & He). split; [apply (Hcwf s Hin) | apply (chain_nonempty_have_pairs P segs _ Hch s Hin He)].
  - intros i s Hi Hp. destruct (Nat.lt_ge_cases i (length sel)) as [Hlt|Hge]; [rewrite nth_error_app1 in Hi by exact Hlt; exact Hi|].
    rewrite nth_error_app2 in Hi by exact Hge. apply nth_error_In in Hi. apply filter_In in Hi. destruct Hi as (_ & He). rewrite (empty_no_pairs s He) in Hp. discriminate. Qed.

(* the chain and the loop that resolve_conflicts ran *)
Lemma resolve_conflicts_cases :
  ((length segs < 2)%nat /\ out = segs) \/
  exists pre sel, Permutation pre (filter (fun s => negb (seg_empty s)) segs) /\ Sub sel pre /\ adjacent (admissible P) sel /\
    (pre <> [] -> sel <> []) /\ chain P segs = Ok (sel ++ filter seg_empty segs) /\
    resolve_loop (length (sel ++ filter seg_empty segs)) 0 (sel ++ filter seg_empty segs) [] = Ok out.
Proof.
  unfold resolve_conflicts in Hres. destruct (length segs <? 2)%nat eqn:El.
  - injection Hres as <-. left. split; [apply Nat.ltb_lt; exact El | reflexivity].
  - right. destruct (chain P segs) as [ch|] eqn:Ech; [|discriminate]. cbn [bind] in Hres.
    destruct (chain_spec P segs ch Ech) as (pre & sel & Hperm & Hsub & Hadj & E & Hne). subst ch. exists pre, sel. repeat (split; [assumption|]). split; [reflexivity | exact Hres]. Qed.

(* C15_subrun, full: every member of the result is a contiguous sub-run of the chain member at the same index *)
Theorem resolve_conflicts_subrun :
  ((length segs < 2)%nat /\ out = segs) \/
  exists pre sel, Permutation pre (filter (fun s => negb (seg_empty s)) segs) /\ Sub sel pre /\ adjacent (admissible P) sel /\
    (pre <> [] -> sel <> []) /\ chain P segs = Ok (sel ++ filter seg_empty segs) /\
    Forall2 subrun_of (sel ++ filter seg_empty segs) out.
Proof.
  destruct resolve_conflicts_cases as [Hsmall|(pre & sel & Hperm & Hsub & Hadm & Hne & Hch & Hloop)]; [left; exact Hsmall|].
  right. exists pre, sel. repeat (split; [assumption|]).
  destruct (sel_facts pre sel Hperm Hsub Hch) as (Hin & Hsel & Hidx). set (ch := sel ++ filter seg_empty segs) in *.
  apply (resolve_loop_subrun dir ch out); [intros c Hc; apply Hcwf; apply Hin; exact Hc | intros c c' Hc Hc'; apply Hcoh; apply Hin; assumption | | exact Hloop].
  intros t i ct cb et sb Hti Ht Hi Hpt Hpi Het Hsb.
  apply (chain_far_apart dir P sel Hsel Hadm t i ct cb et sb Hti (Hidx t ct Ht Hpt) (Hidx i cb Hi Hpi) Het Hsb).
Qed.

(* C15_disjoint, reduced to the resolution of ADJACENT chain members (the left one possibly trimmed at its start) *)
Definition adjacent_resolutions_separate (sel : list segment) : Prop :=
  forall t ct cb m a' b', nth_error sel t = Some ct -> nth_error sel (S t) = Some cb ->
    resolve_pair (seg_create (skipn m (positions ct)) (speak ct)) cb = Ok (a', b') ->
    has_pairs a' = true -> has_pairs b' = true -> psep (positions a') (positions b').

Theorem resolve_conflicts_disjoint_if_adjacent :
  (forall sel, adjacent (admissible P) sel -> chain P segs = Ok (sel ++ filter seg_empty segs) -> adjacent_resolutions_separate sel) ->
  segments_disjoint dir out.
Proof.
  intros Hadjsep. destruct resolve_conflicts_cases as [(Hlen & ->)|(pre & sel & Hperm & Hsub & Hadm & Hne & Hch & Hloop)].
  - apply small_disjoint; [exact Hlen | intros s Hs; apply (Hcwf s Hs)].
  - destruct (sel_facts pre sel Hperm Hsub Hch) as (Hin & Hsel & Hidx). set (ch := sel ++ filter seg_empty segs) in *.
    apply (resolve_loop_disjoint_if_adjacent dir ch out); [intros c Hc; apply Hcwf; apply Hin; exact Hc | intros c c' Hc Hc'; apply Hcoh; apply Hin; assumption | | | exact Hloop].
    + intros t i ct cb et sb Hti Ht Hi Hpt Hpi Het Hsb.
      apply (chain_far_apart dir P sel Hsel Hadm t i ct cb et sb Hti (Hidx t ct Ht Hpt) (Hidx i cb Hi Hpi) Het Hsb).
    + intros t ct cb m a' b' Ht Hst Hpcb Hr Hpa' Hpb'.
      assert (Hpct : has_pairs ct = true).
      { assert (Hsub' : Sub (positions a') (positions ct)).
        { pose proof (Hcwf ct (Hin ct (nth_error_In _ _ Ht))) as (Hoct & _). pose proof (Hcwf cb (Hin cb (nth_error_In _ _ Hst))) as (Hocb & Hscb & _).
          destruct (resolve_pair_Sub dir (seg_create (skipn m (positions ct)) (speak ct)) cb a' b' (SS_Sub _ _ _ (Sub_skipn_self m _) Hoct) Hocb eq_refl Hscb Hr) as (X & _).
          apply (Sub_trans _ _ _ X). apply Sub_skipn_self. }
        apply has_pairs_in in Hpa'. destruct Hpa' as (p & Hp & Hpp). apply has_pairs_in. exists p. split; [apply (Sub_in _ _ _ Hsub' Hp) | exact Hpp]. }
      apply (Hadjsep sel Hadm Hch t ct cb m a' b' (Hidx t ct Ht Hpct) (Hidx (S t) cb Hst Hpcb) Hr Hpa' Hpb').
Qed.
End Assemble.
Print Assumptions resolve_conflicts_subrun.
Print Assumptions resolve_conflicts_disjoint_if_adjacent.

(* C03: run-length aggregation, duplicate filter, shape, text codec *)
From Coq Require Import ZArith List Bool Lia String Ascii Decimal DecimalString DecimalNat Arith.
From Coq Require DecimalFacts.
Import ListNotations.
Require Import Py Cigar CigarProofs.

Lemma op_eqb_eq a b : op_eqb a b = true <-> a = b.
Proof. destruct a, b; cbn; split; congruence. Qed.

(* runs are well formed: counts >= 1 and adjacent runs carry different operations *)
Fixpoint runs_ok (rs : list (nat * op)) : Prop :=
  match rs with
  | [] => True
  | (n, o) :: t => (1 <= n)%nat /\ match t with [] => True | (_, o') :: _ => o <> o' end /\ runs_ok t
  end.

Theorem one_pair_before_F1 : aggregate_gen false [M] = Ok [].
Proof. reflexivity. Qed.

Lemma rep_snoc {A} n (x : A) : rep n x ++ [x] = rep (S n) x.
Proof. induction n as [|n IH]; [reflexivity|]. cbn [rep Datatypes.app]. rewrite IH. reflexivity. Qed.

Lemma agg_loop_spec l : forall prev count acc,
  (1 <= count)%nat ->
  let '(acc', c', p') := agg_loop prev count l acc in
  expand (acc' ++ [(c', p')]) = expand (acc ++ [(count, prev)]) ++ l /\ (1 <= c')%nat /\
  exists mid, acc' = acc ++ mid.
Proof.
  induction l as [|h t IH]; intros prev count acc Hc; cbn [agg_loop].
  - rewrite app_nil_r. split; [reflexivity|]. split; [exact Hc|]. exists []. rewrite app_nil_r. reflexivity.
  - destruct (op_eqb h prev) eqn:E.
    + apply op_eqb_eq in E. subst h. specialize (IH prev (S count) acc ltac:(lia)).
      destruct (agg_loop prev (S count) t acc) as [[acc' c'] p']. destruct IH as (H1 & H2 & H3). split; [|split; assumption].
      rewrite H1. unfold expand. rewrite !flat_map_app. cbn [flat_map fst snd]. rewrite !app_nil_r, <- !app_assoc. f_equal.
      rewrite <- rep_snoc. rewrite <- app_assoc. reflexivity.
    + specialize (IH h 1%nat (acc ++ [(count, prev)]) ltac:(lia)).
      destruct (agg_loop h 1 t (acc ++ [(count, prev)])) as [[acc' c'] p']. destruct IH as (H1 & H2 & mid & H3). split; [|split].
      * rewrite H1. unfold expand. rewrite !flat_map_app. cbn [flat_map fst snd rep]. rewrite !app_nil_r, <- !app_assoc. reflexivity.
      * exact H2.
      * exists ([(count, prev)] ++ mid). rewrite H3, <- app_assoc. reflexivity.
Qed.

Theorem aggregate_expand hits rs : aggregate hits = Ok rs -> expand rs = hits.
Proof.
  destruct hits as [|h t]; [discriminate|]. unfold aggregate, aggregate_gen.
  pose proof (agg_loop_spec t h 1%nat [] ltac:(lia)) as H. destruct (agg_loop h 1 t []) as [[acc c] p]. destruct H as (H1 & _).
  assert (E : Ok (acc ++ [(c, p)]) = Ok rs -> expand rs = h :: t) by (intros [= <-]; rewrite H1; reflexivity).
  destruct t; exact E.
Qed.

(* runs_ok of a list with a pending last run *)
Definition last_op (rs : list (nat * op)) (d : op) : op := snd (last rs (O, d)).
Lemma runs_ok_snoc rs n o : runs_ok rs -> (1 <= n)%nat -> (rs = [] \/ last_op rs o <> o) -> runs_ok (rs ++ [(n, o)]).
Proof.
  induction rs as [|[m a] t IH]; intros Hr Hn Hl; cbn [Datatypes.app runs_ok]; [tauto|].
  destruct Hr as (Hm & Hadj & Ht). split; [exact Hm|]. destruct Hl as [Hl|Hl]; [discriminate|].
  destruct t as [|[m' a'] t'].
  - cbn [Datatypes.app]. split; [|cbn; tauto]. unfold last_op in Hl. cbn in Hl. exact Hl.
  - split; [exact Hadj|]. apply IH; [exact Ht | exact Hn |]. right. unfold last_op in *. exact Hl.
Qed.
Lemma last_op_snoc rs n o d : last_op (rs ++ [(n, o)]) d = o.
Proof. unfold last_op. rewrite last_last. reflexivity. Qed.

Lemma agg_loop_runs l : forall prev count acc,
  (1 <= count)%nat -> runs_ok acc -> (acc = [] \/ last_op acc prev <> prev) ->
  let '(acc', c', p') := agg_loop prev count l acc in runs_ok (acc' ++ [(c', p')]).
Proof.
  induction l as [|h t IH]; intros prev count acc Hc Hr Hl; cbn [agg_loop].
  - apply runs_ok_snoc; assumption.
  - destruct (op_eqb h prev) eqn:E.
    + apply IH; [lia | exact Hr | exact Hl].
    + apply IH; [lia | apply runs_ok_snoc; assumption |].
      right. rewrite last_op_snoc. intros ->. destruct h; discriminate.
Qed.

Theorem aggregate_runs_ok hits rs : aggregate hits = Ok rs -> runs_ok rs.
Proof.
  destruct hits as [|h t]; [discriminate|]. unfold aggregate, aggregate_gen.
  pose proof (agg_loop_runs t h 1%nat [] ltac:(lia) Logic.I (or_introl eq_refl)) as H.
  destruct (agg_loop h 1 t []) as [[acc c] p].
  assert (E : Ok (acc ++ [(c, p)]) = Ok rs -> runs_ok rs) by (intros [= <-]; exact H).
  destruct t; exact E.
Qed.

Theorem aggregate_total hits : hits <> [] -> exists rs, aggregate hits = Ok rs /\ rs <> [].
Proof.
  destruct hits as [|h t]; [congruence|]. intros _. unfold aggregate, aggregate_gen.
  destruct (agg_loop h 1 t []) as [[acc c] p].
  exists (acc ++ [(c, p)]). split; [destruct t; reflexivity|]. destruct acc; discriminate.
Qed.

(* the adjacent-duplicate filter is the identity on a valid matching *)
Lemma dedup_last_valid dir p ps : valid_from dir p ps -> dedup_last (p :: ps) = p :: ps.
Proof.
  revert p; induction ps as [|p' r IH]; intros p Hv; [reflexivity|].
  destruct Hv as (H1 & H2 & H3). change (dedup_last (p :: p' :: r)) with (if snd p =? snd p' then dedup_last (p' :: r) else p :: dedup_last (p' :: r)).
  destruct (snd p =? snd p') eqn:E; [apply Z.eqb_eq in E; rewrite E in H2; lia|].
  rewrite (IH p' H3). reflexivity.
Qed.

Lemma last_app' {A} (l l' : list A) d : l' <> [] -> last (l ++ l') d = last l' d.
Proof.
  intros H. induction l as [|x l IH]; [reflexivity|]. cbn [Datatypes.app]. rewrite <- IH.
  destruct (l ++ l') eqn:E; [apply app_eq_nil in E; destruct E; congruence|reflexivity].
Qed.

(* shape of the operation list: first and last are M *)
Lemma ops_from_last p ps : ps <> [] -> last (ops_from p ps) D = M.
Proof.
  revert p; induction ps as [|p' r IH]; intros p H; [congruence|]. cbn [ops_from]. unfold gap.
  destruct r as [|p'' r'].
  - cbn [ops_from]. rewrite app_nil_r, !app_assoc. apply last_last.
  - rewrite last_app'; [apply IH; discriminate|].
    cbn [ops_from]. unfold gap. intros E. apply app_eq_nil in E. destruct E as [E _]. 
    apply app_eq_nil in E. destruct E as [_ E]. apply app_eq_nil in E. destruct E as [_ E]. discriminate.
Qed.
Theorem ops_shape ps : ps <> [] -> hd D (ops ps) = M /\ last (ops ps) D = M.
Proof.
  destruct ps as [|p r]; [congruence|]. intros _. split; [reflexivity|]. cbn [ops].
  destruct r as [|p' r']; [reflexivity|].
  change (M :: ops_from p (p' :: r')) with ([M] ++ ops_from p (p' :: r')).
  rewrite last_app'; [apply ops_from_last; discriminate|].
  cbn [ops_from]. unfold gap. intros E. apply app_eq_nil in E. destruct E as [E _].
  apply app_eq_nil in E. destruct E as [_ E]. apply app_eq_nil in E. destruct E as [_ E]. discriminate.
Qed.

(* ---- text codec ---- *)
Local Open Scope string_scope.

Definition dig (d : nat) : ascii := ascii_of_nat (48 + d).
Lemma parse_uint_acc d : forall a rest,
  parse_hit_aux (NilEmpty.string_of_uint d ++ rest) (Some a) = parse_hit_aux rest (Some (Nat.of_uint_acc d a)).
Proof.
  induction d as [|d IH|d IH|d IH|d IH|d IH|d IH|d IH|d IH|d IH|d IH]; intros a rest;
    cbn [NilEmpty.string_of_uint append parse_hit_aux]; [reflexivity|..];
    (match goal with |- context[digit_of ?c] => let v := eval vm_compute in (digit_of c) in change (digit_of c) with v end;
     cbv iota; rewrite IH; cbn [Nat.of_uint_acc]; rewrite Nat.tail_mul_spec; do 3 f_equal; lia).
Qed.
Lemma parse_uint_first d : forall rest, d <> Nil ->
  parse_hit_aux (NilEmpty.string_of_uint d ++ rest) None = parse_hit_aux rest (Some (Nat.of_uint d)).
Proof.
  intros rest Hd. unfold Nat.of_uint.
  destruct d as [|d|d|d|d|d|d|d|d|d|d]; [congruence|..];
    cbn [NilEmpty.string_of_uint append parse_hit_aux];
    (match goal with |- context[digit_of ?c] => let v := eval vm_compute in (digit_of c) in change (digit_of c) with v end;
     cbv iota; rewrite parse_uint_acc; cbn [Nat.of_uint_acc]; rewrite Nat.tail_mul_spec; do 3 f_equal; lia).
Qed.
Lemma to_uint_nonnil n : Nat.to_uint n <> Nil.
Proof.
  intros E. pose proof (DecimalNat.Unsigned.to_of (Nat.to_uint n)) as H. rewrite DecimalNat.Unsigned.of_to in H.
  rewrite E in H at 1. symmetry in H. revert H. apply DecimalFacts.unorm_nonnil.
Qed.

Lemma parse_print_nat n rest : parse_hit_aux (print_nat n ++ rest) None = parse_hit_aux rest (Some n).
Proof.
  unfold print_nat. pose proof (to_uint_nonnil n) as Hn.
  assert (E : NilZero.string_of_uint (Nat.to_uint n) = NilEmpty.string_of_uint (Nat.to_uint n)).
  { unfold NilZero.string_of_uint. destruct (Nat.to_uint n); [congruence|reflexivity..]. }
  rewrite E, parse_uint_first by exact Hn. rewrite DecimalNat.Unsigned.of_to. reflexivity.
Qed.

Lemma append_assoc (a b c : string) : (a ++ b) ++ c = a ++ (b ++ c).
Proof. induction a as [|x a IH]; [reflexivity|]. cbn. rewrite IH. reflexivity. Qed.

Theorem parse_render rs : parse_hit (render rs) = Some rs.
Proof.
  unfold parse_hit, render.
  assert (G : forall rs, parse_hit_aux (fold_right (fun r s => render_run r ++ s) "" rs) None = Some rs).
  { induction rs0 as [|[n o] t IH]; [reflexivity|]. cbn [fold_right]. unfold render_run at 1. cbn [fst snd].
    rewrite append_assoc, parse_print_nat. destruct o; cbn; rewrite IH; reflexivity. }
  assert (C : forall l, String.concat "" l = fold_right (fun a s => a ++ s) "" l).
  { induction l as [|a l IH]; [reflexivity|]. cbn [fold_right]. rewrite <- IH. destruct l as [|b l]; cbn.
    - clear. induction a; cbn; congruence.
    - reflexivity. }
  rewrite C. rewrite <- (G rs). f_equal. induction rs as [|r t IH]; [reflexivity|]. cbn [map fold_right]. rewrite IH. reflexivity.
Qed.

Lemma render_nonempty rs : rs <> [] -> render rs <> "".
Proof.
  intros H E. assert (P : parse_hit (render rs) = Some rs) by apply parse_render. rewrite E in P. cbn in P. congruence.
Qed.

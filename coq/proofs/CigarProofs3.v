From Coq Require Import ZArith List Bool Lia String.
Import ListNotations.
Require Import Py Cigar CigarProofs CigarProofs2.
Open Scope Z_scope.

Lemma hit_enums_dedup dir ps : valid dir ps -> ps <> [] -> hit_enums (dedup_last ps) = Ok (ops ps).
Proof.
  intros Hv Hn. destruct ps as [|p r]; [congruence|]. rewrite (dedup_last_valid dir p r Hv).
  apply (hit_enums_spec dir); assumption.
Qed.

Lemma cigar_string_faithful dir ps r0 q0 rest :
  dir = 1 \/ dir = -1 -> ps = (r0, q0) :: rest -> valid dir ps ->
  exists s rs, cigar_string ps = Ok s /\ s <> EmptyString /\ parse_hit s = Some rs /\ runs_ok rs /\
               hd D (expand rs) = M /\ last (expand rs) D = M /\
               decode dir (r0 - 1) (q0 - dir) (expand rs) = ps.
Proof.
  intros Hd -> Hv. set (ps := (r0, q0) :: rest) in *. assert (Hn : ps <> []) by discriminate.
  destruct (aggregate_total (ops ps)) as (rs & Ha & Hrs).
  { unfold ps. cbn. discriminate. }
  exists (render rs), rs. split.
  - unfold cigar_string, cigar_runs. fold ps. unfold ps at 1. cbv beta iota. fold ps.
    rewrite (hit_enums_dedup dir ps Hv Hn). cbn [bind]. rewrite Ha. reflexivity.
  - split; [apply render_nonempty; exact Hrs|]. split; [apply parse_render|].
    split; [apply (aggregate_runs_ok _ _ Ha)|].
    rewrite (aggregate_expand _ _ Ha). destruct (ops_shape ps Hn) as [H1 H2].
    split; [exact H1|]. split; [exact H2|]. apply (replay dir Hd ps r0 q0 rest eq_refl Hv).
Qed.

(* C10, part 3: the post-processing of a run is local in the query id.
   - filter_subsequent: per query id (ascending) the best row of that id's rows; a function of the family of its argument
   - results_resolve: groups by (reference id, query id); the groups of one query id are the groups of that id's rows
   - post (LocalProofs2): the rows of query id c in every output file are what post produces from the rows of id c alone,
     and post only depends on the families of its two arguments (so not on the order in which the queries were processed). *)
From Coq Require Import ZArith QArith List Bool Lia Sorting.Permutation Sorting.Sorted.
Import ListNotations.
Require Import Py Pairing Core Multi Coordinator PyProofs SrcErase LocalProofs1 LocalProofs2 RowEq FreshProofs.
Require CmapProofs.
Open Scope Z_scope.

Notation qfam := (fam qid).
Definition nconf (w : row) : Z := - conf w.

(* ---------- generic: keys under permutation ---------- *)
Lemma keysof_perm {A} (k : A -> Z) l l' : Permutation l l' -> keysof k l = keysof k l'.
Proof. intros P. apply CmapProofs.sorted_lt_unique; try apply keysof_sorted. intros i. rewrite !keysof_in.
  split; intros (r & Hr & E); exists r; (split; [|exact E]); [apply (Permutation_in _ P) | apply (Permutation_in _ (Permutation_sym P))]; exact Hr. Qed.

(* ---------- filter_subsequent ---------- *)
Definition bestl (g : list row) : list row := match sort_by nconf g with [] => [] | x :: _ => [x] end.
Lemma bestl_sub g x : In x (bestl g) -> In x g.
Proof. unfold bestl. destruct (sort_by nconf g) as [|y t] eqn:E; [intros []|]. intros [<-|[]].
  apply (sort_by_in nconf). rewrite E. left. reflexivity. Qed.
Lemma bestl_best g : bestl g = match best_alignment g with Some x => [x] | None => [] end.
Proof. unfold bestl, best_alignment. change (fun w => - conf w) with nconf. destruct (sort_by nconf g); reflexivity. Qed.

Lemma fs_formula l : filter_subsequent l = flat_map (fun i => bestl (qfam i l)) (keysof qid l).
Proof. unfold filter_subsequent. change (fun w => - conf w) with nconf.
  rewrite groups_as_fams, flat_map_map, (keysof_perm qid _ _ (sort_by_perm nconf l)).
  apply flat_map_ext. intros i. unfold fam. rewrite filter_sort_by. reflexivity. Qed.
Lemma fs_same_fam l l' : same_fam qid l l' -> filter_subsequent l = filter_subsequent l'.
Proof. intros H. rewrite !fs_formula, (keysof_same_fam qid _ _ H). apply flat_map_ext. intros i. rewrite H. reflexivity. Qed.
Lemma fs_fam c l : qfam c (filter_subsequent l) = bestl (qfam c l).
Proof. rewrite fs_formula, fam_flat_map_keys; [|apply keysof_nodup|].
  - destruct (existsb (Z.eqb c) (keysof qid l)) eqn:E; [reflexivity|].
    destruct (qfam c l) as [|x t] eqn:F; [reflexivity|]. exfalso.
    assert (X : In c (keysof qid l)) by (apply keysof_in_fam; congruence).
    assert (Y : existsb (Z.eqb c) (keysof qid l) = true) by (apply existsb_exists; exists c; split; [exact X | apply Z.eqb_refl]). congruence.
  - intros i x Hx. apply bestl_sub in Hx. apply (fam_all_key qid i l x Hx). Qed.
Lemma fs_nil : filter_subsequent [] = []. Proof. reflexivity. Qed.
Lemma fs_local c l : filter_subsequent (qfam c l) = qfam c (filter_subsequent l).
Proof. rewrite fs_fam. destruct (qfam c l) as [|x t] eqn:E; [reflexivity|]. rewrite <- E.
  rewrite fs_formula, (keysof_all_key qid c); [|apply fam_all_key | congruence].
  cbn [flat_map]. rewrite app_nil_r, fam_fam, Z.eqb_refl. reflexivity. Qed.
Lemma fs_sub l x : In x (filter_subsequent l) -> In x l.
Proof. rewrite fs_formula, in_flat_map. intros (i & _ & H). apply bestl_sub in H. apply fam_in in H. apply H. Qed.

(* ---------- results_resolve ---------- *)
Definition rgroups (rows : list row) : list (list row) :=
  flat_map (fun byref => groupby qid (sort_by qid byref)) (groupby rid (sort_by rid rows)).
Definition ne_list {B} (g : list B) : list (list B) := match g with [] => [] | _ => [g] end.
Definition gq (g : list row) : Z := gkey qid g 0.

Lemma rgroups_formula rows :
  rgroups rows = flat_map (fun i => map (fun j => qfam j (fam rid i rows)) (keysof qid (fam rid i rows))) (keysof rid rows).
Proof. unfold rgroups. rewrite groups_as_fams, flat_map_map. apply flat_map_ext. intros i. apply groups_as_fams. Qed.

(* the groups of one bucket, restricted to one query id *)
Lemma bucket_filter c b : filter (fun g => gq g =? c) (map (fun j => qfam j b) (keysof qid b)) = ne_list (qfam c b).
Proof.
  assert (H : forall ks, NoDup ks -> (forall j, In j ks -> qfam j b <> []) ->
              filter (fun g => gq g =? c) (map (fun j => qfam j b) ks) = if existsb (Z.eqb c) ks then [qfam c b] else []).
  { induction ks as [|j t IH]; intros N Hne; [reflexivity|]. inversion N as [|? ? Hj Nt]; subst. cbn [map filter existsb].
    rewrite IH by (try assumption; intros; apply Hne; right; assumption).
    assert (Ej : gq (qfam j b) = j).
    { pose proof (Hne j (or_introl eq_refl)) as X. destruct (qfam j b) as [|x u] eqn:F; [congruence|]. unfold gq. cbn [gkey].
      apply (fam_all_key qid j b). rewrite F. left. reflexivity. }
    rewrite Ej, (Z.eqb_sym j c). destruct (c =? j) eqn:E; cbn [orb]; [|reflexivity].
    apply Z.eqb_eq in E. subst j. destruct (existsb (Z.eqb c) t) eqn:X; [|reflexivity]. exfalso. apply Hj.
    apply existsb_exists in X. destruct X as (y & Hy & Ey). apply Z.eqb_eq in Ey. subst y. exact Hy. }
  rewrite H; [|apply keysof_nodup | intros j Hj; apply keysof_in_fam, Hj].
  destruct (qfam c b) as [|x t] eqn:F.
  - destruct (existsb (Z.eqb c) (keysof qid b)) eqn:X; [|reflexivity]. exfalso.
    apply existsb_exists in X. destruct X as (y & Hy & Ey). apply Z.eqb_eq in Ey. subst y. apply keysof_in_fam in Hy. congruence.
  - assert (X : existsb (Z.eqb c) (keysof qid b) = true).
    { apply existsb_exists. exists c. split; [apply keysof_in_fam; congruence | apply Z.eqb_refl]. }
    rewrite X. reflexivity. Qed.
Lemma bucket_fam c b : map (fun j => qfam j (qfam c b)) (keysof qid (qfam c b)) = ne_list (qfam c b).
Proof. destruct (qfam c b) as [|x t] eqn:F; [reflexivity|]. rewrite <- F.
  rewrite (keysof_all_key qid c); [|apply fam_all_key | congruence]. cbn [map]. rewrite fam_fam, Z.eqb_refl, F. reflexivity. Qed.

Lemma rgroups_filter c rows : filter (fun g => gq g =? c) (rgroups rows) = flat_map (fun i => ne_list (qfam c (fam rid i rows))) (keysof rid rows).
Proof. rewrite rgroups_formula, filter_flat_map. apply flat_map_ext. intros i. apply bucket_filter. Qed.
Lemma rgroups_fam c rows : rgroups (qfam c rows) = flat_map (fun i => ne_list (qfam c (fam rid i rows))) (keysof rid rows).
Proof. rewrite rgroups_formula. change (qfam c rows) with (filter (fun x => qid x =? c) rows). rewrite keysof_filter.
  rewrite flat_map_skip.
  - apply flat_map_ext. intros i. rewrite (fam_filter rid i (fun x => qid x =? c) rows). apply bucket_fam.
  - intros i _ H. destruct (fam rid i (filter (fun x => qid x =? c) rows)); [reflexivity | discriminate]. Qed.
Lemma rgroups_local c rows : rgroups (qfam c rows) = filter (fun g => gq g =? c) (rgroups rows).
Proof. rewrite rgroups_fam, rgroups_filter. reflexivity. Qed.

Definition group_ok (g : list row) : Prop := g <> [] /\ all_key qid (gq g) g.
Lemma rgroups_ok rows g : In g (rgroups rows) -> group_ok g.
Proof. rewrite rgroups_formula, in_flat_map. intros (i & _ & H). apply in_map_iff in H. destruct H as (j & <- & Hj).
  apply keysof_in_fam in Hj. split; [exact Hj|]. destruct (qfam j (fam rid i rows)) as [|x t] eqn:F; [congruence|].
  unfold gq. cbn [gkey]. assert (E : qid x = j) by (apply (fam_all_key qid j (fam rid i rows)); rewrite F; left; reflexivity).
  rewrite E, <- F. apply fam_all_key. Qed.
Lemma rgroups_sub rows g x : In g (rgroups rows) -> In x g -> In x rows.
Proof. rewrite rgroups_formula, in_flat_map. intros (i & _ & H) Hx. apply in_map_iff in H. destruct H as (j & <- & Hj).
  apply fam_in in Hx. destruct Hx as (Hx & _). apply fam_in in Hx. apply Hx. Qed.

Lemma join_rows_qid a b j : join_rows a b = Ok j -> qid j = qid a.
Proof. unfold join_rows. destruct (first_pair_rpos a); cbn [bind]; [|discriminate]. destruct (first_pair_rpos b); cbn [bind]; [|discriminate].
  destruct (seg0 a); cbn [bind]; [|discriminate]. destruct (seg0 b); cbn [bind]; [|discriminate].
  destruct (_ <? _); (destruct (resolve_pair _ _); cbn [bind]; [|discriminate]); intros E; injection E as <-; reflexivity. Qed.

Lemma fam_cons {A} (k : A -> Z) c x l : fam k c (x :: l) = if k x =? c then x :: fam k c l else fam k c l.
Proof. reflexivity. Qed.
Lemma rg_local md c gs : (forall g, In g gs -> group_ok g) -> forall j s, resolve_groups md gs = Ok (j, s) ->
  resolve_groups md (filter (fun g => gq g =? c) gs) = Ok (qfam c j, qfam c s).
Proof. induction gs as [|g t IH]; intros Hok j s E.
  - cbn in E. injection E as <- <-. reflexivity.
  - cbn [resolve_groups] in E. destruct (resolve_groups md t) as [[jt st]|] eqn:Et; cbn [bind] in E; [|discriminate].
    specialize (IH (fun g' H => Hok g' (or_intror H)) jt st eq_refl).
    destruct (Hok g (or_introl eq_refl)) as (Hne & Hall). cbn [filter].
    destruct (gq g =? c) eqn:Eg.
    + apply Z.eqb_eq in Eg. cbn [resolve_groups]. rewrite IH. cbn [bind fst snd].
      destruct g as [|x [|y u]]; [congruence| |].
      * injection E as <- <-. rewrite fam_cons. unfold gq in Eg. cbn [gkey] in Eg. rewrite Eg, Z.eqb_refl. reflexivity.
      * cbn [fst snd] in E. destruct (check_overlap x y md).
        -- destruct (join_rows x y) as [jr|] eqn:Ej; cbn [bind] in E |- *; [|discriminate].
           destruct (joined_ok jr); injection E as <- <-.
           ++ rewrite fam_cons, (join_rows_qid _ _ _ Ej). unfold gq in Eg. cbn [gkey] in Eg. rewrite Eg, Z.eqb_refl. reflexivity.
           ++ change (x :: y :: u ++ st) with ((x :: y :: u) ++ st). rewrite fam_app. rewrite (fam_self qid c (x :: y :: u)) by (rewrite <- Eg; exact Hall). reflexivity.
        -- injection E as <- <-. change (x :: y :: u ++ st) with ((x :: y :: u) ++ st). rewrite fam_app. rewrite (fam_self qid c (x :: y :: u)) by (rewrite <- Eg; exact Hall). reflexivity.
    + apply Z.eqb_neq in Eg. rewrite IH.
      destruct g as [|x [|y u]]; [congruence| |].
      * injection E as <- <-. rewrite fam_cons. unfold gq in Eg. cbn [gkey] in Eg.
        destruct (qid x =? c) eqn:X; [apply Z.eqb_eq in X; congruence | reflexivity].
      * cbn [fst snd] in E. destruct (check_overlap x y md).
        -- destruct (join_rows x y) as [jr|] eqn:Ej; cbn [bind] in E; [|discriminate].
           destruct (joined_ok jr); injection E as <- <-.
           ++ rewrite fam_cons, (join_rows_qid _ _ _ Ej). unfold gq in Eg. cbn [gkey] in Eg.
              destruct (qid x =? c) eqn:X; [apply Z.eqb_eq in X; congruence | reflexivity].
           ++ change (x :: y :: u ++ st) with ((x :: y :: u) ++ st). rewrite fam_app, (fam_other qid c (gq (x :: y :: u)) (x :: y :: u)); [reflexivity | exact Hall | congruence].
        -- injection E as <- <-. change (x :: y :: u ++ st) with ((x :: y :: u) ++ st). rewrite fam_app, (fam_other qid c (gq (x :: y :: u)) (x :: y :: u)); [reflexivity | exact Hall | congruence].
Qed.
(* an error comes from one group, hence from one query id *)
Lemma rg_err md gs : resolve_groups md gs = Err -> exists g, In g gs /\ forall gs', In g gs' -> resolve_groups md gs' = Err.
Proof. induction gs as [|g t IH]; intros E; [discriminate|]. cbn [resolve_groups] in E.
  destruct (resolve_groups md t) as [r|] eqn:Et; cbn [bind] in E.
  - exists g. split; [left; reflexivity|]. intros gs' Hin. induction gs' as [|h u IHu]; [destruct Hin|].
    cbn [resolve_groups]. destruct Hin as [->|Hin].
    + destruct (resolve_groups md u) as [r'|]; cbn [bind]; [|reflexivity].
      destruct g as [|x [|y v]]; try discriminate. destruct (check_overlap x y md); [|discriminate].
      destruct (join_rows x y) as [jr|]; [cbn [bind] in E; destruct (joined_ok jr); discriminate | reflexivity].
    + rewrite (IHu Hin). reflexivity.
  - destruct (IH eq_refl) as (g0 & Hin & H). exists g0. split; [right; exact Hin | exact H]. Qed.

Lemma rr_local md c rows j s : results_resolve rows md = Ok (j, s) -> results_resolve (qfam c rows) md = Ok (qfam c j, qfam c s).
Proof. unfold results_resolve. fold (rgroups rows). fold (rgroups (qfam c rows)). rewrite rgroups_local.
  apply rg_local. intros g. apply rgroups_ok. Qed.
Lemma rr_err md rows : results_resolve rows md = Err -> exists c, results_resolve (qfam c rows) md = Err.
Proof. unfold results_resolve. fold (rgroups rows). intros E. destruct (rg_err _ _ E) as (g & Hin & H). exists (gq g).
  fold (rgroups (qfam (gq g) rows)). rewrite rgroups_local. apply H. apply filter_In. split; [exact Hin | apply Z.eqb_refl]. Qed.

(* ---------- post ---------- *)
Definition fam_out (c : Z) (o : outputs) : outputs :=
  mkOut (qfam c (o_main o)) (option_map (qfam c) (o_1 o)) (option_map (qfam c) (o_2 o)).

Lemma mem_z_fam c j : mem_z c (map qid (qfam c j)) = mem_z c (map qid j).
Proof. unfold mem_z. induction j as [|x t IH]; [reflexivity|]. unfold fam. cbn [filter map existsb].
  destruct (qid x =? c) eqn:E; cbn [map existsb]; unfold fam in IH; rewrite IH; [reflexivity|].
  rewrite Z.eqb_sym, E. reflexivity. Qed.

Lemma best_assembly_local c j f1 :
  qfam c (sort_by qid (j ++ filter (fun w => negb (mem_z (qid w) (map qid j))) f1))
  = sort_by qid (qfam c j ++ filter (fun w => negb (mem_z (qid w) (map qid (qfam c j)))) (qfam c f1)).
Proof. unfold fam at 1. rewrite filter_sort_by. f_equal. fold (qfam c (j ++ filter (fun w => negb (mem_z (qid w) (map qid j))) f1)).
  rewrite fam_app, fam_filter. f_equal. apply CmapProofs.filter_ext_in'. intros w Hw.
  rewrite (fam_all_key qid c f1 w Hw), mem_z_fam. reflexivity. Qed.

(* repair F12: `row not in rows` only compares rows of one query id *)
Lemma fresh_local c f1 f2 :
  filter (fun w => negb (row_in w (qfam c f1))) (qfam c f2) = qfam c (filter (fun w => negb (row_in w f1)) f2).
Proof. exact (fresh_rows_fam c f1 f2). Qed.

Theorem post_local m md c r1 r2 o : post m md r1 r2 = Ok o -> post m md (qfam c r1) (qfam c r2) = Ok (fam_out c o).
Proof. unfold post. destruct m.
  - rewrite <- fam_app, !fs_local, fresh_local, <- fam_app.
    destruct (results_resolve _ md) as [[j s]|] eqn:E; cbn [bind fst snd]; [|discriminate]. intros X. injection X as <-.
    rewrite (rr_local _ c _ _ _ E). cbn [bind fst snd]. unfold fam_out. cbn [o_main o_1 o_2 option_map].
    rewrite <- (fs_local c (sort_by qid (j ++ filter (fun w => negb (mem_z (qid w) (map qid j))) (filter_subsequent (r1 ++ r2))))), best_assembly_local. reflexivity.
  - intros X. injection X as <-. rewrite !fs_local. reflexivity.
  - rewrite !fs_local, fresh_local, <- fam_app.
    destruct (results_resolve _ md) as [[j s]|] eqn:E; cbn [bind fst snd]; [|discriminate]. intros X. injection X as <-.
    rewrite (rr_local _ c _ _ _ E). cbn [bind fst snd]. rewrite fs_local. reflexivity.
  - rewrite !fs_local, fresh_local, <- fam_app.
    destruct (results_resolve _ md) as [[j s]|] eqn:E; cbn [bind fst snd]; [|discriminate]. intros X. injection X as <-.
    rewrite (rr_local _ c _ _ _ E). cbn [bind fst snd]. rewrite fs_local. reflexivity.
Qed.

Theorem post_err m md r1 r2 : post m md r1 r2 = Err -> exists c, post m md (qfam c r1) (qfam c r2) = Err.
Proof. unfold post. destruct m; try discriminate;
  (destruct (results_resolve _ md) as [js|] eqn:E; cbn [bind]; [discriminate|]); intros _;
  destruct (rr_err _ _ E) as (c & Ec); exists c; rewrite fam_app, <- fresh_local, <- !fs_local, <- ?fam_app, <- ?fs_local in Ec;
  rewrite ?fam_app in *; rewrite Ec; reflexivity. Qed.

Theorem post_same_fam m md r1 r2 r1' r2' : same_fam qid r1 r1' -> same_fam qid r2 r2' -> post m md r1 r2 = post m md r1' r2'.
Proof. intros H1 H2. unfold post. destruct m;
  rewrite (fs_same_fam r2 r2' H2), ?(fs_same_fam (r1 ++ r2) (r1' ++ r2') (same_fam_app qid _ _ _ _ H1 H2)), ?(fs_same_fam r1 r1' H1);
  reflexivity. Qed.

Lemma post_nil m md : exists o, post m md [] [] = Ok o.
Proof. destruct m; eexists; vm_compute; reflexivity. Qed.

(* every row of every output file of post comes with a query id present in the input rows *)
Lemma rg_qids md gs : forall j s, resolve_groups md gs = Ok (j, s) ->
  forall x, In x (j ++ s) -> exists g y, In g gs /\ In y g /\ qid y = qid x.
Proof. induction gs as [|g t IH]; intros j s E x Hx.
  - cbn in E. injection E as <- <-. destruct Hx.
  - cbn [resolve_groups] in E. destruct (resolve_groups md t) as [[jt st]|] eqn:Et; cbn [bind] in E; [|discriminate].
    assert (Tail : In x (jt ++ st) -> exists g0 y, In g0 (g :: t) /\ In y g0 /\ qid y = qid x).
    { intros H. destruct (IH jt st eq_refl x H) as (g0 & y & A & B & C). exists g0, y. split; [right; exact A | split; assumption]. }
    destruct g as [|a [|b u]].
    + injection E as <- <-. apply Tail, Hx.
    + injection E as <- <-. apply in_app_or in Hx. destruct Hx as [Hx|[E|Hx]].
      * apply Tail, in_or_app. left. exact Hx.
      * exists [a], a. split; [left; reflexivity | split; [left; reflexivity | rewrite E; reflexivity]].
      * apply Tail, in_or_app. right. exact Hx.
    + cbn [fst snd] in E. destruct (check_overlap a b md).
      * destruct (join_rows a b) as [jr|] eqn:Ej; cbn [bind] in E; [|discriminate].
        destruct (joined_ok jr); injection E as <- <-.
        -- destruct Hx as [<-|Hx]; [|apply Tail, Hx]. exists (a :: b :: u), a. split; [left; reflexivity|]. split; [left; reflexivity|].
           symmetry. apply (join_rows_qid _ _ _ Ej).
        -- apply in_app_or in Hx. destruct Hx as [Hx|Hx]; [apply Tail, in_or_app; left; exact Hx|].
           change (a :: b :: u ++ st) with ((a :: b :: u) ++ st) in Hx.
           apply in_app_or in Hx. destruct Hx as [Hx|Hx]; [|apply Tail, in_or_app; right; exact Hx].
           exists (a :: b :: u), x. split; [left; reflexivity | split; [exact Hx | reflexivity]].
      * injection E as <- <-. apply in_app_or in Hx. destruct Hx as [Hx|Hx]; [apply Tail, in_or_app; left; exact Hx|].
        change (a :: b :: u ++ st) with ((a :: b :: u) ++ st) in Hx.
        apply in_app_or in Hx. destruct Hx as [Hx|Hx]; [|apply Tail, in_or_app; right; exact Hx].
        exists (a :: b :: u), x. split; [left; reflexivity | split; [exact Hx | reflexivity]]. Qed.
Lemma rr_qids md rows j s : results_resolve rows md = Ok (j, s) -> forall x, In x (j ++ s) -> exists y, In y rows /\ qid y = qid x.
Proof. unfold results_resolve. fold (rgroups rows). intros E x Hx. destruct (rg_qids _ _ _ _ E x Hx) as (g & y & A & B & C).
  exists y. split; [eapply rgroups_sub; eassumption | exact C]. Qed.

(* C15, part 5: geometry of an admissible chain; the two kinds of steps the resolver loop performs
   (adjacent chain members / members at least two apart). *)
From Coq Require Import ZArith QArith List Bool Lia Sorting.Sorted Sorting.Permutation.
Import ListNotations.
Require Import Py Pairing Core PyProofs ConflictProofs DPProofs ResolverProofs1 ResolverProofs2 ResolverProofs3 ResolverProofs4.
Open Scope Z_scope.

(* ---------- what a finite join score says about the two segments ---------- *)
Lemma join_geom P u v x : join_score P u v = Ok (Some x) ->
  exists ps pe cs ce, start_position u = Ok ps /\ end_position u = Ok pe /\ start_position v = Ok cs /\ end_position v = Ok ce /\
    0 <= Z.min (lpos (pr ce) - lpos (pr cs)) (lpos (pr pe) - lpos (pr ps)) + 2 * (lpos (pr cs) - lpos (pr pe)) /\
    0 <= Z.min (Z.abs (lpos (pq ce) - lpos (pq cs))) (Z.abs (lpos (pq pe) - lpos (pq ps))) + 2 * (lpos (pq cs) - lpos (pq pe)).
Proof.
  unfold join_score. intros H.
  destruct (start_position u) as [ps|]; [|discriminate]. destruct (end_position u) as [pe|]; [|discriminate].
  destruct (start_position v) as [cs|]; [|discriminate]. destruct (end_position v) as [ce|]; [|discriminate]. cbn [bind] in H.
  exists ps, pe, cs, ce. repeat (split; [reflexivity|]).
  match type of H with (if ?c then _ else _) = _ => destruct c eqn:E end; [discriminate|]. apply Z.ltb_ge in E. lia. Qed.

(* start of a segment is not after its end *)
Lemma start_le_end dir s cs ce : seg_ord dir (positions s) -> has_pairs s = true -> start_position s = Ok cs -> end_position s = Ok ce -> pv_le cs ce.
Proof. intros Ho Hp Hcs Hce. destruct (start_split s cs Hcs (has_pairs_nonempty s Hp)) as (p0 & l1 & l2 & E & _ & Hp0 & ->).
  apply (end_ge dir s ce Ho Hce Hp p0); [rewrite E; apply in_or_app; right; left; reflexivity | exact Hp0]. Qed.

Definition pv_mid_le (o o1 o2 : pv) : Prop :=      (* 2 * o <= o1 + o2 on both sequences *)
  2 * lpos (pr o) <= lpos (pr o1) + lpos (pr o2) /\ 2 * lpos (pq o) <= lpos (pq o1) + lpos (pq o2).

(* admissible join: the later segment starts at or after the middle of the earlier one, and the earlier one ends
   at or before the middle of the later one *)
Theorem admissible_geom dir P u v ps pe cs ce : admissible P u v ->
  seg_ord dir (positions u) -> seg_ord dir (positions v) -> has_pairs u = true -> has_pairs v = true ->
  start_position u = Ok ps -> end_position u = Ok pe -> start_position v = Ok cs -> end_position v = Ok ce ->
  pv_mid_le pe cs ce /\ (lpos (pr ps) + lpos (pr pe) <= 2 * lpos (pr cs) /\ lpos (pq ps) + lpos (pq pe) <= 2 * lpos (pq cs)).
Proof.
  intros (x & Hj) Hou Hov Hpu Hpv Hps Hpe Hcs Hce. destruct (join_geom P u v x Hj) as (ps' & pe' & cs' & ce' & E1 & E2 & E3 & E4 & G1 & G2).
  rewrite Hps in E1. rewrite Hpe in E2. rewrite Hcs in E3. rewrite Hce in E4. injection E1 as <-. injection E2 as <-. injection E3 as <-. injection E4 as <-.
  destruct (start_le_end dir u ps pe Hou Hpu Hps Hpe) as (A1 & A2). destruct (start_le_end dir v cs ce Hov Hpv Hcs Hce) as (B1 & B2).
  unfold pv_mid_le. lia. Qed.

(* along a chain with admissible joins: starts ascend, and members two or more apart do not overlap *)
Section ChainGeom.
Variables (dir : Z) (P : params) (sel : list segment).
Hypothesis Hord : forall s, In s sel -> seg_ord dir (positions s) /\ has_pairs s = true.
Hypothesis Hadm : adjacent (admissible P) sel.

Lemma adjacent_nth {A} (R : A -> A -> Prop) (l : list A) : adjacent R l -> forall i x y, nth_error l i = Some x -> nth_error l (S i) = Some y -> R x y.
Proof. induction l as [|a l IH]; intros H i x y Hx Hy; [destruct i; discriminate|]. destruct l as [|b l]; [destruct i as [|[|i]]; discriminate|].
  destruct H as (H1 & H2). destruct i as [|i]; cbn in Hx, Hy; [injection Hx as <-; injection Hy as <-; exact H1|]. apply (IH H2 i x y Hx Hy). Qed.

Lemma chain_starts_ascend : forall d i u w su sw, nth_error sel i = Some u -> nth_error sel (d + i)%nat = Some w ->
  start_position u = Ok su -> start_position w = Ok sw -> pv_le su sw.
Proof. induction d as [|d IH]; intros i u w su sw Hu Hw Hsu Hsw.
  - cbn in Hw. rewrite Hu in Hw. injection Hw as <-. rewrite Hsu in Hsw. injection Hsw as <-. apply pv_le_refl.
  - destruct (nth_error sel (d + i)%nat) as [v|] eqn:Hv; [|apply nth_error_None in Hv; assert (S d + i < length sel)%nat by (apply nth_error_Some; congruence); lia].
    destruct (Hord v (nth_error_In _ _ Hv)) as (Hov & Hpv). destruct (Hord w (nth_error_In _ _ Hw)) as (How & Hpw).
    destruct (has_pairs_start v Hpv) as (sv & Hsv). destruct (has_pairs_end v Hpv) as (ev & Hev). destruct (has_pairs_end w Hpw) as (ew & Hew).
    pose proof (IH i u v su sv Hu Hv Hsu Hsv) as (A1 & A2).
    destruct (admissible_geom dir P v w sv ev sw ew (adjacent_nth _ _ Hadm _ _ _ Hv Hw) Hov How Hpv Hpw Hsv Hev Hsw Hew) as (_ & B1 & B2).
    destruct (start_le_end dir v sv ev Hov Hpv Hsv Hev) as (C1 & C2). unfold pv_le in *. lia. Qed.

Theorem chain_far_apart t i u w eu sw : (t + 2 <= i)%nat -> nth_error sel t = Some u -> nth_error sel i = Some w ->
  end_position u = Ok eu -> start_position w = Ok sw -> pv_le eu sw.
Proof. intros Hti Hu Hw Heu Hsw.
  destruct (nth_error sel (S t)) as [v|] eqn:Hv; [|apply nth_error_None in Hv; assert (i < length sel)%nat by (apply nth_error_Some; congruence); lia].
  destruct (nth_error sel (S (S t))) as [z|] eqn:Hz; [|apply nth_error_None in Hz; assert (i < length sel)%nat by (apply nth_error_Some; congruence); lia].
  destruct (Hord u (nth_error_In _ _ Hu)) as (Hou & Hpu). destruct (Hord v (nth_error_In _ _ Hv)) as (Hov & Hpv). destruct (Hord z (nth_error_In _ _ Hz)) as (Hoz & Hpz).
  destruct (has_pairs_start u Hpu) as (su & Hsu). destruct (has_pairs_start v Hpv) as (sv & Hsv). destruct (has_pairs_end v Hpv) as (ev & Hev).
  destruct (has_pairs_start z Hpz) as (sz & Hsz). destruct (has_pairs_end z Hpz) as (ez & Hez).
  destruct (admissible_geom dir P u v su eu sv ev (adjacent_nth _ _ Hadm _ _ _ Hu Hv) Hou Hov Hpu Hpv Hsu Heu Hsv Hev) as ((A1 & A2) & _).
  destruct (admissible_geom dir P v z sv ev sz ez (adjacent_nth _ _ Hadm _ _ _ Hv Hz) Hov Hoz Hpv Hpz Hsv Hev Hsz Hez) as (_ & B1 & B2).
  assert (Hzw : pv_le sz sw) by (apply (chain_starts_ascend (i - S (S t)) (S (S t)) z w sz sw Hz); [replace (i - S (S t) + S (S t))%nat with i by lia; exact Hw | exact Hsz | exact Hsw]).
  destruct Hzw as (C1 & C2). unfold pv_le. lia. Qed.
End ChainGeom.
Print Assumptions chain_far_apart.

(* ---------- the two kinds of steps ---------- *)
Definition subrun_of (c s : segment) : Prop :=
  speak s = speak c /\ sscore s = sum_scores (positions s) /\ exists m x, positions s = firstn x (skipn m (positions c)).
Definition suffix_of (c s : segment) : Prop :=
  speak s = speak c /\ sscore s = sum_scores (positions s) /\ exists m, positions s = skipn m (positions c).
Lemma suffix_subrun c s : suffix_of c s -> subrun_of c s.
Proof. intros (H1 & H2 & m & E). split; [exact H1|]. split; [exact H2|]. exists m, (length (skipn m (positions c))). rewrite firstn_all. exact E. Qed.
Lemma subrun_Sub c s : subrun_of c s -> Sub (positions s) (positions c).
Proof. intros (_ & _ & m & x & ->). apply (Sub_trans _ (skipn m (positions c))); [apply Sub_firstn_self | apply Sub_skipn_self]. Qed.
Lemma suffix_eq c s m : suffix_of c s -> positions s = skipn m (positions c) -> s = seg_create (skipn m (positions c)) (speak c).
Proof. intros (H1 & H2 & _) E. destruct s as [ps sc_ pk]. cbn in *. subst. reflexivity. Qed.

(* chain member as the chainer hands it over: ordered, scored, and (if it has pairs) starting and ending with a pair *)
Definition cwf (dir : Z) (c : segment) : Prop :=
  seg_ord dir (positions c) /\ sscore c = sum_scores (positions c) /\
  (has_pairs c = true -> first_is_pair (positions c) /\ last_is_pair (positions c)).

Definition lab_le_pv (z : spos) (o : pv) : Prop :=
  (forall r, rlab z = Some r -> lpos r <= lpos (pr o)) /\ (forall q, qlab z = Some q -> lpos q <= lpos (pq o)).
Definition lab_lt_pv (z : spos) (o : pv) : Prop :=
  (forall r, rlab z = Some r -> lpos r < lpos (pr o)) /\ (forall q, qlab z = Some q -> lpos q < lpos (pq o)).
Definition pv_lt (o o' : pv) : Prop := lpos (pr o) < lpos (pr o') /\ lpos (pq o) < lpos (pq o').

Lemma lab_lt_less_both z o : lab_lt_pv z o -> less_both z o = true.
Proof. intros (Hr & Hq). unfold less_both, rlab, qlab in *. destruct (ap z) as [r q s0 s1|r|q s0].
  - unfold pv_less_both. cbn [isnull pq pr]. apply andb_true_iff. split; apply Z.ltb_lt; [apply Hq | apply Hr]; reflexivity.
  - apply Z.ltb_lt. apply Hr. reflexivity.
  - apply Z.ltb_lt. apply Hq. reflexivity. Qed.
Lemma before_lab_lt dir z p : before dir z p -> is_pair p = true -> lab_lt_pv z (pv_of p).
Proof. intros (Hr & Hq) Hp. unfold is_pair, pv_of, lab_lt_pv, rlab, qlab in *. destruct (ap p); try discriminate. cbn [pr pq]. split.
  - intros r0 E. apply (Hr r0 _ E eq_refl).
  - intros q0 E. apply (Hq q0 _ E eq_refl). Qed.
Lemma pair_lab_le p : is_pair p = true -> lab_le_pv p (pv_of p).
Proof. unfold is_pair, pv_of, lab_le_pv, rlab, qlab. destruct (ap p); try discriminate. intros _. cbn [pr pq]. split; intros ? E; injection E as <-; lia. Qed.
Lemma lab_lt_le z o : lab_lt_pv z o -> lab_le_pv z o.
Proof. intros (Hr & Hq). split; intros ? E; [specialize (Hr _ E) | specialize (Hq _ E)]; lia. Qed.
Lemma pair_lab_pv p o : is_pair p = true -> lab_le_pv p o -> pv_le (pv_of p) o.
Proof. unfold is_pair, pv_of, lab_le_pv, pv_le, rlab, qlab. destruct (ap p); try discriminate. intros _ (Hr & Hq). cbn [pr pq]. split; [apply Hr | apply Hq]; reflexivity. Qed.
Lemma pair_lab_pv_lt p o : is_pair p = true -> lab_lt_pv p o -> pv_lt (pv_of p) o.
Proof. unfold is_pair, pv_of, lab_lt_pv, pv_lt, rlab, qlab. destruct (ap p); try discriminate. intros _ (Hr & Hq). cbn [pr pq]. split; [apply Hr | apply Hq]; reflexivity. Qed.

Lemma after_both_of_lt p o : is_pair p = true -> pv_lt o (pv_of p) -> after_both p o = true.
Proof. unfold is_pair, after_both, pv_of, pv_lt. destruct (ap p); try discriminate. cbn [pr pq]. intros _ (H1 & H2). apply andb_true_iff. split; apply Z.ltb_lt; assumption. Qed.

(* bounds o1 <= o2 with everything of A at or before o1 and every pair of B at or after o2, one side strictly:
   the step changes nothing and the members are strictly apart *)
Lemma apart_from_bounds dir a b a' b' o1 o2 :
  seg_ord dir (positions a) -> seg_ord dir (positions b) -> sscore a = sum_scores (positions a) ->
  has_pairs a = true -> has_pairs b = true -> pv_le o1 o2 ->
  (forall z, In z (positions a) -> lab_le_pv z o1) ->
  (forall p', In p' (positions b) -> is_pair p' = true -> pv_le o2 (pv_of p')) ->
  ((forall z, In z (positions a) -> lab_lt_pv z o1) \/ (forall p', In p' (positions b) -> is_pair p' = true -> pv_lt o2 (pv_of p'))) ->
  resolve_pair a b = Ok (a', b') -> a' = a /\ b' = b /\ psep (positions a) (positions b).
Proof.
  intros Hoa Hob Hsa Hpa Hpb (L1 & L2) HA HB Hstrict H.
  assert (Hlt : forall z p', In z (positions a) -> In p' (positions b) -> is_pair p' = true -> lab_lt_pv z (pv_of p')).
  { intros z p' Hz Hp' Hpp'. destruct (HA z Hz) as (A1 & A2). destruct (HB p' Hp' Hpp') as (B1 & B2). destruct Hstrict as [Hs|Hs].
    - destruct (Hs z Hz) as (S1 & S2). split; intros ? E; [specialize (S1 _ E) | specialize (S2 _ E)]; lia.
    - destruct (Hs p' Hp' Hpp') as (S1 & S2). split; intros ? E; [specialize (A1 _ E) | specialize (A2 _ E)]; lia. }
  assert (H1 : forall cs, start_position b = Ok cs -> forall z, In z (positions a) -> less_both z cs = true).
  { intros cs Hcs z Hz. destruct (start_split b cs Hcs (has_pairs_nonempty b Hpb)) as (p0 & l1 & l2 & E & _ & Hp0 & ->).
    apply lab_lt_less_both. apply Hlt; [exact Hz | rewrite E; apply in_or_app; right; left; reflexivity | exact Hp0]. }
  assert (H2 : forall ce, end_position a = Ok ce -> forall p', In p' (positions b) -> is_pair p' = true -> le_any p' ce = false).
  { intros ce Hce p' Hp' Hpp'. destruct (end_split a ce Hce (has_pairs_nonempty a Hpa)) as (p0 & l1 & l2 & E & _ & Hp0 & ->).
    apply after_both_not_le. apply (after_both_of_lt p' (pv_of p0) Hpp'). apply (pair_lab_pv_lt p0 _ Hp0).
    apply Hlt; [rewrite E; apply in_or_app; right; left; reflexivity | exact Hp' | exact Hpp']. }
  destruct (rp_apart dir a b a' b' Hoa Hob Hsa Hpb H1 H2 H) as (-> & ->). split; [reflexivity|]. split; [reflexivity|].
  intros p p' Hp Hp' Hpp Hpp'. destruct (pair_lab_pv_lt p _ Hpp (Hlt p p' Hp Hp' Hpp')) as (G1 & G2). unfold rpos_of, qpos_of. lia.
Qed.

Lemma before_pv_lt dir x y : before dir x y -> is_pair x = true -> is_pair y = true -> pv_lt (pv_of x) (pv_of y).
Proof. intros Hb Hx Hy. apply (pair_lab_pv_lt x _ Hx). apply (before_lab_lt dir x y Hb Hy). Qed.

Lemma has_pairs_Sub s c : Sub (positions s) (positions c) -> has_pairs s = true -> has_pairs c = true.
Proof. intros Hs H. apply has_pairs_in in H. destruct H as (p & Hp & Hpp). apply has_pairs_in. exists p. split; [apply (Sub_in _ _ _ Hs Hp) | exact Hpp]. Qed.

Lemma coherent_Sub dir l1 l2 k1 k2 : Sub k1 l1 -> Sub k2 l2 -> coherent dir l1 l2 -> coherent dir k1 k2.
Proof. intros H1 H2 H x y Hx Hy. apply H; [apply (Sub_in _ _ _ H1 Hx) | apply (Sub_in _ _ _ H2 Hy)]. Qed.

Lemma pv_le_trans o1 o2 o3 : pv_le o1 o2 -> pv_le o2 o3 -> pv_le o1 o3.
Proof. unfold pv_le. lia. Qed.

(* members at least two apart in the chain: et (end of the left input) is not after sb (start of the right input) *)
Theorem far_step dir ct cb a b a' b' et sb :
  cwf dir ct -> cwf dir cb -> coherent dir (positions ct) (positions cb) ->
  subrun_of ct a -> has_pairs a = true -> suffix_of cb b -> has_pairs b = true ->
  end_position ct = Ok et -> start_position cb = Ok sb -> pv_le et sb ->
  resolve_pair a b = Ok (a', b') ->
  subrun_of ct a' /\ suffix_of cb b' /\ psep (positions a') (positions b').
Proof.
  intros (Hoct & Hsct & Hect) (Hocb & Hscb & Hecb) Hcoh Ha Hpa Hb Hpb Het Hsb Hle H.
  pose proof (subrun_Sub ct a Ha) as HsubA. pose proof (subrun_Sub cb b (suffix_subrun cb b Hb)) as HsubB.
  pose proof (has_pairs_Sub a ct HsubA Hpa) as Hpct. pose proof (has_pairs_Sub b cb HsubB Hpb) as Hpcb.
  destruct (Hect Hpct) as (_ & Hlct). destruct (Hecb Hpcb) as (Hfcb & _).
  assert (Hoa : seg_ord dir (positions a)) by (apply (SS_Sub _ _ _ HsubA Hoct)).
  assert (Hob : seg_ord dir (positions b)) by (apply (SS_Sub _ _ _ HsubB Hocb)).
  destruct Ha as (Hka & Hsa & m & x & EA). destruct Hb as (Hkb & Hsb' & m' & EB).
  assert (Hctne : positions ct <> []) by (intros E; unfold has_pairs, aligned in Hpct; rewrite E in Hpct; discriminate).
  destruct (last_split _ Hlct Hctne) as (K & pe & ECt & Hpe). rewrite (end_position_snoc ct K pe ECt Hpe) in Het. injection Het as <-.
  unfold first_is_pair in Hfcb. destruct (positions cb) as [|pc R] eqn:ECb; [unfold has_pairs, aligned in Hpcb; rewrite ECb in Hpcb; discriminate|].
  rewrite (start_position_cons cb pc R ECb Hfcb) in Hsb. injection Hsb as <-.
  (* weak bounds *)
  assert (HA : forall z, In z (positions a) -> lab_le_pv z (pv_of pe)).
  { intros z Hz. apply (Sub_in _ _ _ HsubA) in Hz. rewrite ECt in Hz, Hoct. apply in_app_or in Hz. destruct Hz as [Hz|[<-|[]]].
    - apply lab_lt_le. destruct (SS_app_inv _ _ _ Hoct) as (_ & _ & Hs). apply (before_lab_lt dir z pe (Hs z pe Hz (or_introl eq_refl)) Hpe).
    - apply pair_lab_le. exact Hpe. }
  assert (HB : forall p', In p' (positions b) -> is_pair p' = true -> pv_le (pv_of pc) (pv_of p')).
  { intros p' Hp' Hpp'. apply (Sub_in _ _ _ HsubB) in Hp'. destruct Hp' as [<-|Hp']; [apply pv_le_refl|].
    apply (before_pairs_le dir); [apply (SS_cons_inv _ _ _ Hocb p' Hp') | assumption | assumption]. }
  destruct (Nat.le_gt_cases (length (skipn m (positions ct))) x) as [Hx|Hx]; [destruct m' as [|m']|].
  - (* the left member still ends with the input's last pair, the right member is untouched *)
    assert (EA' : positions a = skipn m (positions ct)) by (rewrite EA; apply firstn_all2; exact Hx).
    cbn [skipn] in EB.
    assert (Hla : last_is_pair (positions a)) by (rewrite EA'; apply last_is_pair_skipn; exact Hlct).
    assert (Hfb : first_is_pair (positions b)) by (rewrite EB; exact Hfcb).
    destruct (has_pairs_end a Hpa) as (ce & Hce). destruct (has_pairs_start b Hpb) as (cs & Hcs).
    assert (Hcecs : pv_le ce cs).
    { apply (pv_le_trans _ (pv_of pe)); [apply (end_mono dir ct a (pv_of pe) ce Hoct HsubA (end_position_snoc ct K pe ECt Hpe) Hce Hpa)|].
      apply (pv_le_trans _ (pv_of pc)); [exact Hle|]. rewrite <- ECb in Hocb.
      apply (start_mono dir cb b (pv_of pc) cs Hocb); [rewrite ECb; exact HsubB | apply (start_position_cons cb pc R ECb Hfcb) | exact Hcs | exact Hpb]. }
    assert (Hcoh' : coherent dir (positions a) (positions b)) by (apply (coherent_Sub dir _ _ _ _ HsubA HsubB Hcoh)).
    destruct (rp_fresh_weak dir a b a' b' ce cs Hoa Hob Hsa Hsb' Hla Hfb Hpa Hpb Hcoh' Hce Hcs Hcecs H) as (x' & y' & Ea' & Eb' & G1 & G2 & G3 & G4 & G5).
    split; [|split; [|exact G5]].
    + split; [congruence|]. split; [exact G3|]. exists m, (Nat.min x' x). rewrite Ea', EA, firstn_firstn. reflexivity.
    + split; [congruence|]. split; [exact G4|]. exists y'. rewrite Eb', EB, ECb. reflexivity.
  - (* the right member has lost its first pair *)
    assert (HBs : forall p', In p' (positions b) -> is_pair p' = true -> pv_lt (pv_of pc) (pv_of p')).
    { intros p' Hp' Hpp'. rewrite EB in Hp'. cbn [skipn] in Hp'. apply (Sub_in _ _ _ (Sub_skipn_self m' R)) in Hp'.
      apply (before_pv_lt dir pc p' (SS_cons_inv _ _ _ Hocb p' Hp') Hfcb Hpp'). }
    destruct (apart_from_bounds dir a b a' b' (pv_of pe) (pv_of pc) Hoa Hob Hsa Hpa Hpb Hle HA HB (or_intror HBs) H) as (-> & -> & Hsep).
    split; [split; [exact Hka|]; split; [exact Hsa|]; exists m, x; exact EA|]. split; [|exact Hsep].
    split; [exact Hkb|]. split; [exact Hsb'|]. exists (S m'). rewrite ECb. exact EB.
  - (* the left member has lost the input's last pair *)
    assert (HAs : forall z, In z (positions a) -> lab_lt_pv z (pv_of pe)).
    { intros z Hz. rewrite EA, ECt in Hz. rewrite ECt in Hx, Hoct.
      assert (Hm : (m <= length K)%nat).
      { destruct (Nat.le_gt_cases m (length K)) as [Hm|Hm]; [exact Hm|]. rewrite skipn_all2 in Hx by (rewrite app_length; cbn; lia). cbn in Hx. lia. }
      rewrite skipn_app in Hz, Hx. replace (m - length K)%nat with 0%nat in Hz, Hx by lia. cbn [skipn] in Hz, Hx. rewrite app_length in Hx. cbn [length] in Hx.
      rewrite firstn_app in Hz. replace (x - length (skipn m K))%nat with 0%nat in Hz by lia. cbn [firstn] in Hz. rewrite app_nil_r in Hz.
      apply (Sub_in _ _ _ (Sub_firstn_self x _)) in Hz. apply (Sub_in _ _ _ (Sub_skipn_self m K)) in Hz.
      destruct (SS_app_inv _ _ _ Hoct) as (_ & _ & Hs). apply (before_lab_lt dir z pe (Hs z pe Hz (or_introl eq_refl)) Hpe). }
    destruct (apart_from_bounds dir a b a' b' (pv_of pe) (pv_of pc) Hoa Hob Hsa Hpa Hpb Hle HA HB (or_introl HAs) H) as (-> & -> & Hsep).
    split; [split; [exact Hka|]; split; [exact Hsa|]; exists m, x; exact EA|]. split; [|exact Hsep].
    split; [exact Hkb|]. split; [exact Hsb'|]. exists m'. rewrite ECb. exact EB.
Qed.

(* adjacent chain members: the left one has only been trimmed at its start, the right one is untouched *)
Theorem adj_step dir ct cb a a' b' :
  cwf dir ct -> cwf dir cb -> coherent dir (positions ct) (positions cb) ->
  suffix_of ct a -> has_pairs a = true -> has_pairs cb = true ->
  resolve_pair a cb = Ok (a', b') ->
  subrun_of ct a' /\ suffix_of cb b'.
Proof.
  intros (Hoct & Hsct & Hect) (Hocb & Hscb & Hecb) Hcoh Ha Hpa Hpcb H.
  pose proof (subrun_Sub ct a (suffix_subrun ct a Ha)) as HsubA. pose proof (has_pairs_Sub a ct HsubA Hpa) as Hpct.
  destruct (Hect Hpct) as (_ & Hlct). destruct (Hecb Hpcb) as (Hfcb & _).
  assert (Hoa : seg_ord dir (positions a)) by (apply (SS_Sub _ _ _ HsubA Hoct)).
  destruct Ha as (Hka & Hsa & m & EA).
  assert (Hla : last_is_pair (positions a)) by (rewrite EA; apply last_is_pair_skipn; exact Hlct).
  assert (Hcoh' : coherent dir (positions a) (positions cb)) by (apply (coherent_Sub dir _ _ _ _ HsubA (Sub_refl _) Hcoh)).
  destruct (rp_fresh_main dir a cb a' b' Hoa Hocb Hsa Hscb Hla Hfcb Hpa Hpcb Hcoh' H) as (x' & y' & Ea' & Eb' & G1 & G2 & G3 & G4 & _).
  split.
  - split; [congruence|]. split; [exact G3|]. exists m, x'. rewrite Ea', EA. reflexivity.
  - split; [exact G2|]. split; [exact G4|]. exists y'. exact Eb'.
Qed.
Print Assumptions far_step.

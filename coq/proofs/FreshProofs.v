(* Repair F12: the second operand of resolve is `[row for row in filteredSecondPassRows if row not in filteredFirstPassRows]`
   (RowEq.fresh_rows).  This file characterises that filter on the lists a run produces WITHOUT row equality:
     - first-pass rows carry AlignedRest = False, second-pass rows AlignedRest = True;
     - a second-pass row w of the filtered second list is in the filtered first list exactly when the first list holds a row with
       w's query id and AlignedRest = True (that row is then w itself: the first maximum of the query over both passes is a
       second-pass row, hence the first maximum of the query among the second-pass rows);
   so the filter only looks at (query id, AlignedRest) and commutes with every row map that keeps these two fields and commutes with
   filterOutSubsequentAlignmentsForSingleQuery (erasure of `source`), and with the restriction to one query id. *)
From Coq Require Import ZArith List Bool Lia Sorting.Permutation Sorting.Sorted.
Import ListNotations.
Require Import Py PyProofs Pairing Core Multi Coordinator BestProofs1 RowEq.
Open Scope Z_scope.

(* ---------- the first maximum of a query is unique (moved here from BestProofs4) ---------- *)
Lemma app_eq_app' {A} (l1 : list A) : forall l2 m1 m2, l1 ++ l2 = m1 ++ m2 ->
  exists l, (l1 = m1 ++ l /\ m2 = l ++ l2) \/ (m1 = l1 ++ l /\ l2 = l ++ m2).
Proof. induction l1 as [|a t IH]; intros l2 m1 m2 H.
  - exists m1. right. split; [reflexivity | exact H].
  - destruct m1 as [|b m1'].
    + exists (a :: t). left. split; [reflexivity | symmetry; exact H].
    + cbn in H. injection H as <- H. destruct (IH _ _ _ H) as (l & [(-> & ->)|(-> & ->)]); exists l; [left | right]; split; reflexivity.
Qed.

Lemma first_best_unique rows x x' : first_best rows x -> first_best rows x' -> qid x = qid x' -> x = x'.
Proof. intros (l1 & l2 & -> & H1 & H2) (m1 & m2 & E & G1 & G2) Hq.
  destruct (app_eq_app' _ _ _ _ E) as (l & [(-> & El)|(-> & El)]).
  - destruct l as [|a l']; [cbn in El; injection El as -> _; reflexivity|]. cbn in El. injection El as <- ->. exfalso.
    assert (A : conf x' < conf x) by (apply H1; [apply in_or_app; right; left; reflexivity | symmetry; exact Hq]).
    assert (B : conf x <= conf x') by (apply G2; [apply in_or_app; right; left; reflexivity | exact Hq]). lia.
  - destruct l as [|a l']; [cbn in El; injection El as -> _; reflexivity|]. cbn in El. injection El as <- ->. exfalso.
    assert (A : conf x < conf x') by (apply G1; [apply in_or_app; right; left; reflexivity | exact Hq]).
    assert (B : conf x' <= conf x) by (apply H2; [apply in_or_app; right; left; reflexivity | symmetry; exact Hq]). lia.
Qed.

Lemma first_best_fs rows x : first_best rows x -> In x (filter_subsequent rows).
Proof. intros H. assert (Hc : In (qid x) (map qid (filter_subsequent rows))) by (apply (proj1 (fs_ids rows (qid x))), in_map, first_best_In; exact H).
  apply in_map_iff in Hc. destruct Hc as (x' & Hq & Hx'). rewrite (first_best_unique rows x x' H (fs_first_best _ _ Hx') (eq_sym Hq)). exact Hx'. Qed.

(* a row kept from a ++ b that does not occur in a is the row kept from b alone *)
Lemma fs_app_right a b x : In x (filter_subsequent (a ++ b)) -> ~ In x a -> In x (filter_subsequent b).
Proof. intros H Hn. apply first_best_fs. apply fs_first_best in H. destruct H as (l1 & l2 & E & H1 & H2).
  destruct (app_eq_app' _ _ _ _ E) as (l & [(-> & El)|(-> & El)]).
  - destruct l as [|y l'].
    + cbn in El. exists [], l2. split; [symmetry; exact El|]. split; [intros y []|exact H2].
    + cbn in El. injection El as <- _. exfalso. apply Hn. apply in_or_app. right. left. reflexivity.
  - exists l, l2. split; [exact El|]. split; [|exact H2]. intros y Hy. apply H1. apply in_or_app. right. exact Hy.
Qed.

(* two rows of one query in a list with strictly ascending query ids are the same row *)
Lemma kstrict_same_key {A} (k : A -> Z) l x y : kstrict k l -> In x l -> In y l -> k x = k y -> x = y.
Proof. intros K Hx Hy E. pose proof (kstrict_filter_single k l x K Hx) as F.
  assert (In y (filter (fun z => k z =? k x) l)) as H by (apply filter_In; split; [exact Hy | apply Z.eqb_eq; symmetry; exact E]).
  rewrite F in H. destruct H as [H|[]]. exact H. Qed.

Lemma kstrict_filter {A} (k : A -> Z) (p : A -> bool) l : kstrict k l -> kstrict k (filter p l).
Proof. induction l as [|x t IH]; intros H; [exact H|]. apply kstrict_cons in H. destruct H as (Ht & Hx). cbn [filter].
  destruct (p x); [|apply IH; exact Ht]. apply kstrict_cons. split; [apply IH; exact Ht|].
  intros y Hy. apply filter_In in Hy. apply Hx, Hy. Qed.

(* ---------- the filter without row equality ---------- *)
(* the first list holds a second-pass row (AlignedRest = True) of w's query *)
Definition dup_q (f1 : list row) (w : row) : bool := existsb (fun x => (qid x =? qid w) && rest x) f1.
Definition fresh_q (f1 f2 : list row) : list row := filter (fun w => negb (dup_q f1 w)) f2.

Lemma dup_q_true f1 w : dup_q f1 w = true <-> exists x, In x f1 /\ qid x = qid w /\ rest x = true.
Proof. unfold dup_q. rewrite existsb_exists. split; intros (x & Hx & H); exists x; (split; [exact Hx|]).
  - apply andb_prop in H. destruct H as (H1 & H2). apply Z.eqb_eq in H1. split; assumption.
  - destruct H as (H1 & H2). rewrite H2, (proj2 (Z.eqb_eq _ _) H1). reflexivity. Qed.

Definition pass_flags (rows1 rows2 : list row) : Prop :=
  Forall (fun w => rest w = false) rows1 /\ Forall (fun w => rest w = true) rows2.
(* the rows handed to the first filter: first-pass rows, in `best` mode followed by the second-pass rows *)
Definition first_rows (m : mode) (rows1 rows2 : list row) : list row := match m with Best => rows1 ++ rows2 | _ => rows1 end.

(* in `best` mode a second-pass row of the filtered first list is the query's row of the filtered second list *)
Lemma best_rest_row rows1 rows2 x : Forall (fun w => rest w = false) rows1 ->
  In x (filter_subsequent (rows1 ++ rows2)) -> rest x = true -> In x (filter_subsequent rows2).
Proof. intros H1 Hx Hr. apply (fs_app_right rows1); [exact Hx|]. intros Hin. rewrite Forall_forall in H1. rewrite (H1 x Hin) in Hr. discriminate. Qed.

Theorem row_in_dup_q m rows1 rows2 w : pass_flags rows1 rows2 -> In w (filter_subsequent rows2) ->
  row_in w (filter_subsequent (first_rows m rows1 rows2)) = dup_q (filter_subsequent (first_rows m rows1 rows2)) w.
Proof. intros (H1 & H2) Hw.
  assert (Rw : rest w = true). { rewrite Forall_forall in H2. apply H2. apply first_best_In, fs_first_best. exact Hw. }
  apply eq_true_iff_eq. rewrite row_in_spec, dup_q_true. split.
  - intros Hin. exists w. repeat split; assumption.
  - intros (x & Hx & Hq & Hr). destruct m; cbn [first_rows] in *.
    + pose proof (best_rest_row rows1 rows2 x H1 Hx Hr) as Hx2.
      rewrite <- (kstrict_same_key qid _ x w (fs_sorted rows2) Hx2 Hw Hq). exact Hx.
    + exfalso. rewrite Forall_forall in H1. rewrite (H1 x) in Hr; [discriminate | apply first_best_In, fs_first_best; exact Hx].
    + exfalso. rewrite Forall_forall in H1. rewrite (H1 x) in Hr; [discriminate | apply first_best_In, fs_first_best; exact Hx].
    + exfalso. rewrite Forall_forall in H1. rewrite (H1 x) in Hr; [discriminate | apply first_best_In, fs_first_best; exact Hx].
Qed.

Lemma filter_ext_in' {A} (f g : A -> bool) l : (forall x, In x l -> f x = g x) -> filter f l = filter g l.
Proof. induction l as [|x t IH]; intros H; [reflexivity|]. cbn [filter]. rewrite (H x (or_introl eq_refl)), IH; [reflexivity|].
  intros y Hy. apply H. right. exact Hy. Qed.

Theorem fresh_rows_q m rows1 rows2 : pass_flags rows1 rows2 ->
  fresh_rows (filter_subsequent (first_rows m rows1 rows2)) (filter_subsequent rows2)
  = fresh_q (filter_subsequent (first_rows m rows1 rows2)) (filter_subsequent rows2).
Proof. intros H. apply filter_ext_in'. intros w Hw. rewrite (row_in_dup_q m rows1 rows2 w H Hw). reflexivity. Qed.

(* outside `best` mode the filter keeps every second-pass row *)
Theorem fresh_rows_plain m rows1 rows2 : m <> Best -> pass_flags rows1 rows2 ->
  fresh_rows (filter_subsequent (first_rows m rows1 rows2)) (filter_subsequent rows2) = filter_subsequent rows2.
Proof. intros Hm (H1 & H2). apply fresh_rows_rest; apply Forall_forall; intros w Hw; apply fs_first_best, first_best_In in Hw.
  - rewrite Forall_forall in H1. apply H1. destruct m; [congruence| | |]; exact Hw.
  - rewrite Forall_forall in H2. apply H2, Hw. Qed.

(* ---------- the filter commutes with row maps that keep query id and AlignedRest ---------- *)
Section MapRows.
Variable e : row -> row.
Hypothesis e_qid : forall w, qid (e w) = qid w.
Hypothesis e_rest : forall w, rest (e w) = rest w.
Hypothesis e_fs : forall rows, filter_subsequent (map e rows) = map e (filter_subsequent rows).

Lemma dup_q_map f1 w : dup_q (map e f1) (e w) = dup_q f1 w.
Proof. unfold dup_q. induction f1 as [|x t IH]; [reflexivity|]. cbn [map existsb]. rewrite IH, !e_qid, e_rest. reflexivity. Qed.
Lemma fresh_q_map f1 f2 : fresh_q (map e f1) (map e f2) = map e (fresh_q f1 f2).
Proof. unfold fresh_q. induction f2 as [|w t IH]; [reflexivity|]. cbn [map filter]. rewrite dup_q_map, IH. destruct (dup_q f1 w); reflexivity. Qed.
Lemma pass_flags_map rows1 rows2 : pass_flags rows1 rows2 -> pass_flags (map e rows1) (map e rows2).
Proof. intros (H1 & H2). split; apply Forall_forall; intros w Hw; apply in_map_iff in Hw; destruct Hw as (x & <- & Hx); rewrite e_rest;
  [rewrite Forall_forall in H1; apply H1, Hx | rewrite Forall_forall in H2; apply H2, Hx]. Qed.
Lemma first_rows_map m rows1 rows2 : first_rows m (map e rows1) (map e rows2) = map e (first_rows m rows1 rows2).
Proof. destruct m; cbn [first_rows]; rewrite <- ?map_app; reflexivity. Qed.

Theorem fresh_rows_map m rows1 rows2 : pass_flags rows1 rows2 ->
  fresh_rows (filter_subsequent (first_rows m (map e rows1) (map e rows2))) (filter_subsequent (map e rows2))
  = map e (fresh_rows (filter_subsequent (first_rows m rows1 rows2)) (filter_subsequent rows2)).
Proof. intros H. rewrite (fresh_rows_q m _ _ (pass_flags_map _ _ H)), (fresh_rows_q m _ _ H), first_rows_map, !e_fs. apply fresh_q_map. Qed.
End MapRows.

(* ---------- the filter is local in the query id ---------- *)
Lemma fresh_rows_fam c f1 f2 :
  fresh_rows (filter (fun w => qid w =? c) f1) (filter (fun w => qid w =? c) f2) = filter (fun w => qid w =? c) (fresh_rows f1 f2).
Proof. unfold fresh_rows. induction f2 as [|w t IH]; [reflexivity|]. cbn [filter]. destruct (qid w =? c) eqn:E; cbn [filter].
  - assert (X : row_in w (filter (fun w0 => qid w0 =? c) f1) = row_in w f1).
    { apply eq_true_iff_eq. rewrite !row_in_spec, filter_In. split; [intros (H & _); exact H | intros H; split; [exact H | exact E]]. }
    rewrite X, IH. destruct (row_in w f1); cbn [negb filter]; rewrite ?E; reflexivity.
  - rewrite IH. destruct (negb (row_in w f1)); cbn [filter]; rewrite ?E; reflexivity. Qed.

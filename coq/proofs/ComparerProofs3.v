(* C19 — the four clauses of the property for model/Comparer.v, for every `ratio` meeting the stated hypotheses *)
From Coq Require Import ZArith QArith List Bool Lia Permutation.
Import ListNotations.
Require Import Py PyProofs Comparer ComparerProofs1 ComparerProofs2.
Open Scope Z_scope.

(* what is assumed of difflib.SequenceMatcher(None, a, b).ratio() *)
Definition ratio_bounded (ratio : list bpair -> list bpair -> Q) : Prop := forall a b, (0 <= ratio a b <= 1)%Q.
Definition ratio_refl (ratio : list bpair -> list bpair -> Q) : Prop := forall a, (ratio a a == 1)%Q.
Definition ratio_possym (ratio : list bpair -> list bpair -> Q) : Prop := forall a b, (0 < ratio a b <-> 0 < ratio b a)%Q.

Definition in01 (q : Q) : Prop := (0 <= q <= 1)%Q.
Lemma in01_0 : in01 0.
Proof. split; unfold Qle; cbn; lia. Qed.

Definition swap_ty (t : rtype) : rtype := match t with BOTH => BOTH | FIRST_ONLY => SECOND_ONLY | SECOND_ONLY => FIRST_ONLY end.
(* r' is r seen from the other side; P relates the two identities *)
Definition row_swapped (P : Q -> Q -> Prop) (r r' : row) : Prop :=
  rty r' = swap_ty (rty r) /\ ra1 r' = ra2 r /\ ra2 r' = ra1 r /\ rex1 r' = rex2 r /\ rex2 r' = rex1 r /\
  rcov1 r' = rcov2 r /\ rcov2 r' = rcov1 r /\ row_key r' = row_key r /\ P (rident r) (rident r').
Definition same_sign (x y : Q) : Prop := (0 < x <-> 0 < y)%Q.

Lemma nodup_len_eq (l l' : list kpair) : NoDup l -> (forall k, In k l <-> In k l') -> length l = length (nodup key_eq_dec l').
Proof. intros N E. apply NoDup_length_eq; [exact N | apply NoDup_nodup |]. intros k. rewrite nodup_In. apply E. Qed.

Lemma avg_of_alt f rs : avg_of f rs = match map f (filter overlapping rs) with [] => 0%Q | m => qmean m end.
Proof. unfold avg_of. cbv zeta. destruct (filter overlapping rs); reflexivity. Qed.
Lemma avg_of_bounds f rs : Forall (fun r => in01 (f r)) rs -> in01 (avg_of f rs).
Proof.
  intros H. rewrite avg_of_alt. destruct (map f (filter overlapping rs)) as [|q0 m0] eqn:E; [apply in01_0|]. rewrite <- E.
  apply qmean_bounds; [rewrite E; discriminate|]. apply Forall_forall. intros q Hq. apply in_map_iff in Hq. destruct Hq as [r [<- Hr]].
  apply filter_In in Hr. rewrite Forall_forall in H. apply H. tauto.
Qed.
Lemma avg_of_perm f l l' : Permutation l l' -> (avg_of f l == avg_of f l')%Q.
Proof.
  intros H. rewrite !avg_of_alt. pose proof (Permutation_map f (filter_perm overlapping _ _ H)) as HP.
  destruct (map f (filter overlapping l)) eqn:E.
  - apply Permutation_nil in HP. rewrite HP. reflexivity.
  - destruct (map f (filter overlapping l')) eqn:E'; [apply Permutation_sym, Permutation_nil in HP; discriminate|].
    apply qmean_perm. exact HP.
Qed.

Section Main.
Variable combine : bool.
Variable ratio : list bpair -> list bpair -> Q.
Notation row_compare := (row_compare combine ratio).
Notation compare := (compare combine ratio).
Notation rows_of := (rows_of combine ratio).
Notation gB := (gB combine ratio).

(* ------------------------------------------------------------------ partition *)
Lemma partition_thm als1 als2 :
  let c := compare als1 als2 in
  let K1 := map akey als1 in let K2 := map akey als2 in
  (n_overlapping c + n_nonoverlapping c + n_first c + n_second c)%nat = length (nodup key_eq_dec (K1 ++ K2)) /\
  (n_overlapping c + n_nonoverlapping c)%nat = length (nodup key_eq_dec (filter (fun k => kmem k K2) K1)) /\
  n_first c = length (nodup key_eq_dec (filter (fun k => negb (kmem k K2)) K1)) /\
  n_second c = length (nodup key_eq_dec (filter (fun k => negb (kmem k K1)) K2)) /\
  length (rows c) = (n_overlapping c + n_nonoverlapping c + n_first c + n_second c)%nat /\
  n_overlapping c = length (filter overlapping (rows c)) /\
  NoDup (map row_key (rows c)) /\
  (forall k, In k (map row_key (rows c)) <-> In k (K1 ++ K2)) /\
  (forall r, In r (rows c) ->
     match rty r with
     | BOTH => In (row_key r) K1 /\ In (row_key r) K2
     | FIRST_ONLY => In (row_key r) K1 /\ ~ In (row_key r) K2
     | SECOND_ONLY => ~ In (row_key r) K1 /\ In (row_key r) K2
     end).
Proof.
  cbv zeta. set (d1 := to_dict als1). set (d2 := to_dict als2).
  destruct (compare_counts combine ratio als1 als2) as (Er & Eb & Ef & Es). fold d1 d2 in Er, Eb, Ef, Es.
  pose proof (to_dict_wf als1 : wf d1) as W1. pose proof (to_dict_wf als2 : wf d2) as W2.
  assert (I1 : forall k, In k (dkeys d1) <-> In k (map akey als1)) by (intros k; apply to_dict_keys).
  assert (I2 : forall k, In k (dkeys d2) <-> In k (map akey als2)) by (intros k; apply to_dict_keys).
  destruct (keys_blocks d1 d2 W1 W2) as [ND IN].
  assert (LB : length (KB d1 d2) = length (nodup key_eq_dec (filter (fun k => kmem k (map akey als2)) (map akey als1)))).
  { apply nodup_len_eq; [apply NoDup_filter; apply W1|]. intros k. rewrite KB_in, filter_In, kmem_In, I1, I2. tauto. }
  assert (LF : length (KN d1 d2) = length (nodup key_eq_dec (filter (fun k => negb (kmem k (map akey als2))) (map akey als1)))).
  { apply nodup_len_eq; [apply NoDup_filter; apply W1|]. intros k. rewrite KN_in, filter_In, negb_true_iff, kmem_false, I1, I2. tauto. }
  assert (LS : length (KN d2 d1) = length (nodup key_eq_dec (filter (fun k => negb (kmem k (map akey als1))) (map akey als2)))).
  { apply nodup_len_eq; [apply NoDup_filter; apply W2|]. intros k. rewrite KN_in, filter_In, negb_true_iff, kmem_false, I1, I2. tauto. }
  assert (LA : length (KB d1 d2 ++ KN d1 d2 ++ KN d2 d1) = length (nodup key_eq_dec (map akey als1 ++ map akey als2))).
  { apply nodup_len_eq; [exact ND|]. intros k. rewrite IN, in_app_iff, I1, I2. tauto. }
  rewrite !app_length in LA.
  assert (LR : length (rows (compare als1 als2)) = (length (KB d1 d2) + (length (KN d1 d2) + length (KN d2 d1)))%nat).
  { rewrite Er, <- (map_length row_key), (rows_keys combine ratio d1 d2 W1 W2), !app_length. reflexivity. }
  split; [lia|]. split; [lia|]. split; [lia|]. split; [lia|]. split; [lia|]. split.
  { rewrite compare_eq, create_eq. reflexivity. }
  rewrite Er, (rows_keys combine ratio d1 d2 W1 W2). split; [exact ND|]. split.
  { intros k. rewrite IN, in_app_iff, I1, I2. tauto. }
  intros r Hr. rewrite (rows_of_k combine ratio d1 d2 W1 W2) in Hr. rewrite !in_app_iff, !in_map_iff in Hr.
  destruct Hr as [[k [<- Hk]] | [[k [<- Hk]] | [k [<- Hk]]]].
  - rewrite (gB_key combine ratio d1 d2 k W1 W2 Hk). cbn [rty Comparer.row_compare ComparerProofs2.gB]. apply KB_in in Hk. rewrite <- I1, <- I2. exact Hk.
  - apply KN_in in Hk. rewrite row_key_first, (dget_key d1 k W1 (proj1 Hk)). cbn [rty row_first]. rewrite <- I1, <- I2. exact Hk.
  - apply KN_in in Hk. rewrite row_key_second, (dget_key d2 k W2 (proj1 Hk)). cbn [rty row_second]. rewrite <- I1, <- I2. tauto.
Qed.

(* ------------------------------------------------------------------ bounds *)
Lemma row_compare_bounds a1 a2 : ratio_bounded ratio ->
  let r := row_compare a1 a2 in in01 (rident r) /\ in01 (rcov1 r) /\ in01 (rcov2 r).
Proof.
  intros H. cbn. split; [apply H|]. split; apply coverage_bounds; apply difference_length.
Qed.

Lemma bounds_thm als1 als2 : ratio_bounded ratio ->
  let c := compare als1 als2 in
  Forall (fun r => in01 (rident r) /\ in01 (rcov1 r) /\ in01 (rcov2 r)) (rows c) /\
  in01 (avg1 c) /\ in01 (avg2 c) /\ in01 (avgid c).
Proof.
  intros H. cbv zeta. rewrite compare_eq, create_eq. cbn [rows avg1 avg2 avgid].
  assert (F : Forall (fun r => in01 (rident r) /\ in01 (rcov1 r) /\ in01 (rcov2 r)) (rows_of (to_dict als1) (to_dict als2))).
  { unfold ComparerProofs2.rows_of. rewrite compared_rows_map. apply Forall_forall. intros r Hr.
    rewrite !in_app_iff, !in_map_iff in Hr. destruct Hr as [[e [<- _]] | [[e [<- _]] | [e [<- _]]]].
    - apply row_compare_bounds. exact H.
    - cbn. repeat split; apply in01_0.
    - cbn. repeat split; apply in01_0. }
  split; [exact F|]. rewrite Forall_forall in F.
  split; [|split]; apply avg_of_bounds; apply Forall_forall; intros r Hr; apply (F r Hr).
Qed.

(* ------------------------------------------------------------------ reflexivity *)
Lemma row_compare_self a : ratio_refl ratio ->
  let r := row_compare a a in
  rty r = BOTH /\ ra1 r = a /\ ra2 r = a /\ (rident r == 1)%Q /\ (rcov1 r == 1)%Q /\ (rcov2 r == 1)%Q /\ rex1 r = [] /\ rex2 r = [].
Proof.
  intros H. cbn. rewrite difference_self. repeat split; try apply coverage_nil. apply H.
Qed.

Lemma overlapping_of_one r : (rident r == 1)%Q -> overlapping r = true.
Proof. intros H. unfold overlapping. apply Qltb_lt. rewrite H. reflexivity. Qed.

Lemma reflexive_thm als : ratio_refl ratio ->
  let c := compare als als in
  Forall (fun r => rty r = BOTH /\ ra1 r = ra2 r /\ In (ra1 r) als /\ (rident r == 1)%Q /\ (rcov1 r == 1)%Q /\ (rcov2 r == 1)%Q /\
                   rex1 r = [] /\ rex2 r = []) (rows c) /\
  n_first c = 0%nat /\ n_second c = 0%nat /\ n_nonoverlapping c = 0%nat /\
  n_overlapping c = length (nodup key_eq_dec (map akey als)) /\ length (rows c) = length (nodup key_eq_dec (map akey als)) /\
  (als <> [] -> (avg1 c == 1)%Q /\ (avg2 c == 1)%Q /\ (avgid c == 1)%Q) /\
  (als = [] -> c = null_cmp).
Proof.
  intros H. cbv zeta. set (d := to_dict als). pose proof (to_dict_wf als : wf d) as W.
  assert (EN : KN d d = []).
  { unfold KN. apply filter_false. intros k Hk. apply negb_false_iff. apply dict_mem_In. exact Hk. }
  assert (EB : KB d d = dkeys d).
  { unfold KB. apply filter_true. intros k Hk. apply dict_mem_In. exact Hk. }
  assert (ER : rows_of d d = map (fun k => row_compare (dget d k) (dget d k)) (dkeys d)).
  { rewrite (rows_of_k combine ratio d d W W), EN, EB. cbn [map]. rewrite !app_nil_r. reflexivity. }
  assert (F : Forall (fun r => rty r = BOTH /\ ra1 r = ra2 r /\ In (ra1 r) als /\ (rident r == 1)%Q /\ (rcov1 r == 1)%Q /\ (rcov2 r == 1)%Q /\
                               rex1 r = [] /\ rex2 r = []) (rows_of d d)).
  { rewrite ER. apply Forall_forall. intros r Hr. apply in_map_iff in Hr. destruct Hr as [k [<- Hk]].
    destruct (row_compare_self (dget d k) H) as (E1 & E2 & E3 & E4 & E5 & E6 & E7 & E8).
    split; [exact E1|]. split; [congruence|]. split; [|repeat split; assumption]. rewrite E2.
    apply (dget_vals d k (fun a => In a als) W Hk). intros e He. apply (to_dict_vals als e He). }
  assert (OV : filter overlapping (rows_of d d) = rows_of d d).
  { apply filter_true. intros r Hr. rewrite Forall_forall in F. apply overlapping_of_one. apply (F r Hr). }
  assert (NOV : filter nonov (rows_of d d) = []).
  { apply filter_false. intros r Hr. rewrite Forall_forall in F. unfold nonov. rewrite (overlapping_of_one r); [apply andb_false_r|]. apply (F r Hr). }
  assert (LEN : length (rows_of d d) = length (nodup key_eq_dec (map akey als))).
  { rewrite ER, map_length. apply nodup_len_eq; [apply W|]. intros k. apply to_dict_keys. }
  destruct (compare_counts combine ratio als als) as (Er & _ & Ef & Es). fold d in Er, Ef, Es. rewrite EN in Ef, Es.
  split; [rewrite Er; exact F|]. split; [exact Ef|]. split; [exact Es|].
  rewrite compare_eq, create_eq. fold d. cbn [rows avg1 avg2 avgid n_overlapping n_nonoverlapping].
  split; [rewrite NOV; reflexivity|]. split; [rewrite OV; exact LEN|]. split; [exact LEN|]. split.
  - intros Hne. assert (NE : rows_of d d <> []).
    { intros E. rewrite E in LEN. destruct als as [|a t]; [congruence|]. cbn [length] in LEN. symmetry in LEN. apply length_zero_iff_nil in LEN.
      assert (G : In (akey a) (nodup key_eq_dec (map akey (a :: t)))) by (apply nodup_In; left; reflexivity). rewrite LEN in G. exact G. }
    rewrite Forall_forall in F.
    split; [|split]; rewrite avg_of_alt, OV; (destruct (rows_of d d) as [|r0 rs0] eqn:E0; [congruence|]); rewrite <- E0 in *;
      (destruct (map _ (rows_of d d)) as [|q0 m0] eqn:EM; [rewrite E0 in EM; discriminate|]); rewrite <- EM;
      (apply qmean_ones; [rewrite EM; discriminate|]); apply Forall_forall; intros q Hq; apply in_map_iff in Hq; destruct Hq as [r [<- Hr]];
      apply (F r Hr).
  - intros ->. reflexivity.
Qed.

(* ------------------------------------------------------------------ swap *)
Lemma KB_perm d1 d2 : wf d1 -> wf d2 -> Permutation (KB d1 d2) (KB d2 d1).
Proof.
  intros W1 W2. apply NoDup_Permutation; [apply NoDup_filter; apply W1 | apply NoDup_filter; apply W2|].
  intros k. rewrite !KB_in. tauto.
Qed.

Lemma swap_rows (P : Q -> Q -> Prop) : P 0%Q 0%Q -> (forall a b, P (ratio a b) (ratio b a)) ->
  forall d1 d2, wf d1 -> wf d2 -> exists l', Forall2 (row_swapped P) (rows_of d1 d2) l' /\ Permutation l' (rows_of d2 d1).
Proof.
  intros P0 PR d1 d2 W1 W2.
  exists (map (gB d2 d1) (KB d1 d2) ++ map (fun k => row_second (dget d1 k)) (KN d1 d2) ++ map (fun k => row_first (dget d2 k)) (KN d2 d1)).
  rewrite (rows_of_k combine ratio d1 d2 W1 W2), (rows_of_k combine ratio d2 d1 W2 W1). split.
  - apply Forall2_app'; [|apply Forall2_app']; apply Forall2_map_in; intros k Hk.
    + unfold row_swapped. cbn [rty ra1 ra2 rex1 rex2 rcov1 rcov2 rident ComparerProofs2.gB Comparer.row_compare swap_ty].
      repeat split; [|apply PR].
      change (row_key (gB d2 d1 k) = row_key (gB d1 d2 k)).
      rewrite (gB_key combine ratio d1 d2 k W1 W2 Hk). apply gB_key; [assumption..|]. apply KB_in. apply KB_in in Hk. tauto.
    + unfold row_swapped. cbn [rty ra1 ra2 rex1 rex2 rcov1 rcov2 rident row_first row_second swap_ty]. repeat split; [|exact P0].
      rewrite row_key_first, row_key_second. reflexivity.
    + unfold row_swapped. cbn [rty ra1 ra2 rex1 rex2 rcov1 rcov2 rident row_first row_second swap_ty]. repeat split; [|exact P0].
      rewrite row_key_first, row_key_second. reflexivity.
  - apply Permutation_app; [apply Permutation_map; apply KB_perm; assumption | apply Permutation_app_comm].
Qed.

Lemma same_sign_overlapping (P : Q -> Q -> Prop) r r' : (forall x y, P x y -> same_sign x y) -> row_swapped P r r' -> overlapping r = overlapping r' /\ nonov r = nonov r'.
Proof.
  intros HP (E1 & _ & _ & _ & _ & _ & _ & _ & E9). apply HP in E9.
  assert (O : overlapping r = overlapping r').
  { unfold overlapping. destruct (Qltb 0 (rident r)) eqn:A, (Qltb 0 (rident r')) eqn:B; try reflexivity.
    - apply Qltb_lt in A. apply E9 in A. apply Qltb_lt in A. congruence.
    - apply Qltb_lt in B. apply E9 in B. apply Qltb_lt in B. congruence. }
  split; [exact O|]. unfold nonov, is_both. rewrite E1, O. destruct (rty r); reflexivity.
Qed.

Lemma swap_thm als1 als2 :
  let c := compare als1 als2 in let c' := compare als2 als1 in
  n_first c' = n_second c /\ n_second c' = n_first c /\
  (exists l', Forall2 (row_swapped (fun _ _ => True)) (rows c) l' /\ Permutation l' (rows c')) /\
  (ratio_possym ratio ->
     (exists l', Forall2 (row_swapped same_sign) (rows c) l' /\ Permutation l' (rows c')) /\
     n_overlapping c' = n_overlapping c /\ n_nonoverlapping c' = n_nonoverlapping c /\
     (avg1 c' == avg2 c)%Q /\ (avg2 c' == avg1 c)%Q).
Proof.
  cbv zeta. set (d1 := to_dict als1). set (d2 := to_dict als2).
  pose proof (to_dict_wf als1 : wf d1) as W1. pose proof (to_dict_wf als2 : wf d2) as W2.
  destruct (compare_counts combine ratio als1 als2) as (Er & _ & Ef & Es). fold d1 d2 in Er, Ef, Es.
  destruct (compare_counts combine ratio als2 als1) as (Er' & _ & Ef' & Es'). fold d1 d2 in Er', Ef', Es'.
  split; [congruence|]. split; [congruence|]. split.
  { rewrite Er, Er'. apply swap_rows; auto. }
  intros HS.
  assert (X : exists l', Forall2 (row_swapped same_sign) (rows_of d1 d2) l' /\ Permutation l' (rows_of d2 d1)).
  { apply swap_rows; [unfold same_sign; tauto | intros a b; apply HS | assumption | assumption]. }
  destruct X as [l' [F2 PM]].
  split; [exists l'; rewrite Er, Er'; split; assumption|].
  rewrite !compare_eq, !create_eq. fold d1 d2. cbn [n_overlapping n_nonoverlapping avg1 avg2].
  assert (SS : forall r r', row_swapped same_sign r r' -> overlapping r = overlapping r' /\ nonov r = nonov r').
  { intros r r'. apply same_sign_overlapping. auto. }
  assert (SM1 : forall x y, row_swapped same_sign x y -> overlapping x = overlapping y /\ rcov2 x = rcov1 y).
  { intros x y Hxy. split; [apply (SS x y Hxy)|]. destruct Hxy as (_ & _ & _ & _ & _ & E6 & E7 & _). congruence. }
  assert (SM2 : forall x y, row_swapped same_sign x y -> overlapping x = overlapping y /\ rcov1 x = rcov2 y).
  { intros x y Hxy. split; [apply (SS x y Hxy)|]. destruct Hxy as (_ & _ & _ & _ & _ & E6 & E7 & _). congruence. }
  split; [|split; [|split]].
  - rewrite <- (Permutation_length (filter_perm overlapping _ _ PM)). symmetry.
    apply (Forall2_filter_length (row_swapped same_sign)); [|exact F2]. intros x y Hxy. apply (SS x y Hxy).
  - rewrite <- (Permutation_length (filter_perm nonov _ _ PM)). symmetry.
    apply (Forall2_filter_length (row_swapped same_sign)); [|exact F2]. intros x y Hxy. apply (SS x y Hxy).
  - rewrite <- (avg_of_perm rcov1 _ _ PM). rewrite !avg_of_alt.
    rewrite (Forall2_filter_map (row_swapped same_sign) overlapping overlapping rcov2 rcov1 _ _ SM1 F2). reflexivity.
  - rewrite <- (avg_of_perm rcov2 _ _ PM). rewrite !avg_of_alt.
    rewrite (Forall2_filter_map (row_swapped same_sign) overlapping overlapping rcov1 rcov2 _ _ SM2 F2). reflexivity.
Qed.
End Main.

(* ------------------------------------------------------------------ a concrete `ratio` meeting all three hypotheses *)
Fixpoint pairs_eqb (a b : list bpair) : bool :=
  match a, b with [], [] => true | x :: s, y :: t => pair_eqb x y && pairs_eqb s t | _, _ => false end.
Lemma pairs_eqb_eq a : forall b, pairs_eqb a b = true <-> a = b.
Proof.
  induction a as [|x s IH]; intros [|y t]; cbn; try (split; [discriminate | congruence]); [tauto|].
  rewrite andb_true_iff, pair_eqb_eq, IH. split; [intros [-> ->]; reflexivity | intros [= -> ->]; auto].
Qed.
Definition common (a b : list bpair) : bool := existsb (fun x => pmem x b) a.
Lemma common_iff a b : common a b = true <-> exists x, In x a /\ In x b.
Proof. unfold common. rewrite existsb_exists. split; intros [x [H1 H2]]; exists x; (split; [exact H1|]); apply pmem_In; exact H2. Qed.
(* 1 for equal lists, 1/2 for lists sharing a pair, 0 otherwise *)
Definition ratio_ex (a b : list bpair) : Q := if pairs_eqb a b then 1%Q else if common a b then (1 # 2)%Q else 0%Q.
Lemma ratio_ex_pos a b : (0 < ratio_ex a b)%Q <-> a = b \/ exists x, In x a /\ In x b.
Proof.
  unfold ratio_ex. destruct (pairs_eqb a b) eqn:E.
  - apply pairs_eqb_eq in E. split; [intros _; left; exact E | intros _; reflexivity].
  - destruct (common a b) eqn:C.
    + apply common_iff in C. split; [intros _; right; exact C | intros _; reflexivity].
    + split; [intros H; discriminate H|]. intros [H|H].
      * apply pairs_eqb_eq in H. congruence.
      * apply common_iff in H. congruence.
Qed.
Lemma ratio_ex_ok : ratio_bounded ratio_ex /\ ratio_refl ratio_ex /\ ratio_possym ratio_ex.
Proof.
  split; [|split].
  - intros a b. unfold ratio_ex. destruct (pairs_eqb a b); [|destruct (common a b)]; split; unfold Qle; cbn; lia.
  - intros a. unfold ratio_ex. rewrite (proj2 (pairs_eqb_eq a a) eq_refl). reflexivity.
  - intros a b. rewrite !ratio_ex_pos. split; (intros [H|[x [H1 H2]]]; [left; congruence | right; exists x; tauto]).
Qed.

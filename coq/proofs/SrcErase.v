(* Erasure of the `source` field (the per-process iteration counter of AlignerEngine) and proof that the whole
   Aligner.align pipeline commutes with it.  Consequence: aligner_align, up to `source`, does not depend on `it`.
   `source` is never printed and never read by any comparison in the code (pos_eqb, abs_pos, scores ignore it). *)
From Coq Require Import ZArith QArith List Bool Lia.
Import ListNotations.
Require Import Py Pairing Core.
Open Scope Z_scope.

Definition er_ap (p : apos) : apos := match p with Pair r q s _ => Pair r q s 0 | _ => p end.
Definition er_sp (p : spos) : spos := mkS (er_ap (ap p)) (sc p).
Definition er_seg (s : segment) : segment := mkSeg (map er_sp (positions s)) (sscore s) (speak s).
Definition rmap {A B} (f : A -> B) (x : res A) : res B := match x with Ok a => Ok (f a) | Err => Err end.

(* ---------- list plumbing ---------- *)
Section L.
Context {A B : Type}.
Variable f : A -> B.
Lemma filter_map_comm (p : B -> bool) l : filter p (map f l) = map f (filter (fun x => p (f x)) l).
Proof. induction l as [|x t IH]; [reflexivity|]. cbn. destruct (p (f x)); cbn; rewrite IH; reflexivity. Qed.
Lemma takewhile_map (p : B -> bool) l : takewhile p (map f l) = map f (takewhile (fun x => p (f x)) l).
Proof. induction l as [|x t IH]; [reflexivity|]. cbn. destruct (p (f x)); cbn; [rewrite IH|]; reflexivity. Qed.
Lemma dropwhile_map (p : B -> bool) l : dropwhile p (map f l) = map f (dropwhile (fun x => p (f x)) l).
Proof. induction l as [|x t IH]; [reflexivity|]. cbn. destruct (p (f x)); cbn; [rewrite IH|]; reflexivity. Qed.
Lemma insert_by_map (k : B -> Z) x l : insert_by k (f x) (map f l) = map f (insert_by (fun y => k (f y)) x l).
Proof. induction l as [|y t IH]; [reflexivity|]. cbn. destruct (k (f x) <=? k (f y)); cbn; [|rewrite IH]; reflexivity. Qed.
Lemma sort_by_map (k : B -> Z) l : sort_by k (map f l) = map f (sort_by (fun y => k (f y)) l).
Proof. induction l as [|x t IH]; [reflexivity|]. unfold sort_by in *. cbn [map fold_right]. rewrite IH. apply insert_by_map. Qed.
End L.
Lemma takewhile_ext {A} (p p' : A -> bool) l : (forall x, p x = p' x) -> takewhile p l = takewhile p' l.
Proof. intros H. induction l as [|x t IH]; [reflexivity|]. cbn. rewrite H, IH. reflexivity. Qed.
Lemma dropwhile_ext {A} (p p' : A -> bool) l : (forall x, p x = p' x) -> dropwhile p l = dropwhile p' l.
Proof. intros H. induction l as [|x t IH]; [reflexivity|]. cbn. rewrite H, IH. reflexivity. Qed.
Lemma sort_by_ext {A} (k k' : A -> Z) l : (forall x, k x = k' x) -> sort_by k l = sort_by k' l.
Proof. intros H. induction l as [|x t IH]; [reflexivity|]. unfold sort_by in *. cbn [fold_right]. rewrite IH. clear IH.
  induction (fold_right (insert_by k') [] t) as [|y u IHu]; [reflexivity|]. cbn. rewrite !H, IHu. reflexivity. Qed.

(* ---------- scored positions ---------- *)
Lemma er_sc p : sc (er_sp p) = sc p. Proof. reflexivity. Qed.
Lemma er_is_pair p : is_pair (er_sp p) = is_pair p. Proof. destruct p as [[] ?]; reflexivity. Qed.
Lemma er_pv_of p : pv_of (er_sp p) = pv_of p. Proof. destruct p as [[] ?]; reflexivity. Qed.
Lemma er_less_both p o : less_both (er_sp p) o = less_both p o. Proof. destruct p as [[] ?]; reflexivity. Qed.
Lemma er_le_any p o : le_any (er_sp p) o = le_any p o. Proof. destruct p as [[] ?]; reflexivity. Qed.
Lemma er_pos_eqb a b : pos_eqb (er_sp a) (er_sp b) = pos_eqb a b. Proof. destruct a as [[] ?], b as [[] ?]; reflexivity. Qed.
Lemma er_score_pos P p : score_pos P (er_ap p) = er_sp (score_pos P p). Proof. destruct p; reflexivity. Qed.
Lemma er_abs_pos p : abs_pos (er_ap p) = abs_pos p. Proof. destruct p; reflexivity. Qed.

Lemma er_sum_scores l : sum_scores (map er_sp l) = sum_scores l.
Proof. unfold sum_scores. generalize 0. induction l as [|x t IH]; intros a; [reflexivity|]. cbn. apply IH. Qed.
Lemma er_seg_create ps peak : seg_create (map er_sp ps) peak = er_seg (seg_create ps peak).
Proof. unfold seg_create, er_seg. cbn. rewrite er_sum_scores. reflexivity. Qed.
Lemma er_seg_empty s : seg_empty (er_seg s) = seg_empty s.
Proof. unfold seg_empty, er_seg. cbn. destruct (positions s); reflexivity. Qed.
Lemma er_aligned s : aligned (er_seg s) = map er_sp (aligned s).
Proof. unfold aligned, er_seg. cbn. rewrite filter_map_comm. f_equal. apply filter_ext. intros; apply er_is_pair. Qed.
Lemma er_start_position s : start_position (er_seg s) = start_position s.
Proof. unfold start_position. rewrite er_seg_empty, er_aligned. destruct (seg_empty s); [reflexivity|].
  destruct (aligned s); cbn; [reflexivity|]. rewrite er_pv_of. reflexivity. Qed.
Lemma er_end_position s : end_position (er_seg s) = end_position s.
Proof. unfold end_position. rewrite er_seg_empty, er_aligned, <- map_rev. destruct (seg_empty s); [reflexivity|].
  destruct (rev (aligned s)); cbn; [reflexivity|]. rewrite er_pv_of. reflexivity. Qed.
Lemma er_has_pairs s : has_pairs (er_seg s) = has_pairs s.
Proof. unfold has_pairs. rewrite er_aligned. destruct (aligned s); reflexivity. Qed.

Lemma er_trim_rev rl e : trim_rev (map er_sp rl) e = rmap (map er_sp) (trim_rev rl e).
Proof. induction rl as [|p t IH]; [reflexivity|]. cbn [map trim_rev]. rewrite er_is_pair, er_le_any.
  destruct (negb (is_pair p) && negb (le_any p e)); [exact IH | reflexivity]. Qed.

Lemma er_slice s st en : slice (er_seg s) st en = rmap er_seg (slice s st en).
Proof. unfold slice. cbn [positions er_seg speak].
  rewrite dropwhile_map, takewhile_map.
  rewrite (dropwhile_ext _ (fun p => less_both p st)) by (intros; apply er_less_both).
  rewrite (takewhile_ext _ (fun p => negb (is_pair p) || le_any p en)) by (intros; rewrite er_is_pair, er_le_any; reflexivity).
  destruct (takewhile _ _) as [|x t] eqn:E.
  - cbn. rewrite <- (er_seg_create [] (speak s)). reflexivity.
  - cbn [map]. change (er_sp x :: map er_sp t) with (map er_sp (x :: t)). rewrite <- map_rev, er_trim_rev.
    destruct (trim_rev (rev (x :: t)) en) as [rl|]; cbn; [|reflexivity].
    rewrite <- map_rev, er_seg_create. reflexivity. Qed.

Lemma er_existsb_pos p other : existsb (pos_eqb (er_sp p)) (map er_sp other) = existsb (pos_eqb p) other.
Proof. induction other as [|o t IH]; [reflexivity|]. cbn. rewrite er_pos_eqb, IH. reflexivity. Qed.
Lemma er_seg_sub s other : seg_sub (er_seg s) (map er_sp other) = er_seg (seg_sub s other).
Proof. unfold seg_sub. cbn [positions er_seg speak]. rewrite filter_map_comm, er_seg_create. do 2 f_equal.
  apply filter_ext. intros p. rewrite er_existsb_pos. reflexivity. Qed.

Lemma er_labels_aux isref l : forall idx sum, labels_aux isref (map er_sp l) idx sum = labels_aux isref l idx sum.
Proof. induction l as [|p t IH]; intros idx sum; [reflexivity|]. cbn [map labels_aux]. rewrite !IH.
  destruct p as [[] ?]; reflexivity. Qed.
Lemma er_seg_labels isref s : seg_labels isref (er_seg s) = seg_labels isref s.
Proof. apply er_labels_aux. Qed.

Lemma er_end_overlaps a b : end_overlaps (er_seg a) (er_seg b) = end_overlaps a b.
Proof. unfold end_overlaps. rewrite er_seg_empty, !er_start_position, !er_end_position. reflexivity. Qed.

Definition er_pair (ab : segment * segment) : segment * segment := (er_seg (fst ab), er_seg (snd ab)).
Lemma er_positions s : positions (er_seg s) = map er_sp (positions s). Proof. reflexivity. Qed.
Lemma er_speak s : speak (er_seg s) = speak s. Proof. reflexivity. Qed.
Lemma er_sscore s : sscore (er_seg s) = sscore s. Proof. reflexivity. Qed.

Lemma er_resolve_pair a b : resolve_pair (er_seg a) (er_seg b) = rmap er_pair (resolve_pair a b).
Proof.
  unfold resolve_pair. rewrite er_seg_empty. destruct (seg_empty a); [reflexivity|].
  rewrite er_end_overlaps. destruct (end_overlaps a b) as [ov|]; cbn [bind rmap]; [|reflexivity].
  destruct (negb ov); [reflexivity|].
  rewrite er_start_position, er_end_position.
  destruct (start_position b) as [cs|]; cbn [bind rmap]; [|reflexivity].
  destruct (end_position a) as [ce|]; cbn [bind rmap]; [|reflexivity].
  rewrite !er_slice.
  destruct (slice a cs ce) as [lsub|]; cbn [bind rmap]; [|reflexivity].
  destruct (slice b cs ce) as [rsub|]; cbn [bind rmap]; [|reflexivity].
  rewrite !er_speak, !er_seg_labels, !er_sscore, !er_positions.
  destruct (Nat.eqb _ _).
  - destruct (Nat.eqb (optimal_merge_index _ _) 0); [rewrite er_seg_sub; reflexivity|].
    destruct (Nat.eqb _ _); [rewrite er_seg_sub; reflexivity|].
    rewrite skipn_map, firstn_map, !er_seg_sub. reflexivity.
  - destruct (_ <? _); rewrite er_seg_sub; reflexivity.
Qed.

(* ---------- factory ---------- *)
Lemma er_get_segments P ps peak : get_segments P (map er_sp ps) peak = map er_seg (get_segments P ps peak).
Proof. unfold get_segments. rewrite map_map. rewrite (map_ext (fun x => sc (er_sp x)) sc) by reflexivity.
  destruct (factory_ranges (MS P) (BS P) (map sc ps)) as [|r rs].
  - cbn. rewrite <- (er_seg_create [] peak). reflexivity.
  - rewrite map_map. apply map_ext. intros [[a b] c]. rewrite <- er_seg_create, skipn_map, firstn_map. reflexivity. Qed.

(* ---------- chainer ---------- *)
Lemma er_join_score P a b : join_score P (er_seg a) (er_seg b) = join_score P a b.
Proof. unfold join_score. rewrite !er_start_position, !er_end_position. reflexivity. Qed.
Lemma er_order_key s : order_key (er_seg s) = order_key s.
Proof. unfold order_key. rewrite er_start_position, er_end_position. reflexivity. Qed.

Notation trow := (segment * Q * option nat)%type.
Definition er_t (x : trow) : trow := match x with (s, c, p) => (er_seg s, c, p) end.

Lemma er_best_prev P cur_ done : forall j best bp,
  best_prev P (er_seg cur_) (map er_t done) j best bp = best_prev P cur_ done j best bp.
Proof. induction done as [|[[sj cj] pj] t IH]; intros j best bp; [reflexivity|]. cbn [map er_t best_prev].
  rewrite er_join_score. destruct (join_score P sj cur_) as [[x|]|]; cbn [bind]; [|apply IH|reflexivity].
  destruct (Qltb best _); apply IH. Qed.
Lemma er_dp P todo : forall done, dp P (map er_seg todo) (map er_t done) = rmap (map er_t) (dp P todo done).
Proof. induction todo as [|s t IH]; intros done; [reflexivity|]. cbn [map dp]. rewrite er_best_prev.
  destruct (best_prev P s done 0%nat 0%Q None) as [bp|]; cbn [bind rmap]; [|reflexivity].
  rewrite <- IH. f_equal. rewrite map_app. reflexivity. Qed.
Lemma er_best_index l : forall i best bi, best_index (map er_t l) i best bi = best_index l i best bi.
Proof. induction l as [|[[s c] p] t IH]; intros; [reflexivity|]. cbn [map er_t best_index]. destruct (Qltb best c); apply IH. Qed.
Lemma nth_error_map' {A B} (f : A -> B) l i : nth_error (map f l) i = option_map f (nth_error l i).
Proof. revert i. induction l as [|x t IH]; intros [|i]; cbn; try reflexivity. apply IH. Qed.
Lemma er_backtrack fuel tbl : forall i acc,
  backtrack fuel (map er_t tbl) i (map er_seg acc) = map er_seg (backtrack fuel tbl i acc).
Proof. induction fuel as [|f IH]; intros i acc; [reflexivity|]. cbn [backtrack]. rewrite nth_error_map'.
  destruct (nth_error tbl i) as [[[s c] [j|]]|]; cbn [option_map er_t]; [|reflexivity|reflexivity].
  change (er_seg s :: map er_seg acc) with (map er_seg (s :: acc)). apply IH. Qed.
Definition er_k (x : Z * segment) : Z * segment := (fst x, er_seg (snd x)).
Lemma er_keys l : keys (map er_seg l) = rmap (map er_k) (keys l).
Proof. induction l as [|s t IH]; [reflexivity|]. cbn [map keys]. rewrite er_order_key, IH.
  destruct (order_key s); cbn [bind rmap]; [|reflexivity]. destruct (keys t); reflexivity. Qed.

Lemma er_chain P segs : chain P (map er_seg segs) = rmap (map er_seg) (chain P segs).
Proof.
  unfold chain. rewrite !filter_map_comm.
  rewrite (filter_ext (fun x => seg_empty (er_seg x)) seg_empty) by apply er_seg_empty.
  rewrite (filter_ext (fun x => negb (seg_empty (er_seg x))) (fun s => negb (seg_empty s))) by (intros; rewrite er_seg_empty; reflexivity).
  rewrite er_keys. destruct (keys _) as [ks|]; cbn [bind rmap]; [|reflexivity].
  rewrite sort_by_map. rewrite (sort_by_ext (fun y => fst (er_k y)) fst) by reflexivity.
  rewrite !map_map. rewrite (map_ext (fun x => snd (er_k x)) (fun x => er_seg (snd x))) by reflexivity.
  rewrite <- (map_map snd er_seg).
  destruct (map snd (sort_by fst ks)) as [|s0 pre] eqn:E; [reflexivity|].
  change (er_seg s0 :: map er_seg pre) with (map er_seg (s0 :: pre)).
  change (@nil trow) with (map er_t []) at 1. rewrite er_dp.
  destruct (dp P (s0 :: pre) []) as [tbl|]; cbn [bind rmap]; [|reflexivity].
  f_equal. rewrite map_app, map_length. f_equal.
  change (@nil segment) with (map er_seg []) at 1. rewrite <- er_backtrack. f_equal.
  rewrite er_best_index. destruct tbl as [|[[s c] p] t]; reflexivity.
Qed.

(* ---------- resolver ---------- *)
Lemma set_nth_map {A B} (f : A -> B) l : forall i x, set_nth (map f l) i (f x) = map f (set_nth l i x).
Proof. induction l as [|y t IH]; intros [|i] x; cbn; try reflexivity. rewrite IH. reflexivity. Qed.
Definition er_r (r : list segment * list nat) : list segment * list nat := (map er_seg (fst r), snd r).
Lemma er_retry fuel : forall l stack i1, retry fuel (map er_seg l) stack i1 = rmap er_r (retry fuel l stack i1).
Proof. induction fuel as [|f IH]; intros l stack i1; [reflexivity|]. cbn [retry].
  destruct stack as [|i0 rest]; [reflexivity|]. rewrite !nth_error_map'.
  destruct (nth_error l i1) as [b|]; cbn [option_map]; [|reflexivity].
  rewrite er_has_pairs. destruct (has_pairs b); [|reflexivity].
  destruct (nth_error l i0) as [a|]; cbn [option_map]; [|reflexivity].
  rewrite er_resolve_pair. destruct (resolve_pair a b) as [ab|]; cbn [bind rmap]; [|reflexivity].
  unfold er_pair. cbn [fst snd]. rewrite er_has_pairs, !set_nth_map.
  destruct (has_pairs (fst ab)); [reflexivity | apply IH]. Qed.
Lemma er_resolve_loop n : forall i1 l stack, resolve_loop n i1 (map er_seg l) stack = rmap (map er_seg) (resolve_loop n i1 l stack).
Proof. induction n as [|m IH]; intros i1 l stack; [reflexivity|]. cbn [resolve_loop]. rewrite er_retry.
  destruct (retry (S (length stack)) l stack i1) as [r|]; cbn [bind rmap]; [|reflexivity].
  unfold er_r at 1 2 3. cbn [fst snd]. rewrite nth_error_map'.
  destruct (nth_error (fst r) i1) as [b|]; cbn [option_map]; [rewrite er_has_pairs|]; apply IH. Qed.
Lemma er_resolve_conflicts P segs : resolve_conflicts P (map er_seg segs) = rmap (map er_seg) (resolve_conflicts P segs).
Proof. unfold resolve_conflicts. rewrite map_length. destruct (length segs <? 2)%nat; [reflexivity|].
  rewrite er_chain. destruct (chain P segs) as [ch|]; cbn [bind rmap]; [|reflexivity].
  rewrite map_length. apply er_resolve_loop. Qed.

(* ---------- engine: the iteration counter only lands in `source` ---------- *)
Lemma er_sort_abs l : map er_ap (sort_by abs_pos l) = sort_by abs_pos (map er_ap l).
Proof. rewrite sort_by_map. f_equal. apply sort_by_ext. intros x. symmetry. apply er_abs_pos. Qed.
Lemma er_align_engine d it it' r q a b rv : map er_ap (align_engine d it r q a b rv) = map er_ap (align_engine d it' r q a b rv).
Proof. unfold align_engine. rewrite !er_sort_abs, !map_app, !map_map. reflexivity. Qed.

Lemma er_get_segments_for_peak P it it' r q peak rv :
  map er_seg (get_segments_for_peak P it r q peak rv) = map er_seg (get_segments_for_peak P it' r q peak rv).
Proof. unfold get_segments_for_peak. rewrite <- !er_get_segments, !map_map.
  rewrite <- !(map_ext (fun x => score_pos P (er_ap x)) (fun x => er_sp (score_pos P x))) by (intros; apply er_score_pos).
  rewrite <- !(map_map er_ap (score_pos P)). rewrite (er_align_engine _ it it'). reflexivity. Qed.
Lemma er_segs_for_peaks P r q rv peaks : forall it it',
  map er_seg (segs_for_peaks P it r q peaks rv) = map er_seg (segs_for_peaks P it' r q peaks rv).
Proof. induction peaks as [|p t IH]; intros it it'; [reflexivity|]. cbn [segs_for_peaks]. rewrite !map_app.
  rewrite (er_get_segments_for_peak P it it'), (IH (it + 1) (it' + 1)). reflexivity. Qed.

(* Aligner.align up to `source` does not depend on the iteration counter *)
Theorem aligner_align_it P it it' r q peaks rv :
  rmap (map er_seg) (aligner_align P it r q peaks rv) = rmap (map er_seg) (aligner_align P it' r q peaks rv).
Proof. unfold aligner_align. rewrite <- !er_resolve_conflicts, (er_segs_for_peaks P r q rv peaks it it'). reflexivity. Qed.

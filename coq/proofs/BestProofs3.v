(* C05, part 3: AlignmentResults.resolve on the filtered lists, _MultiPassWorkflowCoordinator.execute and Program.run *)
From Coq Require Import ZArith QArith List Bool Lia Sorting.Permutation Sorting.Sorted.
Import ListNotations.
Require Import Py PyProofs Pairing Core Multi Coordinator BestProofs1 BestProofs2 RowEq FreshProofs.
Open Scope Z_scope.

(* ---------- small list facts ---------- *)
Lemma filter_comm {A} (p q : A -> bool) l : filter p (filter q l) = filter q (filter p l).
Proof. induction l as [|x t IH]; [reflexivity|]. cbn [filter]. destruct (p x) eqn:Px, (q x) eqn:Qx; cbn [filter]; rewrite ?Px, ?Qx, IH; reflexivity. Qed.

Lemma perm_filter {A} (p : A -> bool) l l' : Permutation l l' -> Permutation (filter p l) (filter p l').
Proof. induction 1 as [|x l l' H IH|x y l|l l' l'' H1 IH1 H2 IH2]; cbn [filter].
  - constructor.
  - destruct (p x); [constructor|]; exact IH.
  - destruct (p x), (p y); try reflexivity. apply perm_swap.
  - rewrite IH1. exact IH2.
Qed.

Lemma NoDup_app_l {A} (a b : list A) : NoDup (a ++ b) -> NoDup a.
Proof. induction a as [|x t IH]; intros H; [constructor|]. cbn in H. inversion H as [|? ? Hn Hd]; subst.
  constructor; [intros Hx; apply Hn; apply in_or_app; left; exact Hx | apply IH; exact Hd]. Qed.

(* a strictly key-sorted list has at most one element per key *)
Lemma kstrict_filter_le1 {A} (k : A -> Z) l c : kstrict k l ->
  filter (fun y => k y =? c) l = [] \/ exists x, In x l /\ k x = c /\ filter (fun y => k y =? c) l = [x].
Proof. intros H. destruct (filter (fun y => k y =? c) l) as [|x r] eqn:E; [left; reflexivity|]. right.
  assert (Hx : In x (filter (fun y => k y =? c) l)) by (rewrite E; left; reflexivity).
  apply filter_In in Hx. destruct Hx as (Hx & Hc). apply Z.eqb_eq in Hc. exists x. split; [exact Hx|]. split; [exact Hc|].
  rewrite <- E, <- Hc. apply kstrict_filter_single; assumption. Qed.

Lemma filter_le1 {A} (p : A -> bool) (l : list A) x : l = [] \/ l = [x] -> filter p l = [] \/ filter p l = [x].
Proof. intros [->| ->]; [left; reflexivity|]. cbn. destruct (p x); [right | left]; reflexivity. Qed.

(* ---------- check_overlap / join of a row with itself ---------- *)
Lemma check_overlap_self a d : check_overlap a a d = (Z.abs (rs a - re a) <=? d).
Proof. unfold check_overlap. rewrite eqb_reflx, Z.eqb_refl, Z.max_id, Z.min_id. reflexivity. Qed.

(* row.resolve(row): only the FIRST segment of the row takes part, paired with itself; every other segment is dropped *)
Lemma join_rows_self a : join_rows a a =
  do _ <- first_pair_rpos a; do s <- seg0 a; do r <- resolve_pair s s;
  Ok (row_create [fst r; snd r] (qid a) (rid a) (qlen a) (rlen a) (rrev a)).
Proof. unfold join_rows. destruct (first_pair_rpos a) as [pa|]; [|reflexivity]. cbn [bind].
  destruct (seg0 a) as [s|]; [|reflexivity]. cbn [bind]. rewrite Z.ltb_irrefl. reflexivity. Qed.

Lemma join_rows_qid a b j : join_rows a b = Ok j -> qid j = qid a /\ rest j = false.
Proof. unfold join_rows. destruct (first_pair_rpos a) as [pa|]; [|discriminate]. destruct (first_pair_rpos b) as [pb|]; [|discriminate].
  destruct (seg0 a) as [sa|]; [|discriminate]. destruct (seg0 b) as [sb|]; [|discriminate]. cbn [bind].
  destruct (if pa <? pb then resolve_pair sa sb else resolve_pair sb sa); [|discriminate]. cbn [bind].
  intros H. injection H as <-. split; reflexivity. Qed.

(* ---------- resolve ---------- *)
Lemma resolve_groups_spec d G : forall joined sep, resolve_groups d G = Ok (joined, sep) ->
  (forall j, In j joined -> exists x y t, In (x :: y :: t) G /\ check_overlap x y d = true /\ join_rows x y = Ok j /\ joined_ok j = true) /\
  (exists used, Permutation (concat G) (sep ++ used)).
Proof. induction G as [|g G IH]; intros joined sep H.
  - cbn in H. injection H as <- <-. split; [intros j []|]. exists []. reflexivity.
  - cbn [resolve_groups] in H. destruct (resolve_groups d G) as [[j0 s0]|] eqn:E; [|discriminate]. cbn [bind] in H.
    destruct (IH _ _ eq_refl) as (HJ & used & HP).
    assert (HJ' : forall j, In j j0 -> exists x y t, In (x :: y :: t) (g :: G) /\ check_overlap x y d = true /\ join_rows x y = Ok j /\ joined_ok j = true).
    { intros j Hj. destruct (HJ j Hj) as (x & y & t & Hin & Hc & Hr & Hk). exists x, y, t. split; [right; exact Hin|]. repeat split; assumption. }
    destruct g as [|x [|y t]].
    + injection H as <- <-. split; [exact HJ'|]. exists used. exact HP.
    + cbn [fst snd] in H. injection H as <- <-. split; [exact HJ'|]. exists used. cbn [concat app]. constructor. exact HP.
    + destruct (check_overlap x y d) eqn:Ec.
      * destruct (join_rows x y) as [j|] eqn:Ej; [|discriminate]. cbn [bind fst snd] in H.
        destruct (joined_ok j) eqn:Ek; injection H as <- <-.
        -- split.
           ++ intros j' [<-|Hj]; [|apply HJ'; exact Hj]. exists x, y, t. split; [left; reflexivity|]. repeat split; assumption.
           ++ exists ((x :: y :: t) ++ used). cbn [concat]. rewrite HP. apply Permutation_app_swap_app.
        -- (* repair F9: a pair-less joined row does not replace its parts *)
           split; [exact HJ'|]. exists used. cbn [concat]. rewrite HP, app_assoc. reflexivity.
      * cbn [fst snd] in H. injection H as <- <-. split; [exact HJ'|]. exists used. cbn [concat]. rewrite HP, app_assoc. reflexivity.
Qed.

Definition resolve_groups_of (rows : list row) : list (list row) :=
  flat_map (fun byref => groupby qid (sort_by qid byref)) (groupby rid (sort_by rid rows)).

Lemma resolve_groups_of_perm rows : Permutation (concat (resolve_groups_of rows)) rows.
Proof. unfold resolve_groups_of. rewrite <- (sort_by_perm rid rows) at 2. rewrite <- (groupby_concat rid (sort_by rid rows)) at 2.
  induction (groupby rid (sort_by rid rows)) as [|b Bs IH]; [reflexivity|]. cbn [flat_map concat].
  rewrite concat_app, groupby_concat, sort_by_perm, IH. reflexivity. Qed.

(* every group is the rows of one (reference, query) pair, in input order *)
Lemma resolve_groups_of_filter rows g : In g (resolve_groups_of rows) ->
  exists r c, g = filter (fun y => qid y =? c) (filter (fun y => rid y =? r) rows).
Proof. unfold resolve_groups_of. rewrite in_flat_map. intros (b & Hb & Hg).
  destruct (groupby_sort_by_filter rid rows b Hb) as (_ & Eb). destruct (groupby_sort_by_filter qid b g Hg) as (_ & Eg).
  exists (gkey rid b 0), (gkey qid g 0). rewrite <- Eb. exact Eg. Qed.

(* on first-pass ++ second-pass lists that each have at most one row per query: a joined row comes from the row x of a query
   in the first list and the row y of the same query in the second list (same reference, overlapping) *)
Lemma resolve_two_lists f1 f2 d joined sep : kstrict qid f1 -> kstrict qid f2 ->
  results_resolve (f1 ++ f2) d = Ok (joined, sep) ->
  (forall j, In j joined -> exists x y, In x f1 /\ In y f2 /\ qid x = qid y /\ rid x = rid y /\
                                         check_overlap x y d = true /\ join_rows x y = Ok j /\ joined_ok j = true) /\
  (exists used, Permutation (f1 ++ f2) (sep ++ used)).
Proof. intros K1 K2 H. unfold results_resolve in H. apply resolve_groups_spec in H. destruct H as (HJ & used & HP). split.
  - intros j Hj. destruct (HJ j Hj) as (x & y & t & Hin & Hc & Hr & Hk).
    destruct (resolve_groups_of_filter _ _ Hin) as (r & c & E). rewrite filter_app, filter_app in E.
    rewrite (filter_comm _ _ f1), (filter_comm _ _ f2) in E.
    assert (A1 := kstrict_filter_le1 qid f1 c K1). assert (A2 := kstrict_filter_le1 qid f2 c K2).
    destruct A1 as [A1|(x1 & Hx1 & Hq1 & A1)]; destruct A2 as [A2|(x2 & Hx2 & Hq2 & A2)]; rewrite A1, A2 in E; cbn [filter app] in E.
    + discriminate.
    + destruct (rid x2 =? r); discriminate.
    + destruct (rid x1 =? r); discriminate.
    + destruct (rid x1 =? r) eqn:R1, (rid x2 =? r) eqn:R2; cbn [app] in E; try discriminate.
      injection E as -> -> ->. apply Z.eqb_eq in R1, R2. exists x1, x2. repeat split; try assumption; congruence.
  - exists used. rewrite <- HP. symmetry. apply resolve_groups_of_perm.
Qed.

(* ---------- multi_execute / program_run ---------- *)
(* resolve receives f1 ++ fresh_rows f1 f2 (repair F12: f2 without the rows that are in f1) *)
Section Run.
Variable P : params.
Variable seeds : seeding.
Variable refs : list omap.

Lemma multi_execute_inv m maxdiff qs o : multi_execute P seeds m maxdiff refs qs = Ok o ->
  exists rows1 it1 frags rows2 it2,
    execute P seeds refs qs 1 = Ok (rows1, it1) /\ all_fragments rows1 qs = Ok frags /\
    execute P seeds refs frags it1 = Ok (rows2, it2) /\
    let r2 := map set_rest rows2 in
    let f1 := filter_subsequent (match m with Best => rows1 ++ r2 | _ => rows1 end) in
    let f2 := filter_subsequent r2 in
    match m with
    | Separate => o = mkOut f1 (Some f2) None
    | Best => exists joined sep, results_resolve (f1 ++ fresh_rows f1 f2) maxdiff = Ok (joined, sep) /\
              o = mkOut (sort_by qid (joined ++ filter (fun w => negb (mem_z (qid w) (map qid joined))) f1)) None None
    | Joined => exists joined sep, results_resolve (f1 ++ fresh_rows f1 f2) maxdiff = Ok (joined, sep) /\ o = mkOut joined (Some sep) None
    | All_ => exists joined sep, results_resolve (f1 ++ fresh_rows f1 f2) maxdiff = Ok (joined, sep) /\ o = mkOut joined (Some f1) (Some f2)
    end.
Proof. unfold multi_execute. destruct (execute P seeds refs qs 1) as [[rows1 it1]|] eqn:E1; [|discriminate]. cbn [bind fst snd].
  destruct (all_fragments rows1 qs) as [frags|] eqn:Ef; [|discriminate]. cbn [bind].
  destruct (execute P seeds refs frags it1) as [[rows2 it2]|] eqn:E2; [|discriminate]. cbn [bind fst snd]. intros H.
  exists rows1, it1, frags, rows2, it2. split; [reflexivity|]. split; [exact Ef|]. split; [exact E2|]. cbn zeta.
  destruct m.
  - destruct (results_resolve _ maxdiff) as [[joined sep]|] eqn:Er; [|discriminate]. cbn [bind fst snd] in H. injection H as <-.
    exists joined, sep. split; reflexivity.
  - injection H as <-. reflexivity.
  - destruct (results_resolve _ maxdiff) as [[joined sep]|] eqn:Er; [|discriminate]. cbn [bind fst snd] in H. injection H as <-.
    exists joined, sep. split; reflexivity.
  - destruct (results_resolve _ maxdiff) as [[joined sep]|] eqn:Er; [|discriminate]. cbn [bind fst snd] in H. injection H as <-.
    exists joined, sep. split; reflexivity.
Qed.

Lemma program_run_inv m maxdiff qs o : program_run P seeds m maxdiff refs qs = Ok o ->
  exists o', multi_execute P seeds m maxdiff refs qs = Ok o' /\ o = mkOut (filter_subsequent (o_main o')) (o_1 o') (o_2 o').
Proof. unfold program_run. destruct (multi_execute P seeds m maxdiff refs qs) as [o'|]; [|discriminate]. cbn [bind].
  intros H. injection H as <-. exists o'. split; reflexivity. Qed.
End Run.

(* ---------- the model BEFORE repair F12, kept for the regression statements ---------- *)
(* _MultiPassWorkflowCoordinator.execute as it was: `AlignmentResults.resolve(filteredFirstPassRows + filteredSecondPassRows, maxDifference)` *)
Definition multi_execute_before_F12 (P : params) (seeds : seeding) (m : mode) (maxdiff : Z) (refs qs : list omap) : res outputs :=
  do r1 <- execute P seeds refs qs 1;
  let rows1 := fst r1 in
  do frags <- all_fragments rows1 qs;
  do r2 <- execute P seeds refs frags (snd r1);
  let rows2 := map set_rest (fst r2) in
  let rows1' := match m with Best => rows1 ++ rows2 | _ => rows1 end in
  let f1 := filter_subsequent rows1' in
  let f2 := filter_subsequent rows2 in
  match m with
  | Separate => Ok (mkOut f1 (Some f2) None)
  | _ =>
    do js <- results_resolve (f1 ++ f2) maxdiff;
    let joined := fst js in let sep := snd js in
    match m with
    | Best => let jids := map qid joined in
              Ok (mkOut (sort_by qid (joined ++ filter (fun w => negb (mem_z (qid w) jids)) f1)) None None)
    | Joined => Ok (mkOut joined (Some sep) None)
    | _ => Ok (mkOut joined (Some f1) (Some f2))
    end
  end.
Definition program_run_before_F12 (P : params) (seeds : seeding) (m : mode) (maxdiff : Z) (refs qs : list omap) : res outputs :=
  do o <- multi_execute_before_F12 P seeds m maxdiff refs qs;
  Ok (mkOut (filter_subsequent (o_main o)) (o_1 o) (o_2 o)).

Lemma best_before_F12_inv P (seeds : seeding) refs maxdiff qs o : program_run_before_F12 P seeds Best maxdiff refs qs = Ok o ->
  exists rows1 it1 frags rows2 it2 joined sep,
    execute P seeds refs qs 1 = Ok (rows1, it1) /\ all_fragments rows1 qs = Ok frags /\
    execute P seeds refs frags it1 = Ok (rows2, it2) /\
    let f1 := filter_subsequent (rows1 ++ map set_rest rows2) in
    let f2 := filter_subsequent (map set_rest rows2) in
    results_resolve (f1 ++ f2) maxdiff = Ok (joined, sep) /\
    o = mkOut (filter_subsequent (sort_by qid (joined ++ filter (fun w => negb (mem_z (qid w) (map qid joined))) f1))) None None.
Proof. unfold program_run_before_F12, multi_execute_before_F12.
  destruct (execute P seeds refs qs 1) as [[rows1 it1]|] eqn:E1; [|discriminate]. cbn [bind fst snd].
  destruct (all_fragments rows1 qs) as [frags|] eqn:Ef; [|discriminate]. cbn [bind].
  destruct (execute P seeds refs frags it1) as [[rows2 it2]|] eqn:E2; [|discriminate]. cbn [bind fst snd].
  destruct (results_resolve _ maxdiff) as [[joined sep]|] eqn:Er; [|discriminate]. cbn [bind fst snd o_main o_1 o_2]. intros H. injection H as <-.
  exists rows1, it1, frags, rows2, it2, joined, sep. repeat split; try assumption. Qed.

(* outside `best` mode the repair changes nothing: the two models agree (first-pass rows and second-pass rows differ in AlignedRest) *)
Theorem before_F12_same P (seeds : seeding) refs m maxdiff qs : m <> Best ->
  program_run_before_F12 P seeds m maxdiff refs qs = program_run P seeds m maxdiff refs qs.
Proof. intros Hm. unfold program_run_before_F12, program_run, multi_execute_before_F12, multi_execute.
  destruct (execute P seeds refs qs 1) as [[rows1 it1]|] eqn:E1; [|reflexivity]. cbn [bind fst snd].
  destruct (all_fragments rows1 qs) as [frags|] eqn:Ef; [|reflexivity]. cbn [bind].
  destruct (execute P seeds refs frags it1) as [[rows2 it2]|] eqn:E2; [|reflexivity]. cbn [bind fst snd].
  assert (HF : pass_flags rows1 (map set_rest rows2)).
  { split; apply Forall_forall; intros w Hw; [apply (execute_rows _ _ _ _ _ _ _ E1 w Hw)|].
    apply in_map_iff in Hw. destruct Hw as (y & <- & _). reflexivity. }
  pose proof (fresh_rows_plain m rows1 (map set_rest rows2) Hm HF) as X. unfold fresh_rows in X.
  destruct m; [congruence|reflexivity| |]; cbn [first_rows] in X; rewrite X; reflexivity. Qed.

From Coq Require Import ZArith List Bool Lia Sorting.Permutation Sorting.Sorted.
Import ListNotations.
Require Import Py PyProofs Pairing PairingProofs1 PairingProofs2.
Open Scope Z_scope.

(* ---------- a stable sort does not disturb a sub-list that is already in key order ---------- *)
Section StableSub.
Context {A : Type}.
Variables (k : A -> Z) (f : A -> bool).
Lemma filter_insert_skip x s : f x = false -> filter f (insert_by k x s) = filter f s.
Proof. intros Hx. induction s as [|y t IH]; cbn [insert_by filter]; [rewrite Hx; reflexivity|].
  destruct (k x <=? k y); cbn [filter]; [rewrite Hx; reflexivity | rewrite IH; reflexivity]. Qed.
Lemma filter_insert_first x s : f x = true -> (forall y, In y s -> f y = true -> k x <= k y) ->
  filter f (insert_by k x s) = x :: filter f s.
Proof. intros Hx. induction s as [|y t IH]; intros Hle; cbn [insert_by filter]; [rewrite Hx; reflexivity|].
  destruct (k x <=? k y) eqn:E; cbn [filter]; [rewrite Hx; reflexivity|]. apply Z.leb_gt in E.
  destruct (f y) eqn:Ey; [specialize (Hle y (or_introl eq_refl) Ey); lia|].
  apply IH. intros z Hz Hfz. apply Hle; [right; exact Hz | exact Hfz]. Qed.
Theorem sort_by_filter_sorted l : ksorted k (filter f l) -> filter f (sort_by k l) = filter f l.
Proof. induction l as [|x t IH]; intros Hs; [reflexivity|]. unfold sort_by in *. cbn [fold_right]. cbn [filter] in *.
  destruct (f x) eqn:Hx.
  - unfold ksorted in Hs. inversion Hs as [|? ? Ht Hall]; subst. rewrite filter_insert_first; [f_equal; apply IH; exact Ht | exact Hx |].
    intros y Hy Hfy. rewrite Forall_forall in Hall. apply Hall. apply filter_In. split; [|exact Hfy].
    apply (sort_by_in k y t). exact Hy.
  - rewrite filter_insert_skip by exact Hx. apply IH. exact Hs. Qed.
End StableSub.

(* ---------- getPositionsWithSiteIds yields lists in the order the pairing proofs assume ---------- *)
Lemma number_up_sorted i l : StronglySorted Z.le l ->
  StronglySorted (fun a b => site a < site b /\ lpos a <= lpos b) (number_up i l).
Proof. revert i; induction l as [|p t IH]; intros i H; cbn; [constructor|]. inversion H as [|? ? Ht Hp]; subst.
  constructor; [apply IH; exact Ht|]. rewrite Forall_forall in *. intros x Hx.
  assert (G : forall j l', In x (number_up j l') -> j <= site x /\ In (lpos x) l').
  { clear. intros j l'; revert j; induction l' as [|q l' IH]; intros j Hin; [destruct Hin|]. cbn in Hin. destruct Hin as [<-|Hin]; cbn; [split; [lia | left; reflexivity]|].
    destruct (IH (j + 1) Hin) as (G1 & G2). split; [lia | right; exact G2]. }
  destruct (G _ _ Hx) as (G1 & G2). cbn. split; [lia | apply Hp; exact G2]. Qed.

Lemma number_down_in x j e l : In x (number_down j e l) -> site x <= j /\ exists q, In q l /\ lpos x = e - q.
Proof. revert j; induction l as [|q l IH]; intros j Hin; [destruct Hin|]. cbn [number_down] in Hin. destruct Hin as [Hx|Hin].
  - subst x. cbn [site lpos]. split; [lia|]. exists q. split; [left; reflexivity | reflexivity].
  - destruct (IH (j - 1) Hin) as (G1 & q' & G2 & G3). split; [lia|]. exists q'. split; [right; exact G2 | exact G3]. Qed.

Lemma number_down_sorted i e l : StronglySorted Z.ge l ->
  StronglySorted (fun a b => 0 < (-1) * (site b - site a) /\ lpos a <= lpos b) (number_down i e l).
Proof. revert i; induction l as [|p t IH]; intros i H; cbn [number_down]; [constructor|]. inversion H as [|? ? Ht Hp]; subst.
  constructor; [apply IH; exact Ht|]. rewrite Forall_forall in *. intros x Hx.
  destruct (number_down_in _ _ _ _ Hx) as (G1 & q & G2 & G3). cbn [site lpos]. specialize (Hp q G2). split; lia. Qed.

Print Assumptions sort_by_filter_sorted.

(* C15/C01, part 11: pairings of two different seed peaks against the same maps do not cross each other
   (the earlier diagonal stays below the later one). *)
From Coq Require Import ZArith QArith List Bool Lia Sorting.Sorted Sorting.Permutation.
Import ListNotations.
Require Import Py Pairing Core PyProofs PairingProofs1 PairingProofs2 PairingProofs3 ConflictProofs DPProofs ResolverProofs1 ResolverProofs8.
Open Scope Z_scope.

Section CrossPeak.
Variables (d dir : Z) (R Q : list label).
Hypothesis Hd : 0 <= d.
Hypothesis HRs : StronglySorted (fun a b => site a < site b /\ lpos a < lpos b) R.
Hypothesis HQs : StronglySorted (fun a b => 0 < dir * (site b - site a) /\ lpos a < lpos b) Q.

Let HRw' := HRw R HRs.
Let HQw' := HQw dir Q HQs.

Lemma cands_facts start c : In c (cands d start R Q) ->
  In (cr c) R /\ In (cq c) Q /\ Z.abs (lpos (cq c) - (lpos (cr c) - start)) <= d /\ cshift c = lpos (cq c) - (lpos (cr c) - start).
Proof. intros H. apply (cands_in d start dir R Q HQw') in H. unfold within, adj in H. exact H. Qed.
Lemma cands_intro start r q : In r R -> In q Q -> Z.abs (lpos q - (lpos r - start)) <= d -> In (mkCand r q (lpos q - (lpos r - start))) (cands d start R Q).
Proof. intros Hr Hq Hw. apply (cands_in d start dir R Q HQw'). cbn. unfold within, adj. auto. Qed.

(* each query label is in at most one candidate kept by the first de-duplication *)
Lemma P1_qsite_inj start x y : In x (P1 d start R Q) -> In y (P1 d start R Q) -> cq x = cq y -> x = y.
Proof. intros Hx Hy E. destruct (SS_in_cases _ _ x y (P1_qsorted d start R Q) Hx Hy) as [X|[X|X]]; [exact X | |]; unfold qsite in X; rewrite E in X; lia. Qed.

(* the candidate a query label keeps is a nearest reference label, the first one among equally near ones *)
Lemma P1_nearest start x r : In x (P1 d start R Q) -> In r R -> Z.abs (lpos (cq x) - (lpos r - start)) <= d ->
  Z.abs (lpos (cq x) - (lpos (cr x) - start)) <= Z.abs (lpos (cq x) - (lpos r - start)) /\
  (Z.abs (lpos (cq x) - (lpos (cr x) - start)) = Z.abs (lpos (cq x) - (lpos r - start)) -> site (cr x) <= site r).
Proof.
  intros Hx Hr Hw. pose proof (P1_in d start R Q x Hx) as Hxc. destruct (cands_facts start x Hxc) as (_ & Hq & _ & Hs).
  pose proof (cands_intro start r (cq x) Hr Hq Hw) as Hy. set (y := mkCand r (cq x) (lpos (cq x) - (lpos r - start))) in *.
  destruct (dedup_in qsite (cands d start R Q) x Hx) as (_ & Hmin). specialize (Hmin y Hy eq_refl). unfold ashift in Hmin. cbn in Hmin. rewrite Hs in Hmin.
  split; [exact Hmin|]. intros E.
  pose proof (dedup_first qsite (cands d start R Q) rsite (group1_sorted d start dir R Q HRw' HQw') x y Hx Hy eq_refl) as F.
  unfold ashift in F. cbn in F. rewrite Hs in F. unfold rsite in F. cbn in F. apply F. symmetry. exact E. Qed.

(* X1: seeds A >= B; a pair of the A-pairing with a smaller reference label than a pair of the B-pairing has the smaller query position *)
Theorem cross_monotone A B c c' : B <= A -> In c (P1 d A R Q) -> In c' (P1 d B R Q) -> rsite c < rsite c' -> lpos (cq c) < lpos (cq c').
Proof.
  intros HAB Hc Hc' Hs. unfold rsite in Hs.
  destruct (cands_facts A c (P1_in d A R Q c Hc)) as (Hr & Hq & Hw & _). destruct (cands_facts B c' (P1_in d B R Q c' Hc')) as (Hr' & Hq' & Hw' & _).
  assert (Hl : lpos (cr c) < lpos (cr c')) by (destruct (R_cases R HRs (cr c) (cr c') Hr Hr') as [E|[X|X]]; [rewrite E in Hs; lia | lia | lia]).
  destruct (Z_lt_le_dec (lpos (cq c)) (lpos (cq c'))) as [Hlt|Hge]; [exact Hlt|exfalso].
  assert (W1 : Z.abs (lpos (cq c) - (lpos (cr c') - A)) <= d) by lia.
  assert (W2 : Z.abs (lpos (cq c') - (lpos (cr c) - B)) <= d) by lia.
  destruct (P1_nearest A c (cr c') Hc Hr' W1) as (N1 & _). destruct (P1_nearest B c' (cr c) Hc' Hr W2) as (N2 & T2).
  assert (N2' : Z.abs (lpos (cq c') - (lpos (cr c') - B)) <> Z.abs (lpos (cq c') - (lpos (cr c) - B))) by (intros E; specialize (T2 E); lia).
  lia.
Qed.

Lemma P1_of_query start r q : In r R -> In q Q -> Z.abs (lpos q - (lpos r - start)) <= d ->
  exists x, In x (P1 d start R Q) /\ cq x = q.
Proof. intros Hr Hq Hw. pose proof (cands_intro start r q Hr Hq Hw) as Hy.
  destruct (dedup_cover qsite (cands d start R Q) _ Hy) as (x & Hx & Hk). exists x. split; [exact Hx|].
  destruct (cands_facts start x (P1_in d start R Q x Hx)) as (_ & Hxq & _). unfold qsite in Hk. cbn in Hk. apply (Q_site_inj dir Q HQw' _ _ Hxq Hq Hk). Qed.

(* the reference label keeps the nearest of the query labels that chose it *)
Lemma P_nearest start c y : In c (P d start R Q) -> In y (P1 d start R Q) -> cr y = cr c ->
  Z.abs (lpos (cq c) - (lpos (cr c) - start)) <= Z.abs (lpos (cq y) - (lpos (cr c) - start)).
Proof. intros Hc Hy E. destruct (dedup_in rsite (P1 d start R Q) c Hc) as (Hc1 & Hmin).
  assert (Hk : rsite y = rsite c) by (unfold rsite; rewrite E; reflexivity). specialize (Hmin y Hy Hk). unfold ashift in Hmin.
  destruct (cands_facts start c (P1_in d start R Q c Hc1)) as (_ & _ & _ & Hs). destruct (cands_facts start y (P1_in d start R Q y Hy)) as (_ & _ & _ & Hs').
  rewrite Hs, Hs', E in Hmin. exact Hmin. Qed.

(* same reference label paired under two seeds A < B: the later seed does not pair it with a later query label *)
Theorem same_ref A B c c' : A < B -> In c (P d A R Q) -> In c' (P d B R Q) -> cr c = cr c' -> lpos (cq c') <= lpos (cq c).
Proof.
  intros HAB Hc Hc' Er. pose proof (P_in_P1 d A R Q c Hc) as Hc1. pose proof (P_in_P1 d B R Q c' Hc') as Hc1'.
  destruct (cands_facts A c (P1_in d A R Q c Hc1)) as (Hr & Hq & Hw & _). destruct (cands_facts B c' (P1_in d B R Q c' Hc1')) as (_ & Hq' & Hw' & _).
  rewrite <- Er in Hw'. destruct (Z_le_gt_dec (lpos (cq c')) (lpos (cq c))) as [Hle|Hgt]; [exact Hle|exfalso].
  (* whom does q choose under seed B? *)
  assert (WB : Z.abs (lpos (cq c) - (lpos (cr c) - B)) <= d) by lia.
  destruct (P1_of_query B (cr c) (cq c) Hr Hq WB) as (x & Hx & Ex).
  destruct (cands_facts B x (P1_in d B R Q x Hx)) as (Hxr & _ & Hxw & _). rewrite Ex in Hxw.
  destruct (label_eq_dec (cr x) (cr c)) as [E0|N0].
  - (* q chose r: r preferred q' *)
    pose proof (P_nearest B c' x Hc' Hx (eq_trans E0 Er)) as N. rewrite Ex, <- Er in N.
    (* whom does q' choose under seed A? *)
    assert (WA : Z.abs (lpos (cq c') - (lpos (cr c) - A)) <= d) by lia.
    destruct (P1_of_query A (cr c) (cq c') Hr Hq' WA) as (x' & Hx' & Ex').
    destruct (cands_facts A x' (P1_in d A R Q x' Hx')) as (Hxr' & _ & Hxw' & _). rewrite Ex' in Hxw'.
    destruct (label_eq_dec (cr x') (cr c)) as [E1|N1].
    + pose proof (P_nearest A c x' Hc Hx' E1) as N'. rewrite Ex' in N'. lia.
    + destruct (P1_nearest A x' (cr c) Hx' Hr) as (M1 & T1); [rewrite Ex'; exact WA|]. rewrite Ex' in M1, T1.
      destruct (R_cases R HRs (cr x') (cr c) Hxr' Hr) as [E|[(S1 & L1)|(S1 & L1)]]; [contradiction| |].
      * pose proof (P1_monotone d A dir R Q HRw' HQw' x' c Hx' Hc1 S1) as Hm. rewrite Ex' in Hm. lia.
      * assert (M1' : Z.abs (lpos (cq c') - (lpos (cr x') - A)) <> Z.abs (lpos (cq c') - (lpos (cr c) - A))) by (intros E; specialize (T1 E); lia).
        assert (W1 : Z.abs (lpos (cq c') - (lpos (cr x') - B)) <= d) by lia.
        destruct (P1_nearest B c' (cr x') Hc1' Hxr' W1) as (M2 & _). rewrite <- Er in M2. lia.
  - (* q chose another reference label r0 under seed B *)
    destruct (P1_nearest B x (cr c) Hx Hr) as (M1 & T1); [rewrite Ex; exact WB|]. rewrite Ex in M1, T1.
    destruct (R_cases R HRs (cr x) (cr c) Hxr Hr) as [E|[(S1 & L1)|(S1 & L1)]]; [contradiction| |].
    + assert (W0 : Z.abs (lpos (cq c) - (lpos (cr x) - A)) <= d) by lia.
      destruct (P1_nearest A c (cr x) Hc1 Hxr W0) as (M2 & T2).
      assert (M2' : Z.abs (lpos (cq c) - (lpos (cr c) - A)) <> Z.abs (lpos (cq c) - (lpos (cr x) - A))) by (intros E; specialize (T2 E); lia).
      lia.
    + rewrite Er in S1. pose proof (P1_monotone d B dir R Q HRw' HQw' c' x Hc1' Hx S1) as Hm. rewrite Ex in Hm. lia.
Qed.

(* X2: seeds A <= B; a pair of the A-pairing with a smaller query position than a pair of the B-pairing has the smaller reference label *)
Theorem cross_monotone_q A B c c' : A <= B -> In c (P d A R Q) -> In c' (P d B R Q) -> lpos (cq c) < lpos (cq c') -> rsite c < rsite c'.
Proof.
  intros HAB Hc Hc' Hl. pose proof (P_in_P1 d A R Q c Hc) as Hc1. pose proof (P_in_P1 d B R Q c' Hc') as Hc1'.
  destruct (Z.lt_trichotomy (rsite c) (rsite c')) as [H|[H|H]]; [exact H| |]; exfalso.
  - destruct (cands_facts A c (P1_in d A R Q c Hc1)) as (Hr & _). destruct (cands_facts B c' (P1_in d B R Q c' Hc1')) as (Hr' & _).
    pose proof (R_site_inj R HRw' _ _ Hr Hr' H) as Er. destruct (Z.eq_dec A B) as [->|N].
    + rewrite (P_rsite_inj d B R Q c c' Hc Hc' H) in Hl. lia.
    + pose proof (same_ref A B c c' ltac:(lia) Hc Hc' Er). lia.
  - pose proof (cross_monotone B A c' c HAB Hc1' Hc1 H). lia.
Qed.
End CrossPeak.
Print Assumptions cross_monotone.
Print Assumptions cross_monotone_q.

(* Whole-run lift, part 4: C04 (confidence = recomputed configured score of the reported positions, for the peaks of the row's own
   candidate) for every non-joined row of a run, under NO hypothesis on the parameters or the maps other than distinct query ids; and the
   concrete run used by the non-vacuity examples of props/C07.v, C01.v, C04.v. *)
From Coq Require Import ZArith QArith List Bool Lia Sorting.Sorted Sorting.Permutation.
Import ListNotations.
Require Import Py PyProofs Pairing Core Cigar Multi Coordinator DPProofs Checkers CheckersProofs
  ResolverProofs1 ResolverProofs3 ResolverProofs10 RecordProofs1 ScoreProofs1 ScoreProofs2
  BestProofs2 ModesProofs1 ModesProofs3 ModesExamples RunProofs1 RunProofs2 RunProofs3.
Open Scope Z_scope.

(* ------------------------------------------------------------------------------------------------ fragments, given that nothing raised *)
Lemma all_fragments_shape rows qq : NoDup (map mid qq) ->
  (forall w, In w rows -> exists q, In q qq /\ qid w = mid q /\ qlen w = mlen q) ->
  forall frags, all_fragments rows qq = Ok frags -> Forall (fun f => exists q, In q qq /\ fragment_of q f) frags.
Proof.
  intros Hnd. induction rows as [|w t IH]; intros H frags E; cbn [all_fragments] in E; [injection E as <-; constructor|].
  destruct (H w (or_introl eq_refl)) as (q & Hq & Eid & Elen).
  assert (IH' : forall rest_, all_fragments t qq = Ok rest_ -> Forall (fun f => exists q, In q qq /\ fragment_of q f) rest_)
    by (apply IH; intros w' Hw'; apply H; right; exact Hw').
  destruct (4 * qlen w <? 5 * Z.abs (Multi.qs w - qe w)).
  - cbn [bind] in E. destruct (all_fragments t qq) as [rest_|]; [|discriminate]. cbn [bind app] in E. injection E as <-. apply IH'. reflexivity.
  - rewrite Eid, (find_query_distinct qq q Hnd Hq) in E. cbn [bind] in E.
    destruct (unaligned_fragments w (mpositions q)) as [fr|] eqn:Ef; [|discriminate]. cbn [bind] in E.
    destruct (all_fragments t qq) as [rest_|]; [|discriminate]. cbn [bind] in E. injection E as <-. apply Forall_app. split; [|apply IH'; reflexivity].
    pose proof (unaligned_fragments_shape w q fr Eid Elen Ef) as Hs. rewrite Forall_forall in *. intros f Hf. exists q. split; [exact Hq | apply Hs, Hf].
Qed.

Section Any.
Variables (P : params) (seeds : seeding) (refs qq : list omap).
Hypothesis Hids : NoDup (map mid qq).

(* run_passes_rows without any hypothesis on parameters, seeds or label positions (the run is GIVEN not to raise) *)
Theorem run_passes_rows_any m f1 f2 : run_passes P seeds refs m qq = Ok (f1, f2) -> forall w, In w (f1 ++ f2) -> run_row P seeds refs qq w.
Proof.
  unfold run_passes. destruct (execute P seeds refs qq 1) as [[rows1 it1]|] eqn:E1; [|discriminate]. cbn [bind fst snd].
  destruct (all_fragments rows1 qq) as [frags|] eqn:Ef; [|discriminate]. cbn [bind].
  assert (Hfr : Forall (fun f => exists q, In q qq /\ fragment_of q f) frags).
  { apply (all_fragments_shape rows1 qq Hids); [|exact Ef]. intros w Hw.
    destruct (execute_prov P seeds refs qq 1 rows1 it1 E1 w Hw) as (_ & q & Hq & sd & it & w0 & _ & (segs & _ & E0) & Hw0). exists q. split; [exact Hq|].
    destruct Hw0 as [->| ->]; rewrite E0; split; reflexivity. }
  destruct (execute P seeds refs frags it1) as [[rows2 it2]|] eqn:E2; [|discriminate]. cbn [bind fst snd]. intros H. injection H as <- <-.
  assert (H1 : forall w, In w rows1 -> run_row P seeds refs qq w).
  { intros w Hw. destruct (execute_prov P seeds refs qq 1 rows1 it1 E1 w Hw) as (Hp & q & Hq & Hc). split; [exact Hp|]. exists q. split; [left; exact Hq | exact Hc]. }
  assert (H2 : forall w, In w (map set_rest rows2) -> run_row P seeds refs qq w).
  { intros w Hw. apply in_map_iff in Hw. destruct Hw as (w2 & <- & Hw2).
    destruct (execute_prov P seeds refs frags it1 rows2 it2 E2 w2 Hw2) as (Hp & f & Hf & sd & it & w0 & Hsd & Hc & Hw0). split; [exact Hp|].
    rewrite Forall_forall in Hfr. destruct (Hfr f Hf) as (q & Hq & Hfq). exists f. split; [right; exists q; split; assumption|].
    assert (w2 = w0) as ->.
    { destruct Hw0 as [E|E]; [exact E|]. exfalso. destruct (execute_rows P seeds refs frags it1 rows2 it2 E2 w2 Hw2) as (_ & Hr & _). rewrite E in Hr. discriminate. }
    exists sd, it, w0. split; [exact Hsd|]. split; [exact Hc | right; reflexivity]. }
  intros w Hw. apply in_app_or in Hw. destruct Hw as [Hw|Hw]; apply ModesProofs1.fs_in in Hw; [|apply H2; exact Hw].
  destruct m; try (apply H1; exact Hw). apply in_app_or in Hw. destruct Hw as [Hw|Hw]; [apply H1 | apply H2]; exact Hw.
Qed.

(* the record's confidence is the recomputed configured score of exactly the positions it reports, segment by segment, each segment's
   positions being scorer images of the engine output for one of the peaks of the row's OWN candidate (seed sd of map q': the query in
   the first pass, a fragment of it in the second) *)
Definition scored_run_row (w : row) : Prop :=
  exists q' sd it, src_map qq q' /\ In sd (seeds refs q') /\
    aligner_align P it (sd_ref sd) q' (sd_peaks sd) (sd_rev sd) = Ok (rsegs w) /\
    qid w = mid q' /\ rid w = mid (sd_ref sd) /\ rrev w = sd_rev sd /\
    conf w = recomputed P (rsegs w) /\
    Forall (reported P it (sd_ref sd) q' (sd_peaks sd) (sd_rev sd)) (rsegs w) /\
    (StronglySorted Z.le (mpositions (sd_ref sd)) -> StronglySorted Z.le (mpositions q') -> conf w = recomputed_raw P (rsegs w)).

Theorem run_row_scored w : run_row P seeds refs qq w -> scored_run_row w.
Proof.
  intros (_ & q' & Hsrc & sd & it & w0 & Hsd & (segs & Ha & E0) & Hw). exists q', sd, it. split; [exact Hsrc|]. split; [exact Hsd|].
  assert (Ew : rsegs w = segs /\ qid w = mid q' /\ rid w = mid (sd_ref sd) /\ rrev w = sd_rev sd /\ conf w = conf w0) by (destruct Hw as [->| ->]; rewrite E0; repeat split).
  destruct Ew as (-> & -> & -> & -> & ->). split; [exact Ha|]. repeat (split; [reflexivity|]). rewrite E0.
  split; [apply (align_confidence P it (sd_ref sd) q' (sd_peaks sd) (sd_rev sd) segs _ _ _ _ Ha)|].
  split; [apply (align_reported P it (sd_ref sd) q' (sd_peaks sd) (sd_rev sd) segs Ha)|].
  intros H1 H2. apply (align_confidence_raw P it (sd_ref sd) q' (sd_peaks sd) (sd_rev sd) segs _ _ _ _ H1 H2 Ha).
Qed.

Theorem run_rows_scored m maxdiff o : program_run P seeds m maxdiff refs qq = Ok o ->
  (forall w, In w (opt_rows (o_1 o) ++ opt_rows (o_2 o)) -> scored_run_row w) /\
  (forall w, In w (o_main o) -> scored_run_row w \/
     (m <> Separate /\ exists a b, scored_run_row a /\ scored_run_row b /\ join_rows a b = Ok w)) /\
  (m = Separate -> forall w, In w (out_rows o) -> scored_run_row w).
Proof. intros Hrun. apply (program_run_lift P seeds refs qq m maxdiff o Hrun). intros f1 f2 Ep w Hw. apply run_row_scored. apply (run_passes_rows_any m f1 f2 Ep w Hw). Qed.
(* joined rows of such a run (C04_confidence_joined through the run) *)
Theorem run_joined_scored a b w : scored_run_row a -> scored_run_row b -> join_rows a b = Ok w ->
  conf w = recomputed P (rsegs w) /\ length (rsegs w) = 2%nat.
Proof. intros (qa & sa & ia & _ & _ & Ha & _) (qb & sb & ib & _ & _ & Hb & _) Ej.
  destruct (joined_confidence P ia (sd_ref sa) qa (sd_peaks sa) (sd_rev sa) (rsegs a) ib (sd_ref sb) qb (sd_peaks sb) (sd_rev sb) (rsegs b) a b w Ha Hb eq_refl eq_refl Ej) as (A & B & _).
  split; assumption. Qed.
End Any.
Print Assumptions run_rows_scored.

(* ------------------------------------------------------------------------------------------------ the concrete run of ModesExamples *)
Fixpoint ascb (l : list Z) : bool := match l with [] => true | x :: t => forallb (fun y => x <? y) t && ascb t end.
Lemma ascb_spec l : ascb l = true -> StronglySorted Z.lt l.
Proof. induction l as [|x t IH]; intros H; [constructor|]. cbn [ascb] in H. apply andb_true_iff in H. destruct H as (H1 & H2).
  constructor; [apply IH; exact H2|]. apply Forall_forall. intros y Hy. rewrite forallb_forall in H1. apply Z.ltb_lt. apply H1. exact Hy. Qed.

Lemma ex_seeds_ok : seeds_ok [ex_ref] ex_seeds.
Proof. intros q sd H. unfold ex_seeds in H. destruct (mshift q =? 0); destruct H as [<-|[]]; left; reflexivity. Qed.
Lemma ex_ref_ok r : In r [ex_ref] -> reference_ok r.
Proof. intros [<-|[]]. split; [reflexivity | apply ascb_spec; vm_compute; reflexivity]. Qed.
Lemma ex_query_trimmed q : In q [ex_query] -> trimmed q.
Proof. intros [<-|[]]. split; [reflexivity|]. split; [apply ascb_spec; vm_compute; reflexivity|]. split; [vm_compute; discriminate|]. split; vm_compute; reflexivity. Qed.
Lemma ex_ids : NoDup (map mid [ex_query]).
Proof. repeat constructor. intros []. Qed.

(* what the example run writes: rows shown as (RefContigID, QryContigID, AlignedRest, confidence, pairs) *)
Definition run_show (w : row) := (rid w, qid w, rest w, conf w, site_pairs_of w).
Definition run_files (m : mode) (maxdiff : Z) :=
  match program_run ex_P ex_seeds m maxdiff [ex_ref] [ex_query] with
  | Ok o => Some (map run_show (o_main o), option_map (map run_show) (o_1 o), option_map (map run_show) (o_2 o))
  | Err => None
  end.
Definition run_first := (1, 7, false, 120000, ex_p16).
Definition run_second := (1, 7, true, 120000, ex_p712).

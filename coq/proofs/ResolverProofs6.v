(* C15, part 6: the invariant of the resolver's stack loop. *)
From Coq Require Import ZArith QArith List Bool Lia Sorting.Sorted Sorting.Permutation.
Import ListNotations.
Require Import Py Pairing Core PyProofs ConflictProofs DPProofs ResolverProofs1 ResolverProofs2 ResolverProofs3 ResolverProofs4 ResolverProofs5.
Open Scope Z_scope.

Lemma resolve_pair_Sub dir a b a' b' : seg_ord dir (positions a) -> seg_ord dir (positions b) ->
  sscore a = sum_scores (positions a) -> sscore b = sum_scores (positions b) ->
  resolve_pair a b = Ok (a', b') -> Sub (positions a') (positions a) /\ Sub (positions b') (positions b).
Proof. intros Hoa Hob Hsa Hsb H. destruct (resolve_pair_inv a b a' b' H) as [(-> & -> & _)|(cs & ce & lsub & rsub & Hc & Ho)]; [split; apply Sub_refl|].
  destruct (resolve_pair_cut dir a b a' b' cs ce lsub rsub Hoa Hob Hsa Hsb Hc Ho) as ((_ & _ & n & x & y & Hxy & Ea & _) & (_ & _ & x' & y' & Hxy' & Eb & _)).
  rewrite Ea, Eb. split; apply Sub_cut; lia. Qed.

Lemma nth_error_set2 (l : list segment) t i1 a' b' i : (t < i1)%nat -> (i1 < length l)%nat ->
  nth_error (set_nth (set_nth l t a') i1 b') i = if Nat.eqb i i1 then Some b' else if Nat.eqb i t then Some a' else nth_error l i.
Proof. intros Ht Hi. rewrite nth_error_set_nth, set_nth_length. destruct (Nat.eqb i i1) eqn:E1.
  - replace (i1 <? length l)%nat with true by (symmetry; apply Nat.ltb_lt; lia). reflexivity.
  - rewrite nth_error_set_nth. destruct (Nat.eqb i t); [|reflexivity]. replace (t <? length l)%nat with true by (symmetry; apply Nat.ltb_lt; lia). reflexivity. Qed.

Section Loop.
Variables (dir : Z) (ch : list segment) (Sp : list spos -> list spos -> Prop).
Hypothesis Hcwf : forall c, In c ch -> cwf dir c.
Hypothesis Hcoh : forall c c', In c ch -> In c' ch -> coherent dir (positions c) (positions c').
Hypothesis Hfar : forall t i ct cb et sb, (t + 2 <= i)%nat -> nth_error ch t = Some ct -> nth_error ch i = Some cb ->
  has_pairs ct = true -> has_pairs cb = true -> end_position ct = Ok et -> start_position cb = Ok sb -> pv_le et sb.
Hypothesis Sp_psep : forall l1 l2, psep l1 l2 -> Sp l1 l2.
Hypothesis Sp_Sub : forall l1 l2 k1 k2, Sub k1 l1 -> Sub k2 l2 -> Sp l1 l2 -> Sp k1 k2.
Hypothesis Hadj : forall t ct cb m a' b', nth_error ch t = Some ct -> nth_error ch (S t) = Some cb -> has_pairs cb = true ->
  resolve_pair (seg_create (skipn m (positions ct)) (speak ct)) cb = Ok (a', b') ->
  has_pairs a' = true -> has_pairs b' = true -> Sp (positions a') (positions b').

Fixpoint stack_sep (l : list segment) (stack : list nat) : Prop :=
  match stack with
  | t :: (t' :: _) as rest =>
    (forall s s', nth_error l t = Some s -> nth_error l t' = Some s' -> Sp (positions s') (positions s)) /\ stack_sep l rest
  | _ => True
  end.
Lemma stack_sep_ext l l2 stack : (forall t, In t stack -> nth_error l2 t = nth_error l t) -> stack_sep l stack -> stack_sep l2 stack.
Proof. induction stack as [|t rest IH]; intros He H; [exact I|]. destruct rest as [|t' rest]; [exact I|]. destruct H as (H1 & H2). split.
  - intros s s' Hs Hs'. rewrite He in Hs by (left; reflexivity). rewrite He in Hs' by (right; left; reflexivity). apply (H1 s s' Hs Hs').
  - apply IH; [|exact H2]. intros u Hu. apply He. right. exact Hu. Qed.
Lemma stack_sep_tl l t rest : stack_sep l (t :: rest) -> stack_sep l rest.
Proof. destruct rest; [intros; exact I | intros (_ & H); exact H]. Qed.

Record SINV (i1 : nat) (l : list segment) (stack : list nat) : Prop := {
  si_len : length l = length ch;
  si_sub : forall i c s, (i < i1)%nat -> nth_error ch i = Some c -> nth_error l i = Some s -> subrun_of c s;
  si_sorted : StronglySorted (fun t t' => (t' < t)%nat) stack;
  si_lt : forall t, In t stack -> (t < i1)%nat;
  si_pairs : forall t s, In t stack -> nth_error l t = Some s -> has_pairs s = true;
  si_nonstack : forall i s, (i < i1)%nat -> ~ In i stack -> nth_error l i = Some s -> has_pairs s = false;
  si_sep : stack_sep l stack }.

Definition TF (i1 : nat) (l : list segment) (stack : list nat) : Prop :=
  forall c s, (0 < i1)%nat -> In (i1 - 1)%nat stack -> nth_error ch (i1 - 1) = Some c -> nth_error l (i1 - 1) = Some s -> suffix_of c s.

(* one step, both kinds *)
Lemma step_both t i1 ct cb a b a' b' :
  (t < i1)%nat -> nth_error ch t = Some ct -> nth_error ch i1 = Some cb ->
  subrun_of ct a -> has_pairs a = true -> suffix_of cb b -> has_pairs b = true ->
  ((b = cb /\ ((t + 1 = i1)%nat -> suffix_of ct a)) \/ (t + 2 <= i1)%nat) ->
  resolve_pair a b = Ok (a', b') ->
  subrun_of ct a' /\ suffix_of cb b' /\ Sub (positions a') (positions a) /\
  (has_pairs a' = true -> has_pairs b' = true -> Sp (positions a') (positions b')).
Proof.
  intros Hlt Hct Hcb Ha Hpa Hb Hpb Hmode H.
  pose proof (Hcwf ct (nth_error_In _ _ Hct)) as Wt. pose proof (Hcwf cb (nth_error_In _ _ Hcb)) as Wb.
  pose proof (Hcoh ct cb (nth_error_In _ _ Hct) (nth_error_In _ _ Hcb)) as Hc.
  pose proof (subrun_Sub ct a Ha) as HsubA. pose proof (subrun_Sub cb b (suffix_subrun cb b Hb)) as HsubB.
  assert (Hoa : seg_ord dir (positions a)) by (apply (SS_Sub _ _ _ HsubA (proj1 Wt))).
  assert (Hob : seg_ord dir (positions b)) by (apply (SS_Sub _ _ _ HsubB (proj1 Wb))).
  destruct (resolve_pair_Sub dir a b a' b' Hoa Hob (proj1 (proj2 Ha)) (proj1 (proj2 Hb)) H) as (HsA' & _).
  destruct (Nat.le_gt_cases (t + 2) i1) as [Hfar2|Hnear].
  - pose proof (has_pairs_Sub a ct HsubA Hpa) as Hpct. pose proof (has_pairs_Sub b cb HsubB Hpb) as Hpcb.
    destruct (has_pairs_end ct Hpct) as (et & Het). destruct (has_pairs_start cb Hpcb) as (sb & Hsb).
    pose proof (Hfar t i1 ct cb et sb Hfar2 Hct Hcb Hpct Hpcb Het Hsb) as Hle.
    destruct (far_step dir ct cb a b a' b' et sb Wt Wb Hc Ha Hpa Hb Hpb Het Hsb Hle H) as (G1 & G2 & G3).
    split; [exact G1|]. split; [exact G2|]. split; [exact HsA'|]. intros _ _. apply Sp_psep. exact G3.
  - destruct Hmode as [(-> & Hsuf)|Hbad]; [|lia]. assert (Et : (t + 1 = i1)%nat) by lia. specialize (Hsuf Et).
    destruct (adj_step dir ct cb a a' b' Wt Wb Hc Hsuf Hpa Hpb H) as (G1 & G2).
    split; [exact G1|]. split; [exact G2|]. split; [exact HsA'|]. intros Hpa' Hpb'.
    destruct Hsuf as (K1 & K2 & m & Em). pose proof (suffix_eq ct a m (conj K1 (conj K2 (ex_intro _ m Em))) Em) as Ea. subst a.
    replace i1 with (S t) in Hcb by lia. apply (Hadj t ct cb m a' b' Hct Hcb Hpb H Hpa' Hpb').
Qed.

Lemma SS_dec_notin t rest : StronglySorted (fun t t' => (t' < t)%nat) (t :: rest) -> forall u, In u rest -> (u < t)%nat.
Proof. intros H u Hu. apply StronglySorted_inv in H. destruct H as (_ & H). rewrite Forall_forall in H. apply H. exact Hu. Qed.

Lemma retry_inv : forall stack l i1 cb b l' st',
  SINV i1 l stack -> (forall i, (i1 < i)%nat -> nth_error l i = nth_error ch i) ->
  nth_error ch i1 = Some cb -> nth_error l i1 = Some b -> suffix_of cb b ->
  ((b = cb /\ TF i1 l stack) \/ (forall t, In t stack -> (t + 2 <= i1)%nat)) ->
  retry (S (length stack)) l stack i1 = Ok (l', st') ->
  exists b', SINV i1 l' st' /\ (forall i, (i1 < i)%nat -> nth_error l' i = nth_error ch i) /\
    nth_error l' i1 = Some b' /\ suffix_of cb b' /\
    (has_pairs b' = true -> forall t s rest, st' = t :: rest -> nth_error l' t = Some s -> Sp (positions s) (positions b')).
Proof.
  induction stack as [|t rest IH]; intros l i1 cb b l' st' Hinv Hfr Hcb Hb Hsuf Hmode H.
  - cbn in H. injection H as <- <-. exists b. split; [exact Hinv|]. split; [exact Hfr|]. split; [exact Hb|]. split; [exact Hsuf|]. intros _ ? ? ? E. discriminate.
  - cbn [retry length] in H. rewrite Hb in H. destruct (has_pairs b) eqn:Hpb.
    2:{ injection H as <- <-. exists b. split; [exact Hinv|]. split; [exact Hfr|]. split; [exact Hb|]. split; [exact Hsuf|]. intros X. congruence. }
    destruct (nth_error l t) as [a|] eqn:Ha; [|discriminate].
    destruct (resolve_pair a b) as [[a' b']|] eqn:Er; [|discriminate]. cbn [bind fst snd] in H.
    destruct Hinv as [Ilen Isub Isorted Ilt Ipairs Inon Isep].
    assert (Hti : (t < i1)%nat) by (apply Ilt; left; reflexivity).
    assert (Hi1 : (i1 < length l)%nat) by (apply nth_error_Some; congruence).
    destruct (nth_error ch t) as [ct|] eqn:Hct; [|apply nth_error_None in Hct; lia].
    pose proof (Isub t ct a Hti Hct Ha) as Hsa. pose proof (Ipairs t a (or_introl eq_refl) Ha) as Hpa.
    assert (Hmode' : (b = cb /\ ((t + 1 = i1)%nat -> suffix_of ct a)) \/ (t + 2 <= i1)%nat).
    { destruct Hmode as [(E & Htf)|Hf]; [left | right; apply Hf; left; reflexivity]. split; [exact E|]. intros Et.
      apply (Htf ct a); [lia | replace (i1 - 1)%nat with t by lia; left; reflexivity | replace (i1 - 1)%nat with t by lia; exact Hct | replace (i1 - 1)%nat with t by lia; exact Ha]. }
    destruct (step_both t i1 ct cb a b a' b' Hti Hct Hcb Hsa Hpa Hsuf Hpb Hmode' Er) as (Ga & Gb & Gsub & Gsp).
    set (l2 := set_nth (set_nth l t a') i1 b') in *.
    assert (Enth : forall i, nth_error l2 i = if Nat.eqb i i1 then Some b' else if Nat.eqb i t then Some a' else nth_error l i) by (intros i; apply nth_error_set2; assumption).
    assert (Eother : forall i, i <> i1 -> i <> t -> nth_error l2 i = nth_error l i).
    { intros i N1 N2. rewrite Enth. apply Nat.eqb_neq in N1, N2. rewrite N1, N2. reflexivity. }
    assert (Et2 : nth_error l2 t = Some a') by (rewrite Enth; replace (Nat.eqb t i1) with false by (symmetry; apply Nat.eqb_neq; lia); rewrite Nat.eqb_refl; reflexivity).
    assert (Ei2 : nth_error l2 i1 = Some b') by (rewrite Enth, Nat.eqb_refl; reflexivity).
    assert (Hrest_lt : forall u, In u rest -> (u < t)%nat) by (apply SS_dec_notin; exact Isorted).
    assert (Hfr2 : forall i, (i1 < i)%nat -> nth_error l2 i = nth_error ch i) by (intros i Hi; rewrite Eother by lia; apply Hfr; exact Hi).
    assert (Isub2 : forall i c s, (i < i1)%nat -> nth_error ch i = Some c -> nth_error l2 i = Some s -> subrun_of c s).
    { intros i c s Hi Hc Hs. destruct (Nat.eq_dec i t) as [->|N].
      - rewrite Et2 in Hs. injection Hs as <-. rewrite Hct in Hc. injection Hc as <-. exact Ga.
      - rewrite Eother in Hs by lia. apply (Isub i c s Hi Hc Hs). }
    assert (Isep2 : stack_sep l2 rest).
    { apply (stack_sep_ext l); [|apply (stack_sep_tl l t rest Isep)]. intros u Hu. specialize (Hrest_lt u Hu). apply Eother; lia. }
    destruct (has_pairs a') eqn:Hpa'.
    + injection H as <- <-. exists b'. split; [|split; [exact Hfr2|]; split; [exact Ei2|]; split; [exact Gb|]].
      * constructor.
        -- unfold l2. rewrite !set_nth_length. exact Ilen.
        -- exact Isub2.
        -- exact Isorted.
        -- exact Ilt.
        -- intros u s [<-|Hu] Hs; [rewrite Et2 in Hs; injection Hs as <-; exact Hpa'|].
           specialize (Hrest_lt u Hu). rewrite Eother in Hs by lia. apply (Ipairs u s (or_intror Hu) Hs).
        -- intros i s Hi Hni Hs. assert (i <> t) by (intros ->; apply Hni; left; reflexivity). rewrite Eother in Hs by lia. apply (Inon i s Hi Hni Hs).
        -- destruct rest as [|t' rest']; [exact I|]. split; [|exact Isep2]. intros s s' Hs Hs'. rewrite Et2 in Hs. injection Hs as <-.
           specialize (Hrest_lt t' (or_introl eq_refl)). rewrite Eother in Hs' by lia. destruct Isep as (Is1 & _).
           apply (Sp_Sub _ _ _ _ (Sub_refl _) Gsub (Is1 a s' Ha Hs')).
      * intros Hpb' u s r E Hs. injection E as <- <-. rewrite Et2 in Hs. injection Hs as <-. apply Gsp; [reflexivity | exact Hpb'].
    + assert (Hinv2 : SINV i1 l2 rest).
      { constructor.
        - unfold l2. rewrite !set_nth_length. exact Ilen.
        - exact Isub2.
        - apply StronglySorted_inv in Isorted. apply Isorted.
        - intros u Hu. apply Ilt. right. exact Hu.
        - intros u s Hu Hs. specialize (Hrest_lt u Hu). rewrite Eother in Hs by lia. apply (Ipairs u s (or_intror Hu) Hs).
        - intros i s Hi Hni Hs. destruct (Nat.eq_dec i t) as [->|N]; [rewrite Et2 in Hs; injection Hs as <-; exact Hpa'|].
          rewrite Eother in Hs by lia. apply (Inon i s Hi); [|exact Hs]. intros [E|Hin]; [congruence | contradiction].
        - exact Isep2. }
      apply (IH l2 i1 cb b' l' st' Hinv2 Hfr2 Hcb Ei2 Gb); [|exact H]. right. intros u Hu. specialize (Hrest_lt u Hu). lia.
Qed.

Lemma loop_inv : forall n i1 l stack out, (i1 + n = length ch)%nat ->
  SINV i1 l stack -> (forall i, (i1 <= i)%nat -> nth_error l i = nth_error ch i) -> TF i1 l stack ->
  resolve_loop n i1 l stack = Ok out -> exists stack', SINV (length ch) out stack'.
Proof.
  induction n as [|n IH]; intros i1 l stack out Hn Hinv Hfr Htf H; cbn [resolve_loop] in H.
  - injection H as <-. exists stack. replace (length ch) with i1 by lia. exact Hinv.
  - destruct (retry (S (length stack)) l stack i1) as [[l' st']|] eqn:Er; [|discriminate]. cbn [bind fst snd] in H.
    destruct (nth_error ch i1) as [cb|] eqn:Hcb; [|apply nth_error_None in Hcb; lia].
    assert (Hb : nth_error l i1 = Some cb) by (rewrite Hfr by lia; exact Hcb).
    pose proof (Hcwf cb (nth_error_In _ _ Hcb)) as (_ & Hscb & _).
    assert (Hsuf : suffix_of cb cb) by (split; [reflexivity|]; split; [exact Hscb | exists 0%nat; reflexivity]).
    destruct (retry_inv stack l i1 cb cb l' st' Hinv (fun i Hi => Hfr i (Nat.lt_le_incl _ _ Hi)) Hcb Hb Hsuf (or_introl (conj eq_refl Htf)) Er)
      as (b' & Hinv' & Hfr' & Hb' & Hsuf' & Hsp).
    rewrite Hb' in H. destruct Hinv' as [Ilen Isub Isorted Ilt Ipairs Inon Isep].
    apply (IH (S i1) l' _ out ltac:(lia)) in H; [exact H | | |].
    + destruct (has_pairs b') eqn:Hpb'.
      * constructor.
        -- exact Ilen.
        -- intros i c s Hi Hc Hs. destruct (Nat.eq_dec i i1) as [->|N]; [|apply (Isub i c s); [lia | exact Hc | exact Hs]].
           rewrite Hb' in Hs. injection Hs as <-. rewrite Hcb in Hc. injection Hc as <-. apply suffix_subrun. exact Hsuf'.
        -- constructor; [exact Isorted|]. rewrite Forall_forall. exact Ilt.
        -- intros t [<-|Ht]; [lia | specialize (Ilt t Ht); lia].
        -- intros t s [<-|Ht] Hs; [rewrite Hb' in Hs; injection Hs as <-; exact Hpb' | apply (Ipairs t s Ht Hs)].
        -- intros i s Hi Hni Hs. assert (i <> i1) by (intros ->; apply Hni; left; reflexivity).
           apply (Inon i s); [lia | intros Hin; apply Hni; right; exact Hin | exact Hs].
        -- destruct st' as [|t rest]; [exact I|]. split; [|exact Isep]. intros s s' Hs Hs'. rewrite Hb' in Hs. injection Hs as <-.
           apply (Hsp eq_refl t s' rest eq_refl Hs').
      * constructor.
        -- exact Ilen.
        -- intros i c s Hi Hc Hs. destruct (Nat.eq_dec i i1) as [->|N]; [|apply (Isub i c s); [lia | exact Hc | exact Hs]].
           rewrite Hb' in Hs. injection Hs as <-. rewrite Hcb in Hc. injection Hc as <-. apply suffix_subrun. exact Hsuf'.
        -- exact Isorted.
        -- intros t Ht. specialize (Ilt t Ht). lia.
        -- exact Ipairs.
        -- intros i s Hi Hni Hs. destruct (Nat.eq_dec i i1) as [->|N]; [rewrite Hb' in Hs; injection Hs as <-; exact Hpb'|].
           apply (Inon i s); [lia | exact Hni | exact Hs].
        -- exact Isep.
    + intros i Hi. apply Hfr'. lia.
    + intros c s _ Hin Hc Hs. replace (S i1 - 1)%nat with i1 in * by lia. rewrite Hb' in Hs. injection Hs as <-. rewrite Hcb in Hc. injection Hc as <-. exact Hsuf'.
Qed.

Theorem resolve_loop_SINV out : resolve_loop (length ch) 0 ch [] = Ok out -> exists stack, SINV (length ch) out stack.
Proof. intros H. apply (loop_inv (length ch) 0 ch [] out); [lia | | reflexivity | | exact H].
  - constructor; [reflexivity | intros i c s Hi; lia | constructor | intros t [] | intros t s [] | intros i s Hi; lia | exact I].
  - intros c s Hi. lia. Qed.
End Loop.

Lemma Forall2_nth {A B} (R : A -> B -> Prop) l1 : forall l2, length l2 = length l1 ->
  (forall i a b, nth_error l1 i = Some a -> nth_error l2 i = Some b -> R a b) -> Forall2 R l1 l2.
Proof. induction l1 as [|a l1 IH]; intros [|b l2] Hlen H; try discriminate; constructor.
  - apply (H 0%nat a b); reflexivity.
  - apply IH; [cbn in Hlen; lia|]. intros i x y Hx Hy. apply (H (S i) x y Hx Hy). Qed.

(* ---------- consequence 1: every member of the result is a contiguous sub-run of the chain member at its index ---------- *)
Theorem resolve_loop_subrun dir ch out :
  (forall c, In c ch -> cwf dir c) ->
  (forall c c', In c ch -> In c' ch -> coherent dir (positions c) (positions c')) ->
  (forall t i ct cb et sb, (t + 2 <= i)%nat -> nth_error ch t = Some ct -> nth_error ch i = Some cb ->
     has_pairs ct = true -> has_pairs cb = true -> end_position ct = Ok et -> start_position cb = Ok sb -> pv_le et sb) ->
  resolve_loop (length ch) 0 ch [] = Ok out -> Forall2 subrun_of ch out.
Proof.
  intros Hcwf Hcoh Hfar H.
  destruct (resolve_loop_SINV dir ch (fun _ _ => True) Hcwf Hcoh Hfar (fun _ _ _ => I) (fun _ _ _ _ _ _ _ => I) (fun _ _ _ _ _ _ _ _ _ _ _ _ => I) out H) as (stack & [Ilen Isub _ _ _ _ _]).
  apply Forall2_nth; [exact Ilen|]. intros i c s Hc Hs. apply (Isub i c s); [apply nth_error_Some; congruence | exact Hc | exact Hs]. Qed.

(* ---------- consequence 2: if every resolution of ADJACENT chain members separates them, the result is disjoint ---------- *)
Lemma stack_all_sep l : forall stack, StronglySorted (fun t t' => (t' < t)%nat) stack -> stack_sep psep l stack ->
  (forall t, In t stack -> exists s, nth_error l t = Some s /\ has_pairs s = true) ->
  forall t t' s s', In t stack -> In t' stack -> (t' < t)%nat -> nth_error l t = Some s -> nth_error l t' = Some s' ->
    psep (positions s') (positions s).
Proof.
  induction stack as [|t0 rest IH]; intros Hsort Hsep Hex t t' s s' Ht Ht' Hlt Hs Hs'; [destruct Ht|].
  pose proof (SS_dec_notin t0 rest Hsort) as Hr. apply StronglySorted_inv in Hsort. destruct Hsort as (Hsort' & _).
  assert (IH' := IH Hsort' (stack_sep_tl psep l t0 rest Hsep) (fun u Hu => Hex u (or_intror Hu))).
  destruct Ht as [<-|Ht].
  - destruct Ht' as [<-|Ht']; [lia|]. destruct rest as [|t1 rest']; [destruct Ht'|]. destruct Hsep as (H01 & _).
    destruct (Hex t1 (or_intror (or_introl eq_refl))) as (s1 & Hs1 & Hp1).
    destruct Ht' as [<-|Ht'']; [rewrite Hs1 in Hs'; injection Hs' as <-; apply (H01 s s1 Hs Hs1)|].
    assert (Hlt1 : (t' < t1)%nat) by (apply (SS_dec_notin t1 rest' Hsort'); exact Ht'').
    pose proof (IH' t1 t' s1 s' (or_introl eq_refl) (or_intror Ht'') Hlt1 Hs1 Hs') as Ha. pose proof (H01 s s1 Hs Hs1) as Hb.
    apply has_pairs_in in Hp1. destruct Hp1 as (pm & Hpm & Hpmp).
    intros p p' Hp Hp' Hpp Hpp'. destruct (Ha p pm Hp Hpm Hpp Hpmp). destruct (Hb pm p' Hpm Hp' Hpmp Hpp'). lia.
  - destruct Ht' as [<-|Ht']; [specialize (Hr t Ht); lia|]. apply (IH' t t' s s' Ht Ht' Hlt Hs Hs'). Qed.

Theorem resolve_loop_disjoint_if_adjacent dir ch out :
  (forall c, In c ch -> cwf dir c) ->
  (forall c c', In c ch -> In c' ch -> coherent dir (positions c) (positions c')) ->
  (forall t i ct cb et sb, (t + 2 <= i)%nat -> nth_error ch t = Some ct -> nth_error ch i = Some cb ->
     has_pairs ct = true -> has_pairs cb = true -> end_position ct = Ok et -> start_position cb = Ok sb -> pv_le et sb) ->
  (forall t ct cb m a' b', nth_error ch t = Some ct -> nth_error ch (S t) = Some cb -> has_pairs cb = true ->
     resolve_pair (seg_create (skipn m (positions ct)) (speak ct)) cb = Ok (a', b') ->
     has_pairs a' = true -> has_pairs b' = true -> psep (positions a') (positions b')) ->
  resolve_loop (length ch) 0 ch [] = Ok out -> segments_disjoint dir out.
Proof.
  intros Hcwf Hcoh Hfar Hadj H.
  destruct (resolve_loop_SINV dir ch psep Hcwf Hcoh Hfar (fun _ _ X => X) psep_Sub Hadj out H) as (stack & [Ilen Isub Isorted Ilt Ipairs Inon Isep]).
  assert (Hsubc : forall i s, nth_error out i = Some s -> exists c, nth_error ch i = Some c /\ subrun_of c s).
  { intros i s Hs. assert (Hi : (i < length ch)%nat) by (rewrite <- Ilen; apply nth_error_Some; congruence).
    destruct (nth_error ch i) as [c|] eqn:Hc; [|apply nth_error_None in Hc; lia]. exists c. split; [reflexivity | apply (Isub i c s Hi Hc Hs)]. }
  assert (Hinst : forall i s, nth_error out i = Some s -> has_pairs s = true -> In i stack).
  { intros i s Hs Hp. destruct (in_dec Nat.eq_dec i stack) as [Hin|Hni]; [exact Hin|].
    assert (Hi : (i < length ch)%nat) by (rewrite <- Ilen; apply nth_error_Some; congruence). rewrite (Inon i s Hi Hni Hs) in Hp. discriminate. }
  assert (Hex : forall t, In t stack -> exists s, nth_error out t = Some s /\ has_pairs s = true).
  { intros t Ht. specialize (Ilt t Ht). destruct (nth_error out t) as [s|] eqn:Hs; [|apply nth_error_None in Hs; lia]. exists s. split; [reflexivity | apply (Ipairs t s Ht Hs)]. }
  split.
  - intros s Hs. apply In_nth_error in Hs. destruct Hs as (i & Hs). destruct (Hsubc i s Hs) as (c & Hc & Hsr).
    apply seg_ord_aligned. apply (SS_Sub _ _ _ (subrun_Sub c s Hsr)). apply (Hcwf c (nth_error_In _ _ Hc)).
  - intros i j si sj p p' Hij Hi Hj Hp Hp'. unfold aligned in Hp, Hp'. apply filter_In in Hp, Hp'. destruct Hp as (Hp & Hpp), Hp' as (Hp' & Hpp').
    assert (Hpi : has_pairs si = true) by (apply has_pairs_in; exists p; auto). assert (Hpj : has_pairs sj = true) by (apply has_pairs_in; exists p'; auto).
    pose proof (stack_all_sep out stack Isorted Isep Hex j i sj si (Hinst j sj Hj Hpj) (Hinst i si Hi Hpi) Hij Hj Hi) as Hps.
    destruct (Hsubc i si Hi) as (ci & Hci & Hsri). destruct (Hsubc j sj Hj) as (cj & Hcj & Hsrj).
    apply (coh_pair_lt dir p p' Hpp Hpp'); [|apply (Hps p p' Hp Hp' Hpp Hpp')].
    apply (proj1 (Hcoh ci cj (nth_error_In _ _ Hci) (nth_error_In _ _ Hcj) p p' (Sub_in _ _ _ (subrun_Sub ci si Hsri) Hp) (Sub_in _ _ _ (subrun_Sub cj sj Hsrj) Hp'))).
Qed.
Print Assumptions resolve_loop_subrun.
Print Assumptions resolve_loop_disjoint_if_adjacent.

(* blur = dilation: bit i of the result is set exactly when an original bit within the radius is set; the length is kept *)
From Coq Require Import ZArith List Bool Lia.
Import ListNotations.
Require Import Vec.
Open Scope Z_scope.

Lemma any_set_iff c : any_set c = true <-> exists b, In b c /\ b <> 0.
Proof. unfold any_set. rewrite existsb_exists. split; intros (b & Hb & H); exists b; (split; [exact Hb|]).
  - intros ->. discriminate.
  - apply negb_true_iff, Z.eqb_neq, H. Qed.
Lemma column_any vs i : any_set (column vs i) = true <-> exists w, In w vs /\ nth i w 0 <> 0.
Proof. rewrite any_set_iff. unfold column. split.
  - intros (b & Hb & H). apply in_map_iff in Hb. destruct Hb as (w & <- & Hw). exists w. split; assumption.
  - intros (w & Hw & H). exists (nth i w 0). split; [apply in_map_iff; exists w; split; [reflexivity | exact Hw] | exact H]. Qed.
Lemma in_shifted v r w : In w (shifted v r) <-> exists k, (1 <= k <= r)%nat /\ (w = skipn k v \/ w = repeat 0 k ++ v).
Proof. induction r as [|r IH]; cbn [shifted].
  - split; [intros [] | intros (k & Hk & _); lia].
  - rewrite in_app_iff, IH. split.
    + intros [(k & Hk & H)|[<-|[<-|[]]]]; [exists k; split; [lia | exact H] | exists (S r); split; [lia | left; reflexivity] | exists (S r); split; [lia | right; reflexivity]].
    + intros (k & Hk & H). destruct (Nat.eq_dec k (S r)) as [->|Hn].
      * right. destruct H as [->| ->]; [left; reflexivity | right; left; reflexivity].
      * left. exists k. split; [lia | exact H].
Qed.
Lemma nth_skipn' {A} k : forall (l : list A) i d, nth i (skipn k l) d = nth (k + i) l d.
Proof. induction k as [|k IH]; intros l i d; [reflexivity|]. destruct l as [|x l]; cbn [skipn Nat.add nth]; [destruct i; reflexivity | apply IH]. Qed.
Lemma nth_pad k v i : nth i (repeat 0 k ++ v) 0 = if (i <? k)%nat then 0 else nth (i - k) v 0.
Proof. destruct (i <? k)%nat eqn:E.
  - apply Nat.ltb_lt in E. rewrite app_nth1 by (rewrite repeat_length; exact E). apply nth_repeat.
  - apply Nat.ltb_ge in E. rewrite app_nth2 by (rewrite repeat_length; exact E). rewrite repeat_length. reflexivity. Qed.
Lemma nth_firstn_lt {A} n : forall (l : list A) i d, (i < n)%nat -> nth i (firstn n l) d = nth i l d.
Proof. induction n as [|n IH]; intros l i d H; [lia|]. destruct l as [|x l]; [reflexivity|]. destruct i as [|i]; [reflexivity|]. cbn. apply IH. lia. Qed.
Lemma nth_nonzero_lt (v : list Z) j : nth j v 0 <> 0 -> (j < length v)%nat.
Proof. intros H. destruct (Nat.lt_ge_cases j (length v)) as [L|L]; [exact L|]. rewrite nth_overflow in H by exact L. congruence. Qed.

Theorem blur_length v r : length (blur v r) = length v.
Proof. unfold blur. rewrite firstn_length, map_length, seq_length. lia. Qed.

Theorem blur_bits v r i : (i < length v)%nat ->
  (nth i (blur v r) 0 = 1 /\ exists j, (j < length v)%nat /\ (i <= j + r)%nat /\ (j <= i + r)%nat /\ nth j v 0 <> 0) \/
  (nth i (blur v r) 0 = 0 /\ forall j, (j < length v)%nat -> (i <= j + r)%nat -> (j <= i + r)%nat -> nth j v 0 = 0).
Proof.
  intros Hi. unfold blur. rewrite nth_firstn_lt by exact Hi.
  set (f := fun i : nat => if any_set (column (v :: shifted v r) i) then 1 else 0).
  assert (E : nth i (map f (seq 0 (length v + r))) 0 = f i).
  { rewrite (nth_indep _ 0 (f 0%nat)) by (rewrite map_length, seq_length; lia). rewrite map_nth, seq_nth by lia. reflexivity. }
  rewrite E. unfold f. destruct (any_set (column (v :: shifted v r) i)) eqn:Ea.
  - left. split; [reflexivity|]. apply column_any in Ea. destruct Ea as (w & Hw & Hn). destruct Hw as [<-|Hw].
    + exists i. repeat split; [exact Hi | lia | lia | exact Hn].
    + apply in_shifted in Hw. destruct Hw as (k & Hk & [->| ->]).
      * rewrite nth_skipn' in Hn. exists (k + i)%nat. repeat split; [apply nth_nonzero_lt, Hn | lia | lia | exact Hn].
      * rewrite nth_pad in Hn. destruct (i <? k)%nat eqn:Ek; [congruence|]. apply Nat.ltb_ge in Ek.
        exists (i - k)%nat. repeat split; [apply nth_nonzero_lt, Hn | lia | lia | exact Hn].
  - right. split; [reflexivity|]. intros j Hj H1 H2. destruct (Z.eq_dec (nth j v 0) 0) as [Hz|Hz]; [exact Hz|]. exfalso.
    assert (Ht : any_set (column (v :: shifted v r) i) = true); [|congruence].
    apply column_any. destruct (Nat.lt_trichotomy i j) as [L|[->|L]].
    + exists (skipn (j - i) v). split; [right; apply in_shifted; exists (j - i)%nat; split; [lia | left; reflexivity]|].
      rewrite nth_skipn'. replace (j - i + i)%nat with j by lia. exact Hz.
    + exists v. split; [left; reflexivity | exact Hz].
    + exists (repeat 0 (i - j) ++ v). split; [right; apply in_shifted; exists (i - j)%nat; split; [lia | right; reflexivity]|].
      rewrite nth_pad. destruct (i <? i - j)%nat eqn:Ek; [apply Nat.ltb_lt in Ek; lia|]. replace (i - (i - j))%nat with j by lia. exact Hz.
Qed.

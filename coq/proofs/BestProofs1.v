(* C05, part 1: list facts (stable sort heads, filter/sort commutation, groupby on strictly sorted lists) and
   AlignmentResults.filterOutSubsequentAlignmentsForSingleQuery (Multi.filter_subsequent). *)
From Coq Require Import ZArith List Bool Lia Sorting.Permutation Sorting.Sorted.
Import ListNotations.
Require Import Py PyProofs Pairing Core Multi.
Open Scope Z_scope.

(* ---------- generic ---------- *)
Section G.
Context {A : Type}.
Variable k : A -> Z.

Definition kstrict (l : list A) : Prop := StronglySorted Z.lt (map k l).

Lemma kstrict_cons x l : kstrict (x :: l) <-> kstrict l /\ forall y, In y l -> k x < k y.
Proof. unfold kstrict. cbn [map]. split.
  - intros H. inversion H as [|? ? Hs Hf]; subst. split; [exact Hs|]. rewrite Forall_forall in Hf.
    intros y Hy. apply Hf. apply in_map. exact Hy.
  - intros [Hs Hf]. constructor; [exact Hs|]. rewrite Forall_forall. intros z Hz. apply in_map_iff in Hz.
    destruct Hz as (y & <- & Hy). apply Hf. exact Hy.
Qed.

Lemma kstrict_ksorted l : kstrict l -> ksorted k l.
Proof. induction l as [|x t IH]; intros H; [constructor|]. apply kstrict_cons in H. destruct H as [Hs Hf].
  constructor; [apply IH; exact Hs|]. rewrite Forall_forall. intros y Hy. specialize (Hf y Hy). lia. Qed.

Lemma kstrict_NoDup l : kstrict l -> NoDup (map k l).
Proof. induction l as [|x t IH]; intros H; [constructor|]. apply kstrict_cons in H. destruct H as [Hs Hf].
  cbn [map]. constructor; [|apply IH; exact Hs]. intros Hin. apply in_map_iff in Hin. destruct Hin as (y & E & Hy).
  specialize (Hf y Hy). lia. Qed.

(* a key-sorted list that is a rearrangement of a strictly key-sorted list is that list *)
Lemma sorted_perm_unique b : forall a, ksorted k a -> kstrict b -> Permutation a b -> a = b.
Proof. induction b as [|y b' IH]; intros a Ha Hb Hp.
  - apply Permutation_sym, Permutation_nil in Hp. exact Hp.
  - destruct a as [|h a']; [apply Permutation_nil in Hp; discriminate|].
    apply kstrict_cons in Hb. destruct Hb as [Hb' Hlt].
    inversion Ha as [|? ? Ha' Hle]; subst. rewrite Forall_forall in Hle.
    assert (Eh : h = y).
    { assert (Hh : In h (y :: b')) by (apply (Permutation_in _ Hp); left; reflexivity).
      destruct Hh as [E|Hh]; [symmetry; exact E|].
      assert (Hy : In y (h :: a')) by (apply (Permutation_in _ (Permutation_sym Hp)); left; reflexivity).
      destruct Hy as [E|Hy]; [exact E|]. specialize (Hlt h Hh). specialize (Hle y Hy). lia. }
    subst h. f_equal. apply IH; [exact Ha' | exact Hb' | apply Permutation_cons_inv in Hp; exact Hp].
Qed.

Lemma groupby_strict l : kstrict l -> groupby k l = map (fun x => [x]) l.
Proof. induction l as [|x t IH]; intros H; [reflexivity|]. apply kstrict_cons in H. destruct H as [Hs Hf].
  cbn [groupby map]. rewrite (IH Hs). destruct t as [|y t']; [reflexivity|]. cbn [map].
  assert (L := Hf y (or_introl eq_refl)). destruct (k x =? k y) eqn:E; [apply Z.eqb_eq in E; lia | reflexivity]. Qed.

(* in a strictly key-sorted list an element is the only one with its key *)
Lemma kstrict_filter_single l x : kstrict l -> In x l -> filter (fun y => k y =? k x) l = [x].
Proof. induction l as [|h t IH]; intros H Hx; [destruct Hx|]. apply kstrict_cons in H. destruct H as [Hs Hf].
  cbn [filter]. destruct Hx as [->|Hx].
  - rewrite Z.eqb_refl. f_equal. apply filter_none. intros y Hy. apply Z.eqb_neq. specialize (Hf y Hy). lia.
  - specialize (Hf x Hx). destruct (k h =? k x) eqn:E; [apply Z.eqb_eq in E; lia|]. apply IH; assumption.
Qed.

Lemma filter_no_key l c : ~ In c (map k l) -> filter (fun y => k y =? c) l = [].
Proof. intros H. apply filter_none. intros y Hy. apply Z.eqb_neq. intros E. apply H. rewrite <- E. apply in_map. exact Hy. Qed.

(* inserting in front of a list all of whose keys are >= *)
Lemma insert_by_front x l : (forall y, In y l -> k x <= k y) -> insert_by k x l = x :: l.
Proof. destruct l as [|y t]; intros H; [reflexivity|]. cbn [insert_by].
  specialize (H y (or_introl eq_refl)). destruct (k x <=? k y) eqn:E; [reflexivity | apply Z.leb_gt in E; lia]. Qed.

(* filtering commutes with the stable sort *)
Lemma insert_by_filter_p (p : A -> bool) x l : ksorted k l ->
  filter p (insert_by k x l) = if p x then insert_by k x (filter p l) else filter p l.
Proof. unfold ksorted. induction l as [|y t IH]; intros Hs.
  - cbn. destruct (p x); reflexivity.
  - inversion Hs as [|? ? Ht Hy]; subst. rewrite Forall_forall in Hy. cbn [insert_by].
    destruct (k x <=? k y) eqn:E.
    + apply Z.leb_le in E. cbn [filter]. destruct (p x) eqn:Px; [|reflexivity].
      rewrite insert_by_front; [reflexivity|]. intros z Hz.
      assert (Hz' : In z (y :: t)).
      { destruct (p y); [|right; apply filter_In in Hz; apply Hz].
        destruct Hz as [<-|Hz]; [left; reflexivity | right; apply filter_In in Hz; apply Hz]. }
      destruct Hz' as [<-|Hz']; [exact E | specialize (Hy z Hz'); lia].
    + apply Z.leb_gt in E. cbn [filter]. rewrite (IH Ht).
      destruct (p y) eqn:Py, (p x) eqn:Px; try reflexivity.
      cbn [insert_by]. destruct (k x <=? k y) eqn:E'; [apply Z.leb_le in E'; lia | reflexivity].
Qed.
Lemma sort_by_filter_p (p : A -> bool) l : filter p (sort_by k l) = sort_by k (filter p l).
Proof. induction l as [|x t IH]; [reflexivity|]. unfold sort_by in *. cbn [fold_right filter].
  rewrite insert_by_filter_p by apply sort_by_sorted. rewrite IH. destruct (p x); reflexivity. Qed.

(* first minimum of the key: the position of x in l such that everything before is strictly larger, everything after is >= *)
Definition first_min (l : list A) (x : A) : Prop :=
  exists l1 l2, l = l1 ++ x :: l2 /\ (forall y, In y l1 -> k x < k y) /\ (forall y, In y l2 -> k x <= k y).

Lemma sort_by_head l x r : sort_by k l = x :: r -> first_min l x.
Proof. revert x r. induction l as [|a t IH]; intros x r H; [discriminate|].
  unfold sort_by in *. cbn [fold_right] in H. destruct (fold_right (insert_by k) [] t) as [|h r'] eqn:Et.
  - assert (t = []). { pose proof (sort_by_perm k t) as Hp. unfold sort_by in Hp. rewrite Et in Hp.
      apply Permutation_nil in Hp. exact Hp. }
    subst t. cbn in H. injection H as <- <-. exists [], []. split; [reflexivity|]. split; intros y [].
  - destruct (IH h r' eq_refl) as (l1 & l2 & -> & H1 & H2). cbn [insert_by] in H.
    destruct (k a <=? k h) eqn:E.
    + apply Z.leb_le in E. injection H as <- <-. exists [], (l1 ++ h :: l2). split; [reflexivity|]. split; [intros y []|].
      intros y Hy. apply in_app_or in Hy. destruct Hy as [Hy|[<-|Hy]]; [specialize (H1 y Hy); lia | exact E | specialize (H2 y Hy); lia].
    + apply Z.leb_gt in E. injection H as <- <-. exists (a :: l1), l2. split; [reflexivity|]. split; [|exact H2].
      intros y [<-|Hy]; [exact E | apply H1; exact Hy].
Qed.

Lemma filter_split (p : A -> bool) l : forall f1 x f2, filter p l = f1 ++ x :: f2 ->
  exists l1 l2, l = l1 ++ x :: l2 /\ filter p l1 = f1 /\ filter p l2 = f2.
Proof. induction l as [|a t IH]; intros f1 x f2 H; [destruct f1; discriminate|]. cbn [filter] in H.
  destruct (p a) eqn:Pa.
  - destruct f1 as [|b f1'].
    + cbn in H. injection H as <- <-. exists [], t. repeat split; reflexivity.
    + cbn in H. injection H as <- H. destruct (IH _ _ _ H) as (l1 & l2 & -> & E1 & E2).
      exists (a :: l1), l2. split; [reflexivity|]. split; [cbn [filter]; rewrite Pa, E1; reflexivity | exact E2].
  - destruct (IH _ _ _ H) as (l1 & l2 & -> & E1 & E2).
    exists (a :: l1), l2. split; [reflexivity|]. split; [cbn [filter]; rewrite Pa; exact E1 | exact E2].
Qed.
End G.

(* ---------- filterOutSubsequentAlignmentsForSingleQuery ---------- *)
Definition negconf (w : row) : Z := - conf w.
Definition hd1 {A} (g : list A) : list A := match g with [] => [] | x :: _ => [x] end.

(* x sits in rows at a position where every earlier row of the same query has strictly lower confidence and every later
   row of the same query has lower or equal confidence: the FIRST maximum-confidence row of its query, in input order *)
Definition first_best (rows : list row) (x : row) : Prop :=
  exists l1 l2, rows = l1 ++ x :: l2 /\
    (forall y, In y l1 -> qid y = qid x -> conf y < conf x) /\
    (forall y, In y l2 -> qid y = qid x -> conf y <= conf x).

Lemma first_best_In rows x : first_best rows x -> In x rows.
Proof. intros (l1 & l2 & -> & _). apply in_or_app. right. left. reflexivity. Qed.

Lemma fs_unfold rows : filter_subsequent rows = flat_map hd1 (groupby qid (sort_by qid (sort_by negconf rows))).
Proof. reflexivity. Qed.

Lemma heads_keys {A} (k : A -> Z) (G : list (list A)) : Forall (fun g => g <> []) G ->
  map k (flat_map hd1 G) = map (fun g => gkey k g 0) G.
Proof. induction G as [|g G IH]; intros H; [reflexivity|]. inversion H as [|? ? Hg HG]; subst.
  destruct g as [|x r]; [congruence|]. cbn [flat_map hd1 app map gkey]. f_equal. apply IH. exact HG. Qed.

Lemma heads_In {A} (G : list (list A)) x : In x (flat_map hd1 G) <-> exists r, In (x :: r) G.
Proof. rewrite in_flat_map. split.
  - intros (g & Hg & Hx). destruct g as [|y r]; [destruct Hx|]. destruct Hx as [<-|[]]. exists r. exact Hg.
  - intros (r & Hg). exists (x :: r). split; [exact Hg | left; reflexivity].
Qed.

Lemma heads_tails_perm {A} (G : list (list A)) : Permutation (concat G) (flat_map hd1 G ++ flat_map (@tl A) G).
Proof. induction G as [|g G IH]; [reflexivity|]. cbn [concat flat_map]. destruct g as [|x r]; [exact IH|].
  cbn [hd1 tl app]. constructor. rewrite IH.
  rewrite (Permutation_app_swap_app r). reflexivity. Qed.

Lemma groups_nonempty rows : Forall (fun g : list row => g <> []) (groupby qid rows).
Proof. pose proof (groupby_groups qid rows) as H. rewrite Forall_forall in *. intros g Hg. apply (H g Hg). Qed.

Lemma fs_sorted rows : StronglySorted Z.lt (map qid (filter_subsequent rows)).
Proof. rewrite fs_unfold, heads_keys by apply groups_nonempty. apply groupby_sort_by_keys. Qed.

Lemma fs_first_best rows x : In x (filter_subsequent rows) -> first_best rows x.
Proof. rewrite fs_unfold, heads_In. intros (r & Hg).
  destruct (groupby_sort_by_filter qid (sort_by negconf rows) (x :: r) Hg) as (_ & E). cbn [gkey] in E.
  rewrite sort_by_filter_p in E. symmetry in E. apply sort_by_head in E. destruct E as (f1 & f2 & E & H1 & H2).
  destruct (filter_split _ _ _ _ _ E) as (l1 & l2 & -> & <- & <-). exists l1, l2. split; [reflexivity|]. unfold negconf in *. split.
  - intros y Hy Hq. assert (In y (filter (fun y => qid y =? qid x) l1)) by (apply filter_In; split; [exact Hy | apply Z.eqb_eq; exact Hq]).
    specialize (H1 y H). lia.
  - intros y Hy Hq. assert (In y (filter (fun y => qid y =? qid x) l2)) by (apply filter_In; split; [exact Hy | apply Z.eqb_eq; exact Hq]).
    specialize (H2 y H). lia.
Qed.

Lemma fs_ids rows c : In c (map qid rows) <-> In c (map qid (filter_subsequent rows)).
Proof. split; intros H; apply in_map_iff in H; destruct H as (x & <- & Hx).
  - assert (Hx' : In x (sort_by negconf rows)) by (apply sort_by_in; exact Hx).
    destruct (groupby_sort_by_covers qid _ x Hx') as (g & Hg & Hxg).
    pose proof (groupby_groups qid (sort_by qid (sort_by negconf rows))) as Hok. rewrite Forall_forall in Hok.
    destruct (Hok g Hg) as (_ & Heq). destruct g as [|h r]; [destruct Hxg|].
    rewrite (Heq x h Hxg (or_introl eq_refl)). apply in_map. rewrite fs_unfold. apply heads_In. exists r. exact Hg.
  - apply in_map. apply first_best_In, fs_first_best. exact Hx.
Qed.

Lemma fs_submultiset rows : exists dropped, Permutation rows (filter_subsequent rows ++ dropped).
Proof. exists (flat_map (@tl row) (groupby qid (sort_by qid (sort_by negconf rows)))).
  rewrite fs_unfold, <- heads_tails_perm, groupby_concat, !sort_by_perm. reflexivity. Qed.

(* on a list whose query ids already ascend strictly the filter is the identity *)
Lemma fs_id rows : kstrict qid rows -> filter_subsequent rows = rows.
Proof. intros H. rewrite fs_unfold.
  assert (E : sort_by qid (sort_by negconf rows) = rows).
  { apply (sorted_perm_unique qid); [apply sort_by_sorted | exact H | rewrite !sort_by_perm; reflexivity]. }
  rewrite E, (groupby_strict qid rows H). clear. induction rows as [|x t IH]; [reflexivity|]. cbn. f_equal. exact IH. Qed.

Lemma fs_idempotent rows : filter_subsequent (filter_subsequent rows) = filter_subsequent rows.
Proof. apply fs_id, fs_sorted. Qed.

(* the rows of one query in the output: exactly one, when the query occurs at all *)
Lemma fs_filter_id rows x : In x (filter_subsequent rows) ->
  filter (fun y => qid y =? qid x) (filter_subsequent rows) = [x].
Proof. apply (kstrict_filter_single qid), fs_sorted. Qed.

(* a query with a single row keeps exactly that row; a query without rows has none *)
Lemma fs_filter_single rows c w : filter (fun y => qid y =? c) rows = [w] ->
  filter (fun y => qid y =? c) (filter_subsequent rows) = [w].
Proof. intros E. assert (Hw : In w (filter (fun y => qid y =? c) rows)) by (rewrite E; left; reflexivity).
  apply filter_In in Hw. destruct Hw as (Hw & Hc). apply Z.eqb_eq in Hc.
  assert (Hin : In c (map qid (filter_subsequent rows))) by (apply (proj1 (fs_ids rows c)); subst c; apply in_map; exact Hw).
  apply in_map_iff in Hin. destruct Hin as (x & Hq & Hx).
  assert (x = w).
  { pose proof (first_best_In _ _ (fs_first_best _ _ Hx)) as Hxr.
    assert (In x (filter (fun y => qid y =? c) rows)) by (apply filter_In; split; [exact Hxr | apply Z.eqb_eq; exact Hq]).
    rewrite E in H. destruct H as [H|[]]. symmetry. exact H. }
  subst x. rewrite <- Hq. apply fs_filter_id. exact Hx.
Qed.
Lemma fs_filter_none rows c : filter (fun y => qid y =? c) rows = [] -> filter (fun y => qid y =? c) (filter_subsequent rows) = [].
Proof. intros E. apply (filter_no_key qid). intros H. apply (proj2 (fs_ids rows c)) in H. apply in_map_iff in H. destruct H as (x & Hq & Hx).
  assert (In x (filter (fun y => qid y =? c) rows)) by (apply filter_In; split; [exact Hx | apply Z.eqb_eq; exact Hq]).
  rewrite E in H. destruct H. Qed.

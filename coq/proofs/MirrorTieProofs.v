(* F14: the choice among EXACTLY TIED first-pass candidates depends on the enumeration order of the strands (forward before reverse), which
   a mirror image exchanges.  Witness on the run model with the executable seeding stage (Coordinator.align_query over Seeding.seeds_model),
   command-line defaults (primaryResolution 1400, blur 1, minPeakDistance 20000, peaksCount 3, secondaryResolution 100, blur 4, margin
   16000, threshold 27; scores 1000 / 1.0 / -250 / 1000 / 1200) and -d 650 (below half the lattice step 1400).

   Reference 1 (length 84001 bp): labels 0 11200 18200 29400 37800 | 46200 54600 65800 72800 84000 bp: a PALINDROME whose first label
   is at 0, so its primary bit vector is a palindrome as well; the reverse-strand correlation of any query is then the forward one read
   backwards: same heights, same r.m.s. level, hence EQUAL scores for the seed at labels 2-5 on '+' and its twin at labels 6-9 on '-'.
   Query q = labels 2-5 of the reference (0 7000 18200 26600); mirror(q) = 0 8400 19600 26600 = labels 6-9.
   q:          candidates [labels 2-5 '+'; labels 6-9 '-'], both Confidence 3808: the first is reported: '+', labels 2-5.
   mirror(q):  candidates [labels 6-9 '+'; labels 2-5 '-'] (the same two seeds, strands exchanged, forward enumerated first): '+', labels 6-9.
   C11 demands for mirror(q): '-', reference labels 2-5, pairs (2,4)(3,3)(4,2)(5,1).
   The real program reports exactly these two records for this input (known_findings.json F14).
   Units: positions/lengths in tenths of a bp, scores in 1/20. *)
From Coq Require Import ZArith QArith List Bool Lia Sorting.Sorted.
Import ListNotations.
Require Import Py Pairing Core Multi Cigar Coordinator Seeding MirrorProofs1 MirrorProofs3 CorrelateProofs3 CorrelateProofs4.
Open Scope Z_scope.

Definition tie_P : params := mkP 20000 2 (-5000) 20000 24000 6500 (inject_Z 20) 0.
Definition tie_ref : omap := mkMap 1 840010 [0; 112000; 182000; 294000; 378000; 462000; 546000; 658000; 728000; 840000] 0.
Definition tie_q : omap := mkMap 5 266010 [0; 70000; 182000; 266000] 0.

(* the input is inside the quantifier of C11 *)
Lemma tie_hypotheses :
  0 <= DMAX tie_P /\ 2 * DMAX tie_P < 14000 /\ mshift tie_q = 0 /\
  StronglySorted Z.lt (mpositions tie_ref) /\ on_lattice 14000 (mpositions tie_ref) /\
  StronglySorted Z.lt (mpositions tie_q) /\ on_lattice 14000 (mpositions tie_q) /\
  on_grid 14000 (mlen tie_q - K) (mpositions tie_q) /\ on_grid 1000 (mlen tie_q - K) (mpositions tie_q) /\
  mpositions (mirror_map tie_q) = [0; 84000; 196000; 266000].
Proof.
  assert (Lr : on_lattice 14000 (mpositions tie_ref)).
  { unfold on_lattice. repeat (apply Forall_cons; [match goal with |- (_ | ?p) => exists (p / 14000); reflexivity end|]). apply Forall_nil. }
  assert (Lq : on_lattice 14000 (mpositions tie_q)).
  { unfold on_lattice. repeat (apply Forall_cons; [match goal with |- (_ | ?p) => exists (p / 14000); reflexivity end|]). apply Forall_nil. }
  assert (Lq2 : on_lattice 1000 (mpositions tie_q)).
  { unfold on_lattice. repeat (apply Forall_cons; [match goal with |- (_ | ?p) => exists (p / 1000); reflexivity end|]). apply Forall_nil. }
  assert (Sr : StronglySorted Z.lt (mpositions tie_ref)) by (repeat constructor).
  assert (Sq : StronglySorted Z.lt (mpositions tie_q)) by (repeat constructor).
  split; [cbn; lia|]. split; [cbn; lia|]. split; [reflexivity|]. split; [exact Sr|]. split; [exact Lr|]. split; [exact Sq|]. split; [exact Lq|].
  split; [apply (lattice_on_grid 14000 tie_q); [exact Sq | exact Lq | reflexivity | reflexivity | discriminate]|].
  split; [apply (lattice_on_grid 1000 tie_q); [exact Sq | exact Lq2 | reflexivity | reflexivity | discriminate]|].
  reflexivity.
Qed.

Definition row_view (w : row) := (rid w, rrev w, conf w, (Multi.rs w, Multi.re w), (Multi.qs w, Multi.qe w), row_site_pairs (rsegs w)).

(* the mechanism: the two first seeds of q are on opposite strands of the same reference and their scores are exactly equal *)
Lemma tie_seeds_tied :
  match all_primary default_sparams [tie_ref] tie_q with
  | Ok l => match select_primary default_sparams l with
            | a :: b :: _ => (pp_rev a, pp_pos a, pp_rev b, pp_pos b) = (false, 11899, true, 46899) /\ Qeq (pp_height a) (pp_height b) /\
                             score_leb a b = true /\ score_leb b a = true /\ score_leb_spec a b = true /\ score_leb_spec b a = true
            | _ => False end
  | _ => False end /\
  map (fun s => (mid (sd_ref s), sd_rev s, sd_peaks s)) (seeds_model default_sparams [tie_ref] tie_q)
    = [(1, false, [112480]); (1, true, [462480]); (1, false, [])] /\
  map (fun s => (mid (sd_ref s), sd_rev s, sd_peaks s)) (seeds_model default_sparams [tie_ref] (mirror_map tie_q))
    = [(1, false, [462480]); (1, true, [112480]); (1, false, [])].
Proof. vm_compute. repeat split; reflexivity. Qed.

Notation tie_run := (align_query tie_P (seeds_model default_sparams) [tie_ref] tie_q 1).
Notation tie_run_m := (align_query tie_P (seeds_model default_sparams) [tie_ref] (mirror_map tie_q) 1).
Definition get_row (x : res (option row * Z)) : option row := match x with Ok (Some w, _) => Some w | _ => None end.
Lemma tie_row_q : option_map row_view (get_row tie_run) = Some (1, false, 76160, (112000, 378000), (0, 266000), [(2, 1); (3, 2); (4, 3); (5, 4)]).
Proof. vm_compute. reflexivity. Qed.
Lemma tie_row_m : option_map row_view (get_row tie_run_m) = Some (1, false, 76160, (462000, 728000), (0, 266000), [(6, 1); (7, 2); (8, 3); (9, 4)]).
Proof. vm_compute. reflexivity. Qed.
Lemma get_row_inv x v : option_map row_view (get_row x) = Some v -> exists w it, x = Ok (Some w, it) /\ row_view w = v.
Proof. destruct x as [[[w|] it]|]; cbn; intros H; try discriminate. exists w, it. split; [reflexivity | congruence]. Qed.

Lemma first_pass_mirror_refuted :
  exists P refs q w w' it it',
    (0 <= DMAX P /\ 2 * DMAX P < 14000 /\ mshift q = 0 /\
     Forall (fun r => StronglySorted Z.lt (mpositions r) /\ on_lattice 14000 (mpositions r)) refs /\
     StronglySorted Z.lt (mpositions q) /\ on_lattice 14000 (mpositions q) /\ on_grid 14000 (mlen q - K) (mpositions q)) /\
    align_query P (seeds_model default_sparams) refs q 1 = Ok (Some w, it) /\
    align_query P (seeds_model default_sparams) refs (mirror_map q) 1 = Ok (Some w', it') /\
    row_view w  = (1, false, 76160, (112000, 378000), (0, 266000), [(2, 1); (3, 2); (4, 3); (5, 4)]) /\
    row_view w' = (1, false, 76160, (462000, 728000), (0, 266000), [(6, 1); (7, 2); (8, 3); (9, 4)]) /\
    (* what C11 states of w': *)
    ~ (rrev w' = negb (rrev w) /\ Multi.rs w' = Multi.rs w /\ Multi.re w' = Multi.re w /\ conf w' = conf w /\
       row_site_pairs (rsegs w') = map (flipq (msum q)) (row_site_pairs (rsegs w))).
Proof.
  destruct tie_hypotheses as (H1 & H2 & H3 & H4 & H5 & H6 & H7 & H8 & _).
  destruct (get_row_inv _ _ tie_row_q) as (w & it & E1 & V1).
  destruct (get_row_inv _ _ tie_row_m) as (w' & it' & E2 & V2).
  exists tie_P, [tie_ref], tie_q, w, w', it, it'.
  split; [refine (conj H1 (conj H2 (conj H3 (conj _ (conj H6 (conj H7 H8)))))); constructor; [split; assumption | constructor]|].
  split; [exact E1|]. split; [exact E2|]. split; [exact V1|]. split; [exact V2|].
  intros (Hr & _). unfold row_view in V1, V2. injection V1 as _ R1 _ _ _ _ _ _. injection V2 as _ R2 _ _ _ _ _ _.
  rewrite R1, R2 in Hr. discriminate.
Qed.

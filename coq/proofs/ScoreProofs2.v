(* C04, part 2: confidence = recomputed score, offsets, no label twice, no gap inside a sub-run, joined rows, wiring *)
From Coq Require Import ZArith QArith List Bool Lia Sorting.Permutation Sorting.Sorted.
Import ListNotations.
Require Import Py PyProofs Pairing Core Multi Wiring Psum DP DPProofs ChainCore FacSegs PairingProofs4 ScoreProofs1.
Open Scope Z_scope.

(* ---------- confidence ---------- *)
Lemma fold_sscore_acc segs : forall a, fold_left (fun a s => a + sscore s) segs a = a + lsum (map sscore segs).
Proof. induction segs as [|x t IH]; intros a; cbn [fold_left map lsum fold_right]; [lia|]. rewrite IH. unfold lsum. lia. Qed.
Lemma conf_row_create segs q r ql rl rv : conf (row_create segs q r ql rl rv) = lsum (map sscore segs).
Proof. unfold row_create. cbn [conf]. rewrite fold_sscore_acc. lia. Qed.
Lemma rsegs_row_create segs q r ql rl rv : rsegs (row_create segs q r ql rl rv) = segs.
Proof. reflexivity. Qed.

(* the score of a segment / a row recomputed from the positions it reports and the parameters *)
Definition seg_recomputed (P : params) (s : segment) : Z := lsum (map (fun p => configured P (ap p)) (positions s)).
Definition recomputed (P : params) (segs : list segment) : Z := lsum (map (seg_recomputed P) segs).
(* ... and recomputed from the raw label positions and the segment's own peak, ignoring the offset stored in the pair *)
Definition raw_score (P : params) (peak : Z) (a : apos) : Z :=
  match a with Pair r q _ _ => SP P - DPU P * Z.abs (lpos q - (lpos r - peak)) | _ => SU P end.
Definition seg_recomputed_raw (P : params) (s : segment) : Z := lsum (map (fun p => raw_score P (speak s) (ap p)) (positions s)).
Definition recomputed_raw (P : params) (segs : list segment) : Z := lsum (map (seg_recomputed_raw P) segs).

Lemma map_ext_in' {A B} (f g : A -> B) l : (forall x, In x l -> f x = g x) -> map f l = map g l.
Proof. induction l as [|x t IH]; intros H; [reflexivity|]. cbn [map]. rewrite (H x (or_introl eq_refl)), IH; [reflexivity|].
  intros y Hy. apply H. right. exact Hy. Qed.

Lemma reported_score P it reference query peaks reverse s :
  reported P it reference query peaks reverse s -> sscore s = seg_recomputed P s.
Proof.
  intros H. pose proof H as (Hsc & _). destruct (reported_position _ _ _ _ _ _ _ H) as (k & _ & Hp).
  unfold scored_ok in Hsc. rewrite Hsc, sum_scores_lsum. unfold seg_recomputed. f_equal. apply map_ext_in'.
  intros p Hin. apply (Hp p Hin).
Qed.

Lemma recomputed_sum (Pm : params) (Good : segment -> Prop) segs :
  (forall s, Good s -> sscore s = seg_recomputed Pm s) -> Forall Good segs -> lsum (map sscore segs) = recomputed Pm segs.
Proof. intros Hg Hl. unfold recomputed. f_equal. apply map_ext_in'. intros s Hs. apply Hg. rewrite Forall_forall in Hl. apply Hl. exact Hs. Qed.

Theorem align_confidence P it reference query peaks reverse segs q r ql rl :
  aligner_align P it reference query peaks reverse = Ok segs ->
  conf (row_create segs q r ql rl reverse) = recomputed P segs.
Proof.
  intros H. rewrite conf_row_create.
  apply (recomputed_sum P (reported P it reference query peaks reverse)); [apply reported_score | apply (align_reported _ _ _ _ _ _ _ H)].
Qed.

(* ---------- offsets: distance from the diagonal of the segment's own peak, within maxPairDistance ---------- *)
Lemma reported_shift P it reference query peaks reverse s :
  StronglySorted Z.le (mpositions reference) -> StronglySorted Z.le (mpositions query) ->
  reported P it reference query peaks reverse s ->
  forall p r q sh src, In p (positions s) -> ap p = Pair r q sh src ->
    sh = lpos q - (lpos r - speak s) /\ Z.abs sh <= DMAX P /\ sc p = SP P - DPU P * Z.abs sh /\
    In r (window (DMAX P) (speak s) (speak s + mlen query) reference) /\ In q (positions_with_ids query reverse).
Proof.
  intros Href Hqry H p r q sh src Hin E. destruct (reported_position _ _ _ _ _ _ _ H) as (k & _ & Hp).
  destruct (Hp p Hin) as (_ & Hs & Ha). rewrite E in Hs, Ha. unfold engine_out in Ha.
  destruct (engine_within _ _ _ _ _ _ _ Href Hqry r q sh src Ha) as (H1 & H2 & H3 & H4 & _).
  repeat split; assumption.
Qed.

Lemma reported_raw P it reference query peaks reverse s :
  StronglySorted Z.le (mpositions reference) -> StronglySorted Z.le (mpositions query) ->
  reported P it reference query peaks reverse s -> sscore s = seg_recomputed_raw P s.
Proof.
  intros Href Hqry H. rewrite (reported_score _ _ _ _ _ _ _ H). unfold seg_recomputed, seg_recomputed_raw. f_equal.
  apply map_ext_in'. intros p Hin. destruct (ap p) as [r q sh src| |] eqn:E; [|reflexivity|reflexivity].
  destruct (reported_shift _ _ _ _ _ _ _ Href Hqry H p r q sh src Hin E) as (-> & _). reflexivity.
Qed.

Theorem align_confidence_raw P it reference query peaks reverse segs q r ql rl :
  StronglySorted Z.le (mpositions reference) -> StronglySorted Z.le (mpositions query) ->
  aligner_align P it reference query peaks reverse = Ok segs ->
  conf (row_create segs q r ql rl reverse) = recomputed_raw P segs.
Proof.
  intros Href Hqry H. rewrite conf_row_create. unfold recomputed_raw. f_equal. apply map_ext_in'. intros s Hs.
  apply (reported_raw P it reference query peaks reverse s Href Hqry). pose proof (align_reported _ _ _ _ _ _ _ H) as Hall. rewrite Forall_forall in Hall. apply Hall. exact Hs.
Qed.

(* ---------- no label twice inside a segment ---------- *)
Lemma reported_labels_sub P it reference query peaks reverse s :
  reported P it reference query peaks reverse s ->
  exists k, nth_error peaks k = Some (speak s) /\
    Sub (map ap (positions s)) (engine_out P (it + Z.of_nat k) reference query (speak s) reverse).
Proof.
  intros (_ & k & Hk & Hsub). exists k. split; [exact Hk|]. apply (Sub_map ap) in Hsub. unfold scored_out in Hsub.
  rewrite map_ap_score_pos in Hsub. exact Hsub.
Qed.

Lemma reported_nodup P it reference query peaks reverse s :
  StronglySorted Z.le (mpositions reference) -> StronglySorted Z.le (mpositions query) ->
  reported P it reference query peaks reverse s ->
  NoDup (map site (ref_labels (map ap (positions s)))) /\ NoDup (map site (qry_labels (map ap (positions s)))).
Proof.
  intros Href Hqry H. destruct (reported_labels_sub _ _ _ _ _ _ _ H) as (k & _ & Hsub).
  destruct (engine_partition (DMAX P) (it + Z.of_nat k) reference query (speak s) (speak s + mlen query) reverse Href Hqry) as (_ & _ & N1 & N2 & _).
  split.
  - apply (Sub_NoDup _ _ (Sub_map site _ _ (Sub_flat_map _ _ _ Hsub)) N1).
  - apply (Sub_NoDup _ _ (Sub_map site _ _ (Sub_flat_map _ _ _ Hsub)) N2).
Qed.

(* ---------- no gap inside a contiguous sub-run of the engine output ---------- *)
Lemma SS_app_cross {A} (T : A -> A -> Prop) l1 l2 : StronglySorted T (l1 ++ l2) -> forall a b, In a l1 -> In b l2 -> T a b.
Proof. induction l1 as [|x t IH]; cbn [app]; intros H a b Ha Hb; [destruct Ha|].
  inversion H as [|? ? Ht Hx]; subst. destruct Ha as [<-|Ha].
  - rewrite Forall_forall in Hx. apply Hx. apply in_or_app. right. exact Hb.
  - apply (IH Ht a b Ha Hb). Qed.

Lemma subrun_between {A} (k : A -> Z) (L : list A) m n x y a :
  StronglySorted (fun a b => k a <= k b) L ->
  In x (firstn n (skipn m L)) -> In y (firstn n (skipn m L)) -> In a L -> k x < k a < k y -> In a (firstn n (skipn m L)).
Proof.
  intros HS Hx Hy Ha Hk.
  rewrite <- (firstn_skipn m L) in HS, Ha.
  apply in_app_or in Ha. destruct Ha as [Ha|Ha].
  - exfalso. assert (k a <= k x); [|lia]. apply (SS_app_cross _ _ _ HS a x Ha).
    rewrite <- (firstn_skipn n (skipn m L)). apply in_or_app. left. exact Hx.
  - apply SS_app_inv in HS. destruct HS as (_ & HS). rewrite <- (firstn_skipn n (skipn m L)) in HS, Ha.
    apply in_app_or in Ha. destruct Ha as [Ha|Ha]; [exact Ha|].
    exfalso. assert (k y <= k a); [|lia]. apply (SS_app_cross _ _ _ HS y a Hy Ha).
Qed.

Section Gap.
Variables (d it : Z) (reference query : omap) (start stop : Z) (reverse : bool).
Hypothesis Href : StronglySorted Z.le (mpositions reference).
Hypothesis Hqry : StronglySorted Z.le (mpositions query).
Variables (m n : nat).
Definition gE := align_engine d it reference query start stop reverse.
Definition grun := firstn n (skipn m gE).

Lemma run_entries x y a : In x grun -> In y grun -> In a gE -> abs_pos x < abs_pos a < abs_pos y -> In a grun.
Proof. intros Hx Hy Ha Hk. apply (subrun_between abs_pos gE m n x y a); try assumption. apply (sort_by_sorted abs_pos). Qed.

Lemma run_ref_labels x y r : In x grun -> In y grun -> In r (window d start stop reference) ->
  abs_pos x < lpos r < abs_pos y -> In r (ref_labels grun).
Proof.
  intros Hx Hy Hr Hk.
  destruct (engine_partition d it reference query start stop reverse Href Hqry) as (PR & _).
  apply (Permutation_in _ (Permutation_sym PR)) in Hr. unfold ref_labels in Hr. apply in_flat_map in Hr. destruct Hr as (a & Ha & Hra).
  unfold ref_labels. apply in_flat_map. exists a. split; [|exact Hra].
  apply (run_entries x y a Hx Hy Ha). destruct a as [r' q' s' src'|r'|q' s']; cbn [abs_pos]; cbn in Hra.
  - destruct Hra as [->|[]]. exact Hk.
  - destruct Hra as [->|[]]. exact Hk.
  - destruct Hra.
Qed.

Lemma run_qry_labels x y q : In x grun -> In y grun -> In q (positions_with_ids query reverse) ->
  In q (qry_labels grun) \/ exists a, In a gE /\ In q (qry_labels [a]) /\ ~ (abs_pos x < abs_pos a < abs_pos y).
Proof.
  intros Hx Hy Hq.
  destruct (engine_partition d it reference query start stop reverse Href Hqry) as (_ & PQ & _).
  apply (Permutation_in _ (Permutation_sym PQ)) in Hq. unfold qry_labels in Hq. apply in_flat_map in Hq. destruct Hq as (a & Ha & Hqa).
  destruct (Z_lt_dec (abs_pos x) (abs_pos a)) as [L1|L1]; [destruct (Z_lt_dec (abs_pos a) (abs_pos y)) as [L2|L2]|].
  - left. unfold qry_labels. apply in_flat_map. exists a. split; [apply (run_entries x y a Hx Hy Ha); lia | exact Hqa].
  - right. exists a. split; [exact Ha|]. split; [unfold qry_labels; cbn [flat_map]; rewrite app_nil_r; exact Hqa | lia].
  - right. exists a. split; [exact Ha|]. split; [unfold qry_labels; cbn [flat_map]; rewrite app_nil_r; exact Hqa | lia].
Qed.
End Gap.

(* a segment whose positions are an index sub-run of the scored engine output of its peak *)
Definition engine_subrun (P : params) (it : Z) (reference query : omap) (reverse : bool) (s : segment) : Prop :=
  exists m n, positions s = firstn n (skipn m (scored_out P it reference query (speak s) reverse)).

Lemma subrun_labels P it reference query reverse s m n :
  positions s = firstn n (skipn m (scored_out P it reference query (speak s) reverse)) ->
  map ap (positions s) = firstn n (skipn m (engine_out P it reference query (speak s) reverse)).
Proof. intros ->. unfold scored_out. rewrite skipn_map, firstn_map. apply map_ap_score_pos. Qed.

Theorem subrun_no_gap P it reference query reverse s :
  StronglySorted Z.le (mpositions reference) -> StronglySorted Z.le (mpositions query) ->
  engine_subrun P it reference query reverse s ->
  forall x y, In x (positions s) -> In y (positions s) ->
    (forall a, In a (engine_out P it reference query (speak s) reverse) ->
       abs_pos (ap x) < abs_pos a < abs_pos (ap y) -> In (score_pos P a) (positions s)) /\
    (forall r, In r (window (DMAX P) (speak s) (speak s + mlen query) reference) ->
       abs_pos (ap x) < lpos r < abs_pos (ap y) -> In r (ref_labels (map ap (positions s)))) /\
    (forall q, In q (positions_with_ids query reverse) ->
       In q (qry_labels (map ap (positions s))) \/
       exists a, In a (engine_out P it reference query (speak s) reverse) /\ In q (qry_labels [a]) /\
                 ~ (abs_pos (ap x) < abs_pos a < abs_pos (ap y))).
Proof.
  intros Href Hqry (m & n & Hpos) x y Hx Hy.
  pose proof (subrun_labels _ _ _ _ _ _ _ _ Hpos) as Hl.
  assert (Hx' : In (ap x) (grun (DMAX P) it reference query (speak s) (speak s + mlen query) reverse m n)).
  { unfold grun, gE. fold (engine_out P it reference query (speak s) reverse). rewrite <- Hl. apply in_map. exact Hx. }
  assert (Hy' : In (ap y) (grun (DMAX P) it reference query (speak s) (speak s + mlen query) reverse m n)).
  { unfold grun, gE. fold (engine_out P it reference query (speak s) reverse). rewrite <- Hl. apply in_map. exact Hy. }
  split; [|split].
  - intros a Ha Hk. pose proof (run_entries _ _ _ _ _ _ _ m n _ _ a Hx' Hy' Ha Hk) as Hin.
    unfold grun, gE in Hin. fold (engine_out P it reference query (speak s) reverse) in Hin.
    rewrite Hpos. unfold scored_out. rewrite skipn_map, firstn_map. apply in_map. exact Hin.
  - intros r Hr Hk. rewrite Hl. apply (run_ref_labels _ _ _ _ _ _ _ Href Hqry m n _ _ r Hx' Hy' Hr Hk).
  - intros q Hq. rewrite Hl. apply (run_qry_labels _ _ _ _ _ _ _ Href Hqry m n _ _ q Hx' Hy' Hq).
Qed.

Lemma factory_run_subrun P it reference query peaks reverse s : factory_run P it reference query peaks reverse s ->
  exists k, nth_error peaks k = Some (speak s) /\ engine_subrun P (it + Z.of_nat k) reference query reverse s.
Proof. intros (_ & k & m & n & Hk & Hpos). exists k. split; [exact Hk | exists m, n; exact Hpos]. Qed.

(* ---------- joined rows (alignment_results.py: resolve) ---------- *)
Lemma join_rows_good (Good : segment -> Prop) (Good_sub : forall s o, Good s -> Good (seg_sub s o)) a b w :
  join_rows a b = Ok w -> (forall s, seg0 a = Ok s -> Good s) -> (forall s, seg0 b = Ok s -> Good s) ->
  Forall Good (rsegs w) /\ length (rsegs w) = 2%nat /\ conf w = lsum (map sscore (rsegs w)).
Proof.
  intros H Ha Hb. unfold join_rows in H.
  destruct (first_pair_rpos a) as [pa|]; [|discriminate]. cbn [bind] in H.
  destruct (first_pair_rpos b) as [pb|]; [|discriminate]. cbn [bind] in H.
  destruct (seg0 a) as [sa|]; [|discriminate]. cbn [bind] in H.
  destruct (seg0 b) as [sb|]; [|discriminate]. cbn [bind] in H.
  specialize (Ha sa eq_refl). specialize (Hb sb eq_refl).
  destruct (pa <? pb).
  - destruct (resolve_pair sa sb) as [[s1 s2]|] eqn:Er; [|discriminate]. cbn [bind fst snd] in H. injection H as <-.
    destruct (resolve_pair_good Good Good_sub sa sb s1 s2 Er Ha Hb) as (G1 & G2).
    rewrite rsegs_row_create, conf_row_create. split; [repeat constructor; assumption | split; reflexivity].
  - destruct (resolve_pair sb sa) as [[s1 s2]|] eqn:Er; [|discriminate]. cbn [bind fst snd] in H. injection H as <-.
    destruct (resolve_pair_good Good Good_sub sb sa s1 s2 Er Hb Ha) as (G1 & G2).
    rewrite rsegs_row_create, conf_row_create. split; [repeat constructor; assumption | split; reflexivity].
Qed.

Definition reported2 (P : params) (it1 : Z) (ref1 q1 : omap) (peaks1 : list Z) (rev1 : bool)
                     (it2 : Z) (ref2 q2 : omap) (peaks2 : list Z) (rev2 : bool) (s : segment) : Prop :=
  reported P it1 ref1 q1 peaks1 rev1 s \/ reported P it2 ref2 q2 peaks2 rev2 s.

Theorem joined_confidence P it1 ref1 q1 peaks1 rev1 segs1 it2 ref2 q2 peaks2 rev2 segs2 a b w :
  aligner_align P it1 ref1 q1 peaks1 rev1 = Ok segs1 -> aligner_align P it2 ref2 q2 peaks2 rev2 = Ok segs2 ->
  rsegs a = segs1 -> rsegs b = segs2 -> join_rows a b = Ok w ->
  conf w = recomputed P (rsegs w) /\ length (rsegs w) = 2%nat /\
  Forall (reported2 P it1 ref1 q1 peaks1 rev1 it2 ref2 q2 peaks2 rev2) (rsegs w).
Proof.
  intros H1 H2 E1 E2 Hj.
  pose proof (align_reported _ _ _ _ _ _ _ H1) as R1. pose proof (align_reported _ _ _ _ _ _ _ H2) as R2.
  rewrite Forall_forall in R1, R2.
  assert (Gsub : forall s o, reported2 P it1 ref1 q1 peaks1 rev1 it2 ref2 q2 peaks2 rev2 s ->
                             reported2 P it1 ref1 q1 peaks1 rev1 it2 ref2 q2 peaks2 rev2 (seg_sub s o)).
  { intros s o [G|G]; [left | right]; apply reported_sub; exact G. }
  destruct (join_rows_good _ Gsub a b w Hj) as (Hall & Hlen & Hconf).
  - intros s Hs. left. apply R1. unfold seg0 in Hs. rewrite E1 in Hs. destruct segs1 as [|s0 t]; [discriminate|]. injection Hs as <-. left. reflexivity.
  - intros s Hs. right. apply R2. unfold seg0 in Hs. rewrite E2 in Hs. destruct segs2 as [|s0 t]; [discriminate|]. injection Hs as <-. left. reflexivity.
  - split; [|split; [exact Hlen | exact Hall]]. rewrite Hconf.
    apply (recomputed_sum P (reported2 P it1 ref1 q1 peaks1 rev1 it2 ref2 q2 peaks2 rev2)); [|exact Hall].
    intros s [G|G]; apply (reported_score _ _ _ _ _ _ _ G).
Qed.

(* ---------- wiring (projection lemmas of model/Wiring.v; the real tie is the end-to-end correspondence run) ---------- *)
Lemma make_params_proj a :
  SP (make_params a) = 20 * a_sp a /\ DPU (make_params a) = a_dp2 a /\ SU (make_params a) = 20 * a_su a /\
  MS (make_params a) = 20 * a_ms a /\ BS (make_params a) = 20 * a_bs a /\ DMAX (make_params a) = K * a_d a /\
  SJ (make_params a) = inject_Z (a_sj20 a) /\ SS (make_params a) = a_ss a.
Proof. repeat split. Qed.

(* C19 — structure of the rows built by AlignmentComparer.compare and the counts of AlignmentComparison.create *)
From Coq Require Import ZArith QArith List Bool Lia Permutation.
Import ListNotations.
Require Import Py PyProofs Comparer ComparerProofs1.
Open Scope Z_scope.

(* ------------------------------------------------------------------ well-formed dictionaries *)
Definition wf (d : dict) : Prop := NoDup (dkeys d) /\ forall e, In e d -> akey (snd e) = fst e.
Lemma to_dict_wf als : wf (to_dict als).
Proof. split; [apply to_dict_nodup | intros e He; apply (to_dict_vals als e He)]. Qed.

Definition dget (d : dict) (k : kpair) : alignment := match dict_get d k with Some a => a | None => null_al end.
Lemma dget_in d e : wf d -> In e d -> dget d (fst e) = snd e.
Proof. intros [ND _] He. unfold dget. destruct e as [k v]. cbn [fst snd]. rewrite (dict_get_nodup d k v ND He). reflexivity. Qed.
Lemma dget_key d k : wf d -> In k (dkeys d) -> akey (dget d k) = k.
Proof.
  intros W Hk. unfold dkeys in Hk. apply in_map_iff in Hk. destruct Hk as [e [<- He]].
  rewrite (dget_in d e W He). apply (proj2 W e He).
Qed.
Lemma dget_vals d k (P : alignment -> Prop) : wf d -> In k (dkeys d) -> (forall e, In e d -> P (snd e)) -> P (dget d k).
Proof.
  intros W Hk HP. unfold dkeys in Hk. apply in_map_iff in Hk. destruct Hk as [e [<- He]].
  rewrite (dget_in d e W He). auto.
Qed.

(* ------------------------------------------------------------------ create, without the special case *)
Definition avg_of (f : row -> Q) (rs : list row) : Q :=
  let ov := filter overlapping rs in match ov with [] => 0%Q | _ => qmean (map f ov) end.
Definition nonov (r : row) : bool := is_both r && negb (overlapping r).
Lemma create_eq rs : create rs =
  mkcmp (avg_of rcov1 rs) (avg_of rcov2 rs) (avg_of rident rs) (length (filter overlapping rs)) (length (filter nonov rs))
        (length (filter is_first rs)) (length (filter is_second rs)) rs.
Proof. destruct rs; reflexivity. Qed.

Lemma map_id_in {A} (f : A -> A) l : (forall x, In x l -> f x = x) -> map f l = l.
Proof. induction l as [|x t IH]; cbn; intros H; [reflexivity|]. rewrite (H x (or_introl eq_refl)), IH; auto. Qed.
Lemma NoDup_app' {A} (l l' : list A) : NoDup l -> NoDup l' -> (forall x, In x l -> ~ In x l') -> NoDup (l ++ l').
Proof.
  induction l as [|x t IH]; cbn; intros H H' D; [exact H'|]. inversion H; subst. constructor.
  - rewrite in_app_iff. intros [G|G]; [contradiction | exact (D x (or_introl eq_refl) G)].
  - apply IH; auto.
Qed.
Lemma Forall2_app' {A B} (R : A -> B -> Prop) l1 l2 m1 m2 : Forall2 R l1 m1 -> Forall2 R l2 m2 -> Forall2 R (l1 ++ l2) (m1 ++ m2).
Proof. induction 1; cbn; auto. Qed.
Lemma Forall2_map_in {A B C} (R : B -> C -> Prop) (f : A -> B) (g : A -> C) l : (forall x, In x l -> R (f x) (g x)) -> Forall2 R (map f l) (map g l).
Proof. induction l as [|x t IH]; cbn; intros H; constructor; auto. Qed.
Lemma Forall2_filter_length {A B} (R : A -> B -> Prop) (p : A -> bool) (q : B -> bool) l m :
  (forall x y, R x y -> p x = q y) -> Forall2 R l m -> length (filter p l) = length (filter q m).
Proof.
  intros H. induction 1 as [|x y l m Hxy _ IH]; cbn; [reflexivity|]. rewrite (H x y Hxy). destruct (q y); cbn; rewrite IH; reflexivity.
Qed.
Lemma Forall2_filter_map {A B C} (R : A -> B -> Prop) (p : A -> bool) (q : B -> bool) (f : A -> C) (g : B -> C) l m :
  (forall x y, R x y -> p x = q y /\ f x = g y) -> Forall2 R l m -> map f (filter p l) = map g (filter q m).
Proof.
  intros H. induction 1 as [|x y l m Hxy _ IH]; cbn; [reflexivity|]. destruct (H x y Hxy) as [E1 E2]. rewrite E1.
  destruct (q y); cbn; rewrite IH; congruence.
Qed.
Lemma filter_perm {A} (p : A -> bool) l l' : Permutation l l' -> Permutation (filter p l) (filter p l').
Proof.
  induction 1; cbn.
  - constructor.
  - destruct (p x); [constructor|]; assumption.
  - destruct (p x), (p y); try apply perm_swap; apply Permutation_refl.
  - etransitivity; eassumption.
Qed.

Section Rows.
Variable combine : bool.
Variable ratio : list bpair -> list bpair -> Q.
Notation row_compare := (row_compare combine ratio).
Notation compared_rows := (compared_rows combine ratio).
Notation combine_sources := (combine_sources combine).

Definition rows_of (d1 d2 : dict) : list row :=
  compared_rows d1 d2 ++ map row_first (not_matching d1 d2) ++ map row_second (not_matching d2 d1).
Lemma compare_eq als1 als2 : compare combine ratio als1 als2 = create (rows_of (to_dict als1) (to_dict als2)).
Proof. reflexivity. Qed.

(* the three blocks as maps over key lists *)
Definition KB (d1 d2 : dict) := filter (dict_mem d2) (dkeys d1).
Definition KN (d1 d2 : dict) := filter (fun k => negb (dict_mem d2 k)) (dkeys d1).
Definition gB (d1 d2 : dict) (k : kpair) : row := row_compare (dget d1 k) (dget d2 k).

Lemma compared_rows_map d1 d2 :
  compared_rows d1 d2 = map (fun e => row_compare (snd e) (dget d2 (fst e))) (filter (fun e => dict_mem d2 (fst e)) d1).
Proof.
  unfold Comparer.compared_rows, dict_mem, dget. induction d1 as [|e t IH]; cbn; [reflexivity|].
  destruct (dict_get d2 (fst e)) eqn:E; cbn; rewrite IH, ?E; reflexivity.
Qed.
Lemma compared_rows_k d1 d2 : wf d1 -> compared_rows d1 d2 = map (gB d1 d2) (KB d1 d2).
Proof.
  intros W. rewrite compared_rows_map. unfold KB, dkeys. rewrite filter_map_comm, map_map. apply map_ext_in.
  intros e He. apply filter_In in He. unfold gB. rewrite (dget_in d1 e W (proj1 He)). reflexivity.
Qed.
Lemma not_matching_k d1 d2 : wf d1 -> not_matching d1 d2 = map (dget d1) (KN d1 d2).
Proof.
  intros W. unfold not_matching, KN, dkeys. rewrite filter_map_comm, map_map. apply map_ext_in.
  intros e He. apply filter_In in He. rewrite (dget_in d1 e W (proj1 He)). reflexivity.
Qed.
Lemma rows_of_k d1 d2 : wf d1 -> wf d2 ->
  rows_of d1 d2 = map (gB d1 d2) (KB d1 d2) ++ map (fun k => row_first (dget d1 k)) (KN d1 d2) ++ map (fun k => row_second (dget d2 k)) (KN d2 d1).
Proof. intros W1 W2. unfold rows_of. rewrite compared_rows_k, !not_matching_k, !map_map by assumption. reflexivity. Qed.

Lemma KB_in d1 d2 k : In k (KB d1 d2) <-> In k (dkeys d1) /\ In k (dkeys d2).
Proof. unfold KB. rewrite filter_In, dict_mem_In. tauto. Qed.
Lemma KN_in d1 d2 k : In k (KN d1 d2) <-> In k (dkeys d1) /\ ~ In k (dkeys d2).
Proof. unfold KN. rewrite filter_In, negb_true_iff, dict_mem_false. tauto. Qed.

(* row keys (the `or` of the two ids) *)
Lemma row_key_both a1 a2 : akey a1 = akey a2 -> row_key (row_compare a1 a2) = akey a1.
Proof.
  unfold akey, row_key, row_qid, row_rid. cbn [ra1 ra2 Comparer.row_compare]. intros [= E1 E2]. rewrite <- E1, <- E2.
  destruct (aq a1 =? 0), (ar a1 =? 0); reflexivity.
Qed.
Lemma row_key_first a : row_key (row_first a) = akey a.
Proof.
  destruct a as [[q r] ps]. unfold akey, row_key, row_qid, row_rid. cbn [ra1 ra2 row_first null_al aq ar fst snd].
  destruct (q =? 0) eqn:E1, (r =? 0) eqn:E2; try apply Z.eqb_eq in E1; try apply Z.eqb_eq in E2; subst; reflexivity.
Qed.
Lemma row_key_second a : row_key (row_second a) = akey a.
Proof. reflexivity. Qed.

Lemma gB_key d1 d2 k : wf d1 -> wf d2 -> In k (KB d1 d2) -> row_key (gB d1 d2 k) = k.
Proof.
  intros W1 W2 Hk. apply KB_in in Hk. unfold gB. rewrite row_key_both; [apply dget_key; tauto|].
  rewrite !dget_key; tauto.
Qed.

Lemma rows_keys d1 d2 : wf d1 -> wf d2 -> map row_key (rows_of d1 d2) = KB d1 d2 ++ KN d1 d2 ++ KN d2 d1.
Proof.
  intros W1 W2. rewrite rows_of_k by assumption. rewrite !map_app, !map_map. f_equal; [|f_equal]; apply map_id_in; intros k Hk.
  - apply gB_key; assumption.
  - rewrite row_key_first. apply dget_key; [assumption|]. apply KN_in in Hk. tauto.
  - rewrite row_key_second. apply dget_key; [assumption|]. apply KN_in in Hk. tauto.
Qed.

Lemma keys_blocks d1 d2 : wf d1 -> wf d2 ->
  NoDup (KB d1 d2 ++ KN d1 d2 ++ KN d2 d1) /\ forall k, In k (KB d1 d2 ++ KN d1 d2 ++ KN d2 d1) <-> In k (dkeys d1) \/ In k (dkeys d2).
Proof.
  intros [N1 _] [N2 _]. split.
  - apply NoDup_app'; [apply NoDup_filter; exact N1 | apply NoDup_app'; apply NoDup_filter || idtac; try assumption |].
    + intros k. rewrite !KN_in. tauto.
    + intros k. rewrite KB_in, in_app_iff, !KN_in. tauto.
  - intros k. rewrite !in_app_iff, KB_in, !KN_in. destruct (in_dec key_eq_dec k (dkeys d1)), (in_dec key_eq_dec k (dkeys d2)); tauto.
Qed.

(* ------------------------------------------------------------------ counts of create on typed blocks *)
Lemma counts_blocks A B C :
  Forall (fun r => rty r = BOTH) A -> Forall (fun r => rty r = FIRST_ONLY /\ rident r = 0%Q) B ->
  Forall (fun r => rty r = SECOND_ONLY /\ rident r = 0%Q) C ->
  let rs := A ++ B ++ C in
  filter overlapping rs = filter overlapping A /\ filter nonov rs = filter (fun r => negb (overlapping r)) A /\
  filter is_first rs = B /\ filter is_second rs = C.
Proof.
  intros HA HB HC. rewrite Forall_forall in HA, HB, HC. cbv zeta. rewrite !filter_app.
  assert (ovB : filter overlapping B = []) by (apply filter_false; intros r Hr; unfold overlapping; rewrite (proj2 (HB r Hr)); reflexivity).
  assert (ovC : filter overlapping C = []) by (apply filter_false; intros r Hr; unfold overlapping; rewrite (proj2 (HC r Hr)); reflexivity).
  split; [|split; [|split]].
  - rewrite ovB, ovC, !app_nil_r. reflexivity.
  - rewrite (filter_false nonov B), (filter_false nonov C), !app_nil_r.
    + apply filter_ext_in'. intros r Hr. unfold nonov, is_both. rewrite (HA r Hr). reflexivity.
    + intros r Hr. unfold nonov, is_both. rewrite (proj1 (HC r Hr)). reflexivity.
    + intros r Hr. unfold nonov, is_both. rewrite (proj1 (HB r Hr)). reflexivity.
  - rewrite (filter_false is_first A), (filter_false is_first C), (filter_true is_first B), app_nil_r; [reflexivity | | |].
    + intros r Hr. unfold is_first. rewrite (proj1 (HB r Hr)). reflexivity.
    + intros r Hr. unfold is_first. rewrite (proj1 (HC r Hr)). reflexivity.
    + intros r Hr. unfold is_first. rewrite (HA r Hr). reflexivity.
  - rewrite (filter_false is_second A), (filter_false is_second B), (filter_true is_second C); [reflexivity | | |].
    + intros r Hr. unfold is_second. rewrite (proj1 (HC r Hr)). reflexivity.
    + intros r Hr. unfold is_second. rewrite (proj1 (HB r Hr)). reflexivity.
    + intros r Hr. unfold is_second. rewrite (HA r Hr). reflexivity.
Qed.

Lemma rows_of_blocks d1 d2 :
  Forall (fun r => rty r = BOTH) (compared_rows d1 d2) /\
  Forall (fun r => rty r = FIRST_ONLY /\ rident r = 0%Q) (map row_first (not_matching d1 d2)) /\
  Forall (fun r => rty r = SECOND_ONLY /\ rident r = 0%Q) (map row_second (not_matching d2 d1)).
Proof.
  split; [|split].
  - rewrite compared_rows_map. apply Forall_forall. intros r Hr. apply in_map_iff in Hr. destruct Hr as [e [<- _]]. reflexivity.
  - apply Forall_forall. intros r Hr. apply in_map_iff in Hr. destruct Hr as [e [<- _]]. split; reflexivity.
  - apply Forall_forall. intros r Hr. apply in_map_iff in Hr. destruct Hr as [e [<- _]]. split; reflexivity.
Qed.

Lemma compare_counts als1 als2 :
  let d1 := to_dict als1 in let d2 := to_dict als2 in
  let c := compare combine ratio als1 als2 in
  rows c = rows_of d1 d2 /\
  (n_overlapping c + n_nonoverlapping c = length (KB d1 d2))%nat /\ n_first c = length (KN d1 d2) /\ n_second c = length (KN d2 d1).
Proof.
  cbv zeta. rewrite compare_eq, create_eq. cbn [rows n_overlapping n_nonoverlapping n_first n_second].
  pose proof (to_dict_wf als1) as W1. pose proof (to_dict_wf als2) as W2.
  destruct (rows_of_blocks (to_dict als1) (to_dict als2)) as (HA & HB & HC).
  destruct (counts_blocks _ _ _ HA HB HC) as (E1 & E2 & E3 & E4). fold (rows_of (to_dict als1) (to_dict als2)) in E1, E2, E3, E4.
  rewrite E1, E2, E3, E4. split; [reflexivity|]. split; [|split].
  - rewrite filter_length_split. rewrite compared_rows_k by assumption. apply map_length.
  - rewrite map_length, not_matching_k by assumption. apply map_length.
  - rewrite map_length, not_matching_k by assumption. apply map_length.
Qed.
End Rows.

(* C15/C01, part 13: the reference labels (query labels) listed by AlignerEngine.align are exactly the labels of the window (of the query), in order. *)
From Coq Require Import ZArith QArith List Bool Lia Sorting.Sorted Sorting.Permutation.
Import ListNotations.
Require Import Py Pairing Core PyProofs PairingProofs1 PairingProofs2 PairingProofs3 ConflictProofs DPProofs
  ResolverProofs1 ResolverProofs4 ResolverProofs8 ResolverProofs9 ResolverProofs12.
Open Scope Z_scope.

Lemma SS_unique {A} (T : A -> A -> Prop) : (forall a b, T a b -> T b a -> False) ->
  forall l1 l2, StronglySorted T l1 -> StronglySorted T l2 -> (forall x, In x l1 <-> In x l2) -> l1 = l2.
Proof.
  intros Hasym. induction l1 as [|x t1 IH]; intros l2 H1 H2 Hiff.
  - destruct l2 as [|y t2]; [reflexivity|]. exfalso. apply (proj2 (Hiff y)). left. reflexivity.
  - destruct l2 as [|y t2]; [exfalso; apply (proj1 (Hiff x)); left; reflexivity|].
    apply StronglySorted_inv in H1, H2. destruct H1 as (H1 & Hx), H2 as (H2 & Hy). rewrite Forall_forall in Hx, Hy.
    assert (Exy : x = y).
    { destruct (proj1 (Hiff x) (or_introl eq_refl)) as [E|Hin]; [symmetry; exact E|]. destruct (proj2 (Hiff y) (or_introl eq_refl)) as [E|Hin']; [exact E|].
      exfalso. apply (Hasym x y (Hx y Hin') (Hy x Hin)). }
    subst y. f_equal. apply IH; [exact H1 | exact H2|]. intros z. split; intros Hz.
    + destruct (proj1 (Hiff z) (or_intror Hz)) as [E|Hin]; [|exact Hin]. subst z. exfalso. apply (Hasym x x (Hx x Hz) (Hx x Hz)).
    + destruct (proj2 (Hiff z) (or_intror Hz)) as [E|Hin]; [|exact Hin]. subst z. exfalso. apply (Hasym x x (Hy x Hz) (Hy x Hz)).
Qed.

Definition RLa (O : list apos) : list label := flat_map (fun x => match rlab_ap x with Some r => [r] | None => [] end) O.
Definition QLa (O : list apos) : list label := flat_map (fun x => match qlab_ap x with Some q => [q] | None => [] end) O.

Lemma in_RLa O r : In r (RLa O) <-> exists x, In x O /\ rlab_ap x = Some r.
Proof. unfold RLa. rewrite in_flat_map. split; intros (x & Hx & H); exists x; (split; [exact Hx|]).
  - destruct (rlab_ap x); [destruct H as [->|[]]; reflexivity | destruct H].
  - rewrite H. left. reflexivity. Qed.
Lemma in_QLa O q : In q (QLa O) <-> exists x, In x O /\ qlab_ap x = Some q.
Proof. unfold QLa. rewrite in_flat_map. split; intros (x & Hx & H); exists x; (split; [exact Hx|]).
  - destruct (qlab_ap x); [destruct H as [->|[]]; reflexivity | destruct H].
  - rewrite H. left. reflexivity. Qed.

Lemma RLa_sorted dir O : StronglySorted (before_ap dir) O -> StronglySorted (fun r r' => site r < site r' /\ lpos r < lpos r') (RLa O).
Proof. induction 1 as [|x t Ht IH Hx]; [constructor|]. unfold RLa. cbn [flat_map]. fold (RLa t). destruct (rlab_ap x) as [r|] eqn:Er; [|exact IH].
  cbn [app]. constructor; [exact IH|]. rewrite Forall_forall in *. intros r' Hr'. apply in_RLa in Hr'. destruct Hr' as (y & Hy & Ey).
  destruct (Hx y Hy) as (Hr & _). destruct (Hr r r' Er Ey). lia. Qed.
Lemma QLa_sorted dir O : StronglySorted (before_ap dir) O -> StronglySorted (fun q q' => 0 < dir * (site q' - site q) /\ lpos q < lpos q') (QLa O).
Proof. induction 1 as [|x t Ht IH Hx]; [constructor|]. unfold QLa. cbn [flat_map]. fold (QLa t). destruct (qlab_ap x) as [q|] eqn:Eq; [|exact IH].
  cbn [app]. constructor; [exact IH|]. rewrite Forall_forall in *. intros q' Hq'. apply in_QLa in Hq'. destruct Hq' as (y & Hy & Ey).
  destruct (Hx y Hy) as (_ & Hq). destruct (Hq q q' Eq Ey). lia. Qed.

Section Complete.
Variables (d start dir it : Z) (R Q : list label).
Hypothesis Hd : 0 <= d.
Hypothesis HRs : StronglySorted (fun a b => site a < site b /\ lpos a < lpos b) R.
Hypothesis HQs : StronglySorted (fun a b => 0 < dir * (site b - site a) /\ lpos a < lpos b) Q.
Notation O := (sort_by abs_pos (ML d start it R Q)).

Lemma mem_site_true s l : mem_site s l = true -> In s l.
Proof. unfold mem_site. intros H. apply existsb_exists in H. destruct H as (z & Hz & E). apply Z.eqb_eq in E. subst z. exact Hz. Qed.

Theorem engine_ref_labels : RLa O = R.
Proof.
  apply (SS_unique (fun r r' => site r < site r' /\ lpos r < lpos r')); [intros a b (H1 & _) (H2 & _); lia | | exact HRs |].
  - apply (RLa_sorted dir). apply (engine_list_ordered d start dir it R Q Hd HRs HQs).
  - intros r. rewrite in_RLa. split.
    + intros (x & Hx & Ex). apply (Permutation_in _ (sort_by_perm abs_pos _)) in Hx. apply (in_ML d start it R Q) in Hx.
      destruct x as [r0 q0 s0 i0|r0|q0 s0]; cbn [rlab_ap inML] in *; try discriminate; injection Ex as <-.
      * destruct Hx as (c & Hc & -> & _). apply (P_facts d start dir R Q HQs c Hc).
      * apply Hx.
    + intros Hr. destruct (mem_site (site r) (rsL d start R Q)) eqn:Em.
      * apply mem_site_true in Em. unfold rsL in Em. apply in_map_iff in Em. destruct Em as (c & Ec & Hc).
        destruct (P_facts d start dir R Q HQs c Hc) as (_ & _ & Hcr & _).
        assert (E : cr c = r) by (apply (R_site_inj R (HRw R HRs) _ _ Hcr Hr Ec)).
        exists (Pair (cr c) (cq c) (cshift c) it). split; [|cbn; rewrite E; reflexivity].
        apply (Permutation_in _ (Permutation_sym (sort_by_perm abs_pos _))). unfold ML. apply in_or_app. left. unfold pairsL. apply in_map_iff. exists c. auto.
      * exists (URef r). split; [|reflexivity]. apply (Permutation_in _ (Permutation_sym (sort_by_perm abs_pos _))). unfold ML, unaL. apply in_or_app. right. apply in_or_app. left.
        apply in_map. apply filter_In. split; [exact Hr | rewrite Em; reflexivity].
Qed.

Theorem engine_qry_labels : QLa O = Q.
Proof.
  apply (SS_unique (fun q q' => 0 < dir * (site q' - site q) /\ lpos q < lpos q')); [intros a b (_ & H1) (_ & H2); lia | | exact HQs |].
  - apply (QLa_sorted dir). apply (engine_list_ordered d start dir it R Q Hd HRs HQs).
  - intros q. rewrite in_QLa. split.
    + intros (x & Hx & Ex). apply (Permutation_in _ (sort_by_perm abs_pos _)) in Hx. apply (in_ML d start it R Q) in Hx.
      destruct x as [r0 q0 s0 i0|r0|q0 s0]; cbn [qlab_ap inML] in *; try discriminate; injection Ex as <-.
      * destruct Hx as (c & Hc & _ & -> & _). apply (P_facts d start dir R Q HQs c Hc).
      * apply Hx.
    + intros Hq. destruct (mem_site (site q) (qsL d start R Q)) eqn:Em.
      * apply mem_site_true in Em. unfold qsL in Em. apply in_map_iff in Em. destruct Em as (c & Ec & Hc).
        destruct (P_facts d start dir R Q HQs c Hc) as (_ & _ & _ & Hcq & _).
        assert (E : cq c = q) by (apply (Q_site_inj dir Q (HQw dir Q HQs) _ _ Hcq Hq Ec)).
        exists (Pair (cr c) (cq c) (cshift c) it). split; [|cbn; rewrite E; reflexivity].
        apply (Permutation_in _ (Permutation_sym (sort_by_perm abs_pos _))). unfold ML. apply in_or_app. left. unfold pairsL. apply in_map_iff. exists c. auto.
      * exists (UQry q start). split; [|reflexivity]. apply (Permutation_in _ (Permutation_sym (sort_by_perm abs_pos _))). unfold ML, unaL. apply in_or_app. right. apply in_or_app. right.
        apply in_map_iff. exists q. split; [reflexivity|]. apply filter_In. split; [exact Hq | rewrite Em; reflexivity].
Qed.
End Complete.
Print Assumptions engine_ref_labels.

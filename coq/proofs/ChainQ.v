From Coq Require Import ZArith QArith List Bool Lia.
Import ListNotations.
Require Import Py Pairing Core DP DPProofs.
Open Scope Q_scope.

(* the score structure used by the executable chainer: Q with Qred-normalised addition *)
Definition qadd (a b : Q) : Q := Qred (a + b).
Lemma Qltb_true a b : Qltb a b = true -> a <= b.
Proof. unfold Qltb. destruct (Qcompare a b) eqn:E; try discriminate. intros _. apply Qlt_le_weak. apply Qlt_alt. exact E. Qed.
Lemma Qltb_false a b : Qltb a b = false -> b <= a.
Proof. unfold Qltb. destruct (Qcompare a b) eqn:E; try discriminate; intros _.
  - apply Qeq_alt in E. rewrite E. apply Qle_refl.
  - apply Qlt_le_weak. apply Qgt_alt. exact E. Qed.
Lemma qadd_mono a b c : a <= b -> qadd a c <= qadd b c.
Proof. intros H. unfold qadd. rewrite !Qred_correct. apply Qplus_le_compat; [exact H | apply Qle_refl]. Qed.

Section Inst.
Variable seg : Type.
Variables (score : seg -> Q) (js : seg -> seg -> option Q).
Definition chainQ := chain_nonempty Q seg Qltb qadd 0 score js.
Definition totalQ := total Q seg qadd 0 score js.
Theorem chainQ_optimal p : p <> [] ->
  exists tbest, totalQ (chainQ p) = Some tbest /\ Sub (chainQ p) p /\ chainQ p <> [] /\
                forall c t, Sub c p -> totalQ c = Some t -> t <= tbest.
Proof. apply (chain_optimal Q seg Qle Qltb qadd 0 score js Qle_refl Qle_trans Qltb_true Qltb_false qadd_mono). Qed.
End Inst.

(* ---- join score facts (segment_chainer.py:48-72) ---- *)
Open Scope Z_scope.
Lemma calc_score_nonneg ss rd qd : (0 <= calc_score ss rd qd)%Q.
Proof. unfold calc_score. cbv zeta. destruct (ss =? 0); apply Qle_shift_div_l.
  - unfold Qlt, inject_Z, Qnum, Qden, K. lia.
  - rewrite Qmult_0_l. unfold Qle, inject_Z, Qnum, Qden. nia.
  - unfold Qlt, inject_Z, Qnum, Qden, K. lia.
  - rewrite Qmult_0_l. unfold Qle, inject_Z, Qnum, Qden. nia. Qed.
Lemma calc_score_zero ss : (calc_score ss 0 0 == 0)%Q.
Proof. unfold calc_score. destruct (ss =? 0); reflexivity. Qed.

Lemma join_score_value P a b x : join_score P a b = Ok (Some x) -> exists rd qd, x = Qred (- SJ P * calc_score (SS P) rd qd)%Q.
Proof.
  unfold join_score.
  destruct (start_position a) as [ps|]; [|discriminate]. destruct (end_position a) as [pe|]; [|discriminate].
  destruct (start_position b) as [cs|]; [|discriminate]. destruct (end_position b) as [ce|]; [|discriminate]. unfold bind.
  match goal with |- (if ?c then _ else _) = _ -> _ => destruct c end; [discriminate|]. intros H.
  eexists. eexists. symmetry. injection H. intros E. exact E.
Qed.

Theorem join_score_nonpos P a b x : (0 <= SJ P)%Q -> join_score P a b = Ok (Some x) -> (x <= 0)%Q.
Proof.
  intros HSJ H. destruct (join_score_value P a b x H) as (rd & qd & ->). rewrite Qred_correct.
  pose proof (calc_score_nonneg (SS P) rd qd) as Hv.
  setoid_replace (- SJ P * calc_score (SS P) rd qd)%Q with (- (SJ P * calc_score (SS P) rd qd))%Q by ring.
  rewrite <- (Qopp_involutive 0). apply Qopp_le_compat. change (- 0)%Q with 0%Q. apply Qmult_le_0_compat; assumption.
Qed.
Print Assumptions chainQ_optimal.
Print Assumptions join_score_nonpos.

From Coq Require Import ZArith QArith List Bool Lia.
Import ListNotations.
Require Import Indels.
Open Scope Z_scope.

(* refutation on the unchanged code: calls are lost *)
Definition w := [mkCall 1 1 1000 50000 7 10 20 3000; mkCall 1 2 2000 60000 8 10 20 3000; mkCall 1 2 2500 61000 9 10 20 3000].
Theorem conserve_refuted : exists l, fold_right Z.add 0 (map lcount (cluster_indels false 30000 l)) <> Z.of_nat (length l).
Proof. exists w. vm_compute. discriminate. Qed.

(* a cluster summarises a non-empty list of member calls *)
Definition summarises (k : cluster) (ms : list call) : Prop :=
  ms <> [] /\ lcount k = Z.of_nat (length ms) /\ lids k = map cq ms /\
  (forall m, In m ms -> ctyp m = ltyp k /\ cchr m = lchr k /\ lrs k <= crs m /\ cre m <= lre k).

Lemma summarises_new c : summarises (new_cluster c) [c].
Proof. split; [discriminate|]. split; [reflexivity|]. split; [reflexivity|]. intros m [<-|[]]. cbn. lia. Qed.
Lemma summarises_merge k ms c : summarises k ms -> same_kind k c = true -> summarises (merge k c) (ms ++ [c]).
Proof. intros (Hne & Hc & Hi & Hm) Hk. unfold same_kind in Hk. apply andb_true_iff in Hk. destruct Hk as (H1 & H2). apply Z.eqb_eq in H1, H2.
  split; [destruct ms; discriminate|]. split; [cbn; rewrite app_length, Hc; cbn; lia|]. split; [cbn; rewrite map_app, Hi; reflexivity|].
  intros m Hin. apply in_app_or in Hin. cbn. destruct Hin as [Hin|[<-|[]]]; [destruct (Hm m Hin) as (A & B & C & D); lia | lia]. Qed.

(* invariant: done ++ [last] summarises a split of the processed calls into consecutive groups *)
Definition Inv (st : list cluster * cluster) (processed : list call) : Prop :=
  exists groups, concat groups = processed /\ Forall2 summarises (fst st ++ [snd st]) groups.

Lemma Forall2_snoc {A B} (R : A -> B -> Prop) l l' x y : Forall2 R l l' -> R x y -> Forall2 R (l ++ [x]) (l' ++ [y]).
Proof. intros H Hxy. induction H; cbn; [constructor; [exact Hxy | constructor] | constructor; assumption]. Qed.
Lemma Forall2_snoc_inv {A B} (R : A -> B -> Prop) l x gs : Forall2 R (l ++ [x]) gs -> exists gs' g, gs = gs' ++ [g] /\ Forall2 R l gs' /\ R x g.
Proof. revert gs; induction l as [|a l IH]; intros gs H; cbn in H.
  - inversion H as [|? ? ? ? Hx Hn]; subst. inversion Hn; subst. exists [], y. repeat split; [constructor | exact Hx].
  - inversion H as [|? ? ? ? Ha Ht]; subst. destruct (IH _ Ht) as (gs' & g & -> & H1 & H2). exists (y :: gs'), g. repeat split; [constructor; assumption | exact H2]. Qed.

Lemma inv_step blur st p c : Inv st p -> Inv (step true blur st c) (p ++ [c]).
Proof.
  destruct st as [done last]. intros (groups & Hc & Hf). cbn [fst snd] in Hf.
  destruct (Forall2_snoc_inv _ _ _ _ Hf) as (gs' & g & -> & Hd & Hl).
  unfold step. destruct (Z.abs (cre c - lre last) <=? blur); [destruct (same_kind last c) eqn:Ek|].
  - exists (gs' ++ [g ++ [c]]). cbn [fst snd]. split.
    + rewrite <- Hc, !concat_app. cbn. rewrite !app_nil_r, app_assoc. reflexivity.
    + apply Forall2_snoc; [exact Hd | apply summarises_merge; assumption].
  - exists ((gs' ++ [g]) ++ [[c]]). cbn [fst snd]. split.
    + rewrite concat_app, Hc. reflexivity.
    + apply Forall2_snoc; [apply Forall2_snoc; assumption | apply summarises_new].
  - exists ((gs' ++ [g]) ++ [[c]]). cbn [fst snd]. split.
    + rewrite concat_app, Hc. reflexivity.
    + apply Forall2_snoc; [apply Forall2_snoc; assumption | apply summarises_new].
Qed.

Lemma inv_fold blur t : forall st p, Inv st p -> Inv (fold_left (step true blur) t st) (p ++ t).
Proof. induction t as [|c t IH]; intros st p H; cbn; [rewrite app_nil_r; exact H|].
  replace (p ++ c :: t) with ((p ++ [c]) ++ t) by (rewrite <- app_assoc; reflexivity). apply IH. apply inv_step. exact H. Qed.

(* C20 after the repair: the clusters summarise a partition of the calls into consecutive groups *)
Theorem cluster_conserves blur l : exists groups, concat groups = l /\ Forall2 summarises (cluster_indels true blur l) groups.
Proof.
  destruct l as [|c t]; [exists []; split; [reflexivity | constructor]|]. unfold cluster_indels.
  assert (H0 : Inv ([], new_cluster c) [c]) by (exists [[c]]; split; [reflexivity | cbn; constructor; [apply summarises_new | constructor]]).
  pose proof (inv_fold blur t _ _ H0) as H. destruct (fold_left (step true blur) t ([], new_cluster c)) as [done last]. exact H.
Qed.

Corollary count_conserved blur l : fold_right Z.add 0 (map lcount (cluster_indels true blur l)) = Z.of_nat (length l).
Proof.
  destruct (cluster_conserves blur l) as (groups & <- & Hf). induction Hf as [|k g ks gs (Hne & Hc & _) Hf IH]; [reflexivity|].
  cbn. rewrite app_length, Nat2Z.inj_add, IH, Hc. reflexivity. Qed.
Corollary ids_conserved blur l : concat (map lids (cluster_indels true blur l)) = map cq l.
Proof.
  destruct (cluster_conserves blur l) as (groups & <- & Hf). induction Hf as [|k g ks gs (Hne & _ & Hi & _) Hf IH]; [reflexivity|].
  cbn. rewrite map_app, IH, Hi. reflexivity. Qed.
Print Assumptions cluster_conserves.

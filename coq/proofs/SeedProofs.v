(* selectPeaks / createPeaks: instances of PeaksProofs for the peak record *)
From Coq Require Import ZArith List Bool Lia Sorting.Permutation Sorting.Sorted.
Import ListNotations.
Require Import Py Vec Peaks PyProofs PeaksProofs VecCovers.
Open Scope Z_scope.

Definition score_is (c : Z) (p : peak) : bool := pscore p =? c.

Theorem select_top_n count ls :
  let L := concat ls in let T := select_peaks count ls in
  exists rest, Permutation L (T ++ rest) /\ length T = Nat.min count (length L) /\
    StronglySorted (fun a b => pscore b <= pscore a) T /\
    (forall x y, In x rest -> In y T -> pscore x <= pscore y) /\
    forall c, filter (score_is c) T ++ filter (score_is c) rest = filter (score_is c) L.
Proof.
  cbn zeta. exists (skipn count (by_score_desc (concat ls))).
  destruct (top_spec pscore count (concat ls)) as (H1 & H2 & H3 & H4).
  split; [exact H1|]. split; [exact H2|]. split; [exact (top_desc pscore count (concat ls))|].
  split; [exact (top_above_rest pscore count (concat ls)) | exact H4].
Qed.

Lemma select_peaks_z_nonneg count ls : 0 <= count -> select_peaks_z count ls = select_peaks (Z.to_nat count) ls.
Proof. intros H. unfold select_peaks_z, slice0, select_peaks. destruct (count <? 0) eqn:E; [apply Z.ltb_lt in E; lia | reflexivity]. Qed.

(* what np.argpartition(-heights, n)[:n] guarantees, on peaks: l' = some arrangement of min(n, |l|) entries of l, none lower than an entry left out *)
Definition cut_ok (n : nat) (l l' : list peak) : Prop :=
  exists rest, Permutation l (l' ++ rest) /\ length l' = Nat.min n (length l) /\ forall x y, In x rest -> In y l' -> pheight x <= pheight y.
(* createPeaks: score = height - noiseLevel with one noiseLevel per correlation *)
Definition one_noise (l : list peak) : Prop := exists noise, forall p, In p l -> pscore p = pheight p - noise.

Lemma cut_ok_rel n l l' : one_noise l -> cut_ok n l l' -> cut_rel pscore n l l'.
Proof. intros (noise & Hn) (rest & P & Hlen & Hle). exists rest. split; [exact P|]. split; [exact Hlen|].
  intros x y Hx Hy.
  assert (Ix : In x l) by (apply (Permutation_in _ (Permutation_sym P)), in_or_app; right; exact Hx).
  assert (Iy : In y l) by (apply (Permutation_in _ (Permutation_sym P)), in_or_app; left; exact Hy).
  rewrite (Hn x Ix), (Hn y Iy). specialize (Hle x y Hx Hy). lia. Qed.

Theorem select_cut_harmless (cut : nat -> list peak -> list peak) count n ls : (count <= n)%nat ->
  (forall l, In l ls -> one_noise l) -> (forall l, In l ls -> cut_ok n l (cut n l)) ->
  map pscore (select_peaks count (map (cut n) ls)) = map pscore (select_peaks count ls).
Proof. intros Hn H1 H2. apply (cut_harmless pscore count n ls (map (cut n) ls) Hn).
  induction ls as [|l ls IH]; cbn [map]; constructor.
  - apply cut_ok_rel; [apply H1 | apply H2]; left; reflexivity.
  - apply IH; intros l' Hl'; [apply H1 | apply H2]; right; exact Hl'. Qed.

Corollary select_cut_harmless_perm (cut : nat -> list peak -> list peak) count n ls : (count <= n)%nat ->
  (forall l, In l ls -> one_noise l) -> (forall l, In l ls -> cut_ok n l (cut n l)) ->
  Permutation (map pscore (select_peaks count (map (cut n) ls))) (map pscore (select_peaks count ls)).
Proof. intros H1 H2 H3. rewrite (select_cut_harmless cut count n ls H1 H2 H3). reflexivity. Qed.

(* the same for createPeaks, where the cut acts on (bin, height) before the Peak objects are built *)
Definition raw_cut_ok (cut : nat -> list (Z * Z) -> list (Z * Z)) : Prop :=
  forall n l, (n < length l)%nat ->
  exists rest, Permutation l (cut n l ++ rest) /\ length (cut n l) = n /\ forall x y, In x rest -> In y (cut n l) -> snd x <= snd y.

Theorem create_cut_harmless cut res start count (cs : list (Z * list (Z * Z))) : raw_cut_ok cut ->
  map pscore (select_peaks count (map (fun c => create_peaks cut res start (fst c) count (snd c)) cs)) =
  map pscore (select_peaks count (map (fun c => map (mk_peak res start (fst c)) (snd c)) cs)).
Proof. intros Hc. apply (cut_harmless pscore count count _ _ (le_n count)).
  induction cs as [|[noise found] cs IH]; cbn [map fst snd]; constructor; [|exact IH].
  unfold create_peaks. destruct (count <? length found)%nat eqn:E.
  - apply Nat.ltb_lt in E. destruct (Hc count found E) as (rest & P & Hlen & Hle).
    exists (map (mk_peak res start noise) rest). split; [rewrite <- map_app; apply Permutation_map, P|].
    split; [rewrite !map_length; lia|]. intros x y Hx Hy. apply in_map_iff in Hx, Hy.
    destruct Hx as (x' & <- & Hx), Hy as (y' & <- & Hy). unfold mk_peak; cbn [pscore]. specialize (Hle x' y' Hx Hy). lia.
  - apply Nat.ltb_ge in E. exists []. split; [rewrite app_nil_r; reflexivity|]. split; [rewrite map_length; lia | intros x y []].
Qed.

(* when list(vectorisePositions(...)) raises *)
Lemma vectorise_py_ok ps res start stop : 1 <= res -> (ps <> [] \/ exists e, stop = Some e /\ e <> 0) ->
  vectorise_py ps res start stop = Ok (vectorise ps res start stop).
Proof. intros Hres H. unfold vectorise_py. destruct (res <? 1) eqn:E; [apply Z.ltb_lt in E; lia|].
  destruct ps as [|p t]; [|reflexivity]. destruct H as [H|(e & -> & He)]; [congruence|]. apply Z.eqb_neq in He. rewrite He. reflexivity. Qed.

(* a label between start and end is found back, from its bin index, to within half a resolution *)
Require Import VecProofs Centre.
Theorem label_located ps res start stop : 1 <= res -> StronglySorted Z.le ps ->
  let v := vectorise ps res start stop in
  forall p, In p ps -> start <= p <= eff_stop ps stop ->
  exists i, (i < length v)%nat /\ nth i v 0 = 1 /\ 2 * Z.abs (bin_to_bp (Z.of_nat i) res start - p) <= res.
Proof. intros Hres Hs v p Hp Hb. destruct (vectorise_covers ps res start stop Hres Hs p Hp Hb) as (i & Hi & Hin & H1).
  exists i. split; [exact Hi|]. split; [exact H1|]. apply (bin_centre (Z.of_nat i) res start p Hres Hin). Qed.

(* the hypothesis on the cut is satisfiable: keeping the n highest by a stable sort is one admissible argpartition *)
Definition cut_sorted (n : nat) (l : list (Z * Z)) : list (Z * Z) := top snd n l.
Lemma raw_cut_sorted_ok : raw_cut_ok cut_sorted.
Proof. intros n l Hn. exists (skipn n (sort_by (nkey snd) l)). destruct (top_spec snd n l) as (H1 & H2 & _).
  split; [exact H1|]. split; [unfold cut_sorted; rewrite H2; lia|]. exact (top_above_rest snd n l). Qed.

(* C01: every row Aligner.align builds is a one-to-one collinear matching of real labels. *)
From Coq Require Import ZArith QArith List Bool Lia Sorting.Sorted Sorting.Permutation.
Import ListNotations.
Require Import Py Pairing Core Cigar Multi PyProofs PairingProofs3 ConflictProofs DPProofs
  ResolverProofs1 ResolverProofs2 ResolverProofs3 ResolverProofs4 ResolverProofs5 ResolverProofs6 ResolverProofs7 ResolverProofs8 ResolverProofs9
  ResolverProofs10 ResolverProofs14 RowProofs.
Open Scope Z_scope.

Lemma number_up_site x j l : In x (number_up j l) -> j <= site x < j + Z.of_nat (length l).
Proof. revert j; induction l as [|q l IH]; intros j Hin; [destruct Hin|]. cbn [number_up] in Hin. destruct Hin as [<-|Hin]; cbn [site length]; [lia|].
  specialize (IH (j + 1) Hin). lia. Qed.
Lemma number_down_site x j e l : In x (number_down j e l) -> j - Z.of_nat (length l) < site x <= j.
Proof. revert j; induction l as [|q l IH]; intros j Hin; [destruct Hin|]. cbn [number_down] in Hin. destruct Hin as [<-|Hin]; cbn [site length]; [lia|].
  specialize (IH (j - 1) Hin). lia. Qed.

Lemma ref_label_site reference r : In r (ref_labels reference) -> 1 + mshift reference <= site r <= mshift reference + Z.of_nat (length (mpositions reference)).
Proof. unfold ref_labels, positions_with_ids. intros H. apply number_up_site in H. lia. Qed.
Lemma qry_label_site query reverse q : In q (qry_labels query reverse) -> 1 + mshift query <= site q <= mshift query + Z.of_nat (length (mpositions query)).
Proof. unfold qry_labels, positions_with_ids. destruct reverse; intros H; [apply number_down_site in H; rewrite rev_length in H | apply number_up_site in H]; lia. Qed.

Lemma Forall2_in_r {A B} (R : A -> B -> Prop) l1 l2 y : Forall2 R l1 l2 -> In y l2 -> exists x, In x l1 /\ R x y.
Proof. induction 1 as [|a b l1 l2 Hab H IH]; intros Hy; [destruct Hy|]. destruct Hy as [<-|Hy]; [exists a; split; [left; reflexivity | exact Hab]|].
  destruct (IH Hy) as (x & Hx & Hr). exists x. split; [right; exact Hx | exact Hr]. Qed.

(* every position of the result is a position of one of the input segments *)
Lemma out_positions_from_inputs P it reference query peaks reverse out : engine_ok P reference query ->
  aligner_align P it reference query peaks reverse = Ok out ->
  forall s, In s out -> exists c, In c (segs_for_peaks P it reference query peaks reverse) /\ Sub (positions s) (positions c).
Proof.
  intros Hok H s Hs. destruct (aligner_align_subrun P it reference query peaks reverse out Hok H) as [(_ & ->)|(pre & sel & _ & _ & _ & _ & Hch & Hf)].
  - exists s. split; [exact Hs | apply Sub_refl].
  - destruct (Forall2_in_r _ _ _ s Hf Hs) as (c & Hc & Hsr). exists c. split; [apply (chain_in P _ _ Hch c Hc) | apply (subrun_Sub c s Hsr)].
Qed.

(* C01_all_rows_valid *)
Theorem aligner_row_valid P it reference query peaks reverse out : engine_ok P reference query -> qry_in_range query ->
  mshift reference = 0 -> mshift query = 0 ->
  aligner_align P it reference query peaks reverse = Ok out -> row_pairs out <> [] ->
  valid_rowb (Z.of_nat (length (mpositions reference))) (Z.of_nat (length (mpositions query))) reverse (row_sites (row_pairs out)) = true.
Proof.
  intros Hok Hrange Hsr Hsq H Hne. pose proof Hok as (Hd & Hms & Hsu & HR & HQ).
  apply (C01_from_disjoint _ _ reverse out); [apply (aligner_align_disjoint P it reference query peaks reverse out Hok Hrange H) | | exact Hne].
  intros p Hp. unfold row_pairs in Hp. apply in_flat_map in Hp. destruct Hp as (s & Hs & Hp). unfold aligned in Hp. apply filter_In in Hp. destruct Hp as (Hp & Hpp).
  destruct (out_positions_from_inputs P it reference query peaks reverse out Hok H s Hs) as (c & Hc & Hsub).
  destruct (segs_for_peaks_wf P reference query reverse Hd Hms Hsu HR HQ peaks it c Hc) as (_ & Hlab & _).
  destruct (Hlab p (Sub_in _ _ _ Hsub Hp)) as (Lr & Lq). unfold is_pair in Hpp. unfold rsite_of, qsite_of, pv_of, rlab, qlab in *. destruct (ap p); try discriminate. cbn [pr pq].
  pose proof (ref_label_site reference _ (Lr _ eq_refl)). pose proof (qry_label_site query reverse _ (Lq _ eq_refl)). lia.
Qed.
Print Assumptions aligner_row_valid.

(* non-vacuity: the reverse-strand example of props/C15.v (three peaks, two members trimmed, one emptied) gives a valid row of 3 pairs *)
Example aligner_row_valid_example :
  let P := mkP 200 2 (-20) 100 60 10 0 0 in
  let R := mkMap 1 0 [0; 10; 40; 60; 70; 80] 0 in let Q := mkMap 7 130 [0; 30; 60; 70; 80; 110; 120] 0 in
  match aligner_align P 1 R Q [-10; 40; 50] true with
  | Ok out => valid_rowb 6 7 true (row_sites (row_pairs out)) = true /\ length (row_pairs out) = 3%nat
  | Err => False
  end.
Proof. vm_compute. split; reflexivity. Qed.

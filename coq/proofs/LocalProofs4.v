(* C10, part 4: a run decomposes into independent per-query runs.
   ex  : execute with `source` erased and the counter dropped; it does not depend on the counter and is the concatenation
         of the single-query results (ex_spec)
   qrun: the two passes for ONE query (first pass, its unaligned fragments, second pass on them)
   erun: Program.run with `source` erased = post applied to the concatenated per-query pass results (erun_decomp)
   and from there: per-query locality, completeness of errors, independence of the query order, sub-runs. *)
From Coq Require Import ZArith QArith List Bool Lia Sorting.Permutation.
Import ListNotations.
Require Import Py Pairing Core Multi Coordinator PyProofs SrcErase LocalProofs1 LocalProofs2 LocalProofs3 FreshProofs.
Require ModesProofs4.
Open Scope Z_scope.

Definition isok {A} (x : res A) : bool := match x with Ok _ => true | Err => false end.
Lemma rmap_eq_inv {A B C} (f : A -> C) (g : B -> C) x y : rmap f x = rmap g y ->
  (x = Err /\ y = Err) \/ (exists a b, x = Ok a /\ y = Ok b /\ f a = g b).
Proof. destruct x as [a|], y as [b|]; cbn; intros H; try discriminate; [right|left; auto].
  exists a, b. injection H as H. auto. Qed.

(* ---------- concatenating maps over res ---------- *)
Fixpoint cmapM {A B} (f : A -> res (list B)) (l : list A) : res (list B) :=
  match l with [] => Ok [] | x :: t => do a <- f x; do b <- cmapM f t; Ok (a ++ b) end.
Fixpoint pmapM {A B C} (f : A -> res (list B * list C)) (l : list A) : res (list B * list C) :=
  match l with [] => Ok ([], []) | x :: t => do a <- f x; do b <- pmapM f t; Ok (fst a ++ fst b, snd a ++ snd b) end.
Definition getl {A B} (f : A -> res (list B)) (x : A) : list B := match f x with Ok r => r | Err => [] end.
Definition getp {A B C} (f : A -> res (list B * list C)) (x : A) : list B * list C := match f x with Ok r => r | Err => ([], []) end.

Lemma cmapM_app {A B} (f : A -> res (list B)) a b : cmapM f (a ++ b) = do x <- cmapM f a; do y <- cmapM f b; Ok (x ++ y).
Proof. induction a as [|h t IH]; cbn [app cmapM bind].
  - destruct (cmapM f b); reflexivity.
  - destruct (f h) as [r|]; cbn [bind]; [|reflexivity]. rewrite IH. destruct (cmapM f t); cbn [bind]; [|reflexivity].
    destruct (cmapM f b); cbn [bind]; [|reflexivity]. rewrite app_assoc. reflexivity. Qed.
Lemma cmapM_spec {A B} (f : A -> res (list B)) l : cmapM f l = if forallb (fun x => isok (f x)) l then Ok (flat_map (getl f) l) else Err.
Proof. induction l as [|x t IH]; [reflexivity|]. cbn [cmapM forallb flat_map]. unfold getl at 1. rewrite IH.
  destruct (f x); cbn [bind isok andb]; [|reflexivity]. destruct (forallb _ t); reflexivity. Qed.
Lemma pmapM_spec {A B C} (f : A -> res (list B * list C)) l :
  pmapM f l = if forallb (fun x => isok (f x)) l then Ok (flat_map (fun x => fst (getp f x)) l, flat_map (fun x => snd (getp f x)) l) else Err.
Proof. induction l as [|x t IH]; [reflexivity|]. cbn [pmapM forallb flat_map]. unfold getp at 1 3. rewrite IH.
  destruct (f x); cbn [bind isok andb]; [|reflexivity]. destruct (forallb _ t); reflexivity. Qed.
Lemma forallb_perm {A} (p : A -> bool) l l' : Permutation l l' -> forallb p l = forallb p l'.
Proof. intros P. destruct (forallb p l) eqn:E.
  - symmetry. rewrite forallb_forall in *. intros x Hx. apply E, (Permutation_in _ (Permutation_sym P)), Hx.
  - destruct (forallb p l') eqn:E'; [|reflexivity]. rewrite forallb_forall in E'.
    assert (X : forallb p l = true) by (apply forallb_forall; intros x Hx; apply E', (Permutation_in _ P), Hx). congruence. Qed.

(* ---------- execute up to `source` ---------- *)
Section Run.
Variable P : params.
Variable seeds : seeding.
Variable refs : list omap.

Definition ex (ql : list omap) (it : Z) : res (list row) := rmap (fun r => map er_row (fst r)) (execute P seeds refs ql it).
Definition ex1 (q : omap) : res (list row) := ex [q] 1.

Lemma cand_it q sds : forall it it',
  rmap (fun r => map er_row (fst r)) (candidate_rows P q sds it) = rmap (fun r => map er_row (fst r)) (candidate_rows P q sds it').
Proof. induction sds as [|sd t IH]; intros it it'; [reflexivity|]. cbn [candidate_rows].
  destruct (rmap_eq_inv _ _ _ _ (aligner_align_it P it it' (sd_ref sd) q (sd_peaks sd) (sd_rev sd))) as [(E1 & E2)|(s1 & s2 & E1 & E2 & E)];
    rewrite E1, E2; cbn [bind rmap]; [reflexivity|].
  destruct (rmap_eq_inv _ _ _ _ (IH (it + Z.of_nat (length (sd_peaks sd))) (it' + Z.of_nat (length (sd_peaks sd))))) as [(F1 & F2)|(r1 & r2 & F1 & F2 & F)];
    rewrite F1, F2; cbn [bind rmap fst map]; [reflexivity|].
  rewrite <- !er_row_create, E, F. reflexivity. Qed.

Definition aq (q : omap) (it : Z) : res (option row) := rmap (fun r => option_map er_row (fst r)) (align_query P seeds refs q it).
Lemma aq_it q it it' : aq q it = aq q it'.
Proof. unfold aq, align_query. destruct (seeds refs q) as [|sd sds]; [reflexivity|].
  destruct (rmap_eq_inv _ _ _ _ (cand_it q (sd :: sds) it it')) as [(E1 & E2)|(r1 & r2 & E1 & E2 & E)]; rewrite E1, E2; cbn [bind rmap fst]; [reflexivity|].
  rewrite <- !er_best_alignment, E. reflexivity. Qed.

Definition keep (o : option row) : list row := match o with Some w => if row_has_pairs w then [w] else [] | None => [] end.
Lemma keep_er o : keep (option_map er_row o) = map er_row (keep o).
Proof. destruct o as [w|]; [|reflexivity]. cbn [option_map keep]. rewrite er_row_has_pairs. destruct (row_has_pairs w); reflexivity. Qed.
Lemma execute_cons q t it : execute P seeds refs (q :: t) it =
  do r <- align_query P seeds refs q it; do rest <- execute P seeds refs t (snd r); Ok (keep (fst r) ++ fst rest, snd rest).
Proof. cbn [execute]. destruct (align_query P seeds refs q it) as [[o it1]|]; cbn [bind fst snd]; [|reflexivity].
  destruct (execute P seeds refs t it1) as [rest|]; cbn [bind]; [|reflexivity].
  destruct o as [w|]; cbn [keep]; [destruct (row_has_pairs w)|]; reflexivity. Qed.

Lemma ex_it ql : forall it it', ex ql it = ex ql it'.
Proof. unfold ex. induction ql as [|q t IH]; intros it it'; [reflexivity|]. rewrite !execute_cons.
  pose proof (aq_it q it it') as H. unfold aq in H.
  destruct (rmap_eq_inv _ _ _ _ H) as [(E1 & E2)|(r1 & r2 & E1 & E2 & E)]; rewrite E1, E2; cbn [bind rmap]; [reflexivity|].
  destruct (rmap_eq_inv _ _ _ _ (IH (snd r1) (snd r2))) as [(F1 & F2)|(x1 & x2 & F1 & F2 & F)]; rewrite F1, F2; cbn [bind rmap fst]; [reflexivity|].
  rewrite !map_app, <- !keep_er, E, F. reflexivity. Qed.
Lemma ex_cons q t it : ex (q :: t) it = do a <- ex [q] it; do b <- ex t it; Ok (a ++ b).
Proof. unfold ex. rewrite !execute_cons. destruct (align_query P seeds refs q it) as [[o it1]|]; cbn [bind rmap fst snd execute]; [|reflexivity].
  pose proof (ex_it t it it1) as H. unfold ex in H. rewrite H.
  destruct (execute P seeds refs t it1) as [rest|]; cbn [bind rmap fst]; [|reflexivity]. rewrite app_nil_r, map_app. reflexivity. Qed.
(* the rows of execute are the concatenation over the queries of the single-query results *)
Theorem ex_spec ql it : ex ql it = cmapM ex1 ql.
Proof. induction ql as [|q t IH]; [reflexivity|]. rewrite ex_cons, IH. cbn [cmapM]. unfold ex1. rewrite (ex_it [q] it 1). reflexivity. Qed.

(* another query order: the same rows in another order (and the same failure) *)
Theorem ex_perm ql ql' it it' : Permutation ql ql' ->
  match ex ql it, ex ql' it' with
  | Ok rows, Ok rows' => Permutation rows rows'
  | Err, Err => True
  | _, _ => False
  end.
Proof. intros Pm. rewrite !ex_spec, !cmapM_spec, (forallb_perm _ _ _ Pm). destruct (forallb _ ql'); [|exact I].
  apply Permutation_flat_map, Pm. Qed.

(* ---------- query ids of rows and fragments ---------- *)
Lemma cand_qid q sds : forall it r, candidate_rows P q sds it = Ok r -> forall w, In w (fst r) -> qid w = mid q.
Proof. induction sds as [|sd t IH]; intros it r E w Hw.
  - cbn in E. injection E as <-. destruct Hw.
  - cbn [candidate_rows] in E. destruct (aligner_align _ _ _ _ _ _); cbn [bind] in E; [|discriminate].
    destruct (candidate_rows P q t _) as [r'|] eqn:Er; cbn [bind] in E; [|discriminate]. injection E as <-. cbn [fst] in Hw.
    destruct Hw as [<-|Hw]; [reflexivity | eapply IH; eassumption]. Qed.
Lemma aq_qid q it w it1 : align_query P seeds refs q it = Ok (Some w, it1) -> qid w = mid q.
Proof. unfold align_query. destruct (seeds refs q) as [|sd sds]; [discriminate|].
  destruct (candidate_rows P q (sd :: sds) it) as [r|] eqn:E; cbn [bind]; [|discriminate]. intros X. injection X as X _.
  unfold best_alignment in X. destruct (sort_by _ (fst r)) as [|y u] eqn:S; [discriminate|]. injection X as ->.
  apply (cand_qid _ _ _ _ E). apply (sort_by_in (fun w => - conf w)). rewrite S. left. reflexivity. Qed.
Lemma ex1_qid q rows : ex1 q = Ok rows -> all_key qid (mid q) rows.
Proof. unfold ex1, ex. rewrite execute_cons. destruct (align_query P seeds refs q 1) as [[o it1]|] eqn:E; cbn [bind rmap execute fst snd]; [|discriminate].
  intros X. injection X as <-. rewrite app_nil_r. intros w Hw. apply in_map_iff in Hw. destruct Hw as (w0 & <- & Hw0).
  destruct o as [w1|]; [|destruct Hw0]. cbn [keep] in Hw0. destruct (row_has_pairs w1); [|destruct Hw0]. destruct Hw0 as [<-|[]].
  apply (aq_qid _ _ _ _ E). Qed.
Lemma cmapM_ex1_qid c fr rows : (forall f, In f fr -> mid f = c) -> cmapM ex1 fr = Ok rows -> all_key qid c rows.
Proof. revert rows. induction fr as [|f t IH]; intros rows H E.
  - injection E as <-. intros w [].
  - cbn [cmapM] in E. destruct (ex1 f) as [a|] eqn:Ea; cbn [bind] in E; [|discriminate].
    destruct (cmapM ex1 t) as [b|] eqn:Eb; cbn [bind] in E; [|discriminate]. injection E as <-.
    intros w Hw. apply in_app_or in Hw. destruct Hw as [Hw|Hw].
    + rewrite <- (H f (or_introl eq_refl)). apply (ex1_qid _ _ Ea w Hw).
    + apply (IH b (fun f' Hf => H f' (or_intror Hf)) eq_refl w Hw). Qed.

Lemma frag_mid w qpos fr : unaligned_fragments w qpos = Ok fr -> forall f, In f fr -> mid f = qid w.
Proof. unfold unaligned_fragments. destruct (_ <? _); [intros E; injection E as <-; intros f []|].
  destruct (_ || _).
  - destruct (negb (rrev w)).
    + destruct (index_of _ _ _); cbn [bind]; [|discriminate]. destruct (qe w =? 0); intros E; injection E as <-; intros f Hf; [destruct Hf|].
      destruct Hf as [<-|[]]; reflexivity.
    + intros E; injection E as <-; intros f [<-|[]]; reflexivity.
  - destruct (negb (rrev w)).
    + destruct (index_of (Multi.qs w) _ _); cbn [bind]; [|discriminate]. destruct (index_of (qe w) _ _); cbn [bind fst snd]; [|discriminate].
      destruct (_ && _); [|destruct (7 <=? _); [|destruct (7 <=? _)]]; intros E; injection E as <-; intros f Hf; cbn [In] in Hf;
        repeat (destruct Hf as [<-|Hf]; [reflexivity|]); destruct Hf.
    + cbn [bind fst snd].
      destruct (_ && _); [|destruct (7 <=? _); [|destruct (7 <=? _)]]; intros E; injection E as <-; intros f Hf; cbn [In] in Hf;
        repeat (destruct Hf as [<-|Hf]; [reflexivity|]); destruct Hf.
Qed.

Lemma all_fragments_app a b Q : all_fragments (a ++ b) Q = do x <- all_fragments a Q; do y <- all_fragments b Q; Ok (x ++ y).
Proof. induction a as [|w t IH]; cbn [app all_fragments bind].
  - destruct (all_fragments b Q); reflexivity.
  - destruct (if _ <? _ then _ else _) as [fr|]; cbn [bind]; [|reflexivity]. rewrite IH.
    destruct (all_fragments t Q); cbn [bind]; [|reflexivity]. destruct (all_fragments b Q); cbn [bind]; [|reflexivity].
    rewrite app_assoc. reflexivity. Qed.
Lemma all_fragments_er rows Q : all_fragments (map er_row rows) Q = all_fragments rows Q.
Proof. induction rows as [|w t IH]; [reflexivity|]. cbn [map all_fragments]. rewrite IH.
  change (qlen (er_row w)) with (qlen w). change (Multi.qs (er_row w)) with (Multi.qs w). change (qe (er_row w)) with (qe w).
  change (qid (er_row w)) with (qid w). destruct (_ <? _); [reflexivity|].
  destruct (find_query Q (qid w)); cbn [bind]; [|reflexivity]. rewrite er_unaligned_fragments. reflexivity. Qed.
Lemma find_query_unique Q q : NoDup (map mid Q) -> In q Q -> find_query Q (mid q) = Ok q.
Proof. induction Q as [|h t IH]; intros N H; [destruct H|]. cbn [map] in N. inversion N as [|? ? Hh Nt]; subst. cbn [find_query].
  destruct H as [->|H]; [rewrite Z.eqb_refl; reflexivity|].
  destruct (mid h =? mid q) eqn:E; [|apply IH; assumption]. apply Z.eqb_eq in E. exfalso. apply Hh. rewrite E. apply in_map, H. Qed.
Lemma all_fragments_single rows Q q : NoDup (map mid Q) -> In q Q -> all_key qid (mid q) rows -> all_fragments rows Q = all_fragments rows [q].
Proof. intros N Hq. induction rows as [|w t IH]; intros H; [reflexivity|]. cbn [all_fragments].
  rewrite IH by (intros x Hx; apply H; right; exact Hx). rewrite (H w (or_introl eq_refl)), (find_query_unique Q q N Hq).
  cbn [find_query]. rewrite Z.eqb_refl. reflexivity. Qed.
Lemma all_fragments_mid rows Q c fr : all_key qid c rows -> all_fragments rows Q = Ok fr -> forall f, In f fr -> mid f = c.
Proof. revert fr. induction rows as [|w t IH]; intros fr H E f Hf.
  - injection E as <-. destruct Hf.
  - cbn [all_fragments] in E. destruct (all_fragments t Q) as [rest|] eqn:Et.
    + destruct (_ <? _) eqn:C; cbn [bind] in E.
      * injection E as <-. apply (IH rest (fun x Hx => H x (or_intror Hx)) eq_refl f Hf).
      * destruct (find_query Q (qid w)) as [q|]; cbn [bind] in E; [|discriminate].
        destruct (unaligned_fragments w (mpositions q)) as [fw|] eqn:Ef; cbn [bind] in E; [|discriminate]. injection E as <-.
        apply in_app_or in Hf. destruct Hf as [Hf|Hf].
        -- rewrite (frag_mid _ _ _ Ef f Hf). apply H. left. reflexivity.
        -- apply (IH rest (fun x Hx => H x (or_intror Hx)) eq_refl f Hf).
    + destruct (if _ <? _ then _ else _); cbn [bind] in E; discriminate. Qed.

(* ---------- the two passes for one query, and for a list of queries ---------- *)
Definition qrun (q : omap) : res (list row * list row) :=
  do r1 <- ex1 q; do fr <- all_fragments r1 [q]; do r2 <- cmapM ex1 fr; Ok (r1, map set_rest r2).
Definition phasesQ (Q ql : list omap) : res (list row * list row) :=
  do r1 <- cmapM ex1 ql; do fr <- all_fragments r1 Q; do r2 <- cmapM ex1 fr; Ok (r1, map set_rest r2).

Lemma phasesQ_decomp Q : NoDup (map mid Q) -> forall ql, incl ql Q -> phasesQ Q ql = pmapM qrun ql.
Proof. intros N. induction ql as [|q t IH]; intros Hin; [reflexivity|].
  assert (Hq : In q Q) by (apply Hin; left; reflexivity).
  cbn [pmapM]. rewrite <- IH by (intros x Hx; apply Hin; right; exact Hx). unfold phasesQ, qrun. cbn [cmapM].
  destruct (ex1 q) as [a|] eqn:Ea; cbn [bind]; [|reflexivity].
  destruct (cmapM ex1 t) as [b|]; cbn [bind].
  2:{ destruct (all_fragments a [q]); cbn [bind]; [|reflexivity]. destruct (cmapM ex1 _); reflexivity. }
  rewrite all_fragments_app, (all_fragments_single a Q q N Hq (ex1_qid _ _ Ea)).
  destruct (all_fragments a [q]) as [fa|]; cbn [bind]; [|reflexivity].
  destruct (all_fragments b Q) as [fb|]; cbn [bind].
  2:{ destruct (cmapM ex1 fa); reflexivity. }
  rewrite cmapM_app. destruct (cmapM ex1 fa) as [ra|]; cbn [bind]; [|reflexivity].
  destruct (cmapM ex1 fb) as [rb|]; cbn [bind fst snd]; [|reflexivity]. rewrite map_app. reflexivity. Qed.

Lemma qrun_qid q a b : qrun q = Ok (a, b) -> all_key qid (mid q) a /\ all_key qid (mid q) b.
Proof. unfold qrun. destruct (ex1 q) as [r1|] eqn:E1; cbn [bind]; [|discriminate].
  destruct (all_fragments r1 [q]) as [fr|] eqn:Ef; cbn [bind]; [|discriminate].
  destruct (cmapM ex1 fr) as [r2|] eqn:E2; cbn [bind]; [|discriminate]. intros X. injection X as <- <-.
  pose proof (ex1_qid _ _ E1) as H1. split; [exact H1|].
  pose proof (cmapM_ex1_qid (mid q) fr r2 (all_fragments_mid _ _ _ _ H1 Ef) E2) as H2.
  intros w Hw. apply in_map_iff in Hw. destruct Hw as (w0 & <- & Hw0). apply (H2 w0 Hw0). Qed.
Definition q1 (q : omap) : list row := fst (getp qrun q).
Definition q2 (q : omap) : list row := snd (getp qrun q).
Lemma q1_qid q : all_key qid (mid q) (q1 q).
Proof. unfold q1, getp. destruct (qrun q) as [[a b]|] eqn:E; [apply (qrun_qid _ _ _ E) | intros w []]. Qed.
Lemma q2_qid q : all_key qid (mid q) (q2 q).
Proof. unfold q2, getp. destruct (qrun q) as [[a b]|] eqn:E; [apply (qrun_qid _ _ _ E) | intros w []]. Qed.

(* ---------- Program.run up to `source` ---------- *)
Variable m : mode.
Variable md : Z.
Definition erun (ql : list omap) : res outputs := rmap er_out (program_run P seeds m md refs ql).

Lemma erun_phases ql : erun ql = do pr <- phasesQ ql ql; post m md (fst pr) (snd pr).
Proof. unfold erun, phasesQ. rewrite program_run_post, <- (ex_spec ql 1). unfold ex at 1.
  destruct (execute P seeds refs ql 1) as [[rows1 it1]|] eqn:E1; cbn [bind rmap fst snd]; [|reflexivity].
  rewrite all_fragments_er. destruct (all_fragments rows1 ql) as [fr|]; cbn [bind rmap]; [|reflexivity].
  rewrite <- (ex_spec fr it1). unfold ex. destruct (execute P seeds refs fr it1) as [[rows2 it2]|]; cbn [bind rmap fst snd]; [|reflexivity].
  rewrite <- er_post.
  2:{ split; [exact (ModesProofs4.execute_rest _ _ _ _ _ _ E1)|]. apply Forall_forall. intros w Hw. apply in_map_iff in Hw. destruct Hw as (y & <- & _). reflexivity. }
  f_equal. rewrite !map_map. apply map_ext. intros w. reflexivity. Qed.

(* the decomposition: all queries are run independently, then post sees the concatenated rows *)
Theorem erun_decomp ql : NoDup (map mid ql) ->
  erun ql = if forallb (fun q => isok (qrun q)) ql then post m md (flat_map q1 ql) (flat_map q2 ql) else Err.
Proof. intros N. rewrite erun_phases, (phasesQ_decomp ql N ql (incl_refl ql)), pmapM_spec.
  destruct (forallb _ ql); reflexivity. Qed.
Lemma erun_single q : erun [q] = if isok (qrun q) then post m md (q1 q) (q2 q) else Err.
Proof. rewrite erun_decomp by (repeat constructor; intros []). cbn [forallb flat_map]. rewrite andb_true_r, !app_nil_r. reflexivity. Qed.

Lemma fam_q1 c ql : qfam c (flat_map q1 ql) = flat_map q1 (filter (fun q => mid q =? c) ql).
Proof. apply (fam_flat_map_items qid mid). intros b _. apply q1_qid. Qed.
Lemma fam_q2 c ql : qfam c (flat_map q2 ql) = flat_map q2 (filter (fun q => mid q =? c) ql).
Proof. apply (fam_flat_map_items qid mid). intros b _. apply q2_qid. Qed.

(* the records of query q in a run on ql are those of the run on q alone *)
Theorem erun_local ql q o : NoDup (map mid ql) -> In q ql -> erun ql = Ok o -> erun [q] = Ok (fam_out (mid q) o).
Proof. intros N Hq. rewrite erun_single, (erun_decomp ql N). destruct (forallb _ ql) eqn:F; [|discriminate].
  rewrite forallb_forall in F. rewrite (F q Hq). intros E. apply (post_local _ _ (mid q)) in E.
  rewrite fam_q1, fam_q2, (nodup_filter_single mid (mid q) ql q N Hq eq_refl) in E. cbn [flat_map] in E. rewrite !app_nil_r in E. exact E. Qed.
(* conversely a run fails only if the run on one of its queries alone fails *)
Theorem erun_err ql : NoDup (map mid ql) -> erun ql = Err -> exists q, In q ql /\ erun [q] = Err.
Proof. intros N. rewrite (erun_decomp ql N). destruct (forallb _ ql) eqn:F.
  - intros E. destruct (post_err _ _ _ _ E) as (c & Ec). rewrite fam_q1, fam_q2 in Ec.
    pose proof (nodup_filter_le1 mid c ql N) as L.
    destruct (filter (fun q => mid q =? c) ql) as [|q [|q' u]] eqn:Fl; cbn [length] in L; [| |lia].
    + cbn [flat_map] in Ec. destruct (post_nil m md) as (o & Eo). congruence.
    + assert (Hq : In q ql). { assert (X : In q (filter (fun q => mid q =? c) ql)) by (rewrite Fl; left; reflexivity). apply filter_In in X. apply X. }
      exists q. split; [exact Hq|]. rewrite erun_single. rewrite forallb_forall in F. rewrite (F q Hq).
      cbn [flat_map] in Ec. rewrite !app_nil_r in Ec. exact Ec.
  - intros _. assert (X : exists q, In q ql /\ isok (qrun q) = false).
    { clear N. induction ql as [|q t IH]; [discriminate|]. cbn [forallb] in F. destruct (isok (qrun q)) eqn:E.
      - destruct (IH F) as (q0 & H0 & E0). exists q0. split; [right; exact H0 | exact E0].
      - exists q. split; [left; reflexivity | exact E]. }
    destruct X as (q & Hq & E). exists q. split; [exact Hq|]. rewrite erun_single, E. reflexivity. Qed.

(* the order of the queries is irrelevant: identical outputs (and identical failure) *)
Theorem erun_perm ql ql' : NoDup (map mid ql) -> Permutation ql ql' -> erun ql = erun ql'.
Proof. intros N Pm. assert (N' : NoDup (map mid ql')) by (eapply Permutation_NoDup; [apply Permutation_map, Pm | exact N]).
  rewrite (erun_decomp ql N), (erun_decomp ql' N'), (forallb_perm _ _ _ Pm). destruct (forallb _ ql'); [|reflexivity].
  apply post_same_fam; apply (fam_flat_map_perm qid mid); try assumption; intros b _; [apply q1_qid | apply q2_qid]. Qed.

(* no records for ids that are not in the query list *)
Lemma erun_absent ql c o : NoDup (map mid ql) -> ~ In c (map mid ql) -> erun ql = Ok o -> post m md [] [] = Ok (fam_out c o).
Proof. intros N Hc. rewrite (erun_decomp ql N). destruct (forallb _ ql); [|discriminate]. intros E. apply (post_local _ _ c) in E.
  rewrite fam_q1, fam_q2 in E. rewrite (filter_none (fun q => mid q =? c) ql) in E; [exact E|].
  intros q Hq. apply Z.eqb_neq. intros X. apply Hc. rewrite <- X. apply in_map, Hq. Qed.

(* queries removed (or, read the other way round, added): the remaining queries keep their records *)
Theorem erun_sub ql ql' o : NoDup (map mid ql) -> NoDup (map mid ql') -> incl ql' ql -> erun ql = Ok o ->
  exists o', erun ql' = Ok o' /\ forall q, In q ql' -> fam_out (mid q) o' = fam_out (mid q) o.
Proof. intros N N' I E. destruct (erun ql') as [o'|] eqn:E'.
  - exists o'. split; [reflexivity|]. intros q Hq.
    pose proof (erun_local ql' q o' N' Hq E') as H1. pose proof (erun_local ql q o N (I q Hq) E) as H2. congruence.
  - destruct (erun_err ql' N' E') as (q & Hq & Eq). pose proof (erun_local ql q o N (I q Hq) E). congruence. Qed.
End Run.

(* ---------- the reference list only reaches the seeding stage ---------- *)
Lemma execute_seeds_ext P (seeds seeds' : seeding) refs refs' : (forall q, seeds refs q = seeds' refs' q) ->
  forall ql it, execute P seeds refs ql it = execute P seeds' refs' ql it.
Proof. intros H. induction ql as [|q t IH]; intros it; [reflexivity|]. cbn [execute]. unfold align_query. rewrite H.
  destruct (match seeds' refs' q with [] => _ | _ => _ end) as [r|]; cbn [bind]; [|reflexivity]. rewrite IH. reflexivity. Qed.
Theorem program_run_seeds_ext P (seeds seeds' : seeding) m md refs refs' ql : (forall q, seeds refs q = seeds' refs' q) ->
  program_run P seeds m md refs ql = program_run P seeds' m md refs' ql.
Proof. intros H. rewrite !program_run_post. rewrite (execute_seeds_ext P seeds seeds' refs refs' H).
  destruct (execute P seeds' refs' ql 1) as [r1|]; cbn [bind]; [|reflexivity].
  destruct (all_fragments (fst r1) ql) as [fr|]; cbn [bind]; [|reflexivity].
  rewrite (execute_seeds_ext P seeds seeds' refs refs' H). reflexivity. Qed.

(* C02, part 1: label numbering of a map and of a second-pass fragment (getPositionsWithSiteIds with `shift`,
   getUnalignedFragments), generic list facts. *)
From Coq Require Import ZArith List Bool Lia Sorting.Sorted.
Import ListNotations.
Require Import Py PyProofs Pairing PairingProofs2 PairingProofs3 PairingProofs4 Core Multi.
Open Scope Z_scope.

(* ---------------------------------------------------------------- lists *)
Lemma nth_firstn_lt {A} (l : list A) : forall n k d, (k < n)%nat -> nth k (firstn n l) d = nth k l d.
Proof. induction l as [|x t IH]; intros n k d H; [rewrite firstn_nil; reflexivity|].
  destruct n as [|n]; [lia|]. destruct k as [|k]; [reflexivity|]. cbn [firstn nth]. apply IH. lia. Qed.
Lemma nth_skipn' {A} (l : list A) : forall m k d, nth k (skipn m l) d = nth (m + k) l d.
Proof. induction l as [|x t IH]; intros m k d; [rewrite skipn_nil; destruct k, m; reflexivity|].
  destruct m as [|m]; [reflexivity|]. cbn [skipn Nat.add nth]. apply IH. Qed.
Lemma nth_error_nth' {A} (l : list A) n d x : nth_error l n = Some x -> nth n l d = x.
Proof. revert n; induction l as [|y t IH]; intros [|n] H; cbn in *; try discriminate; [congruence | apply IH; exact H]. Qed.
Lemma nth_error_of_nth {A} (l : list A) n d : (n < length l)%nat -> nth_error l n = Some (nth n l d).
Proof. revert n; induction l as [|y t IH]; intros [|n] H; cbn in *; try lia; [reflexivity | apply IH; lia]. Qed.

Lemma SS_nth_le l : StronglySorted Z.le l -> forall a b, (a <= b)%nat -> (b < length l)%nat -> nth a l 0 <= nth b l 0.
Proof. induction 1 as [|x t Ht IH Hx]; intros a b Hab Hb; [cbn in Hb; lia|].
  destruct b as [|b]; [replace a with O by lia; lia|]. destruct a as [|a].
  - cbn [nth]. rewrite Forall_forall in Hx. apply Hx. apply nth_In. cbn in Hb. lia.
  - cbn [nth]. apply IH; cbn in Hb; lia. Qed.

Lemma SS_weaken_in {A} (R R' : A -> A -> Prop) l :
  (forall a b, In a l -> In b l -> R a b -> R' a b) -> StronglySorted R l -> StronglySorted R' l.
Proof. intros H S. induction S as [|x t Ht IH Hx]; [constructor|]. constructor.
  - apply IH. intros a b Ha Hb. apply H; right; assumption.
  - rewrite Forall_forall in *. intros y Hy. apply H; [left; reflexivity | right; exact Hy | apply Hx; exact Hy]. Qed.

Lemma SS_hd_last {A} (R : A -> A -> Prop) l d : StronglySorted R l -> l <> [] -> hd d l = last l d \/ R (hd d l) (last l d).
Proof. intros S Hne. destruct l as [|x t]; [congruence|]. destruct t as [|y t']; [left; reflexivity|]. right.
  inversion S as [|? ? _ Hx]; subst. rewrite Forall_forall in Hx. cbn [hd]. apply Hx.
  change (last (x :: y :: t') d) with (last (y :: t') d). clear. revert y. induction t' as [|z t IH]; intros y; [left; reflexivity|].
  right. apply IH. Qed.

Lemma last_in {A} (l : list A) d : l <> [] -> In (last l d) l.
Proof. induction l as [|x t IH]; [congruence|]. intros _. destruct t as [|y t']; [left; reflexivity|]. right. apply IH. discriminate. Qed.
Lemma hd_in {A} (l : list A) d : l <> [] -> In (hd d l) l.
Proof. destruct l; [congruence | left; reflexivity]. Qed.
Lemma hd_map {A B} (f : A -> B) l d d' : l <> [] -> hd d' (map f l) = f (hd d l).
Proof. destruct l; [congruence | reflexivity]. Qed.
Lemma last_map {A B} (f : A -> B) l d d' : l <> [] -> last (map f l) d' = f (last l d).
Proof. induction l as [|x t IH]; [congruence|]. intros _. destruct t as [|y t']; [reflexivity|].
  change (map f (x :: y :: t')) with (f x :: map f (y :: t')). change (last (f x :: map f (y :: t')) d') with (last (map f (y :: t')) d').
  apply IH. discriminate. Qed.
Lemma rev_head_last {A} (l : list A) d : l <> [] -> rev l = last l d :: rev (removelast l).
Proof. intros H. rewrite (app_removelast_last d H) at 1. rewrite rev_app_distr. reflexivity. Qed.

(* sorted(): a list that is already in key order comes back unchanged (stability makes this true with ties too) *)
Lemma insert_by_head {A} (k : A -> Z) x l : Forall (fun y => k x <= k y) l -> insert_by k x l = x :: l.
Proof. destruct l as [|y t]; [reflexivity|]. intros H. inversion H; subst. cbn [insert_by].
  destruct (k x <=? k y) eqn:E; [reflexivity | lia]. Qed.
Lemma sort_by_sorted_id {A} (k : A -> Z) l : ksorted k l -> sort_by k l = l.
Proof. unfold ksorted, sort_by. induction 1 as [|x t Ht IH Hx]; [reflexivity|]. cbn [fold_right]. rewrite IH. apply insert_by_head. exact Hx. Qed.

(* ---------------------------------------------------------------- the labels of a map *)
(* coordinate of the label numbered s of map m (numbers run from 1 + shift) *)
Definition label_at (m : omap) (s : Z) : Z := nth (Z.to_nat (s - 1 - mshift m)) (mpositions m) 0.
Definition nlabels (m : omap) : Z := Z.of_nat (length (mpositions m)).
Definition has_site (m : omap) (s : Z) : Prop := 1 + mshift m <= s <= nlabels m + mshift m.
(* the coordinate getPositionsWithSiteIds attaches to label s: its own on the forward strand, mirrored about length - 1 on the reverse strand *)
Definition strand_coord (m : omap) (reverse : bool) (s : Z) : Z := if reverse then mlen m - K - label_at m s else label_at m s.

Lemma number_up_firstn i l n : number_up i (firstn n l) = firstn n (number_up i l).
Proof. revert i n; induction l as [|p t IH]; intros i [|n]; cbn [firstn number_up]; try reflexivity. rewrite IH. reflexivity. Qed.
Lemma number_up_skipn i l n : number_up (i + Z.of_nat n) (skipn n l) = skipn n (number_up i l).
Proof. revert i n; induction l as [|p t IH]; intros i [|n]; cbn [skipn number_up]; try reflexivity.
  - rewrite Z.add_0_r. reflexivity.
  - rewrite <- IH. f_equal. lia. Qed.
Lemma number_up_length i l : length (number_up i l) = length l.
Proof. revert i; induction l as [|p t IH]; intros i; cbn; [|rewrite IH]; reflexivity. Qed.

Lemma forward_label_in m x : In x (positions_with_ids m false) <-> has_site m (site x) /\ lpos x = label_at m (site x).
Proof. unfold has_site, label_at, nlabels. split.
  - intros H. apply In_nth_error in H. destruct H as (n & Hn). rewrite labels_forward in Hn.
    destruct (nth_error (mpositions m) n) as [p|] eqn:E; [|discriminate]. cbn in Hn. injection Hn as <-. cbn [site lpos].
    assert (n < length (mpositions m))%nat by (apply nth_error_Some; congruence).
    replace (Z.to_nat (Z.of_nat n + 1 + mshift m - 1 - mshift m)) with n by lia.
    split; [lia | symmetry; apply nth_error_nth'; exact E].
  - intros ((H1 & H2) & H3). apply (nth_error_In _ (Z.to_nat (site x - 1 - mshift m))). rewrite labels_forward.
    rewrite (nth_error_of_nth _ _ 0) by lia. cbn [option_map]. f_equal. destruct x as [s p]. cbn [site lpos] in *. f_equal; [lia | congruence]. Qed.

Lemma label_in m reverse x : In x (positions_with_ids m reverse) <-> has_site m (site x) /\ lpos x = strand_coord m reverse (site x).
Proof. destruct reverse; [|apply forward_label_in]. rewrite labels_reverse, <- in_rev, in_map_iff. unfold strand_coord. split.
  - intros (y & <- & Hy). apply forward_label_in in Hy. destruct Hy as (H1 & H2). unfold mirror. cbn [site lpos]. rewrite H2. auto.
  - intros (H1 & H2). exists (mkLabel (site x) (label_at m (site x))). split.
    + unfold mirror. cbn [site lpos]. destruct x as [s p]. cbn [site lpos] in *. congruence.
    + apply forward_label_in. cbn [site lpos]. auto. Qed.

(* a label number determines the label; numbers ascend with coordinates on a sorted map *)
Lemma label_at_le m s s' : StronglySorted Z.le (mpositions m) -> has_site m s -> has_site m s' -> s <= s' -> label_at m s <= label_at m s'.
Proof. unfold has_site, nlabels, label_at. intros S H1 H2 L. apply SS_nth_le; [exact S | lia | lia]. Qed.

(* ---------------------------------------------------------------- fragments of a query *)
(* the labels sh+1 .. sh+n of `whole` as a map of their own: same id, same length, label-number offset sh.
   getUnalignedFragments builds exactly these (frag_prefix / frag_suffix below) *)
Definition fragment_at (whole : omap) (sh n : nat) : omap :=
  mkMap (mid whole) (mlen whole) (firstn n (skipn sh (mpositions whole))) (Z.of_nat sh).

Lemma fragment_forward whole sh n : mshift whole = 0 ->
  positions_with_ids (fragment_at whole sh n) false = firstn n (skipn sh (positions_with_ids whole false)).
Proof. intros E. unfold positions_with_ids, fragment_at. cbn [mpositions mshift]. rewrite E, number_up_firstn.
  replace (1 + Z.of_nat sh) with (1 + 0 + Z.of_nat sh) by lia. rewrite number_up_skipn. reflexivity. Qed.

Lemma fragment_reverse whole sh n : mshift whole = 0 ->
  positions_with_ids (fragment_at whole sh n) true
  = rev (map (mirror (mlen whole - K)) (firstn n (skipn sh (positions_with_ids whole false)))).
Proof. intros E. rewrite labels_reverse, (fragment_forward whole sh n E). reflexivity. Qed.

Lemma in_firstn_skipn {A} (x : A) n sh l : In x (firstn n (skipn sh l)) -> In x l.
Proof. intros H. rewrite <- (firstn_skipn sh l). apply in_or_app. right.
  rewrite <- (firstn_skipn n (skipn sh l)). apply in_or_app. left. exact H. Qed.

(* every label the pairing sees on a fragment is a label of the whole query, with the whole query's number and the whole query's
   (mirrored, on the reverse strand) coordinate; its number lies in the fragment's range *)
Theorem fragment_labels whole sh n reverse x : mshift whole = 0 ->
  In x (positions_with_ids (fragment_at whole sh n) reverse) ->
  In x (positions_with_ids whole reverse) /\ Z.of_nat sh < site x <= Z.of_nat sh + Z.of_nat n.
Proof. intros E H. split.
  - destruct reverse.
    + rewrite fragment_reverse in H by exact E. rewrite labels_reverse. rewrite <- in_rev in *. apply in_map_iff in H.
      destruct H as (y & <- & Hy). apply in_map. eapply in_firstn_skipn. exact Hy.
    + rewrite fragment_forward in H by exact E. eapply in_firstn_skipn. exact H.
  - apply label_in in H. destruct H as (H & _). unfold has_site, nlabels, fragment_at in H. cbn [mshift mpositions] in H.
    rewrite firstn_length in H. lia. Qed.

(* the converse: the fragment carries every label of its range *)
Theorem fragment_labels_complete whole sh n reverse x : mshift whole = 0 ->
  In x (positions_with_ids whole reverse) -> Z.of_nat sh < site x <= Z.of_nat sh + Z.of_nat n ->
  In x (positions_with_ids (fragment_at whole sh n) reverse).
Proof. intros E H R. apply label_in in H. destruct H as (H1 & H2). apply label_in. unfold has_site, nlabels in *. rewrite E in H1.
  assert (L : length (mpositions (fragment_at whole sh n)) = Nat.min n (length (mpositions whole) - sh)).
  { unfold fragment_at. cbn [mpositions]. rewrite firstn_length, skipn_length. reflexivity. }
  split.
  - rewrite L. unfold fragment_at. cbn [mshift]. lia.
  - rewrite H2. unfold strand_coord, label_at, fragment_at. cbn [mlen mshift mpositions]. rewrite E.
    assert (X : nth (Z.to_nat (site x - 1 - Z.of_nat sh)) (firstn n (skipn sh (mpositions whole))) 0 = nth (Z.to_nat (site x - 1 - 0)) (mpositions whole) 0).
    { rewrite nth_firstn_lt by lia. rewrite nth_skipn'. f_equal. lia. }
    rewrite X. reflexivity. Qed.

(* in coordinates: label s of the fragment has the coordinate of label s of the whole query, on both strands *)
Corollary fragment_coord whole sh n reverse s : mshift whole = 0 -> has_site (fragment_at whole sh n) s ->
  has_site whole s /\ strand_coord (fragment_at whole sh n) reverse s = strand_coord whole reverse s.
Proof. intros E H.
  assert (I : In (mkLabel s (strand_coord (fragment_at whole sh n) reverse s)) (positions_with_ids (fragment_at whole sh n) reverse))
    by (apply label_in; cbn [site lpos]; auto).
  apply fragment_labels in I; [|exact E]. destruct I as (I & _). apply label_in in I. cbn [site lpos] in I. exact I. Qed.

(* ---------------------------------------------------------------- getUnalignedFragments builds such fragments *)
Lemma slice_to_firstn {A} (l : list A) k : exists n, slice_to l k = firstn n l.
Proof. unfold slice_to. destruct (k <? 0); eauto. Qed.
Lemma slice_from_skipn {A} (l : list A) k : exists m, slice_from l k = skipn m l /\ (m <= length l)%nat.
Proof. unfold slice_from. destruct (k <? 0) eqn:E.
  - exists (Z.to_nat (Z.max 0 (Z.of_nat (length l) + k))). split; [reflexivity | lia].
  - destruct (Nat.le_gt_cases (Z.to_nat k) (length l)) as [H|H]; [eauto|].
    exists (length l). rewrite !skipn_all2 by lia. auto. Qed.

Definition frag_prefix (whole : omap) (f : omap) : Prop := exists n, f = fragment_at whole 0 n.
Definition frag_suffix (whole : omap) (f : omap) : Prop := exists sh, (sh <= length (mpositions whole))%nat /\ f = fragment_at whole sh (length (mpositions whole) - sh).

Lemma mk_prefix whole k : frag_prefix whole (mkMap (mid whole) (mlen whole) (slice_to (mpositions whole) k) 0).
Proof. destruct (slice_to_firstn (mpositions whole) k) as (n & ->). exists n. reflexivity. Qed.
Lemma mk_suffix whole k : let ps := slice_from (mpositions whole) k in
  frag_suffix whole (mkMap (mid whole) (mlen whole) ps (len (mpositions whole) - len ps)).
Proof. cbn zeta. destruct (slice_from_skipn (mpositions whole) k) as (m & -> & Hm). exists m. split; [exact Hm|].
  unfold fragment_at, len. rewrite skipn_length. f_equal; [|lia].
  symmetry. apply firstn_all2. rewrite skipn_length. lia. Qed.

(* every map returned by getUnalignedFragments is a prefix (shift 0) or a suffix (shift = number of labels before it) of the query
   it was cut from, with the whole query's id and the whole query's length *)
Theorem unaligned_fragments_shape (w : row) (whole : omap) frs :
  qid w = mid whole -> qlen w = mlen whole ->
  unaligned_fragments w (mpositions whole) = Ok frs -> Forall (fun f => frag_prefix whole f \/ frag_suffix whole f) frs.
Proof.
  intros Eq El. unfold unaligned_fragments. rewrite Eq, El.
  pose proof (mk_prefix whole) as HP. pose proof (mk_suffix whole) as HS. cbn zeta in HS.
  destruct (4 * mlen whole <? 5 * Z.abs (qs w - qe w)); [intros H; injection H as <-; apply Forall_nil|].
  destruct ((qs w =? 0) || (qe w =? 0)).
  - destruct (negb (rrev w)).
    + destruct (index_of (qe w) (mpositions whole) 0) as [i|]; cbn [bind]; [|discriminate].
      destruct (qe w =? 0); intros H; injection H as <-; [apply Forall_nil|]. apply Forall_cons; [|apply Forall_nil]. right. apply HS.
    + intros H; injection H as <-. apply Forall_cons; [|apply Forall_nil]. left. apply HP.
  - set (p12 := if negb (rrev w) then _ else _).
    assert (X : p12 = Err \/ exists k1 k2, p12 = Ok (slice_to (mpositions whole) k1, slice_from (mpositions whole) k2)).
    { subst p12. destruct (negb (rrev w)); [|right; eauto].
      destruct (index_of (qs w) (mpositions whole) 0); cbn [bind]; [|left; reflexivity].
      destruct (index_of (qe w) (mpositions whole) 0); cbn [bind]; [|left; reflexivity]. right. eauto. }
    destruct X as [->|(k1 & k2 & ->)]; cbn [bind]; [discriminate|]. cbn [fst snd].
    destruct ((7 <=? len (slice_to (mpositions whole) k1)) && (7 <=? len (slice_from (mpositions whole) k2))).
    { intros H; injection H as <-. apply Forall_cons; [left; apply HP|]. apply Forall_cons; [right; apply HS | apply Forall_nil]. }
    destruct (7 <=? len (slice_to (mpositions whole) k1)).
    { intros H; injection H as <-. apply Forall_cons; [left; apply HP | apply Forall_nil]. }
    destruct (7 <=? len (slice_from (mpositions whole) k2)); intros H; injection H as <-; [|apply Forall_nil].
    apply Forall_cons; [right; apply HS | apply Forall_nil].
Qed.

(* C14: connection between the executable chainer Core.chain (exceptions as Err, Q scores) and the generic
   dynamic programme DP.chain_nonempty instantiated at Q (ChainQ.chainQ), and the segment-level facts about join_score. *)
From Coq Require Import ZArith QArith List Bool Lia Sorting.Permutation.
Import ListNotations.
Require Import Py Pairing Core DP DPProofs ChainQ PyProofs.
Open Scope Z_scope.

(* ---------- the precondition: a non-empty segment has at least one aligned pair ---------- *)
Definition seg_defined (s : segment) : Prop := seg_empty s = false -> aligned s <> [].

Lemma seg_defined_positions s : seg_defined s -> exists a e, start_position s = Ok a /\ end_position s = Ok e.
Proof.
  unfold seg_defined, start_position, end_position. destruct (seg_empty s); [eauto|].
  intros H. specialize (H eq_refl). destruct (aligned s) as [|p l] eqn:E; [congruence|].
  destruct (rev (p :: l)) as [|y r] eqn:Er; [|eauto].
  apply (f_equal (@List.length _)) in Er. rewrite rev_length in Er. discriminate.
Qed.

Lemma undefined_start s : seg_empty s = false -> aligned s = [] -> start_position s = Err.
Proof. intros H1 H2. unfold start_position. rewrite H1, H2. reflexivity. Qed.

(* pure versions of the join score, the segment score and the sort key *)
Definition jsP (P : params) (a b : segment) : option Q := match join_score P a b with Ok o => o | Err => None end.
Definition seg_score (s : segment) : Q := inject_Z (sscore s).
Definition okey (s : segment) : Z := match order_key s with Ok k => k | Err => 0 end.
Definition nonempties (segs : list segment) : list segment := filter (fun s => negb (seg_empty s)) segs.
Definition empties (segs : list segment) : list segment := filter seg_empty segs.
Definition preordered (segs : list segment) : list segment := sort_by okey (nonempties segs).
(* total of a chain accumulated as the code does: c1 = Qred(0 + score s1); c(k+1) = Qred(Qred(ck + join(sk, sk+1)) + score s(k+1));
   None as soon as a join is inadmissible (minus infinity) or the chain is empty *)
Definition chain_total (P : params) (c : list segment) : option Q := totalQ segment seg_score (jsP P) c.

Lemma join_score_defined P a b : seg_defined a -> seg_defined b -> join_score P a b = Ok (jsP P a b).
Proof.
  intros Ha Hb. unfold jsP. destruct (join_score P a b) as [o|] eqn:E; [reflexivity|]. exfalso.
  destruct (seg_defined_positions a Ha) as (ps & pe & E1 & E2). destruct (seg_defined_positions b Hb) as (cs & ce & E3 & E4).
  unfold join_score in E. rewrite E1, E2, E3, E4 in E. cbn [bind] in E.
  match type of E with (if ?c then _ else _) = _ => destruct c end; discriminate.
Qed.

Lemma order_key_defined s : seg_defined s -> order_key s = Ok (okey s).
Proof.
  intros Hs. unfold okey. destruct (order_key s) as [k|] eqn:E; [reflexivity|]. exfalso.
  destruct (seg_defined_positions s Hs) as (a & e & E1 & E2). unfold order_key in E. rewrite E1, E2 in E. discriminate.
Qed.

(* ---------- Core.best_prev / dp / best_index / backtrack are the generic ones ---------- *)
Notation entryQ := (segment * Q * option nat)%type.
Definition defd (done : list entryQ) : Prop := forall e, In e done -> seg_defined (fst (fst e)).

Lemma best_prev_eq P cur done : seg_defined cur -> defd done -> forall j best bp,
  Core.best_prev P cur done j best bp = Ok (DP.best_prev Q segment Qltb qadd (jsP P) cur done j best bp).
Proof.
  intros Hc. induction done as [|[[sj cj] pj] t IH]; intros Hd j best bp; [reflexivity|].
  cbn [Core.best_prev DP.best_prev]. unfold e_seg, e_cum. cbn [fst snd].
  assert (Hsj : seg_defined sj) by (apply (Hd (sj, cj, pj)); left; reflexivity).
  assert (Ht : defd t) by (intros e He; apply Hd; right; exact He).
  rewrite (join_score_defined P sj cur Hsj Hc). cbn [bind].
  destruct (jsP P sj cur) as [x|]; [|apply IH; exact Ht].
  unfold qadd. destruct (Qltb best (Qred (cj + x))); apply IH; exact Ht.
Qed.

Lemma dp_eq P todo : (forall s, In s todo -> seg_defined s) -> forall done, defd done ->
  Core.dp P todo done = Ok (DP.dp Q segment Qltb qadd 0%Q seg_score (jsP P) todo done).
Proof.
  induction todo as [|s t IH]; intros Ht done Hd; [reflexivity|].
  cbn [Core.dp DP.dp]. rewrite (best_prev_eq P s done (Ht s (or_introl eq_refl)) Hd). cbn [bind].
  unfold qadd, seg_score. apply IH.
  - intros s' Hs'. apply Ht. right. exact Hs'.
  - intros e He. apply in_app_or in He. destruct He as [He|[<-|[]]]; [apply Hd; exact He|]. cbn [fst]. apply Ht. left. reflexivity.
Qed.

Lemma best_index_eq l : forall i best bi, Core.best_index l i best bi = DP.best_index Q segment Qltb l i best bi.
Proof.
  induction l as [|[[s c] p] t IH]; intros i best bi; [reflexivity|].
  cbn [Core.best_index DP.best_index]. unfold e_cum. cbn [fst snd]. destruct (Qltb best c); apply IH.
Qed.

Lemma backtrack_eq fuel tbl : forall i acc, Core.backtrack fuel tbl i acc = DP.backtrack Q segment fuel tbl i acc.
Proof.
  induction fuel as [|f IH]; intros i acc; [reflexivity|].
  cbn [Core.backtrack DP.backtrack]. unfold entry. destruct (nth_error tbl i) as [[[s c] p]|]; [|reflexivity].
  unfold e_prev, e_seg. cbn [fst snd]. destruct p as [j|]; [apply IH | reflexivity].
Qed.

Lemma finish_eq (tbl : list entryQ) :
  Core.backtrack (length tbl) tbl (Core.best_index tbl 0 (match tbl with (_, c, _) :: _ => c | [] => 0%Q end) 0) [] =
  match tbl with [] => [] | e0 :: _ => DP.backtrack Q segment (length tbl) tbl (DP.best_index Q segment Qltb tbl 0 (e_cum Q segment e0) 0) [] end.
Proof. destruct tbl as [|[[s c] p] t]; [reflexivity|]. rewrite best_index_eq, backtrack_eq. reflexivity. Qed.

(* ---------- the sort with precomputed keys ---------- *)
Lemma keys_eq l : (forall s, In s l -> seg_defined s) -> keys l = Ok (map (fun s => (okey s, s)) l).
Proof.
  induction l as [|s t IH]; intros H; [reflexivity|].
  cbn [keys map]. rewrite (order_key_defined s (H s (or_introl eq_refl))). cbn [bind].
  rewrite IH by (intros s' Hs'; apply H; right; exact Hs'). reflexivity.
Qed.

Lemma keys_err l s : In s l -> order_key s = Err -> keys l = Err.
Proof.
  induction l as [|y t IH]; [intros []|]. intros [<-|Hin] He; cbn [keys].
  - rewrite He. reflexivity.
  - destruct (order_key y); [|reflexivity]. cbn [bind]. rewrite (IH Hin He). reflexivity.
Qed.

Lemma insert_by_map x l :
  insert_by fst (okey x, x) (map (fun s => (okey s, s)) l) = map (fun s => (okey s, s)) (insert_by okey x l).
Proof.
  induction l as [|y t IH]; [reflexivity|]. cbn [map insert_by fst].
  destruct (okey x <=? okey y); [reflexivity|]. cbn [map]. rewrite IH. reflexivity.
Qed.
Lemma sort_by_map l : sort_by fst (map (fun s => (okey s, s)) l) = map (fun s => (okey s, s)) (sort_by okey l).
Proof.
  induction l as [|x t IH]; [reflexivity|]. unfold sort_by in *. cbn [map fold_right]. rewrite IH. apply insert_by_map.
Qed.
Lemma sort_keys l : map snd (sort_by fst (map (fun s => (okey s, s)) l)) = sort_by okey l.
Proof. rewrite sort_by_map, map_map. cbn [snd]. apply map_id. Qed.

Lemma preordered_in s segs : In s (preordered segs) -> In s segs /\ seg_empty s = false.
Proof.
  unfold preordered, nonempties. intros H. apply (proj1 (sort_by_in okey s _)) in H. apply filter_In in H. destruct H as (H1 & H2).
  split; [exact H1|]. destruct (seg_empty s); [discriminate | reflexivity].
Qed.

(* ---------- Core.chain = generic chain on the pre-ordered non-empty segments, then the empty ones ---------- *)
Theorem chain_eq P segs : (forall s, In s segs -> seg_defined s) ->
  chain P segs = Ok (chainQ segment seg_score (jsP P) (preordered segs) ++ empties segs).
Proof.
  intros Hdef. unfold chain.
  rewrite keys_eq by (intros s Hs; apply filter_In in Hs; apply Hdef; apply Hs). cbn [bind].
  rewrite sort_keys. fold (nonempties segs). fold (preordered segs). fold (empties segs).
  assert (Hpre : forall s, In s (preordered segs) -> seg_defined s) by (intros s Hs; apply Hdef; apply (preordered_in s segs Hs)).
  destruct (preordered segs) as [|s0 pre'] eqn:Epre; [reflexivity|].
  rewrite (dp_eq P (s0 :: pre') Hpre [] (fun e H => match H with end)). cbn [bind].
  rewrite finish_eq. reflexivity.
Qed.

Theorem chain_err P segs s : In s segs -> seg_empty s = false -> aligned s = [] -> chain P segs = Err.
Proof.
  intros Hin He Ha. unfold chain.
  rewrite (keys_err (filter (fun s => negb (seg_empty s)) segs) s); [reflexivity | | ].
  - apply filter_In. split; [exact Hin | rewrite He; reflexivity].
  - unfold order_key. rewrite (undefined_start s He Ha). reflexivity.
Qed.

(* ---------- Sub facts ---------- *)
Lemma Sub_in {A} (c l : list A) x : Sub c l -> In x c -> In x l.
Proof. induction 1; intros Hx; [destruct Hx | destruct Hx as [<-|Hx]; [left; reflexivity | right; auto] | right; auto]. Qed.
Lemma Sub_NoDup {A} (c l : list A) : Sub c l -> NoDup l -> NoDup c.
Proof.
  induction 1 as [l | x c l Hs IH | x c l Hs IH]; intros Hn; [constructor | |].
  - inversion Hn as [|? ? Hx Hl]; subst. constructor; [|apply IH; exact Hl]. intros Hc. apply Hx. apply (Sub_in c l x Hs Hc).
  - inversion Hn; subst. apply IH. assumption.
Qed.
Lemma preordered_NoDup segs : NoDup segs -> NoDup (preordered segs).
Proof.
  intros H. unfold preordered, nonempties. apply (Permutation_NoDup (l := filter (fun s => negb (seg_empty s)) segs)).
  - symmetry. apply sort_by_perm.
  - apply NoDup_filter. exact H.
Qed.

(* ---------- a defined total has no inadmissible join ---------- *)
Section Tot.
Variables (S seg : Type) (add : S -> S -> S) (zero : S) (score : seg -> S) (js : seg -> seg -> option S).
Lemma total_from_consecutive r : forall acc lst t c1 a b c2,
  total_from S seg add score js acc lst r = Some t -> lst :: r = c1 ++ a :: b :: c2 -> exists x, js a b = Some x.
Proof.
  induction r as [|y r IH]; intros acc lst t c1 a b c2 Ht E.
  - destruct c1 as [|z [|z' c1]]; discriminate.
  - cbn [total_from] in Ht. destruct (js lst y) as [x|] eqn:Ej; [|discriminate].
    destruct c1 as [|z c1]; cbn [app] in E.
    + injection E as -> -> _. exists x. exact Ej.
    + injection E as _ E. apply (IH _ y t c1 a b c2 Ht E).
Qed.
Lemma total_consecutive c t c1 a b c2 :
  total S seg add zero score js c = Some t -> c = c1 ++ a :: b :: c2 -> exists x, js a b = Some x.
Proof.
  destruct c as [|s r]; [discriminate|]. cbn [total]. intros Ht E. apply (total_from_consecutive r _ s t c1 a b c2 Ht E).
Qed.
End Tot.

(* ---------- what an admissible join means (segment_chainer.py:49-59) ---------- *)
Definition refDist (pe cs : pv) : Z := lpos (pr cs) - lpos (pr pe).
Definition qryDist (pe cs : pv) : Z := lpos (pq cs) - lpos (pq pe).
Definition refLen (ps pe cs ce : pv) : Z := Z.min (lpos (pr ce) - lpos (pr cs)) (lpos (pr pe) - lpos (pr ps)).
Definition qryLen (ps pe cs ce : pv) : Z := Z.min (Z.abs (lpos (pq ce) - lpos (pq cs))) (Z.abs (lpos (pq pe) - lpos (pq ps))).

Lemma join_score_some P prev cur_ x : join_score P prev cur_ = Ok (Some x) ->
  exists ps pe cs ce, start_position prev = Ok ps /\ end_position prev = Ok pe /\ start_position cur_ = Ok cs /\ end_position cur_ = Ok ce /\
    0 <= refLen ps pe cs ce + 2 * refDist pe cs /\ 0 <= qryLen ps pe cs ce + 2 * qryDist pe cs /\
    x = Qred (- SJ P * calc_score (SS P) (refDist pe cs) (qryDist pe cs))%Q.
Proof.
  unfold join_score.
  destruct (start_position prev) as [ps|]; [|discriminate]. destruct (end_position prev) as [pe|]; [|discriminate].
  destruct (start_position cur_) as [cs|]; [|discriminate]. destruct (end_position cur_) as [ce|]; [|discriminate]. cbn [bind].
  match goal with |- (if ?c then _ else _) = _ -> _ => destruct c eqn:Ec end; [discriminate|]. intros H.
  exists ps, pe, cs, ce. repeat (split; [reflexivity|]). apply Z.ltb_ge in Ec. unfold refLen, qryLen, refDist, qryDist.
  split; [lia|]. split; [lia|]. injection H as <-. reflexivity.
Qed.

Lemma join_score_positions P prev cur_ ps pe cs ce :
  start_position prev = Ok ps -> end_position prev = Ok pe -> start_position cur_ = Ok cs -> end_position cur_ = Ok ce ->
  join_score P prev cur_ =
  if Z.min (refLen ps pe cs ce + 2 * refDist pe cs) (qryLen ps pe cs ce + 2 * qryDist pe cs) <? 0 then Ok None
  else Ok (Some (Qred (- SJ P * calc_score (SS P) (refDist pe cs) (qryDist pe cs))%Q)).
Proof. intros E1 E2 E3 E4. unfold join_score. rewrite E1, E2, E3, E4. reflexivity. Qed.

Lemma calc_score_contiguous P : (Qred (- SJ P * calc_score (SS P) 0 0) == 0)%Q.
Proof. rewrite Qred_correct, calc_score_zero. ring. Qed.

Theorem join_contiguous_zero P prev cur_ pe cs x :
  end_position prev = Ok pe -> start_position cur_ = Ok cs -> refDist pe cs = 0 -> qryDist pe cs = 0 ->
  join_score P prev cur_ = Ok (Some x) -> (x == 0)%Q.
Proof.
  intros E2 E3 Hr Hq H. destruct (join_score_some P prev cur_ x H) as (ps & pe' & cs' & ce & _ & F2 & F3 & _ & _ & _ & ->).
  rewrite E2 in F2. rewrite E3 in F3. injection F2 as <-. injection F3 as <-. rewrite Hr, Hq. apply calc_score_contiguous.
Qed.

(* a contiguous join of two segments that do not run backwards on the reference is always admissible *)
Theorem join_contiguous_admissible P prev cur_ ps pe cs ce :
  start_position prev = Ok ps -> end_position prev = Ok pe -> start_position cur_ = Ok cs -> end_position cur_ = Ok ce ->
  refDist pe cs = 0 -> qryDist pe cs = 0 -> lpos (pr ps) <= lpos (pr pe) -> lpos (pr cs) <= lpos (pr ce) ->
  exists x, join_score P prev cur_ = Ok (Some x) /\ (x == 0)%Q.
Proof.
  intros E1 E2 E3 E4 Hr Hq L1 L2. rewrite (join_score_positions P prev cur_ ps pe cs ce E1 E2 E3 E4), Hr, Hq.
  destruct (_ <? 0) eqn:Ec.
  - apply Z.ltb_lt in Ec. unfold refLen, qryLen in Ec. lia.
  - eexists. split; [reflexivity | apply calc_score_contiguous].
Qed.

(* ---------- main statements over Core.chain ---------- *)
Theorem chain_sublist P segs : (forall s, In s segs -> seg_defined s) ->
  exists c, chain P segs = Ok (c ++ empties segs) /\ Sub c (preordered segs) /\
            (preordered segs <> [] -> c <> []) /\ (NoDup segs -> NoDup c).
Proof.
  intros Hdef. exists (chainQ segment seg_score (jsP P) (preordered segs)). split; [apply chain_eq; exact Hdef|].
  destruct (preordered segs) as [|s0 pre'] eqn:E.
  - split; [constructor|]. split; [congruence|]. intros _. cbv. constructor.
  - assert (Hne : s0 :: pre' <> []) by discriminate.
    destruct (chainQ_optimal segment seg_score (jsP P) (s0 :: pre') Hne) as (tb & _ & Hs & Hn & _).
    split; [exact Hs|]. split; [intros _; exact Hn|]. intros Hnd. apply (Sub_NoDup _ _ Hs). rewrite <- E. apply preordered_NoDup. exact Hnd.
Qed.

Theorem chain_best P segs : (forall s, In s segs -> seg_defined s) -> preordered segs <> [] ->
  exists c tbest, chain P segs = Ok (c ++ empties segs) /\ Sub c (preordered segs) /\ c <> [] /\
    chain_total P c = Some tbest /\
    forall c' t, Sub c' (preordered segs) -> chain_total P c' = Some t -> (t <= tbest)%Q.
Proof.
  intros Hdef Hne. destruct (chainQ_optimal segment seg_score (jsP P) (preordered segs) Hne) as (tb & Ht & Hs & Hn & Hopt).
  exists (chainQ segment seg_score (jsP P) (preordered segs)), tb. split; [apply chain_eq; exact Hdef|]. repeat split; assumption.
Qed.

(* consecutive members of the chain are joined admissibly *)
Theorem chain_finite P segs : (forall s, In s segs -> seg_defined s) ->
  exists c, chain P segs = Ok (c ++ empties segs) /\
    forall c1 a b c2, c = c1 ++ a :: b :: c2 -> exists x, join_score P a b = Ok (Some x).
Proof.
  intros Hdef. exists (chainQ segment seg_score (jsP P) (preordered segs)). split; [apply chain_eq; exact Hdef|].
  intros c1 a b c2 E. destruct (preordered segs) as [|s0 pre'] eqn:Ep.
  - cbv in E. destruct c1; discriminate.
  - assert (Hne : s0 :: pre' <> []) by discriminate.
    destruct (chainQ_optimal segment seg_score (jsP P) (s0 :: pre') Hne) as (tb & Ht & Hs & _ & _).
    destruct (total_consecutive Q segment qadd 0%Q seg_score (jsP P) _ tb c1 a b c2 Ht E) as (x & Hx).
    exists x. rewrite <- Hx. apply join_score_defined; apply Hdef.
    + apply (preordered_in a segs). rewrite Ep. apply (Sub_in _ _ a Hs). rewrite E. apply in_or_app. right. left. reflexivity.
    + apply (preordered_in b segs). rewrite Ep. apply (Sub_in _ _ b Hs). rewrite E. apply in_or_app. right. right. left. reflexivity.
Qed.

Theorem chain_half_overlap P segs : (forall s, In s segs -> seg_defined s) ->
  exists c, chain P segs = Ok (c ++ empties segs) /\
    forall c1 prev cur_ c2, c = c1 ++ prev :: cur_ :: c2 ->
    exists ps pe cs ce, start_position prev = Ok ps /\ end_position prev = Ok pe /\ start_position cur_ = Ok cs /\ end_position cur_ = Ok ce /\
      0 <= refLen ps pe cs ce + 2 * refDist pe cs /\ 0 <= qryLen ps pe cs ce + 2 * qryDist pe cs.
Proof.
  intros Hdef. destruct (chain_finite P segs Hdef) as (c & Hc & Hfin). exists c. split; [exact Hc|].
  intros c1 prev cur_ c2 E. destruct (Hfin c1 prev cur_ c2 E) as (x & Hx).
  destruct (join_score_some P prev cur_ x Hx) as (ps & pe & cs & ce & E1 & E2 & E3 & E4 & H1 & H2 & _).
  exists ps, pe, cs, ce. repeat split; assumption.
Qed.

(* the pre-order: a stable ascending sort of the non-empty segments on the key *)
Theorem preordered_spec segs :
  Permutation (preordered segs) (nonempties segs) /\ ksorted okey (preordered segs) /\
  forall k, filter (fun s => okey s =? k) (preordered segs) = filter (fun s => okey s =? k) (nonempties segs).
Proof. unfold preordered. split; [apply sort_by_perm|]. split; [apply sort_by_sorted|]. intros k. apply sort_by_filter. Qed.

Lemma okey_value s a e : start_position s = Ok a -> end_position s = Ok e -> okey s = lpos (pr a) + lpos (pr e) + lpos (pq a) + lpos (pq e).
Proof. intros E1 E2. unfold okey, order_key. rewrite E1, E2. reflexivity. Qed.

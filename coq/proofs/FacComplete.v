(* Completeness of the segment builder in the regime of the default parameters (minScore <= breakSegmentThreshold;
   defaults 1000 and 1200): if ANY run of the scored list meets the clauses of C13 (positive prefixes, no drop of
   breakSegmentThreshold or more, score >= minScore), at least one segment is returned - so there the empty segment
   is returned IF AND ONLY IF no run qualifies.  For breakSegmentThreshold < minScore this fails (FacConverse.v).
   Proof: a second invariant J over the scan, on top of Inv of FacProofs.v: while nothing has been accepted, no
   run_ok interval starting before the current stretch reaches the element that caused the last break, and every
   one of them scores below minScore. *)
From Coq Require Import ZArith List Bool Lia Sorting.Sorted.
Import ListNotations.
Require Import Fac Psum FacProofs.
Open Scope Z_scope.

Section C.
Variables ms bs : Z.
Hypothesis Hms : 0 < ms.
Hypothesis Hbs : ms <= bs.

Definition J (p : list Z) (s : fst_) : Prop :=
  fres s = [] -> forall a b, (a < b <= length p)%nat -> (a < cstart s)%nat -> run_ok bs p a b ->
  (b < cstart s)%nat /\ psum p a b < ms.

Lemma run_ok_prefix p a b b' : run_ok bs p a b -> (b' <= b)%nat -> run_ok bs p a b'.
Proof. intros H Hb j Hj. apply H. lia. Qed.

Lemma run_ok_app_inv p x a b : (b <= length p)%nat -> run_ok bs (p ++ [x]) a b -> run_ok bs p a b.
Proof. intros Hb H j Hj. destruct (H j Hj) as (H1 & H2). rewrite psum_app_l in H1 by lia. split; [exact H1|].
  intros i Hi. specialize (H2 i Hi). rewrite !psum_app_l in H2 by lia. exact H2. Qed.

Lemma stretch_nonneg p s a : Inv ms bs p s -> (cstart s <= a <= cend s)%nat -> 0 <= psum p (cstart s) a.
Proof. intros HI Ha. destruct (Nat.eq_dec a (cstart s)) as [->|N]; [rewrite psum_same; lia|].
  destruct (i_run ms bs p s HI a ltac:(lia)) as (H & _). lia. Qed.

Lemma within_stretch p s a b : Inv ms bs p s -> (cstart s <= a < b)%nat -> (b <= cend s)%nat -> psum p a b <= cur_score s.
Proof. intros HI Ha Hb. pose proof (psum_split p (cstart s) a b ltac:(lia)) as Hs.
  pose proof (i_le ms bs p s HI b ltac:(lia)) as Hle. pose proof (stretch_nonneg p s a HI ltac:(lia)). lia. Qed.

Lemma add_none s : fres (add_if_enough ms s) = [] -> fres s = [] /\ cur_score s < ms.
Proof. unfold add_if_enough. destruct (ms <=? cur_score s) eqn:E.
  - apply Z.leb_le in E. destruct (cur s) as [c|] eqn:Ec.
    + cbn [fres]. intros H. apply app_eq_nil in H. destruct H as (_ & H). discriminate H.
    + unfold cur_score in E. rewrite Ec in E. lia.
  - apply Z.leb_gt in E. intros H. split; [exact H | exact E]. Qed.

Lemma J_init : J [] finit.
Proof. intros _ a b Hab. cbn in Hab. lia. Qed.

Lemma J_step p s x : Inv ms bs p s -> J p s -> J (p ++ [x]) (fstep ms bs s x).
Proof.
  intros HI HJ. pose proof (i_end ms bs p s HI) as Hend. pose proof (i_start ms bs p s HI) as Hst.
  unfold fstep. cbv zeta. destruct (ext s + x <=? Z.max 0 (cur_score s - bs)) eqn:E.
  - (* break *)
    apply Z.leb_le in E. intros Hres. cbn [fres] in Hres. destruct (add_none s Hres) as (Hres0 & Hlow).
    assert (E0 : ext s + x <= 0) by lia.
    intros a b Hab Ha Hrun. rewrite app_length in Hab. cbn [length] in Hab. cbn [cstart] in *.
    assert (Hlast : (b <= length p)%nat).
    { destruct (Nat.le_gt_cases b (length p)) as [Hle|Hgt]; [exact Hle|]. exfalso. assert (b = S (length p)) by lia. subst b.
      destruct (Nat.lt_ge_cases a (cstart s)) as [Hlt|Hge].
      - assert (Hr : run_ok bs p a (cstart s)).
        { apply run_ok_app_inv with (x := x); [lia|]. apply run_ok_prefix with (b := S (length p)); [exact Hrun | lia]. }
        destruct (HJ Hres0 a (cstart s) ltac:(lia) Hlt Hr) as (Hc & _). lia.
      - destruct (Hrun (S (length p)) ltac:(lia)) as (Hpos & _).
        pose proof (psum_split (p ++ [x]) (cstart s) a (S (length p)) ltac:(lia)) as Hs.
        rewrite (psum_snoc p x (cstart s)) in Hs by lia. rewrite (psum_app_l p [x] (cstart s) a) in Hs by lia.
        pose proof (i_ext ms bs p s HI) as Hext. rewrite Hend in Hext.
        pose proof (stretch_nonneg p s a HI ltac:(lia)). lia. }
    split; [lia|]. rewrite psum_app_l by lia. pose proof (run_ok_app_inv p x a b Hlast Hrun) as Hr.
    destruct (Nat.lt_ge_cases a (cstart s)) as [Hlt|Hge].
    + destruct (HJ Hres0 a b ltac:(lia) Hlt Hr) as (_ & H). exact H.
    + pose proof (within_stretch p s a b HI ltac:(lia) ltac:(lia)). lia.
  - (* no break: same stretch, same result list *)
    assert (Hsame : fres s = [] -> forall a b, (a < b <= length (p ++ [x]))%nat -> (a < cstart s)%nat -> run_ok bs (p ++ [x]) a b ->
                    (b < cstart s)%nat /\ psum (p ++ [x]) a b < ms).
    { intros Hres a b Hab Ha Hrun. rewrite app_length in Hab. cbn [length] in Hab.
      destruct (Nat.le_gt_cases b (length p)) as [Hle|Hgt].
      - rewrite psum_app_l by lia. apply (HJ Hres a b ltac:(lia) Ha). apply run_ok_app_inv with (x := x); [lia | exact Hrun].
      - exfalso. assert (Hr : run_ok bs p a (cstart s)).
        { apply run_ok_app_inv with (x := x); [lia|]. apply run_ok_prefix with (b := b); [exact Hrun | lia]. }
        destruct (HJ Hres a (cstart s) ltac:(lia) Ha Hr) as (Hc & _). lia. }
    destruct (cur_score s <? ext s + x); intros Hres; cbn [fres cstart] in *; apply (Hsame Hres).
Qed.

Lemma J_run l : J l (frun ms bs l).
Proof. unfold frun. induction l as [|x p IH] using rev_ind; [apply J_init|].
  rewrite fold_left_app. cbn [fold_left]. apply J_step; [apply (inv_run ms bs Hms) | exact IH]. Qed.

Theorem factory_complete l r : seg_ok ms bs l r -> factory_ranges ms bs l <> [].
Proof.
  intros (Hab & Hx & Hge & Hrun & _) Hnil. unfold factory_ranges in Hnil.
  destruct (add_none _ Hnil) as (Hres & Hlow).
  pose proof (inv_run ms bs Hms l) as HI. pose proof (i_end ms bs l _ HI) as Hend.
  destruct (Nat.lt_ge_cases (rA r) (cstart (frun ms bs l))) as [Hlt|Hge'].
  - destruct (J_run l Hres (rA r) (rB r) Hab Hlt Hrun) as (_ & H). lia.
  - pose proof (within_stretch l _ (rA r) (rB r) HI ltac:(lia) ltac:(lia)). lia.
Qed.

Corollary factory_empty_iff_no_run l : factory_ranges ms bs l = [] <-> (forall r, ~ seg_ok ms bs l r).
Proof. split.
  - intros Hnil r Hr. exact (factory_complete l r Hr Hnil).
  - intros Hno. destruct (factory_ranges ms bs l) as [|r rs] eqn:E; [reflexivity|]. exfalso.
    destruct (factory_spec ms bs Hms l) as (Hok & _). rewrite E in Hok. inversion Hok as [|? ? Hr _]. exact (Hno r Hr).
Qed.
End C.

(* non-vacuity in the regime of the defaults (minScore 1000, breakSegmentThreshold 1200): a run with an unpaired position inside *)
Lemma complete_example : seg_ok 1000 1200 [1000; -250; 1000] (0%nat, 3%nat, 1750) /\
                         factory_ranges 1000 1200 [1000; -250; 1000] = [(0%nat, 3%nat, 1750)] /\ 0 < 1000 <= 1200.
Proof.
  split; [|split; [vm_compute; reflexivity | lia]].
  unfold seg_ok, rA, rB, rX. cbn [fst snd length].
  split; [lia|]. split; [vm_compute; reflexivity|]. split; [lia|]. split.
  - intros j Hj. assert (Ej : j = 1%nat \/ j = 2%nat \/ j = 3%nat) by lia.
    destruct Ej as [-> | [-> | ->]]; (split; [vm_compute; reflexivity|]); intros i Hi.
    + lia.
    + assert (i = 1%nat) by lia. subst i. vm_compute. reflexivity.
    + assert (Ei : i = 1%nat \/ i = 2%nat) by lia. destruct Ei as [-> | ->]; vm_compute; reflexivity.
  - intros j Hj. assert (Ej : j = 1%nat \/ j = 2%nat) by lia. destruct Ej as [-> | ->]; vm_compute; reflexivity.
Qed.

Print Assumptions factory_complete.
Print Assumptions factory_empty_iff_no_run.

(* Lemmas for C17, part 2: the property clauses, derived from the closed form read_spec (CmapProofs.cmap_read_spec). *)
From Coq Require Import ZArith List Bool Lia Sorting.Permutation Sorting.Sorted.
Import ListNotations.
Require Import Py Pairing Cmap PyProofs CmapProofs.
Open Scope Z_scope.

(* ---------------------------------------------------------------- what "read exactly" means *)
(* one returned map: ascending positions that are exactly (as a multiset) the label positions of that id in the file,
   length = truncated position of the FIRST end-marker row of that id, shift 0 *)
Definition map_ok (rows : list row) (m : omap) : Prop :=
  StronglySorted Z.le (mpositions m) /\ Permutation (mpositions m) (labels_of rows (mid m)) /\
  mlen m = trunc_bp (hd 0 (markers_of rows (mid m))) /\ mshift m = 0.
(* the returned list: ids strictly ascending, exactly the selected ids with at least one label row, each map_ok *)
Definition read_ok (rows : list row) (ids : list Z) (ms : list omap) : Prop :=
  StronglySorted Z.lt (map mid ms) /\
  (forall i, In i (map mid ms) <-> sel ids i /\ labels_of rows i <> []) /\
  Forall (map_ok rows) ms.

Definition opt_of (rows : list row) (i : Z) : option omap :=
  match sort_values (labels_of rows i) with
  | [] => None
  | ps => Some (mkMap i (trunc_bp (hd 0 (markers_of rows i))) ps 0)
  end.
Definition has_label (rows : list row) (i : Z) : bool := match labels_of rows i with [] => false | _ :: _ => true end.

Lemma has_label_iff rows i : has_label rows i = true <-> labels_of rows i <> [].
Proof. unfold has_label. destruct (labels_of rows i); split; congruence. Qed.
Lemma parse_id_ok rows i : markers_of rows i <> [] -> parse_id rows i = Ok (opt_of rows i).
Proof. unfold parse_id, opt_of. destruct (markers_of rows i); [congruence|reflexivity]. Qed.
Lemma parse_id_err rows i : parse_id rows i = Err <-> markers_of rows i = [].
Proof. unfold parse_id. destruct (markers_of rows i); split; congruence. Qed.

Lemma opt_of_some rows i m : opt_of rows i = Some m -> mid m = i /\ labels_of rows i <> [] /\ map_ok rows m.
Proof. unfold opt_of. destruct (sort_values (labels_of rows i)) as [|p ps] eqn:S; [discriminate|]. intros E. injection E as <-.
  cbn [mid]. split; [reflexivity|]. split.
  - intros F. rewrite F in S. discriminate.
  - unfold map_ok. cbn [mid mlen mpositions mshift]. rewrite <- S.
    repeat split; [apply sort_values_sorted | apply sort_values_perm]. Qed.
Lemma opt_of_none rows i : opt_of rows i = None <-> labels_of rows i = [].
Proof. unfold opt_of. destruct (sort_values (labels_of rows i)) as [|p ps] eqn:S.
  - apply (proj1 (sort_values_nil _)) in S. split; auto.
  - split; [discriminate|]. intros F. rewrite F in S. discriminate. Qed.

Lemma mids_notnull rows ks : map mid (notnull (map (opt_of rows) ks)) = filter (has_label rows) ks.
Proof. induction ks as [|i t IH]; [reflexivity|]. cbn [map notnull filter].
  destruct (opt_of rows i) as [m|] eqn:E.
  - destruct (opt_of_some _ _ _ E) as (Hm & Hl & _). rewrite (proj2 (has_label_iff rows i) Hl). cbn [notnull map]. rewrite Hm, IH. reflexivity.
  - apply opt_of_none in E. unfold has_label at 1. rewrite E. exact IH. Qed.

(* ---------------------------------------------------------------- Err exactly when a selected labelled molecule lacks its end marker *)
Theorem read_err rows ids :
  cmap_read rows ids = Err <-> exists i, sel ids i /\ labels_of rows i <> [] /\ markers_of rows i = [].
Proof.
  rewrite cmap_read_spec. unfold read_spec.
  destruct (mapM (parse_id rows) (filter (selected ids) (keys rows))) as [rs|] eqn:E; cbn [bind].
  - split; [discriminate|]. intros (i & Hs & Hl & Hm). exfalso.
    assert (X : mapM (parse_id rows) (filter (selected ids) (keys rows)) = Err).
    { apply mapM_err. exists i. split; [|apply parse_id_err, Hm]. apply filter_In. split; [apply labels_key, Hl | apply selected_sel, Hs]. }
    congruence.
  - split; [|reflexivity]. intros _. apply mapM_err in E. destruct E as (i & Hi & Ei). apply filter_In in Hi. destruct Hi as (Hk & Hs).
    apply parse_id_err in Ei. exists i. split; [apply selected_sel, Hs|]. split; [|exact Ei].
    destruct (key_has_row rows i Hk) as [H|H]; [exact H|congruence].
Qed.

(* ---------------------------------------------------------------- C17_read_exact *)
Lemma read_ok_form rows ids :
  (forall i, sel ids i -> labels_of rows i <> [] -> markers_of rows i <> []) ->
  cmap_read rows ids = Ok (notnull (map (opt_of rows) (filter (selected ids) (keys rows)))).
Proof.
  intros H. rewrite cmap_read_spec. unfold read_spec. rewrite (mapM_ok _ (opt_of rows)); [reflexivity|].
  intros i Hi. apply filter_In in Hi. destruct Hi as (Hk & Hs). apply parse_id_ok.
  destruct (key_has_row rows i Hk) as [Hl|Hm]; [|exact Hm]. apply H; [apply selected_sel, Hs | exact Hl].
Qed.

Lemma form_read_ok rows ids : read_ok rows ids (notnull (map (opt_of rows) (filter (selected ids) (keys rows)))).
Proof.
  unfold read_ok. rewrite mids_notnull. split; [|split].
  - apply sorted_filter, sorted_filter, keys_sorted.
  - intros i. rewrite !filter_In, has_label_iff, selected_sel. split; [tauto|]. intros (Hs & Hl). repeat split; try assumption. apply labels_key, Hl.
  - apply Forall_forall. intros m Hm. apply in_notnull, in_map_iff in Hm. destruct Hm as (i & E & _). apply (opt_of_some _ _ _ E).
Qed.

Theorem read_exact rows ids :
  (forall i, sel ids i -> labels_of rows i <> [] -> markers_of rows i <> []) ->
  exists ms, cmap_read rows ids = Ok ms /\ read_ok rows ids ms.
Proof. intros H. eexists. split; [apply read_ok_form, H | apply form_read_ok]. Qed.

(* read_ok pins the list down completely ("nothing else") *)
Lemma omap_eq m m' : mid m = mid m' -> mlen m = mlen m' -> mpositions m = mpositions m' -> mshift m = mshift m' -> m = m'.
Proof. destruct m, m'; cbn. intros; subst; reflexivity. Qed.
Lemma map_ok_unique rows m m' : mid m = mid m' -> map_ok rows m -> map_ok rows m' -> m = m'.
Proof. intros E (S1 & P1 & L1 & Z1) (S2 & P2 & L2 & Z2). apply omap_eq; [exact E | congruence | | congruence].
  apply sorted_le_perm_eq; [exact S1 | exact S2|]. rewrite P1, P2, E. reflexivity. Qed.
Theorem read_ok_unique rows ids ms ms' : read_ok rows ids ms -> read_ok rows ids ms' -> ms = ms'.
Proof.
  intros (S1 & I1 & F1) (S2 & I2 & F2).
  assert (E : map mid ms = map mid ms'). { apply sorted_lt_unique; [exact S1 | exact S2|]. intros i. rewrite I1, I2. reflexivity. }
  clear S1 S2 I1 I2. revert ms' E F2. induction ms as [|m t IH]; intros [|m' t'] E F2; try discriminate; [reflexivity|].
  cbn [map] in E. injection E as Em Et. inversion F1; inversion F2; subst. f_equal; [eapply map_ok_unique; eassumption | apply IH; assumption].
Qed.
Corollary read_exact_only rows ids ms : cmap_read rows ids = Ok ms -> read_ok rows ids ms.
Proof. intros E.
  assert (H : forall i, sel ids i -> labels_of rows i <> [] -> markers_of rows i <> []).
  { intros i Hs Hl Hm. assert (X : cmap_read rows ids = Err) by (apply read_err; exists i; auto). congruence. }
  rewrite (read_ok_form rows ids H) in E. injection E as <-. apply form_read_ok. Qed.

(* ---------------------------------------------------------------- C17_perm *)
Lemma labels_of_perm rows rows' i : Permutation rows rows' -> Permutation (labels_of rows i) (labels_of rows' i).
Proof. intros P. unfold labels_of. apply Permutation_map, filter_perm', P. Qed.
Lemma markers_of_perm rows rows' i : Permutation rows rows' -> Permutation (markers_of rows i) (markers_of rows' i).
Proof. intros P. unfold markers_of. apply Permutation_map, filter_perm', P. Qed.
Lemma perm_le1 (l l' : list Z) : Permutation l l' -> (length l <= 1)%nat -> l = l'.
Proof. intros P H. destruct l as [|a [|b t]]; cbn in H; [| |lia].
  - apply Permutation_nil in P. congruence.
  - symmetry. apply Permutation_length_1_inv, P. Qed.

Lemma keys_perm rows rows' : Permutation rows rows' -> keys rows' = keys rows.
Proof. intros P. apply sorted_lt_unique; try apply keys_sorted. intros i. rewrite !keys_in.
  split; intros (r & Hr & E); exists r; (split; [|exact E]); [apply (Permutation_in _ (Permutation_sym P)) | apply (Permutation_in _ P)]; exact Hr. Qed.

Theorem read_perm rows rows' ids :
  Permutation rows rows' -> (forall i, (length (markers_of rows i) <= 1)%nat) -> cmap_read rows' ids = cmap_read rows ids.
Proof.
  intros P H1. rewrite !cmap_read_spec. unfold read_spec. rewrite (keys_perm _ _ P).
  rewrite (mapM_ext_in _ (parse_id rows)); [reflexivity|]. intros i _. unfold parse_id.
  rewrite <- (perm_le1 _ _ (markers_of_perm rows rows' i P) (H1 i)).
  rewrite (sort_values_perm_eq _ _ (labels_of_perm rows rows' i P)). reflexivity.
Qed.

(* ---------------------------------------------------------------- C17_filter *)
Lemma mapM_filter_ids (f : Z -> res (option omap)) (p : Z -> bool) :
  (forall x m, f x = Ok (Some m) -> mid m = x) ->
  forall l rs, mapM f l = Ok rs ->
  exists rs', mapM f (filter p l) = Ok rs' /\ notnull rs' = filter (fun m => p (mid m)) (notnull rs).
Proof.
  intros Hf. induction l as [|x t IH]; intros rs E.
  - cbn in E. injection E as <-. exists []. split; reflexivity.
  - cbn [mapM] in E. destruct (f x) as [y|] eqn:Ex; cbn [bind] in E; [|discriminate].
    destruct (mapM f t) as [ys|] eqn:Et; cbn [bind] in E; [|discriminate]. injection E as <-.
    destruct (IH ys eq_refl) as (rs' & E' & N'). cbn [filter]. destruct (p x) eqn:Px.
    + exists (y :: rs'). cbn [mapM]. rewrite Ex, E'. cbn [bind]. split; [reflexivity|].
      destruct y as [m|]; cbn [notnull filter]; [|exact N']. rewrite (Hf _ _ Ex), Px, N'. reflexivity.
    + exists rs'. split; [exact E'|]. destruct y as [m|]; cbn [notnull filter]; [|exact N']. rewrite (Hf _ _ Ex), Px. exact N'.
Qed.
Lemma parse_id_mid rows x m : parse_id rows x = Ok (Some m) -> mid m = x.
Proof. unfold parse_id. destruct (markers_of rows x); [discriminate|]. destruct (sort_values _); [discriminate|]. intros E. injection E as <-. reflexivity. Qed.

Theorem read_filter rows ids ms : ids <> [] -> cmap_read rows [] = Ok ms ->
  cmap_read rows ids = Ok (filter (fun m => mem_id (mid m) ids) ms).
Proof.
  intros Hne. rewrite !cmap_read_spec. unfold read_spec.
  rewrite (filter_all (selected []) (keys rows)) by reflexivity.
  destruct (mapM (parse_id rows) (keys rows)) as [rs|] eqn:E; cbn [bind]; [|discriminate]. intros X. injection X as <-.
  destruct (mapM_filter_ids (parse_id rows) (selected ids) (parse_id_mid rows) _ _ E) as (rs' & E' & N').
  rewrite E'. cbn [bind]. rewrite N'. f_equal. apply filter_ext_in'. intros m _. destruct ids; [congruence|reflexivity].
Qed.
(* restricting the ids never introduces an error *)
Theorem read_filter_err rows ids : cmap_read rows ids = Err -> cmap_read rows [] = Err.
Proof. intros H. apply read_err in H. destruct H as (i & _ & H). apply read_err. exists i. split; [left; reflexivity|exact H]. Qed.

(* ---------------------------------------------------------------- trim *)
Lemma nth_map0 (f : Z -> Z) l a : (a < length l)%nat -> nth a (map f l) 0 = f (nth a l 0).
Proof. intros H. rewrite (nth_indep _ 0 (f 0)) by (rewrite map_length; exact H). apply map_nth. Qed.

Lemma map_sub_sorted c l : StronglySorted Z.le l -> StronglySorted Z.le (map (fun p => p - c) l).
Proof. induction 1 as [|x l Hs IH Hx]; cbn [map]; constructor; [exact IH|]. rewrite Forall_forall in *. intros y Hy.
  apply in_map_iff in Hy. destruct Hy as (z & <- & Hz). specialize (Hx z Hz). lia. Qed.

Theorem trim_spec m first rest : mpositions m = first :: rest ->
  mid (trim m) = mid m /\ mshift (trim m) = 0 /\
  length (mpositions (trim m)) = length (mpositions m) /\
  nth 0 (mpositions (trim m)) 0 = 0 /\
  (forall a b, (a < length (mpositions m))%nat -> (b < length (mpositions m))%nat ->
     nth a (mpositions (trim m)) 0 - nth b (mpositions (trim m)) 0 = nth a (mpositions m) 0 - nth b (mpositions m) 0) /\
  mlen (trim m) = last (mpositions m) 0 - first + K /\
  (StronglySorted Z.le (mpositions m) -> StronglySorted Z.le (mpositions (trim m))).
Proof.
  intros E. unfold trim. rewrite E. cbn [mid mshift mlen mpositions]. rewrite <- E.
  repeat split.
  - apply map_length.
  - rewrite E. cbn. lia.
  - intros a b Ha Hb. rewrite !nth_map0 by assumption. lia.
  - apply map_sub_sorted.
Qed.

Theorem trim_empty m : mpositions m = [] -> trim m = m.
Proof. intros E. unfold trim. rewrite E. reflexivity. Qed.

Theorem trim_idempotent m : trim (trim m) = trim m.
Proof.
  destruct (mpositions m) as [|p0 rest] eqn:E.
  - rewrite (trim_empty m E). apply trim_empty, E.
  - assert (Ht : trim m = mkMap (mid m) (last (p0 :: rest) 0 - p0 + K) (map (fun p => p - p0) (p0 :: rest)) 0).
    { unfold trim. rewrite E. reflexivity. }
    rewrite Ht. unfold trim at 1. cbn [mpositions mid map].
    apply omap_eq; cbn [mid mlen mpositions mshift]; try reflexivity.
    + change ((p0 - p0) :: map (fun p => p - p0) rest) with (map (fun p => p - p0) (p0 :: rest)).
      rewrite (last_map' (fun p => p - p0) (p0 :: rest) 0 0) by congruence. lia.
    + f_equal; [lia|]. rewrite map_map. apply map_ext. intros; lia.
Qed.

(* ---------------------------------------------------------------- verified boolean checkers used by the harness (code 2) *)
Fixpoint list_eqb (a b : list Z) : bool :=
  match a, b with [], [] => true | x :: s, y :: t => (x =? y) && list_eqb s t | _, _ => false end.
Lemma list_eqb_eq a : forall b, list_eqb a b = true <-> a = b.
Proof. induction a as [|x s IH]; intros [|y t]; cbn [list_eqb]; try (split; congruence).
  rewrite andb_true_iff, Z.eqb_eq, IH. split; [intros (-> & ->); reflexivity | intros H; injection H; auto]. Qed.

Fixpoint asc_lt_b (l : list Z) : bool :=
  match l with a :: (b :: _) as t => (a <? b) && asc_lt_b t | _ => true end.
Lemma asc_lt_b_sorted l : asc_lt_b l = true <-> StronglySorted Z.lt l.
Proof. induction l as [|a t IH]; [split; [constructor|reflexivity]|]. destruct t as [|b u].
  - split; [repeat constructor|reflexivity].
  - change (asc_lt_b (a :: b :: u)) with ((a <? b) && asc_lt_b (b :: u)). rewrite andb_true_iff, Z.ltb_lt, IH. split.
    + intros (Hab & Hs). constructor; [exact Hs|]. inversion Hs as [|? ? _ Hb]; subst. constructor; [exact Hab|].
      rewrite Forall_forall in *. intros z Hz. specialize (Hb z Hz). lia.
    + intros Hs. inversion Hs as [|? ? Ht Ha]; subst. split; [|exact Ht]. inversion Ha; assumption. Qed.

Definition map_ok_b (rows : list row) (ids : list Z) (m : omap) : bool :=
  selected ids (mid m) && has_label rows (mid m) &&
  list_eqb (mpositions m) (sort_values (labels_of rows (mid m))) &&
  (mlen m =? trunc_bp (hd 0 (markers_of rows (mid m)))) && (mshift m =? 0).
Definition read_ok_b (rows : list row) (ids : list Z) (ms : list omap) : bool :=
  asc_lt_b (map mid ms) && forallb (map_ok_b rows ids) ms &&
  forallb (fun r => negb (selected ids (rid r)) || (rch r =? 0) || mem_id (rid r) (map mid ms)) rows.

Lemma label_row rows i : labels_of rows i <> [] <-> exists r, In r rows /\ rid r = i /\ rch r <> 0.
Proof. unfold labels_of. split.
  - intros H. destruct (filter _ rows) as [|r t] eqn:E; [exfalso; apply H; reflexivity|].
    assert (Hr : In r (r :: t)) by (left; reflexivity). rewrite <- E in Hr. apply filter_In in Hr. destruct Hr as (Hr & C).
    apply andb_true_iff in C. destruct C as (C1 & C2). exists r. split; [exact Hr|]. split; [apply Z.eqb_eq, C1|].
    apply negb_true_iff, Z.eqb_neq in C2. exact C2.
  - intros (r & Hr & Ei & Ec) F. apply map_eq_nil in F.
    assert (Hin : In r (filter (fun r => (rid r =? i) && negb (rch r =? 0)) rows)).
    { apply filter_In. split; [exact Hr|]. apply andb_true_iff. split; [apply Z.eqb_eq, Ei | apply negb_true_iff, Z.eqb_neq, Ec]. }
    rewrite F in Hin. destruct Hin. Qed.

Theorem read_ok_b_correct rows ids ms : read_ok_b rows ids ms = true <-> read_ok rows ids ms.
Proof.
  unfold read_ok_b, read_ok. rewrite !andb_true_iff, asc_lt_b_sorted, !forallb_forall. split.
  - intros ((Hs & Hm) & Hr). split; [exact Hs|]. split.
    + intros i. split.
      * intros Hi. apply in_map_iff in Hi. destruct Hi as (m & <- & Hin). specialize (Hm m Hin). unfold map_ok_b in Hm.
        rewrite !andb_true_iff in Hm. destruct Hm as ((((A & B) & _) & _) & _). split; [apply selected_sel, A | apply has_label_iff, B].
      * intros (Hsel & Hl). apply label_row in Hl. destruct Hl as (r & Hin & <- & Hc). specialize (Hr r Hin).
        rewrite !orb_true_iff in Hr. destruct Hr as [[Hr|Hr]|Hr].
        -- apply selected_sel in Hsel. rewrite Hsel in Hr. discriminate.
        -- apply Z.eqb_eq in Hr. contradiction.
        -- apply mem_id_In, Hr.
    + apply Forall_forall. intros m Hin. specialize (Hm m Hin). unfold map_ok_b in Hm. rewrite !andb_true_iff in Hm.
      destruct Hm as ((((_ & _) & C) & D) & E). apply list_eqb_eq in C. apply Z.eqb_eq in D, E. unfold map_ok. rewrite C.
      repeat split; [apply sort_values_sorted | apply sort_values_perm | exact D | exact E].
  - intros (Hs & Hi & Hf). rewrite Forall_forall in Hf. split; [split; [exact Hs|]|].
    + intros m Hin. destruct (Hf m Hin) as (S1 & P1 & L1 & Z1).
      destruct (proj1 (Hi (mid m)) (in_map mid _ _ Hin)) as (Hsel & Hl). unfold map_ok_b. rewrite !andb_true_iff. repeat split.
      * apply selected_sel, Hsel.
      * apply has_label_iff, Hl.
      * apply list_eqb_eq. apply sorted_le_perm_eq; [exact S1 | apply sort_values_sorted | rewrite sort_values_perm; exact P1].
      * apply Z.eqb_eq, L1.
      * apply Z.eqb_eq, Z1.
    + intros r Hin. destruct (selected ids (rid r)) eqn:A; [|reflexivity]. destruct (rch r =? 0) eqn:B; [reflexivity|]. cbn [negb orb].
      apply mem_id_In, Hi. split; [apply selected_sel, A|]. apply label_row. exists r. split; [exact Hin|]. split; [reflexivity|]. apply Z.eqb_neq, B.
Qed.

(* the error case, decided on the rows *)
Definition read_err_b (rows : list row) (ids : list Z) : bool :=
  existsb (fun r => selected ids (rid r) && negb (rch r =? 0) && match markers_of rows (rid r) with [] => true | _ :: _ => false end) rows.
Theorem read_err_b_correct rows ids : read_err_b rows ids = true <-> cmap_read rows ids = Err.
Proof. rewrite read_err. unfold read_err_b. rewrite existsb_exists. split.
  - intros (r & Hin & H). rewrite !andb_true_iff in H. destruct H as ((A & B) & C). exists (rid r). split; [apply selected_sel, A|]. split.
    + apply label_row. exists r. split; [exact Hin|]. split; [reflexivity|]. apply negb_true_iff, Z.eqb_neq in B. exact B.
    + destruct (markers_of rows (rid r)); [reflexivity|discriminate].
  - intros (i & Hs & Hl & Hm). apply label_row in Hl. destruct Hl as (r & Hin & <- & Hc). exists r. split; [exact Hin|].
    rewrite !andb_true_iff. repeat split; [apply selected_sel, Hs | apply negb_true_iff, Z.eqb_neq, Hc | rewrite Hm; reflexivity].
Qed.

(* trim: the clauses of the property decide the result *)
Fixpoint diffs (l : list Z) : list Z :=
  match l with a :: (b :: _) as t => (b - a) :: diffs t | _ => [] end.
Definition omap_eqb (a b : omap) : bool :=
  (mid a =? mid b) && (mlen a =? mlen b) && list_eqb (mpositions a) (mpositions b) && (mshift a =? mshift b).
Lemma omap_eqb_eq a b : omap_eqb a b = true <-> a = b.
Proof. unfold omap_eqb. rewrite !andb_true_iff, !Z.eqb_eq, list_eqb_eq. split.
  - intros (((A & B) & C) & D). apply omap_eq; assumption.
  - intros ->. auto. Qed.
Definition trim_ok_b (m t : omap) : bool :=
  match mpositions m with
  | [] => omap_eqb t m
  | first :: _ =>
    (mid t =? mid m) && (mshift t =? 0) &&
    Nat.eqb (length (mpositions t)) (length (mpositions m)) &&
    (hd 1 (mpositions t) =? 0) &&
    list_eqb (diffs (mpositions t)) (diffs (mpositions m)) &&
    (mlen t =? last (mpositions m) 0 - first + K)
  end.

Lemma diffs_determine c l : forall l', length l' = length l -> diffs l' = diffs l ->
  (forall a t, l = a :: t -> hd (a - c + 1) l' = a - c) -> l' = map (fun p => p - c) l.
Proof.
  induction l as [|a t IH]; intros l' Hlen Hd Hh.
  - destruct l'; [reflexivity|discriminate].
  - destruct l' as [|a' t']; [discriminate|]. cbn [map]. specialize (Hh a t eq_refl) as Ha. cbn [hd] in Ha. subst a'. f_equal.
    cbn [length] in Hlen. injection Hlen as Hlen. apply IH; [exact Hlen| |].
    + destruct t as [|b u], t' as [|b' u']; try discriminate; [reflexivity|].
      change (diffs ((a - c) :: b' :: u')) with ((b' - (a - c)) :: diffs (b' :: u')) in Hd.
      change (diffs (a :: b :: u)) with ((b - a) :: diffs (b :: u)) in Hd. injection Hd as _ Hd. exact Hd.
    + intros b u Et. subst t. destruct t' as [|b' u']; [discriminate|]. cbn [hd].
      change (diffs ((a - c) :: b' :: u')) with ((b' - (a - c)) :: diffs (b' :: u')) in Hd.
      change (diffs (a :: b :: u)) with ((b - a) :: diffs (b :: u)) in Hd. injection Hd as Hd _. lia.
Qed.
Lemma diffs_map c l : diffs (map (fun p => p - c) l) = diffs l.
Proof. induction l as [|a t IH]; [reflexivity|]. destruct t as [|b u]; [reflexivity|].
  change (diffs (map (fun p => p - c) (a :: b :: u))) with ((b - c - (a - c)) :: diffs (map (fun p => p - c) (b :: u))).
  rewrite IH. change (diffs (a :: b :: u)) with ((b - a) :: diffs (b :: u)). f_equal. lia. Qed.

Theorem trim_ok_b_correct m t : trim_ok_b m t = true <-> t = trim m.
Proof.
  unfold trim_ok_b, trim. destruct (mpositions m) as [|p0 rest] eqn:E; [apply omap_eqb_eq|].
  rewrite !andb_true_iff, !Z.eqb_eq, Nat.eqb_eq, list_eqb_eq. split.
  - intros (((((A & B) & C) & D) & F) & G). apply omap_eq; cbn [mid mlen mpositions mshift]; try assumption.
    apply (diffs_determine p0 (p0 :: rest)); [exact C | exact F|]. intros a u Ea. injection Ea as <- <-.
    destruct (mpositions t) as [|x xs]; [discriminate|]. cbn [hd] in *. lia.
  - intros ->. cbn [mid mlen mpositions mshift]. rewrite map_length, diffs_map. cbn [map hd]. repeat split; lia.
Qed.

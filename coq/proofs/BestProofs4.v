(* C05, part 4: the run-level theorems, for every seeding function, parameters, maxdiff *)
From Coq Require Import ZArith QArith List Bool Lia Sorting.Permutation Sorting.Sorted.
Import ListNotations.
Require Import Py PyProofs Pairing Core Multi Coordinator Peaks BestProofs1 BestProofs2 BestProofs3.
Open Scope Z_scope.

Lemma mem_z_In x l : mem_z x l = true <-> In x l.
Proof. unfold mem_z. rewrite existsb_exists. split.
  - intros (y & Hy & E). apply Z.eqb_eq in E. subst y. exact Hy.
  - intros H. exists x. split; [exact H | apply Z.eqb_refl].
Qed.

Lemma set_rest_qid l : map qid (map set_rest l) = map qid l.
Proof. rewrite map_map. reflexivity. Qed.
Lemma set_rest_rest l w : In w (map set_rest l) -> rest w = true.
Proof. intros H. apply in_map_iff in H. destruct H as (x & <- & _). reflexivity. Qed.

Lemma NoDup_sub (l s u : list row) : NoDup (map qid l) -> Permutation l (s ++ u) -> NoDup (map qid s).
Proof. intros Hn Hp. apply (Permutation_map qid) in Hp. rewrite map_app in Hp.
  apply (Permutation_NoDup Hp) in Hn. apply NoDup_app_l in Hn. exact Hn. Qed.

Section Run.
Variable P : params.
Variable seeds : seeding.
Variable refs : list omap.

(* ---------- at most one record per query ---------- *)
Theorem unique_query m maxdiff qs o : program_run P seeds m maxdiff refs qs = Ok o ->
  kstrict qid (o_main o) /\
  match m with
  | Best => o_1 o = None /\ o_2 o = None
  | Separate => exists f2, o_1 o = Some f2 /\ o_2 o = None /\ kstrict qid f2
  | All_ => exists f1 f2, o_1 o = Some f1 /\ o_2 o = Some f2 /\ kstrict qid f1 /\ kstrict qid f2
  | Joined => exists sep, o_1 o = Some sep /\ o_2 o = None /\
                NoDup (map qid (filter (fun w => negb (rest w)) sep)) /\ NoDup (map qid (filter rest sep)) /\
                forall c, (count_occ Z.eq_dec (map qid sep) c <= 2)%nat
  end.
Proof. intros H. apply program_run_inv in H. destruct H as (o' & H & ->). cbn [o_main o_1 o_2]. split; [apply fs_sorted|].
  apply multi_execute_inv in H. destruct H as (rows1 & it1 & frags & rows2 & it2 & E1 & Ef & E2 & H). cbn zeta in H. destruct m.
  - destruct H as (joined & sep & _ & ->). split; reflexivity.
  - subst o'. cbn [o_1 o_2]. eexists. split; [reflexivity|]. split; [reflexivity | apply fs_sorted].
  - destruct H as (joined & sep & Hr & ->). cbn [o_1 o_2]. exists sep. split; [reflexivity|]. split; [reflexivity|].
    set (f1 := filter_subsequent rows1) in *. set (f2 := filter_subsequent (map set_rest rows2)) in *.
    assert (K1 : kstrict qid f1) by apply fs_sorted. assert (K2 : kstrict qid f2) by apply fs_sorted.
    destruct (resolve_two_lists f1 f2 maxdiff joined sep K1 K2 Hr) as (_ & used & HP).
    assert (R1 : forall w, In w f1 -> rest w = false).
    { intros w Hw. apply fs_first_best, first_best_In in Hw. apply (execute_rows _ _ _ _ _ _ _ E1 w Hw). }
    assert (R2 : forall w, In w f2 -> rest w = true).
    { intros w Hw. apply fs_first_best, first_best_In in Hw. apply (set_rest_rest _ _ Hw). }
    split; [|split].
    + pose proof (perm_filter (fun w => negb (rest w)) _ _ HP) as HF. rewrite !filter_app in HF.
      rewrite (filter_all _ f1), (filter_none _ f2), app_nil_r in HF.
      * apply (NoDup_sub _ _ _ (kstrict_NoDup qid f1 K1) HF).
      * intros w Hw. rewrite (R2 w Hw). reflexivity.
      * intros w Hw. rewrite (R1 w Hw). reflexivity.
    + pose proof (perm_filter rest _ _ HP) as HF. rewrite !filter_app in HF.
      rewrite (filter_none _ f1), (filter_all _ f2) in HF; [|exact R2 | exact R1]. cbn [app] in HF.
      apply (NoDup_sub _ _ _ (kstrict_NoDup qid f2 K2) HF).
    + intros c. apply (Permutation_map qid) in HP. rewrite (Permutation_count_occ Z.eq_dec) in HP. specialize (HP c).
      rewrite !map_app, !count_occ_app in HP.
      pose proof (proj1 (NoDup_count_occ Z.eq_dec _) (kstrict_NoDup qid f1 K1) c).
      pose proof (proj1 (NoDup_count_occ Z.eq_dec _) (kstrict_NoDup qid f2 K2) c). lia.
  - destruct H as (joined & sep & _ & ->). cbn [o_1 o_2]. eexists. eexists. split; [reflexivity|]. split; [reflexivity|].
    split; apply fs_sorted.
Qed.

(* ---------- the first-pass file: main of 'separate', _1 of 'all' ---------- *)
Definition first_pass_file (m : mode) (o : outputs) : option (list row) :=
  match m with Separate => Some (o_main o) | All_ => o_1 o | _ => None end.

Theorem first_pass_rows m maxdiff qs o f : program_run P seeds m maxdiff refs qs = Ok o -> first_pass_file m o = Some f ->
  exists rows1 it1, execute P seeds refs qs 1 = Ok (rows1, it1) /\ f = filter_subsequent rows1.
Proof. intros H Hf. apply program_run_inv in H. destruct H as (o' & H & ->).
  apply multi_execute_inv in H. destruct H as (rows1 & it1 & frags & rows2 & it2 & E1 & Ef & E2 & H). cbn zeta in H.
  exists rows1, it1. split; [exact E1|]. destruct m; try discriminate; cbn [first_pass_file o_main o_1] in Hf.
  - subst o'. cbn [o_main] in Hf. rewrite fs_idempotent in Hf. injection Hf as <-. reflexivity.
  - destruct H as (joined & sep & _ & ->). cbn [o_1] in Hf. injection Hf as <-. reflexivity.
Qed.

(* with pairwise distinct query ids in the input: the record of query q in the first-pass file is exactly the best candidate
   of q when that has pairs, and there is no record of q otherwise *)
Theorem first_pass_record m maxdiff qa q qb o f : program_run P seeds m maxdiff refs (qa ++ q :: qb) = Ok o ->
  first_pass_file m o = Some f -> NoDup (map mid (qa ++ q :: qb)) ->
  exists itq ow itq', align_query P seeds refs q itq = Ok (ow, itq') /\ filter (fun w => qid w =? mid q) f = keep ow.
Proof. intros H Hf Hn. destruct (first_pass_rows _ _ _ _ _ H Hf) as (rows1 & it1 & E1 & ->).
  destruct (execute_split _ _ _ _ _ _ _ _ _ E1) as (ra & ia & ow & ib & rb & Ea & Eq & Eb & ->).
  exists ia, ow, ib. split; [exact Eq|].
  rewrite map_app in Hn. cbn [map] in Hn. pose proof (NoDup_remove_2 _ _ _ Hn) as Hnot.
  assert (Fa : filter (fun w => qid w =? mid q) ra = []).
  { apply filter_none. intros w Hw. apply Z.eqb_neq. intros E. apply Hnot. apply in_or_app. left. rewrite <- E.
    apply (execute_rows _ _ _ _ _ _ _ Ea w Hw). }
  assert (Fb : filter (fun w => qid w =? mid q) rb = []).
  { apply filter_none. intros w Hw. apply Z.eqb_neq. intros E. apply Hnot. apply in_or_app. right. rewrite <- E.
    apply (execute_rows _ _ _ _ _ _ _ Eb w Hw). }
  assert (Fk : filter (fun w => qid w =? mid q) (keep ow) = keep ow).
  { apply filter_all. intros w Hw. apply keep_row in Hw. destruct Hw as (-> & _). apply Z.eqb_eq.
    apply (align_query_row _ _ _ _ _ _ _ Eq). }
  assert (F : filter (fun w => qid w =? mid q) (ra ++ keep ow ++ rb) = keep ow).
  { rewrite !filter_app, Fa, Fb, Fk, app_nil_r. reflexivity. }
  destruct (keep ow) as [|w [|w' t]] eqn:Ek.
  - apply fs_filter_none. exact F.
  - apply fs_filter_single. exact F.
  - exfalso. unfold keep in Ek. destruct ow as [x|]; [destruct (row_has_pairs x)|]; discriminate.
Qed.

(* ---------- 'best' mode ---------- *)
Theorem best_mode_total maxdiff qs o : program_run P seeds Best maxdiff refs qs = Ok o ->
  exists rows1 it1 frags rows2 it2,
    execute P seeds refs qs 1 = Ok (rows1, it1) /\ all_fragments rows1 qs = Ok frags /\
    execute P seeds refs frags it1 = Ok (rows2, it2) /\
    kstrict qid (o_main o) /\
    (forall c, In c (map qid (o_main o)) <-> In c (map qid rows1) \/ In c (map qid rows2)) /\
    (* every record is the best row of its query over both passes, or the join of that row with the query's best
       second-pass row; x = y (the second-pass row IS the best row) is not excluded: the row is then joined with itself *)
    let f1 := filter_subsequent (rows1 ++ map set_rest rows2) in
    let f2 := filter_subsequent (map set_rest rows2) in
    forall w, In w (o_main o) ->
      In w f1 \/ exists x y, In x f1 /\ In y f2 /\ qid x = qid w /\ qid y = qid w /\ rid x = rid y /\
                             check_overlap x y maxdiff = true /\ join_rows x y = Ok w /\ joined_ok w = true.
Proof. intros H. apply program_run_inv in H. destruct H as (o' & H & ->). cbn [o_main].
  apply multi_execute_inv in H. destruct H as (rows1 & it1 & frags & rows2 & it2 & E1 & Ef & E2 & H). cbn zeta in H.
  destruct H as (joined & sep & Hr & ->). cbn [o_main].
  exists rows1, it1, frags, rows2, it2. split; [exact E1|]. split; [exact Ef|]. split; [exact E2|]. split; [apply fs_sorted|].
  set (f1 := filter_subsequent (rows1 ++ map set_rest rows2)) in *. set (f2 := filter_subsequent (map set_rest rows2)) in *.
  assert (K1 : kstrict qid f1) by apply fs_sorted. assert (K2 : kstrict qid f2) by apply fs_sorted.
  destruct (resolve_two_lists f1 f2 maxdiff joined sep K1 K2 Hr) as (HJ & _).
  assert (Hids1 : forall c, In c (map qid f1) <-> In c (map qid rows1) \/ In c (map qid rows2)).
  { intros c. unfold f1. rewrite <- fs_ids, map_app, set_rest_qid, in_app_iff. reflexivity. }
  split.
  - intros c. rewrite <- fs_ids. rewrite <- Hids1. split.
    + intros Hc. apply in_map_iff in Hc. destruct Hc as (w & <- & Hw). apply sort_by_in in Hw. apply in_app_or in Hw. destruct Hw as [Hw|Hw].
      * destruct (HJ w Hw) as (x & y & Hx & _ & _ & _ & _ & Hj & _). apply join_rows_qid in Hj. destruct Hj as (-> & _). apply in_map. exact Hx.
      * apply filter_In in Hw. apply in_map. apply Hw.
    + intros Hc. apply in_map_iff in Hc. destruct Hc as (x & <- & Hx).
      destruct (mem_z (qid x) (map qid joined)) eqn:Em.
      * apply mem_z_In in Em. apply in_map_iff in Em. destruct Em as (j & Ej & Hj). rewrite <- Ej. apply in_map.
        apply sort_by_in. apply in_or_app. left. exact Hj.
      * apply in_map. apply sort_by_in. apply in_or_app. right. apply filter_In. split; [exact Hx|]. rewrite Em. reflexivity.
  - intros w Hw. apply fs_first_best, first_best_In in Hw. apply sort_by_in in Hw. apply in_app_or in Hw. destruct Hw as [Hw|Hw].
    + right. destruct (HJ w Hw) as (x & y & Hx & Hy & Hq & Hrid & Hc & Hj & Hk). exists x, y.
      pose proof (join_rows_qid _ _ _ Hj) as (Hqj & _). repeat split; try assumption; congruence.
    + left. apply filter_In in Hw. apply Hw.
Qed.

End Run.

(* ---------- when does the self-join happen ---------- *)
Lemma app_eq_app' {A} (l1 : list A) : forall l2 m1 m2, l1 ++ l2 = m1 ++ m2 ->
  exists l, (l1 = m1 ++ l /\ m2 = l ++ l2) \/ (m1 = l1 ++ l /\ l2 = l ++ m2).
Proof. induction l1 as [|a t IH]; intros l2 m1 m2 H.
  - exists m1. right. split; [reflexivity | exact H].
  - destruct m1 as [|b m1'].
    + exists (a :: t). left. split; [reflexivity | symmetry; exact H].
    + cbn in H. injection H as <- H. destruct (IH _ _ _ H) as (l & [(-> & ->)|(-> & ->)]); exists l; [left | right]; split; reflexivity.
Qed.

Lemma first_best_unique rows x x' : first_best rows x -> first_best rows x' -> qid x = qid x' -> x = x'.
Proof. intros (l1 & l2 & -> & H1 & H2) (m1 & m2 & E & G1 & G2) Hq.
  destruct (app_eq_app' _ _ _ _ E) as (l & [(-> & El)|(-> & El)]).
  - destruct l as [|a l']; [cbn in El; injection El as -> _; reflexivity|]. cbn in El. injection El as <- ->. exfalso.
    assert (A : conf x' < conf x) by (apply H1; [apply in_or_app; right; left; reflexivity | symmetry; exact Hq]).
    assert (B : conf x <= conf x') by (apply G2; [apply in_or_app; right; left; reflexivity | exact Hq]). lia.
  - destruct l as [|a l']; [cbn in El; injection El as -> _; reflexivity|]. cbn in El. injection El as <- ->. exfalso.
    assert (A : conf x < conf x') by (apply G1; [apply in_or_app; right; left; reflexivity | exact Hq]).
    assert (B : conf x' <= conf x) by (apply H2; [apply in_or_app; right; left; reflexivity | symmetry; exact Hq]). lia.
Qed.

Lemma first_best_fs rows x : first_best rows x -> In x (filter_subsequent rows).
Proof. intros H. assert (Hc : In (qid x) (map qid (filter_subsequent rows))) by (apply (proj1 (fs_ids rows (qid x))), in_map, first_best_In; exact H).
  apply in_map_iff in Hc. destruct Hc as (x' & Hq & Hx'). rewrite (first_best_unique rows x x' H (fs_first_best _ _ Hx') (eq_sym Hq)). exact Hx'. Qed.

(* a row kept from a ++ b that does not occur in a is the row kept from b alone *)
Lemma fs_app_right a b x : In x (filter_subsequent (a ++ b)) -> ~ In x a -> In x (filter_subsequent b).
Proof. intros H Hn. apply first_best_fs. apply fs_first_best in H. destruct H as (l1 & l2 & E & H1 & H2).
  destruct (app_eq_app' _ _ _ _ E) as (l & [(-> & El)|(-> & El)]).
  - destruct l as [|y l'].
    + cbn in El. exists [], l2. split; [symmetry; exact El|]. split; [intros y []|exact H2].
    + cbn in El. injection El as <- _. exfalso. apply Hn. apply in_or_app. right. left. reflexivity.
  - exists l, l2. split; [exact El|]. split; [|exact H2]. intros y Hy. apply H1. apply in_or_app. right. exact Hy.
Qed.

Section Run2.
Variable P : params.
Variable seeds : seeding.
Variable refs : list omap.
(* in 'best' mode: if the best row x of a query over both passes is a second-pass row (AlignedRest = True, which no first-pass
   row has), then x is also that query's row in the second-pass list: the (reference, query) group handed to resolve is [x; x] *)
Theorem best_mode_self_join qs it rows1 it1 rows2 x :
  execute P seeds refs qs it = Ok (rows1, it1) ->
  In x (filter_subsequent (rows1 ++ map set_rest rows2)) -> rest x = true -> In x (filter_subsequent (map set_rest rows2)).
Proof. intros E1 Hx Hr. apply (fs_app_right rows1); [exact Hx|]. intros Hin.
  destruct (execute_rows _ _ _ _ _ _ _ E1 x Hin) as (_ & Hf & _). congruence. Qed.
End Run2.

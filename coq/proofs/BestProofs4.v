(* C05, part 4: the run-level theorems, for every seeding function, parameters, maxdiff *)
From Coq Require Import ZArith QArith List Bool Lia Sorting.Permutation Sorting.Sorted.
Import ListNotations.
Require Import Py PyProofs Pairing Core Multi Coordinator Peaks BestProofs1 BestProofs2 BestProofs3 RowEq FreshProofs.
Open Scope Z_scope.

Lemma mem_z_In x l : mem_z x l = true <-> In x l.
Proof. unfold mem_z. rewrite existsb_exists. split.
  - intros (y & Hy & E). apply Z.eqb_eq in E. subst y. exact Hy.
  - intros H. exists x. split; [exact H | apply Z.eqb_refl].
Qed.

Lemma set_rest_qid l : map qid (map set_rest l) = map qid l.
Proof. rewrite map_map. reflexivity. Qed.
Lemma set_rest_rest l w : In w (map set_rest l) -> rest w = true.
Proof. intros H. apply in_map_iff in H. destruct H as (x & <- & _). reflexivity. Qed.

Lemma NoDup_sub (l s u : list row) : NoDup (map qid l) -> Permutation l (s ++ u) -> NoDup (map qid s).
Proof. intros Hn Hp. apply (Permutation_map qid) in Hp. rewrite map_app in Hp.
  apply (Permutation_NoDup Hp) in Hn. apply NoDup_app_l in Hn. exact Hn. Qed.

Section Run.
Variable P : params.
Variable seeds : seeding.
Variable refs : list omap.

(* ---------- at most one record per query ---------- *)
Theorem unique_query m maxdiff qs o : program_run P seeds m maxdiff refs qs = Ok o ->
  kstrict qid (o_main o) /\
  match m with
  | Best => o_1 o = None /\ o_2 o = None
  | Separate => exists f2, o_1 o = Some f2 /\ o_2 o = None /\ kstrict qid f2
  | All_ => exists f1 f2, o_1 o = Some f1 /\ o_2 o = Some f2 /\ kstrict qid f1 /\ kstrict qid f2
  | Joined => exists sep, o_1 o = Some sep /\ o_2 o = None /\
                NoDup (map qid (filter (fun w => negb (rest w)) sep)) /\ NoDup (map qid (filter rest sep)) /\
                forall c, (count_occ Z.eq_dec (map qid sep) c <= 2)%nat
  end.
Proof. intros H. apply program_run_inv in H. destruct H as (o' & H & ->). cbn [o_main o_1 o_2]. split; [apply fs_sorted|].
  apply multi_execute_inv in H. destruct H as (rows1 & it1 & frags & rows2 & it2 & E1 & Ef & E2 & H). cbn zeta in H. destruct m.
  - destruct H as (joined & sep & _ & ->). split; reflexivity.
  - subst o'. cbn [o_1 o_2]. eexists. split; [reflexivity|]. split; [reflexivity | apply fs_sorted].
  - destruct H as (joined & sep & Hr & ->). cbn [o_1 o_2]. exists sep. split; [reflexivity|]. split; [reflexivity|].
    set (f1 := filter_subsequent rows1) in *. set (f2 := filter_subsequent (map set_rest rows2)) in *.
    assert (K1 : kstrict qid f1) by apply fs_sorted. assert (K2 : kstrict qid f2) by apply fs_sorted.
    assert (R1 : forall w, In w f1 -> rest w = false).
    { intros w Hw. apply fs_first_best, first_best_In in Hw. apply (execute_rows _ _ _ _ _ _ _ E1 w Hw). }
    assert (R2 : forall w, In w f2 -> rest w = true).
    { intros w Hw. apply fs_first_best, first_best_In in Hw. apply (set_rest_rest _ _ Hw). }
    rewrite (fresh_rows_rest f1 f2) in Hr by (apply Forall_forall; assumption).
    destruct (resolve_two_lists f1 f2 maxdiff joined sep K1 K2 Hr) as (_ & used & HP).
    split; [|split].
    + pose proof (perm_filter (fun w => negb (rest w)) _ _ HP) as HF. rewrite !filter_app in HF.
      rewrite (filter_all _ f1), (filter_none _ f2), app_nil_r in HF.
      * apply (NoDup_sub _ _ _ (kstrict_NoDup qid f1 K1) HF).
      * intros w Hw. rewrite (R2 w Hw). reflexivity.
      * intros w Hw. rewrite (R1 w Hw). reflexivity.
    + pose proof (perm_filter rest _ _ HP) as HF. rewrite !filter_app in HF.
      rewrite (filter_none _ f1), (filter_all _ f2) in HF; [|exact R2 | exact R1]. cbn [app] in HF.
      apply (NoDup_sub _ _ _ (kstrict_NoDup qid f2 K2) HF).
    + intros c. apply (Permutation_map qid) in HP. rewrite (Permutation_count_occ Z.eq_dec) in HP. specialize (HP c).
      rewrite !map_app, !count_occ_app in HP.
      pose proof (proj1 (NoDup_count_occ Z.eq_dec _) (kstrict_NoDup qid f1 K1) c).
      pose proof (proj1 (NoDup_count_occ Z.eq_dec _) (kstrict_NoDup qid f2 K2) c). lia.
  - destruct H as (joined & sep & _ & ->). cbn [o_1 o_2]. eexists. eexists. split; [reflexivity|]. split; [reflexivity|].
    split; apply fs_sorted.
Qed.

(* ---------- the first-pass file: main of 'separate', _1 of 'all' ---------- *)
Definition first_pass_file (m : mode) (o : outputs) : option (list row) :=
  match m with Separate => Some (o_main o) | All_ => o_1 o | _ => None end.

Theorem first_pass_rows m maxdiff qs o f : program_run P seeds m maxdiff refs qs = Ok o -> first_pass_file m o = Some f ->
  exists rows1 it1, execute P seeds refs qs 1 = Ok (rows1, it1) /\ f = filter_subsequent rows1.
Proof. intros H Hf. apply program_run_inv in H. destruct H as (o' & H & ->).
  apply multi_execute_inv in H. destruct H as (rows1 & it1 & frags & rows2 & it2 & E1 & Ef & E2 & H). cbn zeta in H.
  exists rows1, it1. split; [exact E1|]. destruct m; try discriminate; cbn [first_pass_file o_main o_1] in Hf.
  - subst o'. cbn [o_main] in Hf. rewrite fs_idempotent in Hf. injection Hf as <-. reflexivity.
  - destruct H as (joined & sep & _ & ->). cbn [o_1] in Hf. injection Hf as <-. reflexivity.
Qed.

(* with pairwise distinct query ids in the input: the record of query q in the first-pass file is exactly the best candidate
   of q when that has pairs, and there is no record of q otherwise *)
Theorem first_pass_record m maxdiff qa q qb o f : program_run P seeds m maxdiff refs (qa ++ q :: qb) = Ok o ->
  first_pass_file m o = Some f -> NoDup (map mid (qa ++ q :: qb)) ->
  exists itq ow itq', align_query P seeds refs q itq = Ok (ow, itq') /\ filter (fun w => qid w =? mid q) f = keep ow.
Proof. intros H Hf Hn. destruct (first_pass_rows _ _ _ _ _ H Hf) as (rows1 & it1 & E1 & ->).
  destruct (execute_split _ _ _ _ _ _ _ _ _ E1) as (ra & ia & ow & ib & rb & Ea & Eq & Eb & ->).
  exists ia, ow, ib. split; [exact Eq|].
  rewrite map_app in Hn. cbn [map] in Hn. pose proof (NoDup_remove_2 _ _ _ Hn) as Hnot.
  assert (Fa : filter (fun w => qid w =? mid q) ra = []).
  { apply filter_none. intros w Hw. apply Z.eqb_neq. intros E. apply Hnot. apply in_or_app. left. rewrite <- E.
    apply (execute_rows _ _ _ _ _ _ _ Ea w Hw). }
  assert (Fb : filter (fun w => qid w =? mid q) rb = []).
  { apply filter_none. intros w Hw. apply Z.eqb_neq. intros E. apply Hnot. apply in_or_app. right. rewrite <- E.
    apply (execute_rows _ _ _ _ _ _ _ Eb w Hw). }
  assert (Fk : filter (fun w => qid w =? mid q) (keep ow) = keep ow).
  { apply filter_all. intros w Hw. apply keep_row in Hw. destruct Hw as (-> & _). apply Z.eqb_eq.
    apply (align_query_row _ _ _ _ _ _ _ Eq). }
  assert (F : filter (fun w => qid w =? mid q) (ra ++ keep ow ++ rb) = keep ow).
  { rewrite !filter_app, Fa, Fb, Fk, app_nil_r. reflexivity. }
  destruct (keep ow) as [|w [|w' t]] eqn:Ek.
  - apply fs_filter_none. exact F.
  - apply fs_filter_single. exact F.
  - exfalso. unfold keep in Ek. destruct ow as [x|]; [destruct (row_has_pairs x)|]; discriminate.
Qed.

(* ---------- 'best' mode ---------- *)
(* a second-pass row of the filtered first list is the query's row of the filtered second list (first-pass rows carry AlignedRest False) *)
Lemma best_mode_rest_row qs it rows1 it1 rows2 x :
  execute P seeds refs qs it = Ok (rows1, it1) ->
  In x (filter_subsequent (rows1 ++ map set_rest rows2)) -> rest x = true -> In x (filter_subsequent (map set_rest rows2)).
Proof. intros E1 Hx Hr. apply (fs_app_right rows1); [exact Hx|]. intros Hin.
  destruct (execute_rows _ _ _ _ _ _ _ E1 x Hin) as (_ & Hf & _). congruence. Qed.

(* the two parts of a joined record of `best` mode (after repair F12): x, the query's best row over both passes, is a FIRST-pass row;
   y, the query's best second-pass row, is a different row *)
Lemma best_parts qs it rows1 it1 rows2 x y :
  execute P seeds refs qs it = Ok (rows1, it1) ->
  let f1 := filter_subsequent (rows1 ++ map set_rest rows2) in
  let f2 := filter_subsequent (map set_rest rows2) in
  In x f1 -> In y (fresh_rows f1 f2) -> qid x = qid y ->
  In y f2 /\ ~ In y f1 /\ x <> y /\ rest x = false /\ rest y = true.
Proof. intros E1 f1 f2 Hx Hy Hq. apply fresh_rows_in in Hy. destruct Hy as (Hy & Hn).
  assert (Ry : rest y = true) by (apply fs_first_best, first_best_In in Hy; apply (set_rest_rest _ _ Hy)).
  assert (Rx : rest x = false).
  { destruct (rest x) eqn:R; [|reflexivity]. exfalso. apply Hn.
    pose proof (best_mode_rest_row qs it rows1 it1 rows2 x E1 Hx R) as Hx2.
    rewrite <- (kstrict_same_key qid f2 x y (fs_sorted _) Hx2 Hy Hq). exact Hx. }
  repeat split; try assumption. intros ->. congruence. Qed.

Theorem best_mode_total maxdiff qs o : program_run P seeds Best maxdiff refs qs = Ok o ->
  exists rows1 it1 frags rows2 it2,
    execute P seeds refs qs 1 = Ok (rows1, it1) /\ all_fragments rows1 qs = Ok frags /\
    execute P seeds refs frags it1 = Ok (rows2, it2) /\
    kstrict qid (o_main o) /\
    (forall c, In c (map qid (o_main o)) <-> In c (map qid rows1) \/ In c (map qid rows2)) /\
    (* every record is the best row of its query over both passes, or the join of that row x -- then a first-pass row -- with the
       query's best second-pass row y, a different row (repair F12: a row is never joined with itself) *)
    let f1 := filter_subsequent (rows1 ++ map set_rest rows2) in
    let f2 := filter_subsequent (map set_rest rows2) in
    forall w, In w (o_main o) ->
      In w f1 \/ exists x y, In x f1 /\ In y f2 /\ x <> y /\ rest x = false /\ rest y = true /\
                             qid x = qid w /\ qid y = qid w /\ rid x = rid y /\
                             check_overlap x y maxdiff = true /\ join_rows x y = Ok w /\ joined_ok w = true.
Proof. intros H. apply program_run_inv in H. destruct H as (o' & H & ->). cbn [o_main].
  apply multi_execute_inv in H. destruct H as (rows1 & it1 & frags & rows2 & it2 & E1 & Ef & E2 & H). cbn zeta in H.
  destruct H as (joined & sep & Hr & ->). cbn [o_main].
  exists rows1, it1, frags, rows2, it2. split; [exact E1|]. split; [exact Ef|]. split; [exact E2|]. split; [apply fs_sorted|].
  set (f1 := filter_subsequent (rows1 ++ map set_rest rows2)) in *. set (f2 := filter_subsequent (map set_rest rows2)) in *.
  assert (K1 : kstrict qid f1) by apply fs_sorted. assert (K2 : kstrict qid (fresh_rows f1 f2)) by (apply kstrict_filter, fs_sorted).
  destruct (resolve_two_lists f1 (fresh_rows f1 f2) maxdiff joined sep K1 K2 Hr) as (HJ & _).
  assert (Hids1 : forall c, In c (map qid f1) <-> In c (map qid rows1) \/ In c (map qid rows2)).
  { intros c. unfold f1. rewrite <- fs_ids, map_app, set_rest_qid, in_app_iff. reflexivity. }
  split.
  - intros c. rewrite <- fs_ids. rewrite <- Hids1. split.
    + intros Hc. apply in_map_iff in Hc. destruct Hc as (w & <- & Hw). apply sort_by_in in Hw. apply in_app_or in Hw. destruct Hw as [Hw|Hw].
      * destruct (HJ w Hw) as (x & y & Hx & _ & _ & _ & _ & Hj & _). apply join_rows_qid in Hj. destruct Hj as (-> & _). apply in_map. exact Hx.
      * apply filter_In in Hw. apply in_map. apply Hw.
    + intros Hc. apply in_map_iff in Hc. destruct Hc as (x & <- & Hx).
      destruct (mem_z (qid x) (map qid joined)) eqn:Em.
      * apply mem_z_In in Em. apply in_map_iff in Em. destruct Em as (j & Ej & Hj). rewrite <- Ej. apply in_map.
        apply sort_by_in. apply in_or_app. left. exact Hj.
      * apply in_map. apply sort_by_in. apply in_or_app. right. apply filter_In. split; [exact Hx|]. rewrite Em. reflexivity.
  - intros w Hw. apply fs_first_best, first_best_In in Hw. apply sort_by_in in Hw. apply in_app_or in Hw. destruct Hw as [Hw|Hw].
    + right. destruct (HJ w Hw) as (x & y & Hx & Hy & Hq & Hrid & Hc & Hj & Hk). exists x, y.
      pose proof (join_rows_qid _ _ _ Hj) as (Hqj & _).
      destruct (best_parts qs 1 rows1 it1 rows2 x y E1 Hx Hy Hq) as (Hy2 & _ & Hne & Rx & Ry).
      repeat split; try assumption; congruence.
    + left. apply filter_In in Hw. apply Hw.
Qed.

(* repair F12: when the best row x of a query over both passes is a second-pass row (AlignedRest = True) it is the query's row of the
   second-pass list as well, but it is handed to resolve ONCE: x is the only row of its query resolve receives, the (reference, query)
   group of x is [x], no joined row carries x's query id, and the record of that query in the main file is x itself *)
Theorem best_mode_no_self_join maxdiff qs o : program_run P seeds Best maxdiff refs qs = Ok o ->
  exists rows1 it1 frags rows2 it2,
    execute P seeds refs qs 1 = Ok (rows1, it1) /\ all_fragments rows1 qs = Ok frags /\
    execute P seeds refs frags it1 = Ok (rows2, it2) /\
    let f1 := filter_subsequent (rows1 ++ map set_rest rows2) in
    let f2 := filter_subsequent (map set_rest rows2) in
    let handed := f1 ++ filter (fun w => negb (row_in w f1)) f2 in
    forall x, In x f1 -> rest x = true ->
      In x f2 /\
      filter (fun w => qid w =? qid x) handed = [x] /\
      (forall g, In g (resolve_groups_of handed) -> In x g -> g = [x]) /\
      filter (fun w => qid w =? qid x) (o_main o) = [x].
Proof. intros H. apply program_run_inv in H. destruct H as (o' & H & ->). cbn [o_main].
  apply multi_execute_inv in H. destruct H as (rows1 & it1 & frags & rows2 & it2 & E1 & Ef & E2 & H). cbn zeta in H.
  destruct H as (joined & sep & Hr & ->). cbn [o_main].
  exists rows1, it1, frags, rows2, it2. split; [exact E1|]. split; [exact Ef|]. split; [exact E2|]. cbv zeta.
  set (f1 := filter_subsequent (rows1 ++ map set_rest rows2)) in *. set (f2 := filter_subsequent (map set_rest rows2)) in *.
  fold (fresh_rows f1 f2). intros x Hx Rx.
  assert (K1 : kstrict qid f1) by apply fs_sorted. assert (K2 : kstrict qid f2) by apply fs_sorted.
  assert (K2' : kstrict qid (fresh_rows f1 f2)) by (apply kstrict_filter, fs_sorted).
  pose proof (best_mode_rest_row qs 1 rows1 it1 rows2 x E1 Hx Rx) as Hx2.
  assert (Hnone : filter (fun w => qid w =? qid x) (fresh_rows f1 f2) = []).
  { apply filter_none. intros y Hy. apply Z.eqb_neq. intros Hq. apply fresh_rows_in in Hy. destruct Hy as (Hy & Hn). apply Hn.
    rewrite (kstrict_same_key qid f2 y x K2 Hy Hx2 Hq). exact Hx. }
  assert (Hhand : filter (fun w => qid w =? qid x) (f1 ++ fresh_rows f1 f2) = [x]).
  { rewrite filter_app, Hnone, app_nil_r. apply (kstrict_filter_single qid f1 x K1 Hx). }
  split; [exact Hx2|]. split; [exact Hhand|]. split.
  - intros g Hg Hxg. destruct (resolve_groups_of_filter _ _ Hg) as (r & c & ->).
    apply filter_In in Hxg. destruct Hxg as (Hxg & Hc). apply filter_In in Hxg. destruct Hxg as (_ & Hrid). apply Z.eqb_eq in Hc. subst c.
    rewrite filter_comm, Hhand. cbn [filter]. rewrite Hrid. reflexivity.
  - destruct (resolve_two_lists f1 (fresh_rows f1 f2) maxdiff joined sep K1 K2' Hr) as (HJ & _).
    assert (Hnj : filter (fun w => qid w =? qid x) joined = []).
    { apply filter_none. intros j Hj. apply Z.eqb_neq. intros Hq.
      destruct (HJ j Hj) as (x' & y & Hx' & Hy & Hqq & _ & _ & Hjn & _). pose proof (join_rows_qid _ _ _ Hjn) as (Hqj & _).
      assert (In y (filter (fun w => qid w =? qid x) (fresh_rows f1 f2))) as Hin by (apply filter_In; split; [exact Hy | apply Z.eqb_eq; congruence]).
      rewrite Hnone in Hin. destruct Hin. }
    assert (Hm : mem_z (qid x) (map qid joined) = false).
    { destruct (mem_z (qid x) (map qid joined)) eqn:Em; [|reflexivity]. apply mem_z_In in Em. apply in_map_iff in Em. destruct Em as (j & Ej & Hj).
      assert (In j (filter (fun w => qid w =? qid x) joined)) as Hin by (apply filter_In; split; [exact Hj | apply Z.eqb_eq; exact Ej]).
      rewrite Hnj in Hin. destruct Hin. }
    apply fs_filter_single. rewrite sort_by_filter_p, filter_app, Hnj. cbn [app]. rewrite filter_comm, (kstrict_filter_single qid f1 x K1 Hx).
    cbn [filter]. rewrite Hm. reflexivity.
Qed.

End Run.

(* ---------- when does the self-join happen ---------- *)
Section Run2.
Variable P : params.
Variable seeds : seeding.
Variable refs : list omap.
(* in 'best' mode: if the best row x of a query over both passes is a second-pass row (AlignedRest = True, which no first-pass
   row has), then x is also that query's row in the second-pass list: the (reference, query) group handed to resolve is [x; x] *)
Theorem best_mode_self_join qs it rows1 it1 rows2 x :
  execute P seeds refs qs it = Ok (rows1, it1) ->
  In x (filter_subsequent (rows1 ++ map set_rest rows2)) -> rest x = true -> In x (filter_subsequent (map set_rest rows2)).
Proof. exact (best_mode_rest_row P seeds refs qs it rows1 it1 rows2 x). Qed.

(* regression statement about the model BEFORE repair F12 (BestProofs3.program_run_before_F12): such a row x was handed to resolve
   twice, its query contributed the rows [x; x] and its (reference, query) group was [x; x] *)
Theorem best_mode_self_join_before_F12 maxdiff qs o : program_run_before_F12 P seeds Best maxdiff refs qs = Ok o ->
  exists rows1 it1 frags rows2 it2 joined sep,
    execute P seeds refs qs 1 = Ok (rows1, it1) /\ all_fragments rows1 qs = Ok frags /\
    execute P seeds refs frags it1 = Ok (rows2, it2) /\
    let f1 := filter_subsequent (rows1 ++ map set_rest rows2) in
    let f2 := filter_subsequent (map set_rest rows2) in
    results_resolve (f1 ++ f2) maxdiff = Ok (joined, sep) /\
    o = mkOut (filter_subsequent (sort_by qid (joined ++ filter (fun w => negb (mem_z (qid w) (map qid joined))) f1))) None None /\
    forall x, In x f1 -> rest x = true ->
      In x f2 /\ filter (fun w => qid w =? qid x) (f1 ++ f2) = [x; x] /\ In [x; x] (resolve_groups_of (f1 ++ f2)).
Proof. intros H. destruct (best_before_F12_inv _ _ _ _ _ _ H) as (rows1 & it1 & frags & rows2 & it2 & joined & sep & E1 & Ef & E2 & Hr & Ho).
  exists rows1, it1, frags, rows2, it2, joined, sep. split; [exact E1|]. split; [exact Ef|]. split; [exact E2|]. cbv zeta.
  split; [exact Hr|]. split; [exact Ho|].
  set (f1 := filter_subsequent (rows1 ++ map set_rest rows2)) in *. set (f2 := filter_subsequent (map set_rest rows2)) in *.
  intros x Hx Rx. pose proof (best_mode_self_join qs 1 rows1 it1 rows2 x E1 Hx Rx) as Hx2.
  assert (Hh : filter (fun w => qid w =? qid x) (f1 ++ f2) = [x; x]).
  { rewrite filter_app, (kstrict_filter_single qid f1 x (fs_sorted _) Hx), (kstrict_filter_single qid f2 x (fs_sorted _) Hx2). reflexivity. }
  split; [exact Hx2|]. split; [exact Hh|].
  (* the group of x *)
  assert (Hc : In x (concat (resolve_groups_of (f1 ++ f2)))).
  { apply (Permutation_in _ (Permutation_sym (resolve_groups_of_perm (f1 ++ f2)))). apply in_or_app. left. exact Hx. }
  apply in_concat in Hc. destruct Hc as (g & Hg & Hxg). destruct (resolve_groups_of_filter _ _ Hg) as (r & c & Eg).
  assert (g = [x; x]) as <-; [|exact Hg]. rewrite Eg in Hxg |- *.
  apply filter_In in Hxg. destruct Hxg as (Hxg & Hcq). apply filter_In in Hxg. destruct Hxg as (_ & Hrid). apply Z.eqb_eq in Hcq. subst c.
  rewrite filter_comm, Hh. cbn [filter]. rewrite Hrid. reflexivity. Qed.
End Run2.

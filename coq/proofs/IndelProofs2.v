From Coq Require Import ZArith QArith List Bool Lia Permutation.
Import ListNotations.
Require Import Py Indels Indels2 IndelProofs PyProofs.
Open Scope Z_scope.

(* ------------------------------------------------------------------ running minimum / maximum *)
Lemma fold_min_le l : forall a, fold_left Z.min l a <= a /\ forall x, In x l -> fold_left Z.min l a <= x.
Proof. induction l as [|y l IH]; intro a; cbn [fold_left]; [split; [lia | intros x []]|].
  destruct (IH (Z.min a y)) as [H1 H2]. split; [lia|]. intros x [<-|Hx]; [lia | auto]. Qed.
Lemma fold_min_in l : forall a, In (fold_left Z.min l a) (a :: l).
Proof. induction l as [|y l IH]; intro a; cbn [fold_left]; [left; reflexivity|].
  destruct (IH (Z.min a y)) as [H|H]; [|right; right; exact H].
  destruct (Z.min_spec a y) as [[_ E]|[_ E]]; [left | right; left]; rewrite <- H; lia. Qed.
Lemma fold_max_ge l : forall a, a <= fold_left Z.max l a /\ forall x, In x l -> x <= fold_left Z.max l a.
Proof. induction l as [|y l IH]; intro a; cbn [fold_left]; [split; [lia | intros x []]|].
  destruct (IH (Z.max a y)) as [H1 H2]. split; [lia|]. intros x [<-|Hx]; [lia | auto]. Qed.
Lemma fold_max_in l : forall a, In (fold_left Z.max l a) (a :: l).
Proof. induction l as [|y l IH]; intro a; cbn [fold_left]; [left; reflexivity|].
  destruct (IH (Z.max a y)) as [H|H]; [|right; right; exact H].
  destruct (Z.max_spec a y) as [[_ E]|[_ E]]; [right; left | left]; rewrite <- H; lia. Qed.

(* ------------------------------------------------------------------ a cluster is the left fold of merge over its members *)
Definition summary (m : call) (r : list call) : cluster := fold_left merge r (new_cluster m).

Lemma fm_typ r : forall k, ltyp (fold_left merge r k) = ltyp k.
Proof. induction r as [|c r IH]; intro k; cbn [fold_left]; [reflexivity | rewrite IH; reflexivity]. Qed.
Lemma fm_chr r : forall k, lchr (fold_left merge r k) = lchr k.
Proof. induction r as [|c r IH]; intro k; cbn [fold_left]; [reflexivity | rewrite IH; reflexivity]. Qed.
Lemma fm_qs r : forall k, lqs (fold_left merge r k) = lqs k.
Proof. induction r as [|c r IH]; intro k; cbn [fold_left]; [reflexivity | rewrite IH; reflexivity]. Qed.
Lemma fm_qe r : forall k, lqe (fold_left merge r k) = lqe k.
Proof. induction r as [|c r IH]; intro k; cbn [fold_left]; [reflexivity | rewrite IH; reflexivity]. Qed.
Lemma fm_count r : forall k, lcount (fold_left merge r k) = lcount k + Z.of_nat (length r).
Proof. induction r as [|c r IH]; intro k; cbn [fold_left length]; [lia|]. rewrite IH. unfold merge. cbn [lcount]. lia. Qed.
Lemma fm_ids r : forall k, lids (fold_left merge r k) = lids k ++ map cq r.
Proof. induction r as [|c r IH]; intro k; cbn [fold_left map]; [rewrite app_nil_r; reflexivity|].
  rewrite IH. unfold merge. cbn [lids]. rewrite <- app_assoc. reflexivity. Qed.
Lemma fm_rs r : forall k, lrs (fold_left merge r k) = fold_left Z.min (map crs r) (lrs k).
Proof. induction r as [|c r IH]; intro k; cbn [fold_left map]; [reflexivity | rewrite IH; reflexivity]. Qed.
Lemma fm_re r : forall k, lre (fold_left merge r k) = fold_left Z.max (map cre r) (lre k).
Proof. induction r as [|c r IH]; intro k; cbn [fold_left map]; [reflexivity | rewrite IH; reflexivity]. Qed.
(* Length: the running pairwise mean, not the arithmetic mean of the members *)
Lemma fm_len r : forall k, llen (fold_left merge r k) = fold_left (fun a c => Qred ((a + clen c) / 2)) r (llen k).
Proof. induction r as [|c r IH]; intro k; cbn [fold_left]; [reflexivity | rewrite IH; reflexivity]. Qed.

(* k is exactly what the loop computes from the consecutive members g, all of one type and chromosome *)
Definition is_summary (k : cluster) (g : list call) : Prop :=
  exists m r, g = m :: r /\ k = summary m r /\ Forall (fun c => ctyp c = ctyp m /\ cchr c = cchr m) r.

Lemma is_summary_new c : is_summary (new_cluster c) [c].
Proof. exists c, []. repeat split. constructor. Qed.
Lemma is_summary_merge k g c : is_summary k g -> same_kind k c = true -> is_summary (merge k c) (g ++ [c]).
Proof. intros (m & r & -> & -> & Hf) Hk. exists m, (r ++ [c]). split; [reflexivity|].
  split; [unfold summary; rewrite fold_left_app; reflexivity|].
  apply Forall_app. split; [exact Hf|]. constructor; [|constructor].
  unfold same_kind in Hk. apply andb_true_iff in Hk. destruct Hk as [H1 H2]. apply Z.eqb_eq in H1, H2.
  unfold summary in H1, H2. rewrite fm_typ in H1. rewrite fm_chr in H2. cbn in H1, H2. split; congruence. Qed.

Definition Inv2 (st : list cluster * cluster) (processed : list call) : Prop :=
  exists groups, concat groups = processed /\ Forall2 is_summary (fst st ++ [snd st]) groups.

Lemma inv2_step blur st p c : Inv2 st p -> Inv2 (step true blur st c) (p ++ [c]).
Proof.
  destruct st as [done last]. intros (groups & Hc & Hf). cbn [fst snd] in Hf.
  destruct (Forall2_snoc_inv _ _ _ _ Hf) as (gs' & g & -> & Hd & Hl).
  unfold step. destruct (Z.abs (cre c - lre last) <=? blur); [destruct (same_kind last c) eqn:Ek|].
  - exists (gs' ++ [g ++ [c]]). cbn [fst snd]. split.
    + rewrite <- Hc, !concat_app. cbn. rewrite !app_nil_r, app_assoc. reflexivity.
    + apply Forall2_snoc; [exact Hd | apply is_summary_merge; assumption].
  - exists ((gs' ++ [g]) ++ [[c]]). cbn [fst snd]. split.
    + rewrite concat_app, Hc. reflexivity.
    + apply Forall2_snoc; [apply Forall2_snoc; assumption | apply is_summary_new].
  - exists ((gs' ++ [g]) ++ [[c]]). cbn [fst snd]. split.
    + rewrite concat_app, Hc. reflexivity.
    + apply Forall2_snoc; [apply Forall2_snoc; assumption | apply is_summary_new].
Qed.
Lemma inv2_fold blur t : forall st p, Inv2 st p -> Inv2 (fold_left (step true blur) t st) (p ++ t).
Proof. induction t as [|c t IH]; intros st p H; cbn; [rewrite app_nil_r; exact H|].
  replace (p ++ c :: t) with ((p ++ [c]) ++ t) by (rewrite <- app_assoc; reflexivity). apply IH. apply inv2_step. exact H. Qed.

(* the repaired cluster_indels cuts the input into consecutive groups and returns the summary of each *)
Theorem cluster_partition blur l : exists groups, concat groups = l /\ Forall2 is_summary (cluster_indels true blur l) groups.
Proof.
  destruct l as [|c t]; [exists []; split; [reflexivity | constructor]|]. unfold cluster_indels.
  assert (H0 : Inv2 ([], new_cluster c) [c]) by (exists [[c]]; split; [reflexivity | cbn; constructor; [apply is_summary_new | constructor]]).
  pose proof (inv2_fold blur t _ _ H0) as H. destruct (fold_left (step true blur) t ([], new_cluster c)) as [done last]. exact H.
Qed.

(* ------------------------------------------------------------------ what C20 says about one cluster and its members *)
Definition cluster_of (k : cluster) (g : list call) : Prop :=
  g <> [] /\ lcount k = Z.of_nat (length g) /\ lids k = map cq g /\
  (forall m, In m g -> ctyp m = ltyp k /\ cchr m = lchr k) /\                 (* no mixing *)
  (forall m, In m g -> lrs k <= crs m /\ cre m <= lre k) /\                    (* the cluster interval covers every member *)
  (exists m, In m g /\ crs m = lrs k) /\ (exists m, In m g /\ cre m = lre k).   (* ... and is the smallest such: min RefStart, max RefStop *)

Lemma is_summary_cluster_of k g : is_summary k g -> cluster_of k g.
Proof.
  intros (m & r & -> & -> & Hf). unfold summary.
  assert (Ht : ltyp (fold_left merge r (new_cluster m)) = ctyp m) by (rewrite fm_typ; reflexivity).
  assert (Hc : lchr (fold_left merge r (new_cluster m)) = cchr m) by (rewrite fm_chr; reflexivity).
  split; [discriminate|]. split; [rewrite fm_count; cbn [new_cluster lcount length]; lia|].
  split; [rewrite fm_ids; reflexivity|].
  split. { intros x [<-|Hx]; [split; congruence|]. rewrite Forall_forall in Hf. destruct (Hf x Hx). split; congruence. }
  rewrite fm_rs, fm_re. cbn [new_cluster lrs lre].
  destruct (fold_min_le (map crs r) (crs m)) as [A1 A2]. destruct (fold_max_ge (map cre r) (cre m)) as [B1 B2].
  split. { intros x [<-|Hx]; [lia|]. split; [apply A2 | apply B2]; apply in_map; exact Hx. }
  split.
  - destruct (fold_min_in (map crs r) (crs m)) as [E|E]; [exists m; split; [left; reflexivity | exact E]|].
    apply in_map_iff in E. destruct E as (x & E & Hx). exists x. split; [right; exact Hx | exact E].
  - destruct (fold_max_in (map cre r) (cre m)) as [E|E]; [exists m; split; [left; reflexivity | exact E]|].
    apply in_map_iff in E. destruct E as (x & E & Hx). exists x. split; [right; exact Hx | exact E].
Qed.

Lemma Forall2_imp {A B} (R S : A -> B -> Prop) l l' : (forall a b, R a b -> S a b) -> Forall2 R l l' -> Forall2 S l l'.
Proof. intros H F. induction F; constructor; auto. Qed.

Theorem cluster_members blur l : exists groups, concat groups = l /\ Forall2 cluster_of (cluster_indels true blur l) groups.
Proof. destruct (cluster_partition blur l) as (gs & H1 & H2). exists gs. split; [exact H1|]. exact (Forall2_imp _ _ _ _ is_summary_cluster_of H2). Qed.

Lemma count_of_groups ks gs : Forall2 cluster_of ks gs -> fold_right Z.add 0 (map lcount ks) = Z.of_nat (length (concat gs)).
Proof. intro F. induction F as [|k g ks gs (_ & Hc & _) _ IH]; [reflexivity|]. cbn. rewrite app_length, Nat2Z.inj_add, IH, Hc. reflexivity. Qed.
Lemma ids_of_groups ks gs : Forall2 cluster_of ks gs -> concat (map lids ks) = map cq (concat gs).
Proof. intro F. induction F as [|k g ks gs (_ & _ & Hi & _) _ IH]; [reflexivity|]. cbn. rewrite map_app, IH, Hi. reflexivity. Qed.

(* every id in exactly one cluster (when the calls have distinct query ids; in general the id lists concatenate to the input id list) *)
Lemma NoDup_app_l {A} (a b : list A) x : NoDup (a ++ b) -> In x a -> ~ In x b.
Proof. induction a as [|y a IH]; cbn; intros H Hx; [destruct Hx|]. inversion H as [|? ? Hn Hd]; subst.
  destruct Hx as [->|Hx]; [intro Hb; apply Hn; apply in_or_app; right; exact Hb | apply IH; assumption]. Qed.
Lemma NoDup_app_tail {A} (a b : list A) : NoDup (a ++ b) -> NoDup b.
Proof. induction a as [|y a IH]; cbn; intro H; [exact H|]. inversion H; subst. auto. Qed.
Lemma in_exactly_one {A B} (f : A -> list B) (ks : list A) q : NoDup (concat (map f ks)) -> In q (concat (map f ks)) ->
  exists a k b, ks = a ++ k :: b /\ In q (f k) /\ forall k', In k' (a ++ b) -> ~ In q (f k').
Proof.
  induction ks as [|k ks IH]; cbn; intros Hn Hq; [destruct Hq|]. apply in_app_or in Hq. destruct Hq as [Hq|Hq].
  - exists [], k, ks. split; [reflexivity|]. split; [exact Hq|]. cbn. intros k' Hk' Hin.
    apply (NoDup_app_l _ _ q Hn Hq). apply in_concat. exists (f k'). split; [apply in_map; exact Hk' | exact Hin].
  - destruct (IH (NoDup_app_tail _ _ Hn) Hq) as (a & k0 & b & -> & H1 & H2). exists (k :: a), k0, b. split; [reflexivity|]. split; [exact H1|].
    cbn. intros k' [<-|Hk']; [|apply H2; exact Hk']. intro Hin. apply (NoDup_app_l _ _ q Hn Hin). exact Hq.
Qed.
Theorem ids_exactly_one blur l q : NoDup (map cq l) -> In q (map cq l) ->
  exists a k b, cluster_indels true blur l = a ++ k :: b /\ In q (lids k) /\ forall k', In k' (a ++ b) -> ~ In q (lids k').
Proof. rewrite <- (ids_conserved blur l). apply in_exactly_one. Qed.

(* ------------------------------------------------------------------ the call builders *)
Definition ref_gap (c : call) : Z := Z.abs (crs c - cre c).
Definition query_gap (c : call) : Z := Z.abs (cqs c - cqe c).
Definition call_consistent (c : call) : Prop :=
  (clen c == inject_Z (ref_gap c - query_gap c))%Q /\ (ctyp c = T_INS <-> ref_gap c - query_gap c < 0) /\ (ctyp c = T_INS \/ ctyp c = T_DEL).

Definition gen_call (thr rid qid r_s r_e q_s q_e : Z) : option call :=
  let diff := Z.abs (r_s - r_e) - Z.abs (q_s - q_e) in
  if (Z.abs diff >? thr) && (Z.abs diff <? 100000) then
    if diff <? - thr then Some (mkCall T_INS rid r_s r_e qid q_s q_e (inject_Z diff))
    else Some (mkCall T_DEL rid r_s r_e qid q_s q_e (inject_Z diff))
  else None.
Lemma mol_call_gen : mol_call = gen_call 2000. Proof. reflexivity. Qed.
Lemma seg_call_gen : seg_call = gen_call 100. Proof. reflexivity. Qed.

Lemma gen_call_spec thr rid qid r_s r_e q_s q_e c : 0 <= thr -> gen_call thr rid qid r_s r_e q_s q_e = Some c ->
  let diff := Z.abs (r_s - r_e) - Z.abs (q_s - q_e) in
  cchr c = rid /\ cq c = qid /\ crs c = r_s /\ cre c = r_e /\ cqs c = q_s /\ cqe c = q_e /\ clen c = inject_Z diff /\
  thr < Z.abs diff < 100000 /\
  (ctyp c = T_INS <-> diff < 0) /\ (ctyp c = T_INS <-> diff < - thr) /\ (ctyp c = T_DEL <-> thr < diff) /\ (ctyp c = T_INS \/ ctyp c = T_DEL).
Proof.
  intros Hthr. unfold gen_call. cbv zeta. set (diff := Z.abs (r_s - r_e) - Z.abs (q_s - q_e)).
  destruct (Z.abs diff >? thr) eqn:E1; [|discriminate]. destruct (Z.abs diff <? 100000) eqn:E2; [|discriminate]. cbn [andb].
  unfold T_INS, T_DEL. destruct (diff <? - thr) eqn:E3; intro H; injection H as <-; cbn [ctyp cchr crs cre cq cqs cqe clen]; repeat split; try reflexivity; try lia.
Qed.
Lemma gen_call_none thr rid qid r_s r_e q_s q_e :
  gen_call thr rid qid r_s r_e q_s q_e = None <-> ~ (thr < Z.abs (Z.abs (r_s - r_e) - Z.abs (q_s - q_e)) < 100000).
Proof. unfold gen_call. cbv zeta. set (diff := Z.abs (r_s - r_e) - Z.abs (q_s - q_e)).
  destruct (Z.abs diff >? thr) eqn:E1; destruct (Z.abs diff <? 100000) eqn:E2; cbn [andb]; try destruct (diff <? - thr); split; intro H; try discriminate; try reflexivity; try lia; exfalso; apply H; lia. Qed.

Lemma gen_call_consistent thr rid qid r_s r_e q_s q_e c : 0 <= thr -> gen_call thr rid qid r_s r_e q_s q_e = Some c -> call_consistent c.
Proof. intros Hthr H. destruct (gen_call_spec _ _ _ _ _ _ _ _ Hthr H) as (_ & _ & E1 & E2 & E3 & E4 & E5 & _ & H1 & _ & _ & H3).
  unfold call_consistent, ref_gap, query_gap. rewrite E1, E2, E3, E4, E5. split; [reflexivity|]. split; assumption. Qed.

(* ------------------------------------------------------------------ the finders: everything they file is consistent and under the right key *)
Definition good_indels (d : indels) : Prop :=
  Forall (fun c => call_consistent c /\ ctyp c = T_INS) (fst d) /\ Forall (fun c => call_consistent c /\ ctyp c = T_DEL) (snd d).
Definition good_res (r : res indels) : Prop := match r with Ok d => good_indels d | Err => True end.
Lemma push_good d o : good_indels d -> (forall c, o = Some c -> call_consistent c) -> good_indels (push d o).
Proof. intros [H1 H2] Ho. destruct o as [c|]; [|split; assumption]. pose proof (Ho c eq_refl) as Hc. unfold push.
  destruct (ctyp c =? T_INS) eqn:E; split; cbn [fst snd]; try assumption; apply Forall_app; (split; [assumption|]); (constructor; [|constructor]); (split; [exact Hc|]).
  - apply Z.eqb_eq in E. exact E.
  - apply Z.eqb_neq in E. destruct Hc as (_ & _ & [F|F]); [contradiction | exact F]. Qed.

Ltac binds := repeat match goal with |- good_res (bind ?x _) => destruct x; cbn [bind]; [|exact I] end.
Lemma look_mol_good alns rd qd bd : good_res (look_mol alns rd qd bd).
Proof.
  unfold look_mol. match goal with |- good_res (fold_left ?F _ _) => set (f := F) end.
  assert (H : forall acc, good_res acc -> good_res (fold_left f alns acc)).
  { induction alns as [|a alns IH]; intros acc Ha; cbn [fold_left]; [exact Ha|]. apply IH. unfold f. destruct acc as [d|]; cbn [bind]; [|exact I].
    binds. cbn [good_res]. apply push_good; [exact Ha|]. intros c Hc. rewrite mol_call_gen in Hc. refine (gen_call_consistent 2000 _ _ _ _ _ _ _ _ Hc). lia. }
  apply H. split; constructor.
Qed.
Lemma look_seg_good alns rd qd bd : good_res (look_seg alns rd qd bd).
Proof.
  unfold look_seg. match goal with |- good_res (fold_left ?F _ _) => set (f := F) end.
  assert (H : forall acc, good_res acc -> good_res (fold_left f alns acc)).
  { induction alns as [|a alns IH]; intros acc Ha; cbn [fold_left]; [exact Ha|]. apply IH. unfold f. destruct acc as [d|]; cbn [bind]; [|exact I].
    destruct (lookup (a_qid a) bd) as [places|]; [|exact Ha].
    match goal with |- good_res (fold_left ?G _ _) => set (g := G) end.
    assert (H2 : forall acc', good_res acc' -> good_res (fold_left g places acc')).
    { induction places as [|i places IH2]; intros acc' Ha'; cbn [fold_left]; [exact Ha'|]. apply IH2. unfold g. destruct acc' as [d'|]; cbn [bind]; [|exact I].
      destruct (Z.of_nat (length (a_pairs a)) >? i + 1); [|exact Ha'].
      binds. cbn [good_res]. apply push_good; [exact Ha'|]. intros c Hc. rewrite seg_call_gen in Hc. refine (gen_call_consistent 100 _ _ _ _ _ _ _ _ Hc). lia. }
    apply H2. exact Ha. }
  apply H. split; constructor.
Qed.

(* ------------------------------------------------------------------ the writer *)
Lemma Permutation_concat' {A} (gs gs' : list (list A)) : Permutation gs gs' -> Permutation (concat gs) (concat gs').
Proof. intro P. induction P; cbn; [constructor | apply Permutation_app_head; assumption | rewrite !app_assoc; apply Permutation_app_tail, Permutation_app_comm | etransitivity; eassumption]. Qed.
Lemma sort_calls_perm l : Permutation (sort_calls l) l.
Proof. unfold sort_calls. etransitivity; apply sort_by_perm. Qed.
Lemma sort_clusters_perm l : Permutation (sort_clusters l) l.
Proof. unfold sort_clusters. etransitivity; apply sort_by_perm. Qed.

Theorem write_members d : exists groups, Permutation (concat groups) (snd d ++ fst d) /\ Forall2 cluster_of (write_lines d) groups.
Proof.
  unfold write_lines.
  destruct (cluster_members BLUR (sort_calls (snd d))) as (gd & Hd1 & Hd2). destruct (cluster_members BLUR (sort_calls (fst d))) as (gi & Hi1 & Hi2).
  pose proof (Forall2_app Hd2 Hi2) as F.
  destruct (Permutation_Forall2 (Permutation_sym (sort_clusters_perm _)) F) as (gs' & P & F'). exists gs'. split; [|exact F'].
  etransitivity; [apply Permutation_concat', Permutation_sym, P|]. rewrite concat_app, Hd1, Hi1. apply Permutation_app; apply sort_calls_perm.
Qed.
Corollary write_count d : fold_right Z.add 0 (map lcount (write_lines d)) = Z.of_nat (length (fst d) + length (snd d)).
Proof. destruct (write_members d) as (gs & P & F). rewrite (count_of_groups _ _ F), (Permutation_length P), app_length. f_equal. lia. Qed.
Corollary write_ids d : Permutation (concat (map lids (write_lines d))) (map cq (snd d ++ fst d)).
Proof. destruct (write_members d) as (gs & P & F). rewrite (ids_of_groups _ _ F). apply Permutation_map. exact P. Qed.

(* finder + writer: every line summarises a group of consistent calls, the groups partition the calls found *)
Lemma file_members (look : res indels) : good_res look -> forall ks, (do d <- look; Ok (write_lines d)) = Ok ks ->
  exists d groups, look = Ok d /\ Permutation (concat groups) (snd d ++ fst d) /\ Forall2 cluster_of ks groups /\ Forall call_consistent (concat groups).
Proof. destruct look as [d|]; cbn [bind good_res]; [|discriminate]. intros [G1 G2] ks H. injection H as <-.
  destruct (write_members d) as (gs & P & F). exists d, gs. repeat split; try assumption.
  rewrite Forall_forall in *. intros c Hc. apply (Permutation_in _ P) in Hc. apply in_app_or in Hc. destruct Hc as [Hc|Hc]; [apply (G2 c Hc) | apply (G1 c Hc)]. Qed.

(* ------------------------------------------------------------------ boolean checkers of the property on an implementation's output (used by the harness) *)
Fixpoint eqzl (a b : list Z) : bool := match a, b with [], [] => true | x :: s, y :: t => (x =? y) && eqzl s t | _, _ => false end.
Lemma eqzl_eq a : forall b, eqzl a b = true -> a = b.
Proof. induction a as [|x a IH]; intros [|y b] H; cbn in H; try discriminate; [reflexivity|]. apply andb_true_iff in H. destruct H as [H1 H2]. apply Z.eqb_eq in H1. rewrite H1, (IH _ H2). reflexivity. Qed.
Definition group_ok (k : cluster) (g : list call) : bool :=
  match g with
  | [] => false
  | m :: r => (lcount k =? Z.of_nat (length g)) && eqzl (lids k) (map cq g)
              && forallb (fun c => (ctyp c =? ltyp k) && (cchr c =? lchr k)) g
              && (lrs k =? fold_left Z.min (map crs r) (crs m)) && (lre k =? fold_left Z.max (map cre r) (cre m))
  end.
Lemma group_ok_sound k g : group_ok k g = true -> cluster_of k g.
Proof.
  destruct g as [|m r]; [discriminate|]. unfold group_ok. rewrite !andb_true_iff. intros ((((H1 & H2) & H3) & H4) & H5).
  apply Z.eqb_eq in H1, H4, H5. apply eqzl_eq in H2. rewrite forallb_forall in H3.
  split; [discriminate|]. split; [exact H1|]. split; [exact H2|].
  split. { intros x Hx. specialize (H3 x Hx). apply andb_true_iff in H3. destruct H3 as [A B]. apply Z.eqb_eq in A, B. split; assumption. }
  rewrite H4, H5.
  destruct (fold_min_le (map crs r) (crs m)) as [A1 A2]. destruct (fold_max_ge (map cre r) (cre m)) as [B1 B2].
  split. { intros x [<-|Hx]; [lia|]. split; [apply A2 | apply B2]; apply in_map; exact Hx. }
  split.
  - destruct (fold_min_in (map crs r) (crs m)) as [E|E]; [exists m; split; [left; reflexivity | exact E]|].
    apply in_map_iff in E. destruct E as (x & E & Hx). exists x. split; [right; exact Hx | exact E].
  - destruct (fold_max_in (map cre r) (cre m)) as [E|E]; [exists m; split; [left; reflexivity | exact E]|].
    apply in_map_iff in E. destruct E as (x & E & Hx). exists x. split; [right; exact Hx | exact E].
Qed.
(* clusters of consecutive calls: cut the input by the Count values *)
Fixpoint clusters_ok (l : list call) (ks : list cluster) : bool :=
  match ks with
  | [] => match l with [] => true | _ => false end
  | k :: ks' => let n := Z.to_nat (lcount k) in group_ok k (firstn n l) && clusters_ok (skipn n l) ks'
  end.
Theorem clusters_ok_sound ks : forall l, clusters_ok l ks = true -> exists groups, concat groups = l /\ Forall2 cluster_of ks groups.
Proof. induction ks as [|k ks IH]; intros l H; cbn in H.
  - destruct l; [|discriminate]. exists []. split; [reflexivity | constructor].
  - apply andb_true_iff in H. destruct H as [H1 H2]. destruct (IH _ H2) as (gs & Hc & F).
    exists (firstn (Z.to_nat (lcount k)) l :: gs). split; [cbn; rewrite Hc; apply firstn_skipn | constructor; [apply group_ok_sound; exact H1 | exact F]]. Qed.
(* clusters in any order: pick the members of each cluster out of the pool by query id *)
Fixpoint take_one (q : Z) (pool : list call) : option (call * list call) :=
  match pool with
  | [] => None
  | c :: t => if cq c =? q then Some (c, t) else match take_one q t with Some (m, t') => Some (m, c :: t') | None => None end
  end.
Fixpoint take_ids (ids : list Z) (pool : list call) : option (list call * list call) :=
  match ids with
  | [] => Some ([], pool)
  | q :: ids' => match take_one q pool with
                 | None => None
                 | Some (m, pool') => match take_ids ids' pool' with None => None | Some (ms, rest) => Some (m :: ms, rest) end
                 end
  end.
Fixpoint perm_ok (pool : list call) (ks : list cluster) : bool :=
  match ks with
  | [] => match pool with [] => true | _ => false end
  | k :: ks' => match take_ids (lids k) pool with None => false | Some (ms, rest) => group_ok k ms && perm_ok rest ks' end
  end.
Lemma take_one_perm q : forall pool m rest, take_one q pool = Some (m, rest) -> Permutation pool (m :: rest).
Proof. induction pool as [|c t IH]; intros m rest H; cbn in H; [discriminate|]. destruct (cq c =? q).
  - injection H as <- <-. reflexivity.
  - destruct (take_one q t) as [[m' t']|]; [|discriminate]. injection H as <- <-. rewrite (IH _ _ eq_refl). apply perm_swap. Qed.
Lemma take_ids_perm ids : forall pool ms rest, take_ids ids pool = Some (ms, rest) -> Permutation pool (ms ++ rest).
Proof. induction ids as [|q ids IH]; intros pool ms rest H; cbn in H; [injection H as <- <-; reflexivity|].
  destruct (take_one q pool) as [[m pool']|] eqn:E; [|discriminate]. destruct (take_ids ids pool') as [[ms' rest']|] eqn:E2; [|discriminate].
  injection H as <- <-. rewrite (take_one_perm _ _ _ _ E). cbn. constructor. apply IH. exact E2. Qed.
Theorem perm_ok_sound ks : forall pool, perm_ok pool ks = true -> exists groups, Permutation (concat groups) pool /\ Forall2 cluster_of ks groups.
Proof. induction ks as [|k ks IH]; intros pool H; cbn in H.
  - destruct pool; [|discriminate]. exists []. split; [reflexivity | constructor].
  - destruct (take_ids (lids k) pool) as [[ms rest]|] eqn:E; [|discriminate]. apply andb_true_iff in H. destruct H as [H1 H2].
    destruct (IH _ H2) as (gs & P & F). exists (ms :: gs). split; [|constructor; [apply group_ok_sound; exact H1 | exact F]].
    cbn. rewrite (take_ids_perm _ _ _ _ E). apply Permutation_app_head. exact P. Qed.
Definition written_ok (d : indels) (out : list cluster) : bool := perm_ok (snd d ++ fst d) out.

Definition call_okb (c : call) : bool :=
  Qeq_bool (clen c) (inject_Z (ref_gap c - query_gap c)) &&
  (if ref_gap c - query_gap c <? 0 then ctyp c =? T_INS else ctyp c =? T_DEL).
Lemma call_okb_sound c : call_okb c = true -> call_consistent c.
Proof. unfold call_okb, call_consistent. intro H. apply andb_true_iff in H. destruct H as [H1 H2]. apply Qeq_bool_iff in H1. split; [exact H1|].
  unfold T_INS, T_DEL in *. destruct (ref_gap c - query_gap c <? 0) eqn:E; apply Z.eqb_eq in H2; rewrite H2; split; try (right; reflexivity); try (left; reflexivity); split; intro; try lia; try discriminate. Qed.
Definition calls_ok (ins dels : list call) : bool :=
  forallb (fun c => call_okb c && (ctyp c =? T_INS)) ins && forallb (fun c => call_okb c && (ctyp c =? T_DEL)) dels.
Theorem calls_ok_sound ins dels : calls_ok ins dels = true -> good_indels (ins, dels).
Proof. unfold calls_ok. intro H. apply andb_true_iff in H. destruct H as [H1 H2]. rewrite forallb_forall in H1, H2.
  split; cbn [fst snd]; apply Forall_forall; intros c Hc; [specialize (H1 c Hc) as H | specialize (H2 c Hc) as H]; apply andb_true_iff in H; destruct H as [A B];
    apply Z.eqb_eq in B; (split; [apply call_okb_sound; exact A | exact B]). Qed.
Print Assumptions cluster_partition.

(* ------------------------------------------------------------------ statements in the form used by props/C20.v *)
Theorem cluster_no_mix blur l : exists groups, concat groups = l /\
  Forall2 (fun k g => lids k = map cq g /\ forall m, In m g -> ctyp m = ltyp k /\ cchr m = lchr k) (cluster_indels true blur l) groups.
Proof. destruct (cluster_members blur l) as (gs & H1 & H2). exists gs. split; [exact H1|].
  refine (Forall2_imp _ _ _ _ _ H2). intros k g (_ & _ & A & B & _). split; assumption. Qed.
Theorem cluster_interval_cover blur l : exists groups, concat groups = l /\
  Forall2 (fun k g => lids k = map cq g /\ (forall m, In m g -> lrs k <= crs m /\ cre m <= lre k) /\
                      (exists m, In m g /\ crs m = lrs k) /\ (exists m, In m g /\ cre m = lre k)) (cluster_indels true blur l) groups.
Proof. destruct (cluster_members blur l) as (gs & H1 & H2). exists gs. split; [exact H1|].
  refine (Forall2_imp _ _ _ _ _ H2). intros k g (_ & _ & A & _ & B & C & D). split; [exact A|]. split; [exact B|]. split; [exact C | exact D]. Qed.

Lemma mol_call_spec rid qid r_s r_e q_s q_e c : mol_call rid qid r_s r_e q_s q_e = Some c ->
  let diff := Z.abs (r_s - r_e) - Z.abs (q_s - q_e) in
  cchr c = rid /\ cq c = qid /\ crs c = r_s /\ cre c = r_e /\ cqs c = q_s /\ cqe c = q_e /\ clen c = inject_Z diff /\
  2000 < Z.abs diff < 100000 /\
  (ctyp c = T_INS <-> diff < 0) /\ (ctyp c = T_INS <-> diff < -2000) /\ (ctyp c = T_DEL <-> 2000 < diff) /\ (ctyp c = T_INS \/ ctyp c = T_DEL).
Proof. intro H. refine (gen_call_spec 2000 _ _ _ _ _ _ _ _ H). lia. Qed.
Lemma seg_call_spec rid qid r_s r_e q_s q_e c : seg_call rid qid r_s r_e q_s q_e = Some c ->
  let diff := Z.abs (r_s - r_e) - Z.abs (q_s - q_e) in
  cchr c = rid /\ cq c = qid /\ crs c = r_s /\ cre c = r_e /\ cqs c = q_s /\ cqe c = q_e /\ clen c = inject_Z diff /\
  100 < Z.abs diff < 100000 /\
  (ctyp c = T_INS <-> diff < 0) /\ (ctyp c = T_INS <-> diff < -100) /\ (ctyp c = T_DEL <-> 100 < diff) /\ (ctyp c = T_INS \/ ctyp c = T_DEL).
Proof. intro H. refine (gen_call_spec 100 _ _ _ _ _ _ _ _ H). lia. Qed.
Lemma mol_call_none rid qid r_s r_e q_s q_e :
  mol_call rid qid r_s r_e q_s q_e = None <-> ~ (2000 < Z.abs (Z.abs (r_s - r_e) - Z.abs (q_s - q_e)) < 100000).
Proof. exact (gen_call_none 2000 rid qid r_s r_e q_s q_e). Qed.
Lemma seg_call_none rid qid r_s r_e q_s q_e :
  seg_call rid qid r_s r_e q_s q_e = None <-> ~ (100 < Z.abs (Z.abs (r_s - r_e) - Z.abs (q_s - q_e)) < 100000).
Proof. exact (gen_call_none 100 rid qid r_s r_e q_s q_e). Qed.
Lemma mol_call_consistent rid qid r_s r_e q_s q_e c : mol_call rid qid r_s r_e q_s q_e = Some c -> call_consistent c.
Proof. intro H. refine (gen_call_consistent 2000 _ _ _ _ _ _ _ _ H). lia. Qed.
Lemma seg_call_consistent rid qid r_s r_e q_s q_e c : seg_call rid qid r_s r_e q_s q_e = Some c -> call_consistent c.
Proof. intro H. refine (gen_call_consistent 100 _ _ _ _ _ _ _ _ H). lia. Qed.

Lemma look_mol_calls alns rd qd bd d : look_mol alns rd qd bd = Ok d -> good_indels d.
Proof. intro H. pose proof (look_mol_good alns rd qd bd) as G. rewrite H in G. exact G. Qed.
Lemma look_seg_calls alns rd qd bd d : look_seg alns rd qd bd = Ok d -> good_indels d.
Proof. intro H. pose proof (look_seg_good alns rd qd bd) as G. rewrite H in G. exact G. Qed.
Lemma mol_file_members alns rd qd bd ks : mol_file alns rd qd bd = Ok ks ->
  exists d groups, look_mol alns rd qd bd = Ok d /\ Permutation (concat groups) (snd d ++ fst d) /\ Forall2 cluster_of ks groups /\ Forall call_consistent (concat groups).
Proof. exact (file_members _ (look_mol_good alns rd qd bd) ks). Qed.
Lemma seg_file_members alns rd qd bd ks : seg_file alns rd qd bd = Ok ks ->
  exists d groups, look_seg alns rd qd bd = Ok d /\ Permutation (concat groups) (snd d ++ fst d) /\ Forall2 cluster_of ks groups /\ Forall call_consistent (concat groups).
Proof. exact (file_members _ (look_seg_good alns rd qd bd) ks). Qed.

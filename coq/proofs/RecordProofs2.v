(* C02, part 2: the header fields AlignmentResultRow.create computes, expressed by the label numbers the record lists and the
   coordinates of the input maps. *)
From Coq Require Import ZArith List Bool Lia Sorting.Sorted.
Import ListNotations.
Require Import Py PyProofs Pairing PairingProofs2 PairingProofs4 Core Multi Cigar Checkers CheckersProofs Cmap CmapProofs CmapProofs2 Record RecordProofs1.
Open Scope Z_scope.

Definition dir_of (reverse : bool) : Z := if reverse then -1 else 1.

(* the labels the pairs of a row are made of: reference labels from R, query labels from Q *)
Definition pairs_from (R Q : list label) (segs : list segment) : Prop :=
  Forall (fun p => In (pr (pv_of p)) R /\ In (pq (pv_of p)) Q) (row_pairs segs).

(* what the header must be, computed from the listed pairs P = [(reference label number, query label number); ...] and the two maps:
   (QryStartPos, QryEndPos, RefStartPos, RefEndPos).  `query` is the map the pairing ran on (mirrored on the reverse strand) *)
Definition spec_header (reference query : omap) (reverse : bool) (P : list (Z * Z)) : Z * Z * Z * Z :=
  let a := hd (0, 0) P in let b := last P (0, 0) in
  (strand_coord query reverse (snd (if reverse then b else a)), strand_coord query reverse (snd (if reverse then a else b)),
   label_at reference (fst a), label_at reference (fst b)).

(* ---------------------------------------------------------------- valid matchings as sorted lists *)
Lemma valid_SS_map {A} (f : A -> Z * Z) dir l : dir = 1 \/ dir = -1 -> valid dir (map f l) ->
  StronglySorted (fun a b => fst (f a) < fst (f b) /\ 0 < dir * (snd (f b) - snd (f a))) l.
Proof. intros Hd. induction l as [|x t IH]; intros H; [constructor|]. cbn [map valid] in H. constructor.
  - apply IH. destruct t as [|y t']; [exact Logic.I|]. cbn [map valid valid_from] in *. tauto.
  - pose proof (valid_from_bounds dir (f x) (map f t) Hd H) as HB. rewrite Forall_forall in *. intros y Hy. apply (HB (f y)). apply in_map. exact Hy. Qed.

Section Row.
Variables (reference query : omap) (reverse : bool) (segs : list segment).
Hypothesis Href : StronglySorted Z.le (mpositions reference).
Hypothesis Hqry : StronglySorted Z.le (mpositions query).
Hypothesis Hfrom : pairs_from (positions_with_ids reference false) (positions_with_ids query reverse) segs.
Hypothesis Hvalid : valid (dir_of reverse) (site_pairs segs).
Hypothesis Hne : site_pairs segs <> [].

Let ps := row_pairs segs.
Definition rsite_of (p : spos) : Z := site (pr (pv_of p)).
Definition qsite_of (p : spos) : Z := site (pq (pv_of p)).

Lemma ps_ne : ps <> [].
Proof. unfold ps. intros E. apply Hne. unfold site_pairs. rewrite E. reflexivity. Qed.

Lemma ps_sorted : StronglySorted (fun a b => rsite_of a < rsite_of b /\ 0 < dir_of reverse * (qsite_of b - qsite_of a)) ps.
Proof. apply (valid_SS_map (fun p => (site (pr (pv_of p)), site (pq (pv_of p)))) (dir_of reverse) ps); [destruct reverse; auto | exact Hvalid]. Qed.

Lemma ps_ref p : In p ps -> has_site reference (rsite_of p) /\ lpos (pr (pv_of p)) = label_at reference (rsite_of p).
Proof. intros H. unfold pairs_from in Hfrom. rewrite Forall_forall in Hfrom. destruct (Hfrom p H) as (H1 & _). apply (label_in reference false) in H1. exact H1. Qed.
Lemma ps_qry p : In p ps -> has_site query (qsite_of p) /\ lpos (pq (pv_of p)) = strand_coord query reverse (qsite_of p).
Proof. intros H. unfold pairs_from in Hfrom. rewrite Forall_forall in Hfrom. destruct (Hfrom p H) as (_ & H1). apply label_in in H1. exact H1. Qed.

(* strictly ascending reference label numbers on an ascending map: reference coordinates do not descend along the list,
   so the stable sort of AlignmentResultRow.create leaves the list as it is *)
Lemma ps_ksorted : ksorted pair_rpos ps.
Proof. unfold ksorted. refine (SS_weaken_in _ _ ps _ ps_sorted). intros x y Hx Hy (H & _).
  unfold pair_rpos. destruct (ps_ref x Hx) as (S1 & ->). destruct (ps_ref y Hy) as (S2 & ->).
  apply label_at_le; [exact Href | exact S1 | exact S2 | lia]. Qed.

Lemma sorted_is_listed : sort_by pair_rpos (row_pairs segs) = row_pairs segs.
Proof. apply sort_by_sorted_id. exact ps_ksorted. Qed.

Variables (q r ql rl : Z).
Let w := row_create segs q r ql rl reverse.
Let d0 := mkS (URef (mkLabel 0 0)) 0.
Let first := pv_of (hd d0 ps).
Let last_ := pv_of (last ps d0).

Lemma row_create_fields :
  qs w = lpos (pq (if reverse then last_ else first)) /\ qe w = lpos (pq (if reverse then first else last_)) /\
  rs w = lpos (pr first) /\ re w = lpos (pr last_) /\
  rsegs w = segs /\ qid w = q /\ Multi.rid w = r /\ qlen w = ql /\ rlen w = rl /\ rrev w = reverse /\ rest w = false.
Proof. unfold w, row_create. rewrite sorted_is_listed. fold ps. pose proof ps_ne as N.
  rewrite (rev_head_last ps d0 N). unfold first, last_. destruct ps as [|p0 t]; [congruence|]. cbn [hd qs qe rs re rsegs qid Multi.rid qlen rlen rrev rest].
  repeat split; reflexivity. Qed.

Lemma first_sites : rsite_of (hd d0 ps) = fst (hd (0, 0) (site_pairs segs)) /\ qsite_of (hd d0 ps) = snd (hd (0, 0) (site_pairs segs)).
Proof. unfold site_pairs. fold ps. rewrite (hd_map _ ps d0 (0, 0) ps_ne). split; reflexivity. Qed.
Lemma last_sites : rsite_of (last ps d0) = fst (last (site_pairs segs) (0, 0)) /\ qsite_of (last ps d0) = snd (last (site_pairs segs) (0, 0)).
Proof. unfold site_pairs. fold ps. rewrite (last_map _ ps d0 (0, 0) ps_ne). split; reflexivity. Qed.

(* the four coordinates of the header are those of the first and last LISTED pair *)
Theorem header_spec : (qs w, qe w, rs w, re w) = spec_header reference query reverse (site_pairs segs).
Proof. destruct row_create_fields as (E1 & E2 & E3 & E4 & _). rewrite E1, E2, E3, E4. unfold spec_header, first, last_.
  destruct first_sites as (F1 & F2). destruct last_sites as (L1 & L2). rewrite <- F1, <- L1.
  pose proof (hd_in ps d0 ps_ne) as Ih. pose proof (last_in ps d0 ps_ne) as Il.
  destruct (ps_ref _ Ih) as (_ & ->). destruct (ps_ref _ Il) as (_ & ->).
  destruct (ps_qry _ Ih) as (_ & Qh). destruct (ps_qry _ Il) as (_ & Ql). rewrite F2 in Qh. rewrite L2 in Ql.
  clear - Qh Ql. destruct reverse; rewrite Qh, Ql; reflexivity. Qed.

(* start/end order: reference start <= end; query start <= end on '+', start >= end on '-' *)
Theorem header_order : rs w <= re w /\ (if reverse then qe w <= qs w else qs w <= qe w).
Proof. destruct row_create_fields as (E1 & E2 & E3 & E4 & _). rewrite E1, E2, E3, E4. unfold first, last_.
  pose proof (hd_in ps d0 ps_ne) as Ih. pose proof (last_in ps d0 ps_ne) as Il.
  destruct (ps_ref _ Ih) as (R1 & ->). destruct (ps_ref _ Il) as (R2 & ->).
  assert (X : rsite_of (hd d0 ps) <= rsite_of (last ps d0) /\ 0 <= dir_of reverse * (qsite_of (last ps d0) - qsite_of (hd d0 ps))).
  { destruct (SS_hd_last _ ps d0 ps_sorted ps_ne) as [<-|H]; lia. }
  destruct X as (X1 & X2). split; [apply label_at_le; assumption|].
  destruct (ps_qry _ Ih) as (Q1 & Eh). destruct (ps_qry _ Il) as (Q2 & El).
  pose proof (fun H => label_at_le query (qsite_of (last ps d0)) (qsite_of (hd d0 ps)) Hqry Q2 Q1 H) as LE1.
  pose proof (fun H => label_at_le query (qsite_of (hd d0 ps)) (qsite_of (last ps d0)) Hqry Q1 Q2 H) as LE2.
  clear - X2 Eh El LE1 LE2. unfold strand_coord, dir_of in *.
  destruct reverse; rewrite Eh, El.
  - assert (label_at query (qsite_of (last ps d0)) <= label_at query (qsite_of (hd d0 ps))) by (apply LE1; lia). lia.
  - apply LE2; lia. Qed.

(* every listed label lies between the two outermost ones *)
Theorem listed_between p : In p (site_pairs segs) ->
  fst (hd (0, 0) (site_pairs segs)) <= fst p <= fst (last (site_pairs segs) (0, 0)) /\
  0 <= dir_of reverse * (snd p - snd (hd (0, 0) (site_pairs segs))) /\ 0 <= dir_of reverse * (snd (last (site_pairs segs) (0, 0)) - snd p).
Proof. intros H. unfold site_pairs in H. fold ps in H. apply in_map_iff in H. destruct H as (x & <- & Hx). cbn [fst snd].
  destruct first_sites as (F1 & F2). destruct last_sites as (L1 & L2). rewrite <- F1, <- F2, <- L1, <- L2. fold (rsite_of x) (qsite_of x).
  pose proof ps_sorted as S. pose proof ps_ne as N. clear - S N Hx. induction S as [|y t St IH Hy]; [congruence|].
  destruct Hx as [<-|Hx].
  - cbn [hd]. destruct (SS_hd_last _ (y :: t) d0 (SSorted_cons y St Hy) N) as [<-|H]; cbn [hd] in *; lia.
  - assert (Nt : t <> []) by (intros ->; destruct Hx). specialize (IH Hx Nt). rewrite Forall_forall in Hy.
    pose proof (Hy x Hx) as Hyx. pose proof (Hy _ (hd_in t d0 Nt)) as Hyh.
    change (last (y :: t) d0) with (match t with [] => y | _ => last t d0 end). destruct t as [|z t']; [congruence|]. cbn [hd] in *.
    unfold dir_of in *. destruct reverse; lia. Qed.
End Row.

(* ---------------------------------------------------------------- queries are trimmed after reading (program.py) *)
Lemma trim_label_at q0 s : mshift q0 = 0 -> has_site q0 s -> label_at (trim q0) s = label_at q0 s - hd 0 (mpositions q0).
Proof. unfold has_site, nlabels, label_at, trim. intros E H. destruct (mpositions q0) as [|f t] eqn:P; [cbn [length] in H; lia|].
  cbn [mshift mpositions hd]. rewrite E. rewrite nth_map0; [reflexivity | rewrite E in H; lia]. Qed.
Lemma trim_len q0 : mpositions q0 <> [] -> mlen (trim q0) = last (mpositions q0) 0 - hd 0 (mpositions q0) + K.
Proof. unfold trim. destruct (mpositions q0) eqn:P; [congruence|]. reflexivity. Qed.
Lemma trim_has_site q0 s : mshift q0 = 0 -> (has_site (trim q0) s <-> has_site q0 s).
Proof. unfold has_site, nlabels, trim. intros E. destruct (mpositions q0) eqn:P; cbn [mshift mpositions]; rewrite ?P, ?E, ?map_length; reflexivity. Qed.
Lemma trim_shift q0 : mshift q0 = 0 -> mshift (trim q0) = 0.
Proof. unfold trim. destruct (mpositions q0); auto. Qed.
Lemma trim_sorted q0 : StronglySorted Z.le (mpositions q0) -> StronglySorted Z.le (mpositions (trim q0)).
Proof. unfold trim. destruct (mpositions q0) eqn:P; [rewrite P; auto|]. cbn [mpositions]. intros H. apply map_sub_sorted. exact H. Qed.
Lemma trim_mid q0 : mid (trim q0) = mid q0.
Proof. unfold trim. destruct (mpositions q0); reflexivity. Qed.

(* offsets from the first label ('+') / from the last label ('-') of the ORIGINAL query map *)
Definition query_offset (q0 : omap) (reverse : bool) (s : Z) : Z :=
  if reverse then last (mpositions q0) 0 - label_at q0 s else label_at q0 s - hd 0 (mpositions q0).
Lemma strand_coord_trim q0 reverse s : mshift q0 = 0 -> has_site q0 s -> strand_coord (trim q0) reverse s = query_offset q0 reverse s.
Proof. intros E H. unfold strand_coord, query_offset. rewrite (trim_label_at q0 s E H).
  destruct reverse; [|reflexivity]. rewrite trim_len; [lia|]. unfold has_site, nlabels in H. destruct (mpositions q0); [cbn [length] in H; lia | discriminate]. Qed.

Lemma fragment_sorted whole sh n : StronglySorted Z.le (mpositions whole) -> StronglySorted Z.le (mpositions (fragment_at whole sh n)).
Proof. intros H. unfold fragment_at. cbn [mpositions]. rewrite <- (firstn_skipn sh (mpositions whole)) in H. apply SS_app_inv in H. destruct H as (_ & H).
  rewrite <- (firstn_skipn n (skipn sh (mpositions whole))) in H. apply SS_app_inv in H. apply H. Qed.
Lemma fragment_whole whole : mshift whole = 0 -> fragment_at whole 0 (length (mpositions whole)) = whole.
Proof. intros E. unfold fragment_at. cbn [skipn]. rewrite firstn_all. destruct whole; cbn in *. subst. reflexivity. Qed.

Lemma pairs_from_incl R Q R' Q' segs : incl R R' -> incl Q Q' -> pairs_from R Q segs -> pairs_from R' Q' segs.
Proof. unfold pairs_from. intros HR HQ H. eapply Forall_impl; [|exact H]. cbn beta. intros p (H1 & H2). split; [apply HR | apply HQ]; assumption. Qed.
Lemma pairs_from_fragment R whole sh n reverse segs : mshift whole = 0 ->
  pairs_from R (positions_with_ids (fragment_at whole sh n) reverse) segs -> pairs_from R (positions_with_ids whole reverse) segs.
Proof. intros E. apply pairs_from_incl; [apply incl_refl|]. intros x Hx. apply (fragment_labels whole sh n reverse x E Hx). Qed.

(* ---------------------------------------------------------------- the record of a candidate of either pass *)
Section Record.
(* reference as read from the reference CMAP; q0 the query as read from the query CMAP (untrimmed); the candidate was aligned on
   labels sh+1 .. sh+n of the trimmed query (first pass: sh = 0, n = all labels; second pass: a prefix or a suffix) *)
Variables (reference q0 : omap) (sh n : nat) (reverse : bool) (segs : list segment).
Let whole := trim q0.
Let f := fragment_at whole sh n.
Hypothesis Href : StronglySorted Z.le (mpositions reference).
Hypothesis Hq0 : StronglySorted Z.le (mpositions q0).
Hypothesis Hs0 : mshift q0 = 0.
Hypothesis Hfrom : pairs_from (positions_with_ids reference false) (positions_with_ids f reverse) segs.
Hypothesis Hvalid : valid (dir_of reverse) (site_pairs segs).
Hypothesis Hne : site_pairs segs <> [].

Let w := align_row segs reference f reverse.
Let P := site_pairs segs.
Let a := hd (0, 0) P.
Let b := last P (0, 0).

Lemma Hfrom_whole : pairs_from (positions_with_ids reference false) (positions_with_ids whole reverse) segs.
Proof. apply (pairs_from_fragment _ whole sh n reverse segs); [apply trim_shift; exact Hs0 | exact Hfrom]. Qed.

Lemma listed_sites p : In p P -> has_site reference (fst p) /\ has_site q0 (snd p) /\ Z.of_nat sh < snd p <= Z.of_nat sh + Z.of_nat n.
Proof. intros H. unfold P, site_pairs in H. apply in_map_iff in H. destruct H as (x & <- & Hx). cbn [fst snd].
  pose proof Hfrom as HF. unfold pairs_from in HF. rewrite Forall_forall in HF. destruct (HF x Hx) as (H1 & H2).
  apply (label_in reference false) in H1. destruct H1 as (H1 & _). split; [exact H1|].
  apply fragment_labels in H2; [|apply trim_shift; exact Hs0]. destruct H2 as (H2 & H3). apply label_in in H2. destruct H2 as (H2 & _).
  split; [apply trim_has_site; assumption | exact H3]. Qed.

Theorem record_ref_span : rs w = label_at reference (fst a) /\ re w = label_at reference (fst b) /\ rs w <= re w.
Proof. pose proof (header_spec reference whole reverse segs Href Hfrom_whole Hvalid Hne (mid f) (mid reference) (mlen f) (mlen reference)) as H.
  pose proof (header_order reference whole reverse segs Href (trim_sorted q0 Hq0) Hfrom_whole Hvalid Hne (mid f) (mid reference) (mlen f) (mlen reference)) as (O & _).
  unfold spec_header in H. injection H as _ _ H3 H4. unfold w, align_row. auto. Qed.

Theorem record_qry_span :
  (reverse = false -> qs w = label_at q0 (snd a) - hd 0 (mpositions q0) /\ qe w = label_at q0 (snd b) - hd 0 (mpositions q0) /\ qs w <= qe w) /\
  (reverse = true -> qs w = last (mpositions q0) 0 - label_at q0 (snd b) /\ qe w = last (mpositions q0) 0 - label_at q0 (snd a) /\ qs w >= qe w).
Proof. pose proof (header_spec reference whole reverse segs Href Hfrom_whole Hvalid Hne (mid f) (mid reference) (mlen f) (mlen reference)) as H.
  pose proof (header_order reference whole reverse segs Href (trim_sorted q0 Hq0) Hfrom_whole Hvalid Hne (mid f) (mid reference) (mlen f) (mlen reference)) as (_ & O).
  unfold spec_header in H. injection H as H1 H2 _ _. unfold w, align_row.
  assert (Ia : In a P) by (apply hd_in; exact Hne). assert (Ib : In b P) by (apply last_in; exact Hne).
  destruct (listed_sites a Ia) as (_ & Sa & _). destruct (listed_sites b Ib) as (_ & Sb & _).
  fold P a b in H1, H2. unfold whole in H1, H2.
  split; intros ->; rewrite !strand_coord_trim in H1, H2 by assumption; unfold query_offset in H1, H2; repeat split; try assumption; lia. Qed.

Theorem record_lengths : mpositions q0 <> [] ->
  qlen w = last (mpositions q0) 0 - hd 0 (mpositions q0) + K /\ rlen w = mlen reference.
Proof. intros N. split; [|reflexivity]. change (qlen w) with (mlen whole). apply trim_len. exact N. Qed.

Theorem record_ids : qid w = mid q0 /\ Multi.rid w = mid reference /\ rrev w = reverse /\ rest w = false /\ rsegs w = segs.
Proof. repeat split. change (qid w) with (mid whole). apply trim_mid. Qed.
End Record.

(* the reference length is the truncated end marker of the CMAP file *)
Theorem reference_length rows ids refs reference : cmap_read rows ids = Ok refs -> In reference refs ->
  mlen reference = trunc_bp (hd 0 (markers_of rows (mid reference))) /\ mshift reference = 0 /\ StronglySorted Z.le (mpositions reference).
Proof. intros E H. apply read_exact_only in E. destruct E as (_ & _ & F). rewrite Forall_forall in F. destruct (F reference H) as (S & _ & L & Z0). auto. Qed.

(* ---------------------------------------------------------------- joined records (AlignmentResultRow.resolve) *)
Lemma seg_sub_incl s o : incl (positions (seg_sub s o)) (positions s).
Proof. unfold seg_sub, seg_create. cbn [positions]. intros x Hx. apply filter_In in Hx. tauto. Qed.

Lemma resolve_pair_incl a b a' b' : resolve_pair a b = Ok (a', b') -> incl (positions a') (positions a) /\ incl (positions b') (positions b).
Proof. unfold resolve_pair.
  assert (T : forall x y, (x = a \/ exists o, x = seg_sub a o) -> (y = b \/ exists o, y = seg_sub b o) -> Ok (x, y) = Ok (a', b') ->
              incl (positions a') (positions a) /\ incl (positions b') (positions b)).
  { intros x y Hx Hy E. injection E as <- <-. split; [destruct Hx as [->|(o & ->)] | destruct Hy as [->|(o & ->)]]; try apply incl_refl; apply seg_sub_incl. }
  destruct (seg_empty a); [apply T; auto|].
  destruct (end_overlaps a b) as [ov|]; cbn [bind]; [|discriminate]. destruct (negb ov); [apply T; auto|].
  destruct (start_position b); cbn [bind]; [|discriminate]. destruct (end_position a); cbn [bind]; [|discriminate].
  destruct (slice a a0 a1) as [lsub|]; cbn [bind]; [|discriminate]. destruct (slice b a0 a1) as [rsub|]; cbn [bind]; [|discriminate].
  cbv zeta. destruct (Nat.eqb _ _).
  - destruct (Nat.eqb _ 0); [apply T; eauto|]. destruct (Nat.eqb _ _); apply T; eauto.
  - destruct (sscore rsub <? sscore lsub); apply T; eauto. Qed.

Lemma aligned_incl s s' : incl (positions s') (positions s) -> incl (aligned s') (aligned s).
Proof. unfold aligned. intros H x Hx. apply filter_In in Hx. apply filter_In. split; [apply H|]; tauto. Qed.
Lemma seg0_pairs (w : Multi.row) s : seg0 w = Ok s -> incl (aligned s) (row_pairs (rsegs w)).
Proof. unfold seg0, row_pairs. destruct (rsegs w) as [|s0 t]; [discriminate|]. intros E; injection E as <-. cbn [flat_map]. apply incl_appl, incl_refl. Qed.

(* a joined record is created by the same AlignmentResultRow.create from two segments that only lost positions; ids, lengths and
   strand are those of the first-listed part *)
Theorem join_rows_record (x y j : Multi.row) : join_rows x y = Ok j ->
  j = row_create (rsegs j) (qid x) (Multi.rid x) (qlen x) (rlen x) (rrev x) /\
  incl (row_pairs (rsegs j)) (row_pairs (rsegs x) ++ row_pairs (rsegs y)).
Proof. unfold join_rows.
  destruct (first_pair_rpos x); cbn [bind]; [|discriminate]. destruct (first_pair_rpos y); cbn [bind]; [|discriminate].
  destruct (seg0 x) as [sa|] eqn:Ea; cbn [bind]; [|discriminate]. destruct (seg0 y) as [sb|] eqn:Eb; cbn [bind]; [|discriminate].
  apply seg0_pairs in Ea, Eb.
  destruct (a <? a0).
  - destruct (resolve_pair sa sb) as [[u v]|] eqn:E; cbn [bind]; [|discriminate]. intros H; injection H as <-. split; [reflexivity|].
    apply resolve_pair_incl in E. destruct E as (E1 & E2). apply aligned_incl in E1, E2. cbn [rsegs row_create fst snd]. unfold row_pairs at 1. cbn [flat_map]. rewrite app_nil_r.
    apply incl_app; [apply incl_appl | apply incl_appr]; eapply incl_tran; eassumption.
  - destruct (resolve_pair sb sa) as [[u v]|] eqn:E; cbn [bind]; [|discriminate]. intros H; injection H as <-. split; [reflexivity|].
    apply resolve_pair_incl in E. destruct E as (E1 & E2). apply aligned_incl in E1, E2. cbn [rsegs row_create fst snd]. unfold row_pairs at 1. cbn [flat_map]. rewrite app_nil_r.
    apply incl_app; [apply incl_appr | apply incl_appl]; eapply incl_tran; eassumption. Qed.

Corollary join_rows_pairs_from R Q (x y j : Multi.row) : join_rows x y = Ok j ->
  pairs_from R Q (rsegs x) -> pairs_from R Q (rsegs y) -> pairs_from R Q (rsegs j).
Proof. intros E Hx Hy. destruct (join_rows_record x y j E) as (_ & I). unfold pairs_from in *. rewrite Forall_forall in *.
  intros p Hp. apply I in Hp. apply in_app_iff in Hp. destruct Hp; auto. Qed.

(* ---------------------------------------------------------------- boolean forms for the harness *)
Definition label_inb (x : label) (l : list label) : bool := existsb (label_eqb x) l.
Lemma label_inb_sound x l : label_inb x l = true -> In x l.
Proof. unfold label_inb. rewrite existsb_exists. intros (y & Hy & E). unfold label_eqb in E. apply andb_true_iff in E. destruct E as (E1 & E2).
  apply Z.eqb_eq in E1, E2. destruct x, y; cbn in *; subst. exact Hy. Qed.
Definition pairs_fromb (R Q : list label) (segs : list segment) : bool :=
  forallb (fun p => label_inb (pr (pv_of p)) R && label_inb (pq (pv_of p)) Q) (row_pairs segs).
Lemma pairs_fromb_sound R Q segs : pairs_fromb R Q segs = true -> pairs_from R Q segs.
Proof. unfold pairs_fromb, pairs_from. rewrite forallb_forall, Forall_forall. intros H p Hp. specialize (H p Hp). apply andb_true_iff in H.
  destruct H. split; apply label_inb_sound; assumption. Qed.
Lemma valid_rowb_valid nref qlo qhi reverse P : valid_rowb nref qlo qhi reverse P = true -> valid (dir_of reverse) P /\ P <> [].
Proof. intros H. apply valid_rowb_spec in H. destruct H as (N & _ & V). split; assumption. Qed.
Fixpoint asc_le_b (l : list Z) : bool := match l with x :: (y :: _) as t => (x <=? y) && asc_le_b t | _ => true end.
Lemma asc_le_b_sorted l : asc_le_b l = true -> StronglySorted Z.le l.
Proof. induction l as [|x t IH]; [constructor|]. intros H. destruct t as [|y t']; [repeat constructor|].
  cbn [asc_le_b] in H. apply andb_true_iff in H. destruct H as (H1 & H2). specialize (IH H2). constructor; [exact IH|].
  inversion IH as [|? ? _ Hy]; subst. constructor; [lia|]. eapply Forall_impl; [|exact Hy]. cbn beta. intros; lia. Qed.

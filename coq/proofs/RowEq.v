(* `row not in rows` (repair F12): the structural equality test Multi.row_eqb decides equality of rows, Multi.row_in decides list
   membership; and the filter `[row for row in second if row not in first]` is the identity when the AlignedRest flags of the two lists
   differ (first-pass rows vs second-pass rows: modes separate / joined / all). *)
From Coq Require Import ZArith List Bool Lia.
Import ListNotations.
Require Import Py Pairing Core Multi.
Open Scope Z_scope.

Lemma lbl_eqb_spec a b : lbl_eqb a b = true <-> a = b.
Proof. unfold lbl_eqb. rewrite andb_true_iff, !Z.eqb_eq. destruct a, b; cbn. split; [intros (-> & ->); reflexivity | intros H; injection H; auto]. Qed.

Lemma apos_eqb_spec a b : apos_eqb a b = true <-> a = b.
Proof. destruct a as [r q s src|r|q st], b as [r' q' s' src'|r'|q' st']; cbn [apos_eqb]; try (split; discriminate).
  - rewrite !andb_true_iff, !lbl_eqb_spec, !Z.eqb_eq. split; [intros (((-> & ->) & ->) & ->); reflexivity | intros H; injection H; auto].
  - rewrite lbl_eqb_spec. split; [intros ->; reflexivity | intros H; injection H; auto].
  - rewrite andb_true_iff, lbl_eqb_spec, Z.eqb_eq. split; [intros (-> & ->); reflexivity | intros H; injection H; auto]. Qed.

Lemma spos_eqb_spec a b : spos_eqb a b = true <-> a = b.
Proof. unfold spos_eqb. rewrite andb_true_iff, apos_eqb_spec, Z.eqb_eq. destruct a, b; cbn.
  split; [intros (-> & ->); reflexivity | intros H; injection H; auto]. Qed.

Lemma list_eqb_spec {A} (f : A -> A -> bool) : (forall x y, f x y = true <-> x = y) -> forall a b, list_eqb f a b = true <-> a = b.
Proof. intros Hf. induction a as [|x s IH]; intros [|y t]; cbn [list_eqb]; try (split; [reflexivity|reflexivity]); try (split; discriminate).
  rewrite andb_true_iff, Hf, IH. split; [intros (-> & ->); reflexivity | intros H; injection H; auto]. Qed.

Lemma seg_eqb_spec a b : seg_eqb a b = true <-> a = b.
Proof. unfold seg_eqb. rewrite !andb_true_iff, (list_eqb_spec spos_eqb spos_eqb_spec), !Z.eqb_eq. destruct a, b; cbn.
  split; [intros ((-> & ->) & ->); reflexivity | intros H; injection H; auto]. Qed.

Theorem row_eqb_spec a b : row_eqb a b = true <-> a = b.
Proof. unfold row_eqb. rewrite !andb_true_iff, (list_eqb_spec seg_eqb seg_eqb_spec), !Z.eqb_eq, !eqb_true_iff. destruct a, b; cbn.
  split.
  - intros H. decompose [and] H. subst. reflexivity.
  - intros H. injection H. intros. subst. repeat split. Qed.

Lemma row_eqb_refl a : row_eqb a a = true.
Proof. apply row_eqb_spec. reflexivity. Qed.

Theorem row_in_spec w l : row_in w l = true <-> In w l.
Proof. unfold row_in. rewrite existsb_exists. split.
  - intros (x & Hx & E). apply row_eqb_spec in E. subst. exact Hx.
  - intros H. exists w. split; [exact H | apply row_eqb_refl]. Qed.

Lemma row_in_false w l : row_in w l = false <-> ~ In w l.
Proof. rewrite <- row_in_spec. destruct (row_in w l); split; intros; congruence. Qed.

(* the repaired second operand of resolve *)
Definition fresh_rows (f1 f2 : list row) : list row := filter (fun w => negb (row_in w f1)) f2.

Lemma fresh_rows_in f1 f2 w : In w (fresh_rows f1 f2) <-> In w f2 /\ ~ In w f1.
Proof. unfold fresh_rows. rewrite filter_In, negb_true_iff, row_in_false. tauto. Qed.

Lemma filter_all_true {A} (f : A -> bool) l : (forall x, In x l -> f x = true) -> filter f l = l.
Proof. induction l as [|x t IH]; intros H; [reflexivity|]. cbn [filter]. rewrite (H x (or_introl eq_refl)), IH; [reflexivity|].
  intros y Hy. apply H. right. exact Hy. Qed.

(* rows whose AlignedRest flags differ are different rows: the filter keeps every second-pass row *)
Theorem fresh_rows_rest f1 f2 : Forall (fun w => rest w = false) f1 -> Forall (fun w => rest w = true) f2 -> fresh_rows f1 f2 = f2.
Proof. intros H1 H2. apply filter_all_true. intros w Hw. apply negb_true_iff, row_in_false. intros Hin.
  rewrite Forall_forall in H1, H2. specialize (H1 w Hin). specialize (H2 w Hw). congruence. Qed.

(* no row of the first list is handed over twice *)
Lemma fresh_rows_disjoint f1 f2 w : In w f1 -> ~ In w (fresh_rows f1 f2).
Proof. intros H1 H. apply fresh_rows_in in H. tauto. Qed.

Lemma fresh_rows_incl f1 f2 : incl (fresh_rows f1 f2) f2.
Proof. intros w Hw. apply fresh_rows_in in Hw. tauto. Qed.

From Coq Require Import List Bool Lia Arith Wf_nat.
Import ListNotations.
Require Import DP.

Inductive Sub {A} : list A -> list A -> Prop :=
| Sub_nil l : Sub [] l
| Sub_take x c l : Sub c l -> Sub (x :: c) (x :: l)
| Sub_skip x c l : Sub c l -> Sub c (x :: l).

Lemma Sub_refl {A} (l : list A) : Sub l l.
Proof. induction l; constructor; assumption. Qed.
Lemma Sub_app_r {A} (c l r : list A) : Sub c l -> Sub c (l ++ r).
Proof. induction 1; cbn; constructor; assumption. Qed.
Lemma Sub_snoc {A} (c l : list A) x : Sub c l -> Sub (c ++ [x]) (l ++ [x]).
Proof. induction 1; cbn; [|constructor; assumption|constructor; assumption].
  induction l as [|y l IH]; cbn; [repeat constructor|apply Sub_skip; exact IH]. Qed.
Lemma Sub_firstn {A} (c l : list A) k : Sub c (firstn k l) -> Sub c l.
Proof. revert c l; induction k as [|k IH]; intros c l H; cbn in H.
  - inversion H; subst. constructor.
  - destruct l as [|x l]; [exact H|]. cbn in H. inversion H; subst; [constructor | constructor; apply IH; assumption | apply Sub_skip; apply IH; assumption]. Qed.
(* a subsequence ending in y stops at some occurrence of y *)
Lemma Sub_snoc_inv {A} (c : list A) y l : Sub (c ++ [y]) l -> exists j, nth_error l j = Some y /\ Sub c (firstn j l).
Proof. intros H. remember (c ++ [y]) as cy eqn:E. revert c E. induction H as [l | x c' l Hs IH | x c' l Hs IH]; intros c E.
  - destruct c; discriminate.
  - destruct c as [|z c]; cbn in E.
    + injection E as -> ->. exists 0. split; [reflexivity | constructor].
    + injection E as -> ->. destruct (IH c eq_refl) as (j & Hj & Hsub). exists (Datatypes.S j). split; [exact Hj|]. cbn. constructor. exact Hsub.
  - destruct (IH c E) as (j & Hj & Hsub). exists (Datatypes.S j). split; [exact Hj|]. cbn. apply Sub_skip. exact Hsub. Qed.

Section P.
Variables (S seg : Type).
Variables (le : S -> S -> Prop) (ltb : S -> S -> bool) (add : S -> S -> S) (zero : S).
Variables (score : seg -> S) (js : seg -> seg -> option S).
Hypothesis le_refl : forall a, le a a.
Hypothesis le_trans : forall a b c, le a b -> le b c -> le a c.
Hypothesis ltb_true : forall a b, ltb a b = true -> le a b.
Hypothesis ltb_false : forall a b, ltb a b = false -> le b a.
Hypothesis add_mono : forall a b c, le a b -> le (add a c) (add b c).

Notation entry := (entry S seg).
Notation best_prev := (best_prev S seg ltb add js).
Notation dp := (dp S seg ltb add zero score js).
Notation total := (total S seg add zero score js).
Notation total_from := (total_from S seg add score js).
Notation e_seg := (e_seg S seg). Notation e_cum := (e_cum S seg). Notation e_prev := (e_prev S seg).

Lemma last_default {A} (r : list A) d d' : r <> [] -> last r d = last r d'.
Proof. induction r as [|x r IH]; [congruence|]. intros _. destruct r as [|y r]; [reflexivity|]. cbn [last] in *. apply IH. discriminate. Qed.

Lemma exists_last_or_nil {A} (c : list A) : c = [] \/ exists c' y, c = c' ++ [y].
Proof. destruct c as [|x c]; [left; reflexivity|]. right. destruct (exists_last (l := x :: c)) as (c' & y & E); [discriminate|]. exists c', y. exact E. Qed.

(* ---- total over snoc ---- *)
Lemma total_from_snoc acc lst r s :
  total_from acc lst (r ++ [s]) =
  match total_from acc lst r with
  | None => None
  | Some t => match js (last r lst) s with None => None | Some x => Some (add (add t x) (score s)) end
  end.
Proof. revert acc lst; induction r as [|y r IH]; intros acc lst; cbn [app total_from last].
  - destruct (js lst s); reflexivity.
  - destruct (js lst y) as [x|]; [|reflexivity]. rewrite IH. destruct r as [|s0 r]; [reflexivity|].
    rewrite (last_default (s0 :: r) y lst) by discriminate. reflexivity. Qed.

Lemma total_snoc c y s : total ((c ++ [y]) ++ [s]) =
  match total (c ++ [y]) with None => None | Some t => match js y s with None => None | Some x => Some (add (add t x) (score s)) end end.
Proof. destruct c as [|z c]; cbn [app total].
  - cbn. destruct (js y s); reflexivity.
  - rewrite total_from_snoc. replace (last (c ++ [y]) z) with y; [reflexivity|].
    clear. induction c as [|w c IH]; [reflexivity|]. cbn [app]. rewrite IH at 1. destruct (c ++ [y]) eqn:E; [destruct c; discriminate|]. reflexivity. Qed.

(* ---- best_prev ---- *)
Lemma best_prev_spec cur done : forall j0 best0 bp0,
  let r := best_prev cur done j0 best0 bp0 in
  le best0 (fst r) /\
  (forall i e x, nth_error done i = Some e -> js (e_seg e) cur = Some x -> le (add (e_cum e) x) (fst r)) /\
  ((snd r = bp0 /\ fst r = best0) \/
   exists i e x, snd r = Some (j0 + i) /\ nth_error done i = Some e /\ js (e_seg e) cur = Some x /\ fst r = add (e_cum e) x).
Proof.
  induction done as [|e t IH]; intros j0 best0 bp0; cbn [DP.best_prev].
  - cbn. split; [apply le_refl|]. split; [intros [|i] ? ? H; discriminate | left; split; reflexivity].
  - destruct (js (e_seg e) cur) as [x|] eqn:Ej.
    + destruct (ltb best0 (add (e_cum e) x)) eqn:El.
      * specialize (IH (Datatypes.S j0) (add (e_cum e) x) (Some j0)). cbn zeta in *. destruct IH as (H1 & H2 & H3).
        split; [eapply le_trans; [apply ltb_true; exact El | exact H1]|]. split.
        -- intros [|i] e' x' Hn Hj; cbn in Hn.
           ++ injection Hn as <-. rewrite Ej in Hj. injection Hj as <-. exact H1.
           ++ apply (H2 i e' x' Hn Hj).
        -- right. destruct H3 as [(Hs & Hf)|(i & e' & x' & Hs & Hn & Hj & Hf)].
           ++ exists 0, e, x. rewrite Nat.add_0_r. repeat split; assumption.
           ++ exists (Datatypes.S i), e', x'. replace (j0 + Datatypes.S i) with (Datatypes.S j0 + i) by lia. repeat split; assumption.
      * specialize (IH (Datatypes.S j0) best0 bp0). cbn zeta in *. destruct IH as (H1 & H2 & H3).
        split; [exact H1|]. split.
        -- intros [|i] e' x' Hn Hj; cbn in Hn.
           ++ injection Hn as <-. rewrite Ej in Hj. injection Hj as <-. eapply le_trans; [apply ltb_false; exact El | exact H1].
           ++ apply (H2 i e' x' Hn Hj).
        -- destruct H3 as [H3|(i & e' & x' & Hs & Hn & Hj & Hf)]; [left; exact H3|].
           right. exists (Datatypes.S i), e', x'. replace (j0 + Datatypes.S i) with (Datatypes.S j0 + i) by lia. repeat split; assumption.
    + specialize (IH (Datatypes.S j0) best0 bp0). cbn zeta in *. destruct IH as (H1 & H2 & H3).
      split; [exact H1|]. split.
      -- intros [|i] e' x' Hn Hj; cbn in Hn.
         ++ injection Hn as <-. rewrite Ej in Hj. discriminate.
         ++ apply (H2 i e' x' Hn Hj).
      -- destruct H3 as [H3|(i & e' & x' & Hs & Hn & Hj & Hf)]; [left; exact H3|].
         right. exists (Datatypes.S i), e', x'. replace (j0 + Datatypes.S i) with (Datatypes.S j0 + i) by lia. repeat split; assumption.
Qed.

(* ---- the table invariant ---- *)
Lemma dp_app t1 t2 done : dp (t1 ++ t2) done = dp t2 (dp t1 done).
Proof. revert done; induction t1 as [|s t IH]; intros done; [reflexivity|]. cbn [app DP.dp]. apply IH. Qed.
Definition step (s : seg) (done : list entry) : list entry :=
  let bp := best_prev s done 0 zero None in done ++ [(s, add (fst bp) (score s), snd bp)].
Lemma dp_snoc p s : dp (p ++ [s]) [] = step s (dp p []).
Proof. rewrite dp_app. reflexivity. Qed.

Definition entry_ok (p : list seg) (tbl : list entry) (k : nat) (e : entry) : Prop :=
  nth_error p k = Some (e_seg e) /\
  (forall c t, Sub c (firstn k p) -> total (c ++ [e_seg e]) = Some t -> le t (e_cum e)) /\
  match e_prev e with
  | None => e_cum e = add zero (score (e_seg e))
  | Some j => j < k /\ exists ej x, nth_error tbl j = Some ej /\ js (e_seg ej) (e_seg e) = Some x /\
                                    e_cum e = add (add (e_cum ej) x) (score (e_seg e))
  end.
Definition TInv (p : list seg) (tbl : list entry) : Prop :=
  length tbl = length p /\ forall k e, nth_error tbl k = Some e -> entry_ok p tbl k e.

Lemma tinv_nil : TInv [] [].
Proof. split; [reflexivity|]. intros [|k] e H; discriminate. Qed.

Lemma tinv_step p tbl s : TInv p tbl -> TInv (p ++ [s]) (step s tbl).
Proof.
  intros (Hlen & Hent). unfold step. set (bp := best_prev s tbl 0 zero None).
  split; [rewrite !app_length; cbn; lia|].
  intros k e Hk. destruct (Nat.lt_ge_cases k (length tbl)) as [Hlt|Hge].
  - rewrite nth_error_app1 in Hk by exact Hlt. destruct (Hent k e Hk) as (H1 & H2 & H3). split; [|split].
    + rewrite nth_error_app1 by lia. exact H1.
    + intros c t Hc. rewrite firstn_app in Hc. replace (k - length p) with 0 in Hc by lia. cbn in Hc. rewrite app_nil_r in Hc. apply H2. exact Hc.
    + destruct (e_prev e) as [j|]; [|exact H3]. destruct H3 as (Hj & ej & x & Hn & Hjs & Hc). split; [exact Hj|].
      exists ej, x. split; [rewrite nth_error_app1 by lia; exact Hn | split; assumption].
  - assert (k = length tbl).
    { assert (Hk' : k < length (tbl ++ [(s, add (fst bp) (score s), snd bp)])) by (apply nth_error_Some; congruence).
      rewrite app_length in Hk'. cbn in Hk'. lia. }
    subst k. rewrite nth_error_app2, Nat.sub_diag in Hk by lia. cbn in Hk. injection Hk as <-.
    pose proof (best_prev_spec s tbl 0 zero None) as Hb. cbn zeta in Hb. fold bp in Hb.
    destruct Hb as (Hz & Hall & Hwit). unfold entry_ok. cbn [DP.e_seg DP.e_cum DP.e_prev fst snd].
    split; [|split].
    + rewrite nth_error_app2, Hlen, Nat.sub_diag by lia. reflexivity.
    + intros c t Hc Ht. rewrite firstn_app, Hlen, Nat.sub_diag in Hc. cbn in Hc. rewrite app_nil_r, firstn_all in Hc.
      destruct (exists_last_or_nil c) as [->|(c' & y & ->)].
      * cbn in Ht. injection Ht as <-. apply add_mono. exact Hz.
      * rewrite total_snoc in Ht. destruct (total (c' ++ [y])) as [t'|] eqn:Et; [|discriminate].
        destruct (js y s) as [x|] eqn:Ex; [|discriminate]. injection Ht as <-.
        destruct (Sub_snoc_inv c' y p Hc) as (j & Hj & Hsub).
        assert (Hjl : j < length tbl) by (rewrite Hlen; apply nth_error_Some; congruence).
        destruct (nth_error tbl j) as [ej|] eqn:Ej; [|apply nth_error_None in Ej; lia].
        destruct (Hent j ej Ej) as (G1 & G2 & _). rewrite Hj in G1. injection G1 as ->.
        apply add_mono. eapply le_trans; [apply add_mono; apply (G2 c' t' Hsub Et)|]. apply (Hall j ej x Ej Ex).
    + destruct Hwit as [(Hs & Hf)|(i & ei & x & Hs & Hn & Hj & Hf)].
      * rewrite Hs, Hf. reflexivity.
      * rewrite Hs. cbn. split; [apply nth_error_Some; congruence|]. exists ei, x. split; [rewrite nth_error_app1 by (apply nth_error_Some; congruence); exact Hn|].
        split; [exact Hj | rewrite Hf; reflexivity].
Qed.

Lemma tinv_dp p : TInv p (dp p []).
Proof. induction p as [|s p IH] using rev_ind; [apply tinv_nil|]. rewrite dp_snoc. apply tinv_step. exact IH. Qed.

Notation backtrack := (backtrack S seg).
Notation best_index := (best_index S seg ltb).
Notation chain_nonempty := (chain_nonempty S seg ltb add zero score js).

Lemma firstn_S_nth {A} (l : list A) k x : nth_error l k = Some x -> firstn (Datatypes.S k) l = firstn k l ++ [x].
Proof. revert l; induction k as [|k IH]; intros [|y l] H; try discriminate; cbn in *.
  - injection H as ->. reflexivity.
  - f_equal. apply IH. exact H. Qed.
Lemma Sub_firstn_le {A} (c l : list A) j k : j <= k -> Sub c (firstn j l) -> Sub c (firstn k l).
Proof. intros Hjk H. replace (firstn j l) with (firstn j (firstn k l)) in H by (rewrite firstn_firstn; f_equal; lia). apply (Sub_firstn _ _ _ H). Qed.

Lemma chain_of_entry p tbl : TInv p tbl -> forall k e, nth_error tbl k = Some e ->
  exists c, (forall fuel acc, k < fuel -> backtrack fuel tbl k acc = c ++ acc) /\
            total c = Some (e_cum e) /\ Sub c (firstn (Datatypes.S k) p) /\ exists c0, c = c0 ++ [e_seg e].
Proof.
  intros (Hlen & Hent) k. induction k as [k IH] using lt_wf_ind. intros e Hk.
  destruct (Hent k e Hk) as (Hp & _ & Hprev). rewrite (firstn_S_nth p k _ Hp).
  destruct (e_prev e) as [j|] eqn:Epv.
  - destruct Hprev as (Hj & ej & x & Hn & Hjs & Hc).
    destruct (IH j Hj ej Hn) as (cj & Hbt & Htot & Hsub & c0 & Ec0).
    exists (cj ++ [e_seg e]). split; [|split; [|split]].
    + intros [|f] acc Hf; [lia|]. cbn [DP.backtrack]. rewrite Hk, Epv. rewrite Hbt by lia. rewrite <- app_assoc. reflexivity.
    + rewrite Ec0, total_snoc. rewrite <- Ec0, Htot, Hjs, Hc. reflexivity.
    + apply Sub_snoc. apply (Sub_firstn_le _ _ (Datatypes.S j) k); [lia | exact Hsub].
    + exists cj. reflexivity.
  - exists [e_seg e]. split; [|split; [|split]].
    + intros [|f] acc Hf; [lia|]. cbn [DP.backtrack]. rewrite Hk, Epv. reflexivity.
    + cbn. rewrite Hprev. reflexivity.
    + apply (Sub_snoc []). constructor.
    + exists []. reflexivity.
Qed.

Lemma best_index_spec l : forall i0 best bi,
  let r := best_index l i0 best bi in
  (r = bi /\ forall e, In e l -> le (e_cum e) best) \/
  (exists m e, r = i0 + m /\ nth_error l m = Some e /\ le best (e_cum e) /\ forall e', In e' l -> le (e_cum e') (e_cum e)).
Proof.
  induction l as [|e t IH]; intros i0 best bi; cbn [DP.best_index].
  - left. split; [reflexivity | intros e []].
  - destruct (ltb best (e_cum e)) eqn:El.
    + right. destruct (IH (Datatypes.S i0) (e_cum e) i0) as [(Hr & Hall)|(m & e' & Hr & Hn & Hb & Hall)].
      * exists 0, e. cbn zeta in Hr. rewrite Hr, Nat.add_0_r. split; [reflexivity|]. split; [reflexivity|]. split; [apply ltb_true; exact El|].
        intros e' [<-|He']; [apply le_refl | apply Hall; exact He'].
      * exists (Datatypes.S m), e'. cbn zeta in Hr. rewrite Hr. split; [lia|]. split; [exact Hn|].
        split; [eapply le_trans; [apply ltb_true; exact El | exact Hb]|]. intros e'' [<-|He'']; [exact Hb | apply Hall; exact He''].
    + destruct (IH (Datatypes.S i0) best bi) as [(Hr & Hall)|(m & e' & Hr & Hn & Hb & Hall)].
      * left. split; [exact Hr|]. intros e' [<-|He']; [apply ltb_false; exact El | apply Hall; exact He'].
      * right. exists (Datatypes.S m), e'. cbn zeta in Hr. rewrite Hr. split; [lia|]. split; [exact Hn|]. split; [exact Hb|].
        intros e'' [<-|He'']; [eapply le_trans; [apply ltb_false; exact El | exact Hb] | apply Hall; exact He''].
Qed.

Theorem chain_optimal p : p <> [] ->
  exists tbest, total (chain_nonempty p) = Some tbest /\ Sub (chain_nonempty p) p /\ chain_nonempty p <> [] /\
                forall c t, Sub c p -> total c = Some t -> le t tbest.
Proof.
  intros Hne. pose proof (tinv_dp p) as HT. destruct HT as (Hlen & Hent). unfold DP.chain_nonempty.
  destruct (dp p []) as [|e0 tbl'] eqn:Etbl; [destruct p; [congruence | cbn in Hlen; discriminate]|].
  set (tbl := e0 :: tbl') in *.
  assert (HT : TInv p tbl) by (split; assumption).
  (* the chosen index and its entry dominate every entry *)
  assert (Hbest : exists eb, nth_error tbl (best_index tbl 0 (e_cum e0) 0) = Some eb /\ forall e', In e' tbl -> le (e_cum e') (e_cum eb)).
  { destruct (best_index_spec tbl 0 (e_cum e0) 0) as [(Hr & Hall)|(m & e & Hr & Hn & _ & Hall)]; cbn zeta in Hr; rewrite Hr.
    - exists e0. split; [reflexivity | exact Hall].
    - exists e. split; [exact Hn | exact Hall]. }
  destruct Hbest as (eb & Hnb & Hdom). set (b := best_index tbl 0 (e_cum e0) 0) in *.
  destruct (chain_of_entry p tbl HT b eb Hnb) as (c & Hbt & Htot & Hsub & c0 & Ec0).
  assert (Hb : b < length tbl) by (apply nth_error_Some; congruence).
  rewrite (Hbt (length tbl) [] Hb), app_nil_r.
  exists (e_cum eb). split; [exact Htot|]. split; [apply (Sub_firstn _ _ _ Hsub)|]. split; [rewrite Ec0; destruct c0; discriminate|].
  intros c' t Hc' Ht. destruct (exists_last_or_nil c') as [->|(c'' & y & ->)]; [discriminate|].
  destruct (Sub_snoc_inv c'' y p Hc') as (j & Hj & Hsubj).
  assert (Hjl : j < length tbl) by (rewrite Hlen; apply nth_error_Some; congruence).
  destruct (nth_error tbl j) as [ej|] eqn:Ej; [|apply nth_error_None in Ej; lia].
  destruct (Hent j ej Ej) as (G1 & G2 & _). rewrite Hj in G1. injection G1 as ->.
  eapply le_trans; [apply (G2 c'' t Hsubj Ht)|]. apply Hdom. apply (nth_error_In _ _ Ej).
Qed.
End P.

Check chain_optimal.
Print Assumptions chain_optimal.

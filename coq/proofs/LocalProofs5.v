(* C10, part 5: runs on FILES.  run_files = Program.__readMaps (readReferences with -rId, readQueries with -qId, trim)
   followed by Program.run.  The CMAP reader returns the molecules in ascending id order whatever the order of the rows in
   the file (C17_perm), so a run does not see row order, molecule order or the order in which the references are listed;
   an id selection is the same thing as a physically restricted file (the reader filters rows first); and because the ids
   the reader returns are distinct the per-query theorems of LocalProofs4 apply without any hypothesis on the ids. *)
From Coq Require Import ZArith QArith List Bool Lia Sorting.Permutation Sorting.Sorted.
Import ListNotations.
Require Import Py Pairing Core Multi Coordinator PyProofs SrcErase LocalProofs1 LocalProofs2 LocalProofs3 LocalProofs4.
Require Import Cmap CmapProofs CmapProofs2.
Open Scope Z_scope.

Notation crow := (Z * Z * Z)%type.          (* (CMapId, LabelChannel, Position in tenths) *)
Definition keep_ids (p : Z -> bool) (rows : list crow) : list crow := filter (fun r => p (Cmap.rid r)) rows.
Definition listed (ids : list Z) (i : Z) : bool := mem_id i ids.

Definition read_maps (rrows qrows : list crow) (rids qids : list Z) : res (list omap * list omap) :=
  do refs <- cmap_read rrows rids; do qs <- cmap_read qrows qids; Ok (refs, map trim qs).
Definition run_files (P : params) (seeds : seeding) (m : mode) (md : Z) (rrows qrows : list crow) (rids qids : list Z) : res outputs :=
  do rq <- read_maps rrows qrows rids qids; program_run P seeds m md (fst rq) (snd rq).

(* ---------- row order, molecule order, reference order ---------- *)
Theorem run_files_perm P seeds m md rrows rrows' qrows qrows' rids qids :
  Permutation rrows rrows' -> Permutation qrows qrows' ->
  (forall i, (length (markers_of rrows i) <= 1)%nat) -> (forall i, (length (markers_of qrows i) <= 1)%nat) ->
  run_files P seeds m md rrows' qrows' rids qids = run_files P seeds m md rrows qrows rids qids.
Proof. intros Pr Pq Hr Hq. unfold run_files, read_maps. rewrite (read_perm rrows rrows' rids Pr Hr), (read_perm qrows qrows' qids Pq Hq). reflexivity. Qed.

Corollary run_files_ref_perm P seeds m md rrows rrows' qrows rids qids :
  Permutation rrows rrows' -> (forall i, (length (markers_of rrows i) <= 1)%nat) -> (forall i, (length (markers_of qrows i) <= 1)%nat) ->
  run_files P seeds m md rrows' qrows rids qids = run_files P seeds m md rrows qrows rids qids.
Proof. intros Pr. apply run_files_perm; [exact Pr | apply Permutation_refl]. Qed.

(* ---------- -rId / -qId = physically restricted files ---------- *)
Lemma read_listed rows ids : ids <> [] -> cmap_read rows ids = cmap_read (keep_ids (listed ids) rows) [].
Proof. intros H. destruct ids as [|i t]; [congruence|]. reflexivity. Qed.
Theorem run_files_rid P seeds m md rrows qrows rids qids : rids <> [] ->
  run_files P seeds m md rrows qrows rids qids = run_files P seeds m md (keep_ids (listed rids) rrows) qrows [] qids.
Proof. intros H. unfold run_files, read_maps. rewrite (read_listed rrows rids H). reflexivity. Qed.
Theorem run_files_qid P seeds m md rrows qrows rids qids : qids <> [] ->
  run_files P seeds m md rrows qrows rids qids = run_files P seeds m md rrows (keep_ids (listed qids) qrows) rids [].
Proof. intros H. unfold run_files, read_maps. rewrite (read_listed qrows qids H). reflexivity. Qed.

(* ---------- keeping some molecules of a file = keeping those maps of the read ---------- *)
Lemma read_mids_keys rows ms m : cmap_read rows [] = Ok ms -> In m ms -> In (mid m) (keys rows).
Proof. intros E Hm. destruct (read_exact_only _ _ _ E) as (_ & Hi & _). apply labels_key. apply (Hi (mid m)). apply in_map, Hm. Qed.
Lemma read_keep p rows ms : cmap_read rows [] = Ok ms -> cmap_read (keep_ids p rows) [] = Ok (filter (fun m => p (mid m)) ms).
Proof. intros E. destruct (filter p (keys rows)) as [|i0 t0] eqn:F.
  - assert (Hk : forall i, In i (keys rows) -> p i = false).
    { intros i Hi. destruct (p i) eqn:Pi; [|reflexivity]. assert (X : In i (filter p (keys rows))) by (apply filter_In; auto). rewrite F in X. destruct X. }
    unfold keep_ids. rewrite (filter_none (fun r => p (Cmap.rid r)) rows), (filter_none (fun m => p (mid m)) ms); [reflexivity| |].
    + intros m Hm. apply Hk, (read_mids_keys rows ms m E Hm).
    + intros r Hr. apply Hk, keys_in. exists r. auto.
  - assert (Hne : filter p (keys rows) <> []) by congruence. clear F.
    assert (Hmem : forall i, In i (keys rows) -> mem_id i (filter p (keys rows)) = p i).
    { intros i Hi. destruct (p i) eqn:Pi.
      - apply mem_id_In, filter_In. auto.
      - destruct (mem_id i (filter p (keys rows))) eqn:M; [|reflexivity]. apply mem_id_In, filter_In in M. destruct M. congruence. }
    pose proof (read_filter rows (filter p (keys rows)) ms Hne E) as R. rewrite (read_listed _ _ Hne) in R.
    unfold keep_ids, listed in *.
    rewrite (filter_ext_in' (fun r => p (Cmap.rid r)) (fun r => mem_id (Cmap.rid r) (filter p (keys rows))) rows).
    + rewrite R. f_equal. apply filter_ext_in'. intros m Hm. apply Hmem, (read_mids_keys rows ms m E Hm).
    + intros r Hr. symmetry. apply Hmem, keys_in. exists r. auto.
Qed.

Lemma mid_trim m : mid (trim m) = mid m.
Proof. unfold trim. destruct (mpositions m); reflexivity. Qed.
Lemma read_nodup rows ids ms : cmap_read rows ids = Ok ms -> NoDup (map mid (map trim ms)).
Proof. intros E. destruct (read_exact_only _ _ _ E) as (S & _ & _). rewrite map_map.
  rewrite (map_ext (fun x => mid (trim x)) mid) by apply mid_trim.
  induction S as [|a t St IH Ha]; constructor; [|exact IH]. intros Hin. rewrite Forall_forall in Ha. specialize (Ha a Hin). lia. Qed.
Lemma nodup_filter {A} (p : A -> bool) (f : A -> Z) l : NoDup (map f l) -> NoDup (map f (filter p l)).
Proof. induction l as [|x t IH]; intros N; [constructor|]. cbn [map] in N. inversion N as [|? ? Hx Nt]; subst. cbn [filter].
  destruct (p x); [|apply IH, Nt]. cbn [map]. constructor; [|apply IH, Nt]. intros Hin. apply Hx.
  apply in_map_iff in Hin. destruct Hin as (y & E & Hy). apply filter_In in Hy. apply in_map_iff. exists y. split; [exact E | apply Hy]. Qed.

Section Files.
Variable P : params.
Variable seeds : seeding.
Variable m : mode.
Variable md : Z.
Definition erun_files rrows qrows rids qids : res outputs := rmap er_out (run_files P seeds m md rrows qrows rids qids).

(* the file-level run always works on distinct query ids: it IS the decomposed run of LocalProofs4 *)
Lemma erun_files_read rrows qrows rids qids refs ms : cmap_read rrows rids = Ok refs -> cmap_read qrows qids = Ok ms ->
  erun_files rrows qrows rids qids = erun P seeds refs m md (map trim ms).
Proof. intros E1 E2. unfold erun_files, run_files, read_maps. rewrite E1, E2. reflexivity. Qed.

(* query molecules physically removed from the query file (p = which ids are kept); read from right to left: added.
   Every kept query keeps its records in every output file; ids that are not kept have no record. *)
Theorem erun_files_keep p rrows qrows rids o : erun_files rrows qrows rids [] = Ok o ->
  exists o', erun_files rrows (keep_ids p qrows) rids [] = Ok o' /\
    (forall k, p k = true -> fam_out k o' = fam_out k o) /\
    (forall k, p k = false -> post m md [] [] = Ok (fam_out k o')).
Proof. intros E. unfold erun_files, run_files, read_maps in E.
  destruct (cmap_read rrows rids) as [refs|] eqn:Er; cbn [bind rmap] in E; [|discriminate].
  destruct (cmap_read qrows []) as [ms|] eqn:Eq; cbn [bind rmap fst snd] in E; [|discriminate].
  pose proof (read_keep p qrows ms Eq) as Ek.
  rewrite (erun_files_read _ _ _ _ refs _ Er Ek).
  pose proof (read_nodup _ _ _ Eq) as N. pose proof (read_nodup _ _ _ Ek) as N'.
  assert (I : incl (map trim (filter (fun m => p (mid m)) ms)) (map trim ms)).
  { intros x Hx. apply in_map_iff in Hx. destruct Hx as (y & <- & Hy). apply filter_In in Hy. apply in_map, Hy. }
  destruct (erun_sub P seeds refs m md _ _ o N N' I E) as (o' & E' & H). exists o'. split; [exact E'|]. split.
  - intros k Pk. destruct (in_dec Z.eq_dec k (map mid (map trim ms))) as [Hin|Hout].
    + apply in_map_iff in Hin. destruct Hin as (q & <- & Hq). apply H. apply in_map_iff in Hq. destruct Hq as (y & <- & Hy).
      apply in_map, filter_In. split; [exact Hy|]. rewrite mid_trim in Pk. exact Pk.
    + pose proof (erun_absent P seeds refs m md _ k o N Hout E) as A1.
      assert (Hout' : ~ In k (map mid (map trim (filter (fun m => p (mid m)) ms)))).
      { intros X. apply Hout. apply in_map_iff in X. destruct X as (q & <- & Hq). apply in_map, I, Hq. }
      pose proof (erun_absent P seeds refs m md _ k o' N' Hout' E') as A2. congruence.
  - intros k Pk. apply (erun_absent P seeds refs m md _ k o' N'); [|exact E'].
    intros X. apply in_map_iff in X. destruct X as (q & <- & Hq). apply in_map_iff in Hq. destruct Hq as (y & <- & Hy).
    apply filter_In in Hy. rewrite mid_trim in Pk. destruct Hy. congruence. Qed.

(* -qId: the selected queries get exactly the records they have in the unrestricted run *)
Corollary erun_files_qid_records rrows qrows rids qids o : qids <> [] -> erun_files rrows qrows rids [] = Ok o ->
  exists o', erun_files rrows qrows rids qids = Ok o' /\
    (forall k, In k qids -> fam_out k o' = fam_out k o) /\
    (forall k, ~ In k qids -> post m md [] [] = Ok (fam_out k o')).
Proof. intros Hne E. destruct (erun_files_keep (listed qids) rrows qrows rids o E) as (o' & E' & H1 & H2).
  exists o'. unfold erun_files in *. rewrite (run_files_qid P seeds m md rrows qrows rids qids Hne). split; [exact E'|]. split.
  - intros k Hk. apply H1. apply mem_id_In, Hk.
  - intros k Hk. apply H2. destruct (listed qids k) eqn:L; [|reflexivity]. apply mem_id_In in L. contradiction. Qed.
End Files.

(* Whole-run lift, part 6: every output file of a run that holds no joined row can be read back by the project's own XMAP reader
   (C18_roundtrip applies to it); the main files too, under the explicit hypothesis that their joined rows are valid matchings.
   The reader is given the reference maps and the query maps AS READ from the CMAP files (ids and numbers of labels are what matters:
   OpticalMap.trim changes neither).
   Units: Multi.row has coordinates/lengths in tenths of bp and the confidence in 1/20; Record.xrow_of_row hands the writer tenths and
   hundredths (x_conf = 5 * conf).  Xmap.row_ok asks nothing of coordinates, lengths or confidence (the codecs of "{:.1f}" / "{:.2f}"
   are exact for every integer of either sign: C18_codec_tenths, C18_codec_hundredths), only: both maps present, site ids within their maps, at least one pair,
   at least one HitEnum run. *)
From Coq Require Import ZArith QArith List Bool Lia String Ascii Sorting.Sorted Sorting.Permutation.
Import ListNotations.
Require Import Py PyProofs Pairing Core Cigar Multi Coordinator Checkers CheckersProofs Cmap Xmap Record
  ResolverProofs3 RecordProofs1 RecordProofs2 RecordProofs3 RecordProofs4 XmapProofs1 XmapProofs2
  CigarProofs CigarProofs2 CigarProofs3 RunProofs1 RunProofs2 RunProofs3 RunRecordProofs1.
Require Pool.
Open Scope Z_scope.

(* an OpticalMap as the XMAP reader's pair parser looks at it: moleculeId and positions *)
Definition xmap_of (m : Pairing.omap) : Xmap.omap := (mid m, mpositions m).

Lemma find_xmap_of ms r : NoDup (map mid ms) -> In r ms ->
  find (fun m : Xmap.omap => Z.eqb (fst m) (mid r)) (map xmap_of ms) = Some (xmap_of r).
Proof. induction ms as [|a t IH]; intros Hnd Hin; [destruct Hin|]. cbn [map] in Hnd. inversion Hnd as [|? ? Hnin Hnd']; subst.
  cbn [map find xmap_of fst]. destruct Hin as [->|Hin]; [rewrite Z.eqb_refl; reflexivity|].
  destruct (mid a =? mid r) eqn:E; [|apply IH; assumption]. apply Z.eqb_eq in E. exfalso. apply Hnin. rewrite E. apply in_map. exact Hin. Qed.

(* the record names a reference of the reference file and a query of the query file, and its pairs are a non-empty one-to-one collinear
   matching of labels 1..n of these two maps (RunProofs3.valid_run_row, with the queries as read) *)
Definition row_matching (refs q0s : list Pairing.omap) (w : Multi.row) : Prop :=
  exists r q0, In r refs /\ In q0 q0s /\ Multi.rid w = mid r /\ qid w = mid q0 /\
    valid_row (nlabels r) 1 (nlabels q0) (rrev w) (site_pairs (rsegs w)).

Lemma matching_of_valid_run_row refs q0s w : valid_run_row refs (map trim q0s) w <-> row_matching refs q0s w.
Proof. split.
  - intros (r & q & Hr & Hq & Er & Eq & Hv). apply in_map_iff in Hq. destruct Hq as (q0 & <- & Hq0). exists r, q0.
    rewrite trim_mid in Eq. rewrite nlabels_trim in Hv. repeat (split; [assumption|]). exact Hv.
  - intros (r & q0 & Hr & Hq0 & Er & Eq & Hv). exists r, (trim q0). split; [exact Hr|]. split; [apply in_map; exact Hq0|].
    rewrite trim_mid, nlabels_trim. repeat (split; [assumption|]). exact Hv.
Qed.

Lemma run_record_matching refs q0s w : (forall q0, In q0 q0s -> mpositions q0 <> []) -> run_record refs q0s w -> row_matching refs q0s w.
Proof. intros Hne (reference & q0 & sh & n & Hr & Hq0 & Ew & _ & Hv & _). exists reference, q0. split; [exact Hr|]. split; [exact Hq0|].
  destruct (record_ids reference q0 sh n (rrev w) (rsegs w)) as (I1 & I2 & _). cbv zeta in I1, I2.
  split; [rewrite Ew; exact I2|]. split; [rewrite Ew; exact I1 | exact Hv]. Qed.

Section Readable.
Variables refs q0s : list Pairing.omap.
Hypothesis Hrid : NoDup (map mid refs).
Hypothesis Hqid : NoDup (map mid q0s).
(* the maps the reader is constructed with *)
Let R := map xmap_of refs.
Let Q := map xmap_of q0s.

(* one row: cigarString does not raise and has a run; the printed record is well-formed for the reader *)
Theorem matching_row_ok w : row_matching refs q0s w ->
  exists runs, cigar_runs (site_pairs (rsegs w)) = Ok runs /\ runs <> [] /\ xrow_of w = Ok (xrow_of_row w runs) /\
               row_ok R Q (xrow_of_row w runs).
Proof.
  intros (r & q0 & Hr & Hq0 & Er & Eq & Hne & Hrange & Hvalid).
  destruct (cigar_runs_ok _ _ Hvalid Hne) as (runs & Ec & Hruns & _). exists runs. split; [exact Ec|]. split; [exact Hruns|].
  split; [unfold xrow_of; rewrite Ec; reflexivity|].
  pose proof (find_xmap_of refs r Hrid Hr) as Fr. pose proof (find_xmap_of q0s q0 Hqid Hq0) as Fq. fold R in Fr. fold Q in Fq.
  unfold row_ok. cbn [xrow_of_row x_rid x_qid x_pairs x_runs]. rewrite Er, Eq.
  split; [exists (xmap_of r); exact Fr|]. split; [exists (xmap_of q0); exact Fq|]. split; [|split; [exact Hne | exact Hruns]].
  eapply Forall_impl; [|exact Hrange]. intros p (H1 & H2). unfold site_ok, positions_of. rewrite Fr, Fq. cbn [xmap_of snd]. unfold nlabels in *. lia.
Qed.

(* one file = the rows handed to one call of XmapReader.writeAlignments.  It is readable when: cigarString succeeds on every row (xs are the
   dicts the writer prints), every printed record is well-formed, and the reader returns normally on the written data lines with exactly the
   alignments C18 expects: one per record, in order, numbered from 1 *)
Definition file_readable (rows : list Multi.row) : Prop :=
  exists xs, mapM xrow_of rows = Ok xs /\
    Forall2 (fun w x => exists runs, cigar_runs (site_pairs (rsegs w)) = Ok runs /\ runs <> [] /\ x = xrow_of_row w runs) rows xs /\
    Forall (row_ok R Q) xs /\
    xmap_read_lines (xmap_write_lines xs) R Q = XOk (map (expected R Q) (number xs)) /\
    List.length (map (expected R Q) (number xs)) = List.length rows.

Lemma Forall2_len {A B} (Rr : A -> B -> Prop) l1 l2 : Forall2 Rr l1 l2 -> List.length l1 = List.length l2.
Proof. induction 1; [reflexivity|]. cbn. congruence. Qed.
Lemma number_from_length' rows : forall i, List.length (number_from i rows) = List.length rows.
Proof. induction rows as [|r t IH]; intros i; [reflexivity|]. cbn. rewrite IH. reflexivity. Qed.

Theorem matching_file_readable rows : Forall (row_matching refs q0s) rows -> file_readable rows.
Proof.
  intros H.
  assert (X : exists xs, mapM xrow_of rows = Ok xs /\
    Forall2 (fun w x => exists runs, cigar_runs (site_pairs (rsegs w)) = Ok runs /\ runs <> [] /\ x = xrow_of_row w runs) rows xs /\ Forall (row_ok R Q) xs).
  { induction H as [|w t Hw Ht IH]; [exists []; split; [reflexivity|]; split; constructor|].
    destruct IH as (xs & E & F2 & Fo). destruct (matching_row_ok w Hw) as (runs & Ec & Hruns & Ex & Hok).
    exists (xrow_of_row w runs :: xs). cbn [mapM]. rewrite Ex. cbn [bind]. rewrite E. cbn [bind]. split; [reflexivity|].
    split; [constructor; [exists runs; repeat split; assumption | exact F2] | constructor; assumption]. }
  destruct X as (xs & E & F2 & Fo). exists xs. split; [exact E|]. split; [exact F2|]. split; [exact Fo|].
  split; [apply roundtrip; exact Fo|]. rewrite map_length. unfold number. rewrite number_from_length'. symmetry. apply (Forall2_len _ _ _ F2).
Qed.

(* zero records *)
Lemma empty_file_readable : file_readable [].
Proof. apply matching_file_readable. constructor. Qed.
End Readable.

(* the fields that come back for a record, in terms of the row: whole base pairs (truncated), confidence in hundredths = 5 * (1/20 units) *)
Lemma expected_of_row R Q i (w : Multi.row) runs :
  let a := expected R Q (i, xrow_of_row w runs) in
  a_id a = i /\ a_qid a = qid w /\ a_rid a = Multi.rid w /\
  a_qstart a = Z.quot (qs w) 10 /\ a_qend a = Z.quot (qe w) 10 /\ a_rstart a = Z.quot (rs w) 10 /\ a_rend a = Z.quot (re w) 10 /\
  a_rev a = rrev w /\ a_conf a = 5 * conf w /\ a_cigar a = Some (render runs) /\
  a_qlen a = Z.quot (qlen w) 10 /\ a_rlen a = Z.quot (rlen w) 10 /\
  map (fun x => match x with (rsite, _, qsite, _, _) => (rsite, qsite) end) (a_pairs a) = site_pairs (rsegs w).
Proof. cbv zeta. repeat (split; [reflexivity|]). unfold expected. cbn [a_pairs snd xrow_of_row x_pairs x_rev x_rid x_qid].
  unfold with_distance. destruct (map _ (site_pairs (rsegs w))) as [|[[[r0 rp0] q0] qp0] t] eqn:E.
  - destruct (site_pairs (rsegs w)); [reflexivity | discriminate].
  - rewrite <- E. clear E. rewrite !map_map. cbn beta. induction (site_pairs (rsegs w)) as [|[a b] l IH]; [reflexivity|]. cbn [map fst snd]. rewrite IH. reflexivity.
Qed.

(* the data lines of model/Pool.v (print_outputs: what C09 compares across schedules) are these data lines *)
Definition file_text (rows : list Multi.row) : res (list string) := do xs <- mapM xrow_of rows; Ok (xmap_write_lines xs).
Lemma pool_file_lines rows : Pool.file_lines rows = file_text rows.
Proof. reflexivity. Qed.

(* ------------------------------------------------------------------------------------------------ the files of a run *)
Section RunFiles.
Variables (P : params) (seeds : seeding) (refs q0s : list Pairing.omap).
Hypothesis Hsu : SU P <= 0.
Hypothesis Hms : 0 < MS P.
Hypothesis Hseeds : seeds_ok refs seeds.
Hypothesis Hrefs : forall r, In r refs -> reference_ok r.
Hypothesis Hq0s : forall q0, In q0 q0s -> query_read q0.
Hypothesis Hrid : NoDup (map mid refs).
Hypothesis Hqid : NoDup (map mid q0s).

(* a main-file row that AlignmentResults.resolve built from two (valid) rows of the passes *)
Definition joined_row (w : Multi.row) : Prop :=
  exists a b, row_matching refs q0s a /\ row_matching refs q0s b /\ join_rows a b = Ok w.

Theorem run_files_readable m maxdiff o : program_run P seeds m maxdiff refs (map trim q0s) = Ok o ->
  file_readable refs q0s (opt_rows (o_1 o)) /\ file_readable refs q0s (opt_rows (o_2 o)) /\
  (m = Separate -> file_readable refs q0s (o_main o)) /\
  ((forall w, In w (o_main o) -> joined_row w -> row_matching refs q0s w) -> file_readable refs q0s (o_main o)) /\
  (forall w, In w (o_main o) -> row_matching refs q0s w \/ (m <> Separate /\ joined_row w)).
Proof.
  intros Hrun.
  assert (Hqq : forall q, In q (map trim q0s) -> trimmed q) by (apply (qq_trimmed q0s Hq0s)).
  assert (Hn : NoDup (map mid (map trim q0s))) by (rewrite map_mid_trim; exact Hqid).
  destruct (run_rows_valid P seeds refs (map trim q0s) Hsu Hms Hseeds Hrefs Hqq m maxdiff o Hn Hrun) as (Hadd & Hmain & Hsep).
  assert (Hmain' : forall w, In w (o_main o) -> row_matching refs q0s w \/ (m <> Separate /\ joined_row w)).
  { intros w Hw. destruct (Hmain w Hw) as [H|(Hm & a & b & Ha & Hb & Ej)]; [left; apply matching_of_valid_run_row; exact H|].
    right. split; [exact Hm|]. exists a, b. split; [apply matching_of_valid_run_row; exact Ha|]. split; [apply matching_of_valid_run_row; exact Hb | exact Ej]. }
  split; [|split; [|split; [|split; [|exact Hmain']]]].
  - apply (matching_file_readable refs q0s Hrid Hqid). apply Forall_forall. intros w Hw. apply matching_of_valid_run_row. apply Hadd. apply in_or_app. left. exact Hw.
  - apply (matching_file_readable refs q0s Hrid Hqid). apply Forall_forall. intros w Hw. apply matching_of_valid_run_row. apply Hadd. apply in_or_app. right. exact Hw.
  - intros Em. apply (matching_file_readable refs q0s Hrid Hqid). apply Forall_forall. intros w Hw. apply matching_of_valid_run_row. apply (Hsep Em).
    unfold out_rows. apply in_or_app. left. exact Hw.
  - intros Hj. apply (matching_file_readable refs q0s Hrid Hqid). apply Forall_forall. intros w Hw.
    destruct (Hmain' w Hw) as [H|(_ & H)]; [exact H | apply (Hj w Hw H)].
Qed.
End RunFiles.
Print Assumptions matching_row_ok.
Print Assumptions matching_file_readable.
Print Assumptions run_files_readable.

(* scipy's _local_maxima_1d (model/FindPeaks.v local_maxima): exactly the midpoints of the interior plateaus whose neighbours on both
   sides are strictly lower.  Generic in the sample type and a total preorder `leb`. *)
From Coq Require Import ZArith QArith List Bool Lia.
Import ListNotations.
Require Import Py FindPeaks BlurProofs.
Open Scope nat_scope.

Lemma skipn_S_tl' {A} i : forall x : list A, skipn (S i) x = tl (skipn i x).
Proof. induction i as [|i IH]; intros [|a x]; try reflexivity. change (skipn (S i) x = tl (skipn i x)). apply IH. Qed.
Lemma skipn_cons_next {A} i (x : list A) a t : skipn i x = a :: t -> skipn (S i) x = t.
Proof. intros E. rewrite skipn_S_tl', E. reflexivity. Qed.
Lemma skipn_skipn_add {A} a : forall b (x : list A), skipn a (skipn b x) = skipn (b + a) x.
Proof. induction a as [|a IH]; intros b x; [rewrite Nat.add_0_r; reflexivity|].
  rewrite skipn_S_tl', IH, <- skipn_S_tl'. f_equal. lia. Qed.
Lemma div2_mid i : forall n, Nat.div2 (i + (i + n)) = i + Nat.div2 n.
Proof. induction i as [|i IH]; intros n; [reflexivity|]. replace (S i + (S i + n)) with (S (S (i + (i + n)))) by lia. cbn [Nat.div2]. rewrite IH. reflexivity. Qed.
Lemma div2_le n : Nat.div2 n <= n.
Proof. apply Nat.div2_decr. lia. Qed.

Section Order.
Context {A : Type}.
Variable leb : A -> A -> bool.
Hypothesis leb_total : forall a b, leb a b = true \/ leb b a = true.
Hypothesis leb_trans : forall a b c, leb a b = true -> leb b c = true -> leb a c = true.
Notation ltb := (ltb leb).
Notation eqb := (eqb leb).

Lemma leb_refl a : leb a a = true. Proof. destruct (leb_total a a); assumption. Qed.
Lemma ltb_leb a b : ltb a b = true -> leb a b = true.
Proof. unfold FindPeaks.ltb. intros H. apply negb_true_iff in H. destruct (leb_total a b) as [E|E]; [exact E | congruence]. Qed.
Lemma ltb_not_leb a b : ltb a b = true <-> leb b a = false.
Proof. unfold FindPeaks.ltb. apply negb_true_iff. Qed.
Lemma eqb_refl a : eqb a a = true. Proof. unfold FindPeaks.eqb. rewrite leb_refl. reflexivity. Qed.
Lemma eqb_leb a b : eqb a b = true -> leb a b = true /\ leb b a = true.
Proof. unfold FindPeaks.eqb. intros H. apply andb_true_iff in H. exact H. Qed.
Lemma ltb_trans_l a b c : leb a b = true -> ltb b c = true -> ltb a c = true.
Proof. intros H1 H2. apply ltb_not_leb. apply ltb_not_leb in H2. destruct (leb c a) eqn:E; [|reflexivity]. rewrite (leb_trans c a b E H1) in H2. discriminate. Qed.
Lemma ltb_trans_r a b c : ltb a b = true -> leb b c = true -> ltb a c = true.
Proof. intros H1 H2. apply ltb_not_leb. apply ltb_not_leb in H1. destruct (leb c a) eqn:E; [|reflexivity]. rewrite (leb_trans b c a H2 E) in H1. discriminate. Qed.
Lemma ltb_irrefl a : ltb a a = false. Proof. unfold FindPeaks.ltb. rewrite leb_refl. reflexivity. Qed.
Lemma ltb_eqb_false a b : eqb a b = true -> ltb a b = false /\ ltb b a = false.
Proof. intros H. destruct (eqb_leb a b H) as (H1 & H2). unfold FindPeaks.ltb. rewrite H1, H2. split; reflexivity. Qed.

Variable d : A.

(* the plateau x[l..r] is a local maximum: interior, constant, strictly above both neighbours *)
Definition is_peak (x : list A) (l r : nat) : Prop :=
  1 <= l /\ l <= r /\ r + 1 < length x /\
  (forall k, l <= k <= r -> eqb (nth k x d) (nth l x d) = true) /\
  ltb (nth (l - 1) x d) (nth l x d) = true /\ ltb (nth (r + 1) x d) (nth l x d) = true.

Lemma ahead_spec v : forall l, let n := ahead leb v l in
  (forall k, k < n -> eqb (nth k l d) v = true) /\ (l <> [] -> n < length l) /\ (S n < length l -> eqb (nth n l d) v = false).
Proof. induction l as [|a t IH]; [cbn; repeat split; [intros; lia | congruence | lia]|].
  destruct t as [|b t']; [cbn; repeat split; [intros; lia | intros; lia | lia]|].
  assert (Eah : ahead leb v (a :: b :: t') = if eqb a v then S (ahead leb v (b :: t')) else 0) by reflexivity.
  cbn zeta in *. rewrite Eah. clear Eah. destruct IH as (H1 & H2 & H3). set (n' := ahead leb v (b :: t')) in *. destruct (eqb a v) eqn:E.
  - repeat split.
    + intros [|k] Hk; [exact E|]. change (eqb (nth k (b :: t') d) v = true). apply H1. lia.
    + intros _. specialize (H2 ltac:(discriminate)). change (length (a :: b :: t')) with (S (length (b :: t'))). lia.
    + intros Hk. change (eqb (nth n' (b :: t') d) v = false). apply H3. change (length (a :: b :: t')) with (S (length (b :: t'))) in Hk. lia.
  - repeat split; [intros; lia | intros; cbn [length]; lia | intros _; exact E]. Qed.

Section Loop.
Variable x : list A.

Lemma no_peak_short i lf r : i <= lf -> length (skipn i x) <= 1 -> ~ is_peak x lf r.
Proof. intros Hi Hl (H1 & H2 & H3 & _). rewrite skipn_length in Hl. lia. Qed.

Lemma lm_loop_spec : forall fuel i l prev, 1 <= i -> l = skipn i x -> prev = nth (i - 1) x d -> length l <= fuel ->
  forall m v, In (m, v) (lm_loop leb fuel prev i l) <->
              exists lf r, i <= lf /\ is_peak x lf r /\ m = Nat.div2 (lf + r) /\ v = nth m x d.
Proof.
  induction fuel as [|fuel IH]; intros i l prev Hi El Ep Hf m v.
  { cbn [lm_loop]. split; [intros []|]. intros (lf & r & Hlf & Hp & _). exfalso. apply (no_peak_short i lf r Hlf); [|exact Hp]. rewrite <- El. lia. }
  cbn [lm_loop]. destruct l as [|xi rest].
  { split; [intros []|]. intros (lf & r & Hlf & Hp & _). exfalso. apply (no_peak_short i lf r Hlf); [|exact Hp]. rewrite <- El. cbn. lia. }
  destruct rest as [|a l0] eqn:Erest.
  { split; [intros []|]. intros (lf & r & Hlf & Hp & _). exfalso. apply (no_peak_short i lf r Hlf); [|exact Hp]. rewrite <- El. cbn. lia. }
  rewrite <- Erest in *. assert (Hrne : rest <> []) by (rewrite Erest; discriminate).
  assert (Exi : xi = nth i x d). { rewrite <- (Nat.add_0_r i), <- nth_skipn', <- El. reflexivity. }
  assert (Er : rest = skipn (S i) x) by (symmetry; apply (skipn_cons_next i x xi rest); symmetry; exact El).
  assert (Hlen : length x = i + S (length rest)). { pose proof (f_equal (@length A) El) as E. rewrite skipn_length in E. cbn [length] in E. lia. }
  assert (Hnr : forall k, nth k rest d = nth (S i + k) x d) by (intros k; rewrite Er, nth_skipn'; reflexivity).
  (* the step "no peak starts at i": continue with i+1 *)
  assert (Hskip : (forall r, ~ is_peak x i r) ->
                  (In (m, v) (lm_loop leb fuel xi (S i) rest) <-> exists lf r, i <= lf /\ is_peak x lf r /\ m = Nat.div2 (lf + r) /\ v = nth m x d)).
  { intros Hno. rewrite (IH (S i) rest xi ltac:(lia) Er ltac:(rewrite Exi; f_equal; lia) ltac:(cbn [length] in Hf; lia) m v). split.
    - intros (lf & r & Hlf & Hp). exists lf, r. split; [lia | exact Hp].
    - intros (lf & r & Hlf & Hp & Hm). exists lf, r. split; [|split; assumption]. destruct (Nat.eq_dec lf i) as [->|]; [exfalso; apply (Hno r Hp) | lia]. }
  destruct (ltb prev xi) eqn:Elt.
  2:{ apply Hskip. intros r (_ & _ & _ & _ & Hl & _). rewrite <- Ep, <- Exi in Hl. congruence. }
  destruct (ahead_spec xi rest) as (Ha & Hb & Hc). set (n := ahead leb xi rest) in *. specialize (Hb Hrne).
  assert (Hplat : forall k, i <= k <= i + n -> eqb (nth k x d) xi = true).
  { intros k Hk. destruct (Nat.eq_dec k i) as [->|]; [rewrite <- Exi; apply eqb_refl|]. replace k with (S i + (k - S i)) by lia. rewrite <- Hnr. apply Ha. lia. }
  destruct (skipn n rest) as [|xa after] eqn:Esk.
  { exfalso. pose proof (f_equal (@length A) Esk) as E. rewrite skipn_length in E. cbn in E. lia. }
  assert (Exa : xa = nth (i + n + 1) x d).
  { replace (i + n + 1) with (S i + n) by lia. rewrite <- Hnr, <- (Nat.add_0_r n), <- nth_skipn', Esk. reflexivity. }
  assert (Eafter : after = skipn (i + n + 2) x).
  { replace (i + n + 2) with (S (S i + n)) by lia. symmetry. apply (skipn_cons_next _ x xa). rewrite <- skipn_skipn_add, <- Er. exact Esk. }
  (* a peak that starts at i ends at i + n and has xa below it *)
  assert (Hend : forall r, is_peak x i r -> r = i + n /\ ltb xa xi = true).
  { intros r (_ & Hle & Hr & Hpl & _ & Hrt). rewrite <- Exi in *. destruct (Nat.lt_trichotomy r (i + n)) as [L|[->|L]].
    - exfalso. destruct (ltb_eqb_false _ _ (Hplat (r + 1) ltac:(lia))) as (Hx & _). congruence.
    - split; [reflexivity|]. rewrite Exa. exact Hrt.
    - exfalso. assert (Hq : eqb xa xi = true) by (rewrite Exa; apply Hpl; lia).
      destruct (Nat.lt_ge_cases (S n) (length rest)) as [L2|L2]; [|lia].
      specialize (Hc L2). rewrite Hnr in Hc. replace (S i + n) with (i + n + 1) in Hc by lia. rewrite <- Exa in Hc. congruence. }
  destruct (ltb xa xi) eqn:Elt2.
  2:{ apply Hskip. intros r Hp. destruct (Hend r Hp) as (_ & H). discriminate. }
  cbn [In]. rewrite (IH (i + n + 2) after xa ltac:(lia) Eafter ltac:(rewrite Exa; f_equal; lia)
                       ltac:(pose proof (f_equal (@length A) Esk) as E; rewrite skipn_length in E; cbn [length] in *; lia) m v).
  assert (Hpk : is_peak x i (i + n)).
  { unfold is_peak. rewrite <- Exi, <- Ep, <- Exa. repeat split; try lia; [intros k Hk; apply Hplat; lia | exact Elt | exact Elt2]. }
  assert (Hval : nth (Nat.div2 n) (xi :: rest) xi = nth (i + Nat.div2 n) x d).
  { rewrite (nth_indep _ xi d) by (cbn [length]; pose proof (div2_le n); lia). rewrite El, nth_skipn'. reflexivity. }
  split.
  - intros [E|(lf & r & Hlf & Hp)].
    + injection E as <- <-. exists i, (i + n). split; [lia|]. split; [exact Hpk|]. rewrite div2_mid. split; [reflexivity | exact Hval].
    + exists lf, r. split; [lia | exact Hp].
  - intros (lf & r & Hlf & Hp & Hm & Hv). destruct (Nat.eq_dec lf i) as [->|Hne].
    + left. destruct (Hend r Hp) as (-> & _). rewrite div2_mid in Hm. subst m. rewrite Hv, Hval. reflexivity.
    + right. exists lf, r. split; [|split; [exact Hp | split; assumption]].
      destruct (Nat.le_gt_cases (i + n + 2) lf) as [L|L]; [exact L|]. exfalso.
      destruct Hp as (_ & _ & _ & _ & Hl & _).
      assert (Hprev : eqb (nth (lf - 1) x d) xi = true) by (apply Hplat; lia).
      destruct (eqb_leb _ _ Hprev) as (_ & Hge). apply ltb_not_leb in Hl.
      destruct (Nat.eq_dec lf (i + n + 1)) as [->|Hn2].
      * rewrite <- Exa in Hl. rewrite (leb_trans xa xi _ (ltb_leb _ _ Elt2) Hge) in Hl. discriminate.
      * destruct (eqb_leb _ _ (Hplat lf ltac:(lia))) as (Hle & _). rewrite (leb_trans _ xi _ Hle Hge) in Hl. discriminate.
Qed.
End Loop.

(* every returned index is the midpoint of an interior plateau with strictly lower neighbours, and every such plateau yields its midpoint *)
Theorem local_maxima_spec x m v :
  In (m, v) (local_maxima leb x) <-> exists l r, is_peak x l r /\ m = Nat.div2 (l + r) /\ v = nth m x d.
Proof. unfold local_maxima. destruct x as [|x0 t].
  - split; [intros []|]. intros (l & r & (_ & _ & H & _) & _). cbn in H. lia.
  - rewrite (lm_loop_spec (x0 :: t) (length (x0 :: t)) 1 t x0 ltac:(lia) eq_refl eq_refl ltac:(cbn; lia) m v). split.
    + intros (lf & r & _ & H). exists lf, r. exact H.
    + intros (l & r & Hp & H). exists l, r. split; [destruct Hp; lia | split; [exact Hp | exact H]]. Qed.

(* consequences: strictly inside the array; the value is the array's value there; on the plateau *)
Corollary local_maxima_inside x m v : In (m, v) (local_maxima leb x) ->
  1 <= m /\ m + 1 < length x /\ v = nth m x d /\ exists l r, is_peak x l r /\ l <= m <= r.
Proof. intros H. apply local_maxima_spec in H. destruct H as (l & r & Hp & -> & Hv). pose proof Hp as (H1 & H2 & H3 & _).
  assert (l <= Nat.div2 (l + r) <= r).
  { replace (l + r) with (l + (l + (r - l))) by lia. rewrite div2_mid. pose proof (div2_le (r - l)). lia. }
  repeat split; try lia; [exact Hv|]. exists l, r. split; [exact Hp | lia]. Qed.
End Order.

(* C05, part 2: __getBestAlignment, __align, execute (Coordinator.v) for every seeding function *)
From Coq Require Import ZArith QArith List Bool Lia Sorting.Permutation Sorting.Sorted.
Import ListNotations.
Require Import Py PyProofs Pairing Core Multi Coordinator BestProofs1.
Open Scope Z_scope.

(* w is the first maximum-confidence element of rows *)
Definition first_max (rows : list row) (w : row) : Prop :=
  exists l1 l2, rows = l1 ++ w :: l2 /\ (forall y, In y l1 -> conf y < conf w) /\ (forall y, In y l2 -> conf y <= conf w).

Lemma best_alignment_none rows : best_alignment rows = None <-> rows = [].
Proof. unfold best_alignment. split.
  - intros H. destruct (sort_by (fun w => - conf w) rows) eqn:E; [|discriminate].
    pose proof (sort_by_perm (fun w => - conf w) rows) as Hp. rewrite E in Hp. apply Permutation_nil in Hp. exact Hp.
  - intros ->. reflexivity.
Qed.
Lemma best_alignment_some rows w : best_alignment rows = Some w -> first_max rows w.
Proof. unfold best_alignment. destruct (sort_by (fun w => - conf w) rows) eqn:E; [discriminate|]. intros H. injection H as ->.
  apply sort_by_head in E. destruct E as (l1 & l2 & -> & H1 & H2). exists l1, l2. split; [reflexivity|].
  split; intros y Hy; [specialize (H1 y Hy) | specialize (H2 y Hy)]; cbn beta in *; lia. Qed.
Lemma first_max_In rows w : first_max rows w -> In w rows.
Proof. intros (l1 & l2 & -> & _). apply in_or_app. right. left. reflexivity. Qed.
Lemma first_max_max rows w : first_max rows w -> forall y, In y rows -> conf y <= conf w.
Proof. intros (l1 & l2 & -> & H1 & H2) y Hy. apply in_app_or in Hy. destruct Hy as [Hy|[<-|Hy]];
  [specialize (H1 y Hy); lia | lia | apply H2; exact Hy]. Qed.

Section Run.
Variable P : params.
Variable seeds : seeding.
Variable refs : list omap.

(* the candidate row built from one seed at iteration counter `it` *)
Definition cand_of (q : omap) (sd : cseed) (it : Z) (w : row) : Prop :=
  exists segs, aligner_align P it (sd_ref sd) q (sd_peaks sd) (sd_rev sd) = Ok segs /\
               w = row_create segs (mid q) (mid (sd_ref sd)) (mlen q) (mlen (sd_ref sd)) (sd_rev sd).
(* one candidate per seed, in seed order; the counter advances by the number of secondary peaks of each seed *)
Fixpoint cands_spec (q : omap) (sds : list cseed) (it : Z) (cands : list row) : Prop :=
  match sds, cands with
  | [], [] => True
  | sd :: t, w :: c => cand_of q sd it w /\ cands_spec q t (it + Z.of_nat (length (sd_peaks sd))) c
  | _, _ => False
  end.

Lemma candidate_rows_spec q sds : forall it cands it', candidate_rows P q sds it = Ok (cands, it') ->
  cands_spec q sds it cands /\ length cands = length sds.
Proof. induction sds as [|sd t IH]; intros it cands it' H.
  - cbn in H. injection H as <- <-. split; [exact I | reflexivity].
  - cbn [candidate_rows] in H. destruct (aligner_align P it (sd_ref sd) q (sd_peaks sd) (sd_rev sd)) as [segs|] eqn:Ea; [|discriminate].
    cbn [bind] in H. destruct (candidate_rows P q t (it + Z.of_nat (length (sd_peaks sd)))) as [[c i2]|] eqn:Er; [|discriminate].
    cbn [bind fst snd] in H. injection H as <- <-. destruct (IH _ _ _ Er) as (Hs & Hl). split.
    + cbn [cands_spec]. split; [exists segs; split; [exact Ea | reflexivity] | exact Hs].
    + cbn [length]. rewrite Hl. reflexivity.
Qed.

Lemma cands_spec_all q sds : forall it cands, cands_spec q sds it cands ->
  forall w, In w cands -> qid w = mid q /\ rest w = false /\ exists sd it', In sd sds /\ cand_of q sd it' w.
Proof. induction sds as [|sd t IH]; intros it [|w0 c] H w Hw; try destruct H; try destruct Hw.
  - subst w0. split; [|split]; [destruct H as (segs & _ & ->); reflexivity .. |].
    exists sd, it. split; [left; reflexivity | exact H].
  - destruct (IH _ _ H0 w H1) as (A & B & sd' & it' & Hin & Hc). split; [exact A|]. split; [exact B|].
    exists sd', it'. split; [right; exact Hin | exact Hc].
Qed.

(* __align: None when there is no seed; otherwise the FIRST maximum-confidence row among the candidates, one per seed *)
Lemma align_query_spec q it ow it' : align_query P seeds refs q it = Ok (ow, it') ->
  match seeds refs q with
  | [] => ow = None /\ it' = it
  | sds => exists cands, candidate_rows P q sds it = Ok (cands, it') /\ cands_spec q sds it cands /\
                         length cands = length sds /\ exists w, ow = Some w /\ first_max cands w
  end.
Proof. unfold align_query. destruct (seeds refs q) as [|sd t] eqn:Es.
  - intros H. injection H as <- <-. split; reflexivity.
  - destruct (candidate_rows P q (sd :: t) it) as [[cands i2]|] eqn:Ec; [|discriminate]. cbn [bind fst snd].
    intros H. injection H as <- <-. destruct (candidate_rows_spec _ _ _ _ _ Ec) as (Hs & Hl).
    exists cands. split; [reflexivity|]. split; [exact Hs|]. split; [exact Hl|].
    destruct (best_alignment cands) as [w|] eqn:Eb.
    + exists w. split; [reflexivity | apply best_alignment_some; exact Eb].
    + apply best_alignment_none in Eb. subst cands. discriminate.
Qed.

Lemma align_query_row q it w it' : align_query P seeds refs q it = Ok (Some w, it') -> qid w = mid q /\ rest w = false.
Proof. intros H. apply align_query_spec in H. destruct (seeds refs q) as [|sd t]; [destruct H; discriminate|].
  destruct H as (cands & _ & Hs & _ & w' & E & Hm). injection E as <-.
  destruct (cands_spec_all _ _ _ _ Hs w (first_max_In _ _ Hm)) as (A & B & _). split; assumption. Qed.

(* ---------- execute ---------- *)
Definition keep (o : option row) : list row :=
  match o with Some w => if row_has_pairs w then [w] else [] | None => [] end.

Lemma execute_cons q t it : execute P seeds refs (q :: t) it =
  do r <- align_query P seeds refs q it; do rest <- execute P seeds refs t (snd r); Ok (keep (fst r) ++ fst rest, snd rest).
Proof. cbn [execute]. destruct (align_query P seeds refs q it) as [[o i]|]; [|reflexivity]. cbn [bind fst snd].
  destruct (execute P seeds refs t i) as [[r i']|]; [|reflexivity]. cbn [bind fst snd]. unfold keep.
  destruct o as [w|]; [destruct (row_has_pairs w)|]; reflexivity. Qed.

Lemma execute_app qa qb : forall it, execute P seeds refs (qa ++ qb) it =
  do ra <- execute P seeds refs qa it; do rb <- execute P seeds refs qb (snd ra); Ok (fst ra ++ fst rb, snd rb).
Proof. induction qa as [|q t IH]; intros it.
  - cbn [app execute bind fst snd]. destruct (execute P seeds refs qb it) as [[r i]|]; reflexivity.
  - cbn [app]. rewrite !execute_cons. destruct (align_query P seeds refs q it) as [[o i]|]; [|reflexivity]. cbn [bind fst snd].
    rewrite IH. destruct (execute P seeds refs t i) as [[r i']|]; [|reflexivity]. cbn [bind fst snd].
    destruct (execute P seeds refs qb i') as [[r2 i2]|]; [|reflexivity]. cbn [bind fst snd]. rewrite app_assoc. reflexivity.
Qed.

(* the run decomposes at every query: the rows of the queries before, the kept best candidate of this query, the rows after *)
Lemma execute_split qa q qb it rows it' : execute P seeds refs (qa ++ q :: qb) it = Ok (rows, it') ->
  exists rows_a ita ow itb rows_b,
    execute P seeds refs qa it = Ok (rows_a, ita) /\ align_query P seeds refs q ita = Ok (ow, itb) /\
    execute P seeds refs qb itb = Ok (rows_b, it') /\ rows = rows_a ++ keep ow ++ rows_b.
Proof. rewrite execute_app. destruct (execute P seeds refs qa it) as [[ra ia]|] eqn:E1; [|discriminate]. cbn [bind fst snd].
  rewrite execute_cons. destruct (align_query P seeds refs q ia) as [[o ib]|] eqn:E2; [|discriminate]. cbn [bind fst snd].
  destruct (execute P seeds refs qb ib) as [[rb i2]|] eqn:E3; [|discriminate]. cbn [bind fst snd]. intros H. injection H as <- <-.
  exists ra, ia, o, ib, rb. split; [reflexivity|]. split; [exact E2|]. split; [exact E3 | reflexivity]. Qed.

(* results in query order: one optional row per query *)
Lemma execute_results qs : forall it rows it', execute P seeds refs qs it = Ok (rows, it') ->
  exists os, rows = flat_map keep os /\
    Forall2 (fun q o => exists ita itb, align_query P seeds refs q ita = Ok (o, itb)) qs os.
Proof. induction qs as [|q t IH]; intros it rows it' H.
  - cbn in H. injection H as <- <-. exists []. split; [reflexivity | constructor].
  - rewrite execute_cons in H. destruct (align_query P seeds refs q it) as [[o i]|] eqn:Ea; [|discriminate]. cbn [bind fst snd] in H.
    destruct (execute P seeds refs t i) as [[r i']|] eqn:Er; [|discriminate]. cbn [bind fst snd] in H. injection H as <- <-.
    destruct (IH _ _ _ Er) as (os & -> & HF). exists (o :: os). split; [reflexivity|]. constructor; [exists it, i; exact Ea | exact HF].
Qed.

Lemma keep_row o w : In w (keep o) -> o = Some w /\ row_has_pairs w = true.
Proof. destruct o as [x|]; cbn [keep]; [|intros []]. destruct (row_has_pairs x) eqn:E; [|intros []].
  intros [<-|[]]. split; [reflexivity | exact E]. Qed.

Lemma execute_rows qs it rows it' : execute P seeds refs qs it = Ok (rows, it') ->
  forall w, In w rows -> row_has_pairs w = true /\ rest w = false /\ In (qid w) (map mid qs).
Proof. intros H w Hw. destruct (execute_results _ _ _ _ H) as (os & -> & HF). apply in_flat_map in Hw. destruct Hw as (o & Ho & Hw).
  apply keep_row in Hw. destruct Hw as (-> & Hp). split; [exact Hp|].
  clear H. induction HF as [|q o' qs' os' (ia & ib & Ha) HF IH]; [destruct Ho|]. destruct Ho as [->|Ho].
  - destruct (align_query_row _ _ _ _ Ha) as (A & B). split; [exact B | left; symmetry; exact A].
  - destruct (IH Ho) as (A & B). split; [exact A | right; exact B].
Qed.

(* distinct / ascending query ids in give distinct / ascending row ids out *)
Lemma execute_ids_sorted qs it rows it' : execute P seeds refs qs it = Ok (rows, it') -> kstrict mid qs -> kstrict qid rows.
Proof. intros H. destruct (execute_results _ _ _ _ H) as (os & -> & HF). clear H. induction HF as [|q o qs' os' (ia & ib & Ha) HF IH]; intros Hs.
  - constructor.
  - apply kstrict_cons in Hs. destruct Hs as (Hs & Hlt). specialize (IH Hs). cbn [flat_map].
    destruct o as [w|]; cbn [keep]; [|exact IH]. destruct (row_has_pairs w); [|exact IH]. cbn [app].
    apply kstrict_cons. split; [exact IH|]. intros y Hy. destruct (align_query_row _ _ _ _ Ha) as (A & _). rewrite A.
    apply in_flat_map in Hy. destruct Hy as (o & Ho & Hy). apply keep_row in Hy. destruct Hy as (-> & _).
    clear - HF Ho Hlt. induction HF as [|q' o' qs'' os'' (ia & ib & Ha) HF IH]; [destruct Ho|]. destruct Ho as [->|Ho].
    + destruct (align_query_row _ _ _ _ Ha) as (A & _). rewrite A. apply Hlt. left. reflexivity.
    + apply IH; [intros z Hz; apply Hlt; right; exact Hz | exact Ho].
Qed.
End Run.

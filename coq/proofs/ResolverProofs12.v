(* C15/C01, part 12: the middle outcome of a resolution between adjacent chain members — the counting argument on labels. *)
From Coq Require Import ZArith QArith List Bool Lia Sorting.Sorted Sorting.Permutation.
Import ListNotations.
Require Import Py Pairing Core PyProofs ConflictProofs DPProofs ResolverProofs1 ResolverProofs4.
Open Scope Z_scope.

(* ---------- blocks of a strictly ascending list ---------- *)
Definition block (G : list Z) (i n : nat) : list Z := firstn n (skipn i G).

Lemma nth_skipn {A} (l : list A) i j d : nth j (skipn i l) d = nth (i + j) l d.
Proof. revert l; induction i as [|i IH]; intros l; [reflexivity|]. destruct l; [destruct j; reflexivity | apply IH]. Qed.
Lemma nth_firstn {A} (l : list A) n j d : (j < n)%nat -> nth j (firstn n l) d = nth j l d.
Proof. revert l j; induction n as [|n IH]; intros l j H; [lia|]. destruct l; [destruct j; reflexivity|]. destruct j; [reflexivity|]. cbn. apply IH. lia. Qed.
Lemma nth_block G i n j : (j < n)%nat -> nth j (block G i n) 0 = nth (i + j) G 0.
Proof. intros H. unfold block. rewrite nth_firstn by exact H. apply nth_skipn. Qed.
Lemma block_length G i n : (i + n <= length G)%nat -> length (block G i n) = n.
Proof. intros H. unfold block. rewrite firstn_length, skipn_length. lia. Qed.
Lemma in_block G i n g : (i + n <= length G)%nat -> (In g (block G i n) <-> exists j, (j < n)%nat /\ g = nth (i + j) G 0).
Proof. intros H. split.
  - intros Hin. destruct (In_nth _ _ 0 Hin) as (j & Hj & E). rewrite block_length in Hj by exact H. exists j. split; [exact Hj|]. rewrite <- E. apply nth_block. exact Hj.
  - intros (j & Hj & ->). rewrite <- (nth_block G i n j Hj). apply nth_In. rewrite block_length by exact H. exact Hj. Qed.

Lemma SS_nth_lt G : StronglySorted Z.lt G -> forall i j, (i < j < length G)%nat -> nth i G 0 < nth j G 0.
Proof. induction 1 as [|x t Ht IH Hx]; intros i j Hij; [cbn in Hij; lia|]. destruct j as [|j]; [lia|]. destruct i as [|i]; cbn [nth].
  - rewrite Forall_forall in Hx. apply Hx. apply nth_In. cbn in Hij. lia.
  - apply IH. cbn in Hij. lia. Qed.
Lemma SS_nth_le G : StronglySorted Z.lt G -> forall i j, (i <= j < length G)%nat -> nth i G 0 <= nth j G 0.
Proof. intros H i j Hij. destruct (Nat.eq_dec i j) as [->|N]; [lia|]. pose proof (SS_nth_lt G H i j). lia. Qed.
Lemma SS_nth_inj G : StronglySorted Z.lt G -> forall i j, (i < length G)%nat -> (j < length G)%nat -> nth i G 0 = nth j G 0 -> i = j.
Proof. intros H i j Hi Hj E. destruct (Nat.lt_trichotomy i j) as [L|[L|L]]; [|exact L|].
  - pose proof (SS_nth_lt G H i j). lia.
  - pose proof (SS_nth_lt G H j i). lia. Qed.

Lemma block_pointwise G il ir L j : StronglySorted Z.lt G -> (il <= ir)%nat -> (ir + L <= length G)%nat -> (j < L)%nat ->
  nth j (block G il L) 0 <= nth j (block G ir L) 0.
Proof. intros H Hi Hl Hj. rewrite !nth_block by exact Hj. apply SS_nth_le; [exact H | lia]. Qed.

(* KL = G[il .. il+L) is the end of GA = G[fa .. fa+na), KR = G[fb .. fb+L) the start of GB = G[fb .. fb+nb);
   GA's elements not below GB's first lie in KL, GB's elements not above KL's last lie in KR, GB reaches at least as far as KL: then il <= fb *)
Lemma block_start_le G fa na il L fb nb : StronglySorted Z.lt G ->
  (fa <= il)%nat -> (il + L = fa + na)%nat -> (fa + na <= length G)%nat -> (L <= nb)%nat -> (fb + nb <= length G)%nat -> (0 < L)%nat ->
  (forall g, In g (block G fa na) -> nth fb G 0 <= g -> In g (block G il L)) ->
  (forall g, In g (block G fb nb) -> g <= nth (il + L - 1) G 0 -> In g (block G fb L)) ->
  (il + L <= fb + nb)%nat -> (il <= fb)%nat.
Proof.
  intros HG H1 H2 H3 H4 H5 H6 F3 F4 HE. destruct (Nat.le_gt_cases il fb) as [Hle|Hgt]; [exact Hle|exfalso].
  assert (Efa : fa = il).
  { destruct (Nat.eq_dec fa il) as [E|N]; [exact E|exfalso]. set (i0 := Nat.max fa fb).
    assert (Hin : In (nth i0 G 0) (block G fa na)) by (apply in_block; [lia|]; exists (i0 - fa)%nat; split; [lia | f_equal; lia]).
    assert (Hge : nth fb G 0 <= nth i0 G 0) by (apply SS_nth_le; [exact HG | lia]).
    pose proof (F3 _ Hin Hge) as X. apply in_block in X; [|lia]. destruct X as (j & Hj & E). apply (SS_nth_inj G HG) in E; lia. }
  set (ea := (il + L - 1)%nat).
  assert (Hin : In (nth ea G 0) (block G fb nb)) by (apply in_block; [lia|]; exists (ea - fb)%nat; split; [lia | f_equal; lia]).
  specialize (F4 _ Hin (Z.le_refl _)). apply in_block in F4; [|lia]. destruct F4 as (j & Hj & E). apply (SS_nth_inj G HG) in E; lia.
Qed.

(* ---------- label indexes and the positions that carry a label of the chosen kind ---------- *)
Lemma labels_aux_length isref l : forall idx sum, length (labels_aux isref l idx sum) = length (filter (mine isref) l).
Proof. induction l as [|p t IH]; intros idx sum; [reflexivity|]. rewrite labels_aux_cons. cbn [filter]. destruct (mine isref p); cbn [length]; rewrite IH; reflexivity. Qed.

Lemma labels_aux_nth isref l : forall idx sum k, (k < length (filter (mine isref) l))%nat ->
  let i := nth k (map snd (labels_aux isref l idx sum)) O in
  (idx <= i)%nat /\ (i - idx < length l)%nat /\ filter (mine isref) (firstn (i - idx) l) = firstn k (filter (mine isref) l).
Proof.
  induction l as [|p t IH]; intros idx sum k Hk; [cbn in Hk; lia|]. rewrite labels_aux_cons. cbn [filter] in *. destruct (mine isref p) eqn:Em.
  - cbn [map snd length] in *. destruct k as [|k]; cbn [nth].
    + rewrite Nat.sub_diag. cbn. repeat split; lia.
    + destruct (IH (S idx) 0 k ltac:(lia)) as (H1 & H2 & H3). set (i := nth k (map snd (labels_aux isref t (S idx) 0)) O) in *.
      split; [lia|]. split; [cbn [length]; lia|]. replace (i - idx)%nat with (S (i - S idx)) by lia. cbn [firstn filter]. rewrite Em, H3. reflexivity.
  - destruct (IH (S idx) (sum + sc p) k Hk) as (H1 & H2 & H3). set (i := nth k (map snd (labels_aux isref t (S idx) (sum + sc p))) O) in *.
    split; [lia|]. split; [cbn [length]; lia|]. replace (i - idx)%nat with (S (i - S idx)) by lia. cbn [firstn filter]. rewrite Em. exact H3.
Qed.

Lemma seg_labels_split isref s k : (k < length (seg_labels isref s))%nat ->
  let i := nth k (map snd (seg_labels isref s)) O in
  filter (mine isref) (firstn i (positions s)) = firstn k (filter (mine isref) (positions s)) /\
  filter (mine isref) (skipn i (positions s)) = skipn k (filter (mine isref) (positions s)).
Proof.
  intros Hk. unfold seg_labels in *. rewrite labels_aux_length in Hk. destruct (labels_aux_nth isref (positions s) 0 0 k Hk) as (_ & _ & H).
  set (i := nth k (map snd (labels_aux isref (positions s) 0 0)) O) in *. rewrite Nat.sub_0_r in H. split; [exact H|].
  pose proof (firstn_skipn i (positions s)) as E. apply (f_equal (filter (mine isref))) in E. rewrite filter_app, H in E.
  rewrite <- (firstn_skipn k (filter (mine isref) (positions s))) in E at 2. apply app_inv_head in E. exact E. Qed.

(* ---------- keys: the positions of the labels of the chosen kind, in segment order ---------- *)
Require Import PairingProofs2 ResolverProofs2 ResolverProofs3 ResolverProofs5.
Definition key (isref : bool) (p : spos) : Z := match (if isref then rlab p else qlab p) with Some l => lpos l | None => 0 end.
Definition keypv (isref : bool) (o : pv) : Z := if isref then lpos (pr o) else lpos (pq o).
Definition keys (isref : bool) (l : list spos) : list Z := map (key isref) (filter (mine isref) l).

Lemma keys_app isref l1 l2 : keys isref (l1 ++ l2) = keys isref l1 ++ keys isref l2.
Proof. unfold keys. rewrite filter_app, map_app. reflexivity. Qed.
Lemma key_pair isref p : is_pair p = true -> key isref p = keypv isref (pv_of p) /\ mine isref p = true.
Proof. unfold is_pair, key, keypv, pv_of, mine, rlab, qlab. destruct (ap p); try discriminate. intros _. destruct isref; split; reflexivity. Qed.
Lemma mine_lab isref z : mine isref z = true -> exists l, (if isref then rlab z else qlab z) = Some l.
Proof. unfold mine, rlab, qlab. destruct (ap z), isref; try discriminate; intros _; eexists; reflexivity. Qed.

(* a position "less on both sequences" than cs has its label before cs's *)
Lemma less_both_key isref z cs : mine isref z = true -> less_both z cs = true -> key isref z < keypv isref cs.
Proof. unfold mine, less_both, key, keypv, rlab, qlab, pv_less_both. destruct (ap z), isref; try discriminate; cbn [isnull pq pr]; intros _ H;
  try (apply andb_true_iff in H; destruct H as (H1 & H2); apply Z.ltb_lt in H1, H2; lia); apply Z.ltb_lt in H; lia. Qed.

(* an unaligned position whose label is not after ce's is "less or equal on some sequence" *)
Lemma junk_le_any isref z ce : is_pair z = false -> mine isref z = true -> key isref z <= keypv isref ce -> le_any z ce = true.
Proof. unfold is_pair, mine, key, keypv, le_any, rlab, qlab. destruct (ap z), isref; try discriminate; intros _ _ H; apply Z.leb_le; exact H. Qed.

(* order of keys inside an ordered list *)
Lemma before_key dir isref x y : before dir x y -> mine isref x = true -> mine isref y = true -> key isref x < key isref y.
Proof. intros (Hr & Hq) Hx Hy. destruct (mine_lab isref x Hx) as (lx & Ex). destruct (mine_lab isref y Hy) as (ly & Ey). unfold key. rewrite Ex, Ey.
  destruct isref; [destruct (Hr _ _ Ex Ey) | destruct (Hq _ _ Ex Ey)]; lia. Qed.

Lemma keys_sorted dir isref l : seg_ord dir l -> StronglySorted Z.lt (keys isref l).
Proof. intros H. unfold keys. apply SS_map. assert (H1 : StronglySorted (before dir) (filter (mine isref) l)) by (apply (SS_Sub _ _ _ (Sub_filter _ l) H)).
  assert (Hall : forall p, In p (filter (mine isref) l) -> mine isref p = true) by (intros p Hp; apply filter_In in Hp; apply Hp).
  induction H1 as [|x t Ht IH Hx]; constructor.
  - apply IH. intros p Hp. apply Hall. right. exact Hp.
  - rewrite Forall_forall in *. intros y Hy. apply (before_key dir isref x y (Hx y Hy)); apply Hall; [left; reflexivity | right; exact Hy]. Qed.

Lemma in_keys isref l z : In z l -> mine isref z = true -> In (key isref z) (keys isref l).
Proof. intros Hz Hm. unfold keys. apply in_map. apply filter_In. split; assumption. Qed.

(* ---------- the middle outcome, exactly ---------- *)
Lemma firstn_add {A} (l : list A) a b : firstn (a + b) l = firstn a l ++ firstn b (skipn a l).
Proof. revert l; induction a as [|a IH]; intros l; [reflexivity|]. destruct l; [cbn; rewrite firstn_nil; reflexivity|]. cbn. rewrite IH. reflexivity. Qed.

Theorem rp_fresh_mid dir a b a' b' cs ce lsub rsub :
  seg_ord dir (positions a) -> seg_ord dir (positions b) ->
  last_is_pair (positions a) -> first_is_pair (positions b) ->
  conflict a b cs ce lsub rsub ->
  length (res_ll lsub rsub) = length (res_rl lsub rsub) -> (0 < res_k lsub rsub < length (res_ll lsub rsub))%nat ->
  a' = seg_sub a (skipn (nth (res_k lsub rsub) (map snd (res_ll lsub rsub)) O) (positions lsub)) ->
  b' = seg_sub b (firstn (nth (res_k lsub rsub) (map snd (res_rl lsub rsub)) O) (positions rsub)) ->
  exists n m', positions lsub = skipn n (positions a) /\ positions rsub = firstn m' (positions b) /\ (m' <= length (positions b))%nat /\
    (forall x, In x (firstn n (positions a)) -> less_both x cs = true) /\
    (exists J rest, skipn m' (positions b) = J ++ rest /\ junk J /\ (forall x t, rest = x :: t -> sl_keep ce x = false) /\ forall x, In x J -> le_any x ce = false) /\
    let li := nth (res_k lsub rsub) (map snd (res_ll lsub rsub)) O in let ri := nth (res_k lsub rsub) (map snd (res_rl lsub rsub)) O in
    positions a' = firstn n (positions a) ++ firstn li (positions lsub) /\
    positions b' = skipn ri (positions rsub) ++ skipn m' (positions b).
Proof.
  intros Hoa Hob Hla Hfb [Hne Hov Hcs Hce Hl Hr] Hlen Hk -> ->.
  pose proof (seg_ord_nodupkey _ _ Hoa) as Hna. pose proof (seg_ord_nodupkey _ _ Hob) as Hnb.
  destruct (slice_spec a cs ce lsub Hl) as (n & m & El & _ & _ & Hn & Hdrop & _ & _ & Hjunk & _).
  specialize (Hjunk (pairs_le_end dir a ce Hoa Hce)). pose proof (junk_skipn_last _ _ Hjunk Hla) as Hnil.
  assert (El' : positions lsub = skipn n (positions a)).
  { rewrite El. apply firstn_all2. rewrite skipn_length. apply (f_equal (@length _)) in Hnil. rewrite skipn_length in Hnil. cbn in Hnil. lia. }
  destruct (slice_spec b cs ce rsub Hr) as (n' & m' & Er & _ & _ & Hn' & Hdrop' & _ & Hkeep' & _ & _ & Hafter).
  assert (En' : n' = 0%nat).
  { pose proof (start_first_not_less b cs Hcs n' Hdrop') as Hj. destruct n' as [|n']; [reflexivity|]. exfalso.
    unfold first_is_pair in Hfb. destruct (positions b) as [|p0 t]; [cbn in Hn'; lia|]. specialize (Hj p0 (or_introl eq_refl)). congruence. }
  subst n'. cbn [skipn] in Er. rewrite Nat.add_0_r in Hafter.
  set (m'' := Nat.min m' (length (positions b))).
  assert (Er' : positions rsub = firstn m'' (positions b)).
  { rewrite Er. unfold m''. destruct (Nat.le_gt_cases m' (length (positions b))) as [H|H]; [replace (Nat.min m' (length (positions b))) with m' by lia; reflexivity|].
    replace (Nat.min m' (length (positions b))) with (length (positions b)) by lia. rewrite firstn_all, firstn_all2 by lia. reflexivity. }
  assert (Esk : skipn m'' (positions b) = skipn m' (positions b)).
  { unfold m''. destruct (Nat.le_gt_cases m' (length (positions b))) as [H|H]; [replace (Nat.min m' (length (positions b))) with m' by lia; reflexivity|].
    replace (Nat.min m' (length (positions b))) with (length (positions b)) by lia. rewrite skipn_all, skipn_all2 by lia. reflexivity. }
  exists n, m''. split; [exact El'|]. split; [exact Er'|]. split; [unfold m''; lia|]. split; [exact Hdrop|]. split; [rewrite Esk; exact Hafter|]. cbv zeta.
  set (k := res_k lsub rsub) in *. unfold res_ll, res_rl in *. set (ir := res_isref lsub rsub) in *.
  assert (Hli : (nth k (map snd (seg_labels ir lsub)) O < length (positions lsub))%nat) by (apply label_index_lt; lia).
  assert (Hri : (nth k (map snd (seg_labels ir rsub)) O < length (positions rsub))%nat) by (apply label_index_lt; lia).
  set (li := nth k (map snd (seg_labels ir lsub)) O) in *. set (ri := nth k (map snd (seg_labels ir rsub)) O) in *.
  split.
  - rewrite El', skipn_skipn'. rewrite (seg_sub_suffix a (li + n) Hna). rewrite Nat.add_comm. apply firstn_add.
  - rewrite Er', firstn_firstn. rewrite Er', firstn_length in Hri. replace (Nat.min ri m'') with ri by lia. rewrite (seg_sub_prefix b ri Hnb).
    rewrite <- (firstn_skipn m'' (positions b)) at 1. rewrite skipn_app. rewrite firstn_length. replace (ri - Nat.min m'' (length (positions b)))%nat with 0%nat by lia. reflexivity.
Qed.

(* ---------- the counting argument ---------- *)
Lemma skipn_block G i n j : (j <= n)%nat -> skipn j (block G i n) = block G (i + j) (n - j).
Proof. intros H. unfold block. rewrite skipn_firstn_comm, skipn_skipn'. f_equal. f_equal. lia. Qed.
Lemma firstn_block G i n j : (j <= n)%nat -> firstn j (block G i n) = block G i j.
Proof. intros H. unfold block. rewrite firstn_firstn. f_equal. lia. Qed.
Lemma app_skipn_eq {A} (x y l : list A) : l = x ++ y -> y = skipn (length x) l /\ x = firstn (length x) l.
Proof. intros ->. rewrite skipn_app, skipn_all, Nat.sub_diag, firstn_app, firstn_all, Nat.sub_diag. cbn. rewrite app_nil_r. split; reflexivity. Qed.
Lemma in_firstn_nth (l : list Z) k g : In g (firstn k l) -> exists j, (j < k)%nat /\ (j < length l)%nat /\ g = nth j l 0.
Proof. intros H. destruct (In_nth _ _ 0 H) as (j & Hj & E). rewrite firstn_length in Hj. exists j. split; [lia|]. split; [lia|]. rewrite <- E. apply nth_firstn. lia. Qed.
Lemma in_skipn_nth (l : list Z) k g : In g (skipn k l) -> exists j, (k <= j < length l)%nat /\ g = nth j l 0.
Proof. intros H. destruct (In_nth _ _ 0 H) as (j & Hj & E). rewrite skipn_length in Hj. exists (k + j)%nat. split; [lia|]. rewrite <- E. apply nth_skipn. Qed.

Section Counting.
Variables (dir : Z) (a b : segment) (cs ce : pv) (lsub rsub : segment) (n m' : nat) (G : list Z) (fa na fb nb : nat).
Let A := positions a. Let B := positions b.
Let isref := res_isref lsub rsub.
Hypothesis Hoa : seg_ord dir A.
Hypothesis Hob : seg_ord dir B.
Hypothesis Hla : last_is_pair A.
Hypothesis Hfb : first_is_pair B.
Hypothesis Hcs : start_position b = Ok cs.
Hypothesis Hce : end_position a = Ok ce.
Hypothesis Hpa : has_pairs a = true.
Hypothesis Hpb : has_pairs b = true.
Hypothesis Hcoh : coherent dir A B.
Hypothesis El : positions lsub = skipn n A.
Hypothesis Er : positions rsub = firstn m' B.
Hypothesis Hm' : (m' <= length B)%nat.
Hypothesis Hdrop : forall x, In x (firstn n A) -> less_both x cs = true.
Hypothesis Hafter : exists J rest, skipn m' B = J ++ rest /\ junk J /\ (forall x t, rest = x :: t -> sl_keep ce x = false) /\ forall x, In x J -> le_any x ce = false.
Hypothesis Hlen : length (res_ll lsub rsub) = length (res_rl lsub rsub).
Hypothesis Hk : (0 < res_k lsub rsub < length (res_ll lsub rsub))%nat.
Hypothesis HG : StronglySorted Z.lt G.
Hypothesis BA : keys isref A = block G fa na /\ (fa + na <= length G)%nat.
Hypothesis BB : keys isref B = block G fb nb /\ (fb + nb <= length G)%nat.
Hypothesis HE : exists z, In z B /\ mine isref z = true /\ keypv isref ce <= key isref z.

Theorem mid_keys_lt :
  let li := nth (res_k lsub rsub) (map snd (res_ll lsub rsub)) O in let ri := nth (res_k lsub rsub) (map snd (res_rl lsub rsub)) O in
  forall p p', In p (firstn li (positions lsub)) -> In p' (skipn ri (positions rsub)) -> mine isref p = true -> mine isref p' = true ->
    key isref p < key isref p'.
Proof.
  cbv zeta. set (k := res_k lsub rsub) in *. unfold res_ll, res_rl in *. fold isref in Hlen, Hk |- *.
  destruct BA as (EA & HAl). destruct BB as (EB & HBl).
  (* the pairs at the two ends *)
  assert (Hane : A <> []) by (intros E; unfold has_pairs, aligned in Hpa; fold A in Hpa; rewrite E in Hpa; discriminate).
  destruct (last_split _ Hla Hane) as (K & pe & EAl & Hpe). pose proof (end_position_snoc a K pe EAl Hpe) as Hce'. rewrite Hce in Hce'. injection Hce' as Ece.
  unfold first_is_pair in Hfb. destruct B as [|pc Rb] eqn:EBl; [unfold has_pairs, aligned in Hpb; fold B in Hpb; rewrite EBl in Hpb; discriminate|].
  pose proof (start_position_cons b pc Rb EBl Hfb) as Hcs'. rewrite Hcs in Hcs'. injection Hcs' as Ecs.
  destruct (key_pair isref pe Hpe) as (Kpe & Mpe). destruct (key_pair isref pc Hfb) as (Kpc & Mpc). rewrite <- Ece in Kpe. rewrite <- Ecs in Kpc.
  (* keys of the conflicting sub-runs as blocks *)
  pose proof (firstn_skipn n A) as EnA. apply (f_equal (keys isref)) in EnA. rewrite keys_app in EnA.
  set (j0 := length (keys isref (firstn n A))) in *.
  destruct (app_skipn_eq _ _ _ (eq_sym EnA)) as (EKL & _). fold j0 in EKL. rewrite EA in EKL.
  assert (Hj0 : (j0 <= na)%nat). { apply (f_equal (@length _)) in EnA. rewrite app_length, EA, block_length in EnA by exact HAl. fold j0 in EnA. lia. }
  rewrite skipn_block in EKL by exact Hj0. rewrite <- El in EKL. set (il := (fa + j0)%nat) in *. set (L := (na - j0)%nat) in *.
  pose proof (firstn_skipn m' (pc :: Rb)) as EmB. apply (f_equal (keys isref)) in EmB. rewrite keys_app, <- Er in EmB.
  set (L' := length (keys isref (positions rsub))) in *.
  destruct (app_skipn_eq _ _ _ (eq_sym EmB)) as (_ & EKR). fold L' in EKR. rewrite EB in EKR.
  assert (HL' : (L' <= nb)%nat). { apply (f_equal (@length _)) in EmB. rewrite app_length, EB, block_length in EmB by exact HBl. fold L' in EmB. lia. }
  rewrite firstn_block in EKR by exact HL'.
  assert (ELl : length (seg_labels isref lsub) = L).
  { unfold seg_labels. rewrite labels_aux_length. transitivity (length (keys isref (positions lsub))); [unfold keys; rewrite map_length; reflexivity|].
    rewrite EKL. apply block_length. unfold il, L. lia. }
  assert (ELr : length (seg_labels isref rsub) = L') by (unfold seg_labels; rewrite labels_aux_length; unfold L', keys; rewrite map_length; reflexivity).
  assert (ELL : L' = L) by lia. rewrite ELL in *. clear ELL.
  assert (HLpos : (0 < L)%nat) by lia.
  (* first key of B, last key of lsub *)
  assert (Kfirst : nth fb G 0 = keypv isref cs).
  { assert (X : nth 0 (keys isref (pc :: Rb)) 0 = key isref pc) by (unfold keys; cbn [filter]; rewrite Mpc; reflexivity).
    rewrite EB, nth_block, Nat.add_0_r in X by lia. rewrite X. exact Kpc. }
  assert (Klast : nth (il + L - 1) G 0 = keypv isref ce).
  { assert (X : nth (L - 1) (keys isref (positions lsub)) 0 = key isref pe).
    { rewrite El. fold A. rewrite EAl. assert (Hn : (n <= length K)%nat).
      { destruct (Nat.le_gt_cases n (length K)) as [H|H]; [exact H|exfalso]. assert (Z0 : keys isref (positions lsub) = []) by (rewrite El; fold A; rewrite EAl, skipn_all2 by (rewrite app_length; cbn; lia); reflexivity).
        rewrite EKL in Z0. apply (f_equal (@length _)) in Z0. rewrite block_length in Z0 by (unfold il, L; lia). cbn in Z0. lia. }
      rewrite skipn_app. replace (n - length K)%nat with 0%nat by lia. cbn [skipn]. rewrite keys_app.
      assert (Y : length (keys isref (skipn n K)) = (L - 1)%nat).
      { pose proof EKL as Z0. rewrite El in Z0. fold A in Z0. rewrite EAl, skipn_app in Z0. replace (n - length K)%nat with 0%nat in Z0 by lia. cbn [skipn] in Z0. rewrite keys_app in Z0.
        apply (f_equal (@length _)) in Z0. rewrite app_length, block_length in Z0 by (unfold il, L; lia). unfold keys at 2 in Z0. cbn [filter] in Z0. rewrite Mpe in Z0. cbn in Z0. lia. }
      rewrite app_nth2 by lia. rewrite Y, Nat.sub_diag. unfold keys. cbn [filter]. rewrite Mpe. reflexivity. }
    rewrite EKL, nth_block in X by lia. replace (il + (L - 1))%nat with (il + L - 1)%nat in X by lia. rewrite X. exact Kpe. }
  (* the start of lsub's keys is not after the start of B's keys *)
  assert (Hil : (il <= fb)%nat).
  { apply (block_start_le G fa na il L fb nb HG); try (unfold il, L; lia).
    - intros g Hg Hge. rewrite <- EA in Hg. unfold keys in Hg. apply in_map_iff in Hg. destruct Hg as (z & <- & Hz). apply filter_In in Hz. destruct Hz as (Hz & Mz).
      rewrite <- EKL. rewrite <- (firstn_skipn n A) in Hz. apply in_app_or in Hz. destruct Hz as [Hz|Hz].
      + pose proof (less_both_key isref z cs Mz (Hdrop z Hz)). lia.
      + rewrite El. apply in_keys; assumption.
    - intros g Hg Hle. rewrite <- EB in Hg. unfold keys in Hg. apply in_map_iff in Hg. destruct Hg as (z & <- & Hz). apply filter_In in Hz. destruct Hz as (Hz & Mz).
      rewrite <- EKR. rewrite Klast in Hle. rewrite <- (firstn_skipn m' (pc :: Rb)) in Hz. apply in_app_or in Hz. destruct Hz as [Hz|Hz]; [rewrite Er; apply in_keys; assumption|exfalso].
      destruct Hafter as (J & rest & EJ & HJ & Hhd & HJle). rewrite EJ in Hz. apply in_app_or in Hz. destruct Hz as [Hz|Hz].
      + pose proof (HJle z Hz) as X1. rewrite (junk_le_any isref z ce (HJ z Hz) Mz Hle) in X1. discriminate.
      + destruct rest as [|x t]; [destruct Hz|]. specialize (Hhd x t eq_refl). unfold sl_keep in Hhd. apply orb_false_iff in Hhd. destruct Hhd as (Hxp & Hxle). apply negb_false_iff in Hxp.
        assert (Hxin : In x (pc :: Rb)) by (rewrite <- (firstn_skipn m' (pc :: Rb)), EJ; apply in_or_app; right; apply in_or_app; right; left; reflexivity).
        assert (Hpein : In pe A) by (rewrite EAl; apply in_or_app; right; left; reflexivity).
        rewrite Ece in Hxle. destruct (not_le_after dir x pe Hxp Hpe (proj2 (Hcoh pe x Hpein Hxin)) Hxle) as (N1 & N2).
        destruct (key_pair isref x Hxp) as (Kx & Mx).
        assert (Hkx : keypv isref ce < key isref x) by (rewrite Kx, Ece; unfold keypv, rpos_of, qpos_of in *; destruct isref; lia).
        assert (Hob' : seg_ord dir (skipn m' (pc :: Rb))) by (apply (SS_Sub _ _ _ (Sub_skipn_self m' _) Hob)). rewrite EJ in Hob'.
        destruct (SS_app_inv _ _ _ Hob') as (_ & Hrest & _).
        destruct Hz as [<-|Hz]; [lia|]. pose proof (before_key dir isref x z (SS_cons_inv _ _ _ Hrest z Hz) Mx Mz). lia.
    - destruct HE as (z & Hz & Mz & Hzk). pose proof (in_keys isref _ z Hz Mz) as Hin. rewrite EB in Hin. apply in_block in Hin; [|exact HBl]. destruct Hin as (j & Hj & Ej).
      rewrite <- Klast, Ej in Hzk. destruct (Nat.le_gt_cases (il + L) (fb + nb)) as [H|H]; [exact H|exfalso].
      pose proof (SS_nth_lt G HG (fb + j) (il + L - 1)). unfold il, L in *. lia. }
  (* the two positions *)
  intros p p' Hp Hp' Mp Mp'.
  destruct (seg_labels_split isref lsub k ltac:(lia)) as (S1 & _). destruct (seg_labels_split isref rsub k ltac:(lia)) as (_ & S2).
  assert (Hkp : In (key isref p) (firstn k (keys isref (positions lsub)))).
  { unfold keys. rewrite firstn_map, <- S1. apply in_map. apply filter_In. split; assumption. }
  assert (Hkp' : In (key isref p') (skipn k (keys isref (positions rsub)))).
  { unfold keys. rewrite skipn_map, <- S2. apply in_map. apply filter_In. split; assumption. }
  destruct (in_firstn_nth _ _ _ Hkp) as (j & Hj & Hjl & Ej). destruct (in_skipn_nth _ _ _ Hkp') as (j' & Hj' & Ej').
  rewrite EKL in Ej, Hjl. rewrite EKR in Ej', Hj'. rewrite block_length in Hjl by (unfold il, L; lia). rewrite block_length in Hj' by lia.
  rewrite Ej, Ej'. pose proof (block_pointwise G il fb L j HG Hil ltac:(lia) ltac:(lia)) as P1.
  rewrite (nth_block G fb L j) in P1 by lia. rewrite (nth_block G fb L j') by lia.
  pose proof (SS_nth_lt G HG (fb + j) (fb + j')). lia.
Qed.
End Counting.

(* ---------- adjacent chain members: the results are strictly apart ---------- *)
(* blk G l: the keys of l (reference mode: G true, query mode: G false) are a block of the global strictly ascending key list *)
Definition blk (G : bool -> list Z) (l : list spos) : Prop :=
  forall isref, exists i n, keys isref l = block (G isref) i n /\ (i + n <= length (G isref))%nat.

Theorem adj_sep dir G a b a' b' :
  seg_ord dir (positions a) -> seg_ord dir (positions b) ->
  sscore a = sum_scores (positions a) -> sscore b = sum_scores (positions b) ->
  last_is_pair (positions a) -> first_is_pair (positions b) -> has_pairs a = true -> has_pairs b = true ->
  coherent dir (positions a) (positions b) ->
  (forall isref, StronglySorted Z.lt (G isref)) -> blk G (positions a) -> blk G (positions b) ->
  (forall ce eb, end_position a = Ok ce -> end_position b = Ok eb -> pv_le ce eb) ->
  (forall p p', In p (positions a) -> In p' (positions b) -> is_pair p = true -> is_pair p' = true ->
     (speak b < speak a -> rpos_of p < rpos_of p' -> qpos_of p < qpos_of p') /\
     (~ speak b < speak a -> qpos_of p < qpos_of p' -> rpos_of p < rpos_of p')) ->
  resolve_pair a b = Ok (a', b') -> psep (positions a') (positions b').
Proof.
  intros Hoa Hob Hsa Hsb Hla Hfb Hpa Hpb Hcoh HG HbA HbB Hends HX H.
  destruct (rp_fresh_main dir a b a' b' Hoa Hob Hsa Hsb Hla Hfb Hpa Hpb Hcoh H) as (x & y & Ea & Eb & _ & _ & _ & _ & [Hsep|(Hx & Hy)]); [exact Hsep|].
  assert (Hane : a' <> a) by (intros ->; apply (f_equal (@length _)) in Ea; rewrite firstn_length in Ea; lia).
  assert (Hbne : b' <> b).
  { intros ->. apply (f_equal (@length _)) in Eb. rewrite skipn_length in Eb. assert (0 < length (positions b))%nat; [|lia].
    unfold has_pairs, aligned in Hpb. destruct (positions b); [discriminate | cbn; lia]. }
  destruct (resolve_pair_inv a b a' b' H) as [(E & _)|(cs & ce & lsub & rsub & Hc & Ho)]; [contradiction|].
  destruct Ho as [_ E _ | E _ _ | Hlen Hk Ea' Eb']; [contradiction | contradiction |].
  destruct (rp_fresh_mid dir a b a' b' cs ce lsub rsub Hoa Hob Hla Hfb Hc Hlen Hk Ea' Eb') as (n & m' & El & Er & Hm' & Hdrop & Hafter & EA' & EB'). cbv zeta in EA', EB'.
  destruct Hc as [_ _ Hcs Hce Hl Hr].
  destruct (slice_spec a cs ce lsub Hl) as (_ & _ & _ & Hkl & _). destruct (slice_spec b cs ce rsub Hr) as (_ & _ & _ & Hkr & _).
  set (isref := res_isref lsub rsub) in *.
  assert (Eisref : isref = (speak b <? speak a)) by (unfold isref, res_isref; rewrite Hkl, Hkr; reflexivity).
  destruct (has_pairs_end b Hpb) as (eb & Heb). pose proof (Hends ce eb Hce Heb) as Hle.
  destruct (end_split b eb Heb (has_pairs_nonempty b Hpb)) as (pz & z1 & z2 & EZ & _ & Hpz & ->).
  assert (HE : exists z, In z (positions b) /\ mine isref z = true /\ keypv isref ce <= key isref z).
  { exists pz. split; [rewrite EZ; apply in_or_app; right; left; reflexivity|]. destruct (key_pair isref pz Hpz) as (K1 & K2). split; [exact K2|]. rewrite K1.
    destruct Hle as (L1 & L2). unfold keypv. destruct isref; lia. }
  destruct (HbA isref) as (fa & na & BA). destruct (HbB isref) as (fb & nb & BB).
  pose proof (mid_keys_lt dir a b cs ce lsub rsub n m' (G isref) fa na fb nb Hob Hla Hfb Hcs Hce Hpa Hpb Hcoh El Er Hm' Hdrop Hafter Hlen Hk (HG isref) BA BB HE) as Hkeys. cbv zeta in Hkeys. fold isref in Hkeys.
  intros p p' Hp Hp' Hpp Hpp'. rewrite EA' in Hp. rewrite EB' in Hp'. apply in_app_or in Hp, Hp'.
  assert (HsubL : Sub (positions lsub) (positions a)) by (rewrite El; apply Sub_skipn_self).
  assert (HsubR : Sub (positions rsub) (positions b)) by (rewrite Er; apply Sub_firstn_self).
  destruct Hp as [Hp|Hp].
  - (* p was before the conflict *)
    apply (psep_less_both (firstn n (positions a)) (positions b) cs Hdrop (start_le dir b cs Hob Hcs Hpb) p p' Hp); [|exact Hpp | exact Hpp'].
    destruct Hp' as [Hp'|Hp']; [apply (Sub_in _ _ _ HsubR); apply (Sub_in _ _ _ (Sub_skipn_self _ _) Hp') | apply (Sub_in _ _ _ (Sub_skipn_self _ _) Hp')].
  - assert (HpA : In p (positions a)) by (apply (Sub_in _ _ _ HsubL); apply (Sub_in _ _ _ (Sub_firstn_self _ _) Hp)).
    destruct Hp' as [Hp'|Hp'].
    + (* both inside the conflicting sub-runs: the counting argument, then the other sequence *)
      assert (HpB : In p' (positions b)) by (apply (Sub_in _ _ _ HsubR); apply (Sub_in _ _ _ (Sub_skipn_self _ _) Hp')).
      destruct (key_pair isref p Hpp) as (K1 & M1). destruct (key_pair isref p' Hpp') as (K1' & M1').
      pose proof (Hkeys p p' Hp Hp' M1 M1') as Hlt. rewrite K1, K1' in Hlt. destruct (HX p p' HpA HpB Hpp Hpp') as (X1 & X2).
      unfold keypv in Hlt. fold (rpos_of p) (rpos_of p') (qpos_of p) (qpos_of p') in Hlt. rewrite Eisref in Hlt. destruct (speak b <? speak a) eqn:Esp.
      * apply Z.ltb_lt in Esp. split; [exact Hlt | apply X1; assumption].
      * apply Z.ltb_ge in Esp. split; [apply X2; [lia | exact Hlt] | exact Hlt].
    + (* p' was after the conflict *)
      destruct Hafter as (J & rest & EJ & HJ & Hhd & _).
      apply (psep_after dir a ce (skipn m' (positions b)) J rest Hoa Hce Hpa (SS_Sub _ _ _ (Sub_skipn_self m' _) Hob)); try assumption.
      intros u v Hu Hv. apply Hcoh; [exact Hu | apply (Sub_in _ _ _ (Sub_skipn_self m' _) Hv)].
Qed.
Print Assumptions adj_sep.

(* C08, part 2: AlignmentResults.resolve (Multi.results_resolve / resolve_groups) — the groups are a partition of the rows by
   (reference id, query id); with at most one first-pass and one second-pass row per query a group has one or two members, and every
   row goes to `separate` or is one of the two parts of exactly one joined row. *)
From Coq Require Import ZArith List Bool Lia Sorting.Permutation Sorting.Sorted.
Import ListNotations.
Require Import Py PyProofs Pairing Core Multi ModesProofs1.
Open Scope Z_scope.

Definition groups_of (rows : list row) : list (list row) :=
  flat_map (fun byref => groupby qid (sort_by qid byref)) (groupby rid (sort_by rid rows)).
Lemma results_resolve_unfold rows maxdiff : results_resolve rows maxdiff = resolve_groups maxdiff (groups_of rows).
Proof. reflexivity. Qed.

(* the groups are a partition of the rows *)
Lemma concat_flat_map {A B} (f : A -> list (list B)) l : concat (flat_map f l) = flat_map (fun x => concat (f x)) l.
Proof. induction l as [|x t IH]; [reflexivity|]. cbn. rewrite concat_app, IH. reflexivity. Qed.
Lemma flat_map_perm_concat {A} (f : list A -> list A) (gs : list (list A)) :
  (forall g, Permutation (f g) g) -> Permutation (flat_map f gs) (concat gs).
Proof. intros H. induction gs as [|g gs IH]; [reflexivity|]. cbn. apply Permutation_app; [apply H | exact IH]. Qed.
Theorem groups_partition rows : Permutation (concat (groups_of rows)) rows.
Proof. unfold groups_of. rewrite concat_flat_map.
  etransitivity; [apply (flat_map_perm_concat (fun g => concat (groupby qid (sort_by qid g))))|].
  - intros g. rewrite groupby_concat. apply sort_by_perm.
  - rewrite groupby_concat. apply sort_by_perm. Qed.

(* every group is the sub-list of the rows with one (reference id, query id), in the original order (both sorts are stable) *)
Theorem groups_are_filters rows g : In g (groups_of rows) ->
  g <> [] /\ exists r c, g = filter (fun w => qid w =? c) (filter (fun w => rid w =? r) rows).
Proof. unfold groups_of. intros H. apply in_flat_map in H. destruct H as (byref & Hb & Hg).
  destruct (groupby_sort_by_filter rid rows byref Hb) as (_ & Eb).
  destruct (groupby_sort_by_filter qid byref g Hg) as (Hne & Eg).
  split; [exact Hne|]. exists (gkey rid byref 0), (gkey qid g 0). rewrite Eg at 1. rewrite Eb at 1. reflexivity. Qed.

(* shape of a group when the rows are first-pass rows followed by second-pass rows, each list with pairwise distinct query ids *)
Definition group_shape (f1 f2 : list row) (g : list row) : Prop :=
  (exists x, g = [x]) \/
  (exists x y, g = [x; y] /\ In x f1 /\ In y f2 /\ qid x = qid y /\ rid x = rid y).

Lemma filter2_le1 r c l : NoDup (map qid l) ->
  (length (filter (fun w => (qid w =? c)%Z) (filter (fun w => (rid w =? r)%Z) l)) <= 1)%nat.
Proof. intros H. etransitivity; [|apply (nodup_filter_le1 qid c l H)].
  induction l as [|x t IH]; [cbn; lia|]. cbn [filter]. destruct (rid x =? r); cbn [filter]; destruct (qid x =? c); cbn [length].
  - apply le_n_S. apply IH. cbn [map] in H. inversion H; assumption.
  - apply IH. cbn [map] in H. inversion H; assumption.
  - apply le_S. apply IH. cbn [map] in H. inversion H; assumption.
  - apply IH. cbn [map] in H. inversion H; assumption. Qed.

Theorem groups_shape f1 f2 : NoDup (map qid f1) -> NoDup (map qid f2) -> Forall (group_shape f1 f2) (groups_of (f1 ++ f2)).
Proof. intros H1 H2. apply Forall_forall. intros g Hg. destruct (groups_are_filters _ g Hg) as (Hne & r & c & E).
  rewrite !filter_app in E. pose proof (filter2_le1 r c f1 H1) as L1. pose proof (filter2_le1 r c f2 H2) as L2.
  set (g1 := filter (fun w => qid w =? c) (filter (fun w => rid w =? r) f1)) in *.
  set (g2 := filter (fun w => qid w =? c) (filter (fun w => rid w =? r) f2)) in *.
  assert (In1 : forall x, In x g1 -> In x f1 /\ qid x = c /\ rid x = r).
  { intros x Hx. unfold g1 in Hx. apply filter_In in Hx. destruct Hx as (Hx & Ec). apply filter_In in Hx. destruct Hx as (Hx & Er).
    apply Z.eqb_eq in Ec, Er. repeat split; assumption. }
  assert (In2 : forall x, In x g2 -> In x f2 /\ qid x = c /\ rid x = r).
  { intros x Hx. unfold g2 in Hx. apply filter_In in Hx. destruct Hx as (Hx & Ec). apply filter_In in Hx. destruct Hx as (Hx & Er).
    apply Z.eqb_eq in Ec, Er. repeat split; assumption. }
  destruct g1 as [|x [|x' g1']]; [| |cbn in L1; lia]; (destruct g2 as [|y [|y' g2']]; [| |cbn in L2; lia]); cbn [app] in E.
  - congruence.
  - left. exists y. exact E.
  - left. exists x. exact E.
  - right. exists x, y. destruct (In1 x (or_introl eq_refl)) as (? & ? & ?). destruct (In2 y (or_introl eq_refl)) as (? & ? & ?).
    repeat split; [exact E | assumption | assumption | congruence | congruence]. Qed.

(* ---------- resolve_groups on groups of that shape ---------- *)
Definition flat_parts (parts : list (row * row)) : list row := flat_map (fun p => [fst p; snd p]) parts.

Theorem resolve_groups_partition f1 f2 maxdiff gs : Forall (group_shape f1 f2) gs ->
  forall joined sep, resolve_groups maxdiff gs = Ok (joined, sep) ->
  exists parts,
    Forall2 (fun p j => check_overlap (fst p) (snd p) maxdiff = true /\ join_rows (fst p) (snd p) = Ok j /\ joined_ok j = true) parts joined /\
    Forall (fun p => In (fst p) f1 /\ In (snd p) f2 /\ qid (fst p) = qid (snd p) /\ rid (fst p) = rid (snd p)) parts /\
    Permutation (concat gs) (sep ++ flat_parts parts).
Proof.
  induction gs as [|g gs IH]; intros Hs joined sep H.
  - cbn in H. injection H as <- <-. exists []. repeat split; constructor.
  - inversion Hs as [|? ? Hg Hgs]; subst. cbn [resolve_groups] in H.
    destruct (resolve_groups maxdiff gs) as [[jt st]|] eqn:Et; [|discriminate]. cbn [bind] in H.
    destruct (IH Hgs jt st eq_refl) as (parts & HF2 & HF & HP). cbn [concat].
    destruct Hg as [(x & ->)|(x & y & -> & Hx & Hy & Eq & Er)].
    + cbn [fst snd] in H. injection H as <- <-. exists parts. repeat split; [exact HF2 | exact HF|].
      cbn [app]. constructor. exact HP.
    + destruct (check_overlap x y maxdiff) eqn:Eo.
      * destruct (join_rows x y) as [j|] eqn:Ej; [|discriminate]. cbn [bind fst snd] in H.
        destruct (joined_ok j) eqn:Ek; injection H as <- <-.
        -- exists ((x, y) :: parts). repeat split.
           ++ constructor; [repeat split; assumption | exact HF2].
           ++ constructor; [repeat split; assumption | exact HF].
           ++ unfold flat_parts. cbn [flat_map fst snd]. fold (flat_parts parts).
              etransitivity; [apply (Permutation_app_head [x; y]); exact HP|].
              apply (Permutation_app_swap_app [x; y] st (flat_parts parts)).
        -- (* repair F9: overlap and join Ok, but the joined row has no pair: both parts stay un-joined *)
           exists parts. repeat split; [exact HF2 | exact HF|]. cbn [app]. do 2 constructor. exact HP.
      * cbn [fst snd] in H. injection H as <- <-. exists parts. repeat split; [exact HF2 | exact HF|].
        cbn [app]. do 2 constructor. exact HP.
Qed.

(* AlignmentResults.resolve on first-pass rows followed by second-pass rows *)
Theorem results_resolve_partition f1 f2 maxdiff joined sep :
  NoDup (map qid f1) -> NoDup (map qid f2) -> results_resolve (f1 ++ f2) maxdiff = Ok (joined, sep) ->
  exists parts,
    Forall2 (fun p j => check_overlap (fst p) (snd p) maxdiff = true /\ join_rows (fst p) (snd p) = Ok j /\ joined_ok j = true) parts joined /\
    Forall (fun p => In (fst p) f1 /\ In (snd p) f2 /\ qid (fst p) = qid (snd p) /\ rid (fst p) = rid (snd p)) parts /\
    Permutation (f1 ++ f2) (sep ++ flat_parts parts).
Proof. intros H1 H2 H. rewrite results_resolve_unfold in H.
  destruct (resolve_groups_partition f1 f2 maxdiff _ (groups_shape f1 f2 H1 H2) joined sep H) as (parts & A & B & C).
  exists parts. repeat split; [exact A | exact B|]. etransitivity; [symmetry; apply groups_partition | exact C]. Qed.

(* the guard, spelled out *)
Lemma check_overlap_spec a b maxdiff : check_overlap a b maxdiff = true ->
  rrev a = rrev b /\ rid a = rid b /\ Z.abs (Z.max (rs a) (rs b) - Z.min (re a) (re b)) <= maxdiff.
Proof. unfold check_overlap. intros H. apply andb_prop in H. destruct H as (H & H3). apply andb_prop in H. destruct H as (H1 & H2).
  apply eqb_prop in H1. apply Z.eqb_eq in H2. apply Z.leb_le in H3. repeat split; assumption. Qed.

(* the query ids of the joined rows are pairwise distinct: a query contributes to at most one joined row *)
Lemma filter_flat_parts c parts : Forall (fun p : row * row => qid (fst p) = qid (snd p)) parts ->
  length (filter (fun w => qid w =? c) (flat_parts parts)) = (2 * length (filter (fun p => (qid (fst p) =? c)%Z) parts))%nat.
Proof. induction parts as [|p t IH]; intros H; [reflexivity|]. inversion H as [|? ? Hp Ht]; subst. unfold flat_parts in *. cbn [flat_map app filter].
  rewrite <- Hp. destruct (qid (fst p) =? c); cbn [length]; rewrite (IH Ht); lia. Qed.

Lemma perm_filter {A} (f : A -> bool) l l' : Permutation l l' -> Permutation (filter f l) (filter f l').
Proof. induction 1 as [|x l l' _ IH|x y l|l l' l'' _ IH1 _ IH2]; cbn [filter].
  - constructor.
  - destruct (f x); [constructor|]; exact IH.
  - destruct (f x), (f y); try reflexivity. apply perm_swap.
  - etransitivity; eassumption. Qed.

Theorem parts_distinct_queries f1 f2 sep parts :
  NoDup (map qid f1) -> NoDup (map qid f2) -> Forall (fun p : row * row => qid (fst p) = qid (snd p)) parts ->
  Permutation (f1 ++ f2) (sep ++ flat_parts parts) -> NoDup (map (fun p => qid (fst p)) parts).
Proof. intros H1 H2 Hq HP. apply (le1_nodup (fun p : row * row => qid (fst p))). intros c.
  pose proof (nodup_filter_le1 qid c f1 H1) as L1. pose proof (nodup_filter_le1 qid c f2 H2) as L2.
  assert (E : length (filter (fun w => qid w =? c) (f1 ++ f2)) = length (filter (fun w => qid w =? c) (sep ++ flat_parts parts))).
  { apply Permutation_length. apply perm_filter. exact HP. }
  rewrite !filter_app, !app_length, (filter_flat_parts c parts Hq) in E. lia. Qed.

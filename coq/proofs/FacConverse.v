(* Observation O1 (outside the statement of C13, recorded so that the exact strength of C13 is visible):
   the converse of "if no run qualifies a single empty segment is returned" does NOT hold.  After a break that
   leaves a best run below minScore, `currentSegment` is not reset (segments_factory.py, __breakSegment /
   __addCurrentSegmentToResultIfScoreIsEnough), so the stale score (a) takes part in the next break test and
   (b) hides every later run that does not beat it.  Witness (inside the exhaustive stream of the C13 check - alphabet {-3..3},
   threshold pair (4,1) - so model and real code are compared on it on every run):  scores [2; -3; 1; 3],
   minScore 4, breakSegmentThreshold 1 -> no segment, although the run [2,4) = 1 + 3 = 4 meets every clause of
   seg_ok and seg_max; the same run after two zero scores instead of 2, -3 is returned. *)
From Coq Require Import ZArith List Bool Lia Sorting.Sorted.
Import ListNotations.
Require Import Fac Psum FacProofs.
Open Scope Z_scope.

Definition o1_scores : list Z := [2; -3; 1; 3].
Definition o1_run : nat * nat * Z := (2%nat, 4%nat, 4).

Lemma o1_seg_ok : seg_ok 4 1 o1_scores o1_run.
Proof.
  unfold seg_ok, o1_run, o1_scores, rA, rB, rX. cbn [fst snd length].
  split; [lia|]. split; [vm_compute; reflexivity|]. split; [lia|]. split.
  - intros j Hj. assert (Ej : j = 3%nat \/ j = 4%nat) by lia. destruct Ej as [-> | ->].
    + split; [vm_compute; reflexivity|]. intros i Hi. lia.
    + split; [vm_compute; reflexivity|]. intros i Hi. assert (i = 3%nat) by lia. subst i. vm_compute. reflexivity.
  - intros j Hj. assert (j = 3%nat) by lia. subst j. vm_compute. reflexivity.
Qed.

Lemma o1_seg_max : seg_max 1 o1_scores o1_run.
Proof. right. unfold o1_run, o1_scores, rA, rB, rX. cbn [fst snd length]. intros j Hj. lia. Qed.

Lemma o1_nothing_returned : factory_ranges 4 1 o1_scores = [].
Proof. vm_compute. reflexivity. Qed.

Lemma o1_without_prefix : factory_ranges 4 1 [1; 3] = [(0%nat, 2%nat, 4)] /\ factory_ranges 4 1 [0; 0; 1; 3] = [o1_run].
Proof. split; vm_compute; reflexivity. Qed.

Theorem factory_converse_refuted :
  exists ms bs l r, 0 < ms /\ seg_ok ms bs l r /\ seg_max bs l r /\ factory_ranges ms bs l = [].
Proof. exists 4, 1, o1_scores, o1_run. split; [lia|]. split; [exact o1_seg_ok|]. split; [exact o1_seg_max | exact o1_nothing_returned]. Qed.

(* What does hold in the other direction: whatever the state, a run that is recorded as the current best with a
   score >= minScore is never lost - it is appended at the next break or at the end. *)
Lemma add_if_enough_keeps ms s c : cur s = Some c -> ms <= rX c -> In c (fres (add_if_enough ms s)).
Proof.
  intros Hc Hx. unfold add_if_enough. rewrite (cur_score_some s c Hc).
  destruct (ms <=? rX c) eqn:E; [|apply Z.leb_gt in E; lia]. rewrite Hc. cbn [fres]. apply in_or_app. right. left. reflexivity.
Qed.

Print Assumptions factory_converse_refuted.
Print Assumptions add_if_enough_keeps.

From Coq Require Import ZArith List Bool Lia Sorting.Permutation Sorting.Sorted.
Import ListNotations.
Require Import Py PyProofs Pairing.
Open Scope Z_scope.

Definition ashift (c : cand) : Z := Z.abs (cshift c).
Definition null_cand := mkCand (mkLabel 0 0) (mkLabel 0 0) 0.
Definition pick (g : list cand) : cand := match g with [] => null_cand | x :: _ => min_by ashift x g end.

Lemma dedup_by_unfold key l : dedup_by key l = map pick (groupby key (sort_by key l)).
Proof. unfold dedup_by. apply map_ext. intros [|x g]; reflexivity. Qed.

Lemma pick_spec g : g <> [] -> In (pick g) g /\ forall y, In y g -> ashift (pick g) <= ashift y.
Proof. destruct g as [|x t]; [congruence|]. intros _. unfold pick, min_by. apply (min_by_aux_spec ashift x t). Qed.

Lemma pick_first (s : cand -> Z) g : g <> [] -> StronglySorted (fun a b => s a < s b) g ->
  forall y, In y g -> ashift (pick g) = ashift y -> s (pick g) <= s y.
Proof. destruct g as [|x t]; [congruence|]. intros _ Hs. unfold pick, min_by. apply (min_by_aux_first ashift s x t Hs). Qed.

Section Dedup.
Variable key : cand -> Z.
Variable l : list cand.

Lemma group_facts g : In g (groupby key (sort_by key l)) ->
  g <> [] /\ g = filter (fun y => key y =? gkey key g 0) l /\ (forall y, In y g -> key y = gkey key g 0) /\ key (pick g) = gkey key g 0.
Proof.
  intros Hg. destruct (groupby_sort_by_filter key l g Hg) as (Hne & Hf).
  assert (Hall : forall y, In y g -> key y = gkey key g 0).
  { intros y Hy. assert (Hy' : In y (filter (fun y => key y =? gkey key g 0) l)) by (rewrite <- Hf; exact Hy).
    apply filter_In in Hy'. destruct Hy' as (_ & E). apply Z.eqb_eq in E. exact E. }
  repeat split; [exact Hne | exact Hf | exact Hall |]. apply Hall. apply (pick_spec g Hne).
Qed.

Lemma in_group g y : g = filter (fun y => key y =? gkey key g 0) l -> In y l -> key y = gkey key g 0 -> In y g.
Proof. intros Hf Hy Hk. rewrite Hf. apply filter_In. split; [exact Hy | apply Z.eqb_eq; exact Hk]. Qed.

Lemma dedup_group x : In x (dedup_by key l) ->
  exists g, g <> [] /\ g = filter (fun y => key y =? key x) l /\ x = pick g.
Proof.
  rewrite dedup_by_unfold. intros Hx. apply in_map_iff in Hx. destruct Hx as (g & <- & Hg).
  destruct (group_facts g Hg) as (Hne & Hf & _ & Hk).
  exists g. repeat split; [exact Hne | rewrite Hk; exact Hf].
Qed.

Lemma dedup_in x : In x (dedup_by key l) -> In x l /\ forall y, In y l -> key y = key x -> ashift x <= ashift y.
Proof.
  rewrite dedup_by_unfold. intros Hx. apply in_map_iff in Hx. destruct Hx as (g & <- & Hg).
  destruct (group_facts g Hg) as (Hne & Hf & Hall & Hk).
  destruct (pick_spec g Hne) as (Hin & Hmin). split.
  - assert (H : In (pick g) (filter (fun y => key y =? gkey key g 0) l)) by (rewrite <- Hf; exact Hin).
    apply filter_In in H. tauto.
  - intros y Hy Hky. apply Hmin. apply in_group; [exact Hf | exact Hy | lia].
Qed.

Lemma dedup_first (s : cand -> Z) :
  (forall c, StronglySorted (fun a b => s a < s b) (filter (fun y => key y =? c) l)) ->
  forall x y, In x (dedup_by key l) -> In y l -> key y = key x -> ashift y = ashift x -> s x <= s y.
Proof.
  intros Hs x y Hx Hy Hky Ha. rewrite dedup_by_unfold in Hx. apply in_map_iff in Hx. destruct Hx as (g & <- & Hg).
  destruct (group_facts g Hg) as (Hne & Hf & Hall & Hk).
  apply (pick_first s g Hne); [rewrite Hf; apply Hs | apply in_group; [exact Hf | exact Hy | lia] | symmetry; exact Ha].
Qed.

Lemma dedup_cover y : In y l -> exists x, In x (dedup_by key l) /\ key x = key y.
Proof.
  intros Hy. destruct (groupby_sort_by_covers key l y Hy) as (g & Hg & Hyg).
  destruct (group_facts g Hg) as (Hne & Hf & Hall & Hk).
  exists (pick g). split; [rewrite dedup_by_unfold; apply in_map; exact Hg|]. rewrite Hk, (Hall y Hyg). reflexivity.
Qed.

Lemma dedup_keys_sorted : StronglySorted Z.lt (map key (dedup_by key l)).
Proof.
  rewrite dedup_by_unfold, map_map.
  pose proof (groupby_sort_by_keys key l) as Hs.
  assert (E : map (fun g => key (pick g)) (groupby key (sort_by key l)) = map (fun g => gkey key g 0) (groupby key (sort_by key l))).
  { apply map_ext_in. intros g Hg. apply (group_facts g Hg). }
  rewrite E. exact Hs.
Qed.
End Dedup.

(* C04, part 1: position scores, the "nothing is re-scored" invariant through factory, chain, slice, __sub__ and the resolver loop *)
From Coq Require Import ZArith QArith List Bool Lia.
Import ListNotations.
Require Import Py PyProofs Pairing Core Psum DP DPProofs ChainCore FacSegs.
Open Scope Z_scope.

(* ---------- the configured score of a position (alignment_position.py:26-30,133-136) ---------- *)
Definition configured (P : params) (a : apos) : Z :=
  match a with Pair _ _ s _ => SP P - DPU P * Z.abs s | _ => SU P end.

Lemma score_pos_sc P a : sc (score_pos P a) = configured P a.
Proof. destruct a; reflexivity. Qed.
Lemma score_pos_ap P a : ap (score_pos P a) = a.
Proof. destruct a; reflexivity. Qed.
Lemma pair_score P r q s src : sc (score_pos P (Pair r q s src)) = SP P - DPU P * Z.abs s.
Proof. reflexivity. Qed.
Lemma unpaired_ref_score P r : sc (score_pos P (URef r)) = SU P.
Proof. reflexivity. Qed.
Lemma unpaired_qry_score P q st : sc (score_pos P (UQry q st)) = SU P.
Proof. reflexivity. Qed.
Lemma map_ap_score_pos P l : map ap (map (score_pos P) l) = l.
Proof. rewrite map_map. induction l as [|x t IH]; [reflexivity|]. cbn [map]. rewrite score_pos_ap, IH. reflexivity. Qed.

(* ---------- subsequences ---------- *)
Lemma Sub_trans {A} (a b c : list A) : Sub a b -> Sub b c -> Sub a c.
Proof. intros Hab Hbc. revert a Hab. induction Hbc as [l | x c l Hs IH | x c l Hs IH]; intros a Hab.
  - inversion Hab; subst. constructor.
  - inversion Hab; subst; [constructor | constructor; apply IH; assumption | apply Sub_skip; apply IH; assumption].
  - apply Sub_skip. apply IH. exact Hab. Qed.
Lemma Sub_filter {A} (f : A -> bool) (l : list A) : Sub (filter f l) l.
Proof. induction l as [|x t IH]; cbn [filter]; [constructor|]. destruct (f x); constructor; exact IH. Qed.
Lemma Sub_firstn_self {A} n (l : list A) : Sub (firstn n l) l.
Proof. apply (Sub_firstn _ _ n). apply Sub_refl. Qed.
Lemma Sub_skipn_self {A} n (l : list A) : Sub (skipn n l) l.
Proof. revert l; induction n as [|n IH]; intros l; [apply Sub_refl|]. destruct l as [|x t]; [constructor|]. cbn [skipn]. apply Sub_skip. apply IH. Qed.
Lemma Sub_map {A B} (f : A -> B) c l : Sub c l -> Sub (map f c) (map f l).
Proof. induction 1; cbn [map]; constructor; assumption. Qed.
Lemma Sub_app_l {A} (a c l : list A) : Sub c l -> Sub c (a ++ l).
Proof. intros H. induction a as [|x a IH]; [exact H|]. cbn [app]. apply Sub_skip. exact IH. Qed.
Lemma Sub_app_same {A} (a c l : list A) : Sub c l -> Sub (a ++ c) (a ++ l).
Proof. intros H. induction a as [|x a IH]; [exact H|]. cbn [app]. constructor. exact IH. Qed.
Lemma Sub_flat_map {A B} (f : A -> list B) c l : Sub c l -> Sub (flat_map f c) (flat_map f l).
Proof. induction 1 as [l | x c l Hs IH | x c l Hs IH]; cbn [flat_map]; [constructor | apply Sub_app_same; exact IH | apply Sub_app_l; exact IH]. Qed.

(* ---------- segments whose score is the sum of their positions and whose positions are drawn, in order, from a given list ---------- *)
Definition scored_ok (s : segment) : Prop := sscore s = sum_scores (positions s).
Definition seg_from (E : list spos) (s : segment) : Prop := scored_ok s /\ Sub (positions s) E.

Lemma seg_create_from E ps peak : Sub ps E -> seg_from E (seg_create ps peak).
Proof. intros H. split; [reflexivity | exact H]. Qed.
Lemma seg_sub_speak s o : speak (seg_sub s o) = speak s.
Proof. reflexivity. Qed.
Lemma seg_sub_from E s o : seg_from E s -> seg_from E (seg_sub s o).
Proof. intros [_ H]. split; [reflexivity|]. unfold seg_sub, seg_create. cbn [positions].
  apply (Sub_trans _ (positions s)); [apply Sub_filter | exact H]. Qed.

(* whichever of the five outcomes of a resolution step is taken, each member is returned unchanged or as `self - something` *)
Lemma resolve_pair_cases a b a' b' : resolve_pair a b = Ok (a', b') ->
  (a' = a \/ exists o, a' = seg_sub a o) /\ (b' = b \/ exists o, b' = seg_sub b o).
Proof.
  intros H. unfold resolve_pair in H.
  destruct (seg_empty a); [injection H as <- <-; split; left; reflexivity|].
  destruct (end_overlaps a b) as [ov|]; [|discriminate]. cbn [bind] in H.
  destruct ov; cbn [negb] in H; [|injection H as <- <-; split; left; reflexivity].
  destruct (start_position b) as [cs|]; [|discriminate]. cbn [bind] in H.
  destruct (end_position a) as [ce|]; [|discriminate]. cbn [bind] in H.
  destruct (slice a cs ce) as [lsub|]; [|discriminate]. cbn [bind] in H.
  destruct (slice b cs ce) as [rsub|]; [|discriminate]. cbn [bind] in H.
  destruct (Nat.eqb (length (seg_labels (speak rsub <? speak lsub) lsub)) (length (seg_labels (speak rsub <? speak lsub) rsub))).
  - destruct (Nat.eqb (optimal_merge_index _ _) 0).
    + injection H as <- <-. split; [right; eexists; reflexivity | left; reflexivity].
    + destruct (Nat.eqb (optimal_merge_index _ _) _).
      * injection H as <- <-. split; [left; reflexivity | right; eexists; reflexivity].
      * injection H as <- <-. split; right; eexists; reflexivity.
  - destruct (sscore rsub <? sscore lsub).
    + injection H as <- <-. split; [left; reflexivity | right; eexists; reflexivity].
    + injection H as <- <-. split; [right; eexists; reflexivity | left; reflexivity].
Qed.

Lemma resolve_pair_from Ea Eb a b a' b' : resolve_pair a b = Ok (a', b') -> seg_from Ea a -> seg_from Eb b ->
  seg_from Ea a' /\ seg_from Eb b' /\ speak a' = speak a /\ speak b' = speak b.
Proof.
  intros H Ha Hb. destruct (resolve_pair_cases a b a' b' H) as ([->|(o & ->)] & [->|(o' & ->)]);
    repeat split; try assumption; try reflexivity; try (apply seg_sub_from; assumption); try apply Ha; try apply Hb;
    try (apply (seg_sub_from Ea a o Ha)); try (apply (seg_sub_from Eb b o' Hb)).
Qed.

(* ---------- any property kept by `self - something` survives the chain and the whole resolver loop ---------- *)
Section Loop.
Variable Good : segment -> Prop.
Hypothesis Good_sub : forall s o, Good s -> Good (seg_sub s o).

Lemma resolve_pair_good a b a' b' : resolve_pair a b = Ok (a', b') -> Good a -> Good b -> Good a' /\ Good b'.
Proof. intros H Ha Hb. destruct (resolve_pair_cases a b a' b' H) as ([->|(o & ->)] & [->|(o' & ->)]); split; auto. Qed.

Lemma set_nth_good (l : list segment) i x : Forall Good l -> Good x -> Forall Good (set_nth l i x).
Proof. intros Hl Hx. revert i. induction Hl as [|y t Hy Ht IH]; intros i; [destruct i; constructor|].
  destruct i; cbn [set_nth]; constructor; auto. Qed.

Lemma nth_error_good (l : list segment) i x : Forall Good l -> nth_error l i = Some x -> Good x.
Proof. intros Hl Hx. rewrite Forall_forall in Hl. apply Hl. apply (nth_error_In _ _ Hx). Qed.

Lemma retry_good fuel : forall l stack i1 r, Forall Good l -> retry fuel l stack i1 = Ok r -> Forall Good (fst r).
Proof.
  induction fuel as [|f IH]; intros l stack i1 r Hl H; cbn [retry] in H; [injection H as <-; exact Hl|].
  destruct stack as [|i0 rest]; [injection H as <-; exact Hl|].
  destruct (nth_error l i1) as [b|] eqn:Eb; [|injection H as <-; exact Hl].
  destruct (has_pairs b); [|injection H as <-; exact Hl].
  destruct (nth_error l i0) as [a|] eqn:Ea; [|discriminate].
  destruct (resolve_pair a b) as [[a' b']|] eqn:Er; [|discriminate]. cbn [bind fst snd] in H.
  destruct (resolve_pair_good a b a' b' Er (nth_error_good l i0 a Hl Ea) (nth_error_good l i1 b Hl Eb)) as (Ga & Gb).
  assert (Hl' : Forall Good (set_nth (set_nth l i0 a') i1 b')) by (apply set_nth_good; [apply set_nth_good|]; assumption).
  destruct (has_pairs a'); [injection H as <-; exact Hl' | apply (IH _ _ _ _ Hl' H)].
Qed.

Lemma resolve_loop_good n : forall i1 l stack out, Forall Good l -> resolve_loop n i1 l stack = Ok out -> Forall Good out.
Proof.
  induction n as [|m IH]; intros i1 l stack out Hl H; cbn [resolve_loop] in H; [injection H as <-; exact Hl|].
  destruct (retry (S (length stack)) l stack i1) as [r|] eqn:Er; [|discriminate]. cbn [bind] in H.
  apply (IH _ _ _ _ (retry_good _ _ _ _ _ Hl Er) H).
Qed.

(* a chain that does not raise returns members of its input *)
Lemma chain_ok_in P segs out : chain P segs = Ok out -> forall s, In s out -> In s segs.
Proof.
  intros H s Hs.
  assert (Hdef : forall x, In x segs -> seg_defined x).
  { intros x Hx He. intros Ha. rewrite (chain_err P segs x Hx He Ha) in H. discriminate. }
  destruct (chain_sublist P segs Hdef) as (c & Ec & Hsub & _). rewrite Ec in H. injection H as <-.
  apply in_app_or in Hs. destruct Hs as [Hs|Hs].
  - apply (preordered_in s segs). apply (Sub_in _ _ _ Hsub Hs).
  - unfold empties in Hs. apply filter_In in Hs. apply Hs.
Qed.

Theorem resolve_conflicts_good P segs out : Forall Good segs -> resolve_conflicts P segs = Ok out -> Forall Good out.
Proof.
  intros Hl H. unfold resolve_conflicts in H. destruct (length segs <? 2)%nat; [injection H as <-; exact Hl|].
  destruct (chain P segs) as [ch|] eqn:Ec; [|discriminate]. cbn [bind] in H.
  apply (resolve_loop_good _ _ _ _ _ (proj2 (Forall_forall Good ch) (fun s Hs => proj1 (Forall_forall Good segs) Hl s (chain_ok_in P segs ch Ec s Hs))) H).
Qed.
End Loop.

(* ---------- factory output: index sub-runs of the scored engine output, same peak, score = sum ---------- *)
Lemma get_segments_in P ps peak s : In s (get_segments P ps peak) ->
  speak s = peak /\ scored_ok s /\ exists m n, positions s = firstn n (skipn m ps).
Proof.
  unfold get_segments. destruct (factory_ranges (MS P) (BS P) (map sc ps)) as [|r rs].
  - intros [<-|[]]. split; [reflexivity|]. split; [reflexivity|]. exists 0%nat, 0%nat. reflexivity.
  - intros H. apply in_map_iff in H. destruct H as ([[a b] x] & <- & _). split; [reflexivity|]. split; [reflexivity|].
    exists a, (b - a)%nat. reflexivity.
Qed.

Definition engine_out (P : params) (it : Z) (reference query : omap) (peak : Z) (reverse : bool) : list apos :=
  align_engine (DMAX P) it reference query peak (peak + mlen query) reverse.
Definition scored_out (P : params) (it : Z) (reference query : omap) (peak : Z) (reverse : bool) : list spos :=
  map (score_pos P) (engine_out P it reference query peak reverse).

Lemma segs_for_peaks_in P reference query reverse peaks : forall it s, In s (segs_for_peaks P it reference query peaks reverse) ->
  exists k peak, nth_error peaks k = Some peak /\ In s (get_segments_for_peak P (it + Z.of_nat k) reference query peak reverse).
Proof.
  induction peaks as [|p t IH]; intros it s H; cbn [segs_for_peaks] in H; [destruct H|].
  apply in_app_or in H. destruct H as [H|H].
  - exists 0%nat, p. split; [reflexivity|]. replace (it + Z.of_nat 0) with it by lia. exact H.
  - destruct (IH (it + 1) s H) as (k & pk & Hk & Hin). exists (S k), pk. split; [exact Hk|].
    replace (it + Z.of_nat (S k)) with (it + 1 + Z.of_nat k) by lia. exact Hin.
Qed.

(* a segment as the factory returns it for the k-th seed peak *)
Definition factory_run (P : params) (it : Z) (reference query : omap) (peaks : list Z) (reverse : bool) (s : segment) : Prop :=
  scored_ok s /\ exists k m n, nth_error peaks k = Some (speak s) /\
    positions s = firstn n (skipn m (scored_out P (it + Z.of_nat k) reference query (speak s) reverse)).
(* a reported segment: positions drawn in order from the scored engine output of ITS OWN peak; score = sum of what is left *)
Definition reported (P : params) (it : Z) (reference query : omap) (peaks : list Z) (reverse : bool) (s : segment) : Prop :=
  scored_ok s /\ exists k, nth_error peaks k = Some (speak s) /\
    Sub (positions s) (scored_out P (it + Z.of_nat k) reference query (speak s) reverse).

Lemma factory_segments_run P it reference query peaks reverse s :
  In s (segs_for_peaks P it reference query peaks reverse) -> factory_run P it reference query peaks reverse s.
Proof.
  intros H. destruct (segs_for_peaks_in P reference query reverse peaks it s H) as (k & pk & Hk & Hin).
  unfold get_segments_for_peak in Hin. apply get_segments_in in Hin. destruct Hin as (Hpk & Hsc & m & n & Hpos).
  split; [exact Hsc|]. exists k, m, n. rewrite Hpk. split; [exact Hk | exact Hpos].
Qed.

Lemma factory_run_reported P it reference query peaks reverse s :
  factory_run P it reference query peaks reverse s -> reported P it reference query peaks reverse s.
Proof.
  intros (Hsc & k & m & n & Hk & Hpos). split; [exact Hsc|]. exists k. split; [exact Hk|]. rewrite Hpos.
  apply (Sub_trans _ (skipn m (scored_out P (it + Z.of_nat k) reference query (speak s) reverse))); [apply Sub_firstn_self | apply Sub_skipn_self].
Qed.

Lemma reported_sub P it reference query peaks reverse s o :
  reported P it reference query peaks reverse s -> reported P it reference query peaks reverse (seg_sub s o).
Proof.
  intros (Hsc & k & Hk & Hsub). split; [reflexivity|]. exists k. rewrite seg_sub_speak. split; [exact Hk|].
  apply (seg_sub_from _ s o (conj Hsc Hsub)).
Qed.

Theorem align_reported P it reference query peaks reverse segs :
  aligner_align P it reference query peaks reverse = Ok segs -> Forall (reported P it reference query peaks reverse) segs.
Proof.
  intros H. unfold aligner_align in H.
  apply (resolve_conflicts_good _ (reported_sub P it reference query peaks reverse) P _ _ (proj2 (Forall_forall _ _) (fun s Hs =>
    factory_run_reported _ _ _ _ _ _ _ (factory_segments_run P it reference query peaks reverse s Hs))) H).
Qed.

(* every position of a reported segment is the scorer's image of an engine output for the segment's own peak *)
Lemma reported_position P it reference query peaks reverse s : reported P it reference query peaks reverse s ->
  exists k, nth_error peaks k = Some (speak s) /\ forall p, In p (positions s) ->
    p = score_pos P (ap p) /\ sc p = configured P (ap p) /\ In (ap p) (engine_out P (it + Z.of_nat k) reference query (speak s) reverse).
Proof.
  intros (_ & k & Hk & Hsub). exists k. split; [exact Hk|]. intros p Hp.
  pose proof (Sub_in _ _ _ Hsub Hp) as Hin. unfold scored_out in Hin. apply in_map_iff in Hin. destruct Hin as (a & <- & Ha).
  rewrite score_pos_ap. split; [reflexivity|]. split; [apply score_pos_sc | exact Ha].
Qed.

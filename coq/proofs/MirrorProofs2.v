(* C11, part 2: every stage after the pairing (scorer, segment factory, chainer, conflict resolver) commutes with an
   injective renumbering of the query site ids that keeps the coordinates.  The only place where site ids are looked at
   after the pairing are equality tests (label_eqb, pos_eqb), hence injectivity suffices; the model's null pair carries
   site id 0, so the renumbering is also required to fix 0 (no label has number 0). *)
From Coq Require Import ZArith QArith List Bool Lia.
Import ListNotations.
Require Import Py PyProofs Pairing Core MirrorProofs1.
Open Scope Z_scope.

Definition ren_spos (f : Z -> Z) (p : spos) : spos := mkS (ren_apos f (ap p)) (sc p).
Definition ren_seg (f : Z -> Z) (s : segment) : segment := mkSeg (map (ren_spos f) (positions s)) (sscore s) (speak s).
Definition ren_pv (f : Z -> Z) (v : pv) : pv := mkPV (isnull v) (pr v) (ren_label f (pq v)).
Definition map_res {A B} (g : A -> B) (x : res A) : res B := match x with Ok a => Ok (g a) | Err => Err end.
Notation entry := (segment * Q * option nat)%type.
Definition ren_entry (f : Z -> Z) (e : entry) : entry := match e with (s, c, p) => (ren_seg f s, c, p) end.

Lemma map_res_id {A} (x : res A) : map_res (fun a => a) x = x. Proof. destruct x; reflexivity. Qed.
Lemma map_res_ext {A B} (g h : A -> B) x : (forall a, x = Ok a -> g a = h a) -> map_res g x = map_res h x.
Proof. destruct x; cbn; [|reflexivity]. intros H. rewrite (H a eq_refl). reflexivity. Qed.

Lemma takewhile_ext {A} (p p' : A -> bool) l : (forall x, p x = p' x) -> takewhile p l = takewhile p' l.
Proof. intros H. induction l as [|x t IH]; [reflexivity|]. cbn. rewrite H, IH. reflexivity. Qed.
Lemma dropwhile_ext {A} (p p' : A -> bool) l : (forall x, p x = p' x) -> dropwhile p l = dropwhile p' l.
Proof. intros H. induction l as [|x t IH]; [reflexivity|]. cbn. rewrite H, IH. reflexivity. Qed.

Section Ren.
Variable f : Z -> Z.
Hypothesis Hinj : forall a b, f a = f b -> a = b.
Hypothesis H0 : f 0 = 0.
Notation rp := (ren_spos f).
Notation rs := (ren_seg f).
Notation rv := (ren_pv f).

(* ---------- scorer ---------- *)
Lemma score_pos_ren P a : score_pos P (ren_apos f a) = rp (score_pos P a).
Proof. destruct a; reflexivity. Qed.
Lemma is_pair_ren p : is_pair (rp p) = is_pair p.
Proof. destruct p as [[r q s src|r|q st] x]; reflexivity. Qed.
Lemma map_sc_ren l : map sc (map rp l) = map sc l.
Proof. rewrite map_map. reflexivity. Qed.
Lemma sum_scores_ren l : sum_scores (map rp l) = sum_scores l.
Proof. unfold sum_scores. generalize 0. induction l as [|x t IH]; intros a; [reflexivity|]. cbn. apply IH. Qed.
Lemma seg_create_ren ps peak : seg_create (map rp ps) peak = rs (seg_create ps peak).
Proof. unfold seg_create, ren_seg. cbn. rewrite sum_scores_ren. reflexivity. Qed.

(* ---------- segment views ---------- *)
Lemma seg_empty_ren s : seg_empty (rs s) = seg_empty s.
Proof. unfold seg_empty, ren_seg. cbn. destruct (positions s); reflexivity. Qed.
Lemma aligned_ren s : aligned (rs s) = map rp (aligned s).
Proof. unfold aligned, ren_seg. cbn [positions]. rewrite filter_map'. f_equal. apply filter_ext. intros p. apply is_pair_ren. Qed.
Lemma null_pv_ren : rv null_pv = null_pv.
Proof. unfold ren_pv, null_pv, ren_label. cbn. rewrite H0. reflexivity. Qed.
Lemma pv_of_ren p : pv_of (rp p) = rv (pv_of p).
Proof. destruct p as [[r q s src|r|q st] x]; unfold pv_of; cbn [ap ren_spos ren_apos]; try (symmetry; apply null_pv_ren). reflexivity. Qed.
Lemma start_position_ren s : start_position (rs s) = map_res rv (start_position s).
Proof. unfold start_position. rewrite seg_empty_ren, aligned_ren. destruct (seg_empty s); cbn [map_res]; [rewrite null_pv_ren; reflexivity|].
  destruct (aligned s); cbn [map map_res]; [reflexivity|]. rewrite pv_of_ren. reflexivity. Qed.
Lemma end_position_ren s : end_position (rs s) = map_res rv (end_position s).
Proof. unfold end_position. rewrite seg_empty_ren, aligned_ren, <- map_rev. destruct (seg_empty s); cbn [map_res]; [rewrite null_pv_ren; reflexivity|].
  destruct (rev (aligned s)); cbn [map map_res]; [reflexivity|]. rewrite pv_of_ren. reflexivity. Qed.
Lemma has_pairs_ren s : has_pairs (rs s) = has_pairs s.
Proof. unfold has_pairs. rewrite aligned_ren. destruct (aligned s); reflexivity. Qed.

(* ---------- comparisons ---------- *)
Lemma label_eqb_ren a b : label_eqb (ren_label f a) (ren_label f b) = label_eqb a b.
Proof. unfold label_eqb, ren_label. cbn [site lpos]. f_equal.
  destruct (Z.eqb_spec (f (site a)) (f (site b))) as [E|E], (Z.eqb_spec (site a) (site b)) as [E'|E']; try reflexivity;
    [apply Hinj in E; contradiction | rewrite E' in E; contradiction]. Qed.
Lemma pv_less_both_ren a o : pv_less_both (rv a) (rv o) = pv_less_both a o.
Proof. reflexivity. Qed.
Lemma pv_le_any_ren a o : pv_le_any (rv a) (rv o) = pv_le_any a o.
Proof. unfold pv_le_any. cbn [ren_pv isnull pr pq]. rewrite label_eqb_ren. reflexivity. Qed.
Lemma less_both_ren p o : less_both (rp p) (rv o) = less_both p o.
Proof. destruct p as [[r q s src|r|q st] x]; reflexivity. Qed.
Lemma le_any_ren p o : le_any (rp p) (rv o) = le_any p o.
Proof. destruct p as [[r q s src|r|q st] x]; unfold le_any; cbn [ap ren_spos ren_apos]; [|reflexivity|reflexivity].
  change (mkPV false r (ren_label f q)) with (rv (mkPV false r q)). apply pv_le_any_ren. Qed.

(* ---------- slice ---------- *)
Lemma trim_rev_ren rl e : trim_rev (map rp rl) (rv e) = map_res (map rp) (trim_rev rl e).
Proof. induction rl as [|p t IH]; [reflexivity|]. cbn [map trim_rev]. rewrite is_pair_ren, le_any_ren.
  destruct (negb (is_pair p) && negb (le_any p e)); [exact IH | reflexivity]. Qed.
Lemma slice_ren s st en : slice (rs s) (rv st) (rv en) = map_res rs (slice s st en).
Proof. unfold slice. cbn [ren_seg positions speak]. rewrite dropwhile_map, takewhile_map.
  rewrite (dropwhile_ext _ (fun p => less_both p st)), (takewhile_ext _ (fun p => negb (is_pair p) || le_any p en)).
  - destruct (takewhile _ _) as [|x t] eqn:E; cbn [map].
    + cbn [map_res]. rewrite <- (seg_create_ren [] (speak s)). reflexivity.
    + change (rp x :: map rp t) with (map rp (x :: t)). rewrite <- map_rev, trim_rev_ren.
      destruct (trim_rev (rev (x :: t)) en) as [rl|]; cbn [bind map_res]; [|reflexivity]. rewrite <- map_rev, seg_create_ren. reflexivity.
  - intros p. rewrite is_pair_ren, le_any_ren. reflexivity.
  - intros p. apply less_both_ren. Qed.

(* ---------- segment subtraction ---------- *)
Lemma pos_eqb_ren a b : pos_eqb (rp a) (rp b) = pos_eqb a b.
Proof. destruct a as [[r q s src|r|q st] x], b as [[r' q' s' src'|r'|q' st'] x']; unfold pos_eqb; cbn [ap ren_spos ren_apos]; try reflexivity.
  - rewrite label_eqb_ren. reflexivity.
  - cbn [ren_label site]. destruct (Z.eqb_spec (f (site q)) (f (site q'))) as [E|E], (Z.eqb_spec (site q) (site q')) as [E'|E']; try reflexivity;
      [apply Hinj in E; contradiction | rewrite E' in E; contradiction]. Qed.
Lemma existsb_pos_ren p l : existsb (pos_eqb (rp p)) (map rp l) = existsb (pos_eqb p) l.
Proof. induction l as [|x t IH]; [reflexivity|]. cbn. rewrite pos_eqb_ren, IH. reflexivity. Qed.
Lemma seg_sub_ren s other : seg_sub (rs s) (map rp other) = rs (seg_sub s other).
Proof. unfold seg_sub. cbn [ren_seg positions speak]. rewrite filter_map', <- seg_create_ren. f_equal. f_equal.
  apply filter_ext. intros p. rewrite existsb_pos_ren. reflexivity. Qed.

(* ---------- label scores used by the merge index ---------- *)
Lemma labels_aux_ren isref l : forall idx sum, labels_aux isref (map rp l) idx sum = labels_aux isref l idx sum.
Proof. induction l as [|p t IH]; intros idx sum; [reflexivity|]. cbn [map labels_aux].
  destruct p as [[r q s src|r|q st] x]; cbn [ap sc ren_spos ren_apos]; try destruct isref; cbn [negb]; rewrite !IH; reflexivity. Qed.
Lemma seg_labels_ren isref s : seg_labels isref (rs s) = seg_labels isref s.
Proof. apply labels_aux_ren. Qed.

(* ---------- one conflict ---------- *)
Lemma end_overlaps_ren a b : end_overlaps (rs a) (rs b) = end_overlaps a b.
Proof. unfold end_overlaps. rewrite seg_empty_ren. destruct (seg_empty a); [reflexivity|].
  rewrite !start_position_ren, !end_position_ren.
  destruct (start_position b) as [bs|]; cbn [map_res bind]; [|reflexivity].
  destruct (start_position a) as [as_|]; cbn [map_res bind]; [|reflexivity].
  destruct (end_position a) as [ae|]; cbn [map_res bind]; [|reflexivity].
  destruct (end_position b) as [be|]; cbn [map_res bind]; [|reflexivity].
  rewrite !pv_le_any_ren. reflexivity. Qed.

Definition rs2 (ab : segment * segment) : segment * segment := (rs (fst ab), rs (snd ab)).
Theorem resolve_pair_ren a b : resolve_pair (rs a) (rs b) = map_res rs2 (resolve_pair a b).
Proof. unfold resolve_pair. rewrite seg_empty_ren. destruct (seg_empty a); [reflexivity|].
  rewrite end_overlaps_ren. destruct (end_overlaps a b) as [ov|]; cbn [bind map_res]; [|reflexivity].
  destruct (negb ov); [reflexivity|].
  rewrite start_position_ren, end_position_ren.
  destruct (start_position b) as [cs|]; cbn [map_res bind]; [|reflexivity].
  destruct (end_position a) as [ce|]; cbn [map_res bind]; [|reflexivity].
  rewrite !slice_ren.
  destruct (slice a cs ce) as [lsub|]; cbn [map_res bind]; [|reflexivity].
  destruct (slice b cs ce) as [rsub|]; cbn [map_res bind]; [|reflexivity].
  rewrite !seg_labels_ren.
  change (speak (rs rsub)) with (speak rsub). change (speak (rs lsub)) with (speak lsub).
  change (sscore (rs rsub)) with (sscore rsub). change (sscore (rs lsub)) with (sscore lsub).
  change (positions (rs lsub)) with (map rp (positions lsub)). change (positions (rs rsub)) with (map rp (positions rsub)).
  set (isref := speak rsub <? speak lsub).
  destruct (Nat.eqb (length (seg_labels isref lsub)) (length (seg_labels isref rsub))).
  - destruct (Nat.eqb (optimal_merge_index _ _) 0); [rewrite seg_sub_ren; reflexivity|].
    destruct (Nat.eqb (optimal_merge_index _ _) _); [rewrite seg_sub_ren; reflexivity|].
    rewrite skipn_map, firstn_map, !seg_sub_ren. reflexivity.
  - destruct (sscore rsub <? sscore lsub); rewrite seg_sub_ren; reflexivity. Qed.

(* ---------- factory ---------- *)
Theorem get_segments_ren P ps peak : get_segments P (map rp ps) peak = map rs (get_segments P ps peak).
Proof. unfold get_segments. rewrite map_sc_ren. destruct (factory_ranges (MS P) (BS P) (map sc ps)) as [|r0 rl].
  - cbn [map]. rewrite <- (seg_create_ren [] peak). reflexivity.
  - rewrite map_map. apply map_ext. intros [[a b] x]. rewrite skipn_map, firstn_map. apply seg_create_ren. Qed.

(* ---------- chainer ---------- *)
Lemma join_score_ren P a b : join_score P (rs a) (rs b) = join_score P a b.
Proof. unfold join_score. rewrite !start_position_ren, !end_position_ren.
  destruct (start_position a) as [ps|]; cbn [map_res bind]; [|reflexivity].
  destruct (end_position a) as [pe|]; cbn [map_res bind]; [|reflexivity].
  destruct (start_position b) as [cs|]; cbn [map_res bind]; [|reflexivity].
  destruct (end_position b) as [ce|]; cbn [map_res bind]; reflexivity. Qed.
Lemma order_key_ren s : order_key (rs s) = order_key s.
Proof. unfold order_key. rewrite start_position_ren, end_position_ren.
  destruct (start_position s) as [a|]; cbn [map_res bind]; [|reflexivity].
  destruct (end_position s) as [e|]; cbn [map_res bind]; reflexivity. Qed.
Definition rks (ks : Z * segment) : Z * segment := (fst ks, rs (snd ks)).
Lemma keys_ren l : keys (map rs l) = map_res (map rks) (keys l).
Proof. induction l as [|s t IH]; [reflexivity|]. cbn [map keys]. rewrite order_key_ren, IH.
  destruct (order_key s) as [k|]; cbn [bind map_res]; [|reflexivity]. destruct (keys t) as [r|]; cbn [bind map_res]; reflexivity. Qed.
Lemma best_prev_ren P c done : forall j best bp,
  best_prev P (rs c) (map (ren_entry f) done) j best bp = best_prev P c done j best bp.
Proof. induction done as [|[[sj cj] pj] t IH]; intros j best bp; [reflexivity|]. cbn [map ren_entry best_prev]. rewrite join_score_ren.
  destruct (join_score P sj c) as [[x|]|]; cbn [bind]; [|apply IH|reflexivity]. destruct (Qltb best (Qred (cj + x))); apply IH. Qed.
Lemma dp_ren P todo : forall done,
  dp P (map rs todo) (map (ren_entry f) done) = map_res (map (ren_entry f)) (dp P todo done).
Proof. induction todo as [|s t IH]; intros done; [reflexivity|]. cbn [map dp]. rewrite best_prev_ren.
  destruct (best_prev P s done 0%nat 0%Q None) as [bp|]; cbn [bind map_res]; [|reflexivity].
  rewrite <- IH, map_app. reflexivity. Qed.
Lemma best_index_ren l : forall i best bi, best_index (map (ren_entry f) l) i best bi = best_index l i best bi.
Proof. induction l as [|[[s c] p] t IH]; intros i best bi; [reflexivity|]. cbn [map ren_entry best_index]. destruct (Qltb best c); apply IH. Qed.
Lemma backtrack_ren fuel tbl : forall i acc,
  backtrack fuel (map (ren_entry f) tbl) i (map rs acc) = map rs (backtrack fuel tbl i acc).
Proof. induction fuel as [|n IH]; intros i acc; [reflexivity|]. cbn [backtrack]. rewrite nth_error_map.
  destruct (nth_error tbl i) as [[[s c] p]|]; cbn [option_map ren_entry]; [|reflexivity].
  destruct p as [j|]; [apply (IH j (s :: acc)) | reflexivity]. Qed.
Lemma filter_seg_ren (p : segment -> bool) l : (forall s, p (rs s) = p s) -> filter p (map rs l) = map rs (filter p l).
Proof. intros H. rewrite filter_map'. f_equal. apply filter_ext. exact H. Qed.

Theorem chain_ren P segs : chain P (map rs segs) = map_res (map rs) (chain P segs).
Proof. unfold chain.
  rewrite (filter_seg_ren seg_empty segs seg_empty_ren).
  rewrite (filter_seg_ren (fun s => negb (seg_empty s)) segs) by (intros s; rewrite seg_empty_ren; reflexivity).
  rewrite keys_ren. destruct (keys (filter (fun s => negb (seg_empty s)) segs)) as [ks|]; cbn [map_res bind]; [|reflexivity].
  rewrite (sort_by_mapk rks fst fst (fun x => eq_refl)), map_map. cbn [rks snd].
  rewrite <- (map_map snd rs).
  destruct (map snd (sort_by fst ks)) as [|s0 pre]; cbn [map]; [reflexivity|].
  change (rs s0 :: map rs pre) with (map rs (s0 :: pre)).
  change (@nil entry) with (map (ren_entry f) []). rewrite dp_ren. change (map (ren_entry f) []) with (@nil entry).
  destruct (dp P (s0 :: pre) []) as [tbl|]; cbn [map_res bind]; [|reflexivity].
  rewrite best_index_ren, map_length. f_equal. rewrite map_app. f_equal.
  assert (E : match map (ren_entry f) tbl with (_, c, _) :: _ => c | [] => 0%Q end = match tbl with (_, c, _) :: _ => c | [] => 0%Q end).
  { destruct tbl as [|[[s c] p] t]; reflexivity. }
  rewrite E. apply (backtrack_ren (length tbl) tbl _ []). Qed.

(* ---------- resolver loop ---------- *)
Lemma set_nth_map {A B} (g : A -> B) l : forall i x, set_nth (map g l) i (g x) = map g (set_nth l i x).
Proof. induction l as [|y t IH]; intros [|i] x; cbn; try reflexivity. rewrite IH. reflexivity. Qed.
Definition rsl (r : list segment * list nat) : list segment * list nat := (map rs (fst r), snd r).
Lemma retry_ren fuel : forall l stack i1, retry fuel (map rs l) stack i1 = map_res rsl (retry fuel l stack i1).
Proof. induction fuel as [|n IH]; intros l stack i1; [reflexivity|]. cbn [retry]. rewrite !nth_error_map.
  destruct stack as [|i0 rest]; [reflexivity|].
  destruct (nth_error l i1) as [b|]; cbn [option_map]; [|reflexivity]. rewrite has_pairs_ren.
  destruct (has_pairs b); [|reflexivity]. rewrite nth_error_map.
  destruct (nth_error l i0) as [a|]; cbn [option_map]; [|reflexivity]. rewrite resolve_pair_ren.
  destruct (resolve_pair a b) as [[a' b']|]; cbn [map_res bind rs2 fst snd]; [|reflexivity].
  rewrite has_pairs_ren, !set_nth_map. destruct (has_pairs a'); [reflexivity | apply IH]. Qed.
Lemma resolve_loop_ren n : forall i1 l stack, resolve_loop n i1 (map rs l) stack = map_res (map rs) (resolve_loop n i1 l stack).
Proof. induction n as [|m IH]; intros i1 l stack; [reflexivity|]. cbn [resolve_loop]. rewrite retry_ren.
  destruct (retry (S (length stack)) l stack i1) as [[l' st']|]; cbn [map_res bind rsl fst snd]; [|reflexivity].
  rewrite nth_error_map. destruct (nth_error l' i1) as [b|]; cbn [option_map]; [rewrite has_pairs_ren|]; apply IH. Qed.
Theorem resolve_conflicts_ren P segs : resolve_conflicts P (map rs segs) = map_res (map rs) (resolve_conflicts P segs).
Proof. unfold resolve_conflicts. rewrite map_length. destruct (length segs <? 2)%nat; [reflexivity|].
  rewrite chain_ren. destruct (chain P segs) as [ch|]; cbn [map_res bind]; [|reflexivity].
  rewrite map_length. apply resolve_loop_ren. Qed.
End Ren.

(* ---------- conflict resolution never invents a position: every position of an output segment is a position of an
   input segment (used to bring the renumbering back to k -> N+1-k on the labels that actually occur) ---------- *)
Section Inv.
Variable Qp : spos -> Prop.
Definition segQ (s : segment) : Prop := forall p, In p (positions s) -> Qp p.
Definition segsQ (l : list segment) : Prop := forall s, In s l -> segQ s.

Lemma seg_sub_Q s other : segQ s -> segQ (seg_sub s other).
Proof. intros H p Hp. unfold seg_sub, seg_create in Hp. cbn [positions] in Hp. apply filter_In in Hp. apply H. tauto. Qed.
Lemma resolve_pair_Q a b a' b' : resolve_pair a b = Ok (a', b') -> segQ a -> segQ b -> segQ a' /\ segQ b'.
Proof. unfold resolve_pair. intros H Ha Hb.
  destruct (seg_empty a); [injection H as <- <-; tauto|].
  destruct (end_overlaps a b) as [ov|]; cbn [bind] in H; [|discriminate].
  destruct (negb ov); [injection H as <- <-; tauto|].
  destruct (start_position b) as [cs|]; cbn [bind] in H; [|discriminate].
  destruct (end_position a) as [ce|]; cbn [bind] in H; [|discriminate].
  destruct (slice a cs ce) as [lsub|]; cbn [bind] in H; [|discriminate].
  destruct (slice b cs ce) as [rsub|]; cbn [bind] in H; [|discriminate].
  cbn zeta in H.
  destruct (Nat.eqb _ _) in H.
  - destruct (Nat.eqb _ 0) in H; [injection H as <- <-; split; [apply seg_sub_Q|]; assumption|].
    destruct (Nat.eqb _ _) in H; [injection H as <- <-; split; [|apply seg_sub_Q]; assumption|].
    injection H as <- <-; split; apply seg_sub_Q; assumption.
  - destruct (_ <? _) in H; injection H as <- <-; split; try apply seg_sub_Q; assumption. Qed.

Lemma set_nth_in {A} (l : list A) : forall i x y, In y (set_nth l i x) -> y = x \/ In y l.
Proof. induction l as [|z t IH]; intros [|i] x y H; cbn in H; try tauto.
  - destruct H as [<-|H]; [left; reflexivity | right; right; exact H].
  - destruct H as [<-|H]; [right; left; reflexivity|]. destruct (IH _ _ _ H); [left | right; right]; assumption. Qed.
Lemma set_nth_Q l i x : segsQ l -> segQ x -> segsQ (set_nth l i x).
Proof. intros Hl Hx s Hs. destruct (set_nth_in _ _ _ _ Hs) as [->|H]; [exact Hx | apply Hl; exact H]. Qed.

Lemma retry_Q fuel : forall l stack i1 r, retry fuel l stack i1 = Ok r -> segsQ l -> segsQ (fst r).
Proof. induction fuel as [|n IH]; intros l stack i1 r H Hl; cbn [retry] in H; [injection H as <-; exact Hl|].
  destruct stack as [|i0 rest]; [injection H as <-; exact Hl|].
  destruct (nth_error l i1) as [b|] eqn:Eb; [|injection H as <-; exact Hl].
  destruct (has_pairs b); [|injection H as <-; exact Hl].
  destruct (nth_error l i0) as [a|] eqn:Ea; [|discriminate].
  destruct (resolve_pair a b) as [[a' b']|] eqn:Er; cbn [bind fst snd] in H; [|discriminate].
  destruct (resolve_pair_Q a b a' b' Er (Hl a (nth_error_In _ _ Ea)) (Hl b (nth_error_In _ _ Eb))) as (Ha' & Hb').
  assert (Hl' : segsQ (set_nth (set_nth l i0 a') i1 b')) by (apply set_nth_Q; [apply set_nth_Q|]; assumption).
  destruct (has_pairs a'); [injection H as <-; exact Hl' | apply (IH _ _ _ _ H Hl')]. Qed.
Lemma resolve_loop_Q n : forall i1 l stack out, resolve_loop n i1 l stack = Ok out -> segsQ l -> segsQ out.
Proof. induction n as [|m IH]; intros i1 l stack out H Hl; cbn [resolve_loop] in H; [injection H as <-; exact Hl|].
  destruct (retry (S (length stack)) l stack i1) as [r|] eqn:Er; cbn [bind] in H; [|discriminate].
  apply (IH _ _ _ _ H). apply (retry_Q _ _ _ _ _ Er Hl). Qed.

(* the chain is made of input segments *)
Lemma keys_snd l ks : keys l = Ok ks -> map snd ks = l.
Proof. revert ks; induction l as [|s t IH]; intros ks H; cbn [keys] in H; [injection H as <-; reflexivity|].
  destruct (order_key s) as [k|]; cbn [bind] in H; [|discriminate]. destruct (keys t) as [r|]; cbn [bind] in H; [|discriminate].
  injection H as <-. cbn. rewrite (IH r eq_refl). reflexivity. Qed.
Lemma dp_segs P todo : forall done tbl, dp P todo done = Ok tbl -> map (fun e : entry => fst (fst e)) tbl = map (fun e : entry => fst (fst e)) done ++ todo.
Proof. induction todo as [|s t IH]; intros done tbl H; cbn [dp] in H; [injection H as <-; rewrite app_nil_r; reflexivity|].
  destruct (best_prev P s done 0%nat 0%Q None) as [bp|]; cbn [bind] in H; [|discriminate].
  rewrite (IH _ _ H), map_app, <- app_assoc. reflexivity. Qed.
Lemma backtrack_in fuel (tbl : list entry) : forall i acc s, In s (backtrack fuel tbl i acc) -> In s acc \/ In s (map (fun e : entry => fst (fst e)) tbl).
Proof. induction fuel as [|n IH]; intros i acc s H; cbn [backtrack] in H; [left; exact H|].
  destruct (nth_error tbl i) as [[[s' c] p]|] eqn:E; [|left; exact H].
  assert (Hs' : In s' (map (fun e : entry => fst (fst e)) tbl)) by (apply in_map_iff; exists (s', c, p); split; [reflexivity | apply (nth_error_In _ _ E)]).
  destruct p as [j|].
  - destruct (IH _ _ _ H) as [[<-|Ha]|Ht]; [right; exact Hs' | left; exact Ha | right; exact Ht].
  - destruct H as [<-|H]; [right; exact Hs' | left; exact H]. Qed.
Lemma chain_in P segs out : chain P segs = Ok out -> forall s, In s out -> In s segs.
Proof. unfold chain. intros H s Hs.
  destruct (keys (filter (fun s => negb (seg_empty s)) segs)) as [ks|] eqn:Ek; cbn [bind] in H; [|discriminate].
  assert (Hpre : forall x, In x (map snd (sort_by fst ks)) -> In x segs).
  { intros x Hx. apply in_map_iff in Hx. destruct Hx as ([k x'] & <- & Hx). apply sort_by_in in Hx.
    apply (in_map snd) in Hx. rewrite (keys_snd _ _ Ek) in Hx. apply filter_In in Hx. tauto. }
  destruct (map snd (sort_by fst ks)) as [|s0 pre] eqn:Ep.
  - injection H as <-. apply filter_In in Hs. tauto.
  - destruct (dp P (s0 :: pre) []) as [tbl|] eqn:Ed; cbn [bind] in H; [|discriminate]. injection H as <-.
    apply in_app_iff in Hs. destruct Hs as [Hs|Hs]; [|apply filter_In in Hs; tauto].
    apply backtrack_in in Hs. destruct Hs as [[]|Hs]. rewrite (dp_segs _ _ _ _ Ed) in Hs. apply Hpre. exact Hs. Qed.

Theorem resolve_conflicts_Q P segs out : resolve_conflicts P segs = Ok out -> segsQ segs -> segsQ out.
Proof. unfold resolve_conflicts. intros H Hl. destruct (length segs <? 2)%nat; [injection H as <-; exact Hl|].
  destruct (chain P segs) as [ch|] eqn:Ec; cbn [bind] in H; [|discriminate].
  apply (resolve_loop_Q _ _ _ _ _ H). intros s Hs. apply Hl. apply (chain_in P segs ch Ec s Hs). Qed.

Lemma in_firstn' {A} n : forall (l : list A) x, In x (firstn n l) -> In x l.
Proof. induction n as [|n IH]; intros l x H; [destruct H|]. destruct l as [|y t]; [destruct H|]. cbn in H. destruct H as [<-|H]; [left; reflexivity | right; apply IH; exact H]. Qed.
Lemma in_skipn' {A} n : forall (l : list A) x, In x (skipn n l) -> In x l.
Proof. induction n as [|n IH]; intros l x H; [exact H|]. destruct l as [|y t]; [destruct H|]. cbn in H. right. apply IH. exact H. Qed.
Lemma get_segments_Q P ps peak : (forall p, In p ps -> Qp p) -> segsQ (get_segments P ps peak).
Proof. intros Hps s Hs p Hp. unfold get_segments in Hs. destruct (factory_ranges (MS P) (BS P) (map sc ps)) as [|r0 rl].
  - destruct Hs as [<-|[]]. destruct Hp.
  - apply in_map_iff in Hs. destruct Hs as ([[a b] x] & <- & _). cbn [seg_create positions] in Hp.
    apply Hps. apply (in_skipn' a). apply (in_firstn' (b - a)). exact Hp. Qed.
End Inv.

(* A global maximum whose plateau does not touch the edges is a local maximum; find_peaks_initial (COMA's primary call) keeps a peak of
   maximal height on it or closer than the distance to it; for a planted grid-aligned copy that peak has normalised height 1 and the
   reference window at its bin is bit-for-bit the query vector. *)
From Coq Require Import ZArith QArith List Bool Lia Sorting.Sorted Sorting.Permutation.
Import ListNotations.
Require Import Py Vec Peaks Correlate FindPeaks DPProofs ResolverProofs1 FindPeaksProofs1 FindPeaksProofs2 FindPeaksProofs3
  CorrelateProofs1 CorrelateProofs3 CorrelateProofs4 PlantedProofs1.
Open Scope nat_scope.

(* ------------------------------------------------------------------------------------------------ nearest lower sample on either side *)
Lemma last_before (P : nat -> bool) : forall k0, (exists a, a < k0 /\ P a = true) ->
  exists a, a < k0 /\ P a = true /\ forall j, a < j < k0 -> P j = false.
Proof. induction k0 as [|k IH]; intros (a & Ha & Pa); [lia|]. destruct (P k) eqn:E.
  - exists k. repeat split; [lia | exact E | intros; lia].
  - assert (Hak : a < k) by (destruct (Nat.eq_dec a k) as [->|]; [congruence | lia]).
    destruct (IH (ex_intro _ a (conj Hak Pa))) as (a' & H1 & H2 & H3).
    exists a'. repeat split; [lia | exact H2|]. intros j Hj. destruct (Nat.eq_dec j k) as [->|]; [exact E | apply H3; lia]. Qed.
Lemma first_after (P : nat -> bool) n : forall g k0, (exists b, k0 < b <= k0 + g /\ b < n /\ P b = true) ->
  exists b, k0 < b < n /\ P b = true /\ forall j, k0 < j < b -> P j = false.
Proof. induction g as [|g IH]; intros k0 (b & Hb & Hn & Pb); [lia|]. destruct (P (S k0)) eqn:E.
  - exists (S k0). repeat split; [lia | lia | exact E | intros; lia].
  - destruct (IH (S k0)) as (b' & H1 & H2 & H3).
    { exists b. repeat split; [destruct (Nat.eq_dec b (S k0)) as [->|]; [congruence | lia] | lia | exact Hn | exact Pb]. }
    exists b'. repeat split; [lia | lia | exact H2|]. intros j Hj. destruct (Nat.eq_dec j (S k0)) as [->|]; [exact E | apply H3; lia]. Qed.

Section Order.
Context {A : Type}.
Variable leb : A -> A -> bool.
Hypothesis leb_total : forall a b, leb a b = true \/ leb b a = true.
Hypothesis leb_trans : forall a b c, leb a b = true -> leb b c = true -> leb a c = true.
Notation ltb := (ltb leb).
Notation eqb := (eqb leb).
Variable dflt : A.

Lemma eqb_both a b c : eqb a c = true -> eqb b c = true -> eqb a b = true.
Proof. intros H1 H2. destruct (eqb_leb leb a c H1) as (A1 & A2). destruct (eqb_leb leb b c H2) as (B1 & B2). unfold FindPeaks.eqb.
  rewrite (leb_trans a c b A1 B2), (leb_trans b c a B1 A2). reflexivity. Qed.

Theorem global_max_peak x k0 : k0 < length x ->
  (forall k, k < length x -> leb (nth k x dflt) (nth k0 x dflt) = true) ->
  (exists a, a < k0 /\ ltb (nth a x dflt) (nth k0 x dflt) = true) ->
  (exists b, k0 < b < length x /\ ltb (nth b x dflt) (nth k0 x dflt) = true) ->
  exists l r, l <= k0 <= r /\ is_peak leb dflt x l r /\ (forall k, l <= k <= r -> eqb (nth k x dflt) (nth k0 x dflt) = true) /\
    In (Nat.div2 (l + r), nth (Nat.div2 (l + r)) x dflt) (local_maxima leb x).
Proof. intros Hk0 Hmax Hleft Hright. set (P := fun j => ltb (nth j x dflt) (nth k0 x dflt)).
  destruct (last_before P k0 Hleft) as (a & Ha & Pa & Hla).
  destruct (first_after P (length x) (length x) k0) as (b & Hb & Pb & Hfb).
  { destruct Hright as (b & Hb & Pb). exists b. repeat split; try lia. exact Pb. }
  assert (Hplat : forall k, a + 1 <= k <= b - 1 -> eqb (nth k x dflt) (nth k0 x dflt) = true).
  { intros k Hk. unfold FindPeaks.eqb. rewrite (Hmax k ltac:(lia)). cbn [andb].
    destruct (Nat.lt_trichotomy k k0) as [L|[->|L]]; [| apply (leb_refl leb leb_total) |].
    - specialize (Hla k ltac:(lia)). unfold P, FindPeaks.ltb in Hla. apply negb_false_iff in Hla. exact Hla.
    - specialize (Hfb k ltac:(lia)). unfold P, FindPeaks.ltb in Hfb. apply negb_false_iff in Hfb. exact Hfb. }
  assert (Hpk : is_peak leb dflt x (a + 1) (b - 1)).
  { unfold is_peak. repeat split; try lia.
    - intros k Hk. apply (eqb_both _ _ (nth k0 x dflt)); apply Hplat; lia.
    - replace (a + 1 - 1) with a by lia. apply (ltb_trans_r leb leb_trans _ (nth k0 x dflt)); [exact Pa|].
      apply (eqb_leb leb _ _ (Hplat (a + 1) ltac:(lia))).
    - replace (b - 1 + 1) with b by lia. apply (ltb_trans_r leb leb_trans _ (nth k0 x dflt)); [exact Pb|].
      apply (eqb_leb leb _ _ (Hplat (a + 1) ltac:(lia))). }
  exists (a + 1), (b - 1). split; [lia|]. split; [exact Hpk|]. split; [exact Hplat|].
  apply (local_maxima_spec leb leb_total leb_trans dflt). exists (a + 1), (b - 1). split; [exact Hpk | split; reflexivity]. Qed.

(* np.max *)
Lemma max_from_spec : forall l m, let M := max_from leb m l in
  leb m M = true /\ (forall a, In a l -> leb a M = true) /\ (M = m \/ In M l).
Proof. induction l as [|a t IH]; intros m; cbn [max_from]; [repeat split; [apply (leb_refl leb leb_total) | intros ? [] | left; reflexivity]|].
  destruct (ltb m a) eqn:E.
  - destruct (IH a) as (H1 & H2 & H3). cbn zeta in *. repeat split.
    + apply (leb_trans _ a); [apply (ltb_leb leb leb_total), E | exact H1].
    + intros y [<-|Hy]; [exact H1 | apply H2, Hy].
    + right. destruct H3 as [->|H3]; [left; reflexivity | right; exact H3].
  - destruct (IH m) as (H1 & H2 & H3). cbn zeta in *. repeat split; [exact H1| |destruct H3 as [->|H3]; [left; reflexivity | right; right; exact H3]].
    intros y [<-|Hy]; [|apply H2, Hy]. apply (leb_trans _ m); [|exact H1]. unfold FindPeaks.ltb in E. apply negb_false_iff in E. exact E. Qed.
End Order.

(* ------------------------------------------------------------------------------------------------ the rational instance *)
Lemma qleb_spec x y : qleb x y = Qle_bool x y.
Proof. unfold qleb, Qle_bool. destruct (Pos.eqb (Qden x) (Qden y)) eqn:E; [|reflexivity]. apply Pos.eqb_eq in E. rewrite E.
  destruct (Qnum x <=? Qnum y)%Z eqn:E1; symmetry; [apply Z.leb_le; apply Z.leb_le in E1; nia | apply Z.leb_gt; apply Z.leb_gt in E1; nia]. Qed.
Lemma qleb_iff x y : qleb x y = true <-> (x <= y)%Q. Proof. rewrite qleb_spec. apply Qle_bool_iff. Qed.
Lemma qleb_total a b : qleb a b = true \/ qleb b a = true.
Proof. rewrite !qleb_iff. destruct (Qlt_le_dec b a) as [H|H]; [right; apply Qlt_le_weak, H | left; exact H]. Qed.
Lemma qleb_trans a b c : qleb a b = true -> qleb b c = true -> qleb a c = true.
Proof. rewrite !qleb_iff. apply Qle_trans. Qed.
Lemma qltb_iff x y : ltb qleb x y = true <-> (x < y)%Q.
Proof. unfold ltb. rewrite negb_true_iff. split; intros H.
  - apply Qnot_le_lt. intros H'. apply qleb_iff in H'. congruence.
  - destruct (qleb y x) eqn:E; [|reflexivity]. apply qleb_iff in E. exfalso. apply (Qlt_not_le _ _ H E). Qed.
Lemma qeqb_iff x y : eqb qleb x y = true <-> (x == y)%Q.
Proof. unfold eqb. rewrite andb_true_iff, !qleb_iff. split; [intros (H1 & H2); apply Qle_antisym; assumption | intros ->; split; apply Qle_refl]. Qed.

Lemma qmax_spec c : c <> [] -> (forall k, k < length c -> (nth k c 0 <= qmax c)%Q) /\ exists k, k < length c /\ qmax c = nth k c 0%Q.
Proof. destruct c as [|a t]; [congruence|]. intros _. unfold qmax. destruct (max_from_spec qleb qleb_total qleb_trans t a) as (H1 & H2 & H3). cbn zeta in *. split.
  - intros [|k] Hk; [apply qleb_iff, H1|]. apply qleb_iff, H2. cbn [nth]. apply nth_In. cbn [length] in Hk. lia.
  - destruct H3 as [->|H3]; [exists 0; split; [cbn; lia | reflexivity]|]. destruct (In_nth _ _ 0%Q H3) as (k & Hk & E). exists (S k). split; [cbn [length]; lia | symmetry; exact E]. Qed.

Lemma pkq_dec (a b : nat * Q) : {a = b} + {a <> b}.
Proof. decide equality; [decide equality; [apply Pos.eq_dec | apply Z.eq_dec] | apply Nat.eq_dec]. Qed.

(* COMA's primary call on a correlation whose global maximum (>= 0) at k0 has lower samples somewhere on both sides:
   the plateau [l, r] of k0 is a local maximum; its midpoint passes the height condition 0.75 * max; after the distance condition a
   peak of maximal height remains that is this midpoint or closer than the distance to it *)
Theorem find_peaks_initial_global_max c d k0 : k0 < length c ->
  (forall k, k < length c -> (nth k c 0 <= nth k0 c 0)%Q) -> (0 <= nth k0 c 0)%Q ->
  (exists a, a < k0 /\ (nth a c 0 < nth k0 c 0)%Q) -> (exists b, k0 < b < length c /\ (nth b c 0 < nth k0 c 0)%Q) ->
  exists l r, l <= k0 <= r /\ is_peak qleb 0%Q c l r /\ (forall k, l <= k <= r -> (nth k c 0 == nth k0 c 0)%Q) /\
    let m := Nat.div2 (l + r) in
    In (m, nth m c 0%Q) (local_maxima qleb c) /\
    exists m' h', In (m', h') (find_peaks_initial c d) /\ h' = nth m' c 0%Q /\ (h' == nth k0 c 0)%Q /\ (m' = m \/ (m' - m < d /\ m - m' < d)).
Proof. intros Hk0 Hmax Hnn Hleft Hright.
  destruct (global_max_peak qleb qleb_total qleb_trans 0%Q c k0 Hk0) as (l & r & Hlr & Hpk & Hplat & Hin).
  { intros k Hk. apply qleb_iff, Hmax, Hk. }
  { destruct Hleft as (a & Ha & H). exists a. split; [exact Ha | apply qltb_iff, H]. }
  { destruct Hright as (b & Hb & H). exists b. split; [exact Hb | apply qltb_iff, H]. }
  exists l, r. split; [exact Hlr|]. split; [exact Hpk|]. split; [intros k Hk; apply qeqb_iff, Hplat, Hk|]. cbv zeta. split; [exact Hin|].
  set (m := Nat.div2 (l + r)) in *.
  assert (Hm : l <= m <= r). { unfold m. replace (l + r) with (l + (l + (r - l))) by lia. rewrite div2_mid. pose proof (div2_le (r - l)). lia. }
  assert (Em : (nth m c 0 == nth k0 c 0)%Q) by (apply qeqb_iff, Hplat, Hm).
  (* the height border *)
  assert (Hqmax : (qmax c == nth k0 c 0)%Q).
  { destruct (qmax_spec c ltac:(intros ->; cbn in Hk0; lia)) as (H1 & k & Hk & E). apply Qle_antisym; [rewrite E; apply Hmax, Hk | apply H1, Hk0]. }
  unfold find_peaks_initial, find_peaks_initial_gen, find_peaks_ord.
  set (p1 := select_height _ (local_maxima qleb c)).
  assert (Hp1 : In (m, nth m c 0%Q) p1).
  { unfold p1. apply select_height_in. split; [exact Hin|]. cbn [snd]. apply qleb_iff. rewrite Hqmax, Em.
    setoid_replace (nth k0 c 0%Q) with (1 * nth k0 c 0)%Q at 2 by ring. apply Qmult_le_compat_r; [discriminate | exact Hnn]. }
  assert (Hs1 : StronglySorted (fun a b : nat * Q => fst a < fst b) p1).
  { apply (SS_Sub _ _ _ (select_height_sub _ _)). apply (local_maxima_sorted qleb). }
  destruct (select_distance_spec qleb qleb_total qleb_trans 0%Q d p1 Hs1) as (Hsub & _ & Hrem). change (select_distance qleb d p1) with (select_distance qleb d p1) in *.
  assert (Hval : forall q, In q p1 -> snd q = nth (fst q) c 0%Q /\ fst q < length c).
  { intros [mq hq] Hq. apply select_height_in in Hq. destruct Hq as (Hq & _).
    destruct (local_maxima_inside qleb qleb_total qleb_trans 0%Q c mq hq Hq) as (_ & H2 & H3 & _). cbn [fst snd]. split; [exact H3 | lia]. }
  destruct (in_dec pkq_dec (m, nth m c 0%Q) (select_distance qleb d p1)) as [Hk|Hk].
  - exists m, (nth m c 0%Q). repeat split; [exact Hk | exact Em | left; reflexivity].
  - destruct (Hrem _ Hp1 Hk) as ([mq hq] & Hq & H1 & H2 & H3). cbn [fst snd] in *. destruct (Hval _ (Sub_in _ _ _ Hsub Hq)) as (Ev & Hlq). cbn [fst snd] in Ev.
    exists mq, hq. repeat split; [exact Hq | exact Ev | | right; split; assumption].
    apply Qle_antisym; [rewrite Ev; apply Hmax, Hlq | rewrite <- Em; apply qleb_iff, H3]. Qed.

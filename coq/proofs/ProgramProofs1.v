(* The capstone, part 1: hypotheses on what the user controls (the rows of the two CMAP files, the command line), what the reader makes of
   such files (the hypotheses of every run-level theorem: references sorted, queries trimmed, distinct ids), and the structure of
   Program.program_files: the data lines of every file are the written lines of the rows of Coordinator's outputs. *)
From Coq Require Import ZArith QArith List Bool Lia String Ascii Sorting.Sorted Sorting.Permutation.
Import ListNotations.
Require Import Py PyProofs Pairing Core Cigar Multi Coordinator Checkers CheckersProofs Cmap Xmap Record Wiring Seeding Program
  CmapProofs CmapProofs2 RecordProofs1 RecordProofs3 XmapProofs1 XmapProofs2
  RunProofs2 RunProofs3 RunRecordProofs1 RunRecordProofs2 RunRecordProofs3 SeedingProofs1.
Open Scope Z_scope.

(* ------------------------------------------------------------------------------------------------ hypotheses on the inputs *)
(* a CMAP file, given the id selection it is read with: every selected molecule that has a label row has an end-marker row (otherwise the
   reader raises: C17_read_err), and no two label rows of one selected molecule carry the same position *)
Definition cmap_ok (ids : list Z) (rows : list cmap_row) : Prop :=
  (forall i, sel ids i -> labels_of rows i <> [] -> markers_of rows i <> []) /\
  (forall i, sel ids i -> NoDup (labels_of rows i)).
(* the command line: unmatchedPenalty <= 0 < minScore *)
Definition cmdline_ok (cl : cmdline) : Prop := a_su (cl_args cl) <= 0 /\ 0 < a_ms (cl_args cl).

Lemma cmdline_params cl : cmdline_ok cl -> SU (make_params (cl_args cl)) <= 0 /\ 0 < MS (make_params (cl_args cl)).
Proof. intros (H1 & H2). unfold make_params. cbn [SU MS]. lia. Qed.

(* a boolean that implies cmap_ok (for concrete files) *)
Fixpoint nodup_zb (l : list Z) : bool := match l with [] => true | x :: t => negb (existsb (Z.eqb x) t) && nodup_zb t end.
Lemma nodup_zb_sound l : nodup_zb l = true -> NoDup l.
Proof. induction l as [|x t IH]; intros H; [constructor|]. cbn [nodup_zb] in H. apply andb_true_iff in H. destruct H as (H1 & H2).
  constructor; [|apply IH, H2]. intros Hin. apply negb_true_iff in H1. assert (E : existsb (Z.eqb x) t = true); [|congruence].
  apply existsb_exists. exists x. split; [exact Hin | apply Z.eqb_refl]. Qed.
Definition cmap_ok_b (ids : list Z) (rows : list cmap_row) : bool :=
  negb (read_err_b rows ids) && forallb (fun i => nodup_zb (labels_of rows i)) (map Cmap.rid rows).
Lemma labels_of_in rows i : labels_of rows i <> [] -> In i (map Cmap.rid rows).
Proof. intros H. apply label_row in H. destruct H as (r & Hr & <- & _). apply in_map. exact Hr. Qed.
Lemma cmap_ok_b_sound ids rows : cmap_ok_b ids rows = true -> cmap_ok ids rows.
Proof. unfold cmap_ok_b. intros H. apply andb_true_iff in H. destruct H as (H1 & H2). split.
  - intros i Hs Hl Hm. apply negb_true_iff in H1. assert (E : read_err_b rows ids = true); [|congruence].
    apply read_err_b_correct. apply read_err. exists i. repeat split; assumption.
  - intros i _. destruct (labels_of rows i) as [|a t] eqn:E; [constructor|]. rewrite <- E. apply nodup_zb_sound.
    rewrite forallb_forall in H2. apply H2. apply labels_of_in. rewrite E. discriminate. Qed.

(* ------------------------------------------------------------------------------------------------ what the reader returns for such a file *)
Lemma sorted_le_nodup_lt l : StronglySorted Z.le l -> NoDup l -> StronglySorted Z.lt l.
Proof. induction 1 as [|x t Ht IH Hx]; intros Hn; constructor; inversion Hn as [|? ? Hnin Hn']; subst; [apply IH, Hn'|].
  rewrite Forall_forall in *. intros y Hy. specialize (Hx y Hy). assert (x <> y) by (intros ->; apply Hnin, Hy). lia. Qed.
Lemma sorted_lt_nodup l : StronglySorted Z.lt l -> NoDup l.
Proof. induction 1 as [|x t Ht IH Hx]; constructor; [|exact IH]. intros Hin. rewrite Forall_forall in Hx. specialize (Hx x Hin). lia. Qed.

(* the maps of a file that is cmap_ok: ids strictly ascending (hence distinct), shift 0, strictly ascending positions, at least one label;
   exactly the selected labelled molecules, with the number of labels the file gives them (read_ok: the C17 characterisation) *)
Theorem read_maps_ok ids rows : cmap_ok ids rows ->
  exists ms, cmap_read rows ids = Ok ms /\ read_ok rows ids ms /\ NoDup (map mid ms) /\
    (forall m, In m ms -> query_read m) /\
    (forall m, In m ms -> sel ids (mid m) /\ nlabels m = Z.of_nat (List.length (labels_of rows (mid m)))).
Proof. intros (Hm & Hd). destruct (read_exact rows ids Hm) as (ms & E & Hok). exists ms. split; [exact E|]. split; [exact Hok|].
  destruct Hok as (Hs & Hi & Hf). split; [apply sorted_lt_nodup, Hs|]. rewrite Forall_forall in Hf.
  assert (Hsel : forall m, In m ms -> sel ids (mid m) /\ labels_of rows (mid m) <> []) by (intros m H; apply Hi, in_map, H).
  split; intros m H; destruct (Hf m H) as (Hle & Hp & _ & Hsh); destruct (Hsel m H) as (Hse & Hne).
  - split; [exact Hsh|]. split.
    + apply sorted_le_nodup_lt; [exact Hle|]. apply (Permutation_NoDup (Permutation_sym Hp)). apply Hd, Hse.
    + intros E0. rewrite E0 in Hp. apply Permutation_nil in Hp. congruence.
  - split; [exact Hse|]. unfold nlabels. rewrite (Permutation_length Hp). reflexivity. Qed.

(* the reader's exact exception case, for the two files of a run (references are read first) *)
Theorem program_read_err cl rr qr :
  program_read cl rr qr = Err <->
  (exists i, sel (cl_rids cl) i /\ labels_of rr i <> [] /\ markers_of rr i = []) \/
  (exists i, sel (cl_qids cl) i /\ labels_of qr i <> [] /\ markers_of qr i = []).
Proof. unfold program_read. split.
  - destruct (cmap_read rr (cl_rids cl)) as [refs|] eqn:Er; [|intros _; left; apply read_err, Er]. cbn [bind].
    destruct (cmap_read qr (cl_qids cl)) as [qs|] eqn:Eq; [discriminate|]. intros _. right. apply read_err, Eq.
  - intros [H|H]; apply read_err in H; rewrite H; [reflexivity|]. destruct (cmap_read rr (cl_rids cl)); reflexivity. Qed.
Lemma program_read_err_files cl rr qr : program_read cl rr qr = Err -> program_files cl rr qr = Err.
Proof. intros H. unfold program_files, program_outputs. rewrite H. reflexivity. Qed.

(* ------------------------------------------------------------------------------------------------ the structure of program_files *)
Lemma program_outputs_of_read cl rr qr refs q0s : cmap_read rr (cl_rids cl) = Ok refs -> cmap_read qr (cl_qids cl) = Ok q0s ->
  program_outputs cl rr qr = program_run (make_params (cl_args cl)) (seeds_model (cl_seed cl)) (cl_mode cl) (K * cl_diff cl) refs (map trim q0s).
Proof. intros E1 E2. unfold program_outputs, program_read. rewrite E1, E2. reflexivity. Qed.
Lemma program_outputs_reads cl rr qr o : program_outputs cl rr qr = Ok o ->
  exists refs q0s, cmap_read rr (cl_rids cl) = Ok refs /\ cmap_read qr (cl_qids cl) = Ok q0s /\
    program_run (make_params (cl_args cl)) (seeds_model (cl_seed cl)) (cl_mode cl) (K * cl_diff cl) refs (map trim q0s) = Ok o.
Proof. unfold program_outputs, program_read. destruct (cmap_read rr (cl_rids cl)) as [refs|]; [|discriminate].
  destruct (cmap_read qr (cl_qids cl)) as [q0s|]; [|discriminate]. cbn [bind fst snd]. intros H. exists refs, q0s. repeat split. exact H. Qed.

Lemma program_files_is_with cl rr qr : program_files cl rr qr = program_files_with (seeds_model (cl_seed cl)) cl rr qr.
Proof. reflexivity. Qed.

(* the rows behind a file name *)
Local Open Scope string_scope.
Definition rows_of_file (o : outputs) (suffix : string) : option (list Multi.row) :=
  if String.eqb suffix "" then Some (o_main o) else if String.eqb suffix "_1" then o_1 o else if String.eqb suffix "_2" then o_2 o else None.

Lemma opt_data_lines_spec sfx ro l : opt_data_lines sfx ro = Ok l ->
  (ro = None /\ l = []) \/ (exists rows lines, ro = Some rows /\ file_data_lines rows = Ok lines /\ l = [(sfx, lines)]).
Proof. destruct ro as [rows|]; cbn [opt_data_lines]; [|intros H; inversion H; left; split; reflexivity].
  destruct (file_data_lines rows) as [lines|] eqn:E; [|discriminate]. cbn [bind]. intros H. inversion H. subst l. right. exists rows, lines. split; [reflexivity|]. split; [exact E | reflexivity]. Qed.

(* every file of the result is the printing of the rows of one output of the run, under its own name; and every output is printed *)
Theorem write_outputs_spec o files : write_outputs o = Ok files ->
  (forall sfx lines, In (sfx, lines) files <-> exists rows, rows_of_file o sfx = Some rows /\ file_data_lines rows = Ok lines) /\
  map fst files = "" :: (match o_1 o with Some _ => ["_1"] | None => [] end) ++ (match o_2 o with Some _ => ["_2"] | None => [] end).
Proof. unfold write_outputs. destruct (opt_data_lines "_1" (o_1 o)) as [f1|] eqn:E1; [|discriminate]. cbn [bind].
  destruct (opt_data_lines "_2" (o_2 o)) as [f2|] eqn:E2; [|discriminate]. cbn [bind].
  destruct (file_data_lines (o_main o)) as [main|] eqn:E0; [|discriminate]. cbn [bind]. intros H. inversion H. subst files. clear H.
  apply opt_data_lines_spec in E1. apply opt_data_lines_spec in E2. split.
  - intros sfx lines. cbn [In]. rewrite in_app_iff. unfold rows_of_file. split.
    + intros [H|[H|H]].
      * inversion H. subst. cbn. exists (o_main o). split; [reflexivity | exact E0].
      * destruct E1 as [(_ & ->)|(rows & ls & Eo & El & ->)]; [destruct H|]. destruct H as [H|[]]. inversion H. subst. cbn. exists rows. split; [exact Eo | exact El].
      * destruct E2 as [(_ & ->)|(rows & ls & Eo & El & ->)]; [destruct H|]. destruct H as [H|[]]. inversion H. subst. cbn. exists rows. split; [exact Eo | exact El].
    + intros (rows & Er & El). destruct (String.eqb sfx "") eqn:B0.
      { apply String.eqb_eq in B0. subst sfx. inversion Er. subst rows. left. congruence. }
      destruct (String.eqb sfx "_1") eqn:B1.
      { apply String.eqb_eq in B1. subst sfx. right. left. destruct E1 as [(En & _)|(rows' & ls & Eo & El' & ->)]; [congruence|].
        left. rewrite Er in Eo. inversion Eo. subst rows'. congruence. }
      destruct (String.eqb sfx "_2") eqn:B2; [|discriminate].
      apply String.eqb_eq in B2. subst sfx. right. right. destruct E2 as [(En & _)|(rows' & ls & Eo & El' & ->)]; [congruence|].
      left. rewrite Er in Eo. inversion Eo. subst rows'. congruence.
  - cbn [map fst]. rewrite map_app. f_equal.
    destruct E1 as [(-> & ->)|(r1 & l1 & -> & _ & ->)]; destruct E2 as [(-> & ->)|(r2 & l2 & -> & _ & ->)]; reflexivity. Qed.

Theorem program_files_spec cl rr qr files : program_files cl rr qr = Ok files ->
  exists o, program_outputs cl rr qr = Ok o /\ write_outputs o = Ok files.
Proof. unfold program_files. destruct (program_outputs cl rr qr) as [o|]; [|discriminate]. cbn [bind]. intros H. exists o. split; [reflexivity | exact H]. Qed.

(* write_outputs succeeds as soon as every file's rows can be printed *)
Lemma write_outputs_ok o : (exists l, file_data_lines (o_main o) = Ok l) -> (exists l, file_data_lines (opt_rows (o_1 o)) = Ok l) ->
  (exists l, file_data_lines (opt_rows (o_2 o)) = Ok l) -> exists files, write_outputs o = Ok files.
Proof. intros (l0 & E0) (l1 & E1) (l2 & E2). unfold write_outputs.
  assert (X1 : exists f, opt_data_lines "_1" (o_1 o) = Ok f).
  { destruct (o_1 o) as [r|]; cbn [opt_data_lines opt_rows] in *; [rewrite E1|]; eexists; reflexivity. }
  assert (X2 : exists f, opt_data_lines "_2" (o_2 o) = Ok f).
  { destruct (o_2 o) as [r|]; cbn [opt_data_lines opt_rows] in *; [rewrite E2|]; eexists; reflexivity. }
  destruct X1 as (f1 & ->). destruct X2 as (f2 & ->). rewrite E0. cbn [bind]. eexists. reflexivity. Qed.

(* ------------------------------------------------------------------------------------------------ rows and their lines *)
(* the k-th data line (0-based) of a file is the printing of its k-th row with XmapEntryID k + 1 *)
Lemma mapM_nth {A B} (f : A -> res B) l : forall ys, mapM f l = Ok ys ->
  List.length ys = List.length l /\ forall k x, nth_error l k = Some x -> exists y, nth_error ys k = Some y /\ f x = Ok y.
Proof. induction l as [|a t IH]; intros ys H; cbn [mapM] in H.
  - inversion H. split; [reflexivity|]. intros [|k] x Hx; discriminate.
  - destruct (f a) as [y|] eqn:Ea; [|discriminate]. cbn [bind] in H. destruct (mapM f t) as [yt|] eqn:Et; [|discriminate]. cbn [bind] in H.
    inversion H. subst ys. destruct (IH yt eq_refl) as (Hl & Hn). split; [cbn; rewrite Hl; reflexivity|].
    intros [|k] x Hx; cbn [nth_error] in *; [inversion Hx; subst; exists y; split; [reflexivity | exact Ea] | apply Hn, Hx]. Qed.
Lemma write_from_nth xs : forall i k x, nth_error xs k = Some x -> nth_error (write_from i xs) k = Some (write_row (i + Z.of_nat k) x).
Proof. induction xs as [|a t IH]; intros i [|k] x H; cbn [nth_error write_from] in *; try discriminate.
  - inversion H. subst. rewrite Z.add_0_r. reflexivity.
  - rewrite (IH (i + 1) k x H). do 2 f_equal. lia. Qed.

Theorem file_lines_rows rows lines : file_data_lines rows = Ok lines ->
  List.length lines = List.length rows /\
  forall k w, nth_error rows k = Some w ->
    exists runs, cigar_runs (site_pairs (rsegs w)) = Ok runs /\ nth_error lines k = Some (write_row (Z.of_nat k + 1) (xrow_of_row w runs)).
Proof. unfold file_data_lines. destruct (mapM xrow_of rows) as [xs|] eqn:E; [|discriminate]. cbn [bind]. intros H. inversion H. subst lines. clear H.
  destruct (mapM_nth xrow_of rows xs E) as (Hl & Hn). unfold xmap_write_lines. split; [rewrite write_from_length; exact Hl|].
  intros k w Hw. destruct (Hn k w Hw) as (x & Hx & Ex). unfold xrow_of in Ex.
  destruct (cigar_runs (site_pairs (rsegs w))) as [runs|]; [|discriminate]. cbn [bind] in Ex. inversion Ex. subst x.
  exists runs. split; [reflexivity|]. rewrite (write_from_nth xs 1 k _ Hx). do 2 f_equal. lia. Qed.

Lemma in_nth_error {A} (l : list A) x : In x l -> exists k, nth_error l k = Some x.
Proof. intros H. apply In_nth_error. exact H. Qed.
Lemma nth_error_len_some {A B} (l : list A) (l' : list B) k y : List.length l = List.length l' -> nth_error l k = Some y -> exists x, nth_error l' k = Some x.
Proof. intros Hl H. destruct (nth_error l' k) as [x|] eqn:E; [exists x; reflexivity|]. apply nth_error_None in E.
  assert (nth_error l k <> None) by congruence. apply nth_error_Some in H0. lia. Qed.

(* every line of a file comes from one of its rows *)
Corollary file_line_row rows lines k line : file_data_lines rows = Ok lines -> nth_error lines k = Some line ->
  exists w runs, nth_error rows k = Some w /\ cigar_runs (site_pairs (rsegs w)) = Ok runs /\ line = write_row (Z.of_nat k + 1) (xrow_of_row w runs).
Proof. intros H Hk. destruct (file_lines_rows rows lines H) as (Hl & Hn). destruct (nth_error_len_some lines rows k line Hl Hk) as (w & Hw).
  destruct (Hn k w Hw) as (runs & Ec & El). exists w, runs. split; [exact Hw|]. split; [exact Ec|]. congruence. Qed.

(* a file that is readable in the sense of RunRecordProofs2 is printed *)
Lemma readable_lines refs q0s rows : file_readable refs q0s rows -> exists l, file_data_lines rows = Ok l.
Proof. intros (xs & E & _). unfold file_data_lines. rewrite E. eexists. reflexivity. Qed.

(* at most one end marker per molecule, as a boolean (for concrete files) *)
Definition markers_le1_b (rows : list cmap_row) : bool := forallb (fun i => (List.length (markers_of rows i) <=? 1)%nat) (map Cmap.rid rows).
Lemma markers_le1_b_sound rows : markers_le1_b rows = true -> forall i, (List.length (markers_of rows i) <= 1)%nat.
Proof. intros H i. destruct (markers_of rows i) as [|a t] eqn:E; [cbn; lia|]. rewrite <- E. unfold markers_le1_b in H. rewrite forallb_forall in H.
  apply Nat.leb_le. apply H. unfold markers_of in E.
  destruct (filter (fun r => (Cmap.rid r =? i)%Z && (rch r =? 0)%Z) rows) as [|r t'] eqn:F; [discriminate|].
  assert (Hin : In r (filter (fun r => (Cmap.rid r =? i)%Z && (rch r =? 0)%Z) rows)) by (rewrite F; left; reflexivity).
  apply filter_In in Hin. destruct Hin as (Hin & Hb). apply andb_true_iff in Hb. destruct Hb as (Hb & _). apply Z.eqb_eq in Hb. subst i. apply in_map, Hin. Qed.

Print Assumptions read_maps_ok.
Print Assumptions write_outputs_spec.
Print Assumptions file_lines_rows.

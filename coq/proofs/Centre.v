From Coq Require Import ZArith Lia.
Require Import Vec.
Open Scope Z_scope.
Ltac Zify.zify_post_hook ::= Z.div_mod_to_equations.
Theorem bin_centre k res start x : 1 <= res -> start + k * res <= x < start + (k + 1) * res ->
  let bp := bin_to_bp k res start in
  start + k * res <= bp < start + (k + 1) * res /\ 2 * Z.abs (bp - x) <= res.
Proof. intros Hres Hx. unfold bin_to_bp. cbn zeta. split; [split|]; lia. Qed.
Print Assumptions bin_centre.

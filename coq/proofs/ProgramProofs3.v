(* The capstone, part 3: C02 (what every field of every record is, from the input files) and C04 (the Confidence column is the configured
   score of what the record reports) through Program.program_files. *)
From Coq Require Import ZArith QArith List Bool Lia String Ascii Sorting.Sorted Sorting.Permutation.
Import ListNotations.
Require Import Py PyProofs Pairing Core Cigar Multi Coordinator Checkers CheckersProofs Cmap Xmap Record Wiring Seeding Program
  CmapProofs CmapProofs2 RecordProofs1 RecordProofs3 RecordProofs4 XmapProofs1 XmapProofs2
  ScoreProofs2 RunProofs2 RunProofs3 RunProofs4 RunRecordProofs1 RunRecordProofs2 RunRecordProofs3 SeedingProofs1 ProgramProofs1 ProgramProofs2.
Open Scope Z_scope.
Local Open Scope string_scope.

(* the k-th data line (0-based) of a file is, field by field, what spec_fields computes from its number, the two molecules AS READ from the
   CMAP files, the strand and the listed pairs (and the row's confidence, HitEnum runs, AlignedRest flag: C04, C03) *)
Definition record_text_ok (refs q0s : list Pairing.omap) (k : nat) (w : Multi.row) (line : string) : Prop :=
  exists reference q0 runs, In reference refs /\ In q0 q0s /\
    valid_row (nlabels reference) 1 (nlabels q0) (rrev w) (site_pairs (rsegs w)) /\
    cigar_runs (site_pairs (rsegs w)) = Ok runs /\ runs <> [] /\
    split_on TAB line = spec_fields (Z.of_nat k + 1) reference q0 (rrev w) (site_pairs (rsegs w)) (conf w) runs (rest w).

Section Program.
Variables (cl : cmdline) (rr qr : list cmap_row).
Hypothesis Hcl : cmdline_ok cl.
Hypothesis Hrr : cmap_ok (cl_rids cl) rr.
Hypothesis Hqr : cmap_ok (cl_qids cl) qr.
Variable files : list (string * list string).
Hypothesis Hfiles : program_files cl rr qr = Ok files.
Let P := make_params (cl_args cl).
Let seeds : seeding := seeds_model (cl_seed cl).

Theorem program_records : exists refs q0s o,
  cmap_read rr (cl_rids cl) = Ok refs /\ cmap_read qr (cl_qids cl) = Ok q0s /\ program_outputs cl rr qr = Ok o /\
  forall sfx lines k line, In (sfx, lines) files -> nth_error lines k = Some line ->
    exists rows w, rows_of_file o sfx = Some rows /\ nth_error rows k = Some w /\
      ((run_record refs q0s w /\ record_text_ok refs q0s k w line) \/
       (sfx = "" /\ cl_mode cl <> Separate /\ exists a b, run_record refs q0s a /\ run_record refs q0s b /\ join_rows a b = Ok w)).
Proof. destruct (files_run cl rr qr Hrr Hqr files Hfiles) as (refs & q0s & o & S & Ho & Hpo & Hw). exists refs, q0s, o.
  split; [apply (su_rread _ _ _ _ _ S)|]. split; [apply (su_qread _ _ _ _ _ S)|]. split; [exact Hpo|].
  pose proof (run_rows_records P seeds refs q0s (cl_Hsu cl Hcl) (cl_Hms cl Hcl) (seeds_model_ok (cl_seed cl) refs) (su_refs _ _ _ _ _ S) (su_q0s _ _ _ _ _ S)
                (cl_mode cl) (K * cl_diff cl) o (su_qid _ _ _ _ _ S) Ho) as Hsh.
  intros sfx lines k line Hin Hk.
  destruct (files_shape (cl_mode cl) o files _ Hw Hsh sfx lines k line Hin Hk) as (rows & w & runs & Er & Hkw & Ec & -> & Hq).
  exists rows, w. split; [exact Er|]. split; [exact Hkw|]. destruct Hq as [Hq|Hq]; [left | right; exact Hq]. split; [exact Hq|].
  destruct (run_record_written refs q0s w (su_refs _ _ _ _ _ S) (su_q0s _ _ _ _ _ S) Hq) as (reference & q0 & runs' & Hr & Hq0 & H). cbv zeta in H.
  destruct H as (_ & Hv & _ & _ & _ & _ & _ & _ & _ & _ & _ & Ec' & Hne & _ & Ht). rewrite Ec in Ec'. inversion Ec'. subst runs'.
  exists reference, q0, runs. repeat (split; [assumption|]). apply Ht. Qed.

(* the Confidence column of a data line: field 9 *)
Theorem program_confidence : exists refs q0s o,
  cmap_read rr (cl_rids cl) = Ok refs /\ cmap_read qr (cl_qids cl) = Ok q0s /\ program_outputs cl rr qr = Ok o /\
  forall sfx lines k line, In (sfx, lines) files -> nth_error lines k = Some line ->
    exists rows w, rows_of_file o sfx = Some rows /\ nth_error rows k = Some w /\
      nth_error (split_on TAB line) 8 = Some (print_hundredths (5 * conf w)) /\
      (scored_run_row P seeds refs (map trim q0s) w \/
       (sfx = "" /\ cl_mode cl <> Separate /\ exists a b, scored_run_row P seeds refs (map trim q0s) a /\ scored_run_row P seeds refs (map trim q0s) b /\
                                              join_rows a b = Ok w /\ conf w = recomputed P (rsegs w))).
Proof. destruct (files_run cl rr qr Hrr Hqr files Hfiles) as (refs & q0s & o & S & Ho & Hpo & Hw). exists refs, q0s, o.
  split; [apply (su_rread _ _ _ _ _ S)|]. split; [apply (su_qread _ _ _ _ _ S)|]. split; [exact Hpo|].
  assert (Hn : NoDup (map mid (map trim q0s))) by (rewrite map_mid_trim; apply (su_qid _ _ _ _ _ S)).
  pose proof (run_rows_scored P seeds refs (map trim q0s) Hn (cl_mode cl) (K * cl_diff cl) o Ho) as Hsh.
  intros sfx lines k line Hin Hk.
  destruct (files_shape (cl_mode cl) o files _ Hw Hsh sfx lines k line Hin Hk) as (rows & w & runs & Er & Hkw & Ec & -> & Hq).
  exists rows, w. split; [exact Er|]. split; [exact Hkw|]. split; [rewrite record_fields; reflexivity|].
  destruct Hq as [Hq|(E0 & Hm & a & b & Ha & Hb & Ej)]; [left; exact Hq|]. right. split; [exact E0|]. split; [exact Hm|]. exists a, b.
  repeat (split; [assumption|]). apply (proj1 (run_joined_scored P seeds refs (map trim q0s) a b w Ha Hb Ej)). Qed.
End Program.

Print Assumptions program_records.
Print Assumptions program_confidence.

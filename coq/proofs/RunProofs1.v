(* Whole-run lift, part 1: facts about ONE Aligner.align call that the run-level theorems need and that were missing.
   A. segments[0] of every row Aligner.align returns is empty or has an aligned pair (strictly ascending maps): the first pair of the
      first chain member is less-on-both-sequences than the first pair of every later chain member (admissible joins start at or
      after the middle of their predecessor), hence outside every conflict region, hence never removed.  This is what
      AlignmentResultRow.resolve needs (startPosition / endPosition of segments[0]).
   B. with a negative maxPairDistance no pair is ever built: every row is pair-less (and dropped by execute).
   C. the labels of every pair of a returned row are labels of the two maps (numbers within 1+shift .. n+shift). *)
From Coq Require Import ZArith QArith List Bool Lia Sorting.Sorted Sorting.Permutation.
Import ListNotations.
Require Import Py PyProofs Pairing Core Multi DPProofs ChainCore ConflictProofs
  ResolverProofs1 ResolverProofs2 ResolverProofs3 ResolverProofs4 ResolverProofs5 ResolverProofs6 ResolverProofs7 ResolverProofs8 ResolverProofs9
  ResolverProofs10 ResolverProofs14 TotalProofs1 TotalProofs2 RowProofs RowProofs2 ScoreProofs1.
Open Scope Z_scope.

(* ------------------------------------------------------------------------------------------------ A. segments[0] *)
Lemma Sub_single {A} (l : list A) x : Sub l [x] -> l = [] \/ l = [x].
Proof. intros H. inversion H as [|? c ? Hc|? ? ? Hc]; subst; [left; reflexivity | | ].
  - apply Sub_nil_inv in Hc. subst. right. reflexivity.
  - apply Sub_nil_inv in Hc. subst. left. reflexivity. Qed.

Lemma in_has_pair_defined s p : In p (positions s) -> is_pair p = true -> seg_defined s.
Proof. intros Hp Hpp _ E. assert (H : In p (aligned s)) by (apply filter_In; split; assumption). rewrite E in H. destruct H. Qed.

Lemma empty_defined s : positions s = [] -> seg_defined s.
Proof. intros E. unfold seg_defined, seg_empty. rewrite E. discriminate. Qed.

Lemma Forall2_head {A B} (R : A -> B -> Prop) l x t : Forall2 R l (x :: t) -> exists c l', l = c :: l' /\ R c x.
Proof. intros H. inversion H; subst. eauto. Qed.

Section Head.
Variables (dir : Z) (P : params) (segs out : list segment).
Hypothesis Hcwf : forall s, In s segs -> cwf dir s.
Hypothesis Hends : forall s, In s segs -> first_is_pair (positions s) /\ last_is_pair (positions s).
Hypothesis Hres : resolve_conflicts P segs = Ok out.

Theorem resolve_conflicts_head_defined s0 t : out = s0 :: t -> seg_defined s0.
Proof.
  intros Eout.
  destruct (resolve_conflicts_cases P segs out Hres) as [(_ & E)|(pre & sel & Hperm & Hsub & Hadm & Hne & Hch & Hloop)].
  { apply first_pair_defined. apply Hends. rewrite <- E, Eout. left. reflexivity. }
  destruct (sel_facts dir P segs Hcwf pre sel Hperm Hsub Hch) as (Hin & Hsel & Hidx). set (ch := sel ++ filter seg_empty segs) in *.
  assert (Hwf : Forall (seg_wf0 dir) ch).
  { rewrite Forall_forall. intros c Hc. destruct (Hcwf c (Hin c Hc)) as (H1 & H2 & _). split; assumption. }
  pose proof (resolve_loop_derived dir ch out Hwf Hloop) as HD. rewrite Eout in HD.
  destruct (Forall2_head _ _ _ _ HD) as (c0 & ch' & Ech & D0).
  destruct sel as [|c0' sel'].
  - (* no non-empty member: the head is one of the empty segments *)
    assert (Hc0 : In c0 (filter seg_empty segs)) by (unfold ch in Ech; cbn [app] in Ech; rewrite Ech; left; reflexivity).
    apply filter_In in Hc0. destruct Hc0 as (_ & He). unfold seg_empty in He. destruct (positions c0) eqn:Ep; [|discriminate].
    apply empty_defined. pose proof (dv_sub _ _ D0) as Hs. rewrite Ep in Hs. apply Sub_nil_inv in Hs. exact Hs.
  - assert (c0' = c0) by (unfold ch in Ech; cbn [app] in Ech; congruence). subst c0'.
    destruct (Hsel c0 (or_introl eq_refl)) as (Hord0 & Hp0).
    assert (Hc0in : In c0 ch) by (rewrite Ech; left; reflexivity).
    destruct (Hends c0 (Hin c0 Hc0in)) as (Hf0 & Hl0).
    pose proof (has_pairs_nonempty c0 Hp0) as Hne0. unfold seg_empty in Hne0.
    destruct (positions c0) as [|p0 R] eqn:Ep0; [discriminate|]. unfold first_is_pair in Hf0.
    destruct R as [|p1 R'].
    + (* a single position: the head of the result is that position or nothing *)
      pose proof (dv_sub _ _ D0) as Hs. rewrite Ep0 in Hs. destruct (Sub_single _ _ Hs) as [E|E]; [apply empty_defined; exact E|].
      apply (in_has_pair_defined s0 p0); [rewrite E; left; reflexivity | exact Hf0].
    + (* at least two positions: first pair p0, last pair pe, p0 strictly before pe *)
      destruct (last_split (p0 :: p1 :: R')) as (K0 & pe & EK & Hpe); [exact Hl0 | discriminate|].
      assert (Hbefore : before dir p0 pe).
      { destruct K0 as [|k0 K0']; [discriminate|]. cbn [app] in EK. injection EK as <- EK'.
        unfold seg_ord in Hord0. apply (SS_cons_inv _ _ _ Hord0). rewrite EK'. apply in_or_app. right. left. reflexivity. }
      pose proof (before_pv_lt dir p0 pe Hbefore Hf0 Hpe) as (L1 & L2).
      assert (Hs0 : start_position c0 = Ok (pv_of p0)) by (apply (start_position_cons c0 p0 (p1 :: R') Ep0 Hf0)).
      assert (He0 : end_position c0 = Ok (pv_of pe)) by (apply (end_position_snoc c0 K0 pe); [rewrite Ep0; exact EK | exact Hpe]).
      apply (in_has_pair_defined s0 p0); [|exact Hf0].
      assert (Hloop' : resolve_loop (length ch) 0 ch [] = Ok (s0 :: t)) by (rewrite <- Eout; exact Hloop).
      apply (resolve_loop_keeps_outside dir ch (s0 :: t) Hwf Hloop' 0%nat c0 s0 p0);
        [rewrite Ech; reflexivity | reflexivity | rewrite Ep0; left; reflexivity | exact Hf0 |].
      split; [|intros j s ce Hj; lia].
      intros j s cs Hj Hs Hcs Hps. pose proof (Hidx j s Hs Hps) as Hsj.
      destruct j as [|j]; [lia|].
      destruct (nth_error (c0 :: sel') 1) as [v|] eqn:Hv;
        [|apply nth_error_None in Hv; assert (S j < length (c0 :: sel'))%nat by (apply nth_error_Some; congruence); cbn [length] in *; lia].
      destruct (Hsel v (nth_error_In _ _ Hv)) as (Hov & Hpv).
      destruct (has_pairs_start v Hpv) as (sv & Hsv). destruct (has_pairs_end v Hpv) as (ev & Hev).
      assert (Hadj : admissible P c0 v) by (apply (adjacent_nth _ _ Hadm 0%nat c0 v); [reflexivity | exact Hv]).
      assert (Hord0' : seg_ord dir (positions c0)) by (rewrite Ep0; exact Hord0).
      destruct (admissible_geom dir P c0 v _ _ sv ev Hadj Hord0' Hov Hp0 Hpv Hs0 He0 Hsv Hev) as (_ & G1 & G2).
      assert (Hle : pv_le sv cs).
      { apply (chain_starts_ascend dir P (c0 :: sel') Hsel Hadm j 1%nat v s sv cs Hv); [replace (j + 1)%nat with (S j) by lia; exact Hsj | exact Hsv | exact Hcs]. }
      destruct Hle as (M1 & M2).
      unfold less_both. unfold is_pair in Hf0. unfold pv_of in *. destruct (ap p0) as [r q sh src| |]; try discriminate.
      unfold pv_less_both. cbn [isnull pq pr] in *. apply andb_true_iff. split; apply Z.ltb_lt; lia.
Qed.
End Head.

(* Aligner.align on strictly ascending maps: segments[0] of the result is empty or has an aligned pair *)
Theorem aligner_head_defined P it reference query peaks reverse out s0 t : engine_ok P reference query ->
  aligner_align P it reference query peaks reverse = Ok out -> out = s0 :: t -> seg_defined s0.
Proof.
  intros (Hd & Hms & Hsu & HR & HQ) H. unfold aligner_align in H.
  apply (resolve_conflicts_head_defined (strand reverse) P (segs_for_peaks P it reference query peaks reverse) out); [| |exact H].
  - intros s Hs. apply (segs_for_peaks_wf P reference query reverse Hd Hms Hsu HR HQ peaks it s Hs).
  - intros s Hs. apply (aligner_segments_ends P it reference query peaks reverse s Hsu Hms Hs).
Qed.

(* ------------------------------------------------------------------------------------------------ B. negative maxPairDistance *)
Lemma takewhile_dropwhile_nil {A} (f g : A -> bool) l : (forall x, In x l -> g x = false -> f x = false) -> takewhile f (dropwhile g l) = [].
Proof. induction l as [|x t IH]; intros H; [reflexivity|]. cbn [dropwhile]. destruct (g x) eqn:E.
  - apply IH. intros y Hy. apply H. right. exact Hy.
  - cbn [takewhile]. rewrite (H x (or_introl eq_refl) E). reflexivity. Qed.

Lemma in_firstn_skipn_l {A} (x : A) n sh l : In x (firstn n (skipn sh l)) -> In x l.
Proof. intros H. rewrite <- (firstn_skipn sh l). apply in_or_app. right.
  rewrite <- (firstn_skipn n (skipn sh l)). apply in_or_app. left. exact H. Qed.

Lemma aligned_pairs_neg d refs qrys start : d < 0 -> aligned_pairs d refs qrys start = [].
Proof. intros Hd. unfold aligned_pairs. induction refs as [|r t IH]; [reflexivity|]. cbn [flat_map]. rewrite IH, app_nil_r.
  rewrite takewhile_dropwhile_nil; [reflexivity|]. intros q _ H. apply Z.ltb_ge in H. apply Z.leb_gt. lia. Qed.

Lemma engine_neg_no_pair d it reference query start stop reverse x : d < 0 ->
  In x (align_engine d it reference query start stop reverse) -> match x with Pair _ _ _ _ => False | _ => True end.
Proof. intros Hd H. unfold align_engine in H. rewrite (aligned_pairs_neg d _ _ start Hd) in H. apply sort_by_in in H.
  cbn in H. apply in_app_or in H. destruct H as [H|H]; apply in_map_iff in H; destruct H as (y & <- & _); exact I. Qed.

Lemma segs_neg_empty P reference query reverse : SU P <= 0 -> 0 < MS P -> DMAX P < 0 ->
  forall peaks it s, In s (segs_for_peaks P it reference query peaks reverse) -> positions s = [].
Proof.
  intros Hsu Hms Hd peaks it s Hs. destruct (aligner_segments_ends P it reference query peaks reverse s Hsu Hms Hs) as (Hf & _).
  destruct (TotalProofs1.segs_for_peaks_in _ _ _ _ _ _ _ Hs) as (it' & peak & Hs'). unfold get_segments_for_peak in Hs'.
  destruct (get_segments_subrun P _ peak s Hs') as (i & n & E).
  destruct (positions s) as [|p r] eqn:Ep; [reflexivity|]. exfalso. unfold first_is_pair in Hf.
  assert (Hin : In p (map (score_pos P) (align_engine (DMAX P) it' reference query peak (peak + mlen query) reverse))).
  { eapply in_firstn_skipn_l. rewrite <- E. left. reflexivity. }
  apply in_map_iff in Hin. destruct Hin as (x & <- & Hx). apply (engine_neg_no_pair _ _ _ _ _ _ _ x Hd) in Hx.
  destruct x; [exact Hx | discriminate Hf | discriminate Hf].
Qed.

Theorem aligner_neg_no_pairs P it reference query peaks reverse out : SU P <= 0 -> 0 < MS P -> DMAX P < 0 ->
  aligner_align P it reference query peaks reverse = Ok out -> row_pairs out = [].
Proof.
  intros Hsu Hms Hd H. unfold aligner_align in H. set (segs := segs_for_peaks P it reference query peaks reverse) in *.
  assert (Hemp : forall s, In s segs -> positions s = []) by (intros s Hs; apply (segs_neg_empty P reference query reverse Hsu Hms Hd peaks it s Hs)).
  assert (Hwf : Forall (seg_wf0 1) segs).
  { rewrite Forall_forall. intros s Hs. pose proof (Hemp s Hs) as E. split; [unfold seg_ord; rewrite E; constructor|].
    apply (factory_segments_run P it reference query peaks reverse s Hs). }
  assert (Hout : forall s, In s out -> positions s = []).
  { destruct (resolve_conflicts_derived 1 P segs out Hwf H) as [(_ & ->)|(pre & sel & _ & _ & _ & _ & Hch & HD)]; [exact Hemp|].
    intros s Hs. destruct (Forall2_in_r _ _ _ s HD Hs) as (c & Hc & D). pose proof (dv_sub _ _ D) as Hsub.
    rewrite (Hemp c (chain_in P segs _ Hch c Hc)) in Hsub. apply Sub_nil_inv in Hsub. exact Hsub. }
  unfold row_pairs. clear - Hout. induction out as [|s t IH]; [reflexivity|]. cbn [flat_map].
  rewrite IH by (intros s' Hs'; apply Hout; right; exact Hs'). unfold aligned. rewrite (Hout s (or_introl eq_refl)). reflexivity.
Qed.

(* ------------------------------------------------------------------------------------------------ C. labels of the pairs *)
(* every pair of the result carries a label of the reference and a label of the query as getPositionsWithSiteIds numbers them *)
Theorem aligner_pair_labels P it reference query peaks reverse out p : engine_ok P reference query ->
  aligner_align P it reference query peaks reverse = Ok out -> In p (row_pairs out) ->
  exists r q sh src, ap p = Pair r q sh src /\ In r (ref_labels reference) /\ In q (qry_labels query reverse).
Proof.
  intros Hok H Hp. pose proof Hok as (Hd & Hms & Hsu & HR & HQ).
  unfold row_pairs in Hp. apply in_flat_map in Hp. destruct Hp as (s & Hs & Hp). unfold aligned in Hp. apply filter_In in Hp. destruct Hp as (Hp & Hpp).
  destruct (out_positions_from_inputs P it reference query peaks reverse out Hok H s Hs) as (c & Hc & Hsub).
  destruct (segs_for_peaks_wf P reference query reverse Hd Hms Hsu HR HQ peaks it c Hc) as (_ & Hlab & _).
  destruct (Hlab p (Sub_in _ _ _ Hsub Hp)) as (Lr & Lq). unfold is_pair in Hpp. unfold rlab, qlab in *.
  destruct (ap p) as [r q sh src| |]; try discriminate. exists r, q, sh, src. split; [reflexivity|]. split; [apply Lr | apply Lq]; reflexivity.
Qed.
Print Assumptions aligner_head_defined.
Print Assumptions aligner_neg_no_pairs.
Print Assumptions aligner_pair_labels.

(* C13: from index ranges to the segments get_segments returns *)
From Coq Require Import ZArith QArith List Bool Lia Sorting.Sorted.
Import ListNotations.
Require Import Py Pairing Core Psum FacProofs.
Open Scope Z_scope.

Lemma sum_scores_acc l : forall a, fold_left (fun a p => a + sc p) l a = a + lsum (map sc l).
Proof. induction l as [|x t IH]; intros a; cbn [fold_left map lsum fold_right]; [lia|]. rewrite IH. unfold lsum. lia. Qed.
Lemma sum_scores_lsum l : sum_scores l = lsum (map sc l).
Proof. unfold sum_scores. rewrite sum_scores_acc. lia. Qed.
Lemma sum_scores_psum ps a b : sum_scores (firstn (b - a) (skipn a ps)) = psum (map sc ps) a b.
Proof. rewrite sum_scores_lsum. unfold psum. rewrite skipn_map, firstn_map. reflexivity. Qed.

Definition seg_of_range (ps : list spos) (peak : Z) (r : nat * nat * Z) : segment :=
  seg_create (firstn (rB r - rA r) (skipn (rA r) ps)) peak.

Lemma get_segments_ranges P ps peak :
  get_segments P ps peak =
  match factory_ranges (MS P) (BS P) (map sc ps) with
  | [] => [seg_create [] peak]
  | rs => map (seg_of_range ps peak) rs
  end.
Proof.
  unfold get_segments. destruct (factory_ranges (MS P) (BS P) (map sc ps)) as [|r rs]; [reflexivity|].
  apply map_ext. intros [[a b] x]. reflexivity.
Qed.

(* every returned non-empty segment is the sub-run of its range, its score the range's sum, the same peak *)
Lemma segment_of_range_score P ps peak r : 0 < MS P -> In r (factory_ranges (MS P) (BS P) (map sc ps)) ->
  sscore (seg_of_range ps peak r) = rX r /\ speak (seg_of_range ps peak r) = peak /\
  positions (seg_of_range ps peak r) = firstn (rB r - rA r) (skipn (rA r) ps) /\ positions (seg_of_range ps peak r) <> [].
Proof.
  intros Hms Hin. destruct (factory_spec (MS P) (BS P) Hms (map sc ps)) as (Hok & _ & _).
  rewrite Forall_forall in Hok. destruct (Hok r Hin) as (Hab & Hx & _).
  unfold seg_of_range, seg_create. cbn [sscore speak positions]. rewrite sum_scores_psum. split; [symmetry; exact Hx|].
  split; [reflexivity|]. split; [reflexivity|]. rewrite map_length in Hab. intros E.
  assert (L : length (firstn (rB r - rA r) (skipn (rA r) ps)) = 0%nat) by (rewrite E; reflexivity).
  rewrite firstn_length, skipn_length in L. lia.
Qed.

Lemma empty_iff P ps peak : 0 < MS P ->
  (factory_ranges (MS P) (BS P) (map sc ps) = [] <-> get_segments P ps peak = [seg_create [] peak]).
Proof.
  intros Hms. rewrite get_segments_ranges. split; [intros ->; reflexivity|].
  destruct (factory_ranges (MS P) (BS P) (map sc ps)) as [|r rs] eqn:E; [reflexivity|]. intros H. exfalso.
  assert (Hin : In r (factory_ranges (MS P) (BS P) (map sc ps))) by (rewrite E; left; reflexivity).
  destruct (segment_of_range_score P ps peak r Hms Hin) as (_ & _ & _ & Hne).
  cbn [map] in H. apply Hne.
  change (positions (hd (seg_create [] peak) (seg_of_range ps peak r :: map (seg_of_range ps peak) rs)) = []). rewrite H. reflexivity.
Qed.

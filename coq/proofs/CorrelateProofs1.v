(* Exact 'valid' cross-correlation of 0/1 vectors (model/Correlate.v): entry formula, bounds, the covered lag is a global
   maximum, the normalising factor, the normalised correlation is at most 1 with equality exactly on an identical window. *)
From Coq Require Import ZArith QArith List Bool Lia.
Import ListNotations.
Require Import Py Vec Peaks Correlate BlurProofs.
Open Scope Z_scope.

Definition is01 (v : list Z) : Prop := Forall (fun b => b = 0 \/ b = 1) v.
(* sum_{i<n} f i *)
Fixpoint sumn (f : nat -> Z) (n : nat) : Z := match n with O => 0 | S m => sumn f m + f m end.
(* the m entries of ref from index k on *)
Definition window (ref : list Z) (k m : nat) : list Z := firstn m (skipn k ref).
(* q placed at lag k is covered by ref: every 1-bit of q meets a 1-bit of ref *)
Definition covers (ref q : list Z) (k : nat) : Prop := forall i, (i < length q)%nat -> nth i q 0 = 1 -> nth (k + i) ref 0 = 1.

Lemma is01_cons x v : is01 (x :: v) <-> (x = 0 \/ x = 1) /\ is01 v.
Proof. unfold is01. split; [intros H; inversion H; subst; split; assumption | intros (H1 & H2); constructor; assumption]. Qed.
Lemma is01_nth v i : is01 v -> nth i v 0 = 0 \/ nth i v 0 = 1.
Proof. intros H. destruct (Nat.lt_ge_cases i (length v)) as [L|L]; [|left; apply nth_overflow; exact L].
  unfold is01 in H. rewrite Forall_forall in H. apply H, nth_In, L. Qed.
Lemma is01_skipn k v : is01 v -> is01 (skipn k v).
Proof. unfold is01. rewrite !Forall_forall. intros H x Hx. apply H. rewrite <- (firstn_skipn k v). apply in_or_app. right. exact Hx. Qed.
Lemma is01_firstn k v : is01 v -> is01 (firstn k v).
Proof. unfold is01. rewrite !Forall_forall. intros H x Hx. apply H. rewrite <- (firstn_skipn k v). apply in_or_app. left. exact Hx. Qed.
Lemma is01_rev v : is01 v -> is01 (rev v).
Proof. unfold is01. rewrite !Forall_forall. intros H x Hx. apply H, in_rev, Hx. Qed.
Lemma is01_repeat1 m : is01 (repeat 1 m).
Proof. unfold is01. rewrite Forall_forall. intros x Hx. apply repeat_spec in Hx. right. exact Hx. Qed.
Lemma vsum_nonneg v : is01 v -> 0 <= vsum v.
Proof. induction v as [|x v IH]; intros H; cbn [vsum fold_right]; [lia|]. apply is01_cons in H. destruct H as (Hx & Hv). specialize (IH Hv). unfold vsum in IH. lia. Qed.
Lemma vsum_cons x v : vsum (x :: v) = x + vsum v. Proof. reflexivity. Qed.

(* ---- dot ---- *)
Lemma sumn_ext f g n : (forall i, (i < n)%nat -> f i = g i) -> sumn f n = sumn g n.
Proof. induction n as [|n IH]; intros H; [reflexivity|]. cbn [sumn]. rewrite IH by (intros i Hi; apply H; lia). rewrite H by lia. reflexivity. Qed.
Lemma sumn_shift f n : sumn f (S n) = f O + sumn (fun i => f (S i)) n.
Proof. induction n as [|n IH]; [cbn; lia|]. cbn [sumn] in *. rewrite IH. lia. Qed.
Lemma sumn_zero n : sumn (fun _ => 0) n = 0.
Proof. induction n as [|n IH]; [reflexivity | cbn [sumn]; lia]. Qed.
Lemma dot_nil_r a : dot a [] = 0. Proof. destruct a; reflexivity. Qed.
Lemma dot_sum b : forall a, dot a b = sumn (fun i => nth i a 0 * nth i b 0) (length b).
Proof. induction b as [|y b IH]; intros a; [apply dot_nil_r|]. cbn [length]. rewrite sumn_shift. destruct a as [|x a].
  - cbn [dot nth]. rewrite (sumn_ext _ (fun _ => 0)) by (intros i _; destruct i; reflexivity).
    rewrite sumn_zero. reflexivity.
  - cbn [dot nth]. rewrite IH. reflexivity. Qed.

Lemma dot_bounds b : forall a, is01 a -> is01 b -> 0 <= dot a b /\ dot a b <= vsum b /\ dot a b <= vsum (firstn (length b) a).
Proof. induction b as [|y b IH]; intros a Ha Hb; [rewrite dot_nil_r; cbn; lia|]. destruct a as [|x a]; cbn [dot length firstn].
  - pose proof (vsum_nonneg _ Hb). change (vsum []) with 0. lia.
  - apply is01_cons in Ha, Hb. destruct Ha as (Hx & Ha), Hb as (Hy & Hb). destruct (IH a Ha Hb) as (I1 & I2 & I3). rewrite !vsum_cons. nia. Qed.
Lemma dot_covered b : forall a, is01 b -> (forall i, (i < length b)%nat -> nth i b 0 = 1 -> nth i a 0 = 1) -> dot a b = vsum b.
Proof. induction b as [|y b IH]; intros a Hb Hc; [apply dot_nil_r|]. apply is01_cons in Hb. destruct Hb as (Hy & Hb). destruct a as [|x a].
  - cbn [dot]. rewrite vsum_cons. assert (Hy0 : y = 0) by (destruct Hy as [?|Hy1]; [assumption | specialize (Hc O ltac:(cbn; lia) Hy1); cbn in Hc; lia]).
    subst y. assert (Hz : forall i, (i < length b)%nat -> nth i b 0 = 1 -> nth i (@nil Z) 0 = 1) by (intros i Hi H1; specialize (Hc (S i) ltac:(cbn; lia) H1); destruct i; exact Hc).
    rewrite <- (IH [] Hb Hz). destruct b; reflexivity.
  - cbn [dot]. rewrite vsum_cons. rewrite (IH a Hb) by (intros i Hi H1; exact (Hc (S i) ltac:(cbn; lia) H1)).
    destruct Hy as [->| ->]; [lia|]. pose proof (Hc O ltac:(cbn; lia) eq_refl) as Hx. cbn in Hx. lia. Qed.
Lemma dot_max_covered b : forall a, is01 a -> is01 b -> dot a b = vsum b -> forall i, (i < length b)%nat -> nth i b 0 = 1 -> nth i a 0 = 1.
Proof. induction b as [|y b IH]; intros a Ha Hb He i Hi H1; [cbn in Hi; lia|]. apply is01_cons in Hb. destruct Hb as (Hy & Hb). destruct a as [|x a].
  - cbn [dot] in He. rewrite vsum_cons in He. pose proof (vsum_nonneg _ Hb). assert (y = 0) by lia. subst y.
    destruct i as [|i]; [cbn in H1; lia|]. cbn [nth] in H1.
    assert (E : dot [] b = vsum b) by (replace (dot [] b) with 0 by (destruct b; reflexivity); lia).
    pose proof (IH [] Ha Hb E i ltac:(cbn in Hi; lia) H1) as G. destruct i; exact G.
  - apply is01_cons in Ha. destruct Ha as (Hx & Ha). cbn [dot] in He. rewrite vsum_cons in He.
    destruct (dot_bounds b a Ha Hb) as (_ & I2 & _).
    destruct i as [|i]; cbn [nth] in *; [subst y; nia|]. apply (IH a Ha Hb); [nia | cbn in Hi; lia | exact H1]. Qed.
Lemma dot_self b : is01 b -> dot b b = vsum b.
Proof. intros Hb. apply dot_covered; [exact Hb | intros i _ H; exact H]. Qed.
Lemma dot_firstn b : forall a, dot (firstn (length b) a) b = dot a b.
Proof. induction b as [|y b IH]; intros a; [rewrite !dot_nil_r; reflexivity|]. destruct a as [|x a]; [reflexivity|]. cbn [length firstn dot]. rewrite IH. reflexivity. Qed.
Lemma dot_both_window b : forall a, is01 a -> is01 b -> (length b <= length a)%nat ->
  dot a b = vsum b -> dot a b = vsum (firstn (length b) a) -> firstn (length b) a = b.
Proof. induction b as [|y b IH]; intros a Ha Hb Hl E1 E2; [reflexivity|]. destruct a as [|x a]; [cbn in Hl; lia|].
  apply is01_cons in Ha, Hb. destruct Ha as (Hx & Ha), Hb as (Hy & Hb). cbn [length firstn dot] in *. rewrite vsum_cons in E1, E2.
  destruct (dot_bounds b a Ha Hb) as (_ & I2 & I3). f_equal; [nia|]. apply IH; try assumption; [lia | nia | nia]. Qed.
Lemma dot_ones m : forall a, dot a (repeat 1 m) = vsum (firstn m a).
Proof. induction m as [|m IH]; intros a; [apply dot_nil_r|]. destruct a as [|x a]; [reflexivity|]. cbn [repeat dot firstn]. rewrite vsum_cons, IH. lia. Qed.
(* monotone in the query: fewer 1-bits, smaller value *)
Lemma dot_mono b : forall b' a, is01 a -> is01 b -> is01 b' -> length b = length b' ->
  (forall i, nth i b 0 = 1 -> nth i b' 0 = 1) -> dot a b <= dot a b'.
Proof. induction b as [|y b IH]; intros b' a Ha Hb Hb' Hl Hs; [rewrite dot_nil_r; apply (dot_bounds b' a Ha Hb')|].
  destruct b' as [|y' b']; [discriminate Hl|]. destruct a as [|x a]; [cbn; lia|].
  apply is01_cons in Ha, Hb, Hb'. destruct Ha as (Hx & Ha), Hb as (Hy & Hb), Hb' as (Hy' & Hb'). cbn [dot].
  assert (I := IH b' a Ha Hb Hb' ltac:(cbn in Hl; lia) ltac:(intros i Hi; exact (Hs (S i) Hi))).
  pose proof (Hs O) as H0. cbn [nth] in H0. nia. Qed.

(* ---- xcorr ---- *)
Lemma xcorr_loop_length n : forall ref q, length (xcorr_loop n ref q) = n.
Proof. induction n as [|n IH]; intros ref q; [reflexivity|]. cbn [xcorr_loop length]. rewrite IH. reflexivity. Qed.
Lemma skipn_S_tl {A} k (l : list A) : skipn (S k) l = skipn k (tl l).
Proof. destruct l; [destruct k; reflexivity | reflexivity]. Qed.
Lemma xcorr_loop_nth n : forall ref q k, (k < n)%nat -> nth k (xcorr_loop n ref q) 0 = dot (skipn k ref) q.
Proof. induction n as [|n IH]; intros ref q k Hk; [lia|]. cbn [xcorr_loop]. destruct k as [|k]; [reflexivity|].
  cbn [nth]. rewrite IH by lia. rewrite skipn_S_tl. reflexivity. Qed.

Theorem xcorr_length ref q : length (xcorr ref q) = (length ref - length q + 1)%nat.
Proof. apply xcorr_loop_length. Qed.
Theorem xcorr_nth ref q k : (k <= length ref - length q)%nat -> nth k (xcorr ref q) 0 = dot (skipn k ref) q.
Proof. intros Hk. apply xcorr_loop_nth. lia. Qed.
(* entry k = sum_i ref[k+i] * q[i] *)
Theorem xcorr_entry ref q k : (k <= length ref - length q)%nat ->
  nth k (xcorr ref q) 0 = sumn (fun i => nth (k + i) ref 0 * nth i q 0) (length q).
Proof. intros Hk. rewrite xcorr_nth by exact Hk. rewrite dot_sum. apply sumn_ext. intros i _. rewrite nth_skipn'. reflexivity. Qed.

Theorem xcorr_bounds ref q k : is01 ref -> is01 q -> (k <= length ref - length q)%nat ->
  0 <= nth k (xcorr ref q) 0 /\ nth k (xcorr ref q) 0 <= vsum q /\ nth k (xcorr ref q) 0 <= vsum (window ref k (length q)).
Proof. intros Hr Hq Hk. rewrite xcorr_nth by exact Hk. exact (dot_bounds q (skipn k ref) (is01_skipn k ref Hr) Hq). Qed.

(* the value vsum q (every 1-bit of the query met) is reached exactly at the covered lags *)
Theorem xcorr_max_iff ref q k : is01 ref -> is01 q -> (k <= length ref - length q)%nat ->
  (nth k (xcorr ref q) 0 = vsum q <-> covers ref q k).
Proof. intros Hr Hq Hk. rewrite xcorr_nth by exact Hk. unfold covers. split.
  - intros E i Hi H1. rewrite <- nth_skipn'. exact (dot_max_covered q (skipn k ref) (is01_skipn k ref Hr) Hq E i Hi H1).
  - intros Hc. apply dot_covered; [exact Hq|]. intros i Hi H1. rewrite nth_skipn'. exact (Hc i Hi H1). Qed.

Theorem xcorr_covered_is_max ref q k0 : is01 ref -> is01 q -> (k0 <= length ref - length q)%nat -> covers ref q k0 ->
  nth k0 (xcorr ref q) 0 = vsum q /\
  forall k, (k <= length ref - length q)%nat -> nth k (xcorr ref q) 0 <= nth k0 (xcorr ref q) 0.
Proof. intros Hr Hq Hk Hc. assert (E : nth k0 (xcorr ref q) 0 = vsum q) by (apply xcorr_max_iff; assumption).
  split; [exact E|]. intros k Hk'. rewrite E. apply (xcorr_bounds ref q k Hr Hq Hk'). Qed.

(* a query with fewer 1-bits (bitwise) correlates lower, lag by lag *)
Theorem xcorr_mono ref q q' k : is01 ref -> is01 q -> is01 q' -> length q = length q' ->
  (forall i, nth i q 0 = 1 -> nth i q' 0 = 1) -> (k <= length ref - length q)%nat ->
  nth k (xcorr ref q) 0 <= nth k (xcorr ref q') 0.
Proof. intros Hr Hq Hq' Hl Hs Hk. rewrite !xcorr_nth by lia. apply dot_mono; try assumption. apply is01_skipn, Hr. Qed.

(* ---- the normalising factor ---- *)
Lemma nth_map_in {A} (f : A -> Z) l k d : (k < length l)%nat -> nth k (map f l) 0 = f (nth k l d).
Proof. intros H. rewrite (nth_indep _ 0 (f d)) by (rewrite map_length; exact H). apply map_nth. Qed.
Theorem norm2_length ref q : length (norm2 ref q) = (length ref - length q + 1)%nat.
Proof. unfold norm2. rewrite map_length, xcorr_length, repeat_length. reflexivity. Qed.
(* twice the normalising factor at lag k = 1-bits of the reference window + 1-bits of the query *)
Theorem norm2_nth ref q k : (k <= length ref - length q)%nat -> nth k (norm2 ref q) 0 = vsum (window ref k (length q)) + vsum q.
Proof. intros Hk. unfold norm2. rewrite (nth_map_in _ _ _ 0) by (rewrite xcorr_length, repeat_length; lia).
  rewrite xcorr_nth by (rewrite repeat_length; exact Hk). rewrite dot_ones. reflexivity. Qed.

Lemma window_length ref k m : (k + m <= length ref)%nat -> length (window ref k m) = m.
Proof. intros H. unfold window. rewrite firstn_length, skipn_length. lia. Qed.

(* 2 * correlation <= 2 * normalising factor, with equality exactly when the reference window IS the query vector *)
Theorem norm2_bound ref q k : is01 ref -> is01 q -> (length q <= length ref)%nat -> (k <= length ref - length q)%nat ->
  2 * nth k (xcorr ref q) 0 <= nth k (norm2 ref q) 0 /\
  (2 * nth k (xcorr ref q) 0 = nth k (norm2 ref q) 0 <-> window ref k (length q) = q).
Proof. intros Hr Hq Hl Hk. rewrite norm2_nth by exact Hk. destruct (xcorr_bounds ref q k Hr Hq Hk) as (B0 & B1 & B2). split; [lia|]. split.
  - intros E. rewrite xcorr_nth in * by exact Hk. unfold window in *.
    apply dot_both_window; [apply is01_skipn, Hr | exact Hq | rewrite skipn_length; lia | lia | lia].
  - intros E. rewrite E. rewrite xcorr_nth by exact Hk. rewrite <- (dot_firstn q (skipn k ref)). unfold window in E. rewrite E.
    rewrite dot_self by exact Hq. lia. Qed.

(* ---- the normalised correlation as an exact rational ---- *)
Lemma zipq_nth xs : forall fs k, (k < length xs)%nat -> (k < length fs)%nat ->
  nth k (zipq xs fs) 0%Q = (inject_Z (nth k xs 0%Z) / nth k fs 0%Q)%Q.
Proof. induction xs as [|x xs IH]; intros fs k H1 H2; [cbn in H1; lia|]. destruct fs as [|f fs]; [cbn in H2; lia|].
  destruct k as [|k]; [reflexivity|]. cbn [zipq nth]. apply IH; cbn in H1, H2; lia. Qed.
Theorem normalised_nth ref q k : (k <= length ref - length q)%nat ->
  nth k (normalised ref q) 0%Q = (inject_Z (nth k (xcorr ref q) 0%Z) / (inject_Z (nth k (norm2 ref q) 0%Z) / inject_Z 2))%Q.
Proof. intros Hk. unfold normalised, norm_factor. rewrite zipq_nth by (rewrite ?map_length, ?norm2_length, ?xcorr_length; lia). f_equal.
  rewrite (nth_indep _ 0%Q ((fun t => inject_Z t / inject_Z 2)%Q 0%Z)) by (rewrite map_length, norm2_length; lia).
  rewrite (map_nth (fun t => inject_Z t / inject_Z 2)%Q). reflexivity. Qed.

Lemma inj_nz t : 0 < t -> ~ (inject_Z t == 0)%Q.
Proof. intros H E. unfold Qeq, inject_Z in E. cbn in E. lia. Qed.
Lemma inj_pos t : 0 < t -> (0 < inject_Z t)%Q.
Proof. intros H. change 0%Q with (inject_Z 0). rewrite <- Zlt_Qlt. exact H. Qed.
Lemma q_div_half x t : 0 < t -> (inject_Z x / (inject_Z t / inject_Z 2) == inject_Z (2 * x) / inject_Z t)%Q.
Proof. intros H. rewrite inject_Z_mult. field. apply inj_nz, H. Qed.
Lemma q_div_le_1 x t : 0 < t -> x <= t -> (inject_Z x / inject_Z t <= 1)%Q.
Proof. intros H L. apply Qle_shift_div_r; [apply inj_pos, H|]. rewrite Qmult_1_l, <- Zle_Qle. exact L. Qed.
Lemma q_div_eq_1 x t : 0 < t -> x = t -> (inject_Z x / inject_Z t == 1)%Q.
Proof. intros H ->. apply Qmult_inv_r, inj_nz, H. Qed.
Lemma q_div_lt_1 x t : 0 < t -> x < t -> (inject_Z x / inject_Z t < 1)%Q.
Proof. intros H L. apply Qlt_shift_div_r; [apply inj_pos, H|]. rewrite Qmult_1_l, <- Zlt_Qlt. exact L. Qed.

(* wherever the factor is non-zero the normalised correlation is at most 1, and it is 1 exactly on an identical window *)
Theorem normalised_le_1 ref q k : is01 ref -> is01 q -> (length q <= length ref)%nat -> (k <= length ref - length q)%nat ->
  0 < nth k (norm2 ref q) 0 -> (nth k (normalised ref q) 0 <= 1)%Q.
Proof. intros Hr Hq Hl Hk Hp. rewrite normalised_nth by exact Hk. rewrite q_div_half by exact Hp.
  apply q_div_le_1; [exact Hp | apply (norm2_bound ref q k Hr Hq Hl Hk)]. Qed.
Theorem normalised_eq_1 ref q k : is01 ref -> is01 q -> (length q <= length ref)%nat -> (k <= length ref - length q)%nat ->
  0 < vsum q -> window ref k (length q) = q -> (nth k (normalised ref q) 0 == 1)%Q.
Proof. intros Hr Hq Hl Hk Hp Hw. assert (Hn : 0 < nth k (norm2 ref q) 0).
  { rewrite norm2_nth by exact Hk. pose proof (vsum_nonneg _ (is01_firstn (length q) _ (is01_skipn k ref Hr))). unfold window. lia. }
  rewrite normalised_nth by exact Hk. rewrite q_div_half by exact Hn. apply q_div_eq_1; [exact Hn|]. apply (norm2_bound ref q k Hr Hq Hl Hk), Hw. Qed.
Theorem normalised_lt_1 ref q k : is01 ref -> is01 q -> (length q <= length ref)%nat -> (k <= length ref - length q)%nat ->
  0 < nth k (norm2 ref q) 0 -> window ref k (length q) <> q -> (nth k (normalised ref q) 0 < 1)%Q.
Proof. intros Hr Hq Hl Hk Hp Hw. rewrite normalised_nth by exact Hk. rewrite q_div_half by exact Hp.
  destruct (norm2_bound ref q k Hr Hq Hl Hk) as (B & E). apply q_div_lt_1; [exact Hp|].
  destruct (Z.eq_dec (2 * nth k (xcorr ref q) 0) (nth k (norm2 ref q) 0)) as [Ee|Ne]; [exfalso; apply Hw, E, Ee | lia]. Qed.

(* the window semantics of `covers` *)
Lemma covers_window ref q k : (k + length q <= length ref)%nat -> window ref k (length q) = q -> covers ref q k.
Proof. intros Hl Hw i Hi H1. rewrite <- Hw in H1 at 1. unfold window in H1. rewrite nth_firstn_lt in H1 by exact Hi. rewrite nth_skipn' in H1. exact H1. Qed.

(* ---- scipy's correlate on the inputs the theorems speak about ---- *)
Theorem correlate_valid_xcorr ref q : q <> [] -> (length q <= length ref)%nat -> correlate_valid ref q = Ok (xcorr ref q).
Proof. intros Hq Hl. unfold correlate_valid. destruct ref as [|x ref]; [destruct q; [congruence | cbn in Hl; lia]|]. destruct q as [|y q]; [congruence|].
  destruct (length (y :: q) <=? length (x :: ref))%nat eqn:E; [reflexivity | apply Nat.leb_gt in E; lia]. Qed.

(* C10, part 6: the statements on the un-erased model outputs, in terms of what an XMAP record shows (`printed`). *)
From Coq Require Import ZArith QArith List Bool Lia Sorting.Permutation.
Import ListNotations.
Require Import Py Pairing Core Multi Coordinator PyProofs SrcErase LocalProofs1 LocalProofs2 LocalProofs3 LocalProofs4 LocalProofs5.
Open Scope Z_scope.

Definition recs (l : list Multi.row) : list precord := map printed l.
Notation file_recs := (list precord * option (list precord) * option (list precord))%type.
Definition out_recs (o : outputs) : file_recs := (recs (o_main o), option_map recs (o_1 o), option_map recs (o_2 o)).
(* the records of query id c in the three output files *)
Definition recs_of (c : Z) (o : outputs) : file_recs := out_recs (fam_out c o).

Lemma recs_er l : recs (map er_row l) = recs l.
Proof. unfold recs. rewrite map_map. apply map_ext, printed_er. Qed.
Lemma out_recs_er o : out_recs (er_out o) = out_recs o.
Proof. unfold out_recs, er_out. cbn [o_main o_1 o_2]. rewrite recs_er.
  destruct (o_1 o), (o_2 o); cbn [option_map]; rewrite ?recs_er; reflexivity. Qed.
Lemma fam_er c l : qfam c (map er_row l) = map er_row (qfam c l).
Proof. unfold fam. rewrite filter_map_comm. reflexivity. Qed.
Lemma fam_out_er c o : fam_out c (er_out o) = er_out (fam_out c o).
Proof. unfold fam_out, er_out. cbn [o_main o_1 o_2]. rewrite fam_er.
  destruct (o_1 o), (o_2 o); cbn [option_map]; rewrite ?fam_er; reflexivity. Qed.
Lemma recs_of_er c o : recs_of c (er_out o) = recs_of c o.
Proof. unfold recs_of. rewrite fam_out_er. apply out_recs_er. Qed.
Lemma rmap_ok_inv {A B} (f : A -> B) x b : rmap f x = Ok b -> exists a, x = Ok a /\ b = f a.
Proof. destruct x as [a|]; cbn; [|discriminate]. intros E. injection E as <-. exists a. auto. Qed.
Lemma rmap_err_inv {A B} (f : A -> B) x : rmap f x = Err -> x = Err.
Proof. destruct x; cbn; [discriminate | reflexivity]. Qed.
Lemma rmap_rmap {A B C} (f : A -> B) (g : B -> C) x : rmap g (rmap f x) = rmap (fun a => g (f a)) x.
Proof. destruct x; reflexivity. Qed.

Lemma rmap_ext {A B} (f g : A -> B) x : (forall a, f a = g a) -> rmap f x = rmap g x.
Proof. intros H. destruct x; cbn; [rewrite H|]; reflexivity. Qed.

Section S.
Variable P : params.
Variable seeds : seeding.
Variable refs : list omap.

(* ---- execute ---- *)
Theorem execute_local_printed ql q it it' rows it1 : NoDup (map mid ql) -> In q ql ->
  execute P seeds refs ql it = Ok (rows, it1) ->
  exists rq it2, execute P seeds refs [q] it' = Ok (rq, it2) /\ recs rq = recs (qfam (mid q) rows).
Proof. intros N Hq E.
  assert (X : ex P seeds refs ql it = Ok (map er_row rows)) by (unfold ex; rewrite E; reflexivity).
  rewrite ex_spec, cmapM_spec in X. destruct (forallb _ ql) eqn:F; [|discriminate]. injection X as X.
  rewrite forallb_forall in F. specialize (F q Hq).
  assert (Y : ex P seeds refs [q] it' = Ok (getl (ex1 P seeds refs) q)).
  { rewrite (ex_it P seeds refs [q] it' 1). fold (ex1 P seeds refs q). unfold getl. destruct (ex1 P seeds refs q); [reflexivity|discriminate]. }
  unfold ex in Y. apply rmap_ok_inv in Y. destruct Y as ([rq it2] & Eq & Er). cbn [fst] in Er. exists rq, it2. split; [exact Eq|].
  rewrite <- (recs_er rq), <- Er, <- (recs_er (qfam (mid q) rows)), <- fam_er, <- X.
  rewrite (fam_flat_map_items qid mid).
  - rewrite (nodup_filter_single mid (mid q) ql q N Hq eq_refl). cbn [flat_map]. rewrite app_nil_r. reflexivity.
  - intros b _. unfold getl. destruct (ex1 P seeds refs b) eqn:Eb; [apply (ex1_qid _ _ _ _ _ Eb) | intros w []]. Qed.

(* ---- Program.run ---- *)
Variable m : mode.
Variable md : Z.
Notation run := (program_run P seeds m md refs).

Theorem run_local_printed ql q o : NoDup (map mid ql) -> In q ql -> run ql = Ok o ->
  exists oq, run [q] = Ok oq /\ out_recs oq = recs_of (mid q) o.
Proof. intros N Hq E. assert (X : erun P seeds refs m md ql = Ok (er_out o)) by (unfold erun; rewrite E; reflexivity).
  apply (erun_local P seeds refs m md ql q _ N Hq) in X. unfold erun in X. apply rmap_ok_inv in X. destruct X as (oq & Eq & Eo).
  exists oq. split; [exact Eq|]. rewrite <- (out_recs_er oq), <- Eo. apply recs_of_er. Qed.
Theorem run_err_local ql : NoDup (map mid ql) -> run ql = Err -> exists q, In q ql /\ run [q] = Err.
Proof. intros N E. assert (X : erun P seeds refs m md ql = Err) by (unfold erun; rewrite E; reflexivity).
  destruct (erun_err P seeds refs m md ql N X) as (q & Hq & Eq). exists q. split; [exact Hq|]. apply (rmap_err_inv _ _ Eq). Qed.
Theorem run_perm_printed ql ql' : NoDup (map mid ql) -> Permutation ql ql' -> rmap out_recs (run ql) = rmap out_recs (run ql').
Proof. intros N Pm. pose proof (erun_perm P seeds refs m md ql ql' N Pm) as H. unfold erun in H.
  apply (f_equal (rmap out_recs)) in H. rewrite !rmap_rmap in H.
  rewrite (rmap_ext _ out_recs (run ql)), (rmap_ext _ out_recs (run ql')) in H by apply out_recs_er. exact H. Qed.
Theorem run_sub_printed ql ql' o : NoDup (map mid ql) -> NoDup (map mid ql') -> incl ql' ql -> run ql = Ok o ->
  exists o', run ql' = Ok o' /\ forall q, In q ql' -> recs_of (mid q) o' = recs_of (mid q) o.
Proof. intros N N' I E. assert (X : erun P seeds refs m md ql = Ok (er_out o)) by (unfold erun; rewrite E; reflexivity).
  destruct (erun_sub P seeds refs m md ql ql' _ N N' I X) as (eo' & E' & H). unfold erun in E'. apply rmap_ok_inv in E'.
  destruct E' as (o' & Eo' & ->). exists o'. split; [exact Eo'|]. intros q Hq. rewrite <- (recs_of_er _ o'), <- (recs_of_er _ o).
  unfold recs_of. rewrite (H q Hq). reflexivity. Qed.
End S.

(* post on nothing: empty files *)
Definition no_recs (m : mode) : file_recs := ([], match m with Best => None | _ => Some [] end, match m with All_ => Some [] | _ => None end).
Lemma post_nil_recs m md : rmap out_recs (post m md [] []) = Ok (no_recs m).
Proof. destruct m; vm_compute; reflexivity. Qed.
Lemma post_nil_recs_of m md k o : post m md [] [] = Ok (fam_out k o) -> recs_of k o = no_recs m.
Proof. intros E. pose proof (post_nil_recs m md) as H. rewrite E in H. cbn [rmap] in H. unfold recs_of. congruence. Qed.

(* ---- files ---- *)
Section F.
Variable P : params.
Variable seeds : seeding.
Variable m : mode.
Variable md : Z.
Notation frun := (run_files P seeds m md).

Theorem files_keep_printed p rrows qrows rids o : frun rrows qrows rids [] = Ok o ->
  exists o', frun rrows (keep_ids p qrows) rids [] = Ok o' /\
    (forall k, p k = true -> recs_of k o' = recs_of k o) /\ (forall k, p k = false -> recs_of k o' = no_recs m).
Proof. intros E. assert (X : erun_files P seeds m md rrows qrows rids [] = Ok (er_out o)) by (unfold erun_files; rewrite E; reflexivity).
  destruct (erun_files_keep P seeds m md p rrows qrows rids _ X) as (eo' & E' & H1 & H2). unfold erun_files in E'. apply rmap_ok_inv in E'.
  destruct E' as (o' & Eo' & ->). exists o'. split; [exact Eo'|]. split.
  - intros k Pk. rewrite <- (recs_of_er _ o'), <- (recs_of_er _ o). unfold recs_of. rewrite (H1 k Pk). reflexivity.
  - intros k Pk. rewrite <- (recs_of_er _ o'). apply (post_nil_recs_of m md), (H2 k Pk). Qed.
Theorem files_qid_printed rrows qrows rids qids o : qids <> [] -> frun rrows qrows rids [] = Ok o ->
  exists o', frun rrows qrows rids qids = Ok o' /\
    (forall k, In k qids -> recs_of k o' = recs_of k o) /\ (forall k, ~ In k qids -> recs_of k o' = no_recs m).
Proof. intros Hne E. destruct (files_keep_printed (listed qids) rrows qrows rids o E) as (o' & E' & H1 & H2).
  exists o'. rewrite (run_files_qid P seeds m md rrows qrows rids qids Hne). split; [exact E'|]. split.
  - intros k Hk. apply H1. apply CmapProofs.mem_id_In, Hk.
  - intros k Hk. apply H2. destruct (listed qids k) eqn:L; [|reflexivity]. apply CmapProofs.mem_id_In in L. contradiction. Qed.
End F.
